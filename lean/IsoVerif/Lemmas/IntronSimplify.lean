/-
Helper lemmas for the computed `IntronGraph.simplify()` (Model/IntronSimplify.lean): the operations the model performs
form a history in which every operation is justified in the state it is applied to (`Hist`, `OpJust`): collapses join
distinct vertices of one vertex set with both splice sites closer than `graph_clustering_distance`, discards hit isolated,
unannotated introns below `min_novel_isolated_intron_abs`, defaultdict reads hit vertices the graph has.  Core Lean only.
-/
import IsoVerif.Model.IntronSimplify
import IsoVerif.Lemmas.IntronGraph
import IsoVerif.Lemmas.IntronEdges

namespace IsoVerif.Lemmas.C04
open IsoVerif.Gen IsoVerif.Model IsoVerif.Model.C04

/-! ### small list facts -/

theorem mem_dedupIv {l : List Iv} {x : Iv} : x ∈ dedupIv l ↔ x ∈ l := by
  induction l generalizing x with
  | nil => simp [dedupIv]
  | cons a t ih =>
    simp only [dedupIv]
    split
    · rename_i h
      rw [ih] at h
      rw [ih]
      constructor
      · intro hx; exact List.mem_cons_of_mem _ hx
      · intro hx
        rcases List.mem_cons.1 hx with rfl | hx
        · exact h
        · exact hx
    · simp [ih]

theorem nodup_dedupIv (l : List Iv) : (dedupIv l).Nodup := by
  induction l with
  | nil => simp [dedupIv]
  | cons a t ih =>
    simp only [dedupIv]
    split
    · exact ih
    · rename_i h
      exact List.nodup_cons.2 ⟨h, ih⟩

theorem mem_addKeys {ks l : List Iv} {x : Iv} : x ∈ addKeys ks l ↔ x ∈ ks ∨ x ∈ l := by
  unfold addKeys
  induction l generalizing ks with
  | nil => simp
  | cons a t ih =>
    simp only [List.foldl_cons, ih, mem_setAdd, List.mem_cons]
    constructor
    · rintro ((h | h) | h)
      · exact Or.inl h
      · exact Or.inr (Or.inl h)
      · exact Or.inr (Or.inr h)
    · rintro (h | h | h)
      · exact Or.inl (Or.inl h)
      · exact Or.inl (Or.inr h)
      · exact Or.inr h

theorem mem_outOf {g : Graph} {v w : Iv} : w ∈ outOf g v ↔ (v, w) ∈ g.out := by
  simp only [outOf, List.mem_map, List.mem_filter]
  constructor
  · rintro ⟨p, ⟨hp, hk⟩, rfl⟩
    have : p.1 = v := by simpa using hk
    rw [← this]; exact hp
  · intro h; exact ⟨(v, w), ⟨h, by simp⟩, rfl⟩

theorem mem_incOf {g : Graph} {v w : Iv} : w ∈ incOf g v ↔ (v, w) ∈ g.inc := by
  simp only [incOf, List.mem_map, List.mem_filter]
  constructor
  · rintro ⟨p, ⟨hp, hk⟩, rfl⟩
    have : p.1 = v := by simpa using hk
    rw [← this]; exact hp
  · intro h; exact ⟨(v, w), ⟨h, by simp⟩, rfl⟩

theorem amHas_iff_key {α β} [DecidableEq α] {m : List (α × β)} {k : α} : amHas m k = true ↔ k ∈ amKeys m := by
  unfold amHas
  constructor
  · intro h
    cases hg : amGet? m k with
    | none => simp [hg] at h
    | some v => exact List.mem_map.2 ⟨(k, v), amGet?_mem hg, rfl⟩
  · intro h
    obtain ⟨v, hv⟩ := amGet?_isSome_of_key h
    simp [hv]

theorem key_amSet {α β} [DecidableEq α] {m : List (α × β)} {k j : α} {v : β} :
    j ∈ amKeys (amSet m k v) ↔ j = k ∨ j ∈ amKeys m := by
  induction m with
  | nil => simp [amSet, amKeys]
  | cons a t ih =>
    simp only [amSet]
    split
    · rename_i h
      simp only [amKeys, List.map_cons, List.mem_cons] at ih ⊢
      rw [h]; constructor
      · rintro (h' | h')
        · exact Or.inl h'
        · exact Or.inr (Or.inr h')
      · rintro (h' | h' | h')
        · exact Or.inl h'
        · exact Or.inl h'
        · exact Or.inr h'
    · simp only [amKeys, List.map_cons, List.mem_cons] at ih ⊢
      rw [ih]
      constructor
      · rintro (h' | h' | h')
        · exact Or.inr (Or.inl h')
        · exact Or.inl h'
        · exact Or.inr (Or.inr h')
      · rintro (h' | h' | h')
        · exact Or.inr (Or.inl h')
        · exact Or.inl h'
        · exact Or.inr (Or.inr h')

theorem key_amErase {α β} [DecidableEq α] {m : List (α × β)} {k j : α} :
    j ∈ amKeys (amErase m k) ↔ j ≠ k ∧ j ∈ amKeys m := by
  simp only [amKeys, amErase, List.mem_map, List.mem_filter]
  constructor
  · rintro ⟨p, ⟨hp, hne⟩, rfl⟩
    exact ⟨by simpa using hne, p, hp, rfl⟩
  · rintro ⟨hne, p, hp, rfl⟩
    exact ⟨p, ⟨hp, by simpa using hne⟩, rfl⟩

/-! ### the introns the collector knows: keys of `clustered_introns`, keys of the correction map, discarded introns -/

def cdom (c : Collector) (v : Iv) : Prop := v ∈ amKeys c.clustered ∨ v ∈ amKeys c.corr ∨ v ∈ c.discarded

theorem dom_verts {g : Graph} {v : Iv} (h : cdom g.col v) : v ∈ g.verts := by
  simp only [Graph.verts, Collector.verts, List.mem_append]
  rcases h with h | h | h
  · exact Or.inl (Or.inl (Or.inl (Or.inl h)))
  · exact Or.inl (Or.inl (Or.inl (Or.inr h)))
  · exact Or.inl (Or.inr h)

/-- both endpoints of every pair satisfy `Q` -/
def EAll (e : List (Iv × Iv)) (Q : Iv → Prop) : Prop := ∀ p ∈ e, Q p.1 ∧ Q p.2

theorem eall_mono {e : List (Iv × Iv)} {Q R : Iv → Prop} (h : EAll e Q) (hqr : ∀ v, Q v → R v) : EAll e R :=
  fun p hp => ⟨hqr _ (h p hp).1, hqr _ (h p hp).2⟩

theorem eall_filter {e : List (Iv × Iv)} {Q : Iv → Prop} (h : EAll e Q) (f : Iv × Iv → Bool) : EAll (e.filter f) Q :=
  fun p hp => h p (List.mem_filter.1 hp).1

theorem eall_setAdd {e : List (Iv × Iv)} {Q : Iv → Prop} (h : EAll e Q) {a b : Iv} (ha : Q a) (hb : Q b) :
    EAll (setAdd e (a, b)) Q := by
  intro p hp
  rcases mem_setAdd.1 hp with h' | h'
  · exact h p h'
  · subst h'; exact ⟨ha, hb⟩

theorem replaceMember_eall {Q : Iv → Prop} {m m' : List (Iv × Iv)} {k c s : Iv} (hm : EAll m Q) (hs : Q s)
    (h : replaceMember m k c s = some m') : EAll m' Q := by
  unfold replaceMember at h
  split at h
  · rename_i hk
    simp at h; subst h
    exact eall_setAdd (eall_filter hm _) (hm _ hk).1 hs
  · simp at h

theorem replaceMembers_eall {Q : Iv → Prop} (ks : List Iv) {m m' : List (Iv × Iv)} {c s : Iv} (hm : EAll m Q) (hs : Q s)
    (h : replaceMembers m c s ks = some m') : EAll m' Q := by
  induction ks generalizing m with
  | nil => simp [replaceMembers] at h; subst h; exact hm
  | cons k t ih =>
    simp only [replaceMembers] at h
    split at h
    · simp at h
    · rename_i m1 hm1
      exact ih (replaceMember_eall hm hs hm1) h

theorem foldl_setAdd_eall {Q : Iv → Prop} (l : List Iv) (s : Iv) (m : List (Iv × Iv)) (hm : EAll m Q) (hs : Q s)
    (hl : ∀ i ∈ l, Q i) : EAll (l.foldl (fun m i => setAdd m (s, i)) m) Q := by
  induction l generalizing m with
  | nil => simpa using hm
  | cons a t ih =>
    simp only [List.foldl_cons]
    exact ih _ (eall_setAdd hm hs (hl a (by simp))) (fun i hi => hl i (by simp [hi]))

theorem collapseVertex_eall {Q : Iv → Prop} {g g' : Graph} {c s : Iv} (ho : EAll g.out Q) (hi : EAll g.inc Q) (hs : Q s)
    (h : g.collapseVertex c s = some g') : EAll g'.out Q ∧ EAll g'.inc Q := by
  unfold Graph.collapseVertex at h
  simp only at h
  split at h
  · simp at h
  · rename_i inc1 hinc1
    split at h
    · simp at h
    · rename_i out2 hout2
      simp at h; subst h
      have hinc1' : EAll inc1 Q := replaceMembers_eall _ hi hs hinc1
      have hout1 : EAll ((outOf g c).foldl (fun m i => setAdd m (s, i)) g.out) Q :=
        foldl_setAdd_eall _ _ _ ho hs (fun i hi' => (ho _ (mem_outOf.1 hi')).2)
      refine ⟨replaceMembers_eall _ hout1 hs hout2, foldl_setAdd_eall _ _ _ hinc1' hs ?_⟩
      intro i hi'
      simp only [List.mem_map, List.mem_filter] at hi'
      obtain ⟨q, ⟨hq, _⟩, rfl⟩ := hi'
      exact (hinc1' q hq).2

/-! ### justified operations and histories -/

/-- what justifies an operation of the computed `simplify()` in the state it is applied to -/
def OpJust (P : SimpParams) (g : Graph) : Op → Prop
  | .collapse c s => c ≠ s ∧ nearD P.dist s c = true ∧ cdom g.col c ∧ cdom g.col s
  | .touch v => cdom g.col v
  | .discard v => v ∈ amKeys g.col.clustered ∧ v ∉ g.col.known ∧ cnt g.col.clustered v < P.isoAbs ∧ isIsolated g v = true
  | .delOut _ => True
  | .delInc _ => True
  | .simplifyMap => True
  | _ => False

/-- `ops` leads from `g0` to `g`, every operation justified where it is applied -/
inductive Hist (P : SimpParams) (g0 : Graph) : List Op → Graph → Prop where
  | nil : Hist P g0 [] g0
  | snoc {ops : List Op} {g g' : Graph} {op : Op} : Hist P g0 ops g → OpJust P g op → applyOp g op = some g' →
      Hist P g0 (ops ++ [op]) g'

/-- the operations that change neither the correction map nor the discarded set nor any count -/
def domLe (c c' : Collector) : Prop := ∀ v, cdom c v → cdom c' v

theorem domLe_refl (c : Collector) : domLe c c := fun _ h => h
theorem domLe_trans {a b c : Collector} (h1 : domLe a b) (h2 : domLe b c) : domLe a c :=
  fun v h => h2 v (h1 v h)

theorem touch_dom {c : Collector} {v x : Iv} : cdom (c.touch v) x ↔ cdom c x ∨ x = v := by
  unfold Collector.touch
  split
  · rename_i h
    constructor
    · exact Or.inl
    · rintro (h' | rfl)
      · exact h'
      · exact Or.inl (amHas_iff_key.1 h)
  · simp only [cdom, key_amSet]
    constructor
    · rintro ((h' | h') | h' | h')
      · exact Or.inr h'
      · exact Or.inl (Or.inl h')
      · exact Or.inl (Or.inr (Or.inl h'))
      · exact Or.inl (Or.inr (Or.inr h'))
    · rintro ((h' | h' | h') | h')
      · exact Or.inl (Or.inr h')
      · exact Or.inr (Or.inl h')
      · exact Or.inr (Or.inr h')
      · exact Or.inl (Or.inl h')

theorem discard_domLe (c : Collector) (v : Iv) : domLe c (c.discard v) := by
  intro x hx
  simp only [cdom, Collector.discard, key_amErase, mem_setAdd] at hx ⊢
  by_cases hxv : x = v
  · exact Or.inr (Or.inr (Or.inr hxv))
  · rcases hx with h | h | h
    · exact Or.inl ⟨hxv, h⟩
    · exact Or.inr (Or.inl h)
    · exact Or.inr (Or.inr (Or.inl h))

theorem addSubstitute_domLe (c : Collector) (o s : Iv) : domLe c (c.addSubstitute o s) := by
  intro x hx
  simp only [cdom, Collector.addSubstitute, key_amErase, key_amSet] at hx ⊢
  by_cases hxo : x = o
  · exact Or.inr (Or.inl (Or.inl hxo))
  · rcases hx with h | h | h
    · exact Or.inl ⟨hxo, Or.inr h⟩
    · exact Or.inr (Or.inl (Or.inr h))
    · exact Or.inr (Or.inr h)

theorem addSubstitute_dom_s (c : Collector) (o s : Iv) : cdom (c.addSubstitute o s) s := by
  simp only [cdom, Collector.addSubstitute, key_amErase, key_amSet]
  by_cases hso : s = o
  · exact Or.inr (Or.inl (Or.inl hso))
  · exact Or.inl ⟨hso, Or.inl trivial⟩

theorem collapseVertex_col {g g' : Graph} {c s : Iv} (h : g.collapseVertex c s = some g') :
    g'.col = g.col.addSubstitute c s := by
  unfold Graph.collapseVertex at h
  simp only at h
  split at h
  · simp at h
  · split at h
    · simp at h
    · simp at h; subst h; rfl

/-! ### the invariant of the computed simplify: keys and edge endpoints are introns the collector knows -/

structure SGInv (s : SG) : Prop where
  ok : ∀ v ∈ s.ok, cdom s.g.col v
  ik : ∀ v ∈ s.ik, cdom s.g.col v
  out : EAll s.g.out (cdom s.g.col)
  inc : EAll s.g.inc (cdom s.g.col)

structure Good (P : SimpParams) (g0 : Graph) (s : SG) : Prop where
  hist : Hist P g0 s.log s.g
  inv : SGInv s

/-- `s'` is a later state of the computation: still good, and the collector knows at least the introns it knew -/
def Step (P : SimpParams) (g0 : Graph) (s s' : SG) : Prop := Good P g0 s' ∧ domLe s.g.col s'.g.col

theorem Step.refl {P : SimpParams} {g0 : Graph} {s : SG} (h : Good P g0 s) : Step P g0 s s := ⟨h, domLe_refl _⟩

theorem Step.trans {P : SimpParams} {g0 : Graph} {a b c : SG} (h1 : Step P g0 a b) (h2 : Step P g0 b c) : Step P g0 a c :=
  ⟨h2.1, domLe_trans h1.2 h2.2⟩

theorem emit_spec {s s' : SG} {op : Op} (h : s.emit op = some s') :
    applyOp s.g op = some s'.g ∧ s'.log = s.log ++ [op] ∧ s'.ok = s.ok ∧ s'.ik = s.ik ∧ s'.fragile = s.fragile := by
  unfold SG.emit at h
  split at h
  · simp at h
  · rename_i g' hg
    simp at h; subst h
    exact ⟨hg, rfl, rfl, rfl, rfl⟩

theorem sginv_of {s s' : SG} (hi : SGInv s) (hle : domLe s.g.col s'.g.col) (hok : ∀ v ∈ s'.ok, v ∈ s.ok)
    (hik : ∀ v ∈ s'.ik, v ∈ s.ik) (ho : ∀ p ∈ s'.g.out, p ∈ s.g.out) (hin : ∀ p ∈ s'.g.inc, p ∈ s.g.inc) : SGInv s' :=
  ⟨fun v hv => hle v (hi.ok v (hok v hv)), fun v hv => hle v (hi.ik v (hik v hv)),
   fun p hp => ⟨hle _ (hi.out p (ho p hp)).1, hle _ (hi.out p (ho p hp)).2⟩,
   fun p hp => ⟨hle _ (hi.inc p (hin p hp)).1, hle _ (hi.inc p (hin p hp)).2⟩⟩

theorem emit_touch {P : SimpParams} {g0 : Graph} {s s' : SG} {v : Iv} (hs : Good P g0 s) (hv : cdom s.g.col v)
    (h : s.emit (.touch v) = some s') :
    Step P g0 s s' ∧ s'.g.out = s.g.out ∧ s'.g.inc = s.g.inc ∧ s'.ok = s.ok ∧ s'.ik = s.ik ∧
      s'.g.col = s.g.col.touch v := by
  obtain ⟨ha, hl, hok, hik, _⟩ := emit_spec h
  have hg : s'.g = { s.g with col := s.g.col.touch v } := by simpa [applyOp] using ha.symm
  have hle : domLe s.g.col s'.g.col := by
    intro x hx; rw [hg]; exact touch_dom.2 (Or.inl hx)
  refine ⟨⟨⟨?_, ?_⟩, hle⟩, by rw [hg], by rw [hg], hok, hik, by rw [hg]⟩
  · rw [hl]; exact Hist.snoc hs.hist hv ha
  · exact sginv_of hs.inv hle (by rw [hok]; exact fun _ h => h) (by rw [hik]; exact fun _ h => h)
      (by rw [hg]; exact fun _ h => h) (by rw [hg]; exact fun _ h => h)

theorem emit_del {P : SimpParams} {g0 : Graph} {s s' : SG} {op : Op} (hs : Good P g0 s)
    (hop : (∃ v, op = .delOut v) ∨ (∃ v, op = .delInc v)) (h : s.emit op = some s') :
    Step P g0 s s' ∧ s'.g.col = s.g.col ∧ (∀ p ∈ s'.g.out, p ∈ s.g.out) ∧ (∀ p ∈ s'.g.inc, p ∈ s.g.inc) ∧
      s'.ok = s.ok ∧ s'.ik = s.ik := by
  obtain ⟨ha, hl, hok, hik, _⟩ := emit_spec h
  have hj : OpJust P s.g op := by rcases hop with ⟨v, rfl⟩ | ⟨v, rfl⟩ <;> trivial
  have hcol : s'.g.col = s.g.col := by
    rcases hop with ⟨v, rfl⟩ | ⟨v, rfl⟩ <;> (simp [applyOp] at ha; rw [← ha])
  have hout : ∀ p ∈ s'.g.out, p ∈ s.g.out := by
    rcases hop with ⟨v, rfl⟩ | ⟨v, rfl⟩ <;> (simp [applyOp] at ha; rw [← ha]; intro p hp)
    · exact (List.mem_filter.1 hp).1
    · exact hp
  have hinc : ∀ p ∈ s'.g.inc, p ∈ s.g.inc := by
    rcases hop with ⟨v, rfl⟩ | ⟨v, rfl⟩ <;> (simp [applyOp] at ha; rw [← ha]; intro p hp)
    · exact hp
    · exact (List.mem_filter.1 hp).1
  have hle : domLe s.g.col s'.g.col := by rw [hcol]; exact domLe_refl _
  refine ⟨⟨⟨?_, ?_⟩, hle⟩, hcol, hout, hinc, hok, hik⟩
  · rw [hl]; exact Hist.snoc hs.hist hj ha
  · exact sginv_of hs.inv hle (by rw [hok]; exact fun _ h => h) (by rw [hik]; exact fun _ h => h) hout hinc

theorem emit_discard {P : SimpParams} {g0 : Graph} {s s' : SG} {v : Iv} (hs : Good P g0 s)
    (hj : OpJust P s.g (.discard v)) (h : s.emit (.discard v) = some s') :
    Step P g0 s s' ∧ s'.g.out = s.g.out ∧ s'.g.inc = s.g.inc ∧ s'.ok = s.ok ∧ s'.ik = s.ik ∧
      s'.g.col = s.g.col.discard v := by
  obtain ⟨ha, hl, hok, hik, _⟩ := emit_spec h
  have hg : s'.g = { s.g with col := s.g.col.discard v } := by simpa [applyOp] using ha.symm
  have hle : domLe s.g.col s'.g.col := by rw [hg]; exact discard_domLe _ _
  refine ⟨⟨⟨?_, ?_⟩, hle⟩, by rw [hg], by rw [hg], hok, hik, by rw [hg]⟩
  · rw [hl]; exact Hist.snoc hs.hist hj ha
  · exact sginv_of hs.inv hle (by rw [hok]; exact fun _ h => h) (by rw [hik]; exact fun _ h => h)
      (by rw [hg]; exact fun _ h => h) (by rw [hg]; exact fun _ h => h)

theorem emit_collapse {P : SimpParams} {g0 : Graph} {s s' : SG} {c t : Iv} (hs : Good P g0 s)
    (hj : OpJust P s.g (.collapse c t)) (h : s.emit (.collapse c t) = some s') :
    Step P g0 s s' ∧ s'.ok = s.ok ∧ s'.ik = s.ik ∧ s'.g.col = s.g.col.addSubstitute c t := by
  obtain ⟨ha, hl, hok, hik, _⟩ := emit_spec h
  have hcv : s.g.collapseVertex c t = some s'.g := by simpa [applyOp] using ha
  have hcol := collapseVertex_col hcv
  have hle : domLe s.g.col s'.g.col := by rw [hcol]; exact addSubstitute_domLe _ _ _
  have ht' : cdom s'.g.col t := by rw [hcol]; exact addSubstitute_dom_s _ _ _
  have he := collapseVertex_eall (Q := cdom s'.g.col) (eall_mono hs.inv.out hle) (eall_mono hs.inv.inc hle) ht' hcv
  refine ⟨⟨⟨?_, ?_⟩, hle⟩, hok, hik, hcol⟩
  · rw [hl]; exact Hist.snoc hs.hist hj ha
  · exact ⟨fun v hv => hle v (hs.inv.ok v (hok ▸ hv)), fun v hv => hle v (hs.inv.ik v (hik ▸ hv)), he.1, he.2⟩

/-- members of the set `incoming_edges[c]` after the first half of `collapse_vertex` -/
theorem collapse_incC_dom {s : SG} {c t : Iv} (hi : SGInv s) (ht : cdom s.g.col t) :
    ∀ v ∈ (match replaceMembers s.g.inc c t (outOf s.g c) with
      | some inc1 => (inc1.filter (fun p : Iv × Iv => p.1 = c)).map (fun p : Iv × Iv => p.2)
      | none => ([] : List Iv)), cdom s.g.col v := by
  intro v hv
  split at hv
  · rename_i inc1 h1
    have := replaceMembers_eall _ hi.inc ht h1
    simp only [List.mem_map, List.mem_filter] at hv
    obtain ⟨q, ⟨hq, _⟩, rfl⟩ := hv
    exact (this q hq).2
  · simp at hv

theorem collapse_good {P : SimpParams} {g0 : Graph} {s s' : SG} {c t : Iv} (hs : Good P g0 s)
    (hj : OpJust P s.g (.collapse c t)) (h : s.collapse c t = some s') : Step P g0 s s' := by
  unfold SG.collapse at h
  simp only at h
  split at h
  · simp at h
  · rename_i s1 h1
    simp at h; subst h
    obtain ⟨⟨hg1, hle⟩, hok, hik, _⟩ := emit_collapse hs hj h1
    have hc : cdom s.g.col c := hj.2.2.1
    have ht : cdom s.g.col t := hj.2.2.2
    refine ⟨⟨hg1.hist, ?_⟩, hle⟩
    refine ⟨?_, ?_, hg1.inv.out, hg1.inv.inc⟩
    · intro v hv
      simp only [mem_addKeys, List.mem_cons, List.not_mem_nil, or_false] at hv
      rcases hv with (hv | rfl | rfl) | hv
      · exact hg1.inv.ok v hv
      · exact hle _ ht
      · exact hle _ hc
      · exact hle _ (collapse_incC_dom hs.inv ht v hv)
    · intro v hv
      simp only [mem_addKeys, List.mem_cons, List.not_mem_nil, or_false] at hv
      rcases hv with (hv | hv) | rfl | rfl
      · exact hg1.inv.ik v hv
      · exact hle _ (hs.inv.out _ (mem_outOf.1 hv)).2
      · exact hle _ ht
      · exact hle _ hc

/-! ### collapse_vertex_set -/

theorem minCi?_mem {l : List (Int × Iv)} {m : Int × Iv} (h : minCi? l = some m) : m ∈ l := by
  induction l generalizing m with
  | nil => simp [minCi?] at h
  | cons a t ih =>
    simp only [minCi?] at h
    split at h
    · simp at h; subst h; simp
    · rename_i b hb
      split at h
      · simp at h; subst h; simp
      · simp at h; subst h; exact List.mem_cons_of_mem _ (ih hb)

theorem cvsCands_spec {P : SimpParams} {cl : List (Iv × Int)} {approved : List Iv} {count : Int} {v : Iv} {m : Int × Iv}
    (h : m ∈ cvsCands P cl approved count v) :
    m.2 ∈ approved ∧ nearD P.dist m.2 v = true ∧ count * 1000 < cnt cl m.2 * P.ratioM := by
  simp only [cvsCands, List.mem_map, List.mem_filter, Bool.and_eq_true, decide_eq_true_eq] at h
  obtain ⟨i, ⟨hi, hn, hc⟩, rfl⟩ := h
  exact ⟨hi, hn, hc⟩

/-- what `collapse_vertex_set` promises about a pair `(vertex, substitute)` over the vertex set `S` -/
def CvsPair (P : SimpParams) (cl : List (Iv × Int)) (S : List Iv) (p : Iv × Iv) : Prop :=
  p.1 ≠ p.2 ∧ nearD P.dist p.2 p.1 = true ∧ p.1 ∈ S ∧ p.2 ∈ S ∧ cnt cl p.1 * 1000 < cnt cl p.2 * P.ratioM

theorem cvsLoop_spec (P : SimpParams) (cl : List (Iv × Int)) (S : List Iv) (L : List (Int × Iv)) (approved : List Iv)
    (sub : List (Iv × Iv)) (fr : Bool) (hL : (L.map (·.2)).Nodup) (hdis : ∀ a ∈ approved, a ∉ L.map (·.2))
    (hcnt : ∀ e ∈ L, e.1 = cnt cl e.2) (hLS : ∀ e ∈ L, e.2 ∈ S) (hAS : ∀ a ∈ approved, a ∈ S)
    (hsub : ∀ p ∈ sub, CvsPair P cl S p) : ∀ p ∈ (cvsLoop P cl L approved sub fr).1, CvsPair P cl S p := by
  induction L generalizing approved sub fr with
  | nil => simpa [cvsLoop] using hsub
  | cons e t ih =>
    obtain ⟨count, v⟩ := e
    simp only [List.map_cons, List.nodup_cons] at hL
    simp only [cvsLoop]
    split
    · apply ih _ _ _ hL.2
      · intro a ha
        rcases List.mem_append.1 ha with ha | ha
        · intro hc; exact hdis a ha (by simp [hc])
        · simp at ha; subst ha; exact hL.1
      · exact fun e he => hcnt e (by simp [he])
      · exact fun e he => hLS e (by simp [he])
      · intro a ha
        rcases List.mem_append.1 ha with ha | ha
        · exact hAS a ha
        · simp at ha; subst ha; exact hLS (count, a) (by simp)
      · exact hsub
    · rename_i m hm
      obtain ⟨h1, h2, h3⟩ := cvsCands_spec (minCi?_mem hm)
      apply ih _ _ _ hL.2
      · intro a ha hc; exact hdis a ha (by simp [hc])
      · exact fun e he => hcnt e (by simp [he])
      · exact fun e he => hLS e (by simp [he])
      · exact hAS
      · intro p hp
        rcases mem_amSet hp with h' | h'
        · subst h'
          have hcv : count = cnt cl v := hcnt (count, v) (by simp)
          refine ⟨?_, h2, hLS (count, v) (by simp), hAS _ h1, ?_⟩
          · intro heq
            apply hdis m.2 h1
            simp only [List.map_cons, List.mem_cons]
            exact Or.inl heq.symm
          · rw [← hcv]; exact h3
        · exact hsub p h'

theorem mem_sortedByCount {all : List (Iv × Int)} {e : Int × Iv} : e ∈ sortedByCount all ↔ (e.2, e.1) ∈ all := by
  simp only [sortedByCount, List.mem_reverse, mem_insSort, List.mem_map]
  constructor
  · rintro ⟨p, hp, rfl⟩; exact hp
  · intro h; exact ⟨(e.2, e.1), h, rfl⟩

theorem sortedByCount_keys_perm (all : List (Iv × Int)) : ((sortedByCount all).map (·.2)).Perm (all.map (·.1)) := by
  unfold sortedByCount
  have h1 : (insSort ciLe (all.map (fun p => (p.2, p.1)))).reverse.Perm (all.map (fun p => (p.2, p.1))) :=
    (List.reverse_perm _).trans (insSort_perm _ _)
  have h2 := h1.map (fun e : Int × Iv => e.2)
  simpa [List.map_map, Function.comp_def] using h2

theorem cvs_pairs_spec {P : SimpParams} {cl : List (Iv × Int)} {vs : List Iv} {p : Iv × Iv}
    (h : p ∈ sortSubst (collapseVertexSet P cl vs).1) : CvsPair P cl vs p := by
  simp only [sortSubst, mem_insSort] at h
  unfold collapseVertexSet at h
  split at h
  · simp at h
  · have hperm := sortedByCount_keys_perm ((dedupIv vs).map (fun i => (i, cnt cl i)))
    have hmap : ((dedupIv vs).map (fun i => (i, cnt cl i))).map (·.1) = dedupIv vs := by
      simp [List.map_map, Function.comp_def]
    rw [hmap] at hperm
    refine cvsLoop_spec P cl vs _ [] [] false (hperm.nodup_iff.2 (nodup_dedupIv vs)) (by simp) ?_ ?_ (by simp) (by simp) p h
    · intro e he
      rw [mem_sortedByCount] at he
      simp only [List.mem_map] at he
      obtain ⟨i, _, hi⟩ := he
      have h1 : i = e.2 := congrArg Prod.fst hi
      have h2 : cnt cl i = e.1 := congrArg Prod.snd hi
      rw [← h2, h1]
    · intro e he
      have : e.2 ∈ (sortedByCount ((dedupIv vs).map (fun i => (i, cnt cl i)))).map (·.2) := List.mem_map.2 ⟨e, he, rfl⟩
      exact mem_dedupIv.1 (hperm.mem_iff.1 this)

/-! ### the loops of `clean_tips_and_bulges` -/

theorem touchOps_spec {g : Graph} {vs : List Iv} {op : Op} (h : op ∈ touchOps g vs) : ∃ v, op = .touch v ∧ v ∈ vs := by
  simp only [touchOps, List.mem_map, List.mem_filter] at h
  obtain ⟨v, ⟨hv, _⟩, rfl⟩ := h
  exact ⟨v, rfl, mem_dedupIv.1 hv⟩

theorem emitAll_touches {P : SimpParams} {g0 : Graph} (ops : List Op) {s s' : SG} (hs : Good P g0 s)
    (hops : ∀ op ∈ ops, ∃ v, op = .touch v ∧ cdom s.g.col v) (h : s.emitAll ops = some s') :
    Step P g0 s s' ∧ s'.g.out = s.g.out ∧ s'.g.inc = s.g.inc ∧ s'.ok = s.ok ∧ s'.ik = s.ik ∧
      s'.g.col.known = s.g.col.known ∧ s'.fragile = s.fragile := by
  induction ops generalizing s with
  | nil => simp [SG.emitAll] at h; subst h; exact ⟨Step.refl hs, rfl, rfl, rfl, rfl, rfl, rfl⟩
  | cons op t ih =>
    simp only [SG.emitAll] at h
    split at h
    · simp at h
    · rename_i s1 h1
      obtain ⟨v, rfl, hv⟩ := hops op (by simp)
      obtain ⟨hst, e1, e2, e3, e4, e5⟩ := emit_touch hs hv h1
      have hfr := (emit_spec h1).2.2.2.2
      obtain ⟨hst', f1, f2, f3, f4, f5, f6⟩ := ih hst.1 (fun op' ho => by
        obtain ⟨w, hw, hd⟩ := hops op' (by simp [ho])
        exact ⟨w, hw, hst.2 w hd⟩) h
      refine ⟨hst.trans hst', by rw [f1, e1], by rw [f2, e2], by rw [f3, e3], by rw [f4, e4], ?_, by rw [f6, hfr]⟩
      rw [f5, e5]; unfold Collector.touch; split <;> rfl

theorem collapseAll_good {P : SimpParams} {g0 : Graph} (l : List (Iv × Iv)) {s s' : SG} {rem rem' : List Iv}
    (hs : Good P g0 s)
    (hl : ∀ p ∈ l, p.1 ≠ p.2 ∧ nearD P.dist p.2 p.1 = true ∧ cdom s.g.col p.1 ∧ cdom s.g.col p.2)
    (h : collapseAll l (s, rem) = some (s', rem')) : Step P g0 s s' := by
  induction l generalizing s rem with
  | nil => simp [collapseAll] at h; rw [← h.1]; exact Step.refl hs
  | cons e t ih =>
    obtain ⟨i, x⟩ := e
    simp only [collapseAll] at h
    split at h
    · exact ih hs (fun p hp => hl p (by simp [hp])) h
    · split at h
      · simp at h
      · rename_i s1 h1
        have hj : OpJust P s.g (.collapse i x) := hl (i, x) (by simp)
        have hst := collapse_good hs hj h1
        exact hst.trans (ih hst.1 (fun p hp => by
          obtain ⟨a, b, c, d⟩ := hl p (by simp [hp])
          exact ⟨a, b, hst.2 _ c, hst.2 _ d⟩) h)

theorem collapseSet_good {P : SimpParams} {g0 : Graph} {vs : List Iv} {s s' : SG} {rem rem' : List Iv} (hs : Good P g0 s)
    (hvs : ∀ v ∈ vs, cdom s.g.col v) (h : collapseSet P vs (s, rem) = some (s', rem')) : Step P g0 s s' := by
  unfold collapseSet at h
  split at h
  · simp at h; rw [← h.1]; exact Step.refl hs
  · simp only at h
    split at h
    · simp at h
    · rename_i s1 h1
      obtain ⟨hst, _⟩ := emitAll_touches _ hs (fun op ho => by
        obtain ⟨v, rfl, hv⟩ := touchOps_spec ho
        exact ⟨v, rfl, hvs v hv⟩) h1
      have hs1' : Good P g0 { s1 with fragile := s1.fragile || (collapseVertexSet P s1.g.col.clustered vs).2 } :=
        ⟨hst.1.hist, ⟨hst.1.inv.ok, hst.1.inv.ik, hst.1.inv.out, hst.1.inv.inc⟩⟩
      have := collapseAll_good _ hs1' (fun p hp => by
        obtain ⟨a, b, c, d, _⟩ := cvs_pairs_spec hp
        exact ⟨a, b, hst.2 _ (hvs _ c), hst.2 _ (hvs _ d)⟩) h
      exact ⟨this.1, domLe_trans hst.2 this.2⟩

theorem tipsStep_good {P : SimpParams} {g0 : Graph} {o : Bool} {s s' : SG} {rem rem' : List Iv} {cur : Iv}
    (hs : Good P g0 s) (h : tipsStep P o (s, rem) cur = some (s', rem')) : Step P g0 s s' := by
  unfold tipsStep at h
  refine collapseSet_good hs ?_ h
  intro v hv
  simp only at hv
  split at hv
  · exact (hs.inv.out _ (mem_outOf.1 hv)).2
  · exact (hs.inv.inc _ (mem_incOf.1 hv)).2

theorem tipsLoop_good {P : SimpParams} {g0 : Graph} {o : Bool} (l : List Iv) {s s' : SG} {rem rem' : List Iv}
    (hs : Good P g0 s) (h : tipsLoop P o l (s, rem) = some (s', rem')) : Step P g0 s s' := by
  induction l generalizing s rem with
  | nil => simp [tipsLoop] at h; rw [← h.1]; exact Step.refl hs
  | cons cur t ih =>
    simp only [tipsLoop] at h
    split at h
    · simp at h
    · rename_i st' h1
      obtain ⟨s1, rem1⟩ := st'
      have hst := tipsStep_good hs h1
      exact hst.trans (ih hst.1 h)

theorem emitAll_dels {P : SimpParams} {g0 : Graph} (ops : List Op) {s s' : SG} (hs : Good P g0 s)
    (hops : ∀ op ∈ ops, (∃ v, op = .delOut v) ∨ (∃ v, op = .delInc v)) (h : s.emitAll ops = some s') :
    Step P g0 s s' ∧ s'.g.col = s.g.col ∧ (∀ p ∈ s'.g.out, p ∈ s.g.out) ∧ (∀ p ∈ s'.g.inc, p ∈ s.g.inc) ∧
      s'.ok = s.ok ∧ s'.ik = s.ik := by
  induction ops generalizing s with
  | nil => simp [SG.emitAll] at h; subst h; exact ⟨Step.refl hs, rfl, fun _ h => h, fun _ h => h, rfl, rfl⟩
  | cons op t ih =>
    simp only [SG.emitAll] at h
    split at h
    · simp at h
    · rename_i s1 h1
      obtain ⟨hst, e1, e2, e3, e4, e5⟩ := emit_del hs (hops op (by simp)) h1
      obtain ⟨hst', f1, f2, f3, f4, f5⟩ := ih hst.1 (fun op' ho => hops op' (by simp [ho])) h
      exact ⟨hst.trans hst', by rw [f1, e1], fun p hp => e2 p (f2 p hp), fun p hp => e3 p (f3 p hp), by rw [f4, e4],
        by rw [f5, e5]⟩

theorem delVertex_good {P : SimpParams} {g0 : Graph} {s s' : SG} {v : Iv} (hs : Good P g0 s)
    (h : s.delVertex v = some s') :
    Step P g0 s s' ∧ s'.g.col = s.g.col ∧ (∀ p ∈ s'.g.out, p ∈ s.g.out) ∧ (∀ p ∈ s'.g.inc, p ∈ s.g.inc) := by
  unfold SG.delVertex at h
  split at h
  · simp at h
  · rename_i s1 h1
    simp at h; subst h
    obtain ⟨hst, e1, e2, e3, e4, e5⟩ := emitAll_dels _ hs (fun op ho => by
      simp only [List.mem_cons, List.not_mem_nil, or_false] at ho
      rcases ho with rfl | rfl
      · exact Or.inl ⟨v, rfl⟩
      · exact Or.inr ⟨v, rfl⟩) h1
    refine ⟨⟨⟨hst.1.hist, ?_⟩, hst.2⟩, e1, e2, e3⟩
    exact ⟨fun x hx => hst.1.inv.ok x (List.mem_filter.1 hx).1, fun x hx => hst.1.inv.ik x (List.mem_filter.1 hx).1,
      hst.1.inv.out, hst.1.inv.inc⟩

theorem delVertices_good {P : SimpParams} {g0 : Graph} (l : List Iv) {s s' : SG} (hs : Good P g0 s)
    (h : s.delVertices l = some s') :
    Step P g0 s s' ∧ s'.g.col = s.g.col ∧ (∀ p ∈ s'.g.out, p ∈ s.g.out) ∧ (∀ p ∈ s'.g.inc, p ∈ s.g.inc) := by
  induction l generalizing s with
  | nil => simp [SG.delVertices] at h; subst h; exact ⟨Step.refl hs, rfl, fun _ h => h, fun _ h => h⟩
  | cons v t ih =>
    simp only [SG.delVertices] at h
    split at h
    · simp at h
    · rename_i s1 h1
      obtain ⟨hst, e1, e2, e3⟩ := delVertex_good hs h1
      obtain ⟨hst', f1, f2, f3⟩ := ih hst.1 h
      exact ⟨hst.trans hst', by rw [f1, e1], fun p hp => e2 p (f2 p hp), fun p hp => e3 p (f3 p hp)⟩

theorem tipsPhase_good {P : SimpParams} {g0 : Graph} {o : Bool} {s s' : SG} (hs : Good P g0 s)
    (h : tipsPhase P o s = some s') : Step P g0 s s' := by
  unfold tipsPhase at h
  split at h
  · simp at h
  · rename_i s1 rem h1
    have hst := tipsLoop_good _ hs h1
    exact hst.trans (delVertices_good _ hst.1 h).1

/-! ### remove_singleton_dead_ends -/

theorem deadWalk_visited {g : Graph} {o : Bool} (Q : Iv → Prop)
    (hE : ∀ v w, w ∈ (if o then outOf g v else incOf g v) → Q w) :
    ∀ (fuel : Nat) (path : List Iv) (v : Iv) (vis p : List Iv), (∀ x ∈ path, Q x) → Q v →
      deadWalk g o fuel path v = .done vis p → ∀ x ∈ vis, Q x := by
  intro fuel
  induction fuel with
  | zero => intro path v vis p _ _ h; simp [deadWalk] at h
  | succ n ih =>
    intro path v vis p hpath hv h
    have hpv : ∀ x ∈ path ++ [v], Q x := by
      intro x hx
      rcases List.mem_append.1 hx with hx | hx
      · exact hpath x hx
      · simp at hx; subst hx; exact hv
    simp only [deadWalk] at h
    split at h
    · split at h
      · simp at h
      · split at h
        · simp at h; rw [← h.1]; exact hpv
        · rename_i w heq
          exact ih _ w vis p hpv (hE v w (by rw [heq]; simp)) h
        · simp at h; rw [← h.1]; exact hpv
    · simp at h; rw [← h.1]; exact hpv

theorem walkAll_visited {g : Graph} {o : Bool} (Q : Iv → Prop)
    (hE : ∀ v w, w ∈ (if o then outOf g v else incOf g v) → Q w) (l : List Iv) {vis : List Iv} {paths : List (List Iv)}
    (hl : ∀ i ∈ l, Q i) (h : walkAll g o l = some (vis, paths)) : ∀ x ∈ vis, Q x := by
  induction l generalizing vis paths with
  | nil => simp [walkAll] at h; rw [h.1]; simp
  | cons i t ih =>
    simp only [walkAll] at h
    split at h
    · rename_i v1 p1 vs ps h1 h2
      simp at h
      rw [← h.1]
      intro x hx
      rcases List.mem_append.1 hx with hx | hx
      · exact deadWalk_visited Q hE _ [] i v1 p1 (by simp) (hl i (by simp)) h1 x hx
      · exact ih (fun j hj => hl j (by simp [hj])) h2 x hx
    · simp at h

theorem deadStep_good {P : SimpParams} {g0 : Graph} {o : Bool} {s s' : SG} {tc tc' : List (Iv × List Iv)} {cur : Iv}
    (hs : Good P g0 s) (hcur : cdom s.g.col cur) (htc : ∀ e ∈ tc, cdom s.g.col e.1)
    (h : deadStep P o (s, tc) cur = some (s', tc')) : Step P g0 s s' ∧ ∀ e ∈ tc', cdom s'.g.col e.1 := by
  unfold deadStep at h
  simp only at h
  split at h
  · simp at h
  · rename_i s1 h1
    obtain ⟨hst1, _⟩ := emitAll_touches _ hs (fun op ho => by
      obtain ⟨v, rfl, hv⟩ := touchOps_spec ho
      simp at hv; subst hv
      exact ⟨v, rfl, hcur⟩) h1
    split at h
    · simp at h
      rw [← h.1, ← h.2]
      exact ⟨hst1, fun e he => hst1.2 _ (htc e he)⟩
    · split at h
      · simp at h
      · rename_i vis paths hw
        have hvis : ∀ x ∈ vis, cdom s1.g.col x := by
          refine walkAll_visited (cdom s1.g.col) ?_ _ ?_ hw
          · intro v w hw'
            split at hw'
            · exact (hst1.1.inv.out _ (mem_outOf.1 hw')).2
            · exact (hst1.1.inv.inc _ (mem_incOf.1 hw')).2
          · intro i hi
            split at hi
            · exact (hst1.1.inv.out _ (mem_outOf.1 hi)).2
            · exact (hst1.1.inv.inc _ (mem_incOf.1 hi)).2
        split at h
        · simp at h
        · rename_i s2 h2
          obtain ⟨hst2, _⟩ := emitAll_touches _ hst1.1 (fun op ho => by
            obtain ⟨v, rfl, hv⟩ := touchOps_spec ho
            exact ⟨v, rfl, hvis v hv⟩) h2
          have hs3 : Good P g0 (if o = true then { s2 with ok := addKeys s2.ok vis } else { s2 with ik := addKeys s2.ik vis }) := by
            split
            · refine ⟨hst2.1.hist, ⟨?_, hst2.1.inv.ik, hst2.1.inv.out, hst2.1.inv.inc⟩⟩
              intro v hv
              rcases mem_addKeys.1 hv with hv | hv
              · exact hst2.1.inv.ok v hv
              · exact hst2.2 _ (hvis v hv)
            · refine ⟨hst2.1.hist, ⟨hst2.1.inv.ok, ?_, hst2.1.inv.out, hst2.1.inv.inc⟩⟩
              intro v hv
              rcases mem_addKeys.1 hv with hv | hv
              · exact hst2.1.inv.ik v hv
              · exact hst2.2 _ (hvis v hv)
          have hcol3 : (if o = true then { s2 with ok := addKeys s2.ok vis } else { s2 with ik := addKeys s2.ik vis } : SG).g = s2.g := by
            split <;> rfl
          have hle : domLe s.g.col (if o = true then { s2 with ok := addKeys s2.ok vis } else { s2 with ik := addKeys s2.ik vis } : SG).g.col := by
            rw [hcol3]; exact domLe_trans hst1.2 hst2.2
          split at h
          · simp at h
            rw [← h.1, ← h.2]
            exact ⟨⟨hs3, hle⟩, fun e he => hle _ (htc e he)⟩
          · simp at h
            rw [← h.1, ← h.2]
            refine ⟨⟨hs3, hle⟩, ?_⟩
            intro e he
            rcases List.mem_append.1 he with he | he
            · exact hle _ (htc e he)
            · simp at he; subst he; exact hle _ hcur

theorem deadLoop_good {P : SimpParams} {g0 : Graph} {o : Bool} (l : List Iv) {s s' : SG} {tc tc' : List (Iv × List Iv)}
    (hs : Good P g0 s) (hl : ∀ cur ∈ l, cdom s.g.col cur) (htc : ∀ e ∈ tc, cdom s.g.col e.1)
    (h : deadLoop P o l (s, tc) = some (s', tc')) : Step P g0 s s' ∧ ∀ e ∈ tc', cdom s'.g.col e.1 := by
  induction l generalizing s tc with
  | nil => simp [deadLoop] at h; rw [← h.1, ← h.2]; exact ⟨Step.refl hs, htc⟩
  | cons cur t ih =>
    simp only [deadLoop] at h
    split at h
    · simp at h
    · rename_i st' h1
      obtain ⟨s1, tc1⟩ := st'
      obtain ⟨hst, htc1⟩ := deadStep_good hs (hl cur (by simp)) htc h1
      obtain ⟨hst', htc'⟩ := ih hst.1 (fun c hc => hst.2 _ (hl c (by simp [hc]))) htc1 h
      exact ⟨hst.trans hst', htc'⟩

theorem emitIf_del {P : SimpParams} {g0 : Graph} {s s' : SG} {b : Bool} {op : Op} (hs : Good P g0 s)
    (hop : (∃ v, op = .delOut v) ∨ (∃ v, op = .delInc v)) (h : (if b then s.emit op else some s) = some s') :
    Step P g0 s s' ∧ s'.g.col = s.g.col ∧ s'.ok = s.ok ∧ s'.ik = s.ik := by
  split at h
  · obtain ⟨hst, e1, _, _, e4, e5⟩ := emit_del hs hop h
    exact ⟨hst, e1, e4, e5⟩
  · simp at h; subst h; exact ⟨Step.refl hs, rfl, rfl, rfl⟩

theorem delIfKey_good {P : SimpParams} {g0 : Graph} {s s' : SG} {i : Iv} (hs : Good P g0 s) (h : s.delIfKey i = some s') :
    Step P g0 s s' ∧ s'.g.col = s.g.col := by
  unfold SG.delIfKey at h
  split at h
  · simp at h
  · rename_i s1 h1
    split at h
    · simp at h
    · rename_i s2 h2
      simp at h; subst h
      have a := emitIf_del (b := decide (i ∈ s.ok)) hs (Or.inl ⟨i, rfl⟩) (by simpa using h1)
      have b := emitIf_del (b := decide (i ∈ s1.ik)) a.1.1 (Or.inr ⟨i, rfl⟩) (by simpa using h2)
      refine ⟨⟨⟨b.1.1.hist, ?_⟩, domLe_trans a.1.2 b.1.2⟩, by rw [← a.2.1, ← b.2.1]⟩
      exact ⟨fun x hx => b.1.1.inv.ok x (List.mem_filter.1 hx).1, fun x hx => b.1.1.inv.ik x (List.mem_filter.1 hx).1,
        b.1.1.inv.out, b.1.1.inv.inc⟩

theorem delIfKeys_good {P : SimpParams} {g0 : Graph} (l : List Iv) {s s' : SG} (hs : Good P g0 s)
    (h : s.delIfKeys l = some s') : Step P g0 s s' ∧ s'.g.col = s.g.col := by
  induction l generalizing s with
  | nil => simp [SG.delIfKeys] at h; subst h; exact ⟨Step.refl hs, rfl⟩
  | cons i t ih =>
    simp only [SG.delIfKeys] at h
    split at h
    · simp at h
    · rename_i s1 h1
      obtain ⟨hst, e1⟩ := delIfKey_good hs h1
      obtain ⟨hst', f1⟩ := ih hst.1 h
      exact ⟨hst.trans hst', by rw [f1, e1]⟩

theorem deadClean_good {P : SimpParams} {g0 : Graph} {o : Bool} {s s' : SG} {e : Iv × List Iv} (hs : Good P g0 s)
    (he : cdom s.g.col e.1) (h : deadClean o s e = some s') : Step P g0 s s' ∧ s'.g.col = s.g.col := by
  unfold deadClean at h
  simp only at h
  split at h
  · simp at h
  · rename_i s1 h1
    have a := emitIf_del (b := decide (e.1 ∈ (if o = true then s.ok else s.ik)))
      (op := if o = true then Op.delOut e.1 else Op.delInc e.1) hs
      (by cases o
          · exact Or.inr ⟨e.1, by simp⟩
          · exact Or.inl ⟨e.1, by simp⟩) (by simpa using h1)
    have hs2 : Good P g0 (if o = true then { s1 with ok := setAdd s1.ok e.1 } else { s1 with ik := setAdd s1.ik e.1 }) := by
      split
      · refine ⟨a.1.1.hist, ⟨?_, a.1.1.inv.ik, a.1.1.inv.out, a.1.1.inv.inc⟩⟩
        intro v hv
        rcases mem_setAdd.1 hv with hv | hv
        · exact a.1.1.inv.ok v hv
        · subst hv; exact a.1.2 _ he
      · refine ⟨a.1.1.hist, ⟨a.1.1.inv.ok, ?_, a.1.1.inv.out, a.1.1.inv.inc⟩⟩
        intro v hv
        rcases mem_setAdd.1 hv with hv | hv
        · exact a.1.1.inv.ik v hv
        · subst hv; exact a.1.2 _ he
    have hcol2 : (if o = true then { s1 with ok := setAdd s1.ok e.1 } else { s1 with ik := setAdd s1.ik e.1 } : SG).g = s1.g := by
      split <;> rfl
    obtain ⟨hst, e1⟩ := delIfKeys_good _ hs2 h
    refine ⟨⟨hst.1, ?_⟩, by rw [e1, hcol2, a.2.1]⟩
    have := hst.2
    rw [hcol2] at this
    exact domLe_trans a.1.2 this

theorem deadCleanAll_good {P : SimpParams} {g0 : Graph} {o : Bool} (l : List (Iv × List Iv)) {s s' : SG} (hs : Good P g0 s)
    (hl : ∀ e ∈ l, cdom s.g.col e.1) (h : deadCleanAll o l s = some s') : Step P g0 s s' := by
  induction l generalizing s with
  | nil => simp [deadCleanAll] at h; subst h; exact Step.refl hs
  | cons e t ih =>
    simp only [deadCleanAll] at h
    split at h
    · simp at h
    · rename_i s1 h1
      obtain ⟨hst, e1⟩ := deadClean_good hs (hl e (by simp)) h1
      exact hst.trans (ih hst.1 (fun e' he' => by rw [e1]; exact hl e' (by simp [he'])) h)

theorem deadPhase_good {P : SimpParams} {g0 : Graph} {o : Bool} {s s' : SG} (hs : Good P g0 s)
    (h : deadPhase P o s = some s') : Step P g0 s s' := by
  unfold deadPhase at h
  split at h
  · simp at h
  · rename_i s1 tc h1
    obtain ⟨hst, htc⟩ := deadLoop_good _ hs (fun cur hc => by
      rw [mem_sortIv] at hc
      split at hc
      · exact hs.inv.ok cur hc
      · exact hs.inv.ik cur hc) (by simp) h1
    exact hst.trans (deadCleanAll_good _ hst.1 htc h)

/-! ### remove_isolates -/

theorem collapseVertex_isolated {g g' : Graph} {c s : Iv} (ho : outOf g c = []) (hi : incOf g c = [])
    (h : g.collapseVertex c s = some g') : g'.out = g.out ∧ g'.inc = g.inc := by
  unfold Graph.collapseVertex at h
  have hi' : (g.inc.filter (fun p => p.1 = c)).map (·.2) = [] := hi
  simp only [ho, replaceMembers, List.foldl_nil, hi'] at h
  simp at h; subst h; exact ⟨rfl, rfl⟩

theorem isIsolated_iff {g : Graph} {v : Iv} : isIsolated g v = true ↔ outOf g v = [] ∧ incOf g v = [] := by
  simp [isIsolated, List.isEmpty_iff]

theorem isIsolated_congr {g g' : Graph} (ho : g'.out = g.out) (hi : g'.inc = g.inc) (v : Iv) :
    isIsolated g' v = isIsolated g v := by
  simp [isIsolated, outOf, incOf, ho, hi]

theorem isIsolated_of_subset {g g' : Graph} {v : Iv} (ho : ∀ p ∈ g'.out, p ∈ g.out) (hi : ∀ p ∈ g'.inc, p ∈ g.inc)
    (h : isIsolated g v = true) : isIsolated g' v = true := by
  rw [isIsolated_iff] at h ⊢
  constructor
  · apply List.eq_nil_iff_forall_not_mem.2
    intro w hw
    have := mem_outOf.2 (ho _ (mem_outOf.1 hw))
    rw [h.1] at this; simp at this
  · apply List.eq_nil_iff_forall_not_mem.2
    intro w hw
    have := mem_incOf.2 (hi _ (mem_incOf.1 hw))
    rw [h.2] at this; simp at this

theorem collapse_isolated_edges {s s' : SG} {c t : Iv} (hc : isIsolated s.g c = true) (h : s.collapse c t = some s') :
    s'.g.out = s.g.out ∧ s'.g.inc = s.g.inc := by
  unfold SG.collapse at h
  simp only at h
  split at h
  · simp at h
  · rename_i s1 h1
    simp at h; subst h
    have ha := (emit_spec h1).1
    have hcv : s.g.collapseVertex c t = some s1.g := by simpa [applyOp] using ha
    exact collapseVertex_isolated (isIsolated_iff.1 hc).1 (isIsolated_iff.1 hc).2 hcv

theorem collapseAll_isolated (l : List (Iv × Iv)) {s s' : SG} {rem rem' : List Iv}
    (hl : ∀ p ∈ l, isIsolated s.g p.1 = true) (h : collapseAll l (s, rem) = some (s', rem')) :
    s'.g.out = s.g.out ∧ s'.g.inc = s.g.inc := by
  induction l generalizing s rem with
  | nil => simp [collapseAll] at h; rw [← h.1]; exact ⟨rfl, rfl⟩
  | cons e t ih =>
    obtain ⟨i, x⟩ := e
    simp only [collapseAll] at h
    split at h
    · exact ih (fun p hp => hl p (by simp [hp])) h
    · split at h
      · simp at h
      · rename_i s1 h1
        obtain ⟨e1, e2⟩ := collapse_isolated_edges (hl (i, x) (by simp)) h1
        obtain ⟨f1, f2⟩ := ih (fun p hp => by rw [isIsolated_congr e1 e2]; exact hl p (by simp [hp])) h
        exact ⟨by rw [f1, e1], by rw [f2, e2]⟩

theorem collapseSet_isolated {P : SimpParams} {g0 : Graph} {vs : List Iv} {s s' : SG} {rem rem' : List Iv}
    (hs : Good P g0 s) (hvs : ∀ v ∈ vs, cdom s.g.col v) (hiso : ∀ v ∈ vs, isIsolated s.g v = true)
    (h : collapseSet P vs (s, rem) = some (s', rem')) : s'.g.out = s.g.out ∧ s'.g.inc = s.g.inc := by
  unfold collapseSet at h
  split at h
  · simp at h; rw [← h.1]; exact ⟨rfl, rfl⟩
  · simp only at h
    split at h
    · simp at h
    · rename_i s1 h1
      obtain ⟨_, e1, e2, _⟩ := emitAll_touches (P := P) (g0 := g0) _ hs (fun op ho => by
        obtain ⟨v, rfl, hv⟩ := touchOps_spec ho
        exact ⟨v, rfl, hvs v hv⟩) h1
      obtain ⟨f1, f2⟩ := collapseAll_isolated _ (s := { s1 with fragile := s1.fragile || (collapseVertexSet P s1.g.col.clustered vs).2 })
        (fun p hp => by
          have := (cvs_pairs_spec hp).2.2.1
          show isIsolated s1.g p.1 = true
          rw [isIsolated_congr e1 e2]; exact hiso _ this) h
      exact ⟨by rw [f1]; exact e1, by rw [f2]; exact e2⟩

theorem cnt_amErase_ne (m : List (Iv × Int)) {v w : Iv} (h : w ≠ v) : cnt (amErase m v) w = cnt m w := by
  simp [cnt, amGet?_amErase, h]

theorem emitAll_discards {P : SimpParams} {g0 : Graph} (l : List Iv) {s s' : SG} (hs : Good P g0 s) (hnd : l.Nodup)
    (hl : ∀ v ∈ l, v ∈ amKeys s.g.col.clustered ∧ v ∉ s.g.col.known ∧ cnt s.g.col.clustered v < P.isoAbs ∧
      isIsolated s.g v = true)
    (h : s.emitAll (l.map Op.discard) = some s') : Step P g0 s s' := by
  induction l generalizing s with
  | nil => simp [SG.emitAll] at h; subst h; exact Step.refl hs
  | cons v t ih =>
    simp only [List.map_cons, SG.emitAll] at h
    split at h
    · simp at h
    · rename_i s1 h1
      obtain ⟨hst, e1, e2, _, _, e5⟩ := emit_discard hs (hl v (by simp)) h1
      have hnd' := List.nodup_cons.1 hnd
      refine hst.trans (ih hst.1 hnd'.2 ?_ h)
      intro w hw
      have hwv : w ≠ v := fun heq => hnd'.1 (heq ▸ hw)
      obtain ⟨a, b, c, d⟩ := hl w (by simp [hw])
      rw [e5]
      refine ⟨?_, b, ?_, ?_⟩
      · simp only [Collector.discard, key_amErase]; exact ⟨hwv, a⟩
      · simp only [Collector.discard]; rw [cnt_amErase_ne _ hwv]; exact c
      · rw [isIsolated_congr e1 e2]; exact d

theorem isolatesPhase_good {P : SimpParams} {g0 : Graph} {s s' : SG} (hs : Good P g0 s)
    (h : isolatesPhase P s = some s') : Step P g0 s s' := by
  unfold isolatesPhase at h
  simp only at h
  have hkeys : ∀ v ∈ dedupIv (amKeys s.g.col.clustered), cdom s.g.col v := fun v hv => Or.inl (mem_dedupIv.1 hv)
  have hs0 : Good P g0 (s.readIsolated (dedupIv (amKeys s.g.col.clustered))) := by
    refine ⟨hs.hist, ⟨?_, ?_, hs.inv.out, hs.inv.inc⟩⟩
    · intro v hv
      rcases mem_addKeys.1 hv with hv | hv
      · exact hs.inv.ok v hv
      · exact hkeys v hv
    · intro v hv
      rcases mem_addKeys.1 hv with hv | hv
      · exact hs.inv.ik v hv
      · exact hkeys v (List.mem_filter.1 hv).1
  split at h
  · simp at h
  · rename_i s1 rem h1
    have hvs : ∀ v ∈ (dedupIv (amKeys s.g.col.clustered)).filter (isIsolated s.g), cdom s.g.col v :=
      fun v hv => hkeys v (List.mem_filter.1 hv).1
    have hiso : ∀ v ∈ (dedupIv (amKeys s.g.col.clustered)).filter (isIsolated s.g), isIsolated s.g v = true :=
      fun v hv => (List.mem_filter.1 hv).2
    have hst1 := collapseSet_good hs0 hvs h1
    obtain ⟨e1, e2⟩ := collapseSet_isolated hs0 hvs hiso h1
    split at h
    · simp at h
    · rename_i s2 h2
      obtain ⟨hst2, _, f2, f3⟩ := delVertices_good _ hst1.1 h2
      split at h
      · simp at h
      · rename_i s3 h3
        have hst3 : Step P g0 s2 s3 := by
          refine emitAll_discards _ hst2.1 ?_ ?_ h3
          · exact ((nodup_dedupIv _).filter _).filter _
          · intro v hv
            simp only [lowIsolated, List.mem_filter, Bool.and_eq_true, decide_eq_true_eq, Bool.not_eq_true',
              decide_eq_false_iff_not] at hv
            obtain ⟨⟨_, hvi⟩, ⟨hh, hk⟩, hc⟩ := hv
            refine ⟨amHas_iff_key.1 hh, hk, hc, ?_⟩
            refine isIsolated_of_subset (g := s.g) ?_ ?_ hvi
            · intro p hp; have := f2 p hp; rw [e1] at this; exact this
            · intro p hp; have := f3 p hp; rw [e2] at this; exact this
        have hst4 := (delVertices_good _ hst3.1 h).1
        have h01 : Step P g0 s s1 := ⟨hst1.1, hst1.2⟩
        exact ((h01.trans hst2).trans hst3).trans hst4

/-! ### the whole of `simplify()` -/

theorem init_good {P : SimpParams} {g : Graph} (ho : EAll g.out (cdom g.col)) (hi : EAll g.inc (cdom g.col)) :
    Good P g (SG.init g) := by
  refine ⟨Hist.nil, ⟨?_, ?_, ho, hi⟩⟩
  · intro v hv
    have := mem_dedupIv.1 hv
    simp only [amKeys, List.mem_map] at this
    obtain ⟨p, hp, rfl⟩ := this
    exact (ho p hp).1
  · intro v hv
    have := mem_dedupIv.1 hv
    simp only [amKeys, List.mem_map] at this
    obtain ⟨p, hp, rfl⟩ := this
    exact (hi p hp).1

/-- **master lemma.** The operations the computed `simplify()` performs form a justified history from the input graph to
    the result. -/
theorem simplifySG_hist {P : SimpParams} {g : Graph} {s : SG} (ho : EAll g.out (cdom g.col)) (hi : EAll g.inc (cdom g.col))
    (h : simplifySG P (SG.init g) = some s) : Hist P g s.log s.g := by
  unfold simplifySG at h
  split at h
  · simp at h
  · rename_i s1 h1
    split at h
    · simp at h
    · rename_i s2 h2
      split at h
      · simp at h
      · rename_i s3 h3
        split at h
        · simp at h
        · rename_i s4 h4
          split at h
          · simp at h
          · rename_i s5 h5
            have a1 := tipsPhase_good (init_good (P := P) ho hi) h1
            have a2 := tipsPhase_good a1.1 h2
            have a3 := deadPhase_good a2.1 h3
            have a4 := deadPhase_good a3.1 h4
            have a5 := isolatesPhase_good a4.1 h5
            obtain ⟨ha, hl, _⟩ := emit_spec h
            rw [hl]
            exact Hist.snoc a5.1.hist trivial ha

/-! ### after `process` and `construct()` every edge endpoint is an intron the collector knows -/

/-- images of the correction map are keys of `clustered_introns` -/
def ColClosed (c : Collector) : Prop := ∀ p ∈ c.corr, p.2 ∈ amKeys c.clustered

theorem clusterStep_complete {pairs : List (Iv × Iv)} {minCount : Int} {c : Collector} {ci : Int × Iv} (hc : ColClosed c) :
    ColClosed (clusterStep pairs minCount c ci) ∧ domLe c (clusterStep pairs minCount c ci) ∧
      cdom (clusterStep pairs minCount c ci) ci.2 := by
  unfold clusterStep
  simp only
  split
  · refine ⟨fun p hp => key_amSet.2 (Or.inr (hc p hp)), ?_, Or.inl (key_amSet.2 (Or.inl rfl))⟩
    rintro v (h | h | h)
    · exact Or.inl (key_amSet.2 (Or.inr h))
    · exact Or.inr (Or.inl h)
    · exact Or.inr (Or.inr h)
  · split
    · split
      · rename_i s hs
        have hs' := maxIv?_mem hs
        simp only [List.mem_filter] at hs'
        have hsk : s ∈ amKeys c.clustered := amHas_iff_key.1 hs'.2
        refine ⟨?_, ?_, Or.inr (Or.inl (key_amSet.2 (Or.inl rfl)))⟩
        · intro p hp
          rcases mem_amSet hp with h | h
          · subst h; exact key_amSet.2 (Or.inl rfl)
          · exact key_amSet.2 (Or.inr (hc p h))
        · rintro v (h | h | h)
          · exact Or.inl (key_amSet.2 (Or.inr h))
          · exact Or.inr (Or.inl (key_amSet.2 (Or.inr h)))
          · exact Or.inr (Or.inr h)
      · refine ⟨fun p hp => key_amSet.2 (Or.inr (hc p hp)), ?_, Or.inl (key_amSet.2 (Or.inl rfl))⟩
        rintro v (h | h | h)
        · exact Or.inl (key_amSet.2 (Or.inr h))
        · exact Or.inr (Or.inl h)
        · exact Or.inr (Or.inr h)
    · split
      · refine ⟨hc, ?_, Or.inr (Or.inr (mem_setAdd.2 (Or.inr rfl)))⟩
        rintro v (h | h | h)
        · exact Or.inl h
        · exact Or.inr (Or.inl h)
        · exact Or.inr (Or.inr (mem_setAdd.2 (Or.inl h)))
      · refine ⟨fun p hp => key_amSet.2 (Or.inr (hc p hp)), ?_, Or.inl (key_amSet.2 (Or.inl rfl))⟩
        rintro v (h | h | h)
        · exact Or.inl (key_amSet.2 (Or.inr h))
        · exact Or.inr (Or.inl h)
        · exact Or.inr (Or.inr h)

theorem foldl_clusterStep_complete {pairs : List (Iv × Iv)} {minCount : Int} (l : List (Int × Iv)) (c : Collector)
    (hc : ColClosed c) :
    ColClosed (l.foldl (clusterStep pairs minCount) c) ∧ domLe c (l.foldl (clusterStep pairs minCount) c) ∧
      ∀ ci ∈ l, cdom (l.foldl (clusterStep pairs minCount) c) ci.2 := by
  induction l generalizing c with
  | nil => exact ⟨hc, domLe_refl _, by simp⟩
  | cons a t ih =>
    simp only [List.foldl_cons]
    obtain ⟨h1, h2, h3⟩ := clusterStep_complete (pairs := pairs) (minCount := minCount) (ci := a) hc
    obtain ⟨i1, i2, i3⟩ := ih _ h1
    refine ⟨i1, domLe_trans h2 i2, ?_⟩
    intro ci hci
    rcases List.mem_cons.1 hci with rfl | hci
    · exact i2 _ h3
    · exact i3 ci hci

theorem foldl_countAdd_key (l : List Iv) (m : List (Iv × Int)) (k : Iv) :
    k ∈ amKeys (l.foldl countAdd m) ↔ k ∈ amKeys m ∨ k ∈ l := by
  induction l generalizing m with
  | nil => simp
  | cons a t ih =>
    simp only [List.foldl_cons, ih, countAdd, key_amSet, List.mem_cons]
    constructor
    · rintro ((h | h) | h)
      · exact Or.inr (Or.inl h)
      · exact Or.inl h
      · exact Or.inr (Or.inr h)
    · rintro (h | h | h)
      · exact Or.inl (Or.inr h)
      · exact Or.inl (Or.inl h)
      · exact Or.inr h

theorem collectIntrons_complete_aux (reads : List Read) (m : List (Iv × Int)) (v : Iv)
    (h : v ∈ amKeys m ∨ ∃ r ∈ reads, r.multimapper = false ∧ v ∈ r.introns) :
    v ∈ amKeys (reads.foldl (fun m r => if r.introns.isEmpty || r.multimapper then m else r.introns.foldl countAdd m) m) := by
  induction reads generalizing m with
  | nil =>
    rcases h with h | ⟨r, hr, _⟩
    · simpa using h
    · simp at hr
  | cons r t ih =>
    simp only [List.foldl_cons]
    apply ih
    rcases h with h | ⟨r', hr', hm, hv⟩
    · left
      split
      · exact h
      · exact (foldl_countAdd_key _ _ _).2 (Or.inl h)
    · rcases List.mem_cons.1 hr' with rfl | hr'
      · left
        split
        · rename_i hc
          simp only [Bool.or_eq_true, List.isEmpty_iff] at hc
          rcases hc with hc | hc
          · rw [hc] at hv; simp at hv
          · rw [hm] at hc; simp at hc
        · exact (foldl_countAdd_key _ _ _).2 (Or.inr hv)
      · exact Or.inr ⟨r', hr', hm, hv⟩

theorem collectorProcess_complete (known : List Iv) (δ : Int) (reads : List Read) (minCount : Int) :
    ColClosed (collectorProcess known δ reads minCount) ∧
      ∀ v ∈ obsIntrons reads, cdom (collectorProcess known δ reads minCount) v := by
  unfold collectorProcess clusterIntrons
  obtain ⟨h1, _, h3⟩ := foldl_clusterStep_complete (pairs := simPairs δ (sortIv (amKeys (collectIntrons reads))))
    (minCount := minCount) (sortedByCount (collectIntrons reads)) (Collector.empty known) (by simp [ColClosed, Collector.empty])
  refine ⟨h1, ?_⟩
  intro v hv
  obtain ⟨r, hr, hm, hvi⟩ := mem_obsIntrons.1 hv
  have hk : v ∈ amKeys (collectIntrons reads) := collectIntrons_complete_aux reads [] v (Or.inr ⟨r, hr, hm, hvi⟩)
  simp only [amKeys, List.mem_map] at hk
  obtain ⟨p, hp, rfl⟩ := hk
  exact h3 (p.2, p.1) (mem_sortedByCount.2 hp)

theorem substitute_dom {c : Collector} (hc : ColClosed c) {v : Iv} (hv : cdom c v) : cdom c (c.substitute v) := by
  unfold Collector.substitute
  split
  · rename_i s hs; exact Or.inl (hc _ (amGet?_mem hs))
  · exact hv

theorem runOps_addEdges_eall {obs : List Iv} (ops : List Op) {g g' : Graph} (hc : ColClosed g.col)
    (hops : ∀ op ∈ ops, ∃ v1 v2, op = Op.addEdge v1 v2 ∧ cdom g.col v1 ∧ cdom g.col v2)
    (ho : EAll g.out (cdom g.col)) (hi : EAll g.inc (cdom g.col)) (h : runOps obs g ops = some g') :
    g'.col = g.col ∧ EAll g'.out (cdom g.col) ∧ EAll g'.inc (cdom g.col) := by
  induction ops generalizing g with
  | nil => simp [runOps] at h; subst h; exact ⟨rfl, ho, hi⟩
  | cons op t ih =>
    obtain ⟨v1, v2, rfl, h1, h2⟩ := hops op (by simp)
    simp only [runOps] at h
    split at h
    · simp only [applyOp] at h
      have hcol : (g.addEdge v1 v2).col = g.col := rfl
      obtain ⟨e1, e2, e3⟩ := ih (g := g.addEdge v1 v2) (by rw [hcol]; exact hc)
        (fun op' ho' => by rw [hcol]; exact hops op' (by simp [ho']))
        (by rw [hcol]; exact eall_setAdd ho (substitute_dom hc h1) (substitute_dom hc h2))
        (by rw [hcol]; exact eall_setAdd hi (substitute_dom hc h2) (substitute_dom hc h1)) h
      rw [hcol] at e1 e2 e3
      exact ⟨e1, e2, e3⟩
    · simp at h

theorem constructed_eall {known : List Iv} {δ minCount : Int} {reads : List Read} {g0 : Graph}
    (h : Graph.constructed known δ reads minCount = some g0) : EAll g0.out (cdom g0.col) ∧ EAll g0.inc (cdom g0.col) := by
  unfold Graph.constructed at h
  simp only at h
  obtain ⟨hcl, hobs⟩ := collectorProcess_complete known δ reads minCount
  have := runOps_addEdges_eall (g := Graph.init known δ reads minCount) _ hcl
    (fun op ho => by
      obtain ⟨v1, v2, rfl, a, b⟩ := constructOps_scoped _ reads op ho
      exact ⟨v1, v2, rfl, hobs v1 a, hobs v2 b⟩)
    (by simp [Graph.init, EAll]) (by simp [Graph.init, EAll]) h
  rw [this.1]
  exact ⟨this.2.1, this.2.2⟩

/-! ### from justified histories to scoped histories -/

theorem opJust_scoped {P : SimpParams} {obs : List Iv} {g : Graph} {op : Op} (h : OpJust P g op) :
    opScoped obs g op = true := by
  cases op with
  | collapse c s => simp only [opScoped, Bool.and_eq_true, decide_eq_true_eq]; exact ⟨dom_verts h.2.2.1, dom_verts h.2.2.2⟩
  | touch v => simp only [opScoped, decide_eq_true_eq]; exact dom_verts h
  | discard v => simp only [opScoped, decide_eq_true_eq]; exact dom_verts (Or.inl h.1)
  | delOut v => rfl
  | delInc v => rfl
  | simplifyMap => rfl
  | addEdge a b => exact absurd h (by simp [OpJust])
  | delVertex v => exact absurd h (by simp [OpJust])
  | attachOut a b => exact absurd h (by simp [OpJust])
  | attachInc a b => exact absurd h (by simp [OpJust])

theorem hist_runOps {P : SimpParams} {obs : List Iv} {g0 g : Graph} {ops : List Op} (h : Hist P g0 ops g) :
    runOps obs g0 ops = some g := by
  induction h with
  | nil => rfl
  | snoc _ hj ha ih =>
    rw [runOps_append, ih]
    simp only [Option.bind_some, runOps, opJust_scoped hj, if_true, ha]

/-- the shape of an operation of the computed `simplify()`, independent of the state -/
def OpShape (P : SimpParams) : Op → Prop
  | .collapse c s => c ≠ s ∧ nearD P.dist s c = true
  | .touch _ => True
  | .discard _ => True
  | .delOut _ => True
  | .delInc _ => True
  | .simplifyMap => True
  | _ => False

theorem opJust_shape {P : SimpParams} {g : Graph} {op : Op} (h : OpJust P g op) : OpShape P op := by
  cases op <;> simp_all [OpJust, OpShape]

theorem hist_shape {P : SimpParams} {g0 g : Graph} {ops : List Op} (h : Hist P g0 ops g) : ∀ op ∈ ops, OpShape P op := by
  induction h with
  | nil => simp
  | snoc _ hj _ ih =>
    intro op hop
    rcases List.mem_append.1 hop with hop | hop
    · exact ih op hop
    · simp at hop; subst hop
      exact opJust_shape hj

/-! ### `simplify_correction_map` only removes keys of the correction map from `clustered_introns` -/

theorem foldl_discardErase_clustered (l : List Iv) (c : Collector) :
    let r := l.foldl (fun c i => { c.discard i with corr := amErase (c.discard i).corr i }) c
    (∀ p ∈ r.clustered, p ∈ c.clustered) ∧ (∀ v, v ∉ l → amGet? r.clustered v = amGet? c.clustered v) ∧
      r.known = c.known := by
  induction l generalizing c with
  | nil => simp
  | cons a t ih =>
    simp only [List.foldl_cons]
    have := ih ({ c.discard a with corr := amErase (c.discard a).corr a })
    simp only at this
    obtain ⟨h1, h2, h3⟩ := this
    refine ⟨?_, ?_, ?_⟩
    · intro p hp
      have := h1 p hp
      simp only [Collector.discard, amErase] at this
      exact (List.mem_filter.1 this).1
    · intro v hv
      have hva : v ≠ a := fun h => hv (by simp [h])
      rw [h2 v (fun h => hv (by simp [h]))]
      simp only [Collector.discard]
      rw [amGet?_amErase]; simp [hva]
    · rw [h3]; rfl

theorem simplifyCorrectionMap_frame {c c' : Collector} (h : c.simplifyCorrectionMap = some c') :
    (∀ p ∈ c'.clustered, p ∈ c.clustered) ∧
    (∀ v, v ∉ amKeys c.corr → amGet? c'.clustered v = amGet? c.clustered v) ∧
    c'.known = c.known ∧ (∀ k, k ∈ amKeys c'.corr → k ∈ amKeys c.corr) ∧
    (∀ v, v ∈ c'.discarded → v ∈ c.discarded ∨ v ∈ amKeys c.corr) := by
  unfold Collector.simplifyCorrectionMap at h
  split at h
  · simp at h
  · rename_i m toRemove hloop
    simp at h; subst h
    have hinv0 : SimpInv c.discarded (c.corr, []) [] := ⟨by simp, by simp⟩
    obtain ⟨hinv, _, hnone⟩ := simplifyLoop_inv _ hinv0 hloop
    have hkeym : ∀ k, (amGet? m k).isSome = true → k ∈ amKeys c.corr := by
      intro k hk
      cases hg : amGet? c.corr k with
      | none => have := hnone k hg; simp only at this; rw [this] at hk; simp at hk
      | some w => exact List.mem_map.2 ⟨(k, w), amGet?_mem hg, rfl⟩
    have hrem : ∀ i ∈ toRemove, i ∈ amKeys c.corr := fun i hi => hkeym i (hinv.rem i hi)
    obtain ⟨a1, a2, a3⟩ := foldl_discardErase_clustered toRemove { c with corr := m }
    obtain ⟨b1, _, b3⟩ := foldl_discardErase_spec toRemove { c with corr := m }
    simp only at a1 a2 a3 b1 b3
    refine ⟨a1, fun v hv => a2 v (fun hvr => hv (hrem v hvr)), a3, ?_, ?_⟩
    · intro k hk
      obtain ⟨w, hw⟩ := amGet?_isSome_of_key hk
      have := (b1 k w hw).2
      exact hkeym k (by simp [this])
    · intro v hv
      rcases b3 v hv with h' | h'
      · exact Or.inl h'
      · exact Or.inr (hrem v h')

/-! ### what survives `simplify()` -/

theorem cnt_nonneg {m : List (Iv × Int)} (hm : ∀ p ∈ m, 0 ≤ p.2) (k : Iv) : 0 ≤ cnt m k := by
  unfold cnt
  cases hg : amGet? m k with
  | none => simp
  | some v => simpa using hm (k, v) (amGet?_mem hg)

theorem key_of_amGet? {m : List (Iv × Int)} {k : Iv} {v : Int} (h : amGet? m k = some v) : k ∈ amKeys m :=
  List.mem_map.2 ⟨(k, v), amGet?_mem h, rfl⟩

/-- `v` is still a vertex with at least `n` supporting reads, neither substituted nor discarded; no vertex was invented -/
structure KeepInv (g0 : Graph) (v : Iv) (n : Int) (g : Graph) : Prop where
  key : v ∈ amKeys g.col.clustered
  cnt : n ≤ cnt g.col.clustered v
  ncorr : v ∉ amKeys g.col.corr
  ndisc : v ∉ g.col.discarded
  nonneg : ∀ p ∈ g.col.clustered, 0 ≤ p.2
  dom : ∀ u, cdom g.col u → cdom g0.col u
  known : g.col.known = g0.col.known

theorem keepInv_step {P : SimpParams} {g0 g g' : Graph} {v : Iv} {n : Int} {op : Op} (hk : KeepInv g0 v n g)
    (hsup : v ∈ g0.col.known ∨ P.isoAbs ≤ n) (hsib : ∀ u, cdom g0.col u → nearD P.dist u v = true → u = v)
    (hj : OpJust P g op) (ha : applyOp g op = some g') : KeepInv g0 v n g' := by
  cases op with
  | addEdge a b => exact absurd hj (by simp [OpJust])
  | delVertex a => exact absurd hj (by simp [OpJust])
  | attachOut a b => exact absurd hj (by simp [OpJust])
  | attachInc a b => exact absurd hj (by simp [OpJust])
  | delOut a => simp [applyOp] at ha; subst ha; exact ⟨hk.key, hk.cnt, hk.ncorr, hk.ndisc, hk.nonneg, hk.dom, hk.known⟩
  | delInc a => simp [applyOp] at ha; subst ha; exact ⟨hk.key, hk.cnt, hk.ncorr, hk.ndisc, hk.nonneg, hk.dom, hk.known⟩
  | touch u =>
    simp [applyOp] at ha; subst ha
    have hdom : ∀ x, cdom (g.col.touch u) x → cdom g0.col x := by
      intro x hx
      rcases touch_dom.1 hx with h | h
      · exact hk.dom x h
      · subst h; exact hk.dom _ hj
    unfold Collector.touch at hdom ⊢
    split
    · rename_i hh
      simp only [hh, if_true] at hdom
      exact ⟨hk.key, hk.cnt, hk.ncorr, hk.ndisc, hk.nonneg, hdom, hk.known⟩
    · rename_i hh
      simp only [hh] at hdom
      have huv : v ≠ u := by
        intro heq; subst heq; exact hh (amHas_iff_key.2 hk.key)
      refine ⟨key_amSet.2 (Or.inr hk.key), ?_, hk.ncorr, hk.ndisc, ?_, hdom, hk.known⟩
      · simp only [C04.cnt]; rw [amGet?_amSet_ne _ _ _ _ huv]; exact hk.cnt
      · intro p hp
        rcases mem_amSet hp with h | h
        · subst h; simp
        · exact hk.nonneg p h
  | discard u =>
    simp [applyOp] at ha; subst ha
    obtain ⟨hu1, hu2, hu3, _⟩ := hj
    have huv : v ≠ u := by
      intro heq; subst heq
      rcases hsup with h | h
      · rw [← hk.known] at h; exact hu2 h
      · have := hk.cnt; omega
    refine ⟨?_, ?_, hk.ncorr, ?_, ?_, ?_, hk.known⟩
    · simp only [Collector.discard]; exact key_amErase.2 ⟨huv, hk.key⟩
    · simp only [Collector.discard]; rw [cnt_amErase_ne _ huv]; exact hk.cnt
    · simp only [Collector.discard]
      intro h
      rcases mem_setAdd.1 h with h | h
      · exact hk.ndisc h
      · exact huv h
    · intro p hp
      simp only [Collector.discard, amErase] at hp
      exact hk.nonneg p (List.mem_filter.1 hp).1
    · intro x hx
      simp only [cdom, Collector.discard, key_amErase, mem_setAdd] at hx
      rcases hx with h | h | h | h
      · exact hk.dom x (Or.inl h.2)
      · exact hk.dom x (Or.inr (Or.inl h))
      · exact hk.dom x (Or.inr (Or.inr h))
      · subst h; exact hk.dom _ (Or.inl hu1)
  | collapse c s =>
    obtain ⟨hcs, hnear, hc, hs⟩ := hj
    have hcv : g.collapseVertex c s = some g' := by simpa [applyOp] using ha
    have hcol := collapseVertex_col hcv
    have hvc : v ≠ c := by
      intro heq; subst heq
      exact hcs (hsib s (hk.dom s hs) hnear).symm
    refine ⟨?_, ?_, ?_, ?_, ?_, ?_, ?_⟩ <;> rw [hcol]
    · simp only [Collector.addSubstitute]; exact key_amErase.2 ⟨hvc, key_amSet.2 (Or.inr hk.key)⟩
    · simp only [Collector.addSubstitute]
      rw [cnt_amErase_ne _ hvc]
      by_cases hvs : v = s
      · subst hvs
        simp only [C04.cnt, amGet?_amSet_self, Option.getD_some]
        have := cnt_nonneg hk.nonneg c
        have := hk.cnt
        simp only [C04.cnt] at *
        omega
      · simp only [C04.cnt]; rw [amGet?_amSet_ne _ _ _ _ hvs]; exact hk.cnt
    · simp only [Collector.addSubstitute, key_amSet]
      rintro (h | h)
      · exact hvc h
      · exact hk.ncorr h
    · exact hk.ndisc
    · intro p hp
      simp only [Collector.addSubstitute, amErase] at hp
      rcases mem_amSet (List.mem_filter.1 hp).1 with h | h
      · subst h
        have := cnt_nonneg hk.nonneg c
        have := cnt_nonneg hk.nonneg s
        simp only; omega
      · exact hk.nonneg p h
    · intro x hx
      simp only [cdom, Collector.addSubstitute, key_amErase, key_amSet] at hx
      rcases hx with ⟨_, h | h⟩ | (h | h) | h
      · subst h; exact hk.dom _ hs
      · exact hk.dom x (Or.inl h)
      · subst h; exact hk.dom _ hc
      · exact hk.dom x (Or.inr (Or.inl h))
      · exact hk.dom x (Or.inr (Or.inr h))
    · exact hk.known
  | simplifyMap =>
    simp only [applyOp, Option.map_eq_some_iff] at ha
    obtain ⟨c', hc', rfl⟩ := ha
    obtain ⟨f1, f2, f3, f4, f5⟩ := simplifyCorrectionMap_frame hc'
    have hget := f2 v hk.ncorr
    refine ⟨?_, ?_, fun h => hk.ncorr (f4 v h), ?_, fun p hp => hk.nonneg p (f1 p hp), ?_, by simp only; rw [f3]; exact hk.known⟩
    · obtain ⟨w, hw⟩ := amGet?_isSome_of_key hk.key
      simp only; exact key_of_amGet? (hget.trans hw)
    · simp only [C04.cnt]; rw [hget]; exact hk.cnt
    · simp only
      intro h
      rcases f5 v h with h' | h'
      · exact hk.ndisc h'
      · exact hk.ncorr h'
    · intro x hx
      simp only [cdom] at hx
      rcases hx with h | h | h
      · obtain ⟨p, hp, rfl⟩ := List.mem_map.1 h
        exact hk.dom _ (Or.inl (List.mem_map.2 ⟨p, f1 p hp, rfl⟩))
      · exact hk.dom x (Or.inr (Or.inl (f4 x h)))
      · rcases f5 x h with h' | h'
        · exact hk.dom x (Or.inr (Or.inr h'))
        · exact hk.dom x (Or.inr (Or.inl h'))

theorem hist_keeps {P : SimpParams} {g0 g : Graph} {ops : List Op} (h : Hist P g0 ops g) (v : Iv) (n : Int)
    (h0 : KeepInv g0 v n g0) (hsup : v ∈ g0.col.known ∨ P.isoAbs ≤ n)
    (hsib : ∀ u, cdom g0.col u → nearD P.dist u v = true → u = v) : KeepInv g0 v n g := by
  induction h with
  | nil => exact h0
  | snoc _ hj ha ih => exact keepInv_step ih hsup hsib hj ha

/-! ### which introns can be dropped -/

/-- every operation of a justified history is justified in the state its predecessors lead to -/
theorem hist_split {P : SimpParams} {g0 g : Graph} {ops : List Op} (h : Hist P g0 ops g) :
    ∀ pre op post, ops = pre ++ op :: post → ∃ g1 g2, Hist P g0 pre g1 ∧ OpJust P g1 op ∧ applyOp g1 op = some g2 := by
  induction h with
  | nil => intro pre op post h; simp at h
  | @snoc ops' g1 g2 op' hh hj ha ih =>
    intro pre op post heq
    rcases List.eq_nil_or_concat post with rfl | ⟨post', x, rfl⟩
    · have : pre ++ [op] = ops' ++ [op'] := by simpa using heq.symm
      obtain ⟨e1, e2⟩ := List.append_inj' this rfl
      simp at e2; subst e1 e2
      exact ⟨g1, g2, hh, hj, ha⟩
    · have : ops' ++ [op'] = (pre ++ op :: post') ++ [x] := by simpa [List.append_assoc] using heq
      obtain ⟨e1, _⟩ := List.append_inj' this rfl
      exact ih pre op post' e1

/-- a key of `clustered_introns` disappears only through `collapse_vertex(v, _)`, `discard(v)`, or — in
    `simplify_correction_map` — because it is also a key of the correction map -/
theorem hist_drop {P : SimpParams} {g0 g : Graph} {ops : List Op} (h : Hist P g0 ops g) :
    (∀ k ∈ amKeys g.col.corr, k ∈ amKeys g0.col.corr ∨ ∃ s, Op.collapse k s ∈ ops) ∧
    (∀ v ∈ amKeys g0.col.clustered, v ∈ amKeys g.col.clustered ∨ (∃ s, Op.collapse v s ∈ ops) ∨ Op.discard v ∈ ops ∨
      v ∈ amKeys g0.col.corr) := by
  induction h with
  | nil => exact ⟨fun k hk => Or.inl hk, fun v hv => Or.inl hv⟩
  | @snoc ops' g1 g2 op hh hj ha ih =>
    obtain ⟨ih1, ih2⟩ := ih
    have lift1 : ∀ k, (k ∈ amKeys g0.col.corr ∨ ∃ s, Op.collapse k s ∈ ops') →
        (k ∈ amKeys g0.col.corr ∨ ∃ s, Op.collapse k s ∈ ops' ++ [op]) := by
      rintro k (h' | ⟨s, hs⟩)
      · exact Or.inl h'
      · exact Or.inr ⟨s, List.mem_append.2 (Or.inl hs)⟩
    have lift2 : ∀ v, ((∃ s, Op.collapse v s ∈ ops') ∨ Op.discard v ∈ ops' ∨ v ∈ amKeys g0.col.corr) →
        (v ∈ amKeys g2.col.clustered ∨ (∃ s, Op.collapse v s ∈ ops' ++ [op]) ∨ Op.discard v ∈ ops' ++ [op] ∨
          v ∈ amKeys g0.col.corr) := by
      rintro v (⟨s, hs⟩ | h' | h')
      · exact Or.inr (Or.inl ⟨s, List.mem_append.2 (Or.inl hs)⟩)
      · exact Or.inr (Or.inr (Or.inl (List.mem_append.2 (Or.inl h'))))
      · exact Or.inr (Or.inr (Or.inr h'))
    cases op with
    | addEdge a b => exact absurd hj (by simp [OpJust])
    | delVertex a => exact absurd hj (by simp [OpJust])
    | attachOut a b => exact absurd hj (by simp [OpJust])
    | attachInc a b => exact absurd hj (by simp [OpJust])
    | delOut a =>
      simp [applyOp] at ha; subst ha
      exact ⟨fun k hk => lift1 k (ih1 k hk), fun v hv => (ih2 v hv).elim Or.inl (lift2 v)⟩
    | delInc a =>
      simp [applyOp] at ha; subst ha
      exact ⟨fun k hk => lift1 k (ih1 k hk), fun v hv => (ih2 v hv).elim Or.inl (lift2 v)⟩
    | touch u =>
      simp [applyOp] at ha; subst ha
      refine ⟨fun k hk => lift1 k (ih1 k ?_), fun v hv => (ih2 v hv).elim (fun h' => Or.inl ?_) (lift2 v)⟩
      · simp only [Collector.touch] at hk; split at hk <;> exact hk
      · simp only [Collector.touch]; split
        · exact h'
        · exact key_amSet.2 (Or.inr h')
    | discard u =>
      simp [applyOp] at ha; subst ha
      refine ⟨fun k hk => lift1 k (ih1 k hk), fun v hv => (ih2 v hv).elim (fun h' => ?_) (lift2 v)⟩
      by_cases hvu : v = u
      · subst hvu; exact Or.inr (Or.inr (Or.inl (List.mem_append.2 (Or.inr (by simp)))))
      · exact Or.inl (by simp only [Collector.discard]; exact key_amErase.2 ⟨hvu, h'⟩)
    | collapse c s =>
      have hcv : g1.collapseVertex c s = some g2 := by simpa [applyOp] using ha
      have hcol := collapseVertex_col hcv
      refine ⟨fun k hk => ?_, fun v hv => (ih2 v hv).elim (fun h' => ?_) (lift2 v)⟩
      · rw [hcol] at hk
        simp only [Collector.addSubstitute, key_amSet] at hk
        rcases hk with rfl | hk
        · exact Or.inr ⟨s, List.mem_append.2 (Or.inr (by simp))⟩
        · exact lift1 k (ih1 k hk)
      · by_cases hvc : v = c
        · subst hvc; exact Or.inr (Or.inl ⟨s, List.mem_append.2 (Or.inr (by simp))⟩)
        · left; rw [hcol]
          simp only [Collector.addSubstitute]
          exact key_amErase.2 ⟨hvc, key_amSet.2 (Or.inr h')⟩
    | simplifyMap =>
      simp only [applyOp, Option.map_eq_some_iff] at ha
      obtain ⟨c', hc', rfl⟩ := ha
      obtain ⟨_, f2, _, f4, _⟩ := simplifyCorrectionMap_frame hc'
      refine ⟨fun k hk => lift1 k (ih1 k (f4 k hk)), fun v hv => (ih2 v hv).elim (fun h' => ?_) (lift2 v)⟩
      by_cases hvk : v ∈ amKeys g1.col.corr
      · rcases ih1 v hvk with h'' | ⟨s, hs⟩
        · exact Or.inr (Or.inr (Or.inr h''))
        · exact Or.inr (Or.inl ⟨s, List.mem_append.2 (Or.inl hs)⟩)
      · left
        obtain ⟨w, hw⟩ := amGet?_isSome_of_key h'
        exact key_of_amGet? ((f2 v hvk).trans hw)

/-! ### the dead-end walks terminate -/

theorem filter_length_lt {α} (l : List α) (p q : α → Bool) (hqp : ∀ x, q x = true → p x = true)
    (hx : ∃ x ∈ l, p x = true ∧ q x = false) : (l.filter q).length < (l.filter p).length := by
  induction l with
  | nil => obtain ⟨x, hx, _⟩ := hx; simp at hx
  | cons a t ih =>
    have hle : ∀ (l : List α), (l.filter q).length ≤ (l.filter p).length := by
      intro l
      induction l with
      | nil => simp
      | cons b u ihu =>
        simp only [List.filter_cons]
        cases hq : q b <;> cases hp : p b
        · simpa using ihu
        · simp only [Bool.false_eq_true, if_false, if_true, List.length_cons]; omega
        · rw [hqp b hq] at hp; cases hp
        · simpa using ihu
    obtain ⟨x, hxm, hpx, hqx⟩ := hx
    simp only [List.filter_cons]
    rcases List.mem_cons.1 hxm with rfl | hxt
    · simp [hpx, hqx]; have := hle t; omega
    · have := ih ⟨x, hxt, hpx, hqx⟩
      cases hq : q a <;> cases hp : p a
      · simpa using this
      · simp only [Bool.false_eq_true, if_false, if_true, List.length_cons]; omega
      · rw [hqp a hq] at hp; cases hp
      · simpa using this

/-- edge pairs whose key has not been walked yet: the measure of the dead-end walk -/
def unwalked (g : Graph) (o : Bool) (path : List Iv) : Nat :=
  ((if o then g.out else g.inc).filter (fun p => decide (p.1 ∉ path))).length

theorem deadWalk_fuel (g : Graph) (o : Bool) :
    ∀ (fuel : Nat) (path : List Iv) (v : Iv), unwalked g o path < fuel → deadWalk g o fuel path v ≠ .fuel := by
  intro fuel
  induction fuel with
  | zero => intro path v h; simp at h
  | succ n ih =>
    intro path v hlt
    simp only [deadWalk]
    split
    · split
      · simp
      · rename_i hvp
        split
        · simp
        · rename_i w heq
          apply ih
          have hpair : (v, w) ∈ (if o then g.out else g.inc) := by
            cases o
            · simp only [Bool.false_eq_true, if_false] at heq ⊢
              exact mem_incOf.1 (by rw [heq]; simp)
            · simp only [if_true] at heq ⊢
              exact mem_outOf.1 (by rw [heq]; simp)
          have : unwalked g o (path ++ [v]) < unwalked g o path := by
            unfold unwalked
            apply filter_length_lt
            · intro x hx
              simp only [decide_eq_true_eq, List.mem_append, not_or] at hx ⊢
              exact hx.1
            · exact ⟨(v, w), hpair, by simpa using hvp, by simp⟩
          omega
        · simp
    · simp

theorem deadWalk_no_cycle (g : Graph) (o : Bool) (w : Iv → Int)
    (hE : ∀ v x, x ∈ (if o then outOf g v else incOf g v) → w v < w x) :
    ∀ (fuel : Nat) (path : List Iv) (v : Iv), (∀ x ∈ path, w x < w v) → deadWalk g o fuel path v ≠ .cycle := by
  intro fuel
  induction fuel with
  | zero => intro path v _; simp [deadWalk]
  | succ n ih =>
    intro path v hp
    simp only [deadWalk]
    split
    · split
      · rename_i hvp
        have := hp v hvp; omega
      · split
        · simp
        · rename_i x heq
          apply ih
          have hvx : w v < w x := hE v x (by rw [heq]; simp)
          intro y hy
          rcases List.mem_append.1 hy with hy | hy
          · have := hp y hy; omega
          · simp at hy; subst hy; exact hvx
        · simp
    · simp

theorem walkAll_isSome (g : Graph) (o : Bool) (l : List Iv)
    (h : ∀ i ∈ l, deadWalk g o (walkFuel g o) [] i ≠ .fuel ∧ deadWalk g o (walkFuel g o) [] i ≠ .cycle) :
    ∃ r, walkAll g o l = some r := by
  induction l with
  | nil => exact ⟨_, rfl⟩
  | cons i t ih =>
    obtain ⟨r, hr⟩ := ih (fun j hj => h j (by simp [hj]))
    obtain ⟨h1, h2⟩ := h i (by simp)
    simp only [walkAll, hr]
    cases hd : deadWalk g o (walkFuel g o) [] i with
    | fuel => exact absurd hd h1
    | cycle => exact absurd hd h2
    | done vis p => exact ⟨_, rfl⟩

theorem walkFuel_enough (g : Graph) (o : Bool) : unwalked g o [] < walkFuel g o := by
  unfold unwalked walkFuel
  cases o <;> simp <;> exact Nat.lt_succ_of_le (List.length_filter_le _ _)

/-! ### counts are non-negative after `process` and `construct()` -/

def NonNeg (m : List (Iv × Int)) : Prop := ∀ p ∈ m, 0 ≤ p.2

theorem foldl_countAdd_nonneg (l : List Iv) (m : List (Iv × Int)) (hm : NonNeg m) : NonNeg (l.foldl countAdd m) := by
  induction l generalizing m with
  | nil => simpa using hm
  | cons a t ih =>
    simp only [List.foldl_cons]
    apply ih
    intro p hp
    rcases mem_amSet hp with h | h
    · subst h; have := cnt_nonneg hm a; simp only; omega
    · exact hm p h

theorem collectIntrons_nonneg (reads : List Read) : NonNeg (collectIntrons reads) := by
  unfold collectIntrons
  have : ∀ (m : List (Iv × Int)), NonNeg m →
      NonNeg (reads.foldl (fun m r => if r.introns.isEmpty || r.multimapper then m else r.introns.foldl countAdd m) m) := by
    induction reads with
    | nil => intro m hm; simpa using hm
    | cons r t ih =>
      intro m hm
      simp only [List.foldl_cons]
      apply ih
      split
      · exact hm
      · exact foldl_countAdd_nonneg _ _ hm
  exact this [] (by simp [NonNeg])

theorem clusterStep_nonneg {pairs : List (Iv × Iv)} {minCount : Int} {c : Collector} {ci : Int × Iv}
    (hc : NonNeg c.clustered) (hci : 0 ≤ ci.1) : NonNeg (clusterStep pairs minCount c ci).clustered := by
  have hset : ∀ (k : Iv) (x : Int), 0 ≤ x → NonNeg (amSet c.clustered k x) := by
    intro k x hx p hp
    rcases mem_amSet hp with h | h
    · subst h; exact hx
    · exact hc p h
  unfold clusterStep
  simp only
  split
  · exact hset _ _ hci
  · split
    · split
      · rename_i s _
        exact hset _ _ (by have := cnt_nonneg hc s; omega)
      · exact hset _ _ hci
    · split
      · exact hc
      · exact hset _ _ hci

theorem collectorProcess_nonneg (known : List Iv) (δ : Int) (reads : List Read) (minCount : Int) :
    NonNeg (collectorProcess known δ reads minCount).clustered := by
  unfold collectorProcess clusterIntrons
  have : ∀ (l : List (Int × Iv)) (c : Collector), NonNeg c.clustered → (∀ ci ∈ l, 0 ≤ ci.1) →
      NonNeg (l.foldl (clusterStep (simPairs δ (sortIv (amKeys (collectIntrons reads)))) minCount) c).clustered := by
    intro l
    induction l with
    | nil => intro c hc _; simpa using hc
    | cons a t ih =>
      intro c hc hl
      simp only [List.foldl_cons]
      exact ih _ (clusterStep_nonneg hc (hl a (by simp))) (fun ci h => hl ci (by simp [h]))
  apply this
  · simp [NonNeg, Collector.empty]
  · intro ci hci
    exact collectIntrons_nonneg reads (ci.2, ci.1) (mem_sortedByCount.1 hci)

theorem runOps_addEdges_col {obs : List Iv} (ops : List Op) {g g' : Graph}
    (hops : ∀ op ∈ ops, ∃ v1 v2, op = Op.addEdge v1 v2) (h : runOps obs g ops = some g') : g'.col = g.col := by
  induction ops generalizing g with
  | nil => simp [runOps] at h; subst h; rfl
  | cons op t ih =>
    obtain ⟨v1, v2, rfl⟩ := hops op (by simp)
    simp only [runOps] at h
    split at h
    · simp only [applyOp] at h
      exact ih (g := g.addEdge v1 v2) (fun op' ho' => hops op' (by simp [ho'])) h
    · simp at h

theorem constructed_col {known : List Iv} {δ minCount : Int} {reads : List Read} {g0 : Graph}
    (h : Graph.constructed known δ reads minCount = some g0) : g0.col = collectorProcess known δ reads minCount := by
  unfold Graph.constructed at h
  simp only at h
  exact runOps_addEdges_col _ (fun op ho => by
    obtain ⟨v1, v2, rfl, _⟩ := constructOps_scoped _ reads op ho
    exact ⟨v1, v2, rfl⟩) h

/-! ### the edge invariant with the merge relation restricted to observed introns -/

theorem init_edgeInv_obs (known : List Iv) (δ minCount : Int) (reads : List Read) (M : Iv → Iv → Prop)
    (hδ : ∀ k s, k ∈ obsIntrons reads → s ∈ obsIntrons reads → Near δ k s → M k s) :
    EdgeInv reads M (Graph.init known δ reads minCount) := by
  have hcs := collectorProcess_csub known δ reads minCount
  refine ⟨⟨hcs, by simp [Graph.init, ESub], by simp [Graph.init, ESub]⟩, ?_,
    by simp [Graph.init, PairW], by simp [Graph.init, PairW]⟩
  intro p hp
  exact Rep.single (hδ _ _ (hcs.co p hp).1 (hcs.co p hp).2 (collectorProcess_corr_near known δ reads minCount p hp))

theorem edgeInv_of_history_obs {known : List Iv} {δ minCount : Int} {reads : List Read} {M : Iv → Iv → Prop}
    {ops : List Op} {g0 g : Graph} (hpos : ∀ v ∈ obsIntrons reads, 0 ≤ v.1)
    (hδ : ∀ k s, k ∈ obsIntrons reads → s ∈ obsIntrons reads → Near δ k s → M k s)
    (hops : ∀ op ∈ ops, OpOk reads M op) (h0 : Graph.constructed known δ reads minCount = some g0)
    (h : runOps (obsIntrons reads) g0 ops = some g) : EdgeInv reads M g := by
  have h1 := runOps_edgeInv hpos _ (init_edgeInv_obs known δ minCount reads M hδ) (constructOps_ok M _ reads) h0
  exact runOps_edgeInv hpos _ h1 hops h

/-- consecutive elements of a concrete list are members of `zip l l.tail` (makes `Adj` hypotheses decidable on examples) -/
theorem adjIn_zip {l : List Iv} {a b : Iv} (h : AdjIn l a b) : (a, b) ∈ l.zip l.tail := by
  obtain ⟨pre, post, rfl⟩ := h
  induction pre with
  | nil => simp
  | cons p t ih =>
    simp only [List.cons_append, List.tail_cons]
    cases t with
    | nil =>
      simp only [List.nil_append, List.zip_cons_cons, List.mem_cons]
      right; simp
    | cons q t' =>
      simp only [List.cons_append, List.zip_cons_cons, List.mem_cons]
      right; simpa using ih

end IsoVerif.Lemmas.C04
