/-
C11 helper lemmas — the `while` loop of `process_events` WITH index-keyed events under reflection
(`ProcessEventsMirror`, Props/C11Corrector.lean).

The loop walks the read introns left to right; an event keyed by `i` consumes the introns `i … e.read.2`.  The mirrored
run walks the same tiling from the other end.  Both are compared with `backS c k`: the SUMMARY (region update +
new introns) of the segments that tile `[0, k)`, defined by recursion from the RIGHT end (`findEnd`: the event whose
range ends at `k − 1`).

  * `loop_eq_back`     the forward loop on the data = `backS c n`           (segmentation read left to right)
  * `mirror_loop_back` the forward loop on the MIRRORED data = mirror image of `backS c n`   (read right to left)

A summary is `(RegUpd, List Iv)`: what one event / a run of segments does to `corrected_read_region` (set the left
end, set the right end, or nothing) and the introns it appends.  Updates of different ends commute; `EmapWF` allows
one event per end, so the order in which the two runs meet the events does not matter (`RegUpd.comp_comm`).
-/
import IsoVerif.Gen.Prims
import IsoVerif.Model.Interval
import IsoVerif.Model.Corrector
import IsoVerif.Model.C11Symmetry
import IsoVerif.Model.C11SymBedCorr
import IsoVerif.Lemmas.Corrector
import IsoVerif.Lemmas.CorrectorLoop
import IsoVerif.Lemmas.C11Mirror
import IsoVerif.Lemmas.C11CorrectorMirror
import IsoVerif.Lemmas.C11CorrectorMicro

namespace IsoVerif.Lemmas.C11
open IsoVerif.Gen IsoVerif.Model IsoVerif.Model.C14 IsoVerif.Model.C11 IsoVerif.Lemmas IsoVerif.Lemmas.C14

/-! ### what an event does to the region -/

/-- `(set the left end to, set the right end to)` -/
abbrev RegUpd := Option Int × Option Int

def RegUpd.app (u : RegUpd) (r : Iv) : Iv := (u.1.getD r.1, u.2.getD r.2)

/-- `v` after `u` (the last assignment wins) -/
def RegUpd.comp (u v : RegUpd) : RegUpd := (v.1.or u.1, v.2.or u.2)

def mirrorUpd (L : Int) (u : RegUpd) : RegUpd := (u.2.map (fun x => L + 1 - x), u.1.map (fun x => L + 1 - x))

theorem RegUpd.app_comp (u v : RegUpd) (r : Iv) : (u.comp v).app r = v.app (u.app r) := by
  obtain ⟨u1, u2⟩ := u
  obtain ⟨v1, v2⟩ := v
  cases u1 <;> cases u2 <;> cases v1 <;> cases v2 <;> rfl

theorem RegUpd.comp_comm (u v : RegUpd) (h1 : u.1 = none ∨ v.1 = none) (h2 : u.2 = none ∨ v.2 = none) :
    u.comp v = v.comp u := by
  obtain ⟨u1, u2⟩ := u
  obtain ⟨v1, v2⟩ := v
  cases u1 <;> cases u2 <;> cases v1 <;> cases v2 <;> simp_all [RegUpd.comp]

theorem mirrorUpd_app (L : Int) (u : RegUpd) (r : Iv) : (mirrorUpd L u).app (mirrorIv L r) = mirrorIv L (u.app r) := by
  obtain ⟨u1, u2⟩ := u
  cases u1 <;> cases u2 <;> rfl

theorem mirrorUpd_comp (L : Int) (u v : RegUpd) : mirrorUpd L (u.comp v) = (mirrorUpd L u).comp (mirrorUpd L v) := by
  obtain ⟨u1, u2⟩ := u
  obtain ⟨v1, v2⟩ := v
  cases u1 <;> cases u2 <;> cases v1 <;> cases v2 <;> rfl

theorem mirrorUpd_mirrorUpd (L : Int) (u : RegUpd) : mirrorUpd L (mirrorUpd L u) = u := by
  obtain ⟨u1, u2⟩ := u
  cases u1 <;> cases u2 <;> simp [mirrorUpd] <;> omega

/-- an update is determined by what it does to two regions -/
theorem RegUpd.app_determines (u v : RegUpd) (h : ∀ r, u.app r = v.app r) : u = v := by
  obtain ⟨u1, u2⟩ := u
  obtain ⟨v1, v2⟩ := v
  have h0 := h (0, 0)
  have h1 := h (1, 1)
  cases u1 <;> cases u2 <;> cases v1 <;> cases v2 <;>
    simp only [RegUpd.app, Option.getD_none, Option.getD_some, Prod.mk.injEq] at h0 h1 <;>
    first
      | rfl
      | (exfalso; omega)
      | (obtain ⟨a, b⟩ := h0; subst_vars; rfl)
      | (obtain ⟨a, b⟩ := h0; subst_vars; exfalso; omega)

abbrev Summ := Except CErr (RegUpd × List Iv)

def mirrorSumm (L : Int) : Summ → Summ
  | .ok (u, xs) => .ok (mirrorUpd L u, mirrorL L xs)
  | .error x => .error x

/-- the introns added by the last two branches of the chain -/
def keepOut (readIntrons corrected : List Iv) (e : MEvent) : Except CErr (List Iv) :=
  if corrector_known_event_types.contains e.etype then sliceIncl corrected e.read.1 e.read.2
  else sliceIncl readIntrons e.read.1 e.read.2

theorem keepStep_keepOut (ri corr : List Iv) (e : MEvent) (reg : Iv) (acc : List Iv) :
    keepStep ri corr e reg acc
      = match keepOut ri corr e with
        | .ok xs => .ok (reg, acc ++ xs)
        | .error x => .error x := by
  unfold keepStep keepOut
  split <;> rfl

/-- the if/elif chain on one event as a summary: independent of the region and of the introns collected so far -/
def evOut (p : CParams) (readRegion : Iv) (readIntrons corrected : List Iv) (isoRegion : Iv) (isoIntrons : List Iv)
    (e : MEvent) : Summ :=
  if e.etype = MatchEventSubtype.fake_terminal_exon_left ∧ p.fl.fake_terminal_exons then
    if e.read.1 ≠ e.read.2 then .error .assertion
    else match pyGet? readIntrons e.read.1 with
      | none => .error .index
      | some x => .ok ((some (x.2 + 1), none), [])
  else if e.etype = MatchEventSubtype.fake_terminal_exon_right ∧ p.fl.fake_terminal_exons then
    if e.read.1 ≠ e.read.2 then .error .assertion
    else match pyGet? readIntrons e.read.1 with
      | none => .error .index
      | some x => .ok ((none, some (x.1 - 1)), [])
  else if e.etype = MatchEventSubtype.terminal_exon_misalignment_left ∧ p.fl.terminal_exons then
    match pyGet? isoIntrons e.iso.1 with
    | none => .error .index
    | some x => .ok ((some isoRegion.1, none), [x])
  else if e.etype = MatchEventSubtype.terminal_exon_misalignment_right ∧ p.fl.terminal_exons then
    match pyGet? isoIntrons e.iso.1 with
    | none => .error .index
    | some x => .ok ((none, some isoRegion.2), [x])
  else if (misalignmentSet p).contains e.etype then
    match pyGet? isoIntrons e.iso.1, pyGet? isoIntrons e.iso.2 with
    | some a, some b =>
      if contains_well_inside readRegion (a.1, b.2) p.delta then
        if e.read.1 ≠ e.read.2 then .error .assertion
        else match sliceIncl isoIntrons e.iso.1 e.iso.2 with
          | .ok xs => .ok ((none, none), xs)
          | .error x => .error x
      else match keepOut readIntrons corrected e with
        | .ok xs => .ok ((none, none), xs)
        | .error x => .error x
    | _, _ => .error .index
  else match keepOut readIntrons corrected e with
    | .ok xs => .ok ((none, none), xs)
    | .error x => .error x

theorem eventStep_evOut (p : CParams) (rr : Iv) (ri corr : List Iv) (isoR : Iv) (isoI : List Iv) (e : MEvent)
    (reg : Iv) (acc : List Iv) :
    eventStep p rr ri corr isoR isoI e reg acc
      = match evOut p rr ri corr isoR isoI e with
        | .error x => .error x
        | .ok (u, xs) => .ok (u.app reg, acc ++ xs) := by
  have hk : ∀ (reg : Iv) (acc : List Iv), keepStep ri corr e reg acc
      = match (match keepOut ri corr e with
          | .ok xs => (.ok ((none, none), xs) : Summ)
          | .error x => .error x) with
        | .error x => .error x
        | .ok (u, xs) => .ok (u.app reg, acc ++ xs) := by
    intro reg acc
    rw [keepStep_keepOut]
    cases keepOut ri corr e <;> rfl
  unfold eventStep evOut
  split
  · split
    · rfl
    · cases pyGet? ri e.read.1 <;> simp [RegUpd.app]
  · split
    · split
      · rfl
      · cases pyGet? ri e.read.1 <;> simp [RegUpd.app]
    · split
      · cases pyGet? isoI e.iso.1 <;> simp [RegUpd.app]
      · split
        · cases pyGet? isoI e.iso.1 <;> simp [RegUpd.app]
        · split
          · cases pyGet? isoI e.iso.1 <;> cases pyGet? isoI e.iso.2 <;> try rfl
            simp only
            split
            · split
              · rfl
              · cases sliceIncl isoI e.iso.1 e.iso.2 <;> simp [RegUpd.app]
            · exact hk reg acc
          · exact hk reg acc

/-- the summary of the mirrored event on the mirrored data is the mirrored summary -/
theorem evOut_mirror (L : Int) (p : CParams) (rr : Iv) (ri corr : List Iv) (isoR : Iv) (isoI : List Iv) (e : MEvent)
    (hn : corr.length = ri.length) (h : EventInRange ri.length isoI.length e) :
    evOut p (mirrorIv L rr) (mirrorL L ri) (mirrorL L corr) (mirrorIv L isoR) (mirrorL L isoI)
        (mirrorMEvent ri.length isoI.length e)
      = mirrorSumm L (evOut p rr ri corr isoR isoI e) := by
  have hs := fun reg => eventStep_mirror L p rr ri corr isoR isoI e reg hn h
  simp only [eventStep_evOut] at hs
  generalize evOut p (mirrorIv L rr) (mirrorL L ri) (mirrorL L corr) (mirrorIv L isoR) (mirrorL L isoI)
    (mirrorMEvent ri.length isoI.length e) = A at hs ⊢
  generalize evOut p rr ri corr isoR isoI e = B at hs ⊢
  cases A with
  | error x =>
    cases B with
    | error y => have := hs (0, 0); simp only [mirrorExRes, Except.error.injEq] at this; simp only [mirrorSumm, this]
    | ok q => have := hs (0, 0); obtain ⟨u, xs⟩ := q; simp [mirrorExRes] at this
  | ok q' =>
    obtain ⟨u', xs'⟩ := q'
    cases B with
    | error y => have := hs (0, 0); simp [mirrorExRes] at this
    | ok q =>
      obtain ⟨u, xs⟩ := q
      simp only [mirrorExRes, List.nil_append, Except.ok.injEq, Prod.mk.injEq] at hs
      have hx : xs' = mirrorL L xs := (hs (0, 0)).2
      have hu : u' = mirrorUpd L u := by
        apply RegUpd.app_determines
        intro r
        have := (hs (mirrorIv L r)).1
        rw [mirrorIv_mirrorIv] at this
        rw [this, ← mirrorUpd_app, mirrorIv_mirrorIv]
      simp only [mirrorSumm, hx, hu]

def LeftT (t : MatchEventSubtype) : Prop :=
  t = MatchEventSubtype.fake_terminal_exon_left ∨ t = MatchEventSubtype.terminal_exon_misalignment_left
def RightT (t : MatchEventSubtype) : Prop :=
  t = MatchEventSubtype.fake_terminal_exon_right ∨ t = MatchEventSubtype.terminal_exon_misalignment_right

/-- only the four terminal event types move an end of the region, each its own end -/
theorem evOut_sets {p : CParams} {rr : Iv} {ri corr : List Iv} {isoR : Iv} {isoI : List Iv} {e : MEvent} {u : RegUpd}
    {xs : List Iv} (h : evOut p rr ri corr isoR isoI e = .ok (u, xs)) :
    (u.1 ≠ none → LeftT e.etype) ∧ (u.2 ≠ none → RightT e.etype) := by
  unfold evOut at h
  repeat' (split at h)
  all_goals first
    | (cases h; done)
    | (simp only [Except.ok.injEq, Prod.mk.injEq] at h
       obtain ⟨⟨rfl, rfl⟩, _⟩ := h
       simp_all [LeftT, RightT])

theorem sliceIncl_ok_of (l : List Iv) (a b : Int) (h : a ≤ b → 0 ≤ a ∧ b < l.length) :
    ∃ xs, sliceIncl l a b = .ok xs := by
  by_cases hab : a ≤ b
  · obtain ⟨h0, h1⟩ := h hab
    exact ⟨_, sliceIncl_inrange l a b h0 hab h1⟩
  · have e1 : (b + 1 - a).toNat = 0 := by omega
    exact ⟨[], by simp only [sliceIncl, e1, rangeGet]⟩

theorem keepOut_ok_of (ri corr : List Iv) (e : MEvent) (hn : corr.length = ri.length)
    (hr : 0 ≤ e.read.1 ∧ e.read.1 < ri.length ∧ 0 ≤ e.read.2 ∧ e.read.2 < ri.length) :
    ∃ xs, keepOut ri corr e = .ok xs := by
  unfold keepOut
  split
  · exact sliceIncl_ok_of corr _ _ (fun _ => ⟨hr.1, by omega⟩)
  · exact sliceIncl_ok_of ri _ _ (fun _ => ⟨hr.1, hr.2.2.2⟩)

/-- on an in-range event the chain raises nothing but the `assert` -/
theorem evOut_err {p : CParams} {rr : Iv} {ri corr : List Iv} {isoR : Iv} {isoI : List Iv} {e : MEvent} {x : CErr}
    (hn : corr.length = ri.length) (hr : EventInRange ri.length isoI.length e)
    (h : evOut p rr ri corr isoR isoI e = .error x) : x = .assertion := by
  obtain ⟨hr, hi, _⟩ := hr
  obtain ⟨ks, hks⟩ := keepOut_ok_of ri corr e hn hr
  obtain ⟨y1, hy1, _⟩ := pyGet_inrange ri e.read.1 hr.1 hr.2.1
  unfold evOut at h
  rw [hks, hy1] at h
  simp only at h
  split at h
  · split at h
    · cases h; rfl
    · cases h
  · split at h
    · split at h
      · cases h; rfl
      · cases h
    · split at h
      · rename_i hc
        obtain ⟨h0, h1, _⟩ := hi (Or.inl hc.1)
        obtain ⟨z, hz, _⟩ := pyGet_inrange isoI e.iso.1 h0 h1
        rw [hz] at h; cases h
      · split at h
        · rename_i hc
          obtain ⟨h0, h1, _⟩ := hi (Or.inr (Or.inl hc.1))
          obtain ⟨z, hz, _⟩ := pyGet_inrange isoI e.iso.1 h0 h1
          rw [hz] at h; cases h
        · split at h
          · rename_i hc
            obtain ⟨h0, h1, h2, h3⟩ := hi (Or.inr (Or.inr (misalignmentSet_mem p e.etype hc)))
            obtain ⟨z, hz, _⟩ := pyGet_inrange isoI e.iso.1 h0 h1
            obtain ⟨w, hw, _⟩ := pyGet_inrange isoI e.iso.2 h2 h3
            obtain ⟨ss, hss⟩ := sliceIncl_ok_of isoI e.iso.1 e.iso.2 (fun _ => ⟨h0, h3⟩)
            rw [hz, hw, hss] at h
            simp only at h
            split at h
            · split at h
              · cases h; rfl
              · cases h
            · cases h
          · cases h

/-! ### the loop data, the event that ENDS at an index, the summary of a prefix -/

structure LCtx where
  p : CParams
  emap : List (Int × MEvent)
  mm : List (Int × Int)
  rr : Iv
  ri : List Iv
  corr : List Iv
  isoR : Iv
  isoI : List Iv

def LCtx.loop (c : LCtx) : Nat → Int → Iv → List Iv → Except CErr (Iv × List Iv) :=
  eventLoop c.p c.emap c.mm c.rr c.ri c.corr c.isoR c.isoI

def LCtx.out (c : LCtx) (e : MEvent) : Summ := evOut c.p c.rr c.ri c.corr c.isoR c.isoI e

def LCtx.mic (c : LCtx) (i : Nat) : List Iv := microOf c.mm c.isoI i

def LCtx.mirror (L : Int) (c : LCtx) : LCtx :=
  ⟨c.p, mirrorEmap c.ri.length c.isoI.length c.emap, mirrorMicroMap c.ri.length c.isoI.length c.mm, mirrorIv L c.rr,
   mirrorL L c.ri, mirrorL L c.corr, mirrorIv L c.isoR, mirrorL L c.isoI⟩

/-- the event whose read range ends at intron `k` -/
def findEnd (emap : List (Int × MEvent)) (k : Int) : Option MEvent :=
  (emap.find? (fun q => q.2.read.2 == k)).map (·.2)

/-- looking a key up in the mirrored event map = looking for the event that ENDS at the mirrored index -/
theorem lookup_mirrorEmap (n m : Nat) (emap : List (Int × MEvent)) (j : Int) :
    (mirrorEmap n m emap).lookup j = (findEnd emap ((n : Int) - 1 - j)).map (mirrorMEvent n m) := by
  induction emap with
  | nil => rfl
  | cons q t ih =>
    simp only [mirrorEmap, List.map_cons, findEnd, List.find?_cons, List.lookup_cons] at ih ⊢
    by_cases hq : q.2.read.2 = (n : Int) - 1 - j
    · have e1 : (j == (n : Int) - 1 - q.2.read.2) = true := by simp; omega
      have e2 : (q.2.read.2 == (n : Int) - 1 - j) = true := by simp [hq]
      simp only [e1, e2, Option.map_some]
    · have e1 : (j == (n : Int) - 1 - q.2.read.2) = false := by simp; omega
      have e2 : (q.2.read.2 == (n : Int) - 1 - j) = false := by simp [hq]
      simp only [e1, e2]
      exact ih

/-- summary of the segments that tile the read introns `[0, k)`, read from the right end: the last segment is the
    event that ends at `k − 1` (preceded by the micro introns restored in the exon before its first intron), or the
    read intron `k − 1` itself -/
def backS (c : LCtx) (k : Nat) : Summ :=
  if _hk : k = 0 then .ok ((none, none), [])
  else
    match findEnd c.emap ((k : Int) - 1) with
    | none =>
      match backS c (k - 1), pyGet? c.corr ((k : Int) - 1) with
      | .error x, _ => .error x
      | .ok _, none => .error .index
      | .ok (u, xs), some x => .ok (u, xs ++ c.mic (k - 1) ++ [x])
    | some e =>
      match backS c (min e.read.1.toNat (k - 1)) with
      | .error x => .error x
      | .ok (u, xs) =>
        match c.out e with
        | .error x => .error x
        | .ok (v, ys) => .ok (u.comp v, xs ++ c.mic (min e.read.1.toNat (k - 1)) ++ ys)
termination_by k
decreasing_by all_goals omega


theorem backS_zero (c : LCtx) : backS c 0 = .ok ((none, none), []) := by
  rw [backS]; simp

theorem backS_plain (c : LCtx) (k : Nat) (hk : 0 < k) (h : findEnd c.emap ((k : Int) - 1) = none) :
    backS c k = match backS c (k - 1), pyGet? c.corr ((k : Int) - 1) with
      | .error x, _ => .error x
      | .ok _, none => .error .index
      | .ok (u, xs), some x => .ok (u, xs ++ c.mic (k - 1) ++ [x]) := by
  conv => lhs; rw [backS]
  rw [dif_neg (by omega), h]

theorem backS_ev (c : LCtx) (k : Nat) (hk : 0 < k) (e : MEvent) (h : findEnd c.emap ((k : Int) - 1) = some e)
    (a : Nat) (ha : a = e.read.1.toNat) (hak : a ≤ k - 1) :
    backS c k = match backS c a with
      | .error x => .error x
      | .ok (u, xs) =>
        match c.out e with
        | .error x => .error x
        | .ok (v, ys) => .ok (u.comp v, xs ++ c.mic a ++ ys) := by
  conv => lhs; rw [backS]
  have hm : min e.read.1.toNat (k - 1) = a := by omega
  rw [dif_neg (by omega), h]
  simp only [hm]

/-- the part of `EmapWF` the two runs need: distinct keys, an event is keyed by the first intron of its non-empty
    in-range read range, ranges pairwise disjoint, at most one event per end of the region -/
structure EmapOK (n m : Nat) (emap : List (Int × MEvent)) : Prop where
  nodup : (emap.map (·.1)).Nodup
  key : ∀ q ∈ emap, q.2.read.1 = q.1 ∧ q.2.read.1 ≤ q.2.read.2
  inr : ∀ q ∈ emap, EventInRange n m q.2
  disj : ∀ q ∈ emap, ∀ q' ∈ emap, q.1 < q'.1 → q.2.read.2 < q'.1
  left1 : ∀ q ∈ emap, ∀ q' ∈ emap, LeftT q.2.etype → LeftT q'.2.etype → q = q'
  right1 : ∀ q ∈ emap, ∀ q' ∈ emap, RightT q.2.etype → RightT q'.2.etype → q = q'

theorem filter_le_one_unique {α} (p : α → Bool) (l : List α) (h : (l.filter p).length ≤ 1) :
    ∀ a ∈ l, ∀ b ∈ l, p a = true → p b = true → a = b := by
  induction l with
  | nil => intro a ha; cases ha
  | cons x t ih =>
    by_cases hx : p x = true
    · have ht : t.filter p = [] := by
        simp only [List.filter_cons, hx, if_true, List.length_cons] at h
        exact List.eq_nil_of_length_eq_zero (by omega)
      have hnone : ∀ y ∈ t, p y = true → False := by
        intro y hy hp
        have : y ∈ t.filter p := List.mem_filter.mpr ⟨hy, hp⟩
        rw [ht] at this; cases this
      intro a ha b hb pa pb
      rcases List.mem_cons.mp ha with rfl | ha'
      · rcases List.mem_cons.mp hb with rfl | hb'
        · rfl
        · exact absurd pb (fun h => hnone b hb' h)
      · exact absurd pa (fun h => hnone a ha' h)
    · have hx' : p x = false := by simpa using hx
      simp only [List.filter_cons, hx', Bool.false_eq_true, if_false] at h
      intro a ha b hb pa pb
      rcases List.mem_cons.mp ha with rfl | ha'
      · rw [hx'] at pa; cases pa
      · rcases List.mem_cons.mp hb with rfl | hb'
        · rw [hx'] at pb; cases pb
        · exact ih h a ha' b hb' pa pb

theorem emapOK_of_wf {n m : Nat} {emap : List (Int × MEvent)} (h : EmapWF n m emap) : EmapOK n m emap := by
  obtain ⟨h1, h2, h3, h4, h5, h6⟩ := h
  refine ⟨h1, fun q hq => ⟨(h2 q hq (h4 q hq)).1, (h2 q hq (h4 q hq)).2.1⟩, fun q hq => (h2 q hq (h4 q hq)).2.2,
    fun q hq q' hq' hlt => h3 q hq q' hq' (h4 q hq) hlt, ?_, ?_⟩
  · intro q hq q' hq' hl hl'
    exact filter_le_one_unique _ emap h5 q hq q' hq' (by simpa [LeftT] using hl) (by simpa [LeftT] using hl')
  · intro q hq q' hq' hl hl'
    exact filter_le_one_unique _ emap h6 q hq q' hq' (by simpa [RightT] using hl) (by simpa [RightT] using hl')

theorem nodup_keys_eq {emap : List (Int × MEvent)} (h : (emap.map (·.1)).Nodup) :
    ∀ q ∈ emap, ∀ q' ∈ emap, q.1 = q'.1 → q = q' := by
  induction emap with
  | nil => intro q hq; cases hq
  | cons x t ih =>
    simp only [List.map_cons, List.nodup_cons] at h
    obtain ⟨hx, ht⟩ := h
    intro q hq q' hq' he
    rcases List.mem_cons.mp hq with rfl | hq1
    · rcases List.mem_cons.mp hq' with rfl | hq1'
      · rfl
      · exact absurd (List.mem_map.mpr ⟨q', hq1', he.symm⟩) hx
    · rcases List.mem_cons.mp hq' with rfl | hq1'
      · exact absurd (List.mem_map.mpr ⟨q, hq1, he⟩) hx
      · exact ih ht q hq1 q' hq1' he

theorem findEnd_some {emap : List (Int × MEvent)} {k : Int} {e : MEvent} (h : findEnd emap k = some e) :
    ∃ q ∈ emap, q.2 = e ∧ e.read.2 = k := by
  unfold findEnd at h
  cases hf : emap.find? (fun q => q.2.read.2 == k) with
  | none => simp [hf] at h
  | some q =>
    simp only [hf, Option.map_some, Option.some.injEq] at h
    have hp := List.find?_some hf
    simp only [beq_iff_eq] at hp
    exact ⟨q, List.mem_of_find?_eq_some hf, h, by rw [← h]; exact hp⟩

theorem findEnd_none {emap : List (Int × MEvent)} {k : Int} (h : findEnd emap k = none) :
    ∀ q ∈ emap, q.2.read.2 ≠ k := by
  unfold findEnd at h
  simp only [Option.map_eq_none_iff, List.find?_eq_none, beq_iff_eq] at h
  exact h

theorem lookup_none_keys {k : Int} {m : List (Int × MEvent)} (h : m.lookup k = none) : ∀ q ∈ m, q.1 ≠ k := by
  induction m with
  | nil => intro q hq; cases hq
  | cons x t ih =>
    obtain ⟨k', e'⟩ := x
    rw [List.lookup_cons] at h
    by_cases hk : k = k'
    · subst hk; simp at h
    · have : (k == k') = false := by simp [hk]
      rw [this] at h
      intro q hq
      rcases List.mem_cons.mp hq with rfl | hq'
      · exact fun hc => hk hc.symm
      · exact ih h q hq'

/-- no event range straddles the position `i` -/
def Bd (emap : List (Int × MEvent)) (i : Int) : Prop := ∀ q ∈ emap, ¬ (q.1 < i ∧ i ≤ q.2.read.2)

theorem bd_zero {n m : Nat} {emap : List (Int × MEvent)} (ho : EmapOK n m emap) : Bd emap 0 := by
  intro q hq hc
  have := (ho.inr q hq).read
  have := ho.key q hq
  omega

theorem bd_succ {emap : List (Int × MEvent)} {i : Int} (hb : Bd emap i)
    (hl : emap.lookup i = none) : Bd emap (i + 1) := by
  intro q hq hc
  have h1 := lookup_none_keys hl q hq
  have h2 := hb q hq
  omega

theorem bd_after {n m : Nat} {emap : List (Int × MEvent)} (ho : EmapOK n m emap) {i : Int} {e : MEvent}
    (hl : emap.lookup i = some e) : Bd emap (e.read.2 + 1) := by
  intro q hq hc
  have hm := lookup_mem hl
  have k1 := ho.key _ hm
  have k2 := ho.key q hq
  simp only at k1
  by_cases h1 : q.1 < i
  · have := ho.disj q hq _ hm h1; simp only at this; omega
  · by_cases h2 : i < q.1
    · have := ho.disj _ hm q hq h2; simp only at this; omega
    · have he : q = (i, e) := nodup_keys_eq ho.nodup q hq _ hm (by simp only; omega)
      subst he; simp only at hc; omega

theorem findEnd_of_lookup {n m : Nat} {emap : List (Int × MEvent)} (ho : EmapOK n m emap) {i : Int} {e : MEvent}
    (hl : emap.lookup i = some e) : findEnd emap e.read.2 = some e := by
  have hm := lookup_mem hl
  have k1 := ho.key _ hm
  simp only at k1
  cases hf : findEnd emap e.read.2 with
  | none => exact absurd rfl (findEnd_none hf _ hm)
  | some e' =>
    obtain ⟨q, hq, hqe, hr⟩ := findEnd_some hf
    have k2 := ho.key q hq
    have he : q = (i, e) := by
      by_cases h1 : q.1 < i
      · have := ho.disj q hq _ hm h1; simp only at this; rw [hqe] at this; omega
      · by_cases h2 : i < q.1
        · have := ho.disj _ hm q hq h2; simp only at this; rw [hqe] at k2; omega
        · exact nodup_keys_eq ho.nodup q hq _ hm (by simp only; omega)
    rw [← hqe, he]

theorem findEnd_none_of_bd {n m : Nat} {emap : List (Int × MEvent)} (ho : EmapOK n m emap) {i : Int} (hb : Bd emap i)
    (hl : emap.lookup i = none) : findEnd emap i = none := by
  cases hf : findEnd emap i with
  | none => rfl
  | some e =>
    obtain ⟨q, hq, hqe, hr⟩ := findEnd_some hf
    have h1 := lookup_none_keys hl q hq
    have h2 := hb q hq
    have k2 := ho.key q hq
    rw [← hqe] at hr
    omega


/-! ### one iteration of the loop (well-formed micro map) -/

theorem LCtx.loop_plain (c : LCtx) {n' : Nat} (hw : MicroWF n' c.isoI.length c.mm) (fuel i : Nat) (reg : Iv)
    (acc : List Iv) (x : Iv) (hi : i < c.corr.length) (hl : c.emap.lookup (i : Int) = none)
    (hx : pyGet? c.corr (i : Int) = some x) :
    c.loop (fuel + 1) (i : Int) reg acc = c.loop fuel ((i + 1 : Nat) : Int) reg (acc ++ c.mic i ++ [x]) := by
  have hlt : (i : Int) < (c.corr.length : Int) := by omega
  unfold LCtx.loop
  conv => lhs; rw [eventLoop]
  simp only [hlt, if_true, microStep_wf hw, hl, hx, LCtx.mic]
  rfl

theorem LCtx.loop_ev (c : LCtx) {n' : Nat} (hw : MicroWF n' c.isoI.length c.mm) (fuel i : Nat) (reg : Iv)
    (acc : List Iv) (e : MEvent) (hi : i < c.corr.length) (hl : c.emap.lookup (i : Int) = some e) :
    c.loop (fuel + 1) (i : Int) reg acc
      = match c.out e with
        | .error x => .error x
        | .ok (v, ys) => c.loop fuel (e.read.2 + 1) (v.app reg) (acc ++ c.mic i ++ ys) := by
  have hlt : (i : Int) < (c.corr.length : Int) := by omega
  unfold LCtx.loop LCtx.out
  conv => lhs; rw [eventLoop]
  simp only [hlt, if_true, microStep_wf hw, hl, eventStep_evOut, LCtx.mic]
  cases evOut c.p c.rr c.ri c.corr c.isoR c.isoI e with
  | error x => rfl
  | ok q => rfl

theorem LCtx.loop_end (c : LCtx) {n' : Nat} (hw : MicroWF n' c.isoI.length c.mm) (fuel : Nat) (reg : Iv)
    (acc : List Iv) :
    c.loop (fuel + 1) (c.corr.length : Int) reg acc = .ok (reg, acc ++ c.mic c.corr.length) := by
  unfold LCtx.loop
  rw [eventLoop]
  simp only [Int.lt_irrefl, if_false, microStep_wf hw, LCtx.mic]

/-! ### what a prefix summary can be -/

theorem backS_props (c : LCtx) (hn : c.corr.length = c.ri.length) (ho : EmapOK c.ri.length c.isoI.length c.emap) :
    ∀ k, k ≤ c.corr.length →
      (∀ x, backS c k = .error x → x = .assertion) ∧
      (∀ u xs, backS c k = .ok (u, xs) →
        (u.1 ≠ none → ∃ q ∈ c.emap, q.2.read.2 < k ∧ LeftT q.2.etype) ∧
        (u.2 ≠ none → ∃ q ∈ c.emap, q.2.read.2 < k ∧ RightT q.2.etype)) := by
  intro k
  induction k using Nat.strongRecOn with
  | ind k ih =>
    intro hk
    by_cases hk0 : k = 0
    · subst hk0
      rw [backS_zero]
      refine ⟨(fun x h => nomatch h), fun u xs h => ?_⟩
      simp only [Except.ok.injEq, Prod.mk.injEq] at h
      obtain ⟨rfl, _⟩ := h
      exact ⟨fun h => absurd rfl h, fun h => absurd rfl h⟩
    · cases hf : findEnd c.emap ((k : Int) - 1) with
      | none =>
        rw [backS_plain c k (by omega) hf]
        obtain ⟨y, hy, _⟩ := pyGet_inrange c.corr ((k : Int) - 1) (by omega) (by omega)
        obtain ⟨i1, i2⟩ := ih (k - 1) (by omega) (by omega)
        rw [hy]
        cases hb : backS c (k - 1) with
        | error z =>
          refine ⟨fun x h => ?_, fun u xs h => nomatch h⟩
          simp only [Except.error.injEq] at h
          subst h; exact i1 _ hb
        | ok q =>
          obtain ⟨u0, xs0⟩ := q
          refine ⟨(fun x h => nomatch h), fun u xs h => ?_⟩
          simp only [Except.ok.injEq, Prod.mk.injEq] at h
          obtain ⟨rfl, _⟩ := h
          obtain ⟨j1, j2⟩ := i2 _ _ hb
          refine ⟨fun h => ?_, fun h => ?_⟩
          · obtain ⟨q, hq, hlt, ht⟩ := j1 h; exact ⟨q, hq, by omega, ht⟩
          · obtain ⟨q, hq, hlt, ht⟩ := j2 h; exact ⟨q, hq, by omega, ht⟩
      | some e =>
        obtain ⟨q, hq, hqe, hr⟩ := findEnd_some hf
        have k1 := ho.key q hq
        have k2 := (ho.inr q hq).read
        rw [hqe] at k1 k2
        have hak : e.read.1.toNat ≤ k - 1 := by omega
        rw [backS_ev c k (by omega) e hf e.read.1.toNat rfl hak]
        obtain ⟨i1, i2⟩ := ih e.read.1.toNat (by omega) (by omega)
        cases hb : backS c e.read.1.toNat with
        | error z =>
          refine ⟨fun x h => ?_, fun u xs h => nomatch h⟩
          simp only [Except.error.injEq] at h
          subst h; exact i1 _ hb
        | ok q0 =>
          obtain ⟨u0, xs0⟩ := q0
          obtain ⟨j1, j2⟩ := i2 _ _ hb
          simp only
          cases ho' : c.out e with
          | error z =>
            refine ⟨fun x h => ?_, fun u xs h => nomatch h⟩
            simp only [Except.error.injEq] at h
            subst h
            exact evOut_err hn (hqe ▸ ho.inr q hq) ho'
          | ok q1 =>
            obtain ⟨v, ys⟩ := q1
            obtain ⟨s1, s2⟩ := evOut_sets ho'
            refine ⟨(fun x h => nomatch h), fun u xs h => ?_⟩
            simp only [Except.ok.injEq, Prod.mk.injEq] at h
            obtain ⟨rfl, _⟩ := h
            refine ⟨fun h => ?_, fun h => ?_⟩
            · by_cases hv : v.1 = none
              · have : u0.1 ≠ none := by
                  intro hc; apply h; simp [RegUpd.comp, hv, hc]
                obtain ⟨q', hq', hlt, ht⟩ := j1 this
                exact ⟨q', hq', by omega, ht⟩
              · exact ⟨q, hq, by rw [hqe]; omega, by rw [hqe]; exact s1 hv⟩
            · by_cases hv : v.2 = none
              · have : u0.2 ≠ none := by
                  intro hc; apply h; simp [RegUpd.comp, hv, hc]
                obtain ⟨q', hq', hlt, ht⟩ := j2 this
                exact ⟨q', hq', by omega, ht⟩
              · exact ⟨q, hq, by rw [hqe]; omega, by rw [hqe]; exact s2 hv⟩


/-! ### the forward loop reads the tiling left to right -/

/-- the result of the loop in terms of the summary of ALL segments -/
def totalS (c : LCtx) (reg : Iv) (acc : List Iv) : Except CErr (Iv × List Iv) :=
  match backS c c.corr.length with
  | .error x => .error x
  | .ok (u, xs) => .ok (u.app reg, acc ++ xs ++ c.mic c.corr.length)

theorem loop_eq_back (c : LCtx) {n' : Nat} (hn : c.corr.length = c.ri.length) (hw : MicroWF n' c.isoI.length c.mm)
    (ho : EmapOK c.ri.length c.isoI.length c.emap) :
    ∀ (fuel i : Nat) (reg : Iv) (acc : List Iv), i ≤ c.corr.length → c.corr.length - i + 1 ≤ fuel → Bd c.emap (i : Int) →
      (match backS c i with
       | .error x => .error x
       | .ok (u, xs) => c.loop fuel (i : Int) (u.app reg) (acc ++ xs)) = totalS c reg acc := by
  intro fuel
  induction fuel with
  | zero => intro i reg acc _ hf; omega
  | succ fuel ih =>
    intro i reg acc hi hf hb
    by_cases hlt : i < c.corr.length
    · cases hl : c.emap.lookup (i : Int) with
      | none =>
        have hfe : findEnd c.emap (((i + 1 : Nat) : Int) - 1) = none := by
          have := findEnd_none_of_bd ho hb hl
          have e : ((i + 1 : Nat) : Int) - 1 = (i : Int) := by omega
          rw [e]; exact this
        obtain ⟨x, hx, _⟩ := pyGet_inrange c.corr (i : Int) (by omega) (by omega)
        have hstep := backS_plain c (i + 1) (by omega) hfe
        have e : ((i + 1 : Nat) : Int) - 1 = (i : Int) := by omega
        rw [e, hx, Nat.add_sub_cancel] at hstep
        have hI := ih (i + 1) reg acc (by omega) (by omega) (by
          have := bd_succ hb hl
          have e2 : ((i + 1 : Nat) : Int) = (i : Int) + 1 := by omega
          rw [e2]; exact this)
        rw [hstep] at hI
        cases hbk : backS c i with
        | error y => rw [hbk] at hI; exact hI
        | ok q =>
          obtain ⟨u, xs⟩ := q
          rw [hbk] at hI
          simp only at hI ⊢
          rw [c.loop_plain hw fuel i _ _ x hlt hl hx, ← hI]
          simp only [List.append_assoc]
      | some e =>
        have hm := lookup_mem hl
        have k1 := ho.key _ hm
        have k2 := (ho.inr _ hm).read
        simp only at k1 k2
        have hfe : findEnd c.emap (((e.read.2.toNat + 1 : Nat) : Int) - 1) = some e := by
          have := findEnd_of_lookup ho hl
          have e' : ((e.read.2.toNat + 1 : Nat) : Int) - 1 = e.read.2 := by omega
          rw [e']; exact this
        have hstep := backS_ev c (e.read.2.toNat + 1) (by omega) e hfe i (by omega) (by omega)
        have hI := ih (e.read.2.toNat + 1) reg acc (by omega) (by omega) (by
          have := bd_after ho hl
          have e2 : ((e.read.2.toNat + 1 : Nat) : Int) = e.read.2 + 1 := by omega
          rw [e2]; exact this)
        rw [hstep] at hI
        cases hbk : backS c i with
        | error y => rw [hbk] at hI; exact hI
        | ok q =>
          obtain ⟨u, xs⟩ := q
          rw [hbk] at hI
          simp only at hI ⊢
          rw [c.loop_ev hw fuel i _ _ e hlt hl]
          cases hoe : c.out e with
          | error y => rw [hoe] at hI; exact hI
          | ok q1 =>
            obtain ⟨v, ys⟩ := q1
            rw [hoe] at hI
            simp only at hI ⊢
            have e2 : ((e.read.2.toNat + 1 : Nat) : Int) = e.read.2 + 1 := by omega
            rw [← hI, e2, RegUpd.app_comp]
            simp only [List.append_assoc]
    · have hie : i = c.corr.length := by omega
      subst hie
      unfold totalS
      cases backS c c.corr.length with
      | error y => rfl
      | ok q =>
        obtain ⟨u, xs⟩ := q
        simp only
        rw [c.loop_end hw]


/-! ### the forward loop on the mirrored data reads the tiling right to left -/

theorem mirror_loop_back (L : Int) (c : LCtx) (hn : c.corr.length = c.ri.length)
    (hw : MicroWF c.ri.length c.isoI.length c.mm) (ho : EmapOK c.ri.length c.isoI.length c.emap) :
    ∀ (fuel j : Nat) (reg' : Iv) (acc' : List Iv), j ≤ c.ri.length → c.ri.length - j + 1 ≤ fuel →
      (c.mirror L).loop fuel (j : Int) reg' acc'
        = match backS c (c.ri.length - j) with
          | .error x => .error x
          | .ok (u, xs) => .ok ((mirrorUpd L u).app reg', acc' ++ mirrorL L (xs ++ c.mic (c.ri.length - j))) := by
  have hw' : MicroWF c.ri.length (c.mirror L).isoI.length (c.mirror L).mm := by
    show MicroWF c.ri.length (mirrorL L c.isoI).length (mirrorMicroMap c.ri.length c.isoI.length c.mm)
    rw [mirrorL_length]; exact microWF_mirror hw
  have hcl : (c.mirror L).corr.length = c.ri.length := by
    show (mirrorL L c.corr).length = _
    rw [mirrorL_length, hn]
  have hmic : ∀ j, j ≤ c.ri.length → (c.mirror L).mic j = mirrorL L (c.mic (c.ri.length - j)) :=
    fun j hj => microOf_mirror L hw j hj
  have hprops := backS_props c hn ho
  intro fuel
  induction fuel with
  | zero => intro j _ _ _ hf; omega
  | succ fuel ih =>
    intro j reg' acc' hj hfu
    by_cases hlt : j < c.ri.length
    · have hlk : (c.mirror L).emap.lookup (j : Int)
          = (findEnd c.emap ((c.ri.length : Int) - 1 - j)).map (mirrorMEvent c.ri.length c.isoI.length) :=
        lookup_mirrorEmap c.ri.length c.isoI.length c.emap (j : Int)
      have ek : ((c.ri.length - j : Nat) : Int) - 1 = (c.ri.length : Int) - 1 - j := by omega
      cases hf : findEnd c.emap ((c.ri.length : Int) - 1 - j) with
      | none =>
        rw [hf] at hlk
        obtain ⟨x, hx, _⟩ := pyGet_inrange c.corr ((c.ri.length : Int) - 1 - j) (by omega) (by omega)
        have hx' : pyGet? (c.mirror L).corr (j : Int) = some (mirrorIv L x) := by
          have := corr_pyGet?_mirror_int L c.corr ((c.ri.length : Int) - 1 - j) (by omega) (by omega)
          rw [hx, hn] at this
          have e : (c.ri.length : Int) - 1 - ((c.ri.length : Int) - 1 - j) = j := by omega
          rw [e] at this; exact this
        rw [(c.mirror L).loop_plain hw' fuel j _ _ _ (by omega) hlk hx', ih (j + 1) _ _ (by omega) (by omega)]
        rw [backS_plain c (c.ri.length - j) (by omega) (by rw [ek]; exact hf), ek, hx]
        have e3 : c.ri.length - j - 1 = c.ri.length - (j + 1) := by omega
        rw [e3]
        cases backS c (c.ri.length - (j + 1)) with
        | error y => rfl
        | ok q =>
          obtain ⟨u, xs⟩ := q
          simp only [hmic j hj, mirrorL_append, mirrorL_singleton, List.append_assoc]
      | some e =>
        rw [hf] at hlk
        obtain ⟨q, hq, hqe, hr⟩ := findEnd_some hf
        have k1 := ho.key q hq
        have hinr := ho.inr q hq
        rw [hqe] at k1 hinr
        have k2 := hinr.read
        have hout : (c.mirror L).out (mirrorMEvent c.ri.length c.isoI.length e) = mirrorSumm L (c.out e) :=
          evOut_mirror L c.p c.rr c.ri c.corr c.isoR c.isoI e hn hinr
        have enext : (mirrorMEvent c.ri.length c.isoI.length e).read.2 + 1
            = ((c.ri.length - e.read.1.toNat : Nat) : Int) := by
          simp only [mirrorMEvent, mirrorIdx]; omega
        have eback : c.ri.length - (c.ri.length - e.read.1.toNat) = e.read.1.toNat := by omega
        rw [(c.mirror L).loop_ev hw' fuel j _ _ _ (by omega) hlk, hout, enext]
        rw [backS_ev c (c.ri.length - j) (by omega) e (by rw [ek]; exact hf) e.read.1.toNat rfl (by omega)]
        have hpa := hprops e.read.1.toNat (by omega)
        have hI := fun r a => ih (c.ri.length - e.read.1.toNat) r a (by omega) (by omega)
        rw [eback] at hI
        cases hb : backS c e.read.1.toNat with
        | error z =>
          have hz := hpa.1 z hb
          cases hoe : c.out e with
          | error y =>
            have hy := evOut_err hn hinr hoe
            simp only [mirrorSumm, hy, hz]
          | ok q1 =>
            obtain ⟨v, ys⟩ := q1
            simp only [mirrorSumm]
            rw [hI, hb]
        | ok q0 =>
          obtain ⟨u, xs⟩ := q0
          cases hoe : c.out e with
          | error y => simp only [mirrorSumm]
          | ok q1 =>
            obtain ⟨v, ys⟩ := q1
            simp only [mirrorSumm]
            rw [hI, hb]
            simp only
            obtain ⟨p1, p2⟩ := hpa.2 u xs hb
            obtain ⟨s1, s2⟩ := evOut_sets hoe
            have h1 : u.1 = none ∨ v.1 = none := by
              by_cases hu : u.1 = none
              · exact Or.inl hu
              · by_cases hv : v.1 = none
                · exact Or.inr hv
                · exfalso
                  obtain ⟨q0, hq0, hlt0, ht0⟩ := p1 hu
                  have := ho.left1 q0 hq0 q hq ht0 (by rw [hqe]; exact s1 hv)
                  rw [this, hqe] at hlt0
                  omega
            have h2 : u.2 = none ∨ v.2 = none := by
              by_cases hu : u.2 = none
              · exact Or.inl hu
              · by_cases hv : v.2 = none
                · exact Or.inr hv
                · exfalso
                  obtain ⟨q0, hq0, hlt0, ht0⟩ := p2 hu
                  have := ho.right1 q0 hq0 q hq ht0 (by rw [hqe]; exact s2 hv)
                  rw [this, hqe] at hlt0
                  omega
            rw [RegUpd.comp_comm u v h1 h2, mirrorUpd_comp, RegUpd.app_comp]
            simp only [hmic j hj, mirrorL_append, List.append_assoc]
    · have hje : j = c.ri.length := by omega
      subst hje
      have e0 : ((c.ri.length : Nat) : Int) = (((c.mirror L).corr.length : Nat) : Int) := by rw [hcl]
      rw [e0, (c.mirror L).loop_end hw', hcl, hmic _ (Nat.le_refl _), Nat.sub_self, backS_zero]
      simp only [mirrorUpd, Option.map_none, RegUpd.app, Option.getD_none, List.nil_append]


end IsoVerif.Lemmas.C11
