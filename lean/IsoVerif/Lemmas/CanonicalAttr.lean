/-
Helper lemmas for Props/C18Attr.lean: the values a key carries on a printed attribute list (`attrValues`), `OrderedDict`
assignment (`setAttr`), the copy loop of `GeneInfo.set_gene_attributes` (`copyLoop`).
-/
import IsoVerif.Model.Canonical

namespace IsoVerif.Lemmas.C18
open IsoVerif.Gen IsoVerif.Model IsoVerif.Model.C18

/-- every value the key `k` carries on the attribute list, in line order (what a GTF reader that keeps all values of a
    repeated key sees) -/
def attrValues (l : AttrList) (k : String) : List String := (l.filter fun e => e.1 == k).map (·.2)

theorem attrValues_append (a b : AttrList) (k : String) :
    attrValues (a ++ b) k = attrValues a k ++ attrValues b k := by
  simp [attrValues]

theorem attrValues_cons_ne (e : String × String) (l : AttrList) (k : String) (h : e.1 ≠ k) :
    attrValues (e :: l) k = attrValues l k := by
  simp [attrValues, h]

theorem attrValues_cons_eq (v : String) (l : AttrList) (k : String) :
    attrValues ((k, v) :: l) k = v :: attrValues l k := by
  simp [attrValues]

theorem attrValues_nil_of_check {info : AttrList} {k : String} (h : checkAdditional info k = false) :
    attrValues info k = [] := by
  unfold checkAdditional at h
  rw [List.any_eq_false] at h
  unfold attrValues
  rw [List.map_eq_nil_iff, List.filter_eq_nil_iff]
  exact h

theorem check_of_attrValues {info : AttrList} {k : String} (h : attrValues info k ≠ []) :
    checkAdditional info k = true := by
  cases hc : checkAdditional info k with
  | true => rfl
  | false => exact absurd (attrValues_nil_of_check hc) h

/-- assigning a key the `OrderedDict` does not hold appends the item -/
theorem setAttr_fresh {info : AttrList} {k v : String} (h : checkAdditional info k = false) :
    setAttr info k v = info ++ [(k, v)] := by
  induction info with
  | nil => rfl
  | cons e rest ih =>
    simp only [checkAdditional, List.any_cons, Bool.or_eq_false_iff, beq_eq_false_iff_ne, ne_eq] at h
    have hr : checkAdditional rest k = false := h.2
    simp only [setAttr, h.1, if_false, ih hr, List.cons_append]

/-- assigning key `k` does not change what another key carries -/
theorem attrValues_setAttr_other (info : AttrList) (k v k' : String) (hne : k ≠ k') :
    attrValues (setAttr info k v) k' = attrValues info k' := by
  induction info with
  | nil => simp [setAttr, attrValues, hne]
  | cons e rest ih =>
    simp only [setAttr]
    split
    · rename_i he
      rw [attrValues_cons_ne _ _ _ (by simpa using hne), attrValues_cons_ne _ _ _ (by rw [he]; exact hne)]
    · by_cases hk : e.1 = k'
      · have : e = (k', e.2) := by rw [← hk]
        rw [this, attrValues_cons_eq, attrValues_cons_eq, ih]
      · rw [attrValues_cons_ne _ _ _ hk, attrValues_cons_ne _ _ _ hk, ih]

/-- declarative reading of the copy loop: an item `(k, v)` is copied iff `k` is not in the skip list and the reference
    transcript has the key `k` with first value `v` -/
theorem copyLoop_mem (skip : List String) (ref : RefAttrs) (k v : String) :
    (k, v) ∈ copyLoop skip ref ↔ skip.contains k = false ∧ ∃ vs, (k, v :: vs) ∈ ref := by
  induction ref with
  | nil => simp [copyLoop]
  | cons e rest ih =>
    obtain ⟨k0, vs0⟩ := e
    unfold copyLoop
    split
    · rename_i hs
      rw [ih]
      constructor
      · rintro ⟨h1, vs, h2⟩; exact ⟨h1, vs, List.mem_cons_of_mem _ h2⟩
      · rintro ⟨h1, vs, h2⟩
        refine ⟨h1, vs, ?_⟩
        rcases List.mem_cons.mp h2 with h | h
        · simp only [Prod.mk.injEq] at h
          rw [h.1] at h1
          rw [h1] at hs
          exact absurd hs (by decide)
        · exact h
    · rename_i hs
      cases vs0 with
      | nil =>
        simp only
        rw [ih]
        constructor
        · rintro ⟨h1, vs, h2⟩; exact ⟨h1, vs, List.mem_cons_of_mem _ h2⟩
        · rintro ⟨h1, vs, h2⟩
          refine ⟨h1, vs, ?_⟩
          rcases List.mem_cons.mp h2 with h | h
          · simp at h
          · exact h
      | cons v0 vt =>
        simp only [List.mem_cons, Prod.mk.injEq]
        rw [ih]
        constructor
        · rintro (⟨rfl, rfl⟩ | ⟨h1, vs, h2⟩)
          · exact ⟨by simpa using hs, vt, Or.inl ⟨rfl, rfl⟩⟩
          · exact ⟨h1, vs, Or.inr h2⟩
        · rintro ⟨h1, vs, h2 | h2⟩
          · simp only [List.cons.injEq] at h2
            exact Or.inl ⟨h2.1, h2.2.1⟩
          · exact Or.inr ⟨h1, vs, h2⟩

/-- a key of the skip list is not copied, whatever the reference says about it (any number of values) -/
theorem attrValues_copyLoop_skipped (skip : List String) (ref : RefAttrs) (k : String) (h : skip.contains k = true) :
    attrValues (copyLoop skip ref) k = [] := by
  unfold attrValues
  rw [List.map_eq_nil_iff, List.filter_eq_nil_iff]
  intro e he
  have := (copyLoop_mem skip ref e.1 e.2).mp he
  intro hk
  have hk' : e.1 = k := by simpa using hk
  rw [hk', h] at this
  exact absurd this.1 (by decide)

/-- what a key of the transcript skip list (other than the two ids and `exons`) carries on the printed line is what the
    model's own `additional_info` carries -/
theorem line_values_of_skipped_key (skip : List String) (m : PModel) (ref : Option RefAttrs) (k : String)
    (hk1 : k ≠ "gene_id") (hk2 : k ≠ "transcript_id") (hk3 : EXONS_KEY ≠ k) (hskip : skip.contains k = true) :
    attrValues (transcriptLineAttrs skip m ref) k = attrValues m.info k := by
  have hinfo : attrValues (if checkAdditional m.info EXONS_KEY then m.info
      else setAttr m.info EXONS_KEY (toString m.exons.length)) k = attrValues m.info k := by
    split
    · rfl
    · exact attrValues_setAttr_other _ _ _ _ hk3
  cases ref with
  | none =>
    simp only [transcriptLineAttrs, List.append_nil]
    rw [attrValues_append, attrValues_cons_ne _ _ _ (by simpa using hk1.symm),
      attrValues_cons_ne _ _ _ (by simpa using hk2.symm), hinfo]
    simp [attrValues]
  | some r =>
    simp only [transcriptLineAttrs]
    rw [attrValues_append, attrValues_append, attrValues_cons_ne _ _ _ (by simpa using hk1.symm),
      attrValues_cons_ne _ _ _ (by simpa using hk2.symm), hinfo, attrValues_copyLoop_skipped skip r k hskip]
    simp [attrValues]

end IsoVerif.Lemmas.C18
