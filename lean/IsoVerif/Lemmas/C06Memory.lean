/-
Lemmas for C06: the multimapper bookkeeping of `DatasetProcessor.collect_reads` in both memory modes.
-/
import IsoVerif.Model.Schedule

namespace IsoVerif.Lemmas.C06
open IsoVerif.Model.C06

theorem groupByRead_cons (r : BRec) (rest : List BRec) :
    groupByRead (r :: rest) = (r.readId, r :: rest.filter (fun x => x.readId == r.readId))
      :: groupByRead (rest.filter (fun x => !(x.readId == r.readId))) := by
  rw [groupByRead]

/-- counting an id different from `r`'s: `r` and the records sharing its id can be dropped -/
theorem countId_other (r : BRec) (rest : List BRec) (y : String) (h : (y == r.readId) = false) :
    countId (r :: rest) y = countId (rest.filter (fun x => !(x.readId == r.readId))) y := by
  unfold countId
  have h1 : (r.readId == y) = false := by
    have : y ≠ r.readId := by simpa using h
    simp [Ne.symm this]
  simp only [List.filter_cons, h1, Bool.false_eq_true, if_false, List.filter_filter]
  congr 1
  apply List.filter_congr
  intro x _
  by_cases hx : x.readId = y
  · subst hx
    simp [h]
  · simp [hx]

theorem countId_same (r : BRec) (rest : List BRec) :
    countId (r :: rest) r.readId = (rest.filter (fun x => x.readId == r.readId)).length + 1 := by
  simp [countId]

def uniqOf (l : List BRec) : List BRec := l.filter (fun x => countId l x.readId == 1)
def multiOf (l : List BRec) : List BRec := l.filter (fun x => !(countId l x.readId == 1))

/-- what the default mode computes from the grouped multimappers and the directly counted unique reads -/
def lowOf (resolve : List BRec → List BRec) (l : List BRec) : List BRec × Nat × Nat :=
  let res := resolveAll resolve (groupByRead (multiOf l))
  (res.1, res.2.1 + (uniqOf l).length, res.2.2 + ((uniqOf l).filter (·.polyA)).length)

theorem bookkeepingLow_eq (resolve : List BRec → List BRec) (l : List BRec) : bookkeepingLow resolve l = lowOf resolve l := rfl

section step
variable (r : BRec) (rest : List BRec)

/-- on the records of other reads the uniqueness test of the whole list is that of the remaining list -/
theorem pred_other (x : BRec) (hx : (x.readId == r.readId) = false) :
    (countId (r :: rest) x.readId == 1) = (countId (rest.filter (fun y => !(y.readId == r.readId))) x.readId == 1) := by
  rw [countId_other r rest x.readId hx]

theorem filter_rest_other (q : Bool → Bool)
    (hsame : ∀ x, x ∈ rest → (x.readId == r.readId) = true → q (countId (r :: rest) x.readId == 1) = false) :
    rest.filter (fun x => q (countId (r :: rest) x.readId == 1))
      = (rest.filter (fun y => !(y.readId == r.readId))).filter
          (fun x => q (countId (rest.filter (fun y => !(y.readId == r.readId))) x.readId == 1)) := by
  rw [List.filter_filter]
  apply List.filter_congr
  intro x hx
  by_cases hid : (x.readId == r.readId) = true
  · rw [hsame x hx hid]; simp [hid]
  · have hid' : (x.readId == r.readId) = false := by simpa using hid
    rw [pred_other r rest x hid']; simp [hid']

end step

theorem kept_single (r : BRec) (h : r.suspended = false) :
    keptCount [r] = 1 ∧ keptPolyA [r] = ([r].filter (·.polyA)).length := by
  simp [keptCount, keptPolyA, h]

theorem high_eq_low (resolve : List BRec → List BRec) : ∀ (n : Nat) (l : List BRec), l.length = n →
    (∀ x, x ∈ l → x.suspended = false) → resolveAll resolve (groupByRead l) = lowOf resolve l := by
  intro n
  induction n using Nat.strongRecOn with
  | ind n ih =>
    intro l hl hs
    cases l with
    | nil => simp [lowOf, multiOf, uniqOf, groupByRead, resolveAll]
    | cons r rest =>
      have hlen : (rest.filter (fun y => !(y.readId == r.readId))).length < n := by
        rw [← hl]; simp only [List.length_cons]
        exact Nat.lt_succ_of_le (List.length_filter_le _ _)
      have hsO : ∀ x, x ∈ rest.filter (fun y => !(y.readId == r.readId)) → x.suspended = false :=
        fun x hx => hs x (List.mem_cons_of_mem _ (List.mem_filter.1 hx).1)
      have ihO := ih _ hlen (rest.filter (fun y => !(y.readId == r.readId))) rfl hsO
      rw [groupByRead_cons]
      by_cases hsame : rest.filter (fun x => x.readId == r.readId) = []
      · -- the read of `r` has one record
        have hcnt : countId (r :: rest) r.readId = 1 := by rw [countId_same, hsame]; rfl
        have hq : ∀ (q : Bool → Bool) x, x ∈ rest → (x.readId == r.readId) = true →
            q (countId (r :: rest) x.readId == 1) = false := by
          intro q x hx hid
          have : x ∈ rest.filter (fun x => x.readId == r.readId) := List.mem_filter.2 ⟨hx, hid⟩
          rw [hsame] at this; cases this
        have hu : uniqOf (r :: rest) = r :: uniqOf (rest.filter (fun y => !(y.readId == r.readId))) := by
          unfold uniqOf
          rw [List.filter_cons]
          simp only [hcnt, beq_self_eq_true, if_true]
          congr 1
          exact filter_rest_other r rest id (hq id)
        have hm : multiOf (r :: rest) = multiOf (rest.filter (fun y => !(y.readId == r.readId))) := by
          unfold multiOf
          rw [List.filter_cons]
          simp only [hcnt, beq_self_eq_true, Bool.not_true, Bool.false_eq_true, if_false]
          exact filter_rest_other r rest (fun b => !b) (hq _)
        have hk := kept_single r (hs r List.mem_cons_self)
        simp only [resolveAll, hsame, List.length_singleton, Nat.lt_irrefl, if_false, gt_iff_lt]
        rw [ihO]
        simp only [lowOf, hu, hm, hk.1, hk.2, List.length_cons, List.filter_cons]
        by_cases hp : r.polyA = true
        · simp [hp]; omega
        · simp [hp]; omega
      · -- the read of `r` is a multimapper
        have hpos : 0 < (rest.filter (fun x => x.readId == r.readId)).length :=
          List.length_pos_iff.2 hsame
        have hcnt : (countId (r :: rest) r.readId == 1) = false := by
          rw [countId_same]; exact beq_eq_false_iff_ne.2 (by omega)
        have hq : ∀ x, x ∈ rest → (x.readId == r.readId) = true → (countId (r :: rest) x.readId == 1) = false := by
          intro x _ hid
          have : x.readId = r.readId := by simpa using hid
          rw [this]; exact hcnt
        have hu : uniqOf (r :: rest) = uniqOf (rest.filter (fun y => !(y.readId == r.readId))) := by
          unfold uniqOf
          rw [List.filter_cons]
          simp only [hcnt, Bool.false_eq_true, if_false]
          exact filter_rest_other r rest id (fun x hx hid => hq x hx hid)
        have hm : multiOf (r :: rest) = r :: rest.filter (fun x => !(countId (r :: rest) x.readId == 1)) := by
          unfold multiOf
          rw [List.filter_cons]
          simp [hcnt]
        have hm1 : (rest.filter (fun x => !(countId (r :: rest) x.readId == 1))).filter (fun x => x.readId == r.readId)
            = rest.filter (fun x => x.readId == r.readId) := by
          rw [List.filter_filter]
          apply List.filter_congr
          intro x hx
          by_cases hid : (x.readId == r.readId) = true
          · simp [hid, hq x hx hid]
          · simp [hid]
        have hm2 : (rest.filter (fun x => !(countId (r :: rest) x.readId == 1))).filter (fun x => !(x.readId == r.readId))
            = multiOf (rest.filter (fun y => !(y.readId == r.readId))) := by
          unfold multiOf
          rw [List.filter_filter, List.filter_filter]
          apply List.filter_congr
          intro x hx
          by_cases hid : (x.readId == r.readId) = true
          · simp [hid]
          · have hid' : (x.readId == r.readId) = false := by simpa using hid
            rw [pred_other r rest x hid']; simp [hid', Bool.and_comm]
        have hgt : (r :: rest.filter (fun x => x.readId == r.readId)).length > 1 := by
          simp only [List.length_cons]; omega
        rw [lowOf, hm, groupByRead_cons, hm1, hm2, hu]
        simp only [resolveAll, hgt, if_true]
        rw [ihO]
        simp only [lowOf]
        refine Prod.ext rfl (Prod.ext ?_ ?_) <;> simp only [] <;> omega

theorem memory_mode_equal' (resolve : List BRec → List BRec) (recs : List BRec)
    (h : ∀ x, x ∈ recs → x.suspended = false) : bookkeepingHigh resolve recs = bookkeepingLow resolve recs := by
  rw [bookkeepingLow_eq]
  exact high_eq_low resolve _ recs rfl h

end IsoVerif.Lemmas.C06
