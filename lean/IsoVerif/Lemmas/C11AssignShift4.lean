/-
C11 helper lemmas — translation of the assignment model, part 4: `detect_reference_exons_*`, `verify_polya`,
`verify_polyt`, `check_internal_*`, `verify_read_ends`.
-/
import IsoVerif.Lemmas.C11AssignShift3

namespace IsoVerif.Lemmas.C11.AssignShift
open IsoVerif.Gen IsoVerif.Model IsoVerif.Model.C01 IsoVerif.Model.C11

theorem shiftEvents_misalign (k : Int) (ty : MatchEventSubtype) (hty : isPosEvent ty = false) (c : Nat) (f : Nat → Int × Int) :
    shiftEvents k ((List.range c).map (fun (i : Nat) => ({ ty := ty, isoRegion := f i } : Event)))
      = (List.range c).map (fun (i : Nat) => ({ ty := ty, isoRegion := f i } : Event)) := by
  apply shiftEvents_of_noPos
  intro e he
  obtain ⟨i, _, rfl⟩ := List.mem_map.mp he
  exact hty

theorem countBeyond_le (pos : Int) (l : List Iv) : countBeyond pos l ≤ l.length := by
  induction l with
  | nil => exact Nat.le_refl 0
  | cons e es ih => simp only [countBeyond, List.length_cons]; split <;> omega

theorem countBefore_le (pos : Int) (l : List Iv) : countBefore pos l ≤ l.length := by
  induction l with
  | nil => exact Nat.le_refl 0
  | cons e es ih => simp only [countBefore, List.length_cons]; split <;> omega

theorem tailDist_absent (a : Int) : minInf (distOrInf a (-1)) (distOrInf a (-1)) = none := by
  simp [minInf, distOrInf]

/-- with both positions absent nothing is ever detected (after fix a2ae069 the distance is infinite), whatever the
    loop counted -/
theorem detectBeyondPolya_absent (p : Params) (iso : List Iv) (evs : List Event) :
    detectBeyondPolya p iso (-1) (-1) evs = some (evs, -1, -1) := by
  simp only [detectBeyondPolya, tailDist_absent, missedTerminalOk]
  generalize hc : countBeyond (if (-1 : Int) ≠ -1 then -1 else -1) iso.reverse = c
  have hle : c ≤ iso.length := by
    rw [← hc, ← List.length_reverse]; exact countBeyond_le _ _
  split
  · rfl
  · rename_i hne
    have hlt : c < iso.length := by omega
    have h1 : ∃ b, pyGet? iso (-(c : Int) - 1) = some b := by
      unfold pyGet?
      have n1 : ¬ (0 ≤ -(c : Int) - 1) := by omega
      have n2 : -(iso.length : Int) ≤ -(c : Int) - 1 := by omega
      simp only [n1, n2, if_false, if_true]
      have : ((iso.length : Int) + (-(c : Int) - 1)).toNat < iso.length := by omega
      exact ⟨_, List.getElem?_eq_getElem this⟩
    have h2 : ∃ l, iso.getLast? = some l := by
      cases iso with
      | nil => simp at hlt
      | cons a t => exact ⟨(a :: t).getLast (by simp), List.getLast?_eq_some_getLast (by simp)⟩
    obtain ⟨b, hb⟩ := h1
    obtain ⟨l, hl⟩ := h2
    simp [hb, hl]

theorem detectBeforePolyt_absent (p : Params) (iso : List Iv) (evs : List Event) :
    detectBeforePolyt p iso (-1) (-1) evs = some (evs, -1, -1) := by
  simp only [detectBeforePolyt, tailDist_absent, missedTerminalOk]
  generalize hc : countBefore (if (-1 : Int) ≠ -1 then -1 else -1) iso = c
  have hle : c ≤ iso.length := by rw [← hc]; exact countBefore_le _ _
  split
  · rfl
  · rename_i hne
    have hlt : c < iso.length := by omega
    have h1 : ∃ b, iso[c]? = some b := ⟨_, List.getElem?_eq_getElem hlt⟩
    have h2 : ∃ l, iso.head? = some l := by
      cases iso with
      | nil => simp at hlt
      | cons a t => exact ⟨a, rfl⟩
    obtain ⟨b, hb⟩ := h1
    obtain ⟨l, hl⟩ := h2
    simp [hb, hl]

theorem detectBeyondPolya_shift' (k : Int) (p : Params) (iso : List Iv) (ext int : Int) (evs : List Event)
    (hE : SafePos k ext) (hI : SafePos k int) (hP : ext ≠ -1 ∨ int ≠ -1)
    (hEnd : ∀ e, iso.getLast? = some e → e.2 ≠ -1) :
    detectBeyondPolya p (shiftL k iso) (shiftPos k ext) (shiftPos k int) (shiftEvents k evs)
      = (detectBeyondPolya p iso ext int evs).map (outShift k) := by
  have hpos : (if shiftPos k int ≠ -1 then shiftPos k int else shiftPos k ext)
      = (if int ≠ -1 then int else ext) + k := by
    by_cases c : int = -1
    · have hx : ext ≠ -1 := by
        rcases hP with h | h
        · exact h
        · exact absurd c h
      simp [c, shiftPos_neg_one, shiftPos_of_ne k ext hx]
    · have := hI c
      simp [c, shiftPos_of_ne k int c, this]
  simp only [detectBeyondPolya, hpos, ← shiftL_reverse, countBeyond_shift, shiftL_length, pyGet?_shiftL, shiftL_getLast?,
    ← shiftL_drop, intervalsTotalLength_shift]
  generalize countBeyond ((if int ≠ -1 then int else ext)) iso.reverse = c
  split
  · rfl
  · cases hb : pyGet? iso (-(c : Int) - 1) with
    | none => rfl
    | some b =>
      cases hl : iso.getLast? with
      | none => rfl
      | some lastE =>
        simp only [Option.map_some, shiftIv_snd]
        simp only [tailDist_shift k b.2 ext int hE hI]
        split
        · simp only [Option.map_some, outShift, shiftEvents_append,
            shiftEvents_misalign k .terminal_exon_misalignment_right rfl, shiftPos_of_ne k lastE.2 (hEnd lastE hl)]
        · rfl

theorem detectBeforePolyt_shift' (k : Int) (p : Params) (iso : List Iv) (ext int : Int) (evs : List Event)
    (hE : SafePos k ext) (hI : SafePos k int) (hP : ext ≠ -1 ∨ int ≠ -1)
    (hEnd : ∀ e, iso.head? = some e → e.1 ≠ -1) :
    detectBeforePolyt p (shiftL k iso) (shiftPos k ext) (shiftPos k int) (shiftEvents k evs)
      = (detectBeforePolyt p iso ext int evs).map (outShift k) := by
  have hpos : (if shiftPos k int ≠ -1 then shiftPos k int else shiftPos k ext)
      = (if int ≠ -1 then int else ext) + k := by
    by_cases c : int = -1
    · have hx : ext ≠ -1 := by
        rcases hP with h | h
        · exact h
        · exact absurd c h
      simp [c, shiftPos_neg_one, shiftPos_of_ne k ext hx]
    · have := hI c
      simp [c, shiftPos_of_ne k int c, this]
  simp only [detectBeforePolyt, hpos, countBefore_shift, shiftL_length, shiftL_getElem?, shiftL_head?,
    ← shiftL_take, intervalsTotalLength_shift]
  generalize countBefore ((if int ≠ -1 then int else ext)) iso = c
  split
  · rfl
  · cases hb : iso[c]? with
    | none => rfl
    | some b =>
      cases hl : iso.head? with
      | none => rfl
      | some firstE =>
        simp only [Option.map_some, shiftIv_fst]
        simp only [tailDist_shift k b.1 ext int hE hI]
        split
        · simp only [Option.map_some, outShift, shiftEvents_append,
            shiftEvents_misalign k .terminal_exon_misalignment_left rfl, shiftPos_of_ne k firstE.1 (hEnd firstE hl)]
        · rfl

/-- full strength: no presence hypothesis (both absent: nothing is detected at either place) -/
theorem detectBeyondPolya_shift (k : Int) (p : Params) (iso : List Iv) (ext int : Int) (evs : List Event)
    (hE : SafePos k ext) (hI : SafePos k int) (hEnd : ∀ e, iso.getLast? = some e → e.2 ≠ -1) :
    detectBeyondPolya p (shiftL k iso) (shiftPos k ext) (shiftPos k int) (shiftEvents k evs)
      = (detectBeyondPolya p iso ext int evs).map (outShift k) := by
  by_cases hP : ext ≠ -1 ∨ int ≠ -1
  · exact detectBeyondPolya_shift' k p iso ext int evs hE hI hP hEnd
  · have h1 : ext = -1 := by omega
    have h2 : int = -1 := by omega
    subst h1; subst h2
    simp only [shiftPos_neg_one, detectBeyondPolya_absent, Option.map_some, outShift]

theorem detectBeforePolyt_shift (k : Int) (p : Params) (iso : List Iv) (ext int : Int) (evs : List Event)
    (hE : SafePos k ext) (hI : SafePos k int) (hEnd : ∀ e, iso.head? = some e → e.1 ≠ -1) :
    detectBeforePolyt p (shiftL k iso) (shiftPos k ext) (shiftPos k int) (shiftEvents k evs)
      = (detectBeforePolyt p iso ext int evs).map (outShift k) := by
  by_cases hP : ext ≠ -1 ∨ int ≠ -1
  · exact detectBeforePolyt_shift' k p iso ext int evs hE hI hP hEnd
  · have h1 : ext = -1 := by omega
    have h2 : int = -1 := by omega
    subst h1; subst h2
    simp only [shiftPos_neg_one, detectBeforePolyt_absent, Option.map_some, outShift]

/-- the positions returned by `detect_reference_exons_beyond_polya` are its inputs or the isoform end -/
theorem detectBeyondPolya_out (p : Params) (iso : List Iv) (ext int : Int) (evs : List Event) (r : List Event × Int × Int)
    (h : detectBeyondPolya p iso ext int evs = some r) :
    (r.2.1 = ext ∧ r.2.2 = int) ∨ (∃ l, iso.getLast? = some l ∧ r.2.1 = l.2 ∧ r.2.2 = l.2) := by
  unfold detectBeyondPolya at h
  simp only at h
  generalize countBeyond (if int ≠ -1 then int else ext) iso.reverse = c at h
  split at h
  · obtain rfl := Option.some.inj h; exact Or.inl ⟨rfl, rfl⟩
  · split at h
    · rename_i b lastE hb hl
      split at h
      · obtain rfl := Option.some.inj h; exact Or.inr ⟨lastE, hl, rfl, rfl⟩
      · obtain rfl := Option.some.inj h; exact Or.inl ⟨rfl, rfl⟩
    · cases h

theorem detectBeforePolyt_out (p : Params) (iso : List Iv) (ext int : Int) (evs : List Event) (r : List Event × Int × Int)
    (h : detectBeforePolyt p iso ext int evs = some r) :
    (r.2.1 = ext ∧ r.2.2 = int) ∨ (∃ l, iso.head? = some l ∧ r.2.1 = l.1 ∧ r.2.2 = l.1) := by
  unfold detectBeforePolyt at h
  simp only at h
  generalize countBefore (if int ≠ -1 then int else ext) iso = c at h
  split at h
  · obtain rfl := Option.some.inj h; exact Or.inl ⟨rfl, rfl⟩
  · split at h
    · rename_i b firstE hb hl
      split at h
      · obtain rfl := Option.some.inj h; exact Or.inr ⟨firstE, hl, rfl, rfl⟩
      · obtain rfl := Option.some.inj h; exact Or.inl ⟨rfl, rfl⟩
    · cases h

/-! ## `verify_polya` / `verify_polyt` -/

theorem verifyPolya_eq (p : Params) (iso read : List Iv) (pa : PolyA) (evs0 : List Event) :
    verifyPolya p iso read pa evs0 =
      match iso.getLast? with
      | none => none
      | some lastE =>
        match checkIfClose p lastE.2 pa.extA pa.intA
            (eraseLastOf evs0 .major_exon_elongation_right .exon_elongation_right) .correct_polya_site_right with
        | some r => some r
        | none =>
          if countTy evs0 .fake_terminal_exon_right ≥ read.length then none
          else
            match C01.shiftPolya read (countTy evs0 .fake_terminal_exon_right) pa.extA,
                  C01.shiftPolya read (countTy evs0 .fake_terminal_exon_right) pa.intA with
            | some ext1, some int1 =>
              (if countTy evs0 .terminal_exon_misalignment_right > 0 then
                  some (eraseLastOf evs0 .major_exon_elongation_right .exon_elongation_right, lastE.2, lastE.2)
                else detectBeyondPolya p iso ext1 int1
                  (eraseLastOf evs0 .major_exon_elongation_right .exon_elongation_right)).map
                (siteTail p lastE.2 .correct_polya_site_right .alternative_polya_site_right)
            | _, _ => none := by
  unfold verifyPolya
  cases iso.getLast? with
  | none => rfl
  | some lastE =>
    simp only
    cases checkIfClose p lastE.2 pa.extA pa.intA
        (eraseLastOf evs0 .major_exon_elongation_right .exon_elongation_right) .correct_polya_site_right with
    | some r => rfl
    | none =>
      simp only
      split
      · rfl
      · cases C01.shiftPolya read (countTy evs0 .fake_terminal_exon_right) pa.extA <;>
          cases C01.shiftPolya read (countTy evs0 .fake_terminal_exon_right) pa.intA <;> try rfl
        rename_i ext1 int1
        simp only
        cases (if countTy evs0 .terminal_exon_misalignment_right > 0 then
            some (eraseLastOf evs0 .major_exon_elongation_right .exon_elongation_right, lastE.2, lastE.2)
          else detectBeyondPolya p iso ext1 int1
            (eraseLastOf evs0 .major_exon_elongation_right .exon_elongation_right)) with
        | none => rfl
        | some r =>
          obtain ⟨e2, x2, i2⟩ := r
          simp only [Option.map_some, siteTail]
          cases checkIfClose p lastE.2 x2 i2 e2 .correct_polya_site_right <;> simp only
          split <;> simp only [apply_ite (some : List Event → Option (List Event))]

theorem verifyPolyt_eq (p : Params) (iso read : List Iv) (pa : PolyA) (evs0 : List Event) :
    verifyPolyt p iso read pa evs0 =
      match iso.head? with
      | none => none
      | some firstE =>
        match checkIfClose p firstE.1 pa.extT pa.intT
            (eraseLastOf evs0 .major_exon_elongation_left .exon_elongation_left) .correct_polya_site_left with
        | some r => some r
        | none =>
          if countTy evs0 .fake_terminal_exon_left ≥ read.length then none
          else
            match C01.shiftPolyt read (countTy evs0 .fake_terminal_exon_left) pa.extT,
                  C01.shiftPolyt read (countTy evs0 .fake_terminal_exon_left) pa.intT with
            | some ext1, some int1 =>
              (if countTy evs0 .terminal_exon_misalignment_left > 0 then
                  some (eraseLastOf evs0 .major_exon_elongation_left .exon_elongation_left, firstE.1, firstE.1)
                else detectBeforePolyt p iso ext1 int1
                  (eraseLastOf evs0 .major_exon_elongation_left .exon_elongation_left)).map
                (siteTail p firstE.1 .correct_polya_site_left .alternative_polya_site_left)
            | _, _ => none := by
  unfold verifyPolyt
  cases iso.head? with
  | none => rfl
  | some firstE =>
    simp only
    cases checkIfClose p firstE.1 pa.extT pa.intT
        (eraseLastOf evs0 .major_exon_elongation_left .exon_elongation_left) .correct_polya_site_left with
    | some r => rfl
    | none =>
      simp only
      split
      · rfl
      · cases C01.shiftPolyt read (countTy evs0 .fake_terminal_exon_left) pa.extT <;>
          cases C01.shiftPolyt read (countTy evs0 .fake_terminal_exon_left) pa.intT <;> try rfl
        rename_i ext1 int1
        simp only
        cases (if countTy evs0 .terminal_exon_misalignment_left > 0 then
            some (eraseLastOf evs0 .major_exon_elongation_left .exon_elongation_left, firstE.1, firstE.1)
          else detectBeforePolyt p iso ext1 int1
            (eraseLastOf evs0 .major_exon_elongation_left .exon_elongation_left)) with
        | none => rfl
        | some r =>
          obtain ⟨e2, x2, i2⟩ := r
          simp only [Option.map_some, siteTail]
          cases checkIfClose p firstE.1 x2 i2 e2 .correct_polya_site_left <;> simp only
          split <;> simp only [apply_ite (some : List Event → Option (List Event))]


theorem verifyPolya_shift (k : Int) (p : Params) (iso read : List Iv) (pa : PolyA) (evs0 : List Event)
    (hE : SafePos k pa.extA) (hI : SafePos k pa.intA) (hP : pa.extA ≠ -1 ∨ pa.intA ≠ -1)
    (hEnd : ∀ e, iso.getLast? = some e → e.2 ≠ -1 ∧ e.2 + k ≠ -1)
    (hME : MovedSafeA k read pa.extA) (hMI : MovedSafeA k read pa.intA) :
    verifyPolya p (shiftL k iso) (shiftL k read) (shiftPolyA k pa) (shiftEvents k evs0)
      = (verifyPolya p iso read pa evs0).map (shiftEvents k) := by
  rw [verifyPolya_eq, verifyPolya_eq]
  simp only [shiftL_getLast?, shiftPolyA, countTy_shift, eraseLastOf_shift, shiftL_length]
  cases hl : iso.getLast? with
  | none => rfl
  | some lastE =>
    have hend := hEnd lastE hl
    have hsafeEnd : SafePos k lastE.2 := fun _ => hend.2
    simp only [Option.map_some, shiftIv_snd]
    rw [checkIfClose_shift k p lastE.2 pa.extA pa.intA _ _ rfl hE hI]
    cases checkIfClose p lastE.2 pa.extA pa.intA
        (eraseLastOf evs0 .major_exon_elongation_right .exon_elongation_right) .correct_polya_site_right with
    | some r => rfl
    | none =>
      simp only [Option.map_none]
      split
      · rfl
      · rw [c01_shiftPolya_shiftPos k read _ pa.extA hE hME, c01_shiftPolya_shiftPos k read _ pa.intA hI hMI]
        cases hx : C01.shiftPolya read (countTy evs0 .fake_terminal_exon_right) pa.extA with
        | none => rfl
        | some ext1 =>
          cases hi : C01.shiftPolya read (countTy evs0 .fake_terminal_exon_right) pa.intA with
          | none => rfl
          | some int1 =>
            simp only [Option.map_some]
            have ox := movedA_out k read _ pa.extA ext1 hME hx
            have oi := movedA_out k read _ pa.intA int1 hMI hi
            by_cases hm : countTy evs0 .terminal_exon_misalignment_right > 0
            · simp only [hm, if_true, Option.map_some]
              have e := siteTail_shift k p lastE.2 .correct_polya_site_right .alternative_polya_site_right rfl rfl
                (eraseLastOf evs0 .major_exon_elongation_right .exon_elongation_right) lastE.2 lastE.2
                hsafeEnd hsafeEnd (Or.inl hend.1)
              rw [shiftPos_of_ne k lastE.2 hend.1] at e
              rw [e]
            · simp only [hm, if_false]
              have hP' : ext1 ≠ -1 ∨ int1 ≠ -1 := by
                rcases hP with h | h
                · exact Or.inl (fun c => h (ox.2.mp c))
                · exact Or.inr (fun c => h (oi.2.mp c))
              rw [detectBeyondPolya_shift k p iso ext1 int1 _ ox.1 oi.1 (fun e he => (hEnd e he).1)]
              cases hdet : detectBeyondPolya p iso ext1 int1
                  (eraseLastOf evs0 .major_exon_elongation_right .exon_elongation_right) with
              | none => rfl
              | some r =>
                have hout := detectBeyondPolya_out p iso ext1 int1 _ r hdet
                obtain ⟨e2, x2, i2⟩ := r
                simp only at hout
                simp only [Option.map_some, outShift]
                have hs : SafePos k x2 ∧ SafePos k i2 ∧ (x2 ≠ -1 ∨ i2 ≠ -1) := by
                  rcases hout with ⟨h1, h2⟩ | ⟨l, hl', h1, h2⟩
                  · subst h1; subst h2; exact ⟨ox.1, oi.1, hP'⟩
                  · rw [hl] at hl'
                    obtain rfl := Option.some.inj hl'
                    subst h1; subst h2; exact ⟨hsafeEnd, hsafeEnd, Or.inl hend.1⟩
                rw [siteTail_shift k p lastE.2 .correct_polya_site_right .alternative_polya_site_right rfl rfl
                  e2 x2 i2 hs.1 hs.2.1 hs.2.2]

theorem verifyPolyt_shift (k : Int) (p : Params) (iso read : List Iv) (pa : PolyA) (evs0 : List Event)
    (hE : SafePos k pa.extT) (hI : SafePos k pa.intT) (hP : pa.extT ≠ -1 ∨ pa.intT ≠ -1)
    (hEnd : ∀ e, iso.head? = some e → e.1 ≠ -1 ∧ e.1 + k ≠ -1)
    (hME : MovedSafeT k read pa.extT) (hMI : MovedSafeT k read pa.intT) :
    verifyPolyt p (shiftL k iso) (shiftL k read) (shiftPolyA k pa) (shiftEvents k evs0)
      = (verifyPolyt p iso read pa evs0).map (shiftEvents k) := by
  rw [verifyPolyt_eq, verifyPolyt_eq]
  simp only [shiftL_head?, shiftPolyA, countTy_shift, eraseLastOf_shift, shiftL_length]
  cases hl : iso.head? with
  | none => rfl
  | some firstE =>
    have hend := hEnd firstE hl
    have hsafeEnd : SafePos k firstE.1 := fun _ => hend.2
    simp only [Option.map_some, shiftIv_fst]
    rw [checkIfClose_shift k p firstE.1 pa.extT pa.intT _ _ rfl hE hI]
    cases checkIfClose p firstE.1 pa.extT pa.intT
        (eraseLastOf evs0 .major_exon_elongation_left .exon_elongation_left) .correct_polya_site_left with
    | some r => rfl
    | none =>
      simp only [Option.map_none]
      split
      · rfl
      · rw [c01_shiftPolyt_shiftPos k read _ pa.extT hE hME, c01_shiftPolyt_shiftPos k read _ pa.intT hI hMI]
        cases hx : C01.shiftPolyt read (countTy evs0 .fake_terminal_exon_left) pa.extT with
        | none => rfl
        | some ext1 =>
          cases hi : C01.shiftPolyt read (countTy evs0 .fake_terminal_exon_left) pa.intT with
          | none => rfl
          | some int1 =>
            simp only [Option.map_some]
            have ox := movedT_out k read _ pa.extT ext1 hME hx
            have oi := movedT_out k read _ pa.intT int1 hMI hi
            by_cases hm : countTy evs0 .terminal_exon_misalignment_left > 0
            · simp only [hm, if_true, Option.map_some]
              have e := siteTail_shift k p firstE.1 .correct_polya_site_left .alternative_polya_site_left rfl rfl
                (eraseLastOf evs0 .major_exon_elongation_left .exon_elongation_left) firstE.1 firstE.1
                hsafeEnd hsafeEnd (Or.inl hend.1)
              rw [shiftPos_of_ne k firstE.1 hend.1] at e
              rw [e]
            · simp only [hm, if_false]
              have hP' : ext1 ≠ -1 ∨ int1 ≠ -1 := by
                rcases hP with h | h
                · exact Or.inl (fun c => h (ox.2.mp c))
                · exact Or.inr (fun c => h (oi.2.mp c))
              rw [detectBeforePolyt_shift k p iso ext1 int1 _ ox.1 oi.1 (fun e he => (hEnd e he).1)]
              cases hdet : detectBeforePolyt p iso ext1 int1
                  (eraseLastOf evs0 .major_exon_elongation_left .exon_elongation_left) with
              | none => rfl
              | some r =>
                have hout := detectBeforePolyt_out p iso ext1 int1 _ r hdet
                obtain ⟨e2, x2, i2⟩ := r
                simp only at hout
                simp only [Option.map_some, outShift]
                have hs : SafePos k x2 ∧ SafePos k i2 ∧ (x2 ≠ -1 ∨ i2 ≠ -1) := by
                  rcases hout with ⟨h1, h2⟩ | ⟨l, hl', h1, h2⟩
                  · subst h1; subst h2; exact ⟨ox.1, oi.1, hP'⟩
                  · rw [hl] at hl'
                    obtain rfl := Option.some.inj hl'
                    subst h1; subst h2; exact ⟨hsafeEnd, hsafeEnd, Or.inl hend.1⟩
                rw [siteTail_shift k p firstE.1 .correct_polya_site_left .alternative_polya_site_left rfl rfl
                  e2 x2 i2 hs.1 hs.2.1 hs.2.2]


/-! ## `check_internal_polya / polyt`, `verify_read_ends` -/

theorem checkInternal_shift (k pos : Int) (evs : List Event) (incomplete internal : MatchEventSubtype)
    (hty : isPosEvent internal = true) (h : SafePos k pos) :
    checkInternal (shiftPos k pos) (shiftEvents k evs) incomplete internal
      = (shiftEvents k (checkInternal pos evs incomplete internal).1, (checkInternal pos evs incomplete internal).2) := by
  by_cases c : pos = -1
  · subst c; simp [checkInternal, shiftPos_neg_one]
  · have hk := h c
    simp only [checkInternal, shiftPos_of_ne k pos c, c, hk, if_false, find?_ty_shift]
    cases evs.find? (fun e => e.ty = incomplete) with
    | none => rfl
    | some e =>
      simp only [Option.map_some, shiftEvent_isoRegion, shiftEvents_append, shiftEvents_cons, shiftEvents_nil,
        shiftEvent_pos k internal hty, shiftPos_of_ne k pos c]

/-- everything `verify_polya` compares with the sentinel −1 for one isoform and one read -/
structure PolyaSafe (k : Int) (iso read : List Iv) (ext int : Int) : Prop where
  safeExt : SafePos k ext
  safeInt : SafePos k int
  isoEnd : ∀ e, iso.getLast? = some e → e.2 ≠ -1 ∧ e.2 + k ≠ -1
  movedExt : MovedSafeA k read ext
  movedInt : MovedSafeA k read int

structure PolytSafe (k : Int) (iso read : List Iv) (ext int : Int) : Prop where
  safeExt : SafePos k ext
  safeInt : SafePos k int
  isoStart : ∀ e, iso.head? = some e → e.1 ≠ -1 ∧ e.1 + k ≠ -1
  movedExt : MovedSafeT k read ext
  movedInt : MovedSafeT k read int

/-- the sentinel hypotheses of `verify_read_ends` for one isoform: those of the strand's verifier -/
def EndsSafe (k : Int) (rp : ReadProf) (I : IsoInfo) : Prop :=
  match I.strand with
  | .plus => PolyaSafe k I.exons rp.blocks rp.polya.extA rp.polya.intA
  | .minus => PolytSafe k I.exons rp.blocks rp.polya.extT rp.polya.intT
  | .other => True

theorem shiftEvents_none_default (k : Int) (e : List Event) :
    (if (shiftEvents k e).isEmpty then [({ ty := MatchEventSubtype.none } : Event)] else shiftEvents k e)
      = shiftEvents k (if e.isEmpty then [({ ty := MatchEventSubtype.none } : Event)] else e) := by
  cases e <;> rfl

theorem map_none_default_shift (k : Int) (r : Option (List Event)) :
    (r.map (shiftEvents k)).map (fun e => if e.isEmpty then [({ ty := MatchEventSubtype.none } : Event)] else e)
      = (r.map (fun e => if e.isEmpty then [({ ty := MatchEventSubtype.none } : Event)] else e)).map (shiftEvents k) := by
  cases r with
  | none => rfl
  | some e => simp only [Option.map_some, shiftEvents_none_default]

theorem verifyReadEnds_shift (k : Int) (p : Params) (rp : ReadProf) (I : IsoInfo) (evs : List Event)
    (h : EndsSafe k rp I) :
    verifyReadEnds p (shiftReadProf k rp) (shiftIsoInfo k I) (shiftEvents k evs)
      = (verifyReadEnds p rp I evs).map (shiftEvents k) := by
  unfold EndsSafe at h
  unfold verifyReadEnds
  have hs : (shiftIsoInfo k I).strand = I.strand := rfl
  rw [hs]
  cases hst : I.strand with
  | other =>
    simp only [Option.map_some, shiftEvents_none_default]
  | plus =>
    rw [hst] at h
    simp only at h
    simp only [shiftReadProf, shiftPolyA, shiftIsoInfo,
      checkInternal_shift k rp.polya.intA evs .incomplete_intron_retention_right .internal_polya_right rfl h.safeInt,
      shiftPos_eq_neg_one_iff k _ h.safeExt, shiftPos_eq_neg_one_iff k _ h.safeInt, ne_eq]
    rw [← map_none_default_shift]
    congr 1
    split
    · rename_i hc
      have hP : rp.polya.extA ≠ -1 ∨ rp.polya.intA ≠ -1 := by
        simp only [Bool.and_eq_true, Bool.or_eq_true, decide_eq_true_eq] at hc
        exact hc.2
      exact verifyPolya_shift k p I.exons rp.blocks rp.polya
        (checkInternal rp.polya.intA evs .incomplete_intron_retention_right .internal_polya_right).1
        h.safeExt h.safeInt hP h.isoEnd h.movedExt h.movedInt
    · rfl
  | minus =>
    rw [hst] at h
    simp only at h
    simp only [shiftReadProf, shiftPolyA, shiftIsoInfo,
      checkInternal_shift k rp.polya.intT evs .incomplete_intron_retention_left .internal_polya_left rfl h.safeInt,
      shiftPos_eq_neg_one_iff k _ h.safeExt, shiftPos_eq_neg_one_iff k _ h.safeInt, ne_eq]
    rw [← map_none_default_shift]
    congr 1
    split
    · rename_i hc
      have hP : rp.polya.extT ≠ -1 ∨ rp.polya.intT ≠ -1 := by
        simp only [Bool.and_eq_true, Bool.or_eq_true, decide_eq_true_eq] at hc
        exact hc.2
      exact verifyPolyt_shift k p I.exons rp.blocks rp.polya
        (checkInternal rp.polya.intT evs .incomplete_intron_retention_left .internal_polya_left).1
        h.safeExt h.safeInt hP h.isoStart h.movedExt h.movedInt
    · rfl

end IsoVerif.Lemmas.C11.AssignShift
