/-
C10 (experiment names) — lemmas about the renaming of duplicate / missing experiment names by the description
parsers (`Model/Samples.lean`: `yamlStepR`, `listStepR` with the repaired test `recheck = true`).
-/
import IsoVerif.Model.Samples
import IsoVerif.Lemmas.Samples
import Std.Data.String.ToNat

namespace IsoVerif.Lemmas.C10
open IsoVerif.Model.C10

/-- invariant of both parser loops under the repaired test: the names registered so far are pairwise different
    and they are the names of the experiments accepted so far, in order -/
structure NamesInv (st : ParseSt) : Prop where
  nodup : st.names.Nodup
  acc : st.acc.map (fun t => t.1) = st.names

theorem namesInv_init : NamesInv ParseSt.init := ⟨by simp [ParseSt.init], by simp [ParseSt.init]⟩

/-- the name an entry ends up with is not registered yet, whenever the repaired test lets it pass -/
theorem chosen_name_fresh (names : List String) (nm0 auto : String)
    (h : (names.contains nm0 && renameBlocked true names nm0 auto) = false) :
    (if names.contains nm0 then auto else nm0) ∉ names := by
  simp only [renameBlocked, if_true, Bool.and_eq_false_iff] at h
  by_cases hc : names.contains nm0 = true
  · simp only [hc, if_true]
    rcases h with h | h
    · rw [hc] at h; exact absurd h (by decide)
    · intro hm
      have : names.contains auto = true := by simpa using hm
      rw [this] at h; exact absurd h (by decide)
  · simp only [hc, Bool.false_eq_true, if_false]
    intro hm; exact hc (by simpa using hm)

theorem namesInv_push (st : ParseSt) (nm : String) (x : List (List String) × Option (List String)) (i : Nat) (d : NameDict)
    (hI : NamesInv st) (hf : nm ∉ st.names) :
    NamesInv { names := st.names ++ [nm], index := i, dict := d, acc := st.acc ++ [(nm, x)] } := by
  constructor
  · show (st.names ++ [nm]).Nodup
    rw [List.nodup_append]
    refine ⟨hI.nodup, by simp, ?_⟩
    intro a ha b hb
    simp only [List.mem_singleton] at hb
    subst hb
    exact fun e => hf (e ▸ ha)
  · show List.map _ (st.acc ++ [(nm, x)]) = st.names ++ [nm]
    simp [hI.acc]

/-- the body of `yamlStepR` after the name of the entry (given, or positional when the key is absent) is fixed -/
def yamlBody (rc : Bool) (pfx : String) (st : ParseSt) (e : YamlEntry) (nm0 : String) : Option ParseSt :=
  let auto := pfx ++ toString st.index
  if st.names.contains nm0 && renameBlocked rc st.names nm0 auto then none
  else
    let nm := if st.names.contains nm0 then auto else nm0
    match e.files with
    | none => none
    | some fs =>
      match labelled fs e.labels with
      | none => none
      | some pairs =>
        match addFiles (dictGet st.dict nm) pairs with
        | none => none
        | some d' =>
          if fs.isEmpty then some { st with index := st.index + 1, dict := dictSet st.dict nm d' }
          else some { names := st.names ++ [nm], index := st.index + 1, dict := dictSet st.dict nm d',
                      acc := st.acc ++ [(nm, fs.map (fun f => [f.path]), e.illumina)] }

/-- the name the parser starts from: the `name` key, or `<prefix><position>` when the key is absent -/
def startName (pfx : String) (st : ParseSt) (e : YamlEntry) : String :=
  match e.name with
  | some n => n
  | none => pfx ++ toString st.index

theorem yamlStepR_eq (rc : Bool) (pfx : String) (st : ParseSt) (e : YamlEntry) :
    yamlStepR rc pfx st e = yamlBody rc pfx st e (startName pfx st e) := by
  unfold yamlStepR yamlBody startName
  cases e.name <;> rfl

theorem yamlBody_names (pfx : String) (st st' : ParseSt) (e : YamlEntry) (nm0 : String)
    (h : yamlBody true pfx st e nm0 = some st') (hI : NamesInv st) : NamesInv st' := by
  unfold yamlBody at h
  dsimp only at h
  by_cases hc : (st.names.contains nm0 && renameBlocked true st.names nm0 (pfx ++ toString st.index)) = true
  · rw [if_pos hc] at h; simp at h
  · rw [if_neg hc] at h
    have hfresh := chosen_name_fresh st.names nm0 (pfx ++ toString st.index) (by simpa using hc)
    generalize (if st.names.contains nm0 = true then pfx ++ toString st.index else nm0) = nm at h hfresh
    cases hf : e.files with
    | none => simp [hf] at h
    | some fs =>
      simp only [hf] at h
      cases hl : labelled fs e.labels with
      | none => simp [hl] at h
      | some pairs =>
        simp only [hl] at h
        cases ha : addFiles (dictGet st.dict nm) pairs with
        | none => simp [ha] at h
        | some d' =>
          simp only [ha] at h
          by_cases hemp : fs.isEmpty = true
          · rw [if_pos hemp] at h
            simp only [Option.some.injEq] at h
            subst h
            exact ⟨hI.nodup, hI.acc⟩
          · rw [if_neg hemp] at h
            simp only [Option.some.injEq] at h
            subst h
            exact namesInv_push st _ _ _ _ hI hfresh

/-- one entry of the YAML description keeps the invariant -/
theorem yamlStepR_names (pfx : String) (st st' : ParseSt) (e : YamlEntry)
    (h : yamlStepR true pfx st e = some st') (hI : NamesInv st) : NamesInv st' := by
  rw [yamlStepR_eq] at h
  exact yamlBody_names pfx st st' e _ h hI

theorem yamlLoopR_names (pfx : String) (entries : List YamlEntry) (st st' : ParseSt)
    (h : yamlLoopR true pfx st entries = some st') (hI : NamesInv st) : NamesInv st' := by
  induction entries generalizing st with
  | nil =>
    simp only [yamlLoopR, Option.some.injEq] at h
    exact h ▸ hI
  | cons e es ih =>
    simp only [yamlLoopR] at h
    cases hs : yamlStepR true pfx st e with
    | none => simp [hs] at h
    | some st1 =>
      simp only [hs] at h
      exact ih st1 h (yamlStepR_names pfx st st1 e hs hI)

theorem finishParse_names (st : ParseSt) (hI : NamesInv st) :
    (finishParse st).map ParsedSample.name = st.names := by
  rw [← hI.acc]
  simp [finishParse, Function.comp_def]

/-! ### YAML, any names: every experiment is parsed from its own entry under the name it ends up with -/

/-- loop invariant for arbitrary given names (repaired test): finished samples, distinct registered names, and no
    labels stored under a name that is not registered (entries without files leave an empty slot at most) -/
structure OwnInv (st : ParseSt) (outs : List ParsedSample) : Prop where
  fin : finishParse st = outs
  names : NamesInv st
  clean : ∀ k, k ∉ st.names → dictGet st.dict k = []

theorem ownInv_init : OwnInv ParseSt.init [] :=
  ⟨rfl, namesInv_init, by intro k _; simp [ParseSt.init, dictGet]⟩

/-- the name an entry ends up with: its own, or `<prefix><position>` when that one is registered already -/
def chosenName (pfx : String) (st : ParseSt) (nm0 : String) : String :=
  if st.names.contains nm0 then pfx ++ toString st.index else nm0

theorem labelled_nil (ls : Option (List String)) (pairs : List (String × String))
    (h : labelled [] ls = some pairs) : pairs = [] := by
  cases ls with
  | none => simp [labelled] at h; exact h
  | some l =>
    simp only [labelled] at h
    split at h
    · simp at h
    · simp at h; exact h

theorem finishParse_other (st : ParseSt) (nm : String) (v : List (String × String)) (hI : NamesInv st)
    (hf : nm ∉ st.names) :
    st.acc.map (fun t => (⟨t.1, t.2.1, dictGet (dictSet st.dict nm v) t.1, t.2.2⟩ : ParsedSample)) = finishParse st := by
  unfold finishParse
  apply List.map_congr_left
  intro t ht
  have hm : t.1 ∈ st.names := by
    rw [← hI.acc]; exact List.mem_map.mpr ⟨t, ht, rfl⟩
  have : t.1 ≠ nm := fun e => hf (e ▸ hm)
  rw [dictGet_set_other' st.dict nm t.1 v this]

theorem yamlBody_own (pfx : String) (st : ParseSt) (outs : List ParsedSample) (e : YamlEntry) (nm0 : String)
    (hI : OwnInv st outs)
    (hc : (st.names.contains nm0 && renameBlocked true st.names nm0 (pfx ++ toString st.index)) = false) :
    match parseOwnYaml e (chosenName pfx st nm0) with
    | none => yamlBody true pfx st e nm0 = none
    | some r => ∃ st', yamlBody true pfx st e nm0 = some st' ∧ OwnInv st' (outs ++ r.toList) ∧ st'.index = st.index + 1 := by
  have hfresh := chosen_name_fresh st.names nm0 (pfx ++ toString st.index) hc
  have hdict : dictGet st.dict (chosenName pfx st nm0) = [] := hI.clean _ hfresh
  unfold chosenName at hdict
  unfold yamlBody parseOwnYaml chosenName
  dsimp only
  rw [hc]
  simp only [Bool.false_eq_true, if_false]
  generalize (if st.names.contains nm0 = true then pfx ++ toString st.index else nm0) = nm at hfresh hdict ⊢
  cases hf : e.files with
  | none => simp
  | some fs =>
    dsimp only
    cases hl : labelled fs e.labels with
    | none => simp
    | some pairs =>
      dsimp only
      rw [hdict]
      cases ha : addFiles [] pairs with
      | none => simp
      | some d =>
        dsimp only
        by_cases hemp : fs.isEmpty = true
        · rw [if_pos hemp, if_pos hemp]
          have hfs : fs = [] := by simpa using hemp
          subst hfs
          have hp := labelled_nil _ _ hl
          subst hp
          have hd : d = [] := by simp [addFiles] at ha; exact ha
          subst hd
          refine ⟨_, rfl, ⟨?_, ⟨hI.names.nodup, hI.names.acc⟩, ?_⟩, rfl⟩
          · simp only [Option.toList, List.append_nil]
            show List.map _ st.acc = outs
            rw [finishParse_other st nm [] hI.names hfresh, hI.fin]
          · intro k hk
            show dictGet (dictSet st.dict nm []) k = []
            by_cases hkn : k = nm
            · subst hkn; exact dictGet_set_same' _ _ _
            · rw [dictGet_set_other' _ _ _ _ hkn]; exact hI.clean k hk
        · rw [if_neg hemp, if_neg hemp]
          refine ⟨_, rfl, ⟨?_, namesInv_push st _ _ _ _ hI.names hfresh, ?_⟩, rfl⟩
          · show List.map _ (st.acc ++ _) = _
            rw [List.map_append, finishParse_other st nm d hI.names hfresh, hI.fin]
            simp [Option.toList, dictGet_set_same']
          · intro k hk
            show dictGet (dictSet st.dict nm d) k = []
            have hk' : k ∉ st.names ∧ k ≠ nm := by
              constructor
              · intro h; exact hk (List.mem_append_left _ h)
              · intro h; exact hk (h ▸ List.mem_append_right _ (List.mem_singleton.mpr rfl))
            rw [dictGet_set_other' _ _ _ _ hk'.2]; exact hI.clean k hk'.1

/-- the whole YAML loop, arbitrary given names: whenever the repaired parser accepts the description there is a name
    per entry – the entry's own `name`, or `<prefix><position>` – such that the result is the concatenation of what
    each entry yields BY ITSELF under that name -/
theorem yamlLoopR_own_any (pfx : String) (entries : List YamlEntry) (st st' : ParseSt) (outs : List ParsedSample)
    (hI : OwnInv st outs) (h : yamlLoopR true pfx st entries = some st') :
    ∃ ns : List String, ns.length = entries.length ∧
      (parseEachOwn (entries.zip ns)).map (fun rs => outs ++ rs) = some (finishParse st') ∧
      NamesInv st' ∧
      ∀ (i : Nat) (hi : i < entries.length) (hn : i < ns.length),
        entries[i].name = some ns[i] ∨ ns[i] = pfx ++ toString (st.index + i) := by
  induction entries generalizing st outs with
  | nil =>
    simp only [yamlLoopR, Option.some.injEq] at h
    subst h
    exact ⟨[], rfl, by simp [parseEachOwn, hI.fin], hI.names, by intro i hi; simp at hi⟩
  | cons e es ih =>
    simp only [yamlLoopR] at h
    cases hs : yamlStepR true pfx st e with
    | none => simp [hs] at h
    | some st1 =>
      simp only [hs] at h
      rw [yamlStepR_eq] at hs
      have hc : (st.names.contains (startName pfx st e) &&
          renameBlocked true st.names (startName pfx st e) (pfx ++ toString st.index)) = false := by
        cases hb : (st.names.contains (startName pfx st e) &&
          renameBlocked true st.names (startName pfx st e) (pfx ++ toString st.index)) with
        | false => rfl
        | true =>
          unfold yamlBody at hs
          dsimp only at hs
          rw [hb] at hs
          simp at hs
      have hstep := yamlBody_own pfx st outs e (startName pfx st e) hI hc
      cases hp : parseOwnYaml e (chosenName pfx st (startName pfx st e)) with
      | none =>
        simp only [hp] at hstep
        rw [hstep] at hs; simp at hs
      | some r =>
        simp only [hp] at hstep
        obtain ⟨st1', hb, hI1, hidx⟩ := hstep
        rw [hb] at hs
        simp only [Option.some.injEq] at hs
        subst hs
        obtain ⟨ns, hlen, hpe, hni, hnm⟩ := ih st1' (outs ++ r.toList) hI1 h
        refine ⟨chosenName pfx st (startName pfx st e) :: ns, by simp [hlen], ?_, hni, ?_⟩
        · simp only [List.zip_cons_cons, parseEachOwn, hp]
          cases hq : parseEachOwn (es.zip ns) with
          | none => simp [hq] at hpe
          | some rs =>
            simp only [hq, Option.map_some, Option.some.injEq] at hpe ⊢
            rw [← hpe, List.append_assoc]
        · intro i hi hn
          cases i with
          | zero =>
            simp only [List.getElem_cons_zero, Nat.add_zero]
            unfold chosenName
            by_cases hcn : st.names.contains (startName pfx st e) = true
            · right; rw [if_pos hcn]
            · simp only [hcn, Bool.false_eq_true, if_false]
              unfold startName
              cases hname : e.name with
              | none => right; rfl
              | some n => left; rfl
          | succ j =>
            simp only [List.getElem_cons_succ]
            have := hnm j (by simpa using hi) (by simpa using hn)
            rw [hidx] at this
            have he : st.index + 1 + j = st.index + (j + 1) := by omega
            rw [he] at this
            exact this

/-! ### list files: the pending experiment -/

/-- invariant of the line loop: the registered names, and the name of the pending experiment is not among them -/
structure ListNamesInv (s : ListSt) : Prop where
  st : NamesInv s.st
  cur : s.curName ∉ s.st.names

theorem flush_namesInv (s : ListSt) (hI : ListNamesInv s) : NamesInv s.flush := by
  unfold ListSt.flush
  split
  · exact hI.st
  · exact namesInv_push s.st s.curName (s.cur, none) _ _ hI.st hI.cur

theorem listStepR_names (pfx : String) (s s' : ListSt) (l : ListLine)
    (h : listStepR true pfx s l = some s') (hI : ListNamesInv s) : ListNamesInv s' := by
  cases l with
  | header nm =>
    simp only [listStepR] at h
    generalize (if nm.isEmpty = true then pfx ++ toString s.flush.index else nm) = nm0 at h
    by_cases hc : (s.flush.names.contains nm0 && renameBlocked true s.flush.names nm0 (pfx ++ toString s.flush.index)) = true
    · rw [if_pos hc] at h; simp at h
    · rw [if_neg hc] at h
      have hfresh := chosen_name_fresh s.flush.names nm0 (pfx ++ toString s.flush.index) (by simpa using hc)
      simp only [Option.some.injEq] at h
      subst h
      have hfl := flush_namesInv s hI
      exact ⟨⟨hfl.nodup, hfl.acc⟩, hfresh⟩
  | files fs label =>
    simp only [listStepR] at h
    cases ha : addFiles (dictGet s.st.dict s.curName) (fs.map (fun f => (f.path, lineLabel fs label))) with
    | none => simp [ha] at h
    | some d' =>
      simp only [ha, Option.some.injEq] at h
      subst h
      exact ⟨⟨hI.st.nodup, hI.st.acc⟩, hI.cur⟩

theorem listLoopR_names (pfx : String) (lines : List ListLine) (s s' : ListSt)
    (h : listLoopR true pfx s lines = some s') (hI : ListNamesInv s) : ListNamesInv s' := by
  induction lines generalizing s with
  | nil =>
    simp only [listLoopR, Option.some.injEq] at h
    exact h ▸ hI
  | cons l ls ih =>
    simp only [listLoopR] at h
    cases hs : listStepR true pfx s l with
    | none => simp [hs] at h
    | some s1 =>
      simp only [hs] at h
      exact ih s1 h (listStepR_names pfx s s1 l hs hI)

/-! ### positional names -/

/-- `<prefix><i>` and `<prefix><j>` are different names for different positions -/
theorem positional_inj (pfx : String) (i j : Nat) (h : pfx ++ toString i = pfx ++ toString j) : i = j := by
  have h1 := congrArg String.toList h
  simp only [String.toList_append, List.append_cancel_left_eq] at h1
  exact Nat.repr_inj.mp (String.toList_inj.mp h1)

end IsoVerif.Lemmas.C10
