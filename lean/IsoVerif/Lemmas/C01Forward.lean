/-
Forward direction of the intron sweep for exact matches (C01): a read intron that IS an annotated intron is marked 1.
Core Lean only.
-/
import IsoVerif.Lemmas.C01Assign

namespace IsoVerif.Lemmas.C01
open IsoVerif.Gen IsoVerif.Model IsoVerif.Lemmas

theorem SD_drop : ∀ (l : List Iv) (n : Nat), SD l → SD (l.drop n) := by
  intro l
  induction l with
  | nil => intro n _; simp; trivial
  | cons a t ih =>
    intro n h
    cases n with
    | zero => simpa using h
    | succ n => simpa using ih n (SD_tail h)

theorem LexSorted_drop : ∀ (l : List Iv) (n : Nat), LexSorted l → LexSorted (l.drop n) := by
  intro l
  induction l with
  | nil => intro n _; simp; trivial
  | cons a t ih =>
    intro n h
    cases n with
    | zero => simpa using h
    | succ n => simpa using ih n (LexSorted_tail h)

theorem WFl_drop (l : List Iv) (n : Nat) (h : WFl l) : WFl (l.drop n) :=
  fun r hr => h r (List.mem_of_mem_drop hr)

/-- a later element of the list is in the tail of the drop -/
theorem mem_drop_of_lt {α} {l : List α} {i j : Nat} {a x : α} {t : List α} (hd : l.drop i = a :: t)
    (hj : l[j]? = some x) (hij : i < j) : x ∈ t := by
  have h2 := (drop_cons_get hd).2
  have : (l.drop (i + 1))[j - (i + 1)]? = some x := by
    rw [List.getElem?_drop]
    have e : i + 1 + (j - (i + 1)) = j := by omega
    rw [e]; exact hj
  rw [h2] at this
  exact List.mem_of_getElem? this

/-- a read mark 1 is never overwritten by the rest of the sweep -/
theorem ovSweep_read_persist (cmp absent : Iv → Iv → Bool) (mapped : Iv) (j : Nat)
    (ks : List Iv) (gi : Nat) (rs : List Iv) (ri : Nat) (st : OvState) (h : st.read[j]? = some 1) :
    (ovSweep cmp absent mapped ks gi rs ri st).read[j]? = some 1 := by
  fun_induction ovSweep cmp absent mapped ks gi rs ri st with
  | case1 => exact h
  | case2 => exact h
  | case3 k ks gi r rs ri st hlt st' ih =>
    apply ih
    show (if (st.read.getD ri 0 == 0 && decide (gi > 0)) = true then
      ({ st with read := st.read.set ri (-1) } : OvState) else st).read[j]? = some 1
    split
    · rename_i hc
      by_cases e : ri = j
      · subst e
        exfalso
        rw [List.getD_eq_getElem?_getD, h] at hc
        simp at hc
      · show (st.read.set ri (-1))[j]? = some 1
        rw [List.getElem?_set_ne e]; exact h
    · exact h
  | case4 k ks gi r rs ri st h1 hlt st' ih =>
    apply ih
    show (if ri > 0 then ({ st with gene := st.gene.set gi (-1) } : OvState) else st).read[j]? = some 1
    split <;> exact h
  | case5 k ks gi r rs ri st h1 h2 hc ih =>
    apply ih
    show (st.read.set ri 1)[j]? = some 1
    by_cases e : ri = j
    · subst e; exact List.getElem?_set_self (getElem?_lt h)
    · rw [List.getElem?_set_ne e]; exact h
  | case6 k ks gi r rs ri st h1 h2 hc hov st' ih =>
    apply ih
    show (if absent mapped k = true then ({ st with gene := st.gene.set gi (-1) } : OvState) else st).read[j]? = some 1
    split <;> exact h
  | case7 => exact h

theorem ovSweep_read_length (cmp absent : Iv → Iv → Bool) (mapped : Iv)
    (ks : List Iv) (gi : Nat) (rs : List Iv) (ri : Nat) (st : OvState) :
    (ovSweep cmp absent mapped ks gi rs ri st).read.length = st.read.length := by
  fun_induction ovSweep cmp absent mapped ks gi rs ri st with
  | case1 => rfl
  | case2 => rfl
  | case3 k ks gi r rs ri st hlt st' ih =>
    rw [ih]; simp only [st']; split <;> simp
  | case4 k ks gi r rs ri st h1 hlt st' ih =>
    rw [ih]; simp only [st']; split <;> simp
  | case5 k ks gi r rs ri st h1 h2 hc ih => rw [ih]; simp
  | case6 k ks gi r rs ri st h1 h2 hc hov st' ih =>
    rw [ih]; simp only [st']; split <;> simp
  | case7 => rfl

/-- the sweep reaches and marks a read feature that is exactly a known feature, as long as neither pointer has
    passed it; `δ`-comparator, features longer than δ -/
theorem ovSweep_marks_exact (absent : Iv → Iv → Bool) (mapped : Iv) (delta : Int) (hδ : 0 ≤ delta)
    (K R : List Iv) (hK : LexSorted K) (hR : SD R) (hRw : WFl R)
    (j t : Nat) (r : Iv) (hj : R[j]? = some r) (ht : K[t]? = some r) (hlong : delta ≤ r.2 - r.1)
    (ks : List Iv) (gi : Nat) (rs : List Iv) (ri : Nat) (st : OvState)
    (hKd : K.drop gi = ks) (hRd : R.drop ri = rs) (hlen : st.read.length = R.length)
    (hri : ri ≤ j) (hgi : gi ≤ t) :
    (ovSweep (fun a b => equal_ranges a b delta) absent mapped ks gi rs ri st).read[j]? = some 1 := by
  have hrw : r.1 ≤ r.2 := hRw r (List.mem_of_getElem? hj)
  fun_induction ovSweep (fun a b => equal_ranges a b delta) absent mapped ks gi rs ri st with
  | case1 gi rs ri st =>
    exfalso
    have : K.length ≤ gi := by
      have := congrArg List.length hKd; simp at this; omega
    have := getElem?_lt ht; omega
  | case2 k ks gi ri st =>
    exfalso
    have : R.length ≤ ri := by
      have := congrArg List.length hRd; simp at this; omega
    have := getElem?_lt hj; omega
  | case3 k ks gi r' rs ri st hlt st' ih =>
    obtain ⟨hr', hRd'⟩ := drop_cons_get hRd
    obtain ⟨hk, _⟩ := drop_cons_get hKd
    have hne : ri ≠ j := by
      intro e; subst e
      have hrr : r = r' := by rw [hj] at hr'; exact Option.some.inj hr'
      subst hrr
      -- k ≤ r lexicographically, so k.1 ≤ r.1 ≤ r.2 < k.1
      by_cases e2 : gi = t
      · subst e2
        have hkr : r = k := by rw [ht] at hk; exact Option.some.inj hk
        subst hkr; omega
      · have hmem : r ∈ ks := mem_drop_of_lt hKd ht (by omega)
        have hl := LexSorted_head_lt (by rw [← hKd]; exact LexSorted_drop K gi hK) r hmem
        unfold lexLt at hl; omega
    apply ih hKd hRd' _ (by omega) hgi
    simp only [st']; split <;> simp [hlen]
  | case4 k ks gi r' rs ri st h1 hlt st' ih =>
    obtain ⟨hr', _⟩ := drop_cons_get hRd
    obtain ⟨hk, hKd'⟩ := drop_cons_get hKd
    have hne : gi ≠ t := by
      intro e; subst e
      have hkr : r = k := by rw [ht] at hk; exact Option.some.inj hk
      subst hkr
      by_cases e2 : ri = j
      · subst e2
        have hrr : r = r' := by rw [hj] at hr'; exact Option.some.inj hr'
        subst hrr; omega
      · have hmem : r ∈ rs := mem_drop_of_lt hRd hj (by omega)
        have hsd := SD_all_right (by rw [← hRd]; exact SD_drop R ri hR) (by rw [← hRd]; exact WFl_drop R ri hRw) r hmem
        have hw' : r'.1 ≤ r'.2 := hRw r' (List.mem_of_getElem? hr')
        omega
    apply ih hKd' hRd _ hri (by omega)
    simp only [st']; split <;> simp [hlen]
  | case5 k ks gi r' rs ri st h1 h2 hc ih =>
    obtain ⟨hr', _⟩ := drop_cons_get hRd
    obtain ⟨hk, hKd'⟩ := drop_cons_get hKd
    by_cases e2 : ri = j
    · subst e2
      apply ovSweep_read_persist
      show (st.read.set ri 1)[ri]? = some 1
      exact List.getElem?_set_self (by rw [hlen]; exact getElem?_lt hj)
    · have hne : gi ≠ t := by
        intro e; subst e
        have hkr : r = k := by rw [ht] at hk; exact Option.some.inj hk
        subst hkr
        have hmem : r ∈ rs := mem_drop_of_lt hRd hj (by omega)
        have hsd := SD_all_right (by rw [← hRd]; exact SD_drop R ri hR) (by rw [← hRd]; exact WFl_drop R ri hRw) r hmem
        have hcc : equal_ranges r' r delta = true := hc
        simp only [equal_ranges, Bool.and_eq_true, decide_eq_true_eq, iabs_le] at hcc
        omega
      apply ih hKd' hRd _ hri (by omega)
      simp [hlen]
  | case6 k ks gi r' rs ri st h1 h2 hc hov st' ih =>
    obtain ⟨hr', _⟩ := drop_cons_get hRd
    obtain ⟨hk, hKd'⟩ := drop_cons_get hKd
    have hne : gi ≠ t := by
      intro e; subst e
      have hkr : r = k := by rw [ht] at hk; exact Option.some.inj hk
      subst hkr
      by_cases e2 : ri = j
      · subst e2
        have hrr : r = r' := by rw [hj] at hr'; exact Option.some.inj hr'
        subst hrr
        apply hc
        show equal_ranges r r delta = true
        simp only [equal_ranges, Bool.and_eq_true, decide_eq_true_eq, iabs_le]; omega
      · have hmem : r ∈ rs := mem_drop_of_lt hRd hj (by omega)
        have hsd := SD_all_right (by rw [← hRd]; exact SD_drop R ri hR) (by rw [← hRd]; exact WFl_drop R ri hRw) r hmem
        simp [overlaps] at hov
        omega
    apply ih hKd' hRd _ hri (by omega)
    simp only [st']; split <;> simp [hlen]
  | case7 k ks gi r' rs ri st h1 h2 hc hov =>
    exfalso
    apply hov
    simp [overlaps]; omega

/-- `construct_profile_for_features` marks with 1 every read feature that is exactly a known feature (known features in
    `sorted(set)` order, read features sorted / disjoint / well-formed and longer than δ) -/
theorem constructOverlapping_exact_marked (K : List Iv) (geneRegion : Iv) (absent : Iv → Iv → Bool) (delta : Int)
    (R : List Iv) (mapped : Iv) (polya polyt : Int) (hδ : 0 ≤ delta)
    (hK : LexSorted K) (hR : SD R) (hRw : WFl R) (j : Nat) (r : Iv) (hj : R[j]? = some r) (hin : r ∈ K)
    (hlong : delta ≤ r.2 - r.1) :
    (constructOverlapping K geneRegion (fun a b => equal_ranges a b delta) absent delta R mapped polya polyt).read[j]?
      = some 1 := by
  obtain ⟨t, ht⟩ := List.mem_iff_getElem?.mp hin
  have := ovSweep_marks_exact absent mapped delta hδ K R hK hR hRw j t r hj ht hlong K 0 R 0
    { gene := K.map (fun k => if absent mapped k then -1 else 0),
      read := R.map (fun r => if absent geneRegion r then -1 else 0), matched := [] }
    (by simp) (by simp) (by simp) (by omega) (by omega)
  simpa [constructOverlapping] using this

/-! ### read introns of a sorted, disjoint, well-formed block list -/

theorem SD_cons_of_all {a : Iv} {l : List Iv} (h1 : ∀ x ∈ l, a.2 < x.1) (h2 : SD l) : SD (a :: l) := by
  cases l with
  | nil => trivial
  | cons b t => exact ⟨h1 b (by simp), h2⟩

theorem junctions_SD_WFl : ∀ (l : List Iv), SD l → WFl l →
    SD (junctionsFromBlocks l) ∧ WFl (junctionsFromBlocks l) := by
  intro l
  induction l with
  | nil => intro _ _; exact ⟨trivial, fun r hr => by simp [junctionsFromBlocks] at hr⟩
  | cons a t ih =>
    cases t with
    | nil => intro _ _; exact ⟨trivial, fun r hr => by simp [junctionsFromBlocks] at hr⟩
    | cons b t' =>
      intro hsd hwf
      obtain ⟨ih1, ih2⟩ := ih (SD_tail hsd) (WFl_tail hwf)
      simp only [junctionsFromBlocks]
      split
      · rename_i hgap
        constructor
        · apply SD_cons_of_all _ ih1
          intro x hx
          obtain ⟨c, hc, hxc⟩ := junction_start _ x hx
          have hbw : b.1 ≤ b.2 := hwf b (by simp)
          show b.1 - 1 < x.1
          rcases List.mem_cons.mp hc with hc | hc
          · subst hc; omega
          · have := SD_all_right (SD_tail hsd) (WFl_tail hwf) c hc
            have hcw : c.1 ≤ c.2 := hwf c (by simp [hc])
            omega
        · intro r hr
          rcases List.mem_cons.mp hr with hr | hr
          · subst hr; show a.2 + 1 ≤ b.1 - 1; omega
          · exact ih2 r hr
      · exact ⟨ih1, ih2⟩

end IsoVerif.Lemmas.C01
