/-
C07, several experiments in one invocation (Model/ResumeMulti.lean): the invariant "every experiment's folder, seen together
with the shared `.params`, satisfies `J`" holds at every prefix of the invocation's event list; a (first or resumed)
invocation from such a state completes with the final files of every experiment complete and correct.
-/
import IsoVerif.Lemmas.ResumeHistory
import IsoVerif.Lemmas.ResumeRefFrame
import IsoVerif.Model.ResumeMulti

namespace IsoVerif.Lemmas.Resume
open IsoVerif.Model.Resume

/-! ### views -/

theorem isRefPath_eq (p : Path) : isRefPath p = isRefAux p := by cases p <;> rfl

theorem view_apply_self (m : MFS) (i : Nat) (e : Ev) : (m.apply i e).view i = apply (m.view i) e := by
  funext p
  simp only [MFS.apply, MFS.view, apply, FS.set]
  by_cases he : e.path = .params
  · simp only [he, if_true]
    by_cases hp : p = .params <;> simp [hp]
  · simp only [he, if_false]
    by_cases hr : isRefPath e.path = true
    · simp only [hr, if_true]
      by_cases hp : p = .params
      · subst hp; simp [Ne.symm he]
      · simp only [hp, if_false, apply, FS.set]
        by_cases hpe : p = e.path
        · subst hpe; simp [hr]
        · simp [hpe]
    · simp only [hr, if_false]
      by_cases hp : p = .params
      · subst hp; simp [Ne.symm he]
      · simp only [hp, if_false]
        by_cases hpe : p = e.path
        · subst hpe; simp [hr, apply, FS.set]
        · simp [hpe, apply, FS.set]

/-- an event on a file of the reference stage is seen by every experiment -/
theorem view_apply_ref (m : MFS) (i j : Nat) (e : Ev) (hr : isRefPath e.path = true) :
    (m.apply i e).view j = apply (m.view j) e := by
  have he : e.path ≠ .params := by intro h; rw [h] at hr; simp [isRefPath] at hr
  funext p
  simp only [MFS.apply, MFS.view, apply, FS.set, he, hr, if_false, if_true]
  by_cases hp : p = .params
  · subst hp; simp [Ne.symm he]
  · simp only [hp, if_false]
    by_cases hpe : p = e.path
    · subst hpe; simp [hr]
    · simp [hpe]

/-- an event of experiment `i` that is not on a file of the reference stage and leaves `.params` complete does not change
    what another experiment sees -/
theorem view_apply_other (m : MFS) {i j : Nat} (e : Ev) (hne : j ≠ i) (hr : isRefPath e.path = false)
    (h0 : m.params = some .good) (h1 : (m.apply i e).params = some .good) : (m.apply i e).view j = m.view j := by
  funext p
  by_cases hp : p = .params
  · subst hp; simp only [MFS.view, if_true, h0, h1]
  · simp only [MFS.view, hp, if_false]
    by_cases he : e.path = .params
    · simp [MFS.apply, he]
    · simp only [MFS.apply, he, hr, if_false, Bool.false_eq_true]
      split
      · rfl
      · simp [hne]

/-- an event changes no view at another path -/
theorem view_apply_priv (m : MFS) (i j : Nat) (e : Ev) {p : Path} (hp : p ≠ e.path) : (m.apply i e).view j p = m.view j p := by
  by_cases he : e.path = .params
  · have : p ≠ .params := by rw [← he]; exact hp
    simp [MFS.apply, MFS.view, he, this]
  · by_cases hr : isRefPath e.path = true
    · simp only [MFS.apply, MFS.view, he, hr, if_false, if_true]
      split
      · rfl
      · split
        · simp [apply, FS.set, hp]
        · rfl
    · simp only [MFS.apply, MFS.view, he, hr, if_false]
      split
      · rfl
      · split
        · rfl
        · by_cases hj : j = i
          · subst hj; simp [apply, FS.set, hp]
          · simp [hj]

/-- the shared files look the same from every experiment -/
theorem view_shared (m : MFS) (i j : Nat) {p : Path} (hp : p = .params ∨ isRefPath p = true) : m.view i p = m.view j p := by
  rcases hp with rfl | hp
  · simp [MFS.view]
  · by_cases h : p = .params
    · subst h; simp [MFS.view]
    · simp [MFS.view, h, hp]

theorem view_params (m : MFS) (i : Nat) : (m.view i).good .params = (m.params == some .good) := by
  simp [MFS.view, FS.good]

/-! ### the invariant over all experiments -/

/-- every experiment's folder (with the shared `.params`) satisfies the lock invariant -/
def MInv (all : List Exp) (m : MFS) : Prop := ∀ x ∈ all, J x.2.1 (m.view x.1)

/-- the indices of the experiments are pairwise distinct -/
def IdxNodup (all : List Exp) : Prop := (all.map (fun x => x.1)).Nodup

def MAllP (P : MFS → Prop) : MFS → List MEv → Prop
  | m, [] => P m
  | m, (i, e) :: es => P m ∧ MAllP P (m.apply i e) es

theorem MAllP_head {P : MFS → Prop} {m : MFS} {es : List MEv} (h : MAllP P m es) : P m := by
  cases es with
  | nil => exact h
  | cons x es => exact h.1

theorem MAllP_last {P : MFS → Prop} {m : MFS} {es : List MEv} (h : MAllP P m es) : P (mApplyAll m es) := by
  induction es generalizing m with
  | nil => exact h
  | cons x es ih => obtain ⟨i, e⟩ := x; exact ih h.2

theorem MAllP_append {P : MFS → Prop} {m : MFS} {a b : List MEv} :
    MAllP P m (a ++ b) ↔ MAllP P m a ∧ MAllP P (mApplyAll m a) b := by
  induction a generalizing m with
  | nil => simp only [List.nil_append, mApplyAll, MAllP]; exact ⟨fun h => ⟨MAllP_head h, h⟩, fun h => h.2⟩
  | cons x a ih =>
    obtain ⟨i, e⟩ := x
    simp only [List.cons_append, MAllP, mApplyAll, ih]
    exact ⟨fun ⟨h1, h2, h3⟩ => ⟨⟨h1, h2⟩, h3⟩, fun ⟨⟨h1, h2⟩, h3⟩ => ⟨h1, h2, h3⟩⟩

theorem MAllP_take {P : MFS → Prop} {m : MFS} {es : List MEv} (h : MAllP P m es) (k : Nat) :
    P (mApplyAll m (es.take k)) := by
  induction es generalizing m k with
  | nil => simp only [List.take_nil, mApplyAll]; exact h
  | cons x es ih =>
    obtain ⟨i, e⟩ := x
    cases k with
    | zero => simpa [mApplyAll] using h.1
    | succ k => simpa [mApplyAll] using ih h.2 k

theorem mApplyAll_append (m : MFS) (a b : List MEv) : mApplyAll m (a ++ b) = mApplyAll (mApplyAll m a) b := by
  induction a generalizing m with
  | nil => rfl
  | cons x a ih => obtain ⟨i, e⟩ := x; simp [mApplyAll, ih]

theorem J_params {cfg : Cfg} {m : MFS} {i : Nat} (h : J cfg (m.view i)) : m.params = some .good := by
  have := h.1
  rw [view_params] at this
  simpa using this

/-- the events of one experiment, performed in its own folder: when they keep `J` of that experiment at every prefix,
    they keep the invariant of all experiments at every prefix, and the other experiments see nothing of them -/
theorem mall_exp {all : List Exp} {i : Nat} {cfg : Cfg} (hmem : ∀ x ∈ all, x.1 = i → x.2.1 = cfg)
    (es : List Ev) (hnr : ∀ e ∈ es, isRefPath e.path = false) {m : MFS} (hinv : MInv all m)
    (hJ : AllP (J cfg) (m.view i) es) :
    MAllP (MInv all) m (es.map (fun e => (i, e))) ∧
      (mApplyAll m (es.map (fun e => (i, e)))).view i = applyAll (m.view i) es ∧
      ∀ j, j ≠ i → (mApplyAll m (es.map (fun e => (i, e)))).view j = m.view j := by
  induction es generalizing m with
  | nil => exact ⟨hinv, rfl, fun _ _ => rfl⟩
  | cons e es ih =>
    have hJ' : AllP (J cfg) ((m.apply i e).view i) es := by rw [view_apply_self]; exact hJ.2
    have hp0 : m.params = some .good := J_params (AllP_head hJ)
    have hp1 : (m.apply i e).params = some .good := J_params (AllP_head hJ')
    have hre : isRefPath e.path = false := hnr e (by simp)
    have hinv' : MInv all (m.apply i e) := by
      intro x hx
      by_cases hxi : x.1 = i
      · rw [hxi, hmem x hx hxi]; exact AllP_head hJ'
      · rw [view_apply_other m e hxi hre hp0 hp1]; exact hinv x hx
    obtain ⟨a, b, c⟩ := ih (fun e' he' => hnr e' (by simp [he'])) hinv' hJ'
    refine ⟨⟨hinv, a⟩, ?_, ?_⟩
    · simp only [List.map_cons, mApplyAll, applyAll]; rw [b, view_apply_self]
    · intro j hj
      simp only [List.map_cons, mApplyAll]
      rw [c j hj, view_apply_other m e hj hre hp0 hp1]

/-- events on files of the reference stage (the reference stage of the invocation): every experiment sees all of them;
    when they keep `J` of every experiment at every prefix, they keep the invariant of all experiments at every prefix -/
theorem mall_ref {all : List Exp} (es : List Ev) (hr : ∀ e ∈ es, isRefPath e.path = true) {m : MFS}
    (hJ : ∀ x ∈ all, AllP (J x.2.1) (m.view x.1) es) :
    MAllP (MInv all) m (es.map (fun e => (0, e))) ∧
      ∀ j, (mApplyAll m (es.map (fun e => (0, e)))).view j = applyAll (m.view j) es := by
  induction es generalizing m with
  | nil => exact ⟨fun x hx => hJ x hx, fun _ => rfl⟩
  | cons e es ih =>
    have hre := hr e (by simp)
    obtain ⟨a, b⟩ := ih (m := m.apply 0 e) (fun e' he' => hr e' (by simp [he']))
      (fun x hx => by rw [view_apply_ref m 0 x.1 e hre]; exact (hJ x hx).2)
    refine ⟨⟨fun x hx => AllP_head (hJ x hx), a⟩, fun j => ?_⟩
    simp only [List.map_cons, mApplyAll, applyAll]
    rw [b j, view_apply_ref m 0 j e hre]

/-! ### the reference stage of the invocation -/

/-- what the reference stage does depends on the two reference flags of the configuration and on the index file only -/
theorem refEvents_congr {cfg cfg' : Cfg} {fs fs' : FS} (h1 : cfg.gzRef = cfg'.gzRef) (h2 : cfg.idx = cfg'.idx)
    (h3 : fs .refFai = fs' .refFai) : refEvents cfg fs = refEvents cfg' fs' := by
  simp only [refEvents, copyEvents, indexEvents, idxTrusted, FS.has, h1, h2, h3]
  rfl

/-- the experiments read one reference: the same two reference flags in every configuration -/
def SameRef (all : List Exp) : Prop := ∀ x ∈ all, ∀ y ∈ all, x.2.1.gzRef = y.2.1.gzRef ∧ x.2.1.idx = y.2.1.idx

/-- the reference stage of the invocation (repaired code), from a state satisfying the invariant of every experiment:
    it completes, the invariant of **all** experiments holds at every prefix of its events, and afterwards every
    experiment reads the right reference (`refOK`) -/
theorem runRef_good {all : List Exp} (rs : Bool) (hsr : SameRef all) {m : MFS} (hinv : MInv all m) :
    (runRef fixed rs all m).ok = true ∧
      MAllP (MInv all) m ((runRef fixed rs all m).evs.map (fun e => (0, e))) ∧
      ∀ x ∈ all, refOK x.2.1 ((mApplyAll m ((runRef fixed rs all m).evs.map (fun e => (0, e)))).view x.1) = true := by
  cases all with
  | nil => exact ⟨rfl, hinv, fun x hx => by simp at hx⟩
  | cons x l =>
    obtain ⟨gx, ex, _, _⟩ := ref_stage rs (hinv x (by simp))
    have hev : (runRef fixed rs (x :: l) m).evs = refEvents x.2.1 (m.view x.1) := ex
    have hsame : ∀ y ∈ x :: l, refEvents y.2.1 (m.view y.1) = refEvents x.2.1 (m.view x.1) := fun y hy =>
      refEvents_congr (hsr y hy x (by simp)).1 (hsr y hy x (by simp)).2 (view_shared m y.1 x.1 (Or.inr rfl))
    have hpaths : ∀ e ∈ refEvents x.2.1 (m.view x.1), isRefPath e.path = true := by
      intro e he
      rw [isRefPath_eq]
      rw [← ex] at he
      exact refStage_paths fixed x.2.1 rs (m.view x.1) e (runActs_evs_sub _ _ e he)
    obtain ⟨a, b⟩ := mall_ref (all := x :: l) (refEvents x.2.1 (m.view x.1)) hpaths (m := m) (fun y hy => by
      obtain ⟨gy, ey, _, _⟩ := ref_stage rs (hinv y hy)
      rw [← hsame y hy, ← ey]; exact gy.2)
    rw [hev]
    refine ⟨gx.1, a, fun y hy => ?_⟩
    obtain ⟨_, ey, _, ry⟩ := ref_stage rs (hinv y hy)
    rw [b y.1, ← hsame y hy, ← ey, ← runActs_fs]; exact ry

/-! ### the experiments one after the other -/

/-- the experiments (all of them well formed, BAM input) from a state satisfying the invariant: the invocation
    completes, the invariant holds at every prefix, and the final files of every experiment processed end up good -/
theorem runExps_good {all : List Exp} (rs : Bool) (exps : List Exp)
    (hsub : ∀ x ∈ exps, x ∈ all) (hnd : (exps.map (fun x => x.1)).Nodup)
    (hwf : ∀ x ∈ all, WF x.2.1 ∧ x.2.1.fromSaves = false ∧ x.2.2.Nodup)
    (hcfg : ∀ x ∈ all, ∀ y ∈ all, x.1 = y.1 → x.2.1 = y.2.1)
    {m : MFS} (hinv : MInv all m) (href : ∀ x ∈ all, refOK x.2.1 (m.view x.1) = true) :
    (runExps fixed rs exps m).ok = true ∧ MAllP (MInv all) m (runExps fixed rs exps m).evs ∧
      (runExps fixed rs exps m).fs = mApplyAll m (runExps fixed rs exps m).evs ∧
      (∀ x ∈ exps, FinOK x.2.1 ((runExps fixed rs exps m).fs.view x.1)) ∧
      (∀ j, (∀ x ∈ exps, x.1 ≠ j) → (runExps fixed rs exps m).fs.view j = m.view j) := by
  induction exps generalizing m with
  | nil => exact ⟨rfl, hinv, rfl, fun x hx => by simp at hx, fun _ _ => rfl⟩
  | cons x exps ih =>
    obtain ⟨i, cfg, ord⟩ := x
    have hx := hsub (i, cfg, ord) (by simp)
    obtain ⟨wf, hm, hord⟩ := hwf _ hx
    simp only at wf hm hord
    have hJ : J cfg (m.view i) := hinv _ hx
    have hnd' := List.nodup_cons.mp hnd
    -- the experiment in its own folder
    have hst : (stages fixed cfg ord rs (rs && (m.view i).has .lock)).drop 2 =
        restStages cfg ord rs ((rs && (m.view i).has .lock) || cfg.fromSaves) := by rw [stages_eq]; rfl
    obtain ⟨hg, hfin⟩ := rest_run wf ord hord rs (rs && (m.view i).has .lock) hJ
      (by intro e; simp only [Bool.and_eq_true] at e; exact e.1)
      (by intro e; simp only [Bool.and_eq_true] at e; exact e.2)
      (by intro e _ e'; subst e'; simpa using e)
      (by intro e; rw [hm] at e; exact absurd e (by simp))
      (by intro e; rw [hm] at e; exact absurd e (by simp))
      (href _ hx)
    have hnr := restStages_noref cfg ord rs ((rs && (m.view i).has .lock) || cfg.fromSaves) (m.view i)
    rw [← hst] at hg hfin hnr
    generalize hr : runStages ((stages fixed cfg ord rs (rs && (m.view i).has .lock)).drop 2) (m.view i) = r at hg hfin hnr
    obtain ⟨a, b, c⟩ := mall_exp (cfg := cfg) (fun y hy e => hcfg y hy _ hx e) r.evs
      (fun e he => by rw [isRefPath_eq]; exact hnr e he) hinv hg.2
    have hfs : r.fs = applyAll (m.view i) r.evs := by rw [← hr]; exact runStages_fs _ _
    have hinv' : MInv all (mApplyAll m (r.evs.map (fun e => (i, e)))) := MAllP_last a
    have href' : ∀ y ∈ all, refOK y.2.1 ((mApplyAll m (r.evs.map (fun e => (i, e)))).view y.1) = true := by
      intro y hy
      have hfr : ∀ p, isRefAux p = true → (mApplyAll m (r.evs.map (fun e => (i, e)))).view y.1 p = m.view y.1 p := by
        intro p hp
        have hp' : isRefPath p = true := by rw [isRefPath_eq]; exact hp
        rw [view_shared _ y.1 i (Or.inr hp'), b, view_shared m y.1 i (Or.inr hp')]
        exact applyAll_outside isRefAux _ _ hnr p hp
      rw [refOK_frame (hfr _ rfl) (hfr _ rfl)]; exact href y hy
    obtain ⟨ok2, all2, fs2, fin2, fr2⟩ := ih (fun y hy => hsub y (by simp [hy])) hnd'.2 hinv' href'
    simp only [runExps, hr, hg.1, if_true]
    refine ⟨ok2, ?_, ?_, ?_, ?_⟩
    · rw [MAllP_append]; exact ⟨a, all2⟩
    · rw [mApplyAll_append]; exact fs2
    · intro y hy
      simp only [List.mem_cons] at hy
      rcases hy with rfl | hy
      · simp only
        rw [fr2 i (fun z hz e => hnd'.1 (by simp only [List.mem_map]; exact ⟨z, hz, e⟩)), b, ← hfs]
        exact hfin
      · exact fin2 y hy
    · intro j hj
      rw [fr2 j (fun z hz => hj z (by simp [hz])), c j (fun e => hj (i, cfg, ord) (by simp) e.symm)]

end IsoVerif.Lemmas.Resume
