/-
C05 (growth c05edge) — helper lemmas for Props/C05Edge.lean (records without reference span, the repaired BED printer).
-/
import IsoVerif.Model.RegionsEdge
import IsoVerif.Lemmas.Regions

namespace IsoVerif.Lemmas.RegionsEdge
open IsoVerif.Gen IsoVerif.Model.Regions IsoVerif.Lemmas.Regions

theorem mem_skipNoSpan (all : List RawAln) (a : Aln) :
    a ∈ skipNoSpan all ↔ ∃ r, r ∈ all ∧ r.toAln? = some a := by
  simp [skipNoSpan, List.mem_filterMap]

theorem toAln_none_iff (r : RawAln) : r.toAln? = none ↔ r.stop = none := by
  unfold RawAln.toAln?; cases r.stop <;> simp

theorem filter_skip_length (all : List RawAln) (p : Aln → Bool) (q : RawAln → Bool)
    (hpq : ∀ r a, r.toAln? = some a → p a = q r) :
    ((skipNoSpan all).filter p).length = (all.filter (fun r => r.stop.isSome && q r)).length := by
  induction all with
  | nil => rfl
  | cons r t ih =>
    simp only [skipNoSpan] at ih ⊢
    cases hs : r.stop with
    | none =>
      have h1 : r.toAln? = none := (toAln_none_iff r).2 hs
      simp [h1, hs, ih]
    | some e =>
      have h1 : r.toAln? = some ⟨r.start, e, r.secondary, r.supplementary, r.mapped, r.mapq, r.rid⟩ := by
        simp [RawAln.toAln?, hs]
      have := hpq r _ h1
      simp only [List.filterMap_cons, h1, List.filter_cons, hs, Option.isSome_some, Bool.true_and, this]
      split <;> simp [ih]

theorem foldl_orig_none (l : List RawAln) : l.foldl processStepOrig none = none := by
  induction l with
  | nil => rfl
  | cons _ _ ih => simpa [List.foldl_cons, processStepOrig] using ih

theorem foldl_orig (l : List RawAln) (st : PState) :
    l.foldl processStepOrig (some st) =
      if l.all (fun r => r.stop.isSome) then some ((skipNoSpan l).foldl processStep st) else none := by
  induction l generalizing st with
  | nil => rfl
  | cons r t ih =>
    rw [List.foldl_cons]
    cases hs : r.stop with
    | none =>
      have h1 : r.toAln? = none := (toAln_none_iff r).2 hs
      simp [processStepOrig, h1, foldl_orig_none, hs]
    | some e =>
      have h1 : r.toAln? = some ⟨r.start, e, r.secondary, r.supplementary, r.mapped, r.mapq, r.rid⟩ := by
        simp [RawAln.toAln?, hs]
      simp only [processStepOrig, h1, ih, List.all_cons, hs, Option.isSome_some, Bool.true_and, skipNoSpan,
        List.filterMap_cons, List.foldl_cons]

theorem bedKeepLoop_spec (recs : List BedRec) : ∀ printed : List (Nat × Nat × List Iv),
    (bedKeepLoop printed recs).Sublist recs ∧
    (∀ x, x ∈ bedKeepLoop printed recs → x.multi = true → x.key ∉ printed) ∧
    (bedKeepLoop printed recs).Pairwise (fun a b => a.multi = true → b.multi = true → a.key ≠ b.key) ∧
    (∀ x, x ∈ recs → x ∈ bedKeepLoop printed recs ∨
      (x.multi = true ∧ (x.key ∈ printed ∨ ∃ y, y ∈ bedKeepLoop printed recs ∧ y.multi = true ∧ y.key = x.key))) := by
  induction recs with
  | nil => intro printed; simp [bedKeepLoop]
  | cons x xs ih =>
    intro printed
    unfold bedKeepLoop
    by_cases hm : x.multi = true
    · by_cases hc : printed.contains x.key = true
      · simp only [hm, hc, if_true]
        obtain ⟨h1, h2, h3, h4⟩ := ih printed
        refine ⟨h1.cons _, h2, h3, ?_⟩
        intro y hy
        rcases List.mem_cons.1 hy with rfl | hy
        · exact Or.inr ⟨hm, Or.inl (by simpa using hc)⟩
        · exact h4 y hy
      · have hc' : printed.contains x.key = false := by simpa using hc
        simp only [hm, hc', if_true, Bool.false_eq_true, if_false]
        obtain ⟨h1, h2, h3, h4⟩ := ih (x.key :: printed)
        have hnot : x.key ∉ printed := by simpa using hc
        refine ⟨h1.cons_cons _, ?_, ?_, ?_⟩
        · intro y hy hym
          rcases List.mem_cons.1 hy with rfl | hy
          · exact hnot
          · exact fun hin => h2 y hy hym (List.mem_cons_of_mem _ hin)
        · rw [List.pairwise_cons]
          refine ⟨?_, h3⟩
          intro y hy _ hym heq
          exact h2 y hy hym (by rw [← heq]; exact List.mem_cons_self)
        · intro y hy
          rcases List.mem_cons.1 hy with rfl | hy
          · exact Or.inl List.mem_cons_self
          · rcases h4 y hy with h | ⟨hym, h | ⟨z, hz, hzm, hzk⟩⟩
            · exact Or.inl (List.mem_cons_of_mem _ h)
            · rcases List.mem_cons.1 h with h | h
              · exact Or.inr ⟨hym, Or.inr ⟨x, List.mem_cons_self, hm, h.symm⟩⟩
              · exact Or.inr ⟨hym, Or.inl h⟩
            · exact Or.inr ⟨hym, Or.inr ⟨z, List.mem_cons_of_mem _ hz, hzm, hzk⟩⟩
    · have hm' : x.multi = false := by simpa using hm
      simp only [hm', Bool.false_eq_true, if_false]
      obtain ⟨h1, h2, h3, h4⟩ := ih printed
      refine ⟨h1.cons_cons _, ?_, ?_, ?_⟩
      · intro y hy hym
        rcases List.mem_cons.1 hy with rfl | hy
        · exact absurd hym hm
        · exact h2 y hy hym
      · rw [List.pairwise_cons]
        exact ⟨fun y _ hxm => absurd hxm hm, h3⟩
      · intro y hy
        rcases List.mem_cons.1 hy with rfl | hy
        · exact Or.inl List.mem_cons_self
        · rcases h4 y hy with h | ⟨hym, h | ⟨z, hz, hzm, hzk⟩⟩
          · exact Or.inl (List.mem_cons_of_mem _ h)
          · exact Or.inr ⟨hym, Or.inl h⟩
          · exact Or.inr ⟨hym, Or.inr ⟨z, List.mem_cons_of_mem _ hz, hzm, hzk⟩⟩

end IsoVerif.Lemmas.RegionsEdge
