/-
polyA verification (`verify_read_ends` and everything below it) never removes an event other than one exon-elongation
event: every comparator event of an isoform reaches `classify_assignment`.  Core Lean only.
-/
import IsoVerif.Lemmas.C01Consistent

namespace IsoVerif.Lemmas.C01
open IsoVerif.Gen IsoVerif.Model IsoVerif.Model.C01 IsoVerif.Lemmas

/-- not one of the four exon-elongation types (the only events `verify_polya` / `verify_polyt` delete) -/
def NotElongation (t : MatchEventSubtype) : Prop :=
  t ≠ .major_exon_elongation_right ∧ t ≠ .exon_elongation_right ∧ t ≠ .major_exon_elongation_left ∧
  t ≠ .exon_elongation_left

theorem mem_eraseLastOf {evs : List Event} {t1 t2 : MatchEventSubtype} {e : Event} (he : e ∈ evs)
    (h1 : e.ty ≠ t1) (h2 : e.ty ≠ t2) : e ∈ eraseLastOf evs t1 t2 := by
  unfold eraseLastOf
  split
  · exact he
  · rename_i i hi
    unfold lastIndexOf at hi
    simp only [Option.map_eq_some_iff] at hi
    obtain ⟨⟨x, i'⟩, hx, rfl⟩ := hi
    have hm := List.mem_of_getLast? hx
    simp only [List.mem_filter, List.mem_zipIdx_iff_getElem?, decide_eq_true_eq] at hm
    obtain ⟨hxi, hty⟩ := hm
    obtain ⟨j, hj⟩ := List.mem_iff_getElem?.mp he
    rw [List.mem_eraseIdx_iff_getElem?]
    refine ⟨j, ?_, hj⟩
    intro e'
    subst e'
    rw [hj] at hxi
    simp only [Option.some.injEq] at hxi
    subst hxi
    rcases hty with h | h
    · exact h1 h
    · exact h2 h

theorem checkIfClose_has {p stop ext int evs r ty} {e : Event} (he : e ∈ evs)
    (h : checkIfClose p stop ext int evs ty = some r) : e ∈ r := by
  unfold checkIfClose at h
  simp only at h
  split at h
  · simp at h; subst h; exact List.mem_append_left _ he
  · split at h
    · simp at h; subst h; exact List.mem_append_left _ he
    · simp at h

theorem detectBeyondPolya_has {p iso ext int evs} {r : List Event × Int × Int} {e : Event} (he : e ∈ evs)
    (h : detectBeyondPolya p iso ext int evs = some r) : e ∈ r.1 := by
  unfold detectBeyondPolya at h
  extract_lets pos c at h
  split at h
  · simp at h; subst h; exact he
  · split at h
    · extract_lets tlen d at h
      split at h
      · simp at h; subst h; exact List.mem_append_left _ he
      · simp at h; subst h; exact he
    · simp at h

theorem detectBeforePolyt_has {p iso ext int evs} {r : List Event × Int × Int} {e : Event} (he : e ∈ evs)
    (h : detectBeforePolyt p iso ext int evs = some r) : e ∈ r.1 := by
  unfold detectBeforePolyt at h
  extract_lets pos c at h
  split at h
  · simp at h; subst h; exact he
  · split at h
    · extract_lets tlen d at h
      split at h
      · simp at h; subst h; exact List.mem_append_left _ he
      · simp at h; subst h; exact he
    · simp at h

theorem verifyPolya_has {p iso read pa evs0 r} {e : Event} (he : e ∈ evs0) (hne : NotElongation e.ty)
    (h : verifyPolya p iso read pa evs0 = some r) : e ∈ r := by
  unfold verifyPolya at h
  split at h
  · simp at h
  · extract_lets isoEnd fake mis evs at h
    have hk : e ∈ evs := mem_eraseLastOf he hne.1 hne.2.1
    split at h
    · rename_i r' hc
      simp at h; subst h
      exact checkIfClose_has hk hc
    · split at h
      · simp at h
      · split at h
        · rename_i ext1 int1 _ _
          simp only at h
          split at h
          · simp at h
          · rename_i evs2 ext2 int2 hstep
            have hk2 : e ∈ evs2 := by
              split at hstep
              · simp at hstep; rw [← hstep.1]; exact hk
              · exact detectBeyondPolya_has hk hstep
            split at h
            · rename_i r' hc
              simp at h; subst h
              exact checkIfClose_has hk2 hc
            · generalize (if int2 = -1 then ext2 else int2) = pos at h
              split at h <;> (simp at h; subst h) <;> exact List.mem_append_left _ hk2
        · simp at h

theorem verifyPolyt_has {p iso read pa evs0 r} {e : Event} (he : e ∈ evs0) (hne : NotElongation e.ty)
    (h : verifyPolyt p iso read pa evs0 = some r) : e ∈ r := by
  unfold verifyPolyt at h
  split at h
  · simp at h
  · extract_lets isoStart fake mis evs at h
    have hk : e ∈ evs := mem_eraseLastOf he hne.2.2.1 hne.2.2.2
    split at h
    · rename_i r' hc
      simp at h; subst h
      exact checkIfClose_has hk hc
    · split at h
      · simp at h
      · split at h
        · rename_i ext1 int1 _ _
          simp only at h
          split at h
          · simp at h
          · rename_i evs2 ext2 int2 hstep
            have hk2 : e ∈ evs2 := by
              split at hstep
              · simp at hstep; rw [← hstep.1]; exact hk
              · exact detectBeforePolyt_has hk hstep
            split at h
            · rename_i r' hc
              simp at h; subst h
              exact checkIfClose_has hk2 hc
            · generalize (if int2 = -1 then ext2 else int2) = pos at h
              split at h <;> (simp at h; subst h) <;> exact List.mem_append_left _ hk2
        · simp at h

theorem checkInternal_has {pos evs a b} {e : Event} (he : e ∈ evs) : e ∈ (checkInternal pos evs a b).1 := by
  unfold checkInternal
  split
  · exact he
  · split
    · exact List.mem_append_left _ he
    · exact he

/-- `verify_read_ends` keeps every event that is not an exon elongation -/
theorem verifyReadEnds_has {p rp I evs r} {e : Event} (he : e ∈ evs) (hne : NotElongation e.ty)
    (h : verifyReadEnds p rp I evs = some r) : e ∈ r := by
  unfold verifyReadEnds at h
  simp only at h
  have key : ∀ (o : Option (List Event)), (∀ x, o = some x → e ∈ x) →
      o.map (fun e => if e.isEmpty then [({ ty := MatchEventSubtype.none } : Event)] else e) = some r → e ∈ r := by
    intro o ho hm
    cases o with
    | none => simp at hm
    | some x =>
      have hx := ho x rfl
      simp at hm
      split at hm
      · rename_i hem
        exfalso
        cases x with
        | nil => cases hx
        | cons _ _ => simp at hem
      · subst hm; exact hx
  apply key _ _ h
  intro x hx
  split at hx
  · have hk : e ∈ (checkInternal rp.polya.intA evs .incomplete_intron_retention_right .internal_polya_right).1 :=
      checkInternal_has he
    split at hx
    · exact verifyPolya_has hk hne hx
    · simp at hx; subst hx; exact hk
  · have hk : e ∈ (checkInternal rp.polya.intT evs .incomplete_intron_retention_left .internal_polya_left).1 :=
      checkInternal_has he
    split at hx
    · exact verifyPolyt_has hk hne hx
    · simp at hx; subst hx; exact hk
  · simp at hx; subst hx; exact he

end IsoVerif.Lemmas.C01
