/-
Helper lemmas for C13: GeneInfo.set_feature_properties (row identity).  Core Lean only.
-/
import IsoVerif.Model.FeatureCounts
import IsoVerif.Lemmas.C13Merge

namespace IsoVerif.Lemmas.C13
open IsoVerif.Model IsoVerif.Model.C13 IsoVerif.Gen

theorem mem_isoformEntries (feats : List Iv) (f : Iv) : (∃ b, (f, b) ∈ isoformEntries feats) ↔ f ∈ feats := by
  unfold isoformEntries
  match feats with
  | [] => simp
  | [g] => simp
  | g :: h :: rest =>
    simp only
    have hne : (h :: rest) ≠ [] := by simp
    have hlast : (h :: rest).getLast? = some ((h :: rest).getLast hne) := List.getLast?_eq_some_getLast hne
    have hsplit : h :: rest = (h :: rest).dropLast ++ [(h :: rest).getLast hne] := (List.dropLast_concat_getLast hne).symm
    rw [hlast]
    constructor
    · rintro ⟨b, hb⟩
      simp only [List.mem_cons, List.cons_append, List.nil_append, Prod.mk.injEq, List.mem_map] at hb
      rcases hb with ⟨e, _⟩ | ⟨e, _⟩ | ⟨x, hx, e, _⟩
      · subst e; simp
      · subst e; exact List.mem_cons_of_mem _ (List.getLast_mem hne)
      · subst e; exact List.mem_cons_of_mem _ (List.dropLast_subset _ hx)
    · intro hf
      rcases List.mem_cons.mp hf with e | e
      · exact ⟨true, by simp [e]⟩
      · rw [hsplit] at e
        rcases List.mem_append.mp e with e | e
        · exact ⟨false, by
            simp only [List.mem_cons, List.cons_append, List.nil_append, Prod.mk.injEq, List.mem_map]
            exact Or.inr (Or.inr ⟨f, e, rfl, trivial⟩)⟩
        · simp at e
          exact ⟨true, by
            simp only [List.mem_cons, List.cons_append, List.nil_append, Prod.mk.injEq]
            exact Or.inr (Or.inl ⟨e, trivial⟩)⟩

/-- the entries of a feature are exactly the (strand, gene) of the isoforms that have the feature -/
theorem mem_featureEntries (isoforms : List IsoformFeatures) (f : Iv) (s g : String) :
    (∃ b, (s, g, b) ∈ featureEntries isoforms f) ↔ ∃ t ∈ isoforms, t.strand = s ∧ t.gene = g ∧ f ∈ t.feats := by
  unfold featureEntries
  constructor
  · rintro ⟨b, hb⟩
    simp only [List.mem_flatMap, List.mem_map, List.mem_filter] at hb
    obtain ⟨t, ht, e, ⟨he, hef⟩, heq⟩ := hb
    have : e.1 = f := by simpa using hef
    simp only [Prod.mk.injEq] at heq
    refine ⟨t, ht, heq.1, heq.2.1, ?_⟩
    apply (mem_isoformEntries t.feats f).mp
    exact ⟨e.2, by rw [← this]; exact he⟩
  · rintro ⟨t, ht, hs, hg, hf⟩
    obtain ⟨b, hb⟩ := (mem_isoformEntries t.feats f).mpr hf
    refine ⟨b, ?_⟩
    simp only [List.mem_flatMap, List.mem_map, List.mem_filter]
    exact ⟨t, ht, (f, b), ⟨hb, by simp⟩, by simp [hs, hg]⟩

theorem setFeatureProperties_length (chr : String) (δ : Int) (features : List Iv) (isoforms : List IsoformFeatures) (n : Nat) :
    (setFeatureProperties chr δ features isoforms n).length = features.length := by
  simp [setFeatureProperties]

theorem setFeatureProperties_get (chr : String) (δ : Int) (features : List Iv) (isoforms : List IsoformFeatures) (n : Nat)
    (i : Nat) (f : Iv) (hf : features[i]? = some f) :
    ∃ fi, (setFeatureProperties chr δ features isoforms n)[i]? = some fi ∧
      fi.id = n + i + 1 ∧ fi.chr = chr ∧ fi.start = f.1 ∧ fi.stop = f.2 ∧
      fi.genes = sortSD strLt ((featureEntries isoforms f).map (fun e => e.2.1)) ∧
      fi.strand = concatStrs (sortSD strLt ((featureEntries isoforms f).map (fun e => e.1))) := by
  unfold setFeatureProperties
  simp only [List.getElem?_map, List.getElem?_zipIdx, hf, Option.map_some, Nat.zero_add]
  exact ⟨_, rfl, rfl, rfl, rfl, rfl, rfl, rfl⟩

/-- distinct features get distinct row keys -/
theorem setFeatureProperties_keys_nodup (chr : String) (δ : Int) (features : List Iv) (isoforms : List IsoformFeatures) (n : Nat)
    (h : features.Nodup) : ((setFeatureProperties chr δ features isoforms n).map coordKey).Nodup := by
  have hmap : ((setFeatureProperties chr δ features isoforms n).map (fun fi => (fi.start, fi.stop))) = features := by
    unfold setFeatureProperties
    rw [List.map_map]
    have : ((fun (fi : FeatureInfo) => (fi.start, fi.stop)) ∘ mkFeatureInfo chr δ features isoforms n) = Prod.fst := by
      funext x; rfl
    rw [this, List.zipIdx_map_fst]
  have hinj : ∀ a b : FeatureInfo, coordKey a = coordKey b → (a.start, a.stop) = (b.start, b.stop) := by
    intro a b e; simp [coordKey] at e; simp [e.2.1, e.2.2]
  rw [← hmap] at h
  rw [List.Nodup, List.pairwise_map] at h ⊢
  exact h.imp (fun hne e => hne (hinj _ _ e))

end IsoVerif.Lemmas.C13
