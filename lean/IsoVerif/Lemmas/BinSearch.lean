import IsoVerif.Lemmas.Interval

namespace IsoVerif.Lemmas
open IsoVerif.Gen IsoVerif.Model

def StrictInc : List Int → Prop
  | [] => True
  | [_] => True
  | a :: b :: t => a < b ∧ StrictInc (b :: t)

/-- remaining geometric displacement after current step value c -/
def rem : Nat → Nat
  | 0 => 0
  | 1 => 0
  | (c + 2) => (c + 2) / 2 + rem ((c + 2) / 2)

theorem rem_le (c : Nat) : rem c ≤ c - 1 := by
  induction c using Nat.strongRecOn with
  | _ c ih =>
    match c with
    | 0 => simp [rem]
    | 1 => simp [rem]
    | c + 2 =>
      have := ih ((c + 2) / 2) (by omega)
      simp only [rem]
      omega

theorem strictInc_mono {lo : List Int} (h : StrictInc lo) :
    ∀ (i j : Nat), i < j → ∀ (a b : Int), lo[i]? = some a → lo[j]? = some b → a < b := by
  induction lo with
  | nil => intro i j _ a b ha; simp at ha
  | cons x xs ih =>
    intro i j hij a b ha hb
    match xs, h, ih with
    | [], _, _ =>
      match j, hij with
      | j + 1, _ => simp at hb
    | y :: ys, h, ih =>
      have hxy : x < y := h.1
      have ih' := ih h.2
      match i, j, hij with
      | 0, j + 1, _ =>
        simp at ha; subst ha
        simp at hb
        match j with
        | 0 => simp at hb; omega
        | j + 1 =>
          have := ih' 0 (j + 1) (by omega) y b (by simp) (by simpa using hb)
          omega
      | i + 1, j + 1, hij =>
        exact ih' i j (by omega) a b (by simpa using ha) (by simpa using hb)

/-- the loop on the list of starts -/
def loopStarts (lo : List Int) (pos : Int) : Nat → Nat → Nat → Option Nat
  | 0, _, _ => none
  | fuel + 1, ind, step =>
    match lo[ind]?, lo[ind + 1]? with
    | some a, some b =>
      if a ≤ pos ∧ pos < b then some ind
      else
        let step' := max 1 (step / 2)
        if pos < a then
          if step' ≤ ind then loopStarts lo pos fuel (ind - step') step' else none
        else loopStarts lo pos fuel (ind + step') step'
    | _, _ => none

theorem binSearchLoop_eq (l : List Iv) (pos : Int) (fuel ind step : Nat) :
    binSearchLoop l pos fuel ind step = loopStarts (l.map (·.1)) pos fuel ind step := by
  induction fuel generalizing ind step with
  | zero => rfl
  | succ fuel ih =>
    unfold binSearchLoop loopStarts
    simp only [List.getElem?_map]
    cases h1 : l[ind]? <;> cases h2 : l[ind + 1]? <;> simp [ih]

theorem loop_correct (lo : List Int) (pos : Int) (hinc : StrictInc lo) (t : Nat)
    (a b : Int) (hta : lo[t]? = some a) (htb : lo[t + 1]? = some b) (hpa : a ≤ pos) (hpb : pos < b) :
    ∀ fuel ind step, 1 ≤ step ∨ ind = t →
      rem step ≤ ind → ind + rem step + 2 ≤ lo.length →
      2 * step + (if ind ≤ t then t - ind else ind - t) < fuel →
      loopStarts lo pos fuel ind step = some t := by
  have hlen : t + 1 < lo.length := by
    have := (List.getElem?_eq_some_iff.mp htb).1; exact this
  intro fuel
  induction fuel with
  | zero => intro ind step _ _ _ h; omega
  | succ fuel ih =>
    intro ind step hstep hlow hhigh hfuel
    have hi1 : ind + 1 < lo.length := by omega
    have hi0 : ind < lo.length := by omega
    obtain ⟨x, hx⟩ : ∃ x, lo[ind]? = some x := ⟨lo[ind], by simp [hi0]⟩
    obtain ⟨y, hy⟩ : ∃ y, lo[ind + 1]? = some y := ⟨lo[ind + 1], by simp [hi1]⟩
    unfold loopStarts
    simp only [hx, hy]
    by_cases hit : x ≤ pos ∧ pos < y
    · simp only [hit, and_self, if_true]
      have : ind = t := by
        rcases Nat.lt_trichotomy ind t with h | h | h
        · have : y ≤ a := by
            rcases Nat.lt_or_ge (ind + 1) t with h' | h'
            · have := strictInc_mono hinc (ind + 1) t h' y a hy hta; omega
            · have : ind + 1 = t := by omega
              subst this; rw [hy] at hta; injection hta with e; omega
          omega
        · exact h
        · have : b ≤ x := by
            rcases Nat.lt_or_ge (t + 1) ind with h' | h'
            · have := strictInc_mono hinc (t + 1) ind h' b x htb hx; omega
            · have : t + 1 = ind := by omega
              subst this; rw [hx] at htb; injection htb with e; omega
          omega
      simp [this]
    · simp only [hit, if_false]
      have hne : ind ≠ t := by
        intro e; subst e
        rw [hx] at hta; rw [hy] at htb
        injection hta with e1; injection htb with e2
        subst e1; subst e2; exact hit ⟨hpa, hpb⟩
      have hs1 : 1 ≤ step := by rcases hstep with h | h; exact h; exact absurd h hne
      by_cases hlt : pos < x
      · have htlt : t < ind := by
          rcases Nat.lt_or_ge t ind with h | h
          · exact h
          · exfalso
            have hlt2 : ind < t := by omega
            have : x < a := strictInc_mono hinc ind t hlt2 x a hx hta
            omega
        simp only [hlt, if_true]
        by_cases hs2 : 2 ≤ step
        · have hmax : max 1 (step / 2) = step / 2 := by omega
          have hrem : rem step = step / 2 + rem (step / 2) := by
            match step, hs2 with
            | s + 2, _ => simp [rem]
          rw [hmax]
          have hle : step / 2 ≤ ind := by omega
          simp only [hle, if_true]
          apply ih
          · left; omega
          · omega
          · omega
          · split <;> split at hfuel <;> omega
        · have hs : step = 1 := by omega
          subst hs
          have hmax : max 1 (1 / 2) = 1 := by decide
          rw [hmax]
          have hle : 1 ≤ ind := by omega
          simp only [hle, if_true]
          apply ih
          · left; omega
          · simp [rem]
          · simp [rem]; omega
          · split <;> split at hfuel <;> omega
      · have htgt : ind < t := by
          rcases Nat.lt_or_ge ind t with h | h
          · exact h
          · exfalso
            have hlt2 : t < ind := by omega
            have hx' : x ≤ pos := by omega
            have hy' : y ≤ pos := by
              have : ¬ pos < y := fun h => hit ⟨hx', h⟩
              omega
            have : b ≤ x := by
              rcases Nat.lt_or_ge (t + 1) ind with h' | h'
              · have := strictInc_mono hinc (t + 1) ind h' b x htb hx; omega
              · have : t + 1 = ind := by omega
                subst this; rw [hx] at htb; injection htb with e; omega
            omega
        simp only [hlt, if_false]
        by_cases hs2 : 2 ≤ step
        · have hmax : max 1 (step / 2) = step / 2 := by omega
          have hrem : rem step = step / 2 + rem (step / 2) := by
            match step, hs2 with
            | s + 2, _ => simp [rem]
          rw [hmax]
          apply ih
          · left; omega
          · omega
          · omega
          · split <;> split at hfuel <;> omega
        · have hs : step = 1 := by omega
          subst hs
          have hmax : max 1 (1 / 2) = 1 := by decide
          rw [hmax]
          apply ih
          · left; omega
          · simp [rem]
          · simp [rem]; omega
          · split <;> split at hfuel <;> omega

end IsoVerif.Lemmas
