/-
Helper lemmas for C16: the cut of a CIGAR at an arbitrary separator predicate (`cutsAuxP`) lists exactly the maximal
separator-free runs, in CIGAR order, each once; `cutsNAux` (Model/TailSpec.lean: cut at `N` only, used by the
specification of `concat_gapless_blocks`) is the instance "separator = `N`".
(Lemmas/Cigar.lean proves the membership part for the `N`/`S` instance `cuts`; the proofs below do not depend on
which operations separate.)
-/
import IsoVerif.Model.TailSpec
import IsoVerif.Lemmas.Cigar

namespace IsoVerif.Lemmas.C16
open IsoVerif.Gen IsoVerif.Model IsoVerif.Model.C16

/-- `cutsAux` / `cutsNAux` with the separator test as a parameter -/
def cutsAuxP (sep : CigarEvent → Bool) (pre seg : List CigarOp) : List CigarOp → List (List CigarOp × List CigarOp)
  | [] => [(pre, seg)]
  | op :: rest =>
    if sep op.1 then (pre, seg) :: cutsAuxP sep (pre ++ seg ++ [op]) [] rest
    else cutsAuxP sep pre (seg ++ [op]) rest

def isN (k : CigarEvent) : Bool := k == CigarEvent.skipped

theorem cutsNAux_eq (pre seg rest : List CigarOp) : cutsNAux pre seg rest = cutsAuxP isN pre seg rest := by
  induction rest generalizing pre seg with
  | nil => rfl
  | cons op rest ih =>
    by_cases h : op.1 = CigarEvent.skipped
    · simp [cutsNAux, cutsAuxP, isN, h, ih]
    · simp [cutsNAux, cutsAuxP, isN, h, ih]

/-- no operation of the run is a separator -/
def FreeOf (sep : CigarEvent → Bool) (seg : List CigarOp) : Prop := ∀ o ∈ seg, sep o.1 = false
/-- `pre` is empty or ends with a separator -/
def EndsWith (sep : CigarEvent → Bool) (pre : List CigarOp) : Prop := ∀ o, pre.getLast? = some o → sep o.1 = true
/-- `post` is empty or starts with a separator -/
def StartsWith (sep : CigarEvent → Bool) (post : List CigarOp) : Prop := ∀ o, post.head? = some o → sep o.1 = true

theorem free_split_unique (sep : CigarEvent → Bool) : ∀ (a c b d : List CigarOp) (x : CigarOp),
    a ++ x :: b = c ++ d → FreeOf sep a → FreeOf sep c → sep x.1 = true → StartsWith sep d → a = c ∧ d = x :: b := by
  intro a
  induction a with
  | nil =>
    intro c b d x h _ hc hx hd
    cases c with
    | nil => simp at h; exact ⟨rfl, h.symm⟩
    | cons y c' =>
      simp at h
      have := hc y (by simp)
      rw [← h.1] at this; rw [hx] at this; cases this
  | cons a0 a' ih =>
    intro c b d x h ha hc hx hd
    cases c with
    | nil =>
      simp at h
      have h1 := hd a0 (by rw [← h]; rfl)
      have h2 := ha a0 (by simp)
      rw [h1] at h2; cases h2
    | cons c0 c' =>
      simp at h
      obtain ⟨h0, h1⟩ := h
      subst h0
      have := ih c' b d x h1 (fun o ho => ha o (by simp [ho])) (fun o ho => hc o (by simp [ho])) hx hd
      exact ⟨by rw [this.1], this.2⟩

theorem FreeOf_snoc {sep : CigarEvent → Bool} {S : List CigarOp} {op : CigarOp} (hS : FreeOf sep S)
    (ho : sep op.1 = false) : FreeOf sep (S ++ [op]) := by
  intro o hm
  rcases List.mem_append.1 hm with h1 | h1
  · exact hS o h1
  · simp at h1; subst h1; exact ho

/-- soundness: every cut is a maximal separator-free run -/
theorem cutsAuxP_sound (sep : CigarEvent → Bool) : ∀ (rest P S : List CigarOp), FreeOf sep S → EndsWith sep P →
    ∀ pre seg, (pre, seg) ∈ cutsAuxP sep P S rest →
      ∃ post, P ++ S ++ rest = pre ++ seg ++ post ∧ FreeOf sep seg ∧ EndsWith sep pre ∧ StartsWith sep post := by
  intro rest
  induction rest with
  | nil =>
    intro P S hS hP pre seg hm
    simp [cutsAuxP] at hm
    obtain ⟨rfl, rfl⟩ := hm
    exact ⟨[], by simp, hS, hP, by intro o ho; cases ho⟩
  | cons op rest ih =>
    intro P S hS hP pre seg hm
    cases ho : sep op.1 with
    | true =>
      simp only [cutsAuxP, ho, if_true, List.mem_cons] at hm
      rcases hm with h | h
      · obtain ⟨rfl, rfl⟩ := Prod.mk.inj h
        exact ⟨op :: rest, rfl, hS, hP, by intro o h'; simp at h'; subst h'; exact ho⟩
      · obtain ⟨post, h1, h2, h3, h4⟩ := ih (P ++ S ++ [op]) [] (by intro o hm; cases hm)
          (by intro o h'; simp at h'; subst h'; exact ho) pre seg h
        exact ⟨post, by rw [← h1]; simp, h2, h3, h4⟩
    | false =>
      simp only [cutsAuxP, ho] at hm
      obtain ⟨post, h1, h2, h3, h4⟩ := ih P (S ++ [op]) (FreeOf_snoc hS ho) hP pre seg hm
      exact ⟨post, by rw [← h1]; simp, h2, h3, h4⟩

/-- completeness: every maximal separator-free run is a cut -/
theorem cutsAuxP_complete (sep : CigarEvent → Bool) : ∀ (rest P S : List CigarOp), FreeOf sep S →
    ∀ pre seg post, P ++ S ++ rest = pre ++ seg ++ post → FreeOf sep seg → EndsWith sep pre → StartsWith sep post →
      (pre.length = P.length ∨ P.length + S.length < pre.length) → (pre, seg) ∈ cutsAuxP sep P S rest := by
  intro rest
  induction rest with
  | nil =>
    intro P S hS pre seg post h hseg hpre hpost hlen
    have hl : (P ++ S).length = (pre ++ seg ++ post).length := by rw [← h]; simp
    simp only [List.length_append] at hl
    rcases hlen with hlen | hlen
    · have h' : P ++ S = pre ++ (seg ++ post) := by simpa using h
      obtain ⟨hP, hSS⟩ := List.append_inj h' hlen.symm
      subst hP
      cases post with
      | nil => simp at hSS; subst hSS; simp [cutsAuxP]
      | cons p ps =>
        have := hpost p rfl
        have h2 := hS p (by rw [hSS]; simp)
        rw [this] at h2; cases h2
    · omega
  | cons op rest ih =>
    intro P S hS pre seg post h hseg hpre hpost hlen
    cases ho : sep op.1 with
    | true =>
      simp only [cutsAuxP, ho, if_true, List.mem_cons]
      rcases hlen with hlen | hlen
      · left
        have h' : P ++ (S ++ op :: rest) = pre ++ (seg ++ post) := by simpa using h
        obtain ⟨hP, hSS⟩ := List.append_inj h' hlen.symm
        subst hP
        obtain ⟨h1, _⟩ := free_split_unique sep S seg rest post op hSS hS hseg ho hpost
        rw [h1]
      · right
        apply ih (P ++ S ++ [op]) [] (by intro o hm; cases hm) pre seg post (by rw [← h]; simp) hseg hpre hpost
        simp only [List.length_append, List.length_cons, List.length_nil]
        omega
    | false =>
      simp only [cutsAuxP, ho]
      apply ih P (S ++ [op]) (FreeOf_snoc hS ho) pre seg post (by rw [← h]; simp) hseg hpre hpost
      rcases hlen with hlen | hlen
      · left; exact hlen
      · by_cases heq : pre.length = P.length + S.length + 1
        · exfalso
          have h' : (P ++ S ++ [op]) ++ rest = pre ++ (seg ++ post) := by rw [← List.append_assoc pre]; rw [← h]; simp
          have hl2 : (P ++ S ++ [op]).length = pre.length := by simp; omega
          obtain ⟨hP, _⟩ := List.append_inj h' hl2
          have := hpre op (by rw [← hP]; simp)
          rw [ho] at this; cases this
        · right; simp only [List.length_append, List.length_cons, List.length_nil]; omega

/-- one cut per separator, plus one -/
theorem cutsAuxP_length (sep : CigarEvent → Bool) : ∀ (rest P S : List CigarOp),
    (cutsAuxP sep P S rest).length = rest.countP (fun o => sep o.1) + 1 := by
  intro rest
  induction rest with
  | nil => intro P S; rfl
  | cons op rest ih =>
    intro P S
    cases ho : sep op.1 with
    | true => simp [cutsAuxP, ho, ih]
    | false => simp [cutsAuxP, ho, ih]

/-- every cut starts at or after the current one -/
theorem cutsAuxP_pre_length (sep : CigarEvent → Bool) : ∀ (rest P S : List CigarOp),
    ∀ c ∈ cutsAuxP sep P S rest, P.length ≤ c.1.length := by
  intro rest
  induction rest with
  | nil => intro P S c hc; simp [cutsAuxP] at hc; subst hc; exact Nat.le_refl _
  | cons op rest ih =>
    intro P S c hc
    cases ho : sep op.1 with
    | true =>
      simp only [cutsAuxP, ho, if_true, List.mem_cons] at hc
      rcases hc with h | h
      · subst h; exact Nat.le_refl _
      · have := ih _ _ c h
        simp only [List.length_append, List.length_cons, List.length_nil] at this
        omega
    | false =>
      simp only [cutsAuxP, ho] at hc
      exact ih _ _ c hc

/-- the cuts are listed in CIGAR order, each once: the lengths of their prefixes increase strictly -/
theorem cutsAuxP_ordered (sep : CigarEvent → Bool) : ∀ (rest P S : List CigarOp),
    (cutsAuxP sep P S rest).Pairwise (fun a b => a.1.length < b.1.length) := by
  intro rest
  induction rest with
  | nil => intro P S; simp [cutsAuxP]
  | cons op rest ih =>
    intro P S
    cases ho : sep op.1 with
    | true =>
      simp only [cutsAuxP, ho, if_true, List.pairwise_cons]
      refine ⟨fun c hc => ?_, ih _ _⟩
      have := cutsAuxP_pre_length sep rest _ _ c hc
      simp only [List.length_append, List.length_cons, List.length_nil] at this
      omega
    | false =>
      simp only [cutsAuxP, ho]
      exact ih _ _

end IsoVerif.Lemmas.C16
