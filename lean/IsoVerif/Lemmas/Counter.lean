/-
Helper lemmas for C02 (count tables): the association-list dictionary, set insertion, `dedup`,
sums of rationals.  Core Lean only.
-/
import IsoVerif.Model.Counter
import IsoVerif.Model.CounterSpec

namespace IsoVerif.Lemmas.C02
open IsoVerif.Gen IsoVerif.Model.C02

variable {F : Type} [DecidableEq F]

/-! ### ratSum / natSum -/

@[simp] theorem ratSum_nil : ratSum [] = 0 := rfl
@[simp] theorem ratSum_cons (x : Rat) (xs : List Rat) : ratSum (x :: xs) = x + ratSum xs := rfl

theorem ratSum_append (a b : List Rat) : ratSum (a ++ b) = ratSum a + ratSum b := by
  induction a with
  | nil => simp [Rat.zero_add]
  | cons x xs ih => simp [ih]; grind

theorem ratSum_map_add {α} (l : List α) (g h : α → Rat) :
    ratSum (l.map (fun x => g x + h x)) = ratSum (l.map g) + ratSum (l.map h) := by
  induction l with
  | nil => simp [Rat.zero_add]
  | cons x xs ih => simp [ih]; grind

theorem ratSum_map_mul_left {α} (l : List α) (c : Rat) (g : α → Rat) :
    ratSum (l.map (fun x => c * g x)) = c * ratSum (l.map g) := by
  induction l with
  | nil => simp
  | cons x xs ih => simp [ih]; grind

theorem ratSum_map_mul_right {α} (l : List α) (c : Rat) (g : α → Rat) :
    ratSum (l.map (fun x => g x * c)) = ratSum (l.map g) * c := by
  induction l with
  | nil => simp
  | cons x xs ih => simp [ih]; grind

theorem ratSum_nonneg (l : List Rat) (h : ∀ x ∈ l, 0 ≤ x) : 0 ≤ ratSum l := by
  induction l with
  | nil => simp
  | cons x xs ih =>
    have h1 := h x (by simp)
    have h2 := ih (fun y hy => h y (by simp [hy]))
    simp; grind

theorem ratSum_map_zero {α} (l : List α) (g : α → Rat) (h : ∀ x ∈ l, g x = 0) : ratSum (l.map g) = 0 := by
  induction l with
  | nil => simp
  | cons x xs ih =>
    have h1 := h x (by simp)
    have h2 := ih (fun y hy => h y (by simp [hy]))
    simp [h1, h2, Rat.zero_add]

theorem le_ratSum_of_mem {α} (l : List α) (g : α → Rat) (hg : ∀ x ∈ l, 0 ≤ g x) (a : α) (ha : a ∈ l) :
    g a ≤ ratSum (l.map g) := by
  induction l with
  | nil => simp at ha
  | cons x xs ih =>
    have hx := hg x (by simp)
    have hrest : 0 ≤ ratSum (xs.map g) :=
      ratSum_nonneg _ (by intro y hy; simp at hy; obtain ⟨z, hz, rfl⟩ := hy; exact hg z (by simp [hz]))
    simp at ha
    rcases ha with rfl | ha
    · simp; grind
    · have := ih (fun y hy => hg y (by simp [hy])) ha
      simp; grind

@[simp] theorem natSum_nil : natSum [] = 0 := rfl
@[simp] theorem natSum_cons (x : Nat) (xs : List Nat) : natSum (x :: xs) = x + natSum xs := rfl
theorem natSum_append (a b : List Nat) : natSum (a ++ b) = natSum a + natSum b := by
  induction a with
  | nil => simp
  | cons x xs ih => simp [ih]; omega

/-! ### the dictionary -/

theorem get_inc (m : List (F × Rat)) (k k' : F) (v : Rat) :
    cget (inc m k v) k' = cget m k' + (if k = k' then v else 0) := by
  induction m with
  | nil => grind [inc, cget]
  | cons p rest ih => grind [inc, cget]

theorem cnt_nil (f : F) : cnt ([] : List F) f = 0 := by simp [cnt]
theorem cnt_cons (x : F) (xs : List F) (f : F) : cnt (x :: xs) f = (if x = f then 1 else 0) + cnt xs f := by
  simp only [cnt, List.count_cons]
  split
  · rename_i h; simp at h; subst h; simp [Rat.natCast_add]; grind
  · rename_i h; simp at h; simp [h, Rat.zero_add]

theorem get_incAll (fs : List F) (m : List (F × Rat)) (w : Rat) (f : F) :
    cget (incAll m fs w) f = cget m f + cnt fs f * w := by
  induction fs generalizing m with
  | nil => simp [incAll, cnt_nil, Rat.zero_mul, Rat.add_zero]
  | cons x xs ih =>
    have := ih (inc m x w)
    simp only [incAll, List.foldl_cons] at this ⊢
    rw [this, get_inc, cnt_cons]
    split <;> grind

theorem get_setZero (m : List (F × Rat)) (k k' : F) :
    cget (setZero m k) k' = if k = k' then 0 else cget m k' := by
  induction m with
  | nil => grind [setZero, cget]
  | cons p rest ih => grind [setZero, cget]

theorem get_zeroUnconfirmed (conf feats : List F) (m : List (F × Rat)) (f : F) :
    cget (zeroUnconfirmed conf feats m) f = if f ∈ feats ∧ f ∉ conf then 0 else cget m f := by
  induction feats generalizing m with
  | nil => simp [zeroUnconfirmed]
  | cons x xs ih =>
    simp only [zeroUnconfirmed, List.foldl_cons]
    have h := ih (if x ∈ conf then m else setZero m x)
    simp only [zeroUnconfirmed] at h
    rw [h]
    by_cases hx : x ∈ conf
    · simp only [hx, if_true]
      by_cases hf : f = x
      · subst hf; simp [hx]
      · simp [hf]
    · simp only [hx, if_false]
      by_cases hf : f = x
      · subst hf; simp [hx, get_setZero]
      · have hf' : ¬ x = f := fun h => hf h.symm
        simp [hf, get_setZero, hf']

/-! ### sets as lists -/

theorem mem_setAdd (l : List F) (x y : F) : y ∈ setAdd l x ↔ y ∈ l ∨ y = x := by
  grind [setAdd]

theorem mem_addAll (fs l : List F) (y : F) : y ∈ addAll l fs ↔ y ∈ l ∨ y ∈ fs := by
  induction fs generalizing l with
  | nil => simp [addAll]
  | cons x xs ih =>
    have := ih (setAdd l x)
    simp only [addAll, List.foldl_cons] at this ⊢
    rw [this, mem_setAdd]; grind

theorem mem_dedup (l : List F) (x : F) : x ∈ dedup l ↔ x ∈ l := by
  induction l with
  | nil => simp [dedup]
  | cons y ys ih =>
    simp only [dedup, List.mem_cons, List.mem_filter, ih]
    by_cases h : x = y <;> simp [h]

theorem nodup_dedup (l : List F) : (dedup l).Nodup := by
  induction l with
  | nil => simp [dedup]
  | cons y ys ih =>
    simp only [dedup, List.nodup_cons, List.mem_filter]
    refine ⟨by simp, ?_⟩
    exact List.Nodup.sublist List.filter_sublist ih

theorem head_dedup (l : List F) : (dedup l).head? = l.head? := by
  cases l <;> simp [dedup]

theorem count_of_nodup (l : List F) (h : l.Nodup) (f : F) : l.count f = if f ∈ l then 1 else 0 := by
  induction l with
  | nil => simp
  | cons x xs ih =>
    simp only [List.nodup_cons] at h
    have := ih h.2
    grind

theorem cnt_of_nodup (l : List F) (h : l.Nodup) (f : F) : cnt l f = if f ∈ l then 1 else 0 := by
  unfold cnt
  rw [count_of_nodup l h f]
  split <;> simp

/-! ### 1/k -/

theorem natCast_pos' (k : Nat) (h : 0 < k) : (0 : Rat) < (k : Rat) := Rat.natCast_pos.mpr h

theorem one_div_nat_pos (k : Nat) (h : 0 < k) : (0 : Rat) < 1 / (k : Rat) := by
  rw [Rat.div_def, Rat.one_mul]
  exact Rat.inv_pos.mpr (natCast_pos' k h)

theorem one_div_nat_mul (k : Nat) (h : 0 < k) : (1 / (k : Rat)) * (k : Rat) = 1 := by
  have : (k : Rat) ≠ 0 := by
    have := natCast_pos' k h
    grind
  exact Rat.div_mul_cancel this

theorem one_div_nat_le_one (k : Nat) (h : 0 < k) : 1 / (k : Rat) ≤ 1 := by
  have h1 := one_div_nat_mul k h
  have h2 := one_div_nat_pos k h
  have h3 : (1 : Rat) ≤ (k : Rat) := by
    have : ((1:Nat) : Rat) ≤ (k : Rat) := Rat.natCast_le_natCast.mpr h
    simpa using this
  have : 1 / (k : Rat) * 1 ≤ 1 / (k : Rat) * (k : Rat) := Rat.mul_le_mul_of_nonneg_left h3 (Rat.le_of_lt h2)
  grind

/-! ### sums of indicators / occurrence counts over a duplicate-free list -/

theorem indicator_sum (L : List F) (hL : L.Nodup) (g : F) :
    ratSum (L.map (fun f => if g = f then (1 : Rat) else 0)) = if g ∈ L then 1 else 0 := by
  induction L with
  | nil => simp
  | cons x xs ih =>
    simp only [List.nodup_cons] at hL
    have := ih hL.2
    simp only [List.map_cons, ratSum_cons, this, List.mem_cons]
    by_cases hx : g = x
    · subst hx; simp [hL.1, Rat.add_zero]
    · by_cases hm : g ∈ xs <;> simp [hx, hm, Rat.zero_add]

theorem cnt_sum_le (L : List F) (hL : L.Nodup) (fs : List F) :
    ratSum (L.map (cnt fs)) ≤ (fs.length : Rat) := by
  induction fs with
  | nil =>
    have : ratSum (L.map (cnt ([] : List F))) = 0 := ratSum_map_zero _ _ (fun x _ => cnt_nil x)
    rw [this]; simp
  | cons g gs ih =>
    have h1 : L.map (cnt (g :: gs)) = L.map (fun f => (if g = f then (1:Rat) else 0) + cnt gs f) := by
      apply List.map_congr_left; intro f _; exact cnt_cons g gs f
    rw [h1, ratSum_map_add, indicator_sum L hL g]
    have : ((g :: gs).length : Rat) = 1 + (gs.length : Rat) := by
      simp [Rat.natCast_add]; grind
    rw [this]
    split <;> grind

theorem cnt_nonneg (fs : List F) (f : F) : 0 ≤ cnt fs f := by
  unfold cnt
  exact_mod_cast Nat.zero_le _

/-! ### insertion sort -/

omit [DecidableEq F] in
theorem mem_insertSorted (le : F → F → Bool) (x y : F) (l : List F) :
    y ∈ insertSorted le x l ↔ y = x ∨ y ∈ l := by
  induction l with
  | nil => simp [insertSorted]
  | cons z zs ih =>
    simp only [insertSorted]
    split
    · simp
    · simp [ih]; grind

omit [DecidableEq F] in
theorem mem_isort (le : F → F → Bool) (l : List F) (y : F) : y ∈ isort le l ↔ y ∈ l := by
  induction l with
  | nil => simp [isort]
  | cons x xs ih => simp [isort, mem_insertSorted, ih]

omit [DecidableEq F] in
theorem nodup_insertSorted (le : F → F → Bool) (x : F) (l : List F) (hx : x ∉ l) (hl : l.Nodup) :
    (insertSorted le x l).Nodup := by
  induction l with
  | nil => simp [insertSorted]
  | cons z zs ih =>
    simp only [insertSorted]
    simp only [List.mem_cons, not_or] at hx
    simp only [List.nodup_cons] at hl
    split
    · simp only [List.nodup_cons, List.mem_cons, not_or]
      exact ⟨⟨hx.1, hx.2⟩, hl.1, hl.2⟩
    · simp only [List.nodup_cons, mem_insertSorted, not_or]
      exact ⟨⟨fun h => hx.1 h.symm, hl.1⟩, ih hx.2 hl.2⟩

omit [DecidableEq F] in
theorem nodup_isort (le : F → F → Bool) (l : List F) (hl : l.Nodup) : (isort le l).Nodup := by
  induction l with
  | nil => simp [isort]
  | cons x xs ih =>
    simp only [List.nodup_cons] at hl
    simp only [isort]
    exact nodup_insertSorted le x _ (by rw [mem_isort]; exact hl.1) (ih hl.2)

end IsoVerif.Lemmas.C02
