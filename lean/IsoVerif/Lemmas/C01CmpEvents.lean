/-
Well-formedness of the events `compare_junctions` emits (Model/JunctionCompare.lean): every event type is one of the
members the comparator names (generated list `comparator_event_types`), `event_info` is 0, the regions index the two
junction lists (or are the sentinels the code uses).  Core Lean only.
-/
import IsoVerif.Lemmas.C01CmpTotal

namespace IsoVerif.Lemmas.C01Cmp
open IsoVerif.Gen IsoVerif.Model IsoVerif.Model.C01 IsoVerif.Lemmas

/-- a region over a list of `n` features: undefined, (absent, position ≤ n), or a non-empty index range -/
def RegionOK (n : Nat) (reg : Int × Int) : Prop :=
  reg = undefRegion ∨ (reg.1 = absentPos ∧ 0 ≤ reg.2 ∧ reg.2 ≤ n) ∨ (0 ≤ reg.1 ∧ reg.1 ≤ reg.2 ∧ reg.2 < n)

def EventOK (n m : Nat) (e : Event) : Prop :=
  e.ty ∈ comparator_event_types ∧ e.info = 0 ∧ RegionOK n e.readRegion ∧
  (RegionOK m e.isoRegion ∨ e.isoRegion = extraLeftRegion ∨ e.isoRegion = extraRightRegion)

/-- closes `some X = some t ⊢ t ∈ comparator_event_types` and impossible leaves -/
macro "ty_leaf" h:ident : tactic =>
  `(tactic| first
    | (cases $h:ident; done)
    | (simp only [Option.some.injEq] at $h:ident; subst $h:ident; decide)
    | (simp only [Option.some.injEq] at $h:ident; subst $h:ident; split <;> decide))

theorem alternative_sites_mem (s : String) (k : Bool) (t : MatchEventSubtype) (h : alternative_sites s k = some t) :
    t ∈ comparator_event_types := by
  unfold alternative_sites at h
  simp only [Option.map_eq_some_iff] at h
  obtain ⟨p, hp, rfl⟩ := h
  have hm := List.mem_of_find?_eq_some hp
  have : ∀ q ∈ alternative_sites_table, q.2 ∈ comparator_event_types := by decide
  exact this p hm

theorem altSiteEvent_mem {c rr rj ir ij rc ic r k known t} (h : altSiteEvent c rr rj ir ij rc ic r k known = some t) :
    t ∈ comparator_event_types := by
  unfold altSiteEvent at h
  dsimp only at h
  repeat' split at h
  all_goals first
    | exact alternative_sites_mem _ _ _ h
    | ty_leaf h

theorem relabelSuspicious_mem {c rr rj rc ev t} (hev : ev ∈ comparator_event_types)
    (h : relabelSuspicious c rr rj rc ev = some t) : t ∈ comparator_event_types := by
  unfold relabelSuspicious at h
  repeat' split at h
  all_goals first
    | (simp only [Option.some.injEq] at h; subst h; exact hev)
    | ty_leaf h

theorem classifySingle_mem {c rr rj ir ij rc ic s k t} (h : classifySingle c rr rj ir ij rc ic s k = some t) :
    t ∈ comparator_event_types := by
  unfold classifySingle at h
  split at h
  · split at h
    · repeat' split at h
      all_goals ty_leaf h
    · split at h
      · cases h
      · rename_i ev hev
        exact relabelSuspicious_mem (altSiteEvent_mem hev) h
  · cases h

theorem classifyTerminal_mem {c rr rj ir ij r0 i0 k t} (h : classifyTerminal c rr rj ir ij r0 i0 k = some t) :
    t ∈ comparator_event_types := by
  unfold classifyTerminal at h
  dsimp only at h
  split at h
  · cases h
  · repeat' split at h
    all_goals ty_leaf h

theorem classifySkipped_mem {c ij i0 i1 s k sb t} (h : classifySkipped c ij i0 i1 s k sb = some (some t)) :
    t ∈ comparator_event_types := by
  unfold classifySkipped at h
  split at h
  · cases h
  · repeat' split at h
    all_goals first
      | (simp only [Option.some.injEq] at h; subst h; decide)
      | (simp at h)

theorem cascadeBoth_mem {c rr rj ir ij r0 r1 i0 i1 d t} (h : cascadeBoth c rr rj ir ij r0 r1 i0 i1 d = some (some t)) :
    t ∈ comparator_event_types := by
  unfold cascadeBoth at h
  dsimp only at h
  split at h
  · simp only [Option.map_eq_some_iff, Option.some.injEq] at h
    obtain ⟨a, ha, rfl⟩ := h
    exact classifySingle_mem ha
  · split at h
    · simp only [Option.map_eq_some_iff, Option.some.injEq] at h
      obtain ⟨a, ha, rfl⟩ := h
      exact classifyTerminal_mem ha
    · split at h
      · split at h <;> (simp only [Option.some.injEq] at h; subst h; decide)
      · split at h
        · exact classifySkipped_mem h
        · split at h
          · repeat' split at h
            all_goals first
              | (simp only [Option.some.injEq] at h; subst h; decide)
              | (simp at h)
          · split at h
            · split at h <;> (simp only [Option.some.injEq] at h; subst h; decide)
            · simp at h

theorem classifyBothTy_mem {c rr rj ir ij r0 r1 i0 i1 t} (h : classifyBothTy c rr rj ir ij r0 r1 i0 i1 = some t) :
    t ∈ comparator_event_types := by
  unfold classifyBothTy at h
  split at h
  · cases h
  · split at h
    · cases h
    · rename_i t' hc
      simp only [Option.some.injEq] at h; subst h
      exact cascadeBoth_mem hc
    · repeat' split at h
      all_goals ty_leaf h

/-! ### events of one pair -/

theorem mkEvent_ok {n m : Nat} {t : MatchEventSubtype} {isoReg readReg : Int × Int} (ht : t ∈ comparator_event_types)
    (hr : RegionOK n readReg) (hi : RegionOK m isoReg ∨ isoReg = extraLeftRegion ∨ isoReg = extraRightRegion) :
    EventOK n m (mkEvent t isoReg readReg) := ⟨ht, rfl, hr, hi⟩

theorem region_range {n a b : Nat} (h1 : a ≤ b) (h2 : b < n) : RegionOK n ((a : Int), (b : Int)) :=
  Or.inr (Or.inr ⟨by simp, by simp; omega, by simp; omega⟩)

theorem region_absent {n b : Nat} (h : b ≤ n) : RegionOK n (absentPos, (b : Int)) :=
  Or.inr (Or.inl ⟨rfl, by simp, by simp; omega⟩)

theorem classifyRetention_ok {c rr rj ij rp ip e} (h1 : rp ≤ rj.length) (h2 : ip < ij.length)
    (h : classifyRetention c rr rj ij rp ip = some (some e)) : EventOK rj.length ij.length e := by
  unfold classifyRetention at h
  dsimp only at h
  repeat' split at h
  all_goals first
    | (cases h; done)
    | (simp only [Option.some.injEq] at h; subst h
       exact mkEvent_ok (by decide) (region_absent h1) (Or.inl (region_range (Nat.le_refl _) h2)))
    | (simp at h)

theorem fakeTerminalOfExtra_ok {c rr rj rp n m e} (h1 : rp < n)
    (h : fakeTerminalOfExtra c rr rj rp ((rp : Int), (rp : Int)) = some (some e)) : EventOK n m e := by
  have hl : ∀ e, fakeLeftOfExtra c rr rj rp ((rp : Int), (rp : Int)) = some (some e) → EventOK n m e := by
    intro e h
    unfold fakeLeftOfExtra at h
    repeat' split at h
    all_goals first
      | (cases h; done)
      | (simp only [Option.some.injEq] at h; subst h
         exact mkEvent_ok (by decide) (region_range (Nat.le_refl _) h1) (Or.inr (Or.inl rfl)))
      | (simp at h)
  have hr : ∀ e, fakeRightOfExtra c rr rj rp ((rp : Int), (rp : Int)) = some (some e) → EventOK n m e := by
    intro e h
    unfold fakeRightOfExtra at h
    repeat' split at h
    all_goals first
      | (cases h; done)
      | (simp only [Option.some.injEq] at h; subst h
         exact mkEvent_ok (by decide) (region_range (Nat.le_refl _) h1) (Or.inr (Or.inr rfl)))
      | (simp at h)
  unfold fakeTerminalOfExtra at h
  split at h
  · cases h
  · rename_i e' he'
    simp only [Option.some.injEq] at h; subst h
    exact hl _ he'
  · exact hr _ h

theorem classifyExtra_ok {c rr rj rp ip n m e} (h1 : rp < n) (h2 : ip ≤ m)
    (h : classifyExtra c rr rj rp ip = some e) : EventOK n m e := by
  unfold classifyExtra at h
  dsimp only at h
  repeat' split at h
  all_goals first
    | (cases h; done)
    | (rename_i hf; simp only [Option.some.injEq] at h; subst h; exact fakeTerminalOfExtra_ok h1 hf)
    | (simp only [Option.some.injEq] at h; subst h
       exact mkEvent_ok (by decide) (region_range (Nat.le_refl _) h1) (Or.inl (region_absent h2)))

theorem classifyPair_ok {c rr rj ir ij pr e} (hp : PairOK rj.length ij.length pr)
    (h : classifyPair c rr rj ir ij pr = some (some e)) : EventOK rj.length ij.length e := by
  cases pr with
  | retention rp ip => exact classifyRetention_ok hp.1 hp.2 h
  | extra rp ip =>
    simp only [classifyPair, Option.map_eq_some_iff, Option.some.injEq] at h
    obtain ⟨a, ha, rfl⟩ := h
    exact classifyExtra_ok hp.1 hp.2 ha
  | both r0 r1 i0 i1 =>
    simp only [classifyPair, Option.map_eq_some_iff, Option.some.injEq] at h
    obtain ⟨t, ht, rfl⟩ := h
    exact mkEvent_ok (classifyBothTy_mem ht) (region_range hp.1 hp.2.1) (Or.inl (region_range hp.2.2.1 hp.2.2.2))

theorem detectContradictions_ok {c rr rj ir ij} :
    ∀ (prs : List CPair) (evs : List Event), (∀ pr ∈ prs, PairOK rj.length ij.length pr) →
      detectContradictions c rr rj ir ij prs = some evs → ∀ e ∈ evs, EventOK rj.length ij.length e := by
  intro prs
  induction prs with
  | nil => intro evs _ h; simp [detectContradictions] at h; subst h; simp
  | cons pr rest ih =>
    intro evs hp h
    simp only [detectContradictions] at h
    split at h
    · cases h
    · rename_i oe hoe
      split at h
      · cases h
      · rename_i es hes
        simp only [Option.some.injEq] at h
        have ihr := ih es (fun q hq => hp q (List.mem_cons_of_mem _ hq)) hes
        cases oe with
        | none => subst h; exact ihr
        | some e0 =>
          subst h
          intro e he
          rcases List.mem_cons.mp he with rfl | he
          · exact classifyPair_ok (hp pr (by simp)) hoe
          · exact ihr e he

/-! ### flanking events -/

theorem zeroRun_lt : ∀ (l : List Int) (i : Nat), ∀ j ∈ zeroRun l i, j < i + l.length := by
  intro l
  induction l with
  | nil => intro i j hj; simp [zeroRun] at hj
  | cons v vs ih =>
    intro i j hj
    simp only [zeroRun] at hj
    split at hj
    · rcases List.mem_cons.mp hj with rfl | hj
      · simp
      · have := ih (i + 1) j hj; simp; omega
    · cases hj

theorem zeroRunDown_lt : ∀ (l : List Int) (i1 : Nat), l.length ≤ i1 → ∀ j ∈ zeroRunDown l i1, j < i1 := by
  intro l
  induction l with
  | nil => intro i j _ hj; simp [zeroRunDown] at hj
  | cons v vs ih =>
    intro i1 hl j hj
    simp only [zeroRunDown] at hj
    simp only [List.length_cons] at hl
    split at hj
    · rcases List.mem_cons.mp hj with rfl | hj
      · omega
      · have := ih (i1 - 1) (by omega) j hj; omega
    · cases hj

/-- the event types `add_extra_out_exon_events` can append -/
def flank_types : List MatchEventSubtype :=
  [.fake_terminal_exon_left, .extra_intron_flanking_left, .fake_terminal_exon_right, .extra_intron_flanking_right]

theorem flankEvent_ok {n m i : Nat} {t : MatchEventSubtype} {reg : Int × Int}
    (ht : t ∈ comparator_event_types ∧ t ∈ flank_types)
    (hi : i < n) (hreg : reg = extraLeftRegion ∨ reg = extraRightRegion) :
    EventOK n m (flankEvent t reg i) ∧ (flankEvent t reg i).ty ∈ flank_types :=
  ⟨mkEvent_ok ht.1 (region_range (Nat.le_refl _) hi) (Or.inr hreg), ht.2⟩

theorem extraSides_pos {prof rj isoStart v} (h : extraSides prof rj isoStart = some v) : 0 < prof.length := by
  cases prof with
  | nil => simp [extraSides] at h
  | cons _ _ => simp

theorem leftFlank_ok {c prof rr rj evs} {m : Nat} (hpos : 0 < prof.length) (h : leftFlank c prof rr rj = some evs) :
    ∀ e ∈ evs, EventOK prof.length m e ∧ e.ty ∈ flank_types := by
  unfold leftFlank at h
  split at h
  · cases h
  · split at h
    · simp only [Option.some.injEq] at h; subst h
      intro e he
      rcases List.mem_cons.mp he with rfl | he
      · exact flankEvent_ok (by decide) hpos (Or.inl rfl)
      · simp only [List.mem_map] at he
        obtain ⟨j, hj, rfl⟩ := he
        have := zeroRun_lt _ _ j hj
        simp only [List.length_drop] at this
        exact flankEvent_ok (by decide) (by omega) (Or.inl rfl)
    · simp only [Option.some.injEq] at h; subst h
      intro e he
      simp only [List.mem_map] at he
      obtain ⟨j, hj, rfl⟩ := he
      have := zeroRun_lt _ _ j hj
      exact flankEvent_ok (by decide) (by omega) (Or.inl rfl)

theorem rightFlank_ok {c prof rr rj evs} {m : Nat} (hpos : 0 < prof.length) (h : rightFlank c prof rr rj = some evs) :
    ∀ e ∈ evs, EventOK prof.length m e ∧ e.ty ∈ flank_types := by
  unfold rightFlank at h
  split at h
  · cases h
  · split at h
    · simp only [Option.some.injEq] at h; subst h
      intro e he
      rcases List.mem_cons.mp he with rfl | he
      · exact flankEvent_ok (by decide) (by omega) (Or.inr rfl)
      · simp only [List.mem_map] at he
        obtain ⟨j, hj, rfl⟩ := he
        have := zeroRunDown_lt _ _ (by simp) j hj
        exact flankEvent_ok (by decide) (by omega) (Or.inr rfl)
    · simp only [Option.some.injEq] at h; subst h
      intro e he
      simp only [List.mem_map] at he
      obtain ⟨j, hj, rfl⟩ := he
      have := zeroRunDown_lt _ _ (by simp) j hj
      exact flankEvent_ok (by decide) (by omega) (Or.inr rfl)

theorem addExtraOut_ok {c prof rr rj isoStart evs} {m : Nat} (h : addExtraOut c prof rr rj isoStart = some evs) :
    ∀ e ∈ evs, EventOK prof.length m e ∧ e.ty ∈ flank_types := by
  unfold addExtraOut at h
  split at h
  · cases h
  · rename_i el er hs
    have hpos := extraSides_pos hs
    split at h
    · rename_i a b ha hb
      simp only [Option.some.injEq] at h; subst h
      intro e he
      rcases List.mem_append.mp he with he | he
      · split at ha
        · exact leftFlank_ok hpos ha e he
        · simp only [Option.some.injEq] at ha; subst ha; cases he
      · split at hb
        · exact rightFlank_ok hpos hb e he
        · simp only [Option.some.injEq] at hb; subst hb; cases he
    · cases h

/-! ### monoexonic reads -/

theorem monoExonEvents_ok (c : CmpCtx) (rr : Iv) : ∀ (l : List Iv) (i m : Nat), i + l.length = m →
    ∀ e ∈ monoExonEvents c rr l i, EventOK 0 m e := by
  intro l
  induction l with
  | nil => intro i m _ e he; simp [monoExonEvents] at he
  | cons k ks ih =>
    intro i m hm e he
    simp only [List.length_cons] at hm
    have hrec := ih (i + 1) m (by omega)
    have hreg : RegionOK 0 (absentPos, (0 : Int)) := Or.inr (Or.inl ⟨rfl, by simp, by simp⟩)
    have hiso : RegionOK m ((i : Int), (i : Int)) := region_range (Nat.le_refl _) (by omega)
    simp only [monoExonEvents] at he
    repeat' split at he
    all_goals first
      | exact hrec e he
      | (rcases List.mem_cons.mp he with rfl | he
         · exact ⟨by dsimp only; decide, rfl, hreg, Or.inl hiso⟩
         · exact hrec e he)

theorem monoExonSubtype_ok (c : CmpCtx) (rr : Iv) (ij : List Iv) :
    monoExonSubtype c rr ij ≠ [] ∧ ∀ e ∈ monoExonSubtype c rr ij, EventOK 0 ij.length e := by
  unfold monoExonSubtype
  split
  · refine ⟨by simp, ?_⟩
    intro e he
    simp only [List.mem_singleton] at he; subst he
    exact ⟨by decide, rfl, Or.inl rfl, Or.inl (Or.inl rfl)⟩
  · dsimp only
    split
    · refine ⟨by simp, ?_⟩
      intro e he
      simp only [List.mem_singleton] at he; subst he
      exact ⟨by decide, rfl, Or.inl rfl, Or.inl (Or.inl rfl)⟩
    · rename_i hne
      refine ⟨by intro e; simp [e] at hne, ?_⟩
      exact monoExonEvents_ok c rr ij 0 ij.length (by simp)

/-- the events of `compare_junctions`: a non-empty list of well-formed events -/
theorem compareJunctions_ok (c : CmpCtx) (rj : List Iv) (rr : Iv) (ij : List Iv) (ir : Iv) (evs : List Event)
    (h : compareJunctions c rj rr ij ir = some evs) : evs ≠ [] ∧ ∀ e ∈ evs, EventOK rj.length ij.length e := by
  unfold compareJunctions at h
  split at h
  · rename_i he
    simp only [Option.some.injEq] at h; subst h
    have : rj.length = 0 := by simpa using he
    rw [this]
    exact monoExonSubtype_ok c rr ij
  · obtain ⟨h1, _, h3⟩ := sweep_ok c.p.delta rr ir rj.length ij.length rj 0 0 ij 0 0 none (by simp) (by simp) trivial
    dsimp only at h
    split at h
    · cases h
    · rename_i ev1 hev1
      have hok1 : ∀ e ∈ ev1, EventOK rj.length ij.length e := by
        split at hev1
        · exact detectContradictions_ok _ _ h3 hev1
        · simp only [Option.some.injEq] at hev1; subst hev1; simp
      simp only [Option.map_eq_some_iff] at h
      obtain ⟨ev2, hev2, rfl⟩ := h
      have hok2 : ∀ e ∈ ev2, EventOK rj.length ij.length e := by
        split at hev2
        · simp only [Option.map_eq_some_iff] at hev2
          obtain ⟨x, hx, rfl⟩ := hev2
          have := addExtraOut_ok (m := ij.length) hx
          intro e he
          rcases List.mem_append.mp he with he | he
          · exact hok1 e he
          · have hx' := (this e he).1
            show EventOK rj.length ij.length e
            rw [← h1]; exact hx'
        · simp only [Option.some.injEq] at hev2; subst hev2; exact hok1
      split
      · refine ⟨by simp, ?_⟩
        intro e he
        simp only [List.mem_singleton] at he; subst he
        exact ⟨by decide, rfl, Or.inl rfl, Or.inl (Or.inl rfl)⟩
      · rename_i hne
        exact ⟨by intro e; simp [e] at hne, hok2⟩

end IsoVerif.Lemmas.C01Cmp
