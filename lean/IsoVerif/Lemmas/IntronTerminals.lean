/-
Helper lemmas for `attach_terminal_positions` (Model/IntronTerminals.lean): every attached terminal vertex has the right
code, lies beyond its intron and carries a read end / read start / annotated transcript end as position.  Core Lean only.
-/
import IsoVerif.Model.IntronTerminals
import IsoVerif.Lemmas.IntronGraph
import IsoVerif.Lemmas.GeneJoiner

namespace IsoVerif.Lemmas.C04
open IsoVerif.Gen IsoVerif.Model IsoVerif.Model.C04

/-- `pos` is the end of the last exon of a non-multimapper read -/
def ReadEndPos (reads : List Read) (pos : Int) : Prop :=
  ∃ r ∈ reads, r.multimapper = false ∧ ∃ el, r.exons.getLast? = some el ∧ el.2 = pos

/-- `pos` is the start of the first exon of a non-multimapper read -/
def ReadStartPos (reads : List Read) (pos : Int) : Prop :=
  ∃ r ∈ reads, r.multimapper = false ∧ ∃ e0, r.exons.head? = some e0 ∧ e0.1 = pos

/-- every recorded position of every intron satisfies `Q intron pos` -/
def TableOK (Q : Iv → Int → Prop) (t : TermTable) : Prop := ∀ e ∈ t, ∀ q ∈ e.2, Q e.1 q.1

theorem tableAdd_ok {Q : Iv → Int → Prop} {t : TermTable} (ht : TableOK Q t) {intron : Iv} {pos : Int} (hq : Q intron pos) :
    TableOK Q (tableAdd t intron pos) := by
  intro e he q hq'
  unfold tableAdd at he
  rcases mem_amSet he with h | h
  · subst h
    simp only at hq' ⊢
    rcases mem_amSet hq' with h' | h'
    · subst h'; exact hq
    · cases hg : amGet? t intron with
      | none => simp [hg] at h'
      | some d =>
        simp only [hg, Option.getD_some] at h'
        exact ht (intron, d) (amGet?_mem hg) q h'
  · exact ht e h q hq'

theorem table_lookup_ok {Q : Iv → Int → Prop} {t : TermTable} (ht : TableOK Q t) (intron : Iv) :
    ∀ q ∈ (amGet? t intron).getD [], Q intron q.1 := by
  intro q hq
  cases hg : amGet? t intron with
  | none => simp [hg] at hq
  | some d =>
    simp only [hg, Option.getD_some] at hq
    exact ht (intron, d) (amGet?_mem hg) q hq

structure TerminalsOK (reads : List Read) (t : Terminals) : Prop where
  polya : TableOK (fun i pos => i.2 < pos ∧ ReadEndPos reads pos) t.polyaEnds
  rend : TableOK (fun i pos => i.2 < pos ∧ ReadEndPos reads pos) t.readEnds
  polyt : TableOK (fun i pos => pos < i.1 ∧ ReadStartPos reads pos) t.polytStarts
  rstart : TableOK (fun i pos => pos < i.1 ∧ ReadStartPos reads pos) t.readStarts

theorem collectStart_ok {reads : List Read} {g : Graph} {delta : Int} {t : Terminals} {a : Read} {si : Iv} {rs : Int}
    (ht : TerminalsOK reads t) (hq : rs < si.1 ∧ ReadStartPos reads rs) : TerminalsOK reads (collectStart g delta t a si rs) := by
  unfold collectStart
  split
  · exact ⟨ht.polya, ht.rend, tableAdd_ok ht.polyt hq, ht.rstart⟩
  · split
    · exact ⟨ht.polya, ht.rend, ht.polyt, tableAdd_ok ht.rstart hq⟩
    · exact ht

theorem collectEnd_ok {reads : List Read} {g : Graph} {delta : Int} {t : Terminals} {a : Read} {ti : Iv} {re : Int}
    (ht : TerminalsOK reads t) (hq : ti.2 < re ∧ ReadEndPos reads re) : TerminalsOK reads (collectEnd g delta t a ti re) := by
  unfold collectEnd
  split
  · exact ⟨tableAdd_ok ht.polya hq, ht.rend, ht.polyt, ht.rstart⟩
  · split
    · exact ⟨ht.polya, tableAdd_ok ht.rend hq, ht.polyt, ht.rstart⟩
    · exact ht

theorem collectStep_ok {reads : List Read} {g : Graph} {delta : Int} {t t' : Terminals} {a : Read} (ha : a ∈ reads)
    (ht : TerminalsOK reads t) (h : collectStep g delta t a = some t') : TerminalsOK reads t' := by
  unfold collectStep at h
  split at h
  · simp at h; subst h; exact ht
  · rename_i hmm
    have hm : a.multimapper = false := by
      cases hh : a.multimapper <;> simp [hh] at hmm ⊢
    split at h
    · simp at h; subst h; exact ht
    · split at h
      · rename_i i0 il e0 el _ _ he0 hel
        simp only at h
        split at h
        · simp at h; subst h; exact ht
        · rename_i hs
          have h1 : TerminalsOK reads (collectStart g delta t a (g.col.substitute i0) e0.1) :=
            collectStart_ok ht ⟨by omega, a, ha, hm, e0, he0, rfl⟩
          split at h
          · simp at h; subst h; exact h1
          · rename_i he
            simp at h; subst h
            exact collectEnd_ok h1 ⟨by omega, a, ha, hm, el, hel, rfl⟩
      · simp at h

theorem collectTerminals_ok {reads : List Read} {g : Graph} {delta : Int} {t : Terminals}
    (h : collectTerminals g delta reads = some t) : TerminalsOK reads t := by
  unfold collectTerminals at h
  refine foldlM_option_inv (TerminalsOK reads) _ reads _ t ?_ (fun x a y ha hx hf => collectStep_ok ha hx hf) h
  exact ⟨(by intro e he; cases he), (by intro e he; cases he), (by intro e he; cases he), (by intro e he; cases he)⟩

/-! ### `cluster_polya_positions` -/

theorem firstMaxCount_mem {d : PosCounts} {p : Int × Int} (h : firstMaxCount d = some p) : p ∈ d := by
  induction d generalizing p with
  | nil => simp [firstMaxCount] at h
  | cons a t ih =>
    simp only [firstMaxCount] at h
    cases hb : firstMaxCount t with
    | none => simp [hb] at h; subst h; simp
    | some q =>
      simp only [hb] at h
      split at h
      · simp at h; subst h; exact List.mem_cons_of_mem _ (ih hb)
      · simp at h; subst h; simp

theorem findClosest_mem {value : Int} {l : List Int} {b : Int × Int} (h : findClosest value l = some b) : b.1 ∈ l := by
  induction l generalizing b with
  | nil => simp [findClosest] at h
  | cons v t ih =>
    simp only [findClosest] at h
    cases hb : findClosest value t with
    | none => simp [hb] at h; subst h; simp
    | some q =>
      simp only [hb] at h
      split at h
      · simp at h; subst h; exact List.mem_cons_of_mem _ (ih hb)
      · simp at h; subst h; simp

/-- what a clustered polyA / polyT position is: beyond the intron, and a recorded position or an annotated end -/
def PolyOK (Q : Int → Prop) (known : List Int) (intron : Iv) (readEnd : Bool) (pos : Int) : Prop :=
  (Q pos ∨ pos ∈ known) ∧ (readEnd = true → intron.2 < pos) ∧ (readEnd = false → pos < intron.1)

theorem polyaTop_mem (apa : Int) (known : List Int) (pos : Int) : polyaTop apa known pos = pos ∨ polyaTop apa known pos ∈ known := by
  unfold polyaTop
  split
  · rename_i b hb
    split
    · exact Or.inr (findClosest_mem hb)
    · exact Or.inl rfl
  · exact Or.inl rfl

theorem clusterPolyaLoop_ok {Q : Int → Prop} {apa : Int} {known : List Int} {intron : Iv} {readEnd : Bool}
    (fuel : Nat) (dict acc res : PosCounts) (hd : ∀ q ∈ dict, Q q.1) (ha : ∀ q ∈ acc, PolyOK Q known intron readEnd q.1)
    (h : clusterPolyaLoop apa known intron readEnd fuel dict acc = some res) :
    ∀ q ∈ res, PolyOK Q known intron readEnd q.1 := by
  induction fuel generalizing dict acc with
  | zero => simp [clusterPolyaLoop] at h
  | succ n ih =>
    simp only [clusterPolyaLoop] at h
    split at h
    · simp at h; subst h; exact ha
    · rename_i best hbest
      have hbm := firstMaxCount_mem hbest
      by_cases hassert : ((readEnd && decide (polyaTop apa known best.1 ≤ intron.2)) ||
          (!readEnd && decide (polyaTop apa known best.1 ≥ intron.1))) = true
      · rw [if_pos hassert] at h; simp at h
      · rw [if_neg hassert] at h
        refine ih _ _ (fun q hq => hd q (List.mem_filter.1 hq).1) ?_ h
        intro q hq
        rcases mem_amSet hq with h' | h'
        · subst h'
          simp only
          simp only [Bool.or_eq_true, Bool.and_eq_true, decide_eq_true_eq, Bool.not_eq_true', not_or, not_and] at hassert
          refine ⟨?_, ?_, ?_⟩
          · rcases polyaTop_mem apa known best.1 with e | e
            · rw [e]; exact Or.inl (hd best hbm)
            · exact Or.inr e
          · intro hre
            have := hassert.1 hre
            omega
          · intro hre
            have := hassert.2 hre
            omega
        · exact ha q h'

theorem clusterPolya_ok {Q : Int → Prop} {p : TermParams} {dict res : PosCounts} {intron : Iv} {readEnd : Bool} {fr : Bool}
    (hd : ∀ q ∈ dict, Q q.1) (h : clusterPolya p dict intron readEnd = some (res, fr)) :
    ∀ q ∈ res, PolyOK Q ((amGet? (if readEnd then p.knownEnds else p.knownStarts) intron).getD []) intron readEnd q.1 := by
  unfold clusterPolya at h
  split at h
  · simp at h; obtain ⟨rfl, _⟩ := h; intro q hq; cases hq
  · simp only at h
    split at h
    · simp at h
    · simp at h; obtain ⟨rfl, _⟩ := h; intro q hq; cases hq
    · rename_i a t hloop
      have hall := clusterPolyaLoop_ok (Q := Q) _ dict [] (a :: t) hd (by intro q hq; cases hq) hloop
      split at h
      · simp at h; obtain ⟨rfl, _⟩ := h; exact hall
      · simp at h; obtain ⟨rfl, _⟩ := h
        intro q hq
        exact hall q (List.mem_filter.1 hq).1

/-! ### `cluster_terminal_positions` -/

theorem foldl_max_mem (f : Int × Int → Int) (a : Int × Int) (t : PosCounts) :
    t.foldl (fun m v => max m (f v)) (f a) ∈ (a :: t).map f := by
  have key : ∀ (l : PosCounts) (m : Int), l.foldl (fun m v => max m (f v)) m = m ∨ l.foldl (fun m v => max m (f v)) m ∈ l.map f := by
    intro l
    induction l with
    | nil => intro m; exact Or.inl rfl
    | cons x xs ih =>
      intro m
      simp only [List.foldl_cons]
      rcases ih (max m (f x)) with h | h
      · rw [h]
        by_cases hm : m ≤ f x
        · right; simp [Int.max_eq_right hm]
        · left; exact Int.max_eq_left (by omega)
      · right; simp only [List.map_cons, List.mem_cons]; exact Or.inr h
  rcases key t (f a) with h | h
  · rw [h]; simp
  · simp only [List.map_cons, List.mem_cons]; exact Or.inr h

theorem foldl_min_mem (f : Int × Int → Int) (a : Int × Int) (t : PosCounts) :
    t.foldl (fun m v => min m (f v)) (f a) ∈ (a :: t).map f := by
  have key : ∀ (l : PosCounts) (m : Int), l.foldl (fun m v => min m (f v)) m = m ∨ l.foldl (fun m v => min m (f v)) m ∈ l.map f := by
    intro l
    induction l with
    | nil => intro m; exact Or.inl rfl
    | cons x xs ih =>
      intro m
      simp only [List.foldl_cons]
      rcases ih (min m (f x)) with h | h
      · rw [h]
        by_cases hm : m ≤ f x
        · left; exact Int.min_eq_left hm
        · right; simp [Int.min_eq_right (by omega : f x ≤ m)]
      · right; simp only [List.map_cons, List.mem_cons]; exact Or.inr h
  rcases key t (f a) with h | h
  · rw [h]; simp
  · simp only [List.map_cons, List.mem_cons]; exact Or.inr h

theorem clusterTerminal_ok {Q : Int → Prop} {dict : PosCounts} {readEnd : Bool} {cutoffM : Int} (hd : ∀ q ∈ dict, Q q.1) :
    ∀ q ∈ clusterTerminal dict readEnd cutoffM, Q q.1 := by
  unfold clusterTerminal
  split
  · intro q hq; cases hq
  · rename_i a t
    simp only
    split
    · intro q hq; cases hq
    · intro q hq
      simp only [List.mem_singleton] at hq
      subst hq
      simp only
      split
      · have := foldl_max_mem (·.1) a t
        simp only [List.mem_map] at this
        obtain ⟨x, hx, e⟩ := this
        unfold maxKey; rw [← e]; exact hd x hx
      · have := foldl_min_mem (·.1) a t
        simp only [List.mem_map] at this
        obtain ⟨x, hx, e⟩ := this
        unfold minKey; rw [← e]; exact hd x hx

/-! ### the operations of `attach_terminal_positions` -/

/-- what an operation produced by `attach_terminal_positions` looks like -/
def AttachOpOK (g : Graph) (p : TermParams) (reads : List Read) : Op → Prop
  | .touch v => ∃ k, (k, v) ∈ g.out ∨ (k, v) ∈ g.inc
  | .attachOut v t => v ∈ amKeys g.col.clustered ∧ v.2 < t.2 ∧
      ((t.1 = VERTEX_polya ∧ (ReadEndPos reads t.2 ∨ t.2 ∈ (amGet? p.knownEnds v).getD [])) ∨
       (t.1 = VERTEX_read_end ∧ ReadEndPos reads t.2))
  | .attachInc v t => v ∈ amKeys g.col.clustered ∧ t.2 < v.1 ∧
      ((t.1 = VERTEX_polyt ∧ (ReadStartPos reads t.2 ∨ t.2 ∈ (amGet? p.knownStarts v).getD [])) ∨
       (t.1 = VERTEX_read_start ∧ ReadStartPos reads t.2))
  | _ => False

theorem attachEnds_out_ok {g : Graph} {p : TermParams} {reads : List Read} {intron : Iv} {polyaConf readTerm : PosCounts}
    {ops : List Op} {fr : Bool} (hv : intron ∈ amKeys g.col.clustered)
    (hp : ∀ q ∈ polyaConf, intron.2 < q.1 ∧ ReadEndPos reads q.1) (hr : ∀ q ∈ readTerm, intron.2 < q.1 ∧ ReadEndPos reads q.1)
    (h : attachEnds g p intron polyaConf readTerm true = some (ops, fr)) : ∀ op ∈ ops, AttachOpOK g p reads op := by
  unfold attachEnds at h
  split at h
  · simp at h
  · rename_i clustered fr1 hcl
    simp only [Option.some.injEq, Prod.mk.injEq] at h
    obtain ⟨rfl, _⟩ := h
    have hclok := clusterPolya_ok (Q := fun pos => intron.2 < pos ∧ ReadEndPos reads pos) hp hcl
    intro op hop
    simp only [List.mem_append, List.mem_map, if_true] at hop
    rcases hop with (⟨i, hi, rfl⟩ | ⟨pos, hpos, rfl⟩) | ⟨pos, hpos, rfl⟩
    · have hi' := (List.mem_filter.1 hi).1
      simp only [outOf, List.mem_map, List.mem_filter, decide_eq_true_eq] at hi'
      obtain ⟨q, ⟨hq, hk⟩, rfl⟩ := hi'
      exact ⟨intron, Or.inl (by rw [← hk]; exact hq)⟩
    · simp only [amKeys, List.mem_map] at hpos
      obtain ⟨q, hq, rfl⟩ := hpos
      obtain ⟨h1, h2, _⟩ := hclok q hq
      refine ⟨hv, h2 rfl, Or.inl ⟨rfl, ?_⟩⟩
      rcases h1 with h1 | h1
      · exact Or.inl h1.2
      · exact Or.inr (by simpa using h1)
    · simp only [amKeys, List.mem_map] at hpos
      obtain ⟨q, hq, rfl⟩ := hpos
      have hextra : ∀ x ∈ (match clustered with
          | [] => readTerm
          | a :: t => if true = true then readTerm.filter (fun kv => decide (kv.1 ≥ maxKey a t + p.apaDelta))
                      else readTerm.filter (fun kv => decide (kv.1 ≤ minKey a t - p.apaDelta))), intron.2 < x.1 ∧ ReadEndPos reads x.1 := by
        intro x hx
        split at hx
        · exact hr x hx
        · simp only [if_true] at hx
          exact hr x (List.mem_filter.1 hx).1
      have := clusterTerminal_ok (Q := fun pos => intron.2 < pos ∧ ReadEndPos reads pos) hextra q hq
      exact ⟨hv, this.1, Or.inr ⟨rfl, this.2⟩⟩

theorem attachEnds_inc_ok {g : Graph} {p : TermParams} {reads : List Read} {intron : Iv} {polyaConf readTerm : PosCounts}
    {ops : List Op} {fr : Bool} (hv : intron ∈ amKeys g.col.clustered)
    (hp : ∀ q ∈ polyaConf, q.1 < intron.1 ∧ ReadStartPos reads q.1) (hr : ∀ q ∈ readTerm, q.1 < intron.1 ∧ ReadStartPos reads q.1)
    (h : attachEnds g p intron polyaConf readTerm false = some (ops, fr)) : ∀ op ∈ ops, AttachOpOK g p reads op := by
  unfold attachEnds at h
  split at h
  · simp at h
  · rename_i clustered fr1 hcl
    simp only [Option.some.injEq, Prod.mk.injEq] at h
    obtain ⟨rfl, _⟩ := h
    have hclok := clusterPolya_ok (Q := fun pos => pos < intron.1 ∧ ReadStartPos reads pos) hp hcl
    intro op hop
    simp only [List.mem_append, List.mem_map, Bool.false_eq_true, if_false] at hop
    rcases hop with (⟨i, hi, rfl⟩ | ⟨pos, hpos, rfl⟩) | ⟨pos, hpos, rfl⟩
    · have hi' := (List.mem_filter.1 hi).1
      simp only [incOf, List.mem_map, List.mem_filter, decide_eq_true_eq] at hi'
      obtain ⟨q, ⟨hq, hk⟩, rfl⟩ := hi'
      exact ⟨intron, Or.inr (by rw [← hk]; exact hq)⟩
    · simp only [amKeys, List.mem_map] at hpos
      obtain ⟨q, hq, rfl⟩ := hpos
      obtain ⟨h1, _, h3⟩ := hclok q hq
      refine ⟨hv, h3 rfl, Or.inl ⟨rfl, ?_⟩⟩
      rcases h1 with h1 | h1
      · exact Or.inl h1.2
      · exact Or.inr (by simpa using h1)
    · simp only [amKeys, List.mem_map] at hpos
      obtain ⟨q, hq, rfl⟩ := hpos
      have hextra : ∀ x ∈ (match clustered with
          | [] => readTerm
          | a :: t => if false = true then readTerm.filter (fun kv => decide (kv.1 ≥ maxKey a t + p.apaDelta))
                      else readTerm.filter (fun kv => decide (kv.1 ≤ minKey a t - p.apaDelta))), x.1 < intron.1 ∧ ReadStartPos reads x.1 := by
        intro x hx
        split at hx
        · exact hr x hx
        · simp only [Bool.false_eq_true, if_false] at hx
          exact hr x (List.mem_filter.1 hx).1
      have := clusterTerminal_ok (Q := fun pos => pos < intron.1 ∧ ReadStartPos reads pos) hextra q hq
      exact ⟨hv, this.1, Or.inr ⟨rfl, this.2⟩⟩

theorem attachTerminalOps_ok {g : Graph} {p : TermParams} {reads : List Read} {ops : List Op} {fr : Bool}
    (h : attachTerminalOps g p reads = some (ops, fr)) : ∀ op ∈ ops, AttachOpOK g p reads op := by
  unfold attachTerminalOps at h
  split at h
  · simp at h
  · rename_i t ht
    have hok := collectTerminals_ok ht
    have := foldlM_option_inv (fun (acc : List Op × Bool) => ∀ op ∈ acc.1, AttachOpOK g p reads op) (attachIntron g p t)
      (sortIv (amKeys g.col.clustered)) ([], false) (ops, fr) (by intro op hop; simp at hop) ?_ h
    · exact this
    · intro acc intron acc' hin hacc hstep
      have hv : intron ∈ amKeys g.col.clustered := mem_sortIv.1 hin
      unfold attachIntron at hstep
      split at hstep
      · simp at hstep
      · rename_i o1 f1 h1
        split at hstep
        · simp at hstep
        · rename_i o2 f2 h2
          simp at hstep; subst hstep
          intro op hop
          have hop' : op ∈ acc.1 ∨ op ∈ o1 ∨ op ∈ o2 := by
            simpa [List.mem_append] using hop
          rcases hop' with hop | hop | hop
          · exact hacc op hop
          · exact attachEnds_out_ok hv (table_lookup_ok hok.polya intron) (table_lookup_ok hok.rend intron) h1 op hop
          · exact attachEnds_inc_ok hv (table_lookup_ok hok.polyt intron) (table_lookup_ok hok.rstart intron) h2 op hop

/-- applying touches and attachments only adds the attached pairs to the edge lists and leaves the correction map alone -/
theorem foldlM_attach_edges {g g' : Graph} {p : TermParams} {reads : List Read} (g0 : Graph) (ops : List Op)
    (hops : ∀ op ∈ ops, AttachOpOK g0 p reads op) (h : ops.foldlM applyOp g = some g') :
    (∀ k t, (k, t) ∈ g'.out → (k, t) ∈ g.out ∨ Op.attachOut k t ∈ ops) ∧
    (∀ k t, (k, t) ∈ g'.inc → (k, t) ∈ g.inc ∨ Op.attachInc k t ∈ ops) ∧
    g'.col.corr = g.col.corr ∧ g'.col.discarded = g.col.discarded := by
  induction ops generalizing g with
  | nil => simp [List.foldlM] at h; subst h; exact ⟨fun _ _ h => Or.inl h, fun _ _ h => Or.inl h, rfl, rfl⟩
  | cons op rest ih =>
    simp only [List.foldlM_cons] at h
    cases ha : applyOp g op with
    | none => simp [ha] at h
    | some g1 =>
      simp only [ha, Option.bind_eq_bind, Option.bind_some] at h
      obtain ⟨i1, i2, i3, i4⟩ := ih (fun o ho => hops o (by simp [ho])) h
      have hop := hops op (by simp)
      cases op with
      | touch v =>
        simp [applyOp] at ha; subst ha
        refine ⟨fun k t hk => ?_, fun k t hk => ?_, ?_, ?_⟩
        · rcases i1 k t hk with h' | h'
          · exact Or.inl h'
          · exact Or.inr (by simp [h'])
        · rcases i2 k t hk with h' | h'
          · exact Or.inl h'
          · exact Or.inr (by simp [h'])
        · rw [i3]; simp only [Collector.touch]; split <;> rfl
        · rw [i4]; simp only [Collector.touch]; split <;> rfl
      | attachOut v tv =>
        simp [applyOp] at ha; subst ha
        refine ⟨fun k t hk => ?_, fun k t hk => ?_, i3, i4⟩
        · rcases i1 k t hk with h' | h'
          · rcases mem_setAdd.1 h' with h'' | h''
            · exact Or.inl h''
            · simp only [Prod.mk.injEq] at h''; obtain ⟨rfl, rfl⟩ := h''; exact Or.inr (by simp)
          · exact Or.inr (by simp [h'])
        · rcases i2 k t hk with h' | h'
          · exact Or.inl h'
          · exact Or.inr (by simp [h'])
      | attachInc v tv =>
        simp [applyOp] at ha; subst ha
        refine ⟨fun k t hk => ?_, fun k t hk => ?_, i3, i4⟩
        · rcases i1 k t hk with h' | h'
          · exact Or.inl h'
          · exact Or.inr (by simp [h'])
        · rcases i2 k t hk with h' | h'
          · rcases mem_setAdd.1 h' with h'' | h''
            · exact Or.inl h''
            · simp only [Prod.mk.injEq] at h''; obtain ⟨rfl, rfl⟩ := h''; exact Or.inr (by simp)
          · exact Or.inr (by simp [h'])
      | addEdge _ _ => exact absurd hop (by simp [AttachOpOK])
      | collapse _ _ => exact absurd hop (by simp [AttachOpOK])
      | delVertex _ => exact absurd hop (by simp [AttachOpOK])
      | delOut _ => exact absurd hop (by simp [AttachOpOK])
      | delInc _ => exact absurd hop (by simp [AttachOpOK])
      | discard _ => exact absurd hop (by simp [AttachOpOK])
      | simplifyMap => exact absurd hop (by simp [AttachOpOK])

/-! ### before `attach_terminal_positions` the edge sets hold intron vertices only -/

/-- every member of every edge set is an intron vertex -/
def NoTerm (g : Graph) : Prop := (∀ p ∈ g.out, isIntronVertex p.2 = true) ∧ (∀ p ∈ g.inc, isIntronVertex p.2 = true)

def notAttach : Op → Bool
  | .attachOut _ _ => false
  | .attachInc _ _ => false
  | _ => true

theorem replaceMembers_members {P : Iv → Prop} (ks : List Iv) {m m' : List (Iv × Iv)} {c s : Iv} (hm : ∀ p ∈ m, P p.2)
    (hs : P s) (h : replaceMembers m c s ks = some m') : ∀ p ∈ m', P p.2 := by
  induction ks generalizing m with
  | nil => simp [replaceMembers] at h; subst h; exact hm
  | cons k t ih =>
    simp only [replaceMembers] at h
    split at h
    · simp at h
    · rename_i m1 hm1
      refine ih ?_ h
      unfold replaceMember at hm1
      split at hm1
      · simp at hm1; subst hm1
        intro p hp
        rcases mem_setAdd.1 hp with h' | h'
        · exact hm p (List.mem_filter.1 h').1
        · subst h'; exact hs
      · simp at hm1

theorem foldl_setAdd_members {P : Iv → Prop} (l : List Iv) (s : Iv) (m : List (Iv × Iv)) (hm : ∀ p ∈ m, P p.2)
    (hl : ∀ i ∈ l, P i) : ∀ p ∈ l.foldl (fun m i => setAdd m (s, i)) m, P p.2 := by
  induction l generalizing m with
  | nil => simpa using hm
  | cons a t ih =>
    simp only [List.foldl_cons]
    refine ih _ ?_ (fun i hi => hl i (by simp [hi]))
    intro p hp
    rcases mem_setAdd.1 hp with h' | h'
    · exact hm p h'
    · subst h'; exact hl a (by simp)

theorem applyOp_noTerm {obs : List Iv} (hpos : ∀ v ∈ obs, 0 ≤ v.1) {g g' : Graph} (hsub : GSub g (fun v => v ∈ obs))
    (hn : NoTerm g) (op : Op) (hsc : opScoped obs g op = true) (hna : notAttach op = true) (h : applyOp g op = some g') :
    NoTerm g' := by
  have hv := (gsub_iff g (fun v => v ∈ obs)).1 hsub
  have hint : ∀ v ∈ obs, isIntronVertex v = true := fun v hv' => by simpa [isIntronVertex] using hpos v hv'
  cases op with
  | addEdge v1 v2 =>
    simp [applyOp] at h; subst h
    simp [opScoped] at hsc
    have a := hint _ (substitute_sub hsub.col (P := fun v => v ∈ obs) hsc.1)
    have b := hint _ (substitute_sub hsub.col (P := fun v => v ∈ obs) hsc.2)
    constructor
    · intro p hp
      simp only [Graph.addEdge] at hp
      rcases mem_setAdd.1 hp with h' | h'
      · exact hn.1 p h'
      · subst h'; exact b
    · intro p hp
      simp only [Graph.addEdge] at hp
      rcases mem_setAdd.1 hp with h' | h'
      · exact hn.2 p h'
      · subst h'; exact a
  | collapse c s =>
    simp [opScoped] at hsc
    have hs := hint _ (hv _ hsc.2)
    simp only [applyOp] at h
    unfold Graph.collapseVertex at h
    simp only at h
    split at h
    · simp at h
    · rename_i inc1 hinc1
      split at h
      · simp at h
      · rename_i out2 hout2
        simp at h; subst h
        have hinc1' := replaceMembers_members (P := fun v => isIntronVertex v = true) _ hn.2 hs hinc1
        have hout1 := foldl_setAdd_members (P := fun v => isIntronVertex v = true) (outOf g c) s g.out hn.1
          (by intro i hi; simp only [outOf, List.mem_map, List.mem_filter] at hi; obtain ⟨q, ⟨hq, _⟩, rfl⟩ := hi; exact hn.1 q hq)
        constructor
        · exact replaceMembers_members (P := fun v => isIntronVertex v = true) _ hout1 hs hout2
        · exact foldl_setAdd_members (P := fun v => isIntronVertex v = true) _ s inc1 hinc1'
            (by intro i hi; simp only [List.mem_map, List.mem_filter] at hi; obtain ⟨q, ⟨hq, _⟩, rfl⟩ := hi; exact hinc1' q hq)
  | delVertex v => simp [applyOp] at h; subst h; exact ⟨fun p hp => hn.1 p (List.mem_filter.1 hp).1, fun p hp => hn.2 p (List.mem_filter.1 hp).1⟩
  | delOut v => simp [applyOp] at h; subst h; exact ⟨fun p hp => hn.1 p (List.mem_filter.1 hp).1, hn.2⟩
  | delInc v => simp [applyOp] at h; subst h; exact ⟨hn.1, fun p hp => hn.2 p (List.mem_filter.1 hp).1⟩
  | discard v => simp [applyOp] at h; subst h; exact hn
  | touch v => simp [applyOp] at h; subst h; exact hn
  | simplifyMap =>
    simp only [applyOp, Option.map_eq_some_iff] at h
    obtain ⟨c', _, rfl⟩ := h
    exact hn
  | attachOut v t => simp [notAttach] at hna
  | attachInc v t => simp [notAttach] at hna

theorem runOps_noTerm {obs : List Iv} (hpos : ∀ v ∈ obs, 0 ≤ v.1) (ops : List Op) {g g' : Graph}
    (hsub : GSub g (fun v => v ∈ obs)) (hn : NoTerm g) (hna : ∀ op ∈ ops, notAttach op = true)
    (h : runOps obs g ops = some g') : NoTerm g' ∧ GSub g' (fun v => v ∈ obs) := by
  induction ops generalizing g with
  | nil => simp [runOps] at h; subst h; exact ⟨hn, hsub⟩
  | cons op t ih =>
    simp only [runOps] at h
    split at h
    · rename_i hsc
      split at h
      · simp at h
      · rename_i g1 hg1
        have hs1 : GSub g1 (fun v => v ∈ obs) := by
          apply runOps_gsub [op] hsub
          simp only [runOps, hsc, if_true, hg1]
        exact ih hs1 (applyOp_noTerm hpos hsub hn op hsc (hna op (by simp)) hg1) (fun o ho => hna o (by simp [ho])) h
    · simp at h

/-! ### the operations of `attach_terminal_positions` are scoped: applying them is a history in the sense of `runOps` -/

theorem verts_mono_attach {g g1 : Graph} {op : Op} (hk : notAttach op = false ∨ ∃ v, op = Op.touch v)
    (h : applyOp g op = some g1) : ∀ v ∈ g.verts, v ∈ g1.verts := by
  intro v hv
  rcases hk with hk | ⟨w, rfl⟩
  · cases op <;> simp [notAttach] at hk
    · simp [applyOp] at h; subst h
      simp only [Graph.verts, List.mem_append, List.mem_filter, amKeys, amVals, List.mem_map] at hv ⊢
      rcases hv with hv | ⟨hv, hi⟩
      · exact Or.inl hv
      · refine Or.inr ⟨?_, hi⟩
        rcases hv with ((⟨q, hq, e⟩ | ⟨q, hq, e⟩) | hv) | hv
        · exact Or.inl (Or.inl (Or.inl ⟨q, mem_setAdd.2 (Or.inl hq), e⟩))
        · exact Or.inl (Or.inl (Or.inr ⟨q, mem_setAdd.2 (Or.inl hq), e⟩))
        · exact Or.inl (Or.inr hv)
        · exact Or.inr hv
    · simp [applyOp] at h; subst h
      simp only [Graph.verts, List.mem_append, List.mem_filter, amKeys, amVals, List.mem_map] at hv ⊢
      rcases hv with hv | ⟨hv, hi⟩
      · exact Or.inl hv
      · refine Or.inr ⟨?_, hi⟩
        rcases hv with ((hv | hv) | ⟨q, hq, e⟩) | ⟨q, hq, e⟩
        · exact Or.inl (Or.inl (Or.inl hv))
        · exact Or.inl (Or.inl (Or.inr hv))
        · exact Or.inl (Or.inr ⟨q, mem_setAdd.2 (Or.inl hq), e⟩)
        · exact Or.inr ⟨q, mem_setAdd.2 (Or.inl hq), e⟩
  · simp [applyOp] at h; subst h
    simp only [Graph.verts, Collector.verts, List.mem_append] at hv ⊢
    rcases hv with (((hv | hv) | hv) | hv) | hv
    · refine Or.inl (Or.inl (Or.inl (Or.inl ?_)))
      unfold Collector.touch
      split
      · exact hv
      · simp only [amKeys, List.mem_map] at hv ⊢
        obtain ⟨q, hq, e⟩ := hv
        have : amGet? g.col.clustered q.1 ≠ none := by
          intro hn; exact amGet?_none hn q hq rfl
        cases hg : amGet? g.col.clustered q.1 with
        | none => exact absurd hg this
        | some c =>
          refine ⟨(q.1, c), ?_, e⟩
          have hne : q.1 ≠ w := by
            intro he; rename_i hh; rw [he] at hg; simp [amHas, hg] at hh
          have := amGet?_amSet_ne g.col.clustered w q.1 (0 : Int) hne
          exact amGet?_mem (by rw [this]; exact hg)
    · exact Or.inl (Or.inl (Or.inl (Or.inr (by unfold Collector.touch; split <;> exact hv))))
    · exact Or.inl (Or.inl (Or.inr (by unfold Collector.touch; split <;> exact hv)))
    · exact Or.inl (Or.inr (by unfold Collector.touch; split <;> exact hv))
    · exact Or.inr hv

/-- scoping of the attach operations relative to a fixed earlier graph `g0` without terminal vertices -/
theorem attachOp_scoped {obs : List Iv} {g0 g : Graph} {p : TermParams} {reads : List Read} (hn : NoTerm g0)
    (hsubv : ∀ v ∈ g0.verts, v ∈ g.verts) {op : Op} (hop : AttachOpOK g0 p reads op) : opScoped obs g op = true := by
  have hclust : ∀ v, v ∈ amKeys g0.col.clustered → v ∈ g0.verts := by
    intro v hv
    simp only [Graph.verts, Collector.verts, List.mem_append]
    exact Or.inl (Or.inl (Or.inl (Or.inl hv)))
  cases op with
  | touch v =>
    obtain ⟨k, hk⟩ := hop
    simp only [opScoped, decide_eq_true_eq]
    apply hsubv
    simp only [Graph.verts, List.mem_append, List.mem_filter, amKeys, amVals, List.mem_map]
    rcases hk with hk | hk
    · exact Or.inr ⟨Or.inl (Or.inl (Or.inr ⟨(k, v), hk, rfl⟩)), hn.1 _ hk⟩
    · exact Or.inr ⟨Or.inr ⟨(k, v), hk, rfl⟩, hn.2 _ hk⟩
  | attachOut v t =>
    obtain ⟨hv, _, hc⟩ := hop
    simp only [opScoped, Bool.and_eq_true, decide_eq_true_eq, Bool.not_eq_true']
    refine ⟨hsubv v (hclust v hv), ?_⟩
    rcases hc with ⟨e, _⟩ | ⟨e, _⟩ <;> simp [isIntronVertex, e, VERTEX_polya, VERTEX_read_end]
  | attachInc v t =>
    obtain ⟨hv, _, hc⟩ := hop
    simp only [opScoped, Bool.and_eq_true, decide_eq_true_eq, Bool.not_eq_true']
    refine ⟨hsubv v (hclust v hv), ?_⟩
    rcases hc with ⟨e, _⟩ | ⟨e, _⟩ <;> simp [isIntronVertex, e, VERTEX_polyt, VERTEX_read_start]
  | addEdge _ _ => exact absurd hop (by simp [AttachOpOK])
  | collapse _ _ => exact absurd hop (by simp [AttachOpOK])
  | delVertex _ => exact absurd hop (by simp [AttachOpOK])
  | delOut _ => exact absurd hop (by simp [AttachOpOK])
  | delInc _ => exact absurd hop (by simp [AttachOpOK])
  | discard _ => exact absurd hop (by simp [AttachOpOK])
  | simplifyMap => exact absurd hop (by simp [AttachOpOK])

theorem runOps_of_attach {obs : List Iv} {g0 : Graph} {p : TermParams} {reads : List Read} (hn : NoTerm g0)
    (ops : List Op) (hops : ∀ op ∈ ops, AttachOpOK g0 p reads op) (g : Graph) (hsubv : ∀ v ∈ g0.verts, v ∈ g.verts) :
    runOps obs g ops = ops.foldlM applyOp g := by
  induction ops generalizing g with
  | nil => rfl
  | cons op rest ih =>
    have hop := hops op (by simp)
    simp only [runOps, List.foldlM_cons, attachOp_scoped (obs := obs) hn hsubv hop, if_true]
    cases ha : applyOp g op with
    | none => rfl
    | some g1 =>
      simp only [Option.bind_eq_bind, Option.bind_some]
      refine ih (fun o ho => hops o (by simp [ho])) g1 ?_
      intro v hv
      refine verts_mono_attach ?_ ha v (hsubv v hv)
      cases op with
      | touch w => exact Or.inr ⟨w, rfl⟩
      | attachOut _ _ => exact Or.inl rfl
      | attachInc _ _ => exact Or.inl rfl
      | addEdge _ _ => exact absurd hop (by simp [AttachOpOK])
      | collapse _ _ => exact absurd hop (by simp [AttachOpOK])
      | delVertex _ => exact absurd hop (by simp [AttachOpOK])
      | delOut _ => exact absurd hop (by simp [AttachOpOK])
      | delInc _ => exact absurd hop (by simp [AttachOpOK])
      | discard _ => exact absurd hop (by simp [AttachOpOK])
      | simplifyMap => exact absurd hop (by simp [AttachOpOK])

end IsoVerif.Lemmas.C04
