/-
C11 helper lemmas — reflection of `merge_ranges` (Model/Interval.lean).

Covering the same positions does not determine a sorted disjoint list (touching blocks (1,2),(3,4) are not merged by
`merge_ranges`), so C19's `merge_cov` is sharpened: `lnk l p` says that `p` and `p + 1` lie in the SAME block of `l`.
The loop invariant of Lemmas/Merge.lean is repeated for `lnk` (the result links two neighbouring positions iff an input
block does); a sorted disjoint well-formed list is determined by its `cov` and `lnk` sets (`SD_ext`), and both sets are
mirror-symmetric.
-/
import IsoVerif.Gen.Prims
import IsoVerif.Model.Interval
import IsoVerif.Model.C11Symmetry
import IsoVerif.Lemmas.C11Mirror
import IsoVerif.Lemmas.Merge
import IsoVerif.Lemmas.MergeSorted

namespace IsoVerif.Lemmas.C11.Lists
open IsoVerif.Gen IsoVerif.Model IsoVerif.Model.C11 IsoVerif.Lemmas

/-- positions `p` and `p + 1` lie in the same block of the list -/
def lnk (l : List Iv) (p : Int) : Prop := ∃ r ∈ l, r.1 ≤ p ∧ p + 1 ≤ r.2

theorem lnk_nil (p : Int) : ¬ lnk [] p := by simp [lnk]

theorem lnk_cons (a : Iv) (l : List Iv) (p : Int) : lnk (a :: l) p ↔ (a.1 ≤ p ∧ p + 1 ≤ a.2) ∨ lnk l p := by
  simp [lnk]

theorem lnk_reverse (l : List Iv) (p : Int) : lnk l.reverse p ↔ lnk l p := by simp [lnk]

theorem lnk_of_headContains {acc : List Iv} {a : Iv} (h : headContains acc a) (p : Int) (hp : a.1 ≤ p ∧ p + 1 ≤ a.2) :
    lnk acc p := by
  obtain ⟨l, t, rfl, h1, h2⟩ := h
  exact ⟨l, by simp, by omega, by omega⟩

theorem tailAppend_lnk (inc : Bool) (acc l : List Iv) (p : Int)
    (hI : inc = true → ∀ a ∈ l.head?, headContains acc a) :
    lnk (tailAppend inc acc l) p ↔ lnk acc p ∨ lnk l p := by
  induction l generalizing inc acc with
  | nil => simp [tailAppend, lnk_nil]
  | cons a t ih =>
    simp only [tailAppend]
    rw [ih false _ (by simp)]
    cases inc with
    | true =>
      simp only [if_true]
      have hc := hI rfl a (by simp)
      rw [lnk_cons]
      constructor
      · rintro (h | h); exact Or.inl h; exact Or.inr (Or.inr h)
      · rintro (h | h | h)
        · exact Or.inl h
        · exact Or.inl (lnk_of_headContains hc p h)
        · exact Or.inr h
    | false =>
      simp only [Bool.false_eq_true, if_false]
      rw [lnk_cons, lnk_cons]
      constructor
      · rintro ((h | h) | h); exact Or.inr (Or.inl h); exact Or.inl h; exact Or.inr (Or.inr h)
      · rintro (h | h | h); exact Or.inl (Or.inr h); exact Or.inl (Or.inl h); exact Or.inr h

/-- generalised invariant of the main loop of `merge_ranges`: the loop succeeds and the blocks it returns
    cover exactly what the accumulator and the two remaining lists cover -/
theorem mergeLoop_lnk (l1 : List Iv) (i1 : Bool) (l2 : List Iv) (i2 : Bool) (acc : List Iv)
    (h1 : SD l1) (h2 : SD l2) (w1 : WFl l1) (w2 : WFl l2)
    (hn : ¬(i1 = true ∧ i2 = true))
    (hI1 : i1 = true → ∀ a ∈ l1.head?, headContains acc a ∧ ∀ b ∈ l2.head?, a.1 < b.1)
    (hI2 : i2 = true → ∀ b ∈ l2.head?, headContains acc b ∧ ∀ a ∈ l1.head?, b.1 < a.1) :
    ∃ res, mergeLoop l1 i1 l2 i2 acc = some res ∧ ∀ p, lnk res p ↔ lnk acc p ∨ lnk l1 p ∨ lnk l2 p := by
  fun_induction mergeLoop l1 i1 l2 i2 acc with
  | case1 i1 l2 i2 acc =>
    refine ⟨_, rfl, fun p => ?_⟩
    rw [tailAppend_lnk i2 acc l2 p (fun hi b hb => (hI2 hi b hb).1)]
    simp [lnk_nil]
  | case2 a as i1 i2 acc =>
    refine ⟨_, rfl, fun p => ?_⟩
    rw [tailAppend_lnk i1 acc (a :: as) p (fun hi x hx => (hI1 hi x hx).1)]
    simp [lnk_nil]
  | case3 a as i1 b bs i2 acc hov hboth =>
    exfalso; apply hn; simpa using hboth
  | case4 a as i1 b bs i2 acc hov hboth hacc =>
    -- bumpLast on an empty accumulator: impossible, a flag is set only when the accumulator is non-empty
    exfalso
    simp only [ovAcc] at hacc
    cases i1 <;> cases i2 <;> simp at hacc hn
    · obtain ⟨l, t, rfl, _⟩ := (hI2 rfl b (by simp)).1
      simp [bumpLast] at hacc
    · obtain ⟨l, t, rfl, _⟩ := (hI1 rfl a (by simp)).1
      simp [bumpLast] at hacc
  | case5 a as i1 b bs i2 acc hov hboth acc' hacc hlt ih =>
    have ha := WFl_head w1
    have hb := WFl_head w2
    simp [overlaps] at hov
    have key : headContains acc' a ∧ ∀ p, lnk acc' p ↔ lnk acc p ∨ (a.1 ≤ p ∧ p + 1 ≤ a.2) ∨ (b.1 ≤ p ∧ p + 1 ≤ b.2) := by
      simp only [ovAcc] at hacc
      cases i1 <;> cases i2 <;> simp at hacc hn
      · subst hacc
        refine ⟨⟨_, _, rfl, by simp; omega, by simp; omega⟩, fun p => ?_⟩
        rw [lnk_cons]; simp only; generalize lnk acc p = C; by_cases hC : C <;> simp [hC] <;> omega
      · obtain ⟨⟨l, t, rfl, hl1, hl2⟩, hlt'⟩ := hI2 rfl b (by simp)
        have := hlt' a (by simp)
        simp [bumpLast] at hacc; subst hacc
        refine ⟨⟨_, _, rfl, by simp; omega, by simp; omega⟩, fun p => ?_⟩
        rw [lnk_cons, lnk_cons]; simp only; generalize lnk t p = C; by_cases hC : C <;> simp [hC] <;> omega
      · obtain ⟨⟨l, t, rfl, hl1, hl2⟩, hlt'⟩ := hI1 rfl a (by simp)
        have := hlt' b (by simp)
        simp [bumpLast] at hacc; subst hacc
        refine ⟨⟨_, _, rfl, by simp; omega, by simp; omega⟩, fun p => ?_⟩
        rw [lnk_cons, lnk_cons]; simp only; generalize lnk t p = C; by_cases hC : C <;> simp [hC] <;> omega
    obtain ⟨res, hres, hlnk⟩ := ih h1 (SD_tail h2) w1 (WFl_tail w2) (by simp)
      (by intro _ x hx; simp at hx; subst hx
          refine ⟨key.1, fun y hy => ?_⟩
          have := SD_all_right h2 w2 y (by cases bs <;> simp_all)
          omega)
      (by simp)
    refine ⟨res, hres, fun p => ?_⟩
    rw [hlnk p, key.2 p, lnk_cons a as, lnk_cons b bs]
    constructor
    · rintro ((h | h | h) | (h | h) | h)
      · exact Or.inl h
      · exact Or.inr (Or.inl (Or.inl h))
      · exact Or.inr (Or.inr (Or.inl h))
      · exact Or.inr (Or.inl (Or.inl h))
      · exact Or.inr (Or.inl (Or.inr h))
      · exact Or.inr (Or.inr (Or.inr h))
    · rintro (h | (h | h) | (h | h))
      · exact Or.inl (Or.inl h)
      · exact Or.inl (Or.inr (Or.inl h))
      · exact Or.inr (Or.inl (Or.inr h))
      · exact Or.inl (Or.inr (Or.inr h))
      · exact Or.inr (Or.inr h)
  | case6 a as i1 b bs i2 acc hov hboth acc' hacc hlt ih =>
    have ha := WFl_head w1
    have hb := WFl_head w2
    simp [overlaps] at hov
    have key : headContains acc' b ∧ ∀ p, lnk acc' p ↔ lnk acc p ∨ (a.1 ≤ p ∧ p + 1 ≤ a.2) ∨ (b.1 ≤ p ∧ p + 1 ≤ b.2) := by
      simp only [ovAcc] at hacc
      cases i1 <;> cases i2 <;> simp at hacc hn
      · subst hacc
        refine ⟨⟨_, _, rfl, by simp; omega, by simp; omega⟩, fun p => ?_⟩
        rw [lnk_cons]; simp only; generalize lnk acc p = C; by_cases hC : C <;> simp [hC] <;> omega
      · obtain ⟨⟨l, t, rfl, hl1, hl2⟩, hlt'⟩ := hI2 rfl b (by simp)
        have := hlt' a (by simp)
        simp [bumpLast] at hacc; subst hacc
        refine ⟨⟨_, _, rfl, by simp; omega, by simp; omega⟩, fun p => ?_⟩
        rw [lnk_cons, lnk_cons]; simp only; generalize lnk t p = C; by_cases hC : C <;> simp [hC] <;> omega
      · obtain ⟨⟨l, t, rfl, hl1, hl2⟩, hlt'⟩ := hI1 rfl a (by simp)
        have := hlt' b (by simp)
        simp [bumpLast] at hacc; subst hacc
        refine ⟨⟨_, _, rfl, by simp; omega, by simp; omega⟩, fun p => ?_⟩
        rw [lnk_cons, lnk_cons]; simp only; generalize lnk t p = C; by_cases hC : C <;> simp [hC] <;> omega
    obtain ⟨res, hres, hlnk⟩ := ih (SD_tail h1) h2 (WFl_tail w1) w2 (by simp) (by simp)
      (by intro _ y hy; simp at hy; subst hy
          refine ⟨key.1, fun x hx => ?_⟩
          have := SD_all_right h1 w1 x (by cases as <;> simp_all)
          omega)
    refine ⟨res, hres, fun p => ?_⟩
    rw [hlnk p, key.2 p, lnk_cons a as, lnk_cons b bs]
    constructor
    · rintro ((h | h | h) | h | (h | h))
      · exact Or.inl h
      · exact Or.inr (Or.inl (Or.inl h))
      · exact Or.inr (Or.inr (Or.inl h))
      · exact Or.inr (Or.inl (Or.inr h))
      · exact Or.inr (Or.inr (Or.inl h))
      · exact Or.inr (Or.inr (Or.inr h))
    · rintro (h | (h | h) | (h | h))
      · exact Or.inl (Or.inl h)
      · exact Or.inl (Or.inr (Or.inl h))
      · exact Or.inr (Or.inl h)
      · exact Or.inl (Or.inr (Or.inr h))
      · exact Or.inr (Or.inr (Or.inr h))
  | case7 a as i1 b bs i2 acc hov hlo ih =>
    have ha := WFl_head w1
    have hb := WFl_head w2
    simp [left_of] at hlo
    have hni1 : i1 = false := by
      cases i1 with
      | false => rfl
      | true => exfalso; have := (hI1 rfl a (by simp)).2 b (by simp); omega
    subst hni1
    cases i2 with
    | true =>
      have hc := (hI2 rfl b (by simp)).1
      simp only [↓reduceDIte, ↓reduceIte] at ih ⊢
      obtain ⟨res, hres, hlnk⟩ := ih h1 (SD_tail h2) w1 (WFl_tail w2) (by simp) (by simp) (by simp)
      refine ⟨res, hres, fun p => ?_⟩
      rw [hlnk p, lnk_cons b bs]
      constructor
      · rintro (h | h | h)
        · exact Or.inl h
        · exact Or.inr (Or.inl h)
        · exact Or.inr (Or.inr (Or.inr h))
      · rintro (h | h | (h | h))
        · exact Or.inl h
        · exact Or.inr (Or.inl h)
        · exact Or.inl (lnk_of_headContains hc p h)
        · exact Or.inr (Or.inr h)
    | false =>
      simp only [Bool.false_eq_true, ↓reduceDIte, ↓reduceIte] at ih ⊢
      obtain ⟨res, hres, hlnk⟩ := ih h1 (SD_tail h2) w1 (WFl_tail w2) (by simp) (by simp) (by simp)
      refine ⟨res, hres, fun p => ?_⟩
      rw [hlnk p, lnk_cons b bs, lnk_cons b acc]
      constructor
      · rintro ((h | h) | h | h)
        · exact Or.inr (Or.inr (Or.inl h))
        · exact Or.inl h
        · exact Or.inr (Or.inl h)
        · exact Or.inr (Or.inr (Or.inr h))
      · rintro (h | h | (h | h))
        · exact Or.inl (Or.inr h)
        · exact Or.inr (Or.inl h)
        · exact Or.inl (Or.inl h)
        · exact Or.inr (Or.inr h)
  | case8 a as i1 b bs i2 acc hov hlo ih =>
    have ha := WFl_head w1
    have hb := WFl_head w2
    simp [left_of] at hlo
    simp [overlaps] at hov
    have hni2 : i2 = false := by
      cases i2 with
      | false => rfl
      | true => exfalso; have := (hI2 rfl b (by simp)).2 a (by simp); omega
    subst hni2
    cases i1 with
    | true =>
      have hc := (hI1 rfl a (by simp)).1
      simp only [↓reduceDIte, ↓reduceIte] at ih ⊢
      obtain ⟨res, hres, hlnk⟩ := ih (SD_tail h1) h2 (WFl_tail w1) w2 (by simp) (by simp) (by simp)
      refine ⟨res, hres, fun p => ?_⟩
      rw [hlnk p, lnk_cons a as]
      constructor
      · rintro (h | h | h)
        · exact Or.inl h
        · exact Or.inr (Or.inl (Or.inr h))
        · exact Or.inr (Or.inr h)
      · rintro (h | (h | h) | h)
        · exact Or.inl h
        · exact Or.inl (lnk_of_headContains hc p h)
        · exact Or.inr (Or.inl h)
        · exact Or.inr (Or.inr h)
    | false =>
      simp only [Bool.false_eq_true, ↓reduceDIte, ↓reduceIte] at ih ⊢
      obtain ⟨res, hres, hlnk⟩ := ih (SD_tail h1) h2 (WFl_tail w1) w2 (by simp) (by simp) (by simp)
      refine ⟨res, hres, fun p => ?_⟩
      rw [hlnk p, lnk_cons a as, lnk_cons a acc]
      constructor
      · rintro ((h | h) | h | h)
        · exact Or.inr (Or.inl (Or.inl h))
        · exact Or.inl h
        · exact Or.inr (Or.inl (Or.inr h))
        · exact Or.inr (Or.inr h)
      · rintro (h | (h | h) | h)
        · exact Or.inl (Or.inr h)
        · exact Or.inl (Or.inl h)
        · exact Or.inr (Or.inl h)
        · exact Or.inr (Or.inr h)


/-! ### complete specification of `merge_ranges`, and why it determines the result -/

theorem mergeRanges_nil_nil : mergeRanges [] [] = none := by decide +kernel

/-- `merge_ranges` on sorted disjoint lists (not both empty): sorted disjoint blocks covering the union of the
    positions, two neighbouring positions being in one block iff they are in one input block -/
theorem mergeRanges_spec (l1 l2 : List Iv) (h1 : SD l1) (h2 : SD l2) (w1 : WFl l1) (w2 : WFl l2)
    (hne : l1 ≠ [] ∨ l2 ≠ []) :
    ∃ res, mergeRanges l1 l2 = some res ∧ SD res ∧ WFl res ∧
      (∀ p, cov res p ↔ cov l1 p ∨ cov l2 p) ∧ (∀ p, lnk res p ↔ lnk l1 p ∨ lnk l2 p) := by
  obtain ⟨acc, hacc, hcov⟩ := mergeLoop_spec l1 false l2 false [] h1 h2 w1 w2 (by simp) (by simp) (by simp)
  obtain ⟨acc', hacc', hlnk⟩ := mergeLoop_lnk l1 false l2 false [] h1 h2 w1 w2 (by simp) (by simp) (by simp)
  rw [hacc] at hacc'; injection hacc' with hacc'; subst hacc'
  have hne' : acc.isEmpty = false := by
    cases hacc' : acc with
    | cons x t => rfl
    | nil =>
      exfalso
      subst hacc'
      rcases hne with h | h
      · cases l1 with
        | nil => exact h rfl
        | cons a t =>
          have := (hcov a.1).mpr (Or.inr (Or.inl ⟨a, by simp, by omega, WFl_head w1⟩))
          exact cov_nil _ this
      · cases l2 with
        | nil => exact h rfl
        | cons a t =>
          have := (hcov a.1).mpr (Or.inr (Or.inr ⟨a, by simp, by omega, WFl_head w2⟩))
          exact cov_nil _ this
  obtain ⟨hr, hw⟩ := mergeLoop_sorted l1 false l2 false [] h1 h2 w1 w2 trivial (fun r hr => by cases hr)
    (by simp) (by simp) (by simp) (by intro _ _; simp [Front]) (by simp) (by simp) acc hacc
  refine ⟨acc.reverse, by simp [mergeRanges, hacc, hne'], SD_reverse_of_RSD acc hr,
    fun r hr' => hw r (by simpa using hr'), fun p => ?_, fun p => ?_⟩
  · rw [cov_reverse, hcov p]; simp [cov_nil]
  · rw [lnk_reverse, hlnk p]; simp [lnk_nil]

theorem cov_tail_iff {a : Iv} {t : List Iv} (h : SD (a :: t)) (w : WFl (a :: t)) (p : Int) :
    cov t p ↔ cov (a :: t) p ∧ a.2 < p := by
  rw [cov_cons]
  constructor
  · rintro ⟨r, hr, h1, h2⟩
    have := SD_all_right h w r hr
    exact ⟨Or.inr ⟨r, hr, h1, h2⟩, by omega⟩
  · rintro ⟨h1 | h1, h2⟩
    · omega
    · exact h1

theorem lnk_tail_iff {a : Iv} {t : List Iv} (h : SD (a :: t)) (w : WFl (a :: t)) (p : Int) :
    lnk t p ↔ lnk (a :: t) p ∧ a.2 < p := by
  rw [lnk_cons]
  constructor
  · rintro ⟨r, hr, h1, h2⟩
    have := SD_all_right h w r hr
    exact ⟨Or.inr ⟨r, hr, h1, h2⟩, by omega⟩
  · rintro ⟨h1 | h1, h2⟩
    · omega
    · exact h1

/-- the first block starts at the smallest covered position -/
theorem head_start_le_of_cov {a : Iv} {t : List Iv} (h : SD (a :: t)) (w : WFl (a :: t)) (p : Int)
    (hp : cov (a :: t) p) : a.1 ≤ p := by
  obtain ⟨r, hr, h1, _⟩ := hp
  have := SD_head_le h w r hr
  omega

/-- a sorted disjoint well-formed list is determined by the positions it covers and the neighbouring positions it links -/
theorem SD_ext (l1 l2 : List Iv) (h1 : SD l1) (h2 : SD l2) (w1 : WFl l1) (w2 : WFl l2)
    (hc : ∀ p, cov l1 p ↔ cov l2 p) (hl : ∀ p, lnk l1 p ↔ lnk l2 p) : l1 = l2 := by
  induction l1 generalizing l2 with
  | nil =>
    cases l2 with
    | nil => rfl
    | cons b t2 =>
      exfalso
      exact cov_nil _ ((hc b.1).mpr ⟨b, by simp, by omega, WFl_head w2⟩)
  | cons a t1 ih =>
    cases l2 with
    | nil =>
      exfalso
      exact cov_nil _ ((hc a.1).mp ⟨a, by simp, by omega, WFl_head w1⟩)
    | cons b t2 =>
      have ha := WFl_head w1
      have hb := WFl_head w2
      have e1 : a.1 = b.1 := by
        have x1 := head_start_le_of_cov h2 w2 a.1 ((hc a.1).mp ⟨a, by simp, by omega, ha⟩)
        have x2 := head_start_le_of_cov h1 w1 b.1 ((hc b.1).mpr ⟨b, by simp, by omega, hb⟩)
        omega
      have e2 : a.2 = b.2 := by
        have hA := SD_all_right h1 w1
        have hB := SD_all_right h2 w2
        rcases Int.lt_trichotomy a.2 b.2 with c | c | c
        · exfalso
          obtain ⟨r, hr, x1, x2⟩ := (hl a.2).mpr ⟨b, by simp, by omega, by omega⟩
          rcases List.mem_cons.mp hr with e | hr'
          · subst e; omega
          · have := hA r hr'; omega
        · exact c
        · exfalso
          obtain ⟨r, hr, x1, x2⟩ := (hl b.2).mp ⟨a, by simp, by omega, by omega⟩
          rcases List.mem_cons.mp hr with e | hr'
          · subst e; omega
          · have := hB r hr'; omega
      have e : a = b := by ext <;> assumption
      subst e
      congr 1
      apply ih t2 (SD_tail h1) (SD_tail h2) (WFl_tail w1) (WFl_tail w2)
      · intro p; rw [cov_tail_iff h1 w1, cov_tail_iff h2 w2, hc p]
      · intro p; rw [lnk_tail_iff h1 w1, lnk_tail_iff h2 w2, hl p]

/-! ### both sets are mirror-symmetric -/

theorem cov_mirrorL (L : Int) (l : List Iv) (p : Int) : cov (mirrorL L l) p ↔ cov l (L + 1 - p) := by
  simp only [cov, mirrorL, List.mem_reverse, List.mem_map]
  constructor
  · rintro ⟨r, ⟨a, ha, rfl⟩, x1, x2⟩
    simp only [mirrorIv_fst, mirrorIv_snd] at x1 x2
    exact ⟨a, ha, by omega, by omega⟩
  · rintro ⟨a, ha, x1, x2⟩
    exact ⟨mirrorIv L a, ⟨a, ha, rfl⟩, by simp only [mirrorIv_fst]; omega, by simp only [mirrorIv_snd]; omega⟩

theorem lnk_mirrorL (L : Int) (l : List Iv) (p : Int) : lnk (mirrorL L l) p ↔ lnk l (L - p) := by
  simp only [lnk, mirrorL, List.mem_reverse, List.mem_map]
  constructor
  · rintro ⟨r, ⟨a, ha, rfl⟩, x1, x2⟩
    simp only [mirrorIv_fst, mirrorIv_snd] at x1 x2
    exact ⟨a, ha, by omega, by omega⟩
  · rintro ⟨a, ha, x1, x2⟩
    exact ⟨mirrorIv L a, ⟨a, ha, rfl⟩, by simp only [mirrorIv_fst]; omega, by simp only [mirrorIv_snd]; omega⟩

theorem mergeRanges_mirror (L : Int) (l1 l2 : List Iv) (h1 : SD l1) (h2 : SD l2) (w1 : WFl l1) (w2 : WFl l2) :
    mergeRanges (mirrorL L l1) (mirrorL L l2) = (mergeRanges l1 l2).map (mirrorL L) := by
  by_cases hne : l1 ≠ [] ∨ l2 ≠ []
  · obtain ⟨res, hres, hsd, hwf, hc, hl⟩ := mergeRanges_spec l1 l2 h1 h2 w1 w2 hne
    have hne' : mirrorL L l1 ≠ [] ∨ mirrorL L l2 ≠ [] := by
      rcases hne with h | h
      · left; intro e; apply h; have := congrArg List.length e; rw [mirrorL_length] at this; exact List.length_eq_zero_iff.mp this
      · right; intro e; apply h; have := congrArg List.length e; rw [mirrorL_length] at this; exact List.length_eq_zero_iff.mp this
    obtain ⟨res', hres', hsd', hwf', hc', hl'⟩ := mergeRanges_spec (mirrorL L l1) (mirrorL L l2)
      (SD_mirror L l1 h1) (SD_mirror L l2 h2) (WFl_mirror L l1 w1) (WFl_mirror L l2 w2) hne'
    rw [hres, hres', Option.map_some]
    congr 1
    apply SD_ext _ _ hsd' (SD_mirror L res hsd) hwf' (WFl_mirror L res hwf)
    · intro p; rw [hc' p, cov_mirrorL, cov_mirrorL, cov_mirrorL, hc]
    · intro p; rw [hl' p, lnk_mirrorL, lnk_mirrorL, lnk_mirrorL, hl]
  · have e1 : l1 = [] := Classical.byContradiction (fun h => hne (Or.inl h))
    have e2 : l2 = [] := Classical.byContradiction (fun h => hne (Or.inr h))
    subst e1; subst e2
    simp only [mirrorL_nil, mergeRanges_nil_nil, Option.map_none]

end IsoVerif.Lemmas.C11.Lists
