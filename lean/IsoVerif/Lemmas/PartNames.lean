/-
Lemmas about the file-name arithmetic of `Model/PartNames.lean` (rreplace = last occurrence, posixpath split / join).
-/
import IsoVerif.Model.PartNames

namespace IsoVerif.Lemmas.PartNames
open IsoVerif.Model.PartNames

/-- `old` occurs in `s` at index `i` -/
def OccursAt (old s : Str) (i : Nat) : Prop := old <+: s.drop i

theorem rreplace?_none_iff (old new : Str) (hne : old ≠ []) :
    ∀ s : Str, rreplace? old new s = none ↔ ∀ i, ¬ OccursAt old s i := by
  intro s
  induction s with
  | nil =>
    simp only [rreplace?, OccursAt, List.drop_nil, List.prefix_nil, true_iff]
    intro _; exact hne
  | cons c cs ih =>
    simp only [rreplace?]
    constructor
    · intro h i
      cases hr : rreplace? old new cs with
      | some r => rw [hr] at h; simp at h
      | none =>
        rw [hr] at h
        have hp : old.isPrefixOf (c :: cs) = false := by
          cases hb : old.isPrefixOf (c :: cs) with
          | false => rfl
          | true => rw [hb] at h; simp at h
        cases i with
        | zero =>
          intro ho
          have : old.isPrefixOf (c :: cs) = true := List.isPrefixOf_iff_prefix.2 (by simpa [OccursAt] using ho)
          rw [hp] at this; cases this
        | succ j =>
          have := (ih.1 hr) j
          simpa [OccursAt] using this
    · intro h
      have h0 : rreplace? old new cs = none := ih.2 (fun j hj => h (j + 1) (by simpa [OccursAt] using hj))
      rw [h0]
      have hp : old.isPrefixOf (c :: cs) = false := by
        cases hb : old.isPrefixOf (c :: cs) with
        | false => rfl
        | true =>
          exact absurd (by simpa [OccursAt] using List.isPrefixOf_iff_prefix.1 hb) (h 0)
      simp [hp]

/-- **the specification of `rreplace?`**: when `s = pre ++ old ++ post` and `old` occurs nowhere further right, exactly that
    occurrence is replaced -/
theorem rreplace?_last (old new post : Str) (hne : old ≠ []) :
    ∀ pre : Str, (∀ i, pre.length < i → ¬ OccursAt old (pre ++ old ++ post) i) →
      rreplace? old new (pre ++ old ++ post) = some (pre ++ new ++ post) := by
  intro pre
  induction pre with
  | nil =>
    intro h
    cases old with
    | nil => exact absurd rfl hne
    | cons o os =>
      simp only [List.nil_append, List.cons_append, rreplace?]
      have hn : rreplace? (o :: os) new (os ++ post) = none := by
        apply (rreplace?_none_iff (o :: os) new hne _).2
        intro j hj
        exact h (j + 1) (by simp) (by simpa [OccursAt] using hj)
      rw [hn]
      have hp : (o :: os).isPrefixOf (o :: (os ++ post)) = true :=
        List.isPrefixOf_iff_prefix.2 (by simp)
      simp only [hp, if_true]
      have hdrop : (o :: (os ++ post)).drop (o :: os).length = post := by
        have := List.drop_left (l₁ := o :: os) (l₂ := post)
        simp at this ⊢
      rw [hdrop]
  | cons p ps ih =>
    intro h
    have h' : ∀ i, ps.length < i → ¬ OccursAt old (ps ++ old ++ post) i := by
      intro i hi hocc
      exact h (i + 1) (by simpa using hi) (by simpa [OccursAt] using hocc)
    simp only [List.cons_append, rreplace?, ih h']

theorem rreplace_last (old new pre post : Str) (hne : old ≠ [])
    (h : ∀ i, pre.length < i → ¬ OccursAt old (pre ++ old ++ post) i) :
    rreplace (pre ++ old ++ post) old new = some (pre ++ new ++ post) := by
  unfold rreplace
  rw [if_neg hne, rreplace?_last old new post hne pre h]

theorem rreplace_absent (old new s : Str) (hne : old ≠ []) (h : ∀ i, ¬ OccursAt old s i) :
    rreplace s old new = some s := by
  unfold rreplace
  rw [if_neg hne, (rreplace?_none_iff old new hne s).2 h]

/-! ### posixpath -/

theorem splitLast_noslash : ∀ s : Str, '/' ∉ s → splitLast s = ([], s) := by
  intro s
  induction s with
  | nil => intro _; rfl
  | cons c cs ih =>
    intro h
    have hc : c ≠ '/' := fun e => h (by simp [e])
    have hcs : '/' ∉ cs := fun e => h (by simp [e])
    simp [splitLast, ih hcs, hc]

theorem splitLast_slash (base : Str) (hb : '/' ∉ base) :
    ∀ xs : Str, splitLast (xs ++ '/' :: base) = (xs ++ ['/'], base) := by
  intro xs
  induction xs with
  | nil => simp [splitLast, splitLast_noslash base hb]
  | cons x xs ih => simp [splitLast, ih]

theorem rstripSlash_snoc : ∀ (dir : Str) (z : Char), z ≠ '/' → rstripSlash (dir ++ [z, '/']) = dir ++ [z] := by
  intro dir z hz
  induction dir with
  | nil => simp [rstripSlash, hz]
  | cons d ds ih => simp [rstripSlash, ih]

/-- a directory name as `os.path.join(args.output, prefix)` gives it: not empty, not ending with `/` -/
def DirOk (dir : Str) : Prop := ∃ d z, dir = d ++ [z] ∧ z ≠ '/'

theorem pathSplit_dir_base (dir base : Str) (hd : DirOk dir) (hb : '/' ∉ base) :
    pathSplit (dir ++ '/' :: base) = (dir, base) := by
  obtain ⟨d, z, rfl, hz⟩ := hd
  have h1 := splitLast_slash base hb (d ++ [z])
  have h2 : rstripSlash (d ++ [z] ++ ['/']) = d ++ [z] := by
    simpa using rstripSlash_snoc d z hz
  simp only [pathSplit, h1, h2]
  simp

theorem pathJoin_dir (dir x : Str) (hd : DirOk dir) (hx : x.head? ≠ some '/') :
    pathJoin dir x = dir ++ '/' :: x := by
  obtain ⟨d, z, rfl, hz⟩ := hd
  simp [pathJoin, hx, hz]

end IsoVerif.Lemmas.PartNames
