/-
Helper lemmas about the inconsistent path (`matchInconsistent`): the type is `classify_assignment` of the events of the
selected isoforms, and those events are the comparator's events (input `cj`) plus elongation events, after polyA
verification.  Core Lean only.
-/
import IsoVerif.Lemmas.C01Consistent

namespace IsoVerif.Lemmas.C01
open IsoVerif.Gen IsoVerif.Model IsoVerif.Model.C01 IsoVerif.Lemmas

/-- the events recorded for isoform `I` on the inconsistent path: comparator events `ev0` (not the lone `undefined`),
    followed by the elongation events, passed through polyA verification -/
def SelectedEvents (g : Gene) (p : Params) (rp : ReadProf) (cj : Nat → Option (List Event))
    (Ie : IsoInfo × List Event) : Prop :=
  ∃ ev0 el, cj Ie.1.id = some ev0 ∧ isUndefinedOnly ev0 = false ∧ elongationEvents g p rp Ie.1 = some el ∧
    verifyReadEnds p rp Ie.1 (ev0 ++ el) = some Ie.2

theorem detectInconsistencies_spec (g : Gene) (p : Params) (rp : ReadProf) (cj : Nat → Option (List Event)) :
    ∀ (l : List IsoInfo) (rm : List (IsoInfo × List Event)), detectInconsistencies g p rp cj l = some rm →
      ∀ Ie ∈ rm, Ie.1 ∈ l ∧ SelectedEvents g p rp cj Ie := by
  intro l
  induction l with
  | nil => intro rm h; simp [detectInconsistencies] at h; subst h; simp
  | cons I t ih =>
    intro rm h
    simp only [detectInconsistencies] at h
    split at h
    · simp at h
    · rename_i ev hev
      split at h
      · intro Ie hIe
        obtain ⟨h1, h2⟩ := ih rm h Ie hIe
        exact ⟨List.mem_cons_of_mem _ h1, h2⟩
      · rename_i hund
        split at h
        · simp at h
        · rename_i el hel
          split at h
          · rename_i evs r hv hr
            simp at h; subst h
            intro Ie hIe
            rcases List.mem_cons.mp hIe with hIe | hIe
            · subst hIe
              exact ⟨by simp, ev, el, hev, by simpa using hund, hel, hv⟩
            · obtain ⟨h1, h2⟩ := ih r hr Ie hIe
              exact ⟨List.mem_cons_of_mem _ h1, h2⟩
          · simp at h

theorem selectBest_sub (p : Params) (rp : ReadProf) (rm best : List (IsoInfo × List Event)) (mn : Rat)
    (h : selectBestAmongInconsistent p rp rm = some (best, mn)) : ∀ Ie ∈ best, Ie ∈ rm := by
  unfold selectBestAmongInconsistent at h
  split at h
  · simp at h
  · rename_i scored hsc
    have hz := mapOpt_spec _ _ _ hsc
    split at h
    · simp at h
    · rename_i mn' _
      simp only at h
      have key : ∀ Ie ∈ (scored.filter (fun x => decide (x.2 - mn' < penaltyTieEps))).map (·.1), Ie ∈ rm := by
        intro Ie hIe
        simp only [List.mem_map, List.mem_filter] at hIe
        obtain ⟨y, ⟨hy, _⟩, hyx⟩ := hIe
        obtain ⟨x, hx, hxy⟩ := forall₂_mem_right hz y hy
        cases hs : penaltyOf p x.2 with
        | none => simp [hs] at hxy
        | some sc =>
          simp [hs] at hxy
          rw [← hyx, ← hxy]; exact hx
      split at h
      · split at h
        · simp at h
        · simp at h
          obtain ⟨h1, _⟩ := h
          subst h1
          intro Ie hIe
          exact key Ie (List.mem_filter.mp hIe).1
      · simp at h
        obtain ⟨h1, _⟩ := h
        subst h1
        exact key

/-- `match_inconsistent`: either `noninformative`, or the type is `classify_assignment` of the event lists of a non-empty
    selection of isoforms, each carrying its `SelectedEvents` -/
theorem matchInconsistent_spec (g : Gene) (p : Params) (rp : ReadProf) (cj : Nat → Option (List Event)) (a : Assignment)
    (h : matchInconsistent g p rp cj = some a) :
    a.ty = .noninformative ∨
    ∃ best : List (IsoInfo × List Event), best ≠ [] ∧ a.ty = classifyAssignment (best.map (·.2)) ∧
      ∀ Ie ∈ best, Ie.1 ∈ g.isos ∧ SelectedEvents g p rp cj Ie := by
  unfold matchInconsistent at h
  split at h
  · simp at h
  · rename_i cands _
    split at h
    · simp at h; subst h; left; rfl
    · simp only at h
      split at h
      · simp at h
      · rename_i rm hrm
        split at h
        · simp at h; subst h; left; rfl
        · split at h
          · simp at h
          · rename_i best pen hbest
            split at h
            · simp at h; subst h; left; rfl
            · rename_i hne
              right
              refine ⟨best, ?_, ?_, ?_⟩
              · intro e; apply hne; simp [e]
              · split at h
                · simp only [Option.map_eq_some_iff] at h
                  obtain ⟨ms, _, rfl⟩ := h; rfl
                · split at h
                  · simp at h; subst h; rfl
                  · simp only [Option.map_eq_some_iff] at h
                    obtain ⟨ms, _, rfl⟩ := h; rfl
              · intro Ie hIe
                have h1 := selectBest_sub p rp rm best pen hbest Ie hIe
                obtain ⟨h2, h3⟩ := detectInconsistencies_spec g p rp cj _ rm hrm Ie h1
                exact ⟨(List.mem_filter.mp h2).1, h3⟩

end IsoVerif.Lemmas.C01
