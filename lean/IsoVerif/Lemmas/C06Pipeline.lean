/-
Lemmas for C06: the two pools of one sample composed (`pipeline`) — ids shifted per chromosome do not reach
the outputs.
-/
import IsoVerif.Model.Schedule
import IsoVerif.Lemmas.Schedule
import IsoVerif.Lemmas.C06Ids

namespace IsoVerif.Lemmas.C06
open IsoVerif.Model.C06

/-- per-chromosome shift of the assignment ids, on raw records and on multimapper records -/
def shiftRec (K : String → Nat) (x : String × Nat × ReadRec) : String × Nat × ReadRec := (x.1, x.2.1 + K x.1, x.2.2)
def shiftMM (K : String → Nat) (a : MMRec) : MMRec := { a with aid := a.aid + K a.chr }

theorem flatMap_congr' {α β : Type} {l : List α} {f g : α → List β} (h : ∀ a, a ∈ l → f a = g a) :
    l.flatMap f = l.flatMap g := by
  induction l with
  | nil => rfl
  | cons x xs ih =>
    simp only [List.flatMap_cons]
    rw [h x List.mem_cons_self, ih (fun a ha => h a (List.mem_cons_of_mem _ ha))]

theorem readIdsInOrder_shift (K : String → Nat) : ∀ (recs : List (String × Nat × ReadRec)) (seen : List String),
    readIdsInOrder (recs.map (shiftRec K)) seen = readIdsInOrder recs seen
  | [], _ => rfl
  | (n, aid, r) :: rest, seen => by
    simp only [List.map_cons, shiftRec, readIdsInOrder]
    rw [readIdsInOrder_shift K rest seen, readIdsInOrder_shift K rest (r.readId :: seen)]

theorem mmTable_shift (resolve : List (String × Nat) → List (Option Nat)) (K : String → Nat)
    (recs : List (String × Nat × ReadRec)) :
    mmTable resolve (recs.map (shiftRec K)) = (mmTable resolve recs).map (shiftMM K) := by
  unfold mmTable
  rw [readIdsInOrder_shift, List.map_flatMap]
  apply flatMap_congr'
  intro rid _
  have hf : (recs.map (shiftRec K)).filter (fun x => x.2.2.readId == rid)
      = (recs.filter (fun x => x.2.2.readId == rid)).map (shiftRec K) := by
    rw [List.filter_map]; rfl
  simp only [hf, List.length_map]
  by_cases hl : (recs.filter (fun x => x.2.2.readId == rid)).length ≤ 1
  · simp [hl]
  · simp only [hl, if_false]
    have hm : ((recs.filter (fun x => x.2.2.readId == rid)).map (shiftRec K)).map (fun x => (x.1, x.2.2.payload))
        = (recs.filter (fun x => x.2.2.readId == rid)).map (fun x => (x.1, x.2.2.payload)) := by
      rw [List.map_map]; rfl
    rw [hm, List.zip_map_left, List.map_map, List.map_map]
    rfl

theorem filter_chr_shift (K : String → Nat) (n : String) (mm : List MMRec) :
    (mm.map (shiftMM K)).filter (fun a => a.chr == n) = (mm.filter (fun a => a.chr == n)).map (renumMM (· + K n)) := by
  rw [List.filter_map]
  have : ((fun a : MMRec => a.chr == n) ∘ shiftMM K) = (fun a => a.chr == n) := rfl
  rw [this]
  apply List.map_congr_left
  intro a ha
  have hc : a.chr = n := by simpa using (List.mem_filter.1 ha).2
  simp [shiftMM, renumMM, hc]

theorem constructBlocks_renumber (g : Nat → Nat) (hg : ∀ a b, g a = g b → a = b) (chr : String) (mm : List MMRec) :
    ∀ (sv : SaveFile) (st : WState),
      (constructBlocks chr (mm.map (renumMM g)) st (sv.map (fun p => (p.1, renumIds g p.2)))).1
        = (constructBlocks chr mm st sv).1
  | [], _ => rfl
  | (b, ids) :: sv, st => by
    simp only [List.map_cons, constructBlocks, loadBlock_renumber g hg]
    rw [constructBlocks_renumber g hg chr mm sv]

/-- the task of chromosome `n` with all its ids shifted by `K n` gives the output of the unshifted task -/
theorem constructTask_shift (K : String → Nat) (n : String) (sv0 : SaveFile) (mm0 : List MMRec) (σ : WState) :
    (constructTask σ { name := n, save := shiftSave (K n) sv0, mm := (mm0.map (shiftMM K)).filter (fun a => a.chr == n) }).1
      = (constructTask σ { name := n, save := sv0, mm := mm0.filter (fun a => a.chr == n) }).1 := by
  unfold constructTask
  simp only [filter_chr_shift, shiftSave]
  exact constructBlocks_renumber (· + K n) (fun a b h => by omega) n _ sv0 _

def recsOf (p : String × SaveFile) : List (String × Nat × ReadRec) :=
  p.2.flatMap (fun q => q.2.map (fun x => (p.1, x.1, x.2)))

theorem allRecs_eq (names : List String) (saves : List SaveFile) : allRecs names saves = (names.zip saves).flatMap recsOf := rfl

theorem recsOf_shift (K : String → Nat) (p : String × SaveFile) :
    recsOf (p.1, shiftSave (K p.1) p.2) = (recsOf p).map (shiftRec K) := by
  unfold recsOf shiftSave
  simp only [List.flatMap_map, List.map_flatMap]
  apply flatMap_congr'
  intro q _
  simp only [renumIds, List.map_map]
  rfl

/-- outputs of the second pool's tasks in a fresh worker -/
def outsOf (resolve : List (String × Nat) → List (Option Nat)) (chrs : List Chr) (saves : List SaveFile) : List ChrOut :=
  (tasks2 resolve chrs saves).map (fun t => (constructTask {} t).1)

theorem outsOf_shift (resolve : List (String × Nat) → List (Option Nat)) (chrs : List Chr) (saves0 : List SaveFile)
    (K : String → Nat) :
    outsOf resolve chrs (((chrs.map (·.name)).zip saves0).map (fun p => shiftSave (K p.1) p.2)) = outsOf resolve chrs saves0 := by
  unfold outsOf tasks2
  simp only []
  have hz : (chrs.map (·.name)).zip ((((chrs.map (·.name)).zip saves0)).map (fun p => shiftSave (K p.1) p.2))
      = ((chrs.map (·.name)).zip saves0).map (fun p => (p.1, shiftSave (K p.1) p.2)) := by
    generalize chrs.map (·.name) = names
    induction names generalizing saves0 with
    | nil => rfl
    | cons n ns ih =>
      cases saves0 with
      | nil => rfl
      | cons sv svs => simp only [List.zip_cons_cons, List.map_cons, ih]
  have hr : allRecs (chrs.map (·.name)) ((((chrs.map (·.name)).zip saves0)).map (fun p => shiftSave (K p.1) p.2))
      = (allRecs (chrs.map (·.name)) saves0).map (shiftRec K) := by
    rw [allRecs_eq, allRecs_eq, hz, List.flatMap_map, List.map_flatMap]
    apply flatMap_congr'
    intro p _
    exact recsOf_shift K p
  rw [hr, mmTable_shift, hz, List.map_map, List.map_map, List.map_map]
  apply List.map_congr_left
  intro p _
  exact constructTask_shift K p.1 p.2 _ _

/-! ### assembling the two pools -/

theorem exists_list_of_forall {α : Type} (P : Nat → α → Prop) : ∀ (n : Nat), (∀ i, i < n → ∃ a, P i a) →
    ∃ l : List α, l.length = n ∧ ∀ i, i < n → ∃ a, l[i]? = some a ∧ P i a
  | 0, _ => ⟨[], rfl, fun i hi => absurd hi (Nat.not_lt_zero i)⟩
  | n + 1, h => by
    obtain ⟨l, hl, hp⟩ := exists_list_of_forall P n (fun i hi => h i (Nat.lt_succ_of_lt hi))
    obtain ⟨a, ha⟩ := h n (Nat.lt_succ_self n)
    refine ⟨l ++ [a], by simp [hl], ?_⟩
    intro i hi
    by_cases hin : i < n
    · obtain ⟨b, hb, hpb⟩ := hp i hin
      exact ⟨b, by rw [List.getElem?_append_left (by omega)]; exact hb, hpb⟩
    · have : i = n := by omega
      subst this
      exact ⟨a, by rw [List.getElem?_append_right (by omega)]; simp [hl], ha⟩

theorem lookup_zip_nodup : ∀ (names : List String) (ks : List Nat) (i : Nat) (n : String) (k : Nat),
    names.Nodup → names[i]? = some n → ks[i]? = some k → (names.zip ks).lookup n = some k
  | [], _, _, _, _, _, h, _ => by simp at h
  | _ :: _, [], _, _, _, _, _, h => by simp at h
  | m :: ms, q :: qs, 0, n, k, _, h1, h2 => by
    simp only [List.getElem?_cons_zero, Option.some.injEq] at h1 h2
    subst h1 h2
    simp [List.lookup]
  | m :: ms, q :: qs, i + 1, n, k, hnd, h1, h2 => by
    simp only [List.getElem?_cons_succ] at h1 h2
    have hnd' := List.nodup_cons.1 hnd
    have hne : n ≠ m := by
      intro e; subst e
      exact hnd'.1 (List.mem_of_getElem? h1)
    have : (n == m) = false := by simp [hne]
    simp only [List.zip_cons_cons, List.lookup, this]
    exact lookup_zip_nodup ms qs i n k hnd'.2 h1 h2

theorem mapM_id_map_some {α : Type} : ∀ l : List α, (l.map some).mapM id = some l
  | [] => rfl
  | x :: xs => by
    simp only [List.map_cons, List.mapM_cons, id, mapM_id_map_some xs]
    rfl

theorem tasks2_length (resolve : List (String × Nat) → List (Option Nat)) (chrs : List Chr) (saves : List SaveFile)
    (h : saves.length = chrs.length) : (tasks2 resolve chrs saves).length = chrs.length := by
  simp [tasks2, h]

/-- the first pool: whatever the schedule, the save files are those of fresh workers with a per-chromosome shift -/
theorem pool1_shape (chrs : List Chr) (hn : (chrs.map (·.name)).Nodup) (st : Nat → WState) (s : List Event)
    (hs : ValidSchedule chrs.length s) :
    ∃ K : String → Nat, poolMap collectTask chrs st s
      = ((((chrs.map (·.name)).zip (chrs.map (fun c => (collectTask {} c).1))).map
            (fun p => shiftSave (K p.1) p.2))).map some := by
  have h : ∀ i, i < chrs.length → ∃ k : Nat, ∀ c, chrs[i]? = some c →
      (poolMap collectTask chrs st s)[i]? = some (some (shiftSave k (collectTask {} c).1)) := by
    intro i hi
    obtain ⟨σ₀, h₀⟩ := poolMap_getElem? collectTask chrs st s hs i chrs[i] (List.getElem?_eq_getElem hi)
    refine ⟨σ₀.assignCtr, ?_⟩
    intro c hc
    rw [List.getElem?_eq_getElem hi] at hc
    cases hc
    rw [h₀]
    have := collectBlocks_shift σ₀.assignCtr chrs[i].blocks { σ₀ with assignCtr := 0 }
    simp only [Nat.zero_add] at this
    unfold collectTask
    rw [← collectBlocks_ctr_only chrs[i].blocks { σ₀ with assignCtr := 0 } {} rfl, ← this]
  obtain ⟨ks, hlen, hks⟩ := exists_list_of_forall _ chrs.length h
  refine ⟨fun n => (((chrs.map (·.name)).zip ks).lookup n).getD 0, ?_⟩
  apply List.ext_getElem?
  intro i
  by_cases hi : i < chrs.length
  · obtain ⟨k, hk, hp⟩ := hks i hi
    rw [hp chrs[i] (List.getElem?_eq_getElem hi)]
    have hname : (chrs.map (·.name))[i]? = some chrs[i].name := by simp [List.getElem?_eq_getElem hi]
    have hl := lookup_zip_nodup _ ks i _ k hn hname hk
    simp only [List.getElem?_map]
    have hz : ((chrs.map (·.name)).zip (chrs.map (fun c => (collectTask {} c).1)))[i]?
        = some (chrs[i].name, (collectTask {} chrs[i]).1) := by
      rw [List.getElem?_zip_eq_some]
      simp [List.getElem?_eq_getElem hi]
    rw [hz]
    simp [hl]
  · have hi' : chrs.length ≤ i := Nat.le_of_not_lt hi
    rw [List.getElem?_eq_none (by rw [poolMap_length]; exact hi')]
    rw [List.getElem?_eq_none (by simp; omega)]

/-- the second pool under a state-independent task equals the plain map -/
theorem poolMap_eq_map {σ χ ω : Type} (f : σ → χ → ω × σ) (chrs : List χ) (σ₀ : σ)
    (H : ∀ σ₁ σ₂ c, (f σ₁ c).1 = (f σ₂ c).1) (st : Nat → σ) (s : List Event)
    (hs : ValidSchedule chrs.length s) : poolMap f chrs st s = (chrs.map (fun c => (f σ₀ c).1)).map some := by
  apply List.ext_getElem?
  intro i
  by_cases hi : i < chrs.length
  · obtain ⟨σ₁, h₁⟩ := poolMap_getElem? f chrs st s hs i chrs[i] (List.getElem?_eq_getElem hi)
    rw [h₁, H σ₁ σ₀]
    simp [List.getElem?_eq_getElem hi]
  · have hi' : chrs.length ≤ i := Nat.le_of_not_lt hi
    rw [List.getElem?_eq_none (by rw [poolMap_length]; exact hi')]
    rw [List.getElem?_eq_none (by simp; omega)]

end IsoVerif.Lemmas.C06
