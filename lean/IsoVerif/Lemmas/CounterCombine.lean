/-
Helper lemmas for the C02 growth files (merge order of the part files, the files read by combine_counts).
Core Lean only.
-/
import IsoVerif.Model.CounterCombine
import IsoVerif.Lemmas.Counter
import IsoVerif.Lemmas.CounterSteps
import IsoVerif.Lemmas.CounterPerm
import IsoVerif.Lemmas.Schedule
import IsoVerif.Lemmas.Samples

namespace IsoVerif.Lemmas.C02
open IsoVerif.Gen IsoVerif.Model.C02
open List

/-! ### a sort by a key commutes with the projection to the key -/

theorem insertBy_map {α β : Type} (g : α → β) (le : β → β → Bool) (x : α) :
    ∀ l : List α, (IsoVerif.Model.C06.insertBy (fun a b => le (g a) (g b)) x l).map g
      = IsoVerif.Model.C06.insertBy le (g x) (l.map g)
  | [] => rfl
  | y :: ys => by
    unfold IsoVerif.Model.C06.insertBy
    by_cases h : le (g x) (g y) = true
    · simp [h]
    · have h' : le (g x) (g y) = false := by simpa using h
      simp only [h', List.map_cons, Bool.false_eq_true, if_false]
      rw [insertBy_map g le x ys]

theorem isort_map {α β : Type} (g : α → β) (le : β → β → Bool) :
    ∀ l : List α, (IsoVerif.Model.C06.isort (fun a b => le (g a) (g b)) l).map g
      = IsoVerif.Model.C06.isort le (l.map g)
  | [] => rfl
  | x :: xs => by
    unfold IsoVerif.Model.C06.isort
    rw [insertBy_map g le x _, isort_map g le xs]
    rfl

/-- the visiting order of the part files is the C06 `mergeOrder` of their names -/
theorem orderParts_names {α : Type} (named : List (String × α)) :
    (orderParts named).map Prod.fst = IsoVerif.Model.C06.mergeOrder (named.map Prod.fst) :=
  isort_map Prod.fst IsoVerif.Model.C06.keyLe named

theorem orderParts_perm {α : Type} (named : List (String × α)) : (orderParts named) ~ named :=
  IsoVerif.Lemmas.C06.isort_perm _ named

theorem natSum_map_perm {α : Type} {l l' : List α} (h : l ~ l') (g : α → Nat) :
    natSum (l.map g) = natSum (l'.map g) := natSum_perm (h.map g)

/-! ### lists with a tail of known length -/

theorem take_append_tail {α : Type} (a b : List α) (n : Nat) (h : b.length = n) :
    (a ++ b).take ((a ++ b).length - n) = a := by
  subst h
  simp

/-! ### code-point order of the feature ids (row order of the combined tables) -/

theorem strLeB_trans (a b c : String) (h1 : strLeB a b = true) (h2 : strLeB b c = true) : strLeB a c = true := by
  simp only [strLeB, decide_eq_true_eq] at *
  exact String.le_trans h1 h2

theorem strLeB_total (a b : String) : strLeB a b = true ∨ strLeB b a = true := by
  simp only [strLeB, decide_eq_true_eq]
  exact String.le_total a b

/-! ### C10's combined table, by key -/

open IsoVerif.Model.C10 (Table transformCounts combineTable) in
/-- rows of a C10 combined table are determined by their key -/
theorem row_of_key (full : Bool) (ts : List (String × Table)) (r r' : String × List (Option String))
    (h : r ∈ (combineTable full ts).2) (h' : r' ∈ (combineTable full ts).2) (hk : r.1 = r'.1) : r = r' := by
  rw [IsoVerif.Lemmas.C10.combineTable_rows] at h h'
  obtain ⟨k, _, rfl⟩ := List.mem_map.mp h
  obtain ⟨k', _, rfl⟩ := List.mem_map.mp h'
  simp only at hk
  subst hk
  rfl

open IsoVerif.Model.C10 (Table transformCounts combineTable) in
/-- the keys of a combined table are exactly the first columns of the (transformed) input tables -/
theorem combined_keys (full : Bool) (ts : List (String × Table)) (k : String) :
    k ∈ (combineTable full ts).2.map Prod.fst ↔ ∃ p ∈ ts, k ∈ (transformCounts full p.2).map Prod.fst := by
  rw [IsoVerif.Lemmas.C10.combineTable_rows, List.map_map]
  have : (Prod.fst ∘ fun k => (k, (ts.map (fun p => transformCounts full p.2)).map (fun t => List.lookup k t)))
      = (id : String → String) := by
    funext k; rfl
  rw [this, List.map_id, IsoVerif.Lemmas.C10.mem_allKeys]
  simp only [List.not_mem_nil, false_or, List.mem_map]
  constructor
  · rintro ⟨t, ⟨p, hp, rfl⟩, hk⟩
    exact ⟨p, hp, hk⟩
  · rintro ⟨p, hp, hk⟩
    exact ⟨_, ⟨p, hp, rfl⟩, hk⟩

end IsoVerif.Lemmas.C02
