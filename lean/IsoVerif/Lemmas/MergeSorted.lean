import IsoVerif.Lemmas.Merge

/-!
Sortedness of the result of `merge_ranges`.  The accumulator is kept reversed, so the invariant is stated with
`RSD` (reverse of `SD`).  Refinement of the flag invariant of `mergeLoop_spec`: when the head of a list is marked
"included", the last block of the accumulator ends exactly at that head's end; when no head is marked, the last block
ends strictly before both heads.
-/
namespace IsoVerif.Lemmas
open IsoVerif.Gen IsoVerif.Model

/-- reversed sorted-disjoint: each block starts strictly after the end of the next one in the list -/
def RSD : List Iv → Prop
  | [] => True
  | [_] => True
  | l :: m :: t => m.2 < l.1 ∧ RSD (m :: t)

/-- the last block of the (reversed) accumulator ends before `x` -/
def Front (acc : List Iv) (x : Int) : Prop := ∀ l ∈ acc.head?, l.2 < x

/-- the last block of the accumulator starts at or before `a` and ends exactly where `a` ends -/
def HeadIs (acc : List Iv) (a : Iv) : Prop := ∃ l t, acc = l :: t ∧ l.1 ≤ a.1 ∧ l.2 = a.2

theorem RSD_cons {a : Iv} {acc : List Iv} (h : RSD acc) (hf : Front acc a.1) : RSD (a :: acc) := by
  cases acc with
  | nil => trivial
  | cons m t => exact ⟨hf m (by simp), h⟩

theorem RSD_bump {l l' : Iv} {t : List Iv} (h : RSD (l :: t)) (e : l'.1 = l.1) : RSD (l' :: t) := by
  cases t with
  | nil => trivial
  | cons m t' => exact ⟨by rw [e]; exact h.1, h.2⟩

theorem SD_append_single (xs : List Iv) (l : Iv) (h : SD xs) (hl : ∀ m ∈ xs.getLast?, m.2 < l.1) :
    SD (xs ++ [l]) := by
  induction xs with
  | nil => trivial
  | cons x xs ih =>
    cases xs with
    | nil => exact ⟨hl x (by simp), trivial⟩
    | cons y ys =>
      refine ⟨h.1, ih h.2 (fun m hm => hl m ?_)⟩
      simpa [List.getLast?_cons_cons] using hm

theorem SD_reverse_of_RSD (acc : List Iv) (h : RSD acc) : SD acc.reverse := by
  induction acc with
  | nil => trivial
  | cons l t ih =>
    rw [List.reverse_cons]
    apply SD_append_single _ _ (ih (by cases t with | nil => trivial | cons m t' => exact h.2))
    intro m hm
    rw [List.getLast?_reverse] at hm
    cases t with
    | nil => simp at hm
    | cons m' t' => simp at hm; subst hm; exact h.1

theorem head_gt_of_SD {b : Iv} {bs : List Iv} (h : SD (b :: bs)) : ∀ y ∈ bs.head?, b.2 < y.1 := by
  intro y hy
  cases bs with
  | nil => simp at hy
  | cons c t => simp at hy; subst hy; exact h.1

theorem WFl_cons {a : Iv} {l : List Iv} (ha : a.1 ≤ a.2) (h : WFl l) : WFl (a :: l) := by
  intro r hr
  rcases List.mem_cons.mp hr with rfl | hr'
  · exact ha
  · exact h r hr'

theorem tailAppend_sorted (inc : Bool) (acc l : List Iv) (hs : SD l) (hw : WFl l) (hr : RSD acc) (hwa : WFl acc)
    (hI : inc = true → ∀ a ∈ l.head?, HeadIs acc a)
    (hF : inc = false → ∀ a ∈ l.head?, Front acc a.1) :
    RSD (tailAppend inc acc l) ∧ WFl (tailAppend inc acc l) := by
  induction l generalizing inc acc with
  | nil => exact ⟨hr, hwa⟩
  | cons a t ih =>
    simp only [tailAppend]
    have hnext := head_gt_of_SD hs
    cases inc with
    | true =>
      simp only [if_true]
      obtain ⟨l, t', rfl, h1, h2⟩ := hI rfl a (by simp)
      apply ih false _ (SD_tail hs) (WFl_tail hw) hr hwa (by simp)
      intro _ y hy m hm
      simp at hm; subst hm
      have := hnext y hy; omega
    | false =>
      simp only [Bool.false_eq_true, if_false]
      apply ih false _ (SD_tail hs) (WFl_tail hw) (RSD_cons hr (hF rfl a (by simp))) (WFl_cons (WFl_head hw) hwa)
        (by simp)
      intro _ y hy m hm
      simp at hm; subst hm
      exact hnext y hy

/-- the accumulator update for an overlapping pair keeps the accumulator reverse-sorted and its new last block is
    the hull `[≤ min start, max end]` of the pair -/
theorem ovAcc_sorted (a b : Iv) (i1 i2 : Bool) (acc acc' : List Iv) (ha : a.1 ≤ a.2) (hb : b.1 ≤ b.2)
    (hr : RSD acc) (hw : WFl acc) (hn : ¬(i1 = true ∧ i2 = true))
    (hF : i1 = false → i2 = false → Front acc a.1 ∧ Front acc b.1)
    (hI1 : i1 = true → HeadIs acc a ∧ a.1 < b.1)
    (hI2 : i2 = true → HeadIs acc b ∧ b.1 < a.1)
    (hacc : ovAcc a b i1 i2 acc = some acc') :
    RSD acc' ∧ WFl acc' ∧ ∃ l t, acc' = l :: t ∧ l.1 ≤ a.1 ∧ l.1 ≤ b.1 ∧ l.2 = max a.2 b.2 := by
  simp only [ovAcc] at hacc
  cases i1 <;> cases i2 <;> simp at hacc hn
  · subst hacc
    obtain ⟨f1, f2⟩ := hF rfl rfl
    refine ⟨RSD_cons hr (fun l hl => ?_), WFl_cons (by simp only; omega) hw, _, _, rfl, by simp only; omega,
      by simp only; omega, rfl⟩
    have := f1 l hl; have := f2 l hl; simp only; omega
  · obtain ⟨⟨l, t, rfl, hl1, hl2⟩, hlt⟩ := hI2 rfl
    simp [bumpLast] at hacc; subst hacc
    refine ⟨RSD_bump hr rfl, ?_, _, _, rfl, by simp only; omega, by simp only; omega, by simp only; omega⟩
    have := hw l (by simp)
    exact WFl_cons (by simp only; omega) (WFl_tail hw)
  · obtain ⟨⟨l, t, rfl, hl1, hl2⟩, hlt⟩ := hI1 rfl
    simp [bumpLast] at hacc; subst hacc
    refine ⟨RSD_bump hr rfl, ?_, _, _, rfl, by simp only; omega, by simp only; omega, by simp only; omega⟩
    have := hw l (by simp)
    exact WFl_cons (by simp only; omega) (WFl_tail hw)

/-- sortedness invariant of the main loop of `merge_ranges` -/
theorem mergeLoop_sorted (l1 : List Iv) (i1 : Bool) (l2 : List Iv) (i2 : Bool) (acc : List Iv)
    (h1 : SD l1) (h2 : SD l2) (w1 : WFl l1) (w2 : WFl l2)
    (hr : RSD acc) (hw : WFl acc)
    (hn : ¬(i1 = true ∧ i2 = true))
    (hne1 : i1 = true → l1 ≠ []) (hne2 : i2 = true → l2 ≠ [])
    (hF : i1 = false → i2 = false → (∀ a ∈ l1.head?, Front acc a.1) ∧ (∀ b ∈ l2.head?, Front acc b.1))
    (hI1 : i1 = true → ∀ a ∈ l1.head?, HeadIs acc a ∧ ∀ b ∈ l2.head?, a.1 < b.1)
    (hI2 : i2 = true → ∀ b ∈ l2.head?, HeadIs acc b ∧ ∀ a ∈ l1.head?, b.1 < a.1) :
    ∀ res, mergeLoop l1 i1 l2 i2 acc = some res → RSD res ∧ WFl res := by
  fun_induction mergeLoop l1 i1 l2 i2 acc with
  | case1 i1 l2 i2 acc =>
    intro res hres; injection hres with hres; subst hres
    have hi1 : i1 = false := by cases i1 with | false => rfl | true => exact absurd rfl (hne1 rfl)
    exact tailAppend_sorted i2 acc l2 h2 w2 hr hw (fun hi b hb => (hI2 hi b hb).1)
      (fun hi b hb => (hF hi1 hi).2 b hb)
  | case2 a as i1 i2 acc =>
    intro res hres; injection hres with hres; subst hres
    have hi2 : i2 = false := by cases i2 with | false => rfl | true => exact absurd rfl (hne2 rfl)
    exact tailAppend_sorted i1 acc (a :: as) h1 w1 hr hw (fun hi x hx => (hI1 hi x hx).1)
      (fun hi x hx => (hF hi hi2).1 x hx)
  | case3 a as i1 b bs i2 acc hov hboth =>
    intro res hres; cases hres
  | case4 a as i1 b bs i2 acc hov hboth hacc =>
    intro res hres; cases hres
  | case5 a as i1 b bs i2 acc hov hboth acc' hacc hlt ih =>
    have ha := WFl_head w1
    have hb := WFl_head w2
    simp [overlaps] at hov
    obtain ⟨hr', hw', l, t, hl, hl1, hl2, hl3⟩ := ovAcc_sorted a b i1 i2 acc acc' ha hb hr hw hn
      (fun e1 e2 => ⟨(hF e1 e2).1 a (by simp), (hF e1 e2).2 b (by simp)⟩)
      (fun e => ⟨(hI1 e a (by simp)).1, (hI1 e a (by simp)).2 b (by simp)⟩)
      (fun e => ⟨(hI2 e b (by simp)).1, (hI2 e b (by simp)).2 a (by simp)⟩) hacc
    apply ih h1 (SD_tail h2) w1 (WFl_tail w2) hr' hw' (by simp) (by simp) (by simp) (by simp)
    · intro _ x hx; simp at hx; subst hx
      refine ⟨⟨l, t, hl, hl1, by omega⟩, fun y hy => ?_⟩
      have := head_gt_of_SD h2 y hy; omega
    · simp
  | case6 a as i1 b bs i2 acc hov hboth acc' hacc hlt ih =>
    have ha := WFl_head w1
    have hb := WFl_head w2
    simp [overlaps] at hov
    obtain ⟨hr', hw', l, t, hl, hl1, hl2, hl3⟩ := ovAcc_sorted a b i1 i2 acc acc' ha hb hr hw hn
      (fun e1 e2 => ⟨(hF e1 e2).1 a (by simp), (hF e1 e2).2 b (by simp)⟩)
      (fun e => ⟨(hI1 e a (by simp)).1, (hI1 e a (by simp)).2 b (by simp)⟩)
      (fun e => ⟨(hI2 e b (by simp)).1, (hI2 e b (by simp)).2 a (by simp)⟩) hacc
    apply ih (SD_tail h1) h2 (WFl_tail w1) w2 hr' hw' (by simp) (by simp) (by simp) (by simp)
    · simp
    · intro _ y hy; simp at hy; subst hy
      refine ⟨⟨l, t, hl, hl2, by omega⟩, fun x hx => ?_⟩
      have := head_gt_of_SD h1 x hx; omega
  | case7 a as i1 b bs i2 acc hov hlo ih =>
    have ha := WFl_head w1
    have hb := WFl_head w2
    simp [left_of] at hlo
    have hni1 : i1 = false := by
      cases i1 with
      | false => rfl
      | true => exfalso; have := (hI1 rfl a (by simp)).2 b (by simp); omega
    subst hni1
    cases i2 with
    | true =>
      obtain ⟨l, t, rfl, hl1, hl2⟩ := (hI2 rfl b (by simp)).1
      simp only [if_true] at ih ⊢
      apply ih h1 (SD_tail h2) w1 (WFl_tail w2) hr hw (by simp) (by simp) (by simp)
      · intro _ _
        refine ⟨fun x hx m hm => ?_, fun y hy m hm => ?_⟩
        · simp at hx hm; subst hx; subst hm; omega
        · simp at hm; subst hm; have := head_gt_of_SD h2 y hy; omega
      · simp
      · simp
    | false =>
      simp only [Bool.false_eq_true, if_false] at ih ⊢
      have hfb := (hF rfl rfl).2 b (by simp)
      apply ih h1 (SD_tail h2) w1 (WFl_tail w2) (RSD_cons hr hfb) (WFl_cons hb hw) (by simp) (by simp) (by simp)
      · intro _ _
        refine ⟨fun x hx m hm => ?_, fun y hy m hm => ?_⟩
        · simp at hx hm; subst hx; subst hm; omega
        · simp at hm; subst hm; exact head_gt_of_SD h2 y hy
      · simp
      · simp
  | case8 a as i1 b bs i2 acc hov hlo ih =>
    have ha := WFl_head w1
    have hb := WFl_head w2
    simp [left_of] at hlo
    simp [overlaps] at hov
    have hab : a.2 < b.1 := by omega
    have hni2 : i2 = false := by
      cases i2 with
      | false => rfl
      | true => exfalso; have := (hI2 rfl b (by simp)).2 a (by simp); omega
    subst hni2
    cases i1 with
    | true =>
      obtain ⟨l, t, rfl, hl1, hl2⟩ := (hI1 rfl a (by simp)).1
      simp only [if_true] at ih ⊢
      apply ih (SD_tail h1) h2 (WFl_tail w1) w2 hr hw (by simp) (by simp) (by simp)
      · intro _ _
        refine ⟨fun x hx m hm => ?_, fun y hy m hm => ?_⟩
        · simp at hm; subst hm; have := head_gt_of_SD h1 x hx; omega
        · simp at hy hm; subst hy; subst hm; omega
      · simp
      · simp
    | false =>
      simp only [Bool.false_eq_true, if_false] at ih ⊢
      have hfa := (hF rfl rfl).1 a (by simp)
      apply ih (SD_tail h1) h2 (WFl_tail w1) w2 (RSD_cons hr hfa) (WFl_cons ha hw) (by simp) (by simp) (by simp)
      · intro _ _
        refine ⟨fun x hx m hm => ?_, fun y hy m hm => ?_⟩
        · simp at hm; subst hm; exact head_gt_of_SD h1 x hx
        · simp at hy hm; subst hy; subst hm; omega
      · simp
      · simp

/-- in a sorted disjoint well-formed list every block lies strictly left of every later one -/
theorem SD_pairwise (l : List Iv) (h : SD l) (w : WFl l) : l.Pairwise (fun x y => x.2 < y.1) := by
  induction l with
  | nil => exact List.Pairwise.nil
  | cons a t ih =>
    exact List.pairwise_cons.mpr ⟨SD_all_right h w, ih (SD_tail h) (WFl_tail w)⟩

end IsoVerif.Lemmas
