/-
Helper lemmas for C12: the region clusters of `AlignmentCollector.process` (`clustersGo`) do not depend on the
order among alignments with equal start.
-/
import IsoVerif.Model.BamMerge
import IsoVerif.Lemmas.BamMerge

namespace IsoVerif.Lemmas.C12
open IsoVerif.Gen IsoVerif.Model.C12 IsoVerif.Lemmas.C12
open List

/-- pointwise relation of two lists of equal length -/
inductive Forall2 {α β : Type} (R : α → β → Prop) : List α → List β → Prop
  | nil : Forall2 R [] []
  | cons {a b l1 l2} : R a b → Forall2 R l1 l2 → Forall2 R (a :: l1) (b :: l2)

/-- same region, same alignments up to order -/
def CEq {E : Type} (x y : Iv × List E) : Prop := x.1 = y.1 ∧ x.2.Perm y.2

/-- two cluster lists are equivalent: same number of clusters, pairwise the same region and the same multiset
    of alignments -/
abbrev ClusterEquiv {E : Type} (c1 c2 : List (Iv × List E)) : Prop := Forall2 CEq c1 c2

theorem ce_refl {E : Type} (c : List (Iv × List E)) : ClusterEquiv c c := by
  induction c with
  | nil => exact .nil
  | cons a t ih => exact .cons ⟨rfl, Perm.refl _⟩ ih

theorem ce_symm {E : Type} {c1 c2 : List (Iv × List E)} (h : ClusterEquiv c1 c2) : ClusterEquiv c2 c1 := by
  induction h with
  | nil => exact .nil
  | cons hab _ ih => exact .cons ⟨hab.1.symm, hab.2.symm⟩ ih

theorem ce_trans {E : Type} {c1 c2 c3 : List (Iv × List E)} (h1 : ClusterEquiv c1 c2) (h2 : ClusterEquiv c2 c3) :
    ClusterEquiv c1 c3 := by
  induction h1 generalizing c3 with
  | nil => cases h2; exact .nil
  | cons hab _ ih =>
    cases h2 with
    | cons hbc h2' => exact .cons ⟨hab.1.trans hbc.1, hab.2.trans hbc.2⟩ (ih h2')

theorem ce_append_left {E : Type} (p : List (Iv × List E)) {c1 c2 : List (Iv × List E)} (h : ClusterEquiv c1 c2) :
    ClusterEquiv (p ++ c1) (p ++ c2) := by
  induction p with
  | nil => exact h
  | cons a t ih => exact .cons ⟨rfl, Perm.refl _⟩ ih

/-! ### one step of the loop -/

variable {E : Type} (al : E → Aln)

/-- the clusters emitted and the new storage state when one more alignment arrives -/
def cstep : Option (Iv × List E) → E → List (Iv × List E) × (Iv × List E)
  | none, a => ([], (alnIv (al a), [a]))
  | some (r, cur), a =>
    if overlaps r (alnIv (al a)) then
      ([], ((min r.1 (al a).start, max r.2 ((al a).stop - 1)), a :: cur))
    else
      ([(r, cur.reverse)], (alnIv (al a), [a]))

theorem go_cons (st : Option (Iv × List E)) (a : E) (t : List E) :
    clustersGo al st (a :: t) = (cstep al st a).1 ++ clustersGo al (some (cstep al st a).2) t := by
  cases st with
  | none => simp [clustersGo, cstep]
  | some rc =>
    obtain ⟨r, cur⟩ := rc
    by_cases h : overlaps r (alnIv (al a)) <;> simp [clustersGo, cstep, h]

/-- the running region starts at or before the start of `a` (true along a coordinate-sorted stream) -/
def LB (st : Option (Iv × List E)) (a : E) : Prop := ∀ r cur, st = some (r, cur) → r.1 ≤ (al a).start

/-- well-formed alignment: covers at least one reference base (pysam: `reference_end > reference_start`) -/
abbrev WFa (a : Aln) : Prop := a.start < a.stop

theorem overlaps_true_iff (r s : Iv) : overlaps r s = true ↔ (s.1 ≤ r.2 ∧ r.1 ≤ s.2) := by
  simp [overlaps]

theorem overlaps_of_lb {r : Iv} {a : Aln} (hw : WFa a) (hl : r.1 ≤ a.start) :
    overlaps r (alnIv a) = decide (a.start ≤ r.2) := by
  rw [Bool.eq_iff_iff, overlaps_true_iff]
  simp only [alnIv, decide_eq_true_eq, WFa] at *
  omega

theorem overlaps_same_start {a b : Aln} (wa : WFa a) (wb : WFa b) (hs : a.start = b.start) :
    overlaps (alnIv a) (alnIv b) = true := by
  rw [overlaps_true_iff]
  simp only [alnIv, WFa] at *
  omega

theorem lb_cstep {st : Option (Iv × List E)} {a b : E} (hl : LB al st b) (hab : (al a).start ≤ (al b).start) :
    LB al (some (cstep al st a).2) b := by
  intro r cur h
  cases st with
  | none =>
    simp only [cstep, alnIv, Option.some.injEq, Prod.mk.injEq] at h
    rw [← h.1]; exact hab
  | some rc =>
    obtain ⟨r0, cur0⟩ := rc
    have h0 := hl r0 cur0 rfl
    by_cases ho : overlaps r0 (alnIv (al a)) = true
    · simp only [cstep, ho, if_true, Option.some.injEq, Prod.mk.injEq] at h
      rw [← h.1]
      simp only
      omega
    · have ho' : overlaps r0 (alnIv (al a)) = false := by simpa using ho
      simp only [cstep, ho', Bool.false_eq_true, if_false, Option.some.injEq, Prod.mk.injEq] at h
      rw [← h.1]; exact hab

/-- stored alignments enter the result only as a multiset -/
theorem go_cur_perm (r : Iv) {cur cur' : List E} (h : cur ~ cur') (l : List E) :
    ClusterEquiv (clustersGo al (some (r, cur)) l) (clustersGo al (some (r, cur')) l) := by
  induction l generalizing r cur cur' with
  | nil =>
    simp only [clustersGo]
    exact .cons ⟨rfl, (reverse_perm cur).trans (h.trans (reverse_perm cur').symm)⟩ .nil
  | cons a t ih =>
    by_cases ho : overlaps r (alnIv (al a))
    · simp only [clustersGo, ho, if_true]
      exact ih _ (Perm.cons a h)
    · simp only [clustersGo, ho]
      exact .cons ⟨rfl, (reverse_perm cur).trans (h.trans (reverse_perm cur').symm)⟩ (ce_refl _)

/-- two consecutive alignments with the same start may be swapped -/
theorem go_swap (st : Option (Iv × List E)) (a b : E) (t : List E) (hs : (al a).start = (al b).start)
    (wa : WFa (al a)) (wb : WFa (al b)) (hl : LB al st a) :
    ClusterEquiv (clustersGo al st (a :: b :: t)) (clustersGo al st (b :: a :: t)) := by
  cases st with
  | none =>
    have h1 : overlaps (alnIv (al a)) (alnIv (al b)) = true := overlaps_same_start wa wb hs
    have h2 : overlaps (alnIv (al b)) (alnIv (al a)) = true := overlaps_same_start wb wa hs.symm
    simp only [clustersGo, h1, h2, if_true]
    have hr : ((min (alnIv (al a)).1 (al b).start, max (alnIv (al a)).2 ((al b).stop - 1)) : Iv) =
        (min (alnIv (al b)).1 (al a).start, max (alnIv (al b)).2 ((al a).stop - 1)) := by
      simp only [alnIv]
      rw [hs, Int.max_comm]
    rw [hr]
    exact go_cur_perm al _ (Perm.swap a b []) t
  | some rc =>
    obtain ⟨r, cur⟩ := rc
    have hla : r.1 ≤ (al a).start := hl r cur rfl
    have hlb : r.1 ≤ (al b).start := hs ▸ hla
    by_cases hc : (al a).start ≤ r.2
    · -- both join the running cluster
      have hcb : (al b).start ≤ r.2 := hs ▸ hc
      have oa : overlaps r (alnIv (al a)) = true := by rw [overlaps_of_lb wa hla]; simp [hc]
      have ob : overlaps r (alnIv (al b)) = true := by rw [overlaps_of_lb wb hlb]; simp [hcb]
      have oab : overlaps (min r.1 (al a).start, max r.2 ((al a).stop - 1)) (alnIv (al b)) = true := by
        rw [overlaps_of_lb wb (by simp only; omega)]; simp only [decide_eq_true_eq]; omega
      have oba : overlaps (min r.1 (al b).start, max r.2 ((al b).stop - 1)) (alnIv (al a)) = true := by
        rw [overlaps_of_lb wa (by simp only; omega)]; simp only [decide_eq_true_eq]; omega
      simp only [clustersGo, oa, ob, oab, oba, if_true]
      have hr : ((min (min r.1 (al a).start) (al b).start, max (max r.2 ((al a).stop - 1)) ((al b).stop - 1)) : Iv) =
          (min (min r.1 (al b).start) (al a).start, max (max r.2 ((al b).stop - 1)) ((al a).stop - 1)) := by
        rw [hs, Int.max_assoc, Int.max_assoc, Int.max_comm ((al a).stop - 1)]
      rw [hr]
      exact go_cur_perm al _ (Perm.swap a b cur) t
    · -- both are beyond the running cluster: it is emitted, they start the next one together
      have hcb : ¬ (al b).start ≤ r.2 := hs ▸ hc
      have oa : overlaps r (alnIv (al a)) = false := by rw [overlaps_of_lb wa hla]; simp [hc]
      have ob : overlaps r (alnIv (al b)) = false := by rw [overlaps_of_lb wb hlb]; simp [hcb]
      have h1 : overlaps (alnIv (al a)) (alnIv (al b)) = true := overlaps_same_start wa wb hs
      have h2 : overlaps (alnIv (al b)) (alnIv (al a)) = true := overlaps_same_start wb wa hs.symm
      simp only [clustersGo, oa, ob, h1, h2, if_true, Bool.false_eq_true, if_false]
      refine .cons ⟨rfl, Perm.refl _⟩ ?_
      have hr : ((min (alnIv (al a)).1 (al b).start, max (alnIv (al a)).2 ((al b).stop - 1)) : Iv) =
          (min (alnIv (al b)).1 (al a).start, max (alnIv (al b)).2 ((al a).stop - 1)) := by
        simp only [alnIv]
        rw [hs, Int.max_comm]
      rw [hr]
      exact go_cur_perm al _ (Perm.swap a b []) t

/-- an alignment may be moved in front of a block of alignments that all have its start -/
theorem go_move_front (st : Option (Iv × List E)) (pre : List E) (a : E) (post : List E)
    (hpre : ∀ p ∈ pre, (al p).start = (al a).start ∧ WFa (al p)) (wa : WFa (al a)) (hl : LB al st a) :
    ClusterEquiv (clustersGo al st (pre ++ a :: post)) (clustersGo al st (a :: (pre ++ post))) := by
  induction pre generalizing st with
  | nil => exact ce_refl _
  | cons b pre' ih =>
    have hb := hpre b List.mem_cons_self
    have hlb : LB al st b := fun r cur h => hb.1 ▸ hl r cur h
    have hl' : LB al (some (cstep al st b).2) a := lb_cstep al hl (by rw [hb.1]; exact Int.le_refl _)
    have ih' := ih (some (cstep al st b).2) (fun p hp => hpre p (List.mem_cons_of_mem _ hp)) hl'
    have e1 : clustersGo al st ((b :: pre') ++ a :: post) =
        (cstep al st b).1 ++ clustersGo al (some (cstep al st b).2) (pre' ++ a :: post) := by
      rw [List.cons_append, go_cons]
    have e2 : clustersGo al st (b :: a :: (pre' ++ post)) =
        (cstep al st b).1 ++ clustersGo al (some (cstep al st b).2) (a :: (pre' ++ post)) := by
      rw [go_cons]
    rw [e1]
    have s1 : ClusterEquiv ((cstep al st b).1 ++ clustersGo al (some (cstep al st b).2) (pre' ++ a :: post))
        (clustersGo al st (b :: a :: (pre' ++ post))) := by
      rw [e2]; exact ce_append_left _ ih'
    exact ce_trans s1 (go_swap al st b a (pre' ++ post) hb.1 hb.2 wa hlb)

/-- coordinate-sorted (by start only) -/
abbrev SortedBy (l : List E) : Prop := l.Pairwise (fun x y => (al x).start ≤ (al y).start)

/-- the clusters of two coordinate-sorted arrangements of the same alignments are equivalent -/
theorem go_perm_invariant (l1 l2 : List E) (st : Option (Iv × List E))
    (h1 : SortedBy al l1) (h2 : SortedBy al l2) (wf : ∀ x ∈ l1, WFa (al x)) (hp : l1 ~ l2)
    (hl : ∀ x ∈ l1, LB al st x) :
    ClusterEquiv (clustersGo al st l1) (clustersGo al st l2) := by
  induction l1 generalizing l2 st with
  | nil =>
    have : l2 = [] := by simpa using hp.symm.eq_nil
    subst this; exact ce_refl _
  | cons a t1 ih =>
    have ha2 : a ∈ l2 := hp.subset List.mem_cons_self
    obtain ⟨pre, post, rfl⟩ := List.append_of_mem ha2
    have hsa := List.pairwise_cons.mp h1
    have hpre : ∀ p ∈ pre, (al p).start = (al a).start ∧ WFa (al p) := by
      intro p hp'
      have hp1 : p ∈ a :: t1 := hp.symm.subset (List.mem_append_left _ hp')
      have hle : (al p).start ≤ (al a).start :=
        (List.pairwise_append.mp h2).2.2 p hp' a List.mem_cons_self
      have hge : (al a).start ≤ (al p).start := by
        rcases List.mem_cons.mp hp1 with h | h
        · subst h; exact Int.le_refl _
        · exact hsa.1 p h
      exact ⟨by omega, wf p hp1⟩
    have wa : WFa (al a) := wf a List.mem_cons_self
    have hla : LB al st a := hl a List.mem_cons_self
    have hmove := go_move_front al st pre a post hpre wa hla
    have hperm : t1 ~ pre ++ post := (hp.trans perm_middle).cons_inv
    have hs2 : SortedBy al (pre ++ post) :=
      List.Pairwise.sublist ((List.sublist_cons_self a post).append_left pre) h2
    have hl' : ∀ x ∈ t1, LB al (some (cstep al st a).2) x := fun x hx =>
      lb_cstep al (hl x (List.mem_cons_of_mem _ hx)) (hsa.1 x hx)
    have ih' := ih (pre ++ post) (some (cstep al st a).2) hsa.2 hs2
      (fun x hx => wf x (List.mem_cons_of_mem _ hx)) hperm hl'
    rw [go_cons al st a t1]
    have e2 := go_cons al st a (pre ++ post)
    have s1 : ClusterEquiv ((cstep al st a).1 ++ clustersGo al (some (cstep al st a).2) t1)
        (clustersGo al st (a :: (pre ++ post))) := by
      rw [e2]; exact ce_append_left _ ih'
    exact ce_trans s1 (ce_symm hmove)

end IsoVerif.Lemmas.C12
