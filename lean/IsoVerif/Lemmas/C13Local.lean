/-
Helper lemmas for Props/C13Local.lean (closure `p13local`): the ±1 entries of `construct_profile_for_features` do not depend
on known features the read does not touch; `sorted(set(..))` of the C13 gene model; what an exon / intron event says about a
row key, position-wise.
-/
import IsoVerif.Model.C13Chromosome
import IsoVerif.Lemmas.C13Chromosome
import IsoVerif.Lemmas.C13Features
import IsoVerif.Props.C13Profiles

namespace IsoVerif.Lemmas.C13Local
open IsoVerif.Gen IsoVerif.Model IsoVerif.Model.C13 IsoVerif.Lemmas.C13 IsoVerif.Props.C13Profiles

/-! ### `sorted(list(set(..)))` as the C13 gene model builds it -/

def lexLt (a b : Iv) : Prop := a.1 < b.1 ∨ (a.1 = b.1 ∧ a.2 < b.2)

theorem mem_insertIv (x : Iv) : ∀ (l : List Iv) (y : Iv), y ∈ insertIv x l ↔ (y = x ∨ y ∈ l) := by
  intro l
  induction l with
  | nil => intro y; simp [insertIv]
  | cons a t ih =>
    intro y
    simp only [insertIv]
    split
    · rename_i e
      have : x = a := by simpa using e
      subst this; simp
    · split
      · simp
      · simp only [List.mem_cons, ih]
        constructor
        · rintro (h | h | h)
          · right; left; exact h
          · left; exact h
          · right; right; exact h
        · rintro (h | h | h)
          · right; left; exact h
          · left; exact h
          · right; right; exact h

theorem mem_sortDedupIv : ∀ (l : List Iv) (y : Iv), y ∈ sortDedupIv l ↔ y ∈ l := by
  intro l
  induction l with
  | nil => intro y; simp [sortDedupIv]
  | cons a t ih => intro y; simp [sortDedupIv, mem_insertIv, ih]

theorem lexLt_trans {a b c : Iv} (h1 : lexLt a b) (h2 : lexLt b c) : lexLt a c := by
  unfold lexLt at *; omega

theorem pairwise_insertIv (x : Iv) : ∀ (l : List Iv), l.Pairwise lexLt → (insertIv x l).Pairwise lexLt := by
  intro l
  induction l with
  | nil => intro _; simp [insertIv]
  | cons a t ih =>
    intro h
    obtain ⟨ha, ht⟩ := List.pairwise_cons.mp h
    simp only [insertIv]
    split
    · exact h
    · rename_i hne
      have hne' : x ≠ a := by simpa using hne
      split
      · rename_i hle
        have hxa : lexLt x a := by
          have hc : x.1 ≠ a.1 ∨ x.2 ≠ a.2 := by
            by_cases e1 : x.1 = a.1
            · right; intro e2; exact hne' (Prod.ext e1 e2)
            · left; exact e1
          simp only [ivLe, Bool.or_eq_true, decide_eq_true_eq, Bool.and_eq_true, beq_iff_eq] at hle
          unfold lexLt; omega
        refine List.pairwise_cons.mpr ⟨?_, h⟩
        intro z hz
        rcases List.mem_cons.mp hz with rfl | hz
        · exact hxa
        · exact lexLt_trans hxa (ha z hz)
      · rename_i hnle
        have hax : lexLt a x := by
          have hc : x.1 ≠ a.1 ∨ x.2 ≠ a.2 := by
            by_cases e1 : x.1 = a.1
            · right; intro e2; exact hne' (Prod.ext e1 e2)
            · left; exact e1
          simp only [ivLe, Bool.or_eq_true, decide_eq_true_eq, Bool.and_eq_true, beq_iff_eq, not_or, not_and] at hnle
          unfold lexLt; omega
        refine List.pairwise_cons.mpr ⟨?_, ih ht⟩
        intro z hz
        rcases (mem_insertIv x t z).mp hz with rfl | hz
        · exact hax
        · exact ha z hz

theorem pairwise_sortDedupIv : ∀ (l : List Iv), (sortDedupIv l).Pairwise lexLt := by
  intro l
  induction l with
  | nil => simp [sortDedupIv]
  | cons a t ih => exact pairwise_insertIv a _ ih

theorem sortedStarts_sortDedupIv (l : List Iv) : SortedStarts (sortDedupIv l) :=
  (pairwise_sortDedupIv l).imp (fun h => by unfold lexLt at h; omega)

theorem nodup_sortDedupIv (l : List Iv) : (sortDedupIv l).Nodup :=
  (pairwise_sortDedupIv l).imp (fun h e => by subst e; unfold lexLt at h; omega)

/-! ### junctions of a block list lie strictly inside it -/

theorem junction_bounds (l : List Iv) : ∀ j ∈ junctionsFromBlocks l, (∃ c ∈ l, j.1 = c.2 + 1) ∧ (∃ d ∈ l, j.2 = d.1 - 1) ∧ j.1 ≤ j.2 := by
  induction l with
  | nil => intro j hj; simp [junctionsFromBlocks] at hj
  | cons a t ih =>
    cases t with
    | nil => intro j hj; simp [junctionsFromBlocks] at hj
    | cons b t' =>
      intro j hj
      simp only [junctionsFromBlocks] at hj
      split at hj
      · rcases List.mem_cons.mp hj with rfl | hj
        · exact ⟨⟨a, by simp, rfl⟩, ⟨b, by simp, rfl⟩, by simp only; omega⟩
        · obtain ⟨⟨c, hc, e1⟩, ⟨d, hd, e2⟩, h3⟩ := ih j hj
          exact ⟨⟨c, List.mem_cons_of_mem _ hc, e1⟩, ⟨d, List.mem_cons_of_mem _ hd, e2⟩, h3⟩
      · obtain ⟨⟨c, hc, e1⟩, ⟨d, hd, e2⟩, h3⟩ := ih j hj
        exact ⟨⟨c, List.mem_cons_of_mem _ hc, e1⟩, ⟨d, List.mem_cons_of_mem _ hd, e2⟩, h3⟩

/-! ### the ±1 entries depend on the known features only through those the read touches -/

/-- the read touches the known feature `x`: a read feature equals it within δ, or the absence test of the mapped region holds
    for it, or it lies strictly inside a gap between two consecutive read features (the three ways a ±1 can arise) -/
def Touches (δ : Int) (absent : Iv → Iv → Bool) (R : List Iv) (M : Iv) (x : Iv) : Prop :=
  (∃ r ∈ R, equal_ranges r x δ = true) ∨ absent M x = true ∨ InGap R x

theorem idx_of_mem {K : List Iv} {x : Iv} (h : x ∈ K) : ∃ i : Nat, K[i]? = some x := by
  obtain ⟨i, hi, e⟩ := List.mem_iff_getElem.mp h
  exact ⟨i, by rw [List.getElem?_eq_getElem hi, e]⟩

theorem best_mono (δ : Int) (K1 K2 R : List Iv) (h : ∀ x ∈ K2, (∃ r ∈ R, equal_ranges r x δ = true) → x ∈ K1) (k : Iv) :
    Best δ K1 R k → Best δ K2 R k := by
  rintro ⟨j, r, hr, hc, hb⟩
  refine ⟨j, r, hr, hc, ?_⟩
  intro i' k' hk' hc'
  obtain ⟨i'', hi''⟩ := idx_of_mem (h k' (List.mem_of_getElem? hk') ⟨r, List.mem_of_getElem? hr, hc'⟩)
  exact hb i'' k' hi'' hc'

theorem tieLoser_mono (δ : Int) (K1 K2 R : List Iv) (h : ∀ x ∈ K1, (∃ r ∈ R, equal_ranges r x δ = true) → x ∈ K2) (k : Iv) :
    TieLoser (fun a b => equal_ranges a b δ) K1 R k → TieLoser (fun a b => equal_ranges a b δ) K2 R k := by
  rintro ⟨j, r, i', k', hr, hk', hc, hc', hlt⟩
  obtain ⟨i'', hi''⟩ := idx_of_mem (h k' (List.mem_of_getElem? hk') ⟨r, List.mem_of_getElem? hr, hc'⟩)
  exact ⟨j, r, i'', k', hr, hi'', hc, hc', hlt⟩

/-- **the profile is local**: two known-feature lists that meet the hypotheses of the meaning theorems, the smaller one
    holding every feature of the larger one that the read touches, give every feature the same ±1 verdict - the features the
    read does not touch neither get a ±1 themselves nor change the verdict of another feature (as a tie competitor or by moving
    the sweep).  `gr1` / `gr2` (the gene regions, read only by the READ profile) are free. -/
theorem constructOverlapping_local (K1 K2 : List Iv) (gr1 gr2 : Iv) (absent : Iv → Iv → Bool) (δ : Int) (R : List Iv) (M : Iv)
    (pa pt : Int) (hδ : 0 ≤ δ) (h1 : Hyp δ K1 R) (h2 : Hyp δ K2 R) (hsub : ∀ x ∈ K1, x ∈ K2)
    (hvis : ∀ x ∈ K2, Touches δ absent R M x → x ∈ K1) (v : Int) (hv : v = 1 ∨ v = -1) (x : Iv) :
    (∃ i : Nat, K1[i]? = some x ∧ (constructOverlapping K1 gr1 (fun a b => equal_ranges a b δ) absent δ R M pa pt).gene[i]? = some v) ↔
    (∃ i : Nat, K2[i]? = some x ∧ (constructOverlapping K2 gr2 (fun a b => equal_ranges a b δ) absent δ R M pa pt).gene[i]? = some v) := by
  have hnear : ∀ y ∈ K2, (∃ r ∈ R, equal_ranges r y δ = true) → y ∈ K1 := fun y hy h => hvis y hy (Or.inl h)
  have hb : ∀ k, Best δ K1 R k ↔ Best δ K2 R k := fun k =>
    ⟨best_mono δ K1 K2 R hnear k, best_mono δ K2 K1 R (fun y hy _ => hsub y hy) k⟩
  have ht : ∀ k, TieLoser (fun a b => equal_ranges a b δ) K1 R k ↔ TieLoser (fun a b => equal_ranges a b δ) K2 R k := fun k =>
    ⟨tieLoser_mono δ K1 K2 R (fun y hy _ => hsub y hy) k, tieLoser_mono δ K2 K1 R hnear k⟩
  rcases hv with rfl | rfl
  · constructor
    · rintro ⟨i, hk, hg⟩
      obtain ⟨i2, hk2⟩ := idx_of_mem (hsub x (List.mem_of_getElem? hk))
      obtain ⟨hbest, hm⟩ := (include_iff_best_partial K1 gr1 absent δ R M pa pt h1 i x hk).mp hg
      exact ⟨i2, hk2, (include_iff_best_partial K2 gr2 absent δ R M pa pt h2 i2 x hk2).mpr ⟨(hb x).mp hbest, hm⟩⟩
    · rintro ⟨i, hk, hg⟩
      obtain ⟨hbest, hm⟩ := (include_iff_best_partial K2 gr2 absent δ R M pa pt h2 i x hk).mp hg
      have hx1 : x ∈ K1 := by
        obtain ⟨j, r, hr, hc, _⟩ := hbest
        exact hnear x (List.mem_of_getElem? hk) ⟨r, List.mem_of_getElem? hr, hc⟩
      obtain ⟨i1, hk1⟩ := idx_of_mem hx1
      exact ⟨i1, hk1, (include_iff_best_partial K1 gr1 absent δ R M pa pt h1 i1 x hk1).mpr ⟨(hb x).mpr hbest, hm⟩⟩
  · constructor
    · rintro ⟨i, hk, hg⟩
      obtain ⟨i2, hk2⟩ := idx_of_mem (hsub x (List.mem_of_getElem? hk))
      obtain ⟨hnb, hor, hm⟩ := (exclude_iff_partial K1 gr1 absent δ R M pa pt hδ h1 i x hk).mp hg
      refine ⟨i2, hk2, (exclude_iff_partial K2 gr2 absent δ R M pa pt hδ h2 i2 x hk2).mpr ⟨fun h => hnb ((hb x).mpr h), ?_, hm⟩⟩
      rcases hor with h | h | h
      · exact Or.inl ((ht x).mp h)
      · exact Or.inr (Or.inl h)
      · exact Or.inr (Or.inr h)
    · rintro ⟨i, hk, hg⟩
      obtain ⟨hnb, hor, hm⟩ := (exclude_iff_partial K2 gr2 absent δ R M pa pt hδ h2 i x hk).mp hg
      have hx1 : x ∈ K1 := by
        apply hvis x (List.mem_of_getElem? hk)
        rcases hor with ⟨j, r, _, _, hr, _, hc, _⟩ | h | h
        · exact Or.inl ⟨r, List.mem_of_getElem? hr, hc⟩
        · exact Or.inr (Or.inl h)
        · exact Or.inr (Or.inr h)
      obtain ⟨i1, hk1⟩ := idx_of_mem hx1
      refine ⟨i1, hk1, (exclude_iff_partial K1 gr1 absent δ R M pa pt hδ h1 i1 x hk1).mpr ⟨fun h => hnb ((hb x).mp h), ?_, hm⟩⟩
      rcases hor with h | h | h
      · exact Or.inl ((ht x).mpr h)
      · exact Or.inr (Or.inl h)
      · exact Or.inr (Or.inr h)

/-! ### what an event built from a profile and `set_feature_properties` says about a row key -/

theorem marks_iff (chr : String) (δ : Int) (K : List Iv) (isos : List IsoformFeatures) (n : Nat) (gene : List Int) (grp : String)
    (v : Int) (k : CoordKey) :
    marks coordKey v k { profile := gene, pmap := setFeatureProperties chr δ K isos n, group := grp } = true ↔
      k.1 = chr ∧ ∃ i : Nat, K[i]? = some (k.2.1, k.2.2) ∧ gene[i]? = some v := by
  simp only [marks, List.any_eq_true, Bool.and_eq_true, beq_iff_eq]
  constructor
  · rintro ⟨p, hp, hpv, hpk⟩
    obtain ⟨i, hi⟩ := List.mem_iff_getElem?.mp hp
    obtain ⟨hg, hm⟩ := List.getElem?_zip_eq_some.mp hi
    have hlt : i < K.length := by
      have := (List.getElem?_eq_some_iff.mp hm).1
      rwa [setFeatureProperties_length] at this
    obtain ⟨fi, hfi, _, hc, hs, he, _⟩ := setFeatureProperties_get chr δ K isos n i K[i] (List.getElem?_eq_getElem hlt)
    rw [hm] at hfi; cases hfi
    simp only [coordKey] at hpk
    refine ⟨by rw [← hpk, hc], i, ?_, by rw [hg, hpv]⟩
    rw [List.getElem?_eq_getElem hlt, ← hpk]
    simp only [Option.some.injEq]
    exact Prod.ext hs.symm he.symm
  · rintro ⟨hc, i, hk, hg⟩
    obtain ⟨fi, hfi, _, hc', hs, he, _⟩ := setFeatureProperties_get chr δ K isos n i _ hk
    refine ⟨(v, fi), ?_, rfl, ?_⟩
    · exact List.mem_iff_getElem?.mpr ⟨i, List.getElem?_zip_eq_some.mpr ⟨hg, hfi⟩⟩
    · simp only [coordKey, hc', hs, he]
      rw [← hc]

/-- an event `profile ↦ (gene profile, property map of K, group)` says `(v, k, g)` iff the profile exists, the group is `g`, the
    key is on the chromosome and the profile has `v` at the position of the feature with the coordinates of `k` -/
theorem says_iff (chr : String) (δ : Int) (K : List Iv) (isos : List IsoformFeatures) (n : Nat) (prof : Option ProfileResult)
    (grp : String) (ignore : Bool) (dflt : String) (v : Int) (k : CoordKey) (g : String) :
    (prof.map (fun p => ({ profile := p.gene, pmap := setFeatureProperties chr δ K isos n, group := grp } : ReadEv))).any
        (fun ev => groupOf ignore dflt ev == g && marks coordKey v k ev) = true ↔
      ∃ p, prof = some p ∧ (if ignore then dflt else grp) = g ∧ k.1 = chr ∧
        ∃ i : Nat, K[i]? = some (k.2.1, k.2.2) ∧ p.gene[i]? = some v := by
  cases prof with
  | none => simp
  | some p =>
    simp only [Option.map_some, Option.any_some, Bool.and_eq_true, beq_iff_eq, marks_iff, groupOf, Option.some.injEq, exists_eq_left']

end IsoVerif.Lemmas.C13Local
