/-
C11 helper lemmas — Model/Bed.lean under translation and reflection.
-/
import IsoVerif.Gen.Prims
import IsoVerif.Model.Bed
import IsoVerif.Model.C11Symmetry
import IsoVerif.Model.C11SymBedCorr
import IsoVerif.Lemmas.C11Shift
import IsoVerif.Lemmas.C11Mirror

namespace IsoVerif.Lemmas.C11
open IsoVerif.Gen IsoVerif.Model IsoVerif.Model.C14 IsoVerif.Model.C11

/-! ## Model/Bed.lean -/

theorem bedRecord_lengths {chrom name strand : String} {exons : List Iv} {r : BedRecord}
    (h : bedRecord chrom name strand exons = some r) : r.blockStarts.length = r.blockSizes.length := by
  simp only [bedRecord] at h
  split at h
  · simp only [Option.some.injEq] at h; subst h; simp
  · simp at h

theorem bedRecord_shift (k : Int) (chrom name strand : String) (exons : List Iv) :
    bedRecord chrom name strand (shiftL k exons) = (bedRecord chrom name strand exons).map (shiftBed k) := by
  simp only [bedRecord, shiftL_head?, shiftL_getLast?, shiftL_length]
  cases h1 : exons.head? <;> cases h2 : exons.getLast? <;> simp only [Option.map_none, Option.map_some]
  rename_i f l
  simp only [shiftBed, shiftIv_fst, shiftIv_snd, shiftL, List.map_map, Option.some.injEq, BedRecord.mk.injEq,
    true_and]
  refine ⟨by omega, by omega, by omega, ?_, ?_⟩
  · apply List.map_congr_left; intro e _; simp only [Function.comp, shiftIv_fst, shiftIv_snd]; omega
  · apply List.map_congr_left; intro e _; simp only [Function.comp, shiftIv_fst]; omega

theorem blocks_shiftBed (k : Int) (r : BedRecord) : (shiftBed k r).blocks = shiftL k r.blocks := by
  simp only [BedRecord.blocks, shiftBed, shiftL, List.map_map]
  apply List.map_congr_left; intro q _
  simp only [Function.comp, shiftIv]; ext <;> simp <;> omega

theorem bedRecord_mirror (L : Int) (chrom name strand strand' : String) (exons : List Iv) :
    bedRecord chrom name strand' (mirrorL L exons) = (bedRecord chrom name strand exons).map (mirrorBed L strand') := by
  cases exons with
  | nil => rfl
  | cons a t =>
    obtain ⟨l, hl⟩ : ∃ l, (a :: t).getLast? = some l := by
      cases h' : (a :: t).getLast? with
      | none => simp at h'
      | some l => exact ⟨l, rfl⟩
    simp only [bedRecord, mirrorL_head?, mirrorL_getLast?, mirrorL_length, hl, List.head?_cons, Option.map_some]
    simp only [mirrorBed, mirrorIv_fst, mirrorIv_snd, mirrorL, List.map_reverse, List.map_map, Option.some.injEq,
      BedRecord.mk.injEq, true_and, List.zip_map']
    refine ⟨by omega, by omega, by omega, by omega, ?_, ?_⟩
    · congr 1; apply List.map_congr_left; intro e _
      simp only [Function.comp, mirrorIv_fst, mirrorIv_snd]; omega
    · congr 1; apply List.map_congr_left; intro e _
      simp only [Function.comp, mirrorIv_fst, mirrorIv_snd]; omega

theorem bed_zip_map_fst_snd (g : Int × Int → Int) : ∀ (s z : List Int), s.length = z.length →
    List.zip ((List.zip s z).map g) z = (List.zip s z).map (fun q => (g q, q.2))
  | [], _, _ => by simp
  | _ :: _, [], h => by simp at h
  | a :: s, b :: z, h => by
    simp only [List.zip_cons_cons, List.map_cons, List.cons.injEq, true_and]
    exact bed_zip_map_fst_snd g s z (by simpa using h)

theorem blocks_mirrorBed (L : Int) (strand' : String) (r : BedRecord)
    (h : r.blockStarts.length = r.blockSizes.length) :
    (mirrorBed L strand' r).blocks = mirrorL L r.blocks := by
  simp only [BedRecord.blocks, mirrorBed, mirrorL]
  have hl : ((List.zip r.blockStarts r.blockSizes).map
      (fun q => (r.chromEnd - r.chromStart) - (q.1 + q.2))).length = r.blockSizes.length := by
    simp [h]
  rw [List.zip_eq_zipWith, ← List.reverse_zipWith hl, ← List.zip_eq_zipWith, bed_zip_map_fst_snd _ _ _ h,
    List.map_reverse, List.map_map, List.map_map]
  congr 1
  apply List.map_congr_left; intro q _
  simp only [Function.comp, mirrorIv]; ext <;> simp <;> omega

end IsoVerif.Lemmas.C11
