/-
C11 helper lemmas — reflection of the assigner model (Model/Assign.lean, property C01): event tables and penalties,
the two index loops of `categorize_exon_elongation_subtype`, the polyA / polyT pair of src/polya_verification.py as
modelled for C01, candidate selection.  All names carry the prefix `am_` (assigner, mirror).
-/
import IsoVerif.Model.C11SymAssignMirror
import IsoVerif.Lemmas.C11Mirror

namespace IsoVerif.Lemmas.C11
open IsoVerif.Gen IsoVerif.Model IsoVerif.Model.C01 IsoVerif.Model.C11 IsoVerif.Lemmas

/-! ## events, costs -/

theorem am_swapLR_swapLR (e : MatchEventSubtype) : swapLR (swapLR e) = e := by cases e <;> rfl

theorem am_swapLR_eq_iff (a b : MatchEventSubtype) : swapLR a = b ↔ a = swapLR b := by
  constructor
  · intro h; rw [← h, am_swapLR_swapLR]
  · intro h; rw [h, am_swapLR_swapLR]

@[simp] theorem am_mirrorEvent_ty (L : Int) (n : Nat) (e : Event) : (mirrorEvent L n e).ty = swapLR e.ty := rfl

theorem am_eventCount_mirror (L : Int) (n : Nat) (e : Event) : eventCount (mirrorEvent L n e) = eventCount e := by
  rcases e with ⟨ty, ir, rr, info⟩
  cases ty <;> simp [eventCount, mirrorEvent, swapLR, isTermMisTy]

theorem am_penaltyOf_append (p : Params) (l1 l2 : List Event) :
    penaltyOf p (l1 ++ l2) = (match penaltyOf p l1, penaltyOf p l2 with
      | some a, some b => some (a + b)
      | _, _ => none) := by
  induction l1 with
  | nil => cases h : penaltyOf p l2 <;> simp [penaltyOf, h, Rat.zero_add]
  | cons e es ih =>
    simp only [List.cons_append, penaltyOf, ih]
    cases eventCost p e <;> cases penaltyOf p es <;> cases penaltyOf p l2 <;> simp [Rat.add_assoc]

/-! ## `categorize_exon_elongation_subtype` -/

theorem am_endEvents_mirror (p : Params) (L : Int) (n : Nat) (terminal : Bool) (extra : Int) :
    (endEvents p terminal extra .terminal_site_match_left_precise .terminal_site_match_left
        .major_exon_elongation_left .exon_elongation_left).map (mirrorEvent L n)
      = endEvents p terminal extra .terminal_site_match_right_precise .terminal_site_match_right
        .major_exon_elongation_right .exon_elongation_right ∧
    (endEvents p terminal extra .terminal_site_match_right_precise .terminal_site_match_right
        .major_exon_elongation_right .exon_elongation_right).map (mirrorEvent L n)
      = endEvents p terminal extra .terminal_site_match_left_precise .terminal_site_match_left
        .major_exon_elongation_left .exon_elongation_left := by
  simp only [endEvents]
  constructor <;> (repeat' split) <;> simp [mirrorEvent, swapLR, isPolyaSiteTy, isTermMisTy]

theorem am_overlaps_mirror (L : Int) (a b : Iv) : overlaps (mirrorIv L a) (mirrorIv L b) = overlaps a b := by
  simp only [overlaps, mirrorIv]; grind

theorem am_elongLeftOf_mirror (p : Params) (L : Int) (n nEx : Nat) (isoLast cl : Int) (lr sl : Iv) :
    elongLeftOf p ((n : Int) - (isoLast + 1)) ((n : Int) - 1 - cl) (mirrorIv L lr) (mirrorIv L sl)
      = (elongRightOf p isoLast cl lr sl).map (mirrorEvent L nEx) := by
  simp only [elongLeftOf, elongRightOf, am_overlaps_mirror]
  split
  · rw [(am_endEvents_mirror p L nEx _ _).2]
    have e1 : decide ((n : Int) - 1 - cl = (n : Int) - (isoLast + 1)) = decide (cl = isoLast) := by
      apply decide_eq_decide.mpr; omega
    have e2 : (mirrorIv L sl).1 - (mirrorIv L lr).1 = lr.2 - sl.2 := by simp only [mirrorIv]; omega
    rw [e1, e2]
  · rfl

theorem am_elongRightOf_mirror (p : Params) (L : Int) (n nEx : Nat) (isoFirst cf : Int) (fr sf : Iv) :
    elongRightOf p ((n : Int) - isoFirst - 1) ((n : Int) - 1 - cf) (mirrorIv L fr) (mirrorIv L sf)
      = (elongLeftOf p isoFirst cf fr sf).map (mirrorEvent L nEx) := by
  simp only [elongLeftOf, elongRightOf, am_overlaps_mirror]
  split
  · rw [(am_endEvents_mirror p L nEx _ _).1]
    have e1 : decide ((n : Int) - 1 - cf = (n : Int) - isoFirst - 1) = decide (cf = isoFirst) := by
      apply decide_eq_decide.mpr; omega
    have e2 : (mirrorIv L fr).2 - (mirrorIv L sf).2 = sf.1 - fr.1 := by simp only [mirrorIv]; omega
    rw [e1, e2]
  · rfl

theorem am_commonFirst_nil_left (B : List Int) (i : Int) : commonFirst [] B i = -1 := by
  cases B <;> rfl

/-- the downward loop over `A`, `B` is the upward loop over the reversed prefixes, index seen from the other end -/
theorem am_commonLast_rev (A B : List Int) (h : A.length = B.length) (m : Nat) (hm : m ≤ A.length) :
    ∃ cl, commonLast A B m ((m : Int) - 1) = some cl ∧
      commonFirst (A.take m).reverse (B.take m).reverse ((A.length : Int) - m) = dualIdx A.length cl ∧
      (cl = -1 ∨ (0 ≤ cl ∧ cl < m)) := by
  induction m with
  | zero => exact ⟨-1, rfl, by simp [commonFirst, dualIdx], Or.inl rfl⟩
  | succ m ih =>
    obtain ⟨cl, h1, h2, h3⟩ := ih (by omega)
    have ha : m < A.length := by omega
    have hb : m < B.length := by omega
    have e1 : (((m + 1 : Nat) : Int) - 1) = (m : Int) := by omega
    have ta : (A.take (m + 1)).reverse = A[m] :: (A.take m).reverse := by
      rw [List.take_add_one, List.reverse_append]; simp [ha]
    have tb : (B.take (m + 1)).reverse = B[m] :: (B.take m).reverse := by
      rw [List.take_add_one, List.reverse_append]; simp [hb]
    rw [e1, ta, tb]
    simp only [commonLast, pyGet?_nonneg, List.getElem?_eq_getElem ha, List.getElem?_eq_getElem hb, commonFirst]
    by_cases c : A[m] = 1 ∧ B[m] = 1
    · refine ⟨m, by simp [c], ?_, Or.inr ⟨by omega, by omega⟩⟩
      simp only [c, and_self, if_true, dualIdx]
      have : ¬ ((m : Int) = -1) := by omega
      simp only [this, if_false]; omega
    · refine ⟨cl, by simp only [c, if_false]; exact h1, ?_, by omega⟩
      simp only [c, if_false]
      have e2 : (A.length : Int) - ((m + 1 : Nat) : Int) + 1 = (A.length : Int) - m := by omega
      rw [e2]; exact h2



theorem am_dualIdx_dualIdx (n : Nat) (x : Int) (h : x = -1 ∨ (0 ≤ x ∧ x < n)) : dualIdx n (dualIdx n x) = x := by
  simp only [dualIdx]; split <;> (try split) <;> omega

/-- the upward loop over the suffixes of `A`, `B` is the downward loop over the reversed lists -/
theorem am_commonFirst_rev (A B : List Int) (h : A.length = B.length) (f : Nat) (hf : f ≤ A.length) :
    ∃ cl, commonLast A.reverse B.reverse (A.length - f) (((A.length - f : Nat) : Int) - 1) = some cl ∧
      commonFirst (A.drop f) (B.drop f) (f : Int) = dualIdx A.length cl ∧
      (cl = -1 ∨ (0 ≤ cl ∧ cl < (A.length - f : Nat))) := by
  obtain ⟨cl, h1, h2, h3⟩ := am_commonLast_rev A.reverse B.reverse (by simp [h]) (A.length - f) (by simp)
  refine ⟨cl, h1, ?_, h3⟩
  have ea : (A.reverse.take (A.length - f)).reverse = A.drop f := by
    rw [List.take_reverse, List.reverse_reverse]; congr 1; omega
  have eb : (B.reverse.take (A.length - f)).reverse = B.drop f := by
    rw [List.take_reverse, List.reverse_reverse]; congr 1; omega
  rw [ea, eb] at h2
  simp only [List.length_reverse] at h2
  have e : (A.length : Int) - ((A.length - f : Nat) : Int) = (f : Int) := by omega
  rw [e] at h2; exact h2

theorem am_commonFirst_of_length_le (A B : List Int) (f : Nat) (i : Int) (hf : A.length ≤ f) :
    commonFirst (A.drop f) (B.drop f) i = -1 := by
  rw [List.drop_eq_nil_of_le hf, am_commonFirst_nil_left]


/-- both loops, both orientations: the results are each other's duals and lie in `{-1} ∪ [0, n)` -/
theorem am_commonEnds_core (A B : List Int) (n : Nat) (hA : A.length = n) (hB : B.length = n) (a b c d : Int)
    (ha : 0 ≤ a) (hb : b ≤ n) (hc : 0 ≤ c) (hd : d ≤ n) :
    ∃ cf cl,
      commonFirst (A.drop (max a c).toNat) (B.drop (max a c).toNat) (max a c) = cf ∧
      commonLast A B (min (b - 1) (d - 1) + 1).toNat (min (b - 1) (d - 1)) = some cl ∧
      commonFirst (A.reverse.drop (max ((n : Int) - b) ((n : Int) - d)).toNat)
        (B.reverse.drop (max ((n : Int) - b) ((n : Int) - d)).toNat) (max ((n : Int) - b) ((n : Int) - d)) = dualIdx n cl ∧
      commonLast A.reverse B.reverse (min ((n : Int) - a - 1) ((n : Int) - c - 1) + 1).toNat
        (min ((n : Int) - a - 1) ((n : Int) - c - 1)) = some (dualIdx n cf) ∧
      (cf = -1 ∨ (0 ≤ cf ∧ cf < n)) ∧ (cl = -1 ∨ (0 ≤ cl ∧ cl < n)) := by
  subst hA
  have hAB : A.length = B.length := hB.symm
  -- second loop of the original / first loop of the mirror image
  have hm : (min (b - 1) (d - 1) + 1).toNat ≤ A.length := by omega
  obtain ⟨cl, l1, l2, l3⟩ := am_commonLast_rev A B hAB _ hm
  -- first loop of the original / second loop of the mirror image
  have key : ∃ cf, commonFirst (A.drop (max a c).toNat) (B.drop (max a c).toNat) (max a c) = cf ∧
      commonLast A.reverse B.reverse (min ((A.length : Int) - a - 1) ((A.length : Int) - c - 1) + 1).toNat
        (min ((A.length : Int) - a - 1) ((A.length : Int) - c - 1)) = some (dualIdx A.length cf) ∧
      (cf = -1 ∨ (0 ≤ cf ∧ cf < A.length)) := by
    by_cases hf : (max a c).toNat ≤ A.length
    · obtain ⟨cl', f1, f2, f3⟩ := am_commonFirst_rev A B hAB _ hf
      have e0 : (((max a c).toNat : Nat) : Int) = max a c := by omega
      rw [e0] at f2
      have e1 : (min ((A.length : Int) - a - 1) ((A.length : Int) - c - 1) + 1).toNat = A.length - (max a c).toNat := by omega
      have e2 : min ((A.length : Int) - a - 1) ((A.length : Int) - c - 1) = ((A.length - (max a c).toNat : Nat) : Int) - 1 := by
        omega
      refine ⟨_, rfl, ?_, ?_⟩
      · rw [e1, e2, f1, f2, am_dualIdx_dualIdx _ _ (by omega)]
      · rw [f2]; simp only [dualIdx]; split <;> omega
    · refine ⟨-1, am_commonFirst_of_length_le A B _ _ (by omega), ?_, Or.inl rfl⟩
      have e1 : (min ((A.length : Int) - a - 1) ((A.length : Int) - c - 1) + 1).toNat = 0 := by omega
      rw [e1]; rfl
  obtain ⟨cf, k1, k2, k3⟩ := key
  refine ⟨cf, cl, k1, ?_, ?_, k2, k3, by omega⟩
  · by_cases h1 : 0 ≤ min (b - 1) (d - 1) + 1
    · have e : (((min (b - 1) (d - 1) + 1).toNat : Nat) : Int) - 1 = min (b - 1) (d - 1) := by omega
      rw [e] at l1; exact l1
    · have e : (min (b - 1) (d - 1) + 1).toNat = 0 := by omega
      rw [e] at l1 ⊢
      simp only [commonLast] at l1 ⊢
      exact l1
  · by_cases h1 : 0 ≤ min (b - 1) (d - 1) + 1
    · have e : ((A.length : Int) - ((min (b - 1) (d - 1) + 1).toNat : Nat)) = max ((A.length : Int) - b) ((A.length : Int) - d) := by
        omega
      have e' : (max ((A.length : Int) - b) ((A.length : Int) - d)).toNat = A.length - (min (b - 1) (d - 1) + 1).toNat := by
        omega
      rw [e] at l2
      rw [e', ← l2]
      congr 1
      · rw [List.drop_reverse]; congr 2; omega
      · rw [List.drop_reverse]; congr 2; omega
    · have e : (min (b - 1) (d - 1) + 1).toNat = 0 := by omega
      rw [e] at l1
      simp only [commonLast, Option.some.injEq] at l1
      subst l1
      rw [am_commonFirst_of_length_le _ _ _ _ (by simp; omega)]
      rfl

theorem am_elongationEvents_eq_sides (g : Gene) (p : Params) (rp : ReadProf) (I : IsoInfo) :
    elongationEvents g p rp I = (elongSides g p rp I).map (fun s => s.1 ++ s.2) := by
  simp only [elongationEvents, elongSides, elongLeftOf, elongRightOf]
  split
  · rfl
  · split
    · rfl
    · split
      · rfl
      · cases commonLast I.splitProf rp.split.gene (min (I.splitRange.2 - 1) (rp.split.range.2 - 1) + 1).toNat
            (min (I.splitRange.2 - 1) (rp.split.range.2 - 1)) with
        | none => rfl
        | some cl =>
          dsimp only
          generalize commonFirst _ _ _ = cf
          generalize rp.blocks.head? = o1
          generalize rp.blocks.getLast? = o2
          generalize pyGet? g.splitExons cf = o3
          generalize pyGet? g.splitExons cl = o4
          cases o1 <;> cases o2 <;> cases o3 <;> cases o4 <;> rfl

theorem am_pyGet?_mirror_dual (L : Int) (l : List Iv) (i : Int) (h0 : 0 ≤ i) (h1 : i < l.length) :
    pyGet? (mirrorL L l) (dualIdx l.length i) = (pyGet? l i).map (mirrorIv L) := by
  have e : i = ((i.toNat : Nat) : Int) := by omega
  have hne : ¬ (i = -1) := by omega
  simp only [dualIdx, hne, if_false]
  rw [e]
  exact pyGet?_mirror L l i.toNat (by omega)

theorem am_mirrorL_getElem?_one (L : Int) (l : List Iv) : (mirrorL L l)[1]? = (l.reverse[1]?).map (mirrorIv L) := by
  simp only [mirrorL, ← List.map_reverse, List.getElem?_map]

theorem am_mirrorL_reverse_getElem?_one (L : Int) (l : List Iv) : (mirrorL L l).reverse[1]? = (l[1]?).map (mirrorIv L) := by
  simp only [mirrorL_reverse, List.getElem?_map]

/-- the exon measured by `categorize_exon_elongation_subtype` (outermost, or the next one behind a short fake terminal
    exon) is reflected with the locus -/
theorem am_measuredExon_mirror (L : Int) (p : Params) (o : Iv) (nx : Option Iv) (s : Iv) :
    measuredExon p (mirrorIv L o) (nx.map (mirrorIv L)) (mirrorIv L s) = mirrorIv L (measuredExon p o nx s) := by
  have hl : interval_len (mirrorIv L o) = interval_len o := by
    simp only [interval_len, mirrorIv]; omega
  cases nx with
  | none => rfl
  | some n =>
    simp only [measuredExon, Option.map_some, am_overlaps_mirror, hl]
    split <;> rfl

theorem am_elongSides_mirror (L : Int) (g : Gene) (p : Params) (rp : ReadProf) (I : IsoInfo) (ni nEx : Nat)
    (wf : ElongWF g rp I) (hc : HasCommon rp I) :
    elongSides (mirrorGene L g) p (mirrorReadProf L g rp) (mirrorIsoInfo L ni g.splitExons.length I)
      = (elongSides g p rp I).map (fun s => (s.2.map (mirrorEvent L nEx), s.1.map (mirrorEvent L nEx))) := by
  obtain ⟨hA, hB, ha, hb, hc', hd⟩ := wf
  obtain ⟨cf, cl, k1, k2, k3, k4, k5, k6⟩ :=
    am_commonEnds_core I.splitProf rp.split.gene g.splitExons.length hA hB I.splitRange.1 I.splitRange.2
      rp.split.range.1 rp.split.range.2 ha hb hc' hd
  obtain ⟨cf0, cl0, h0, hcf, hcl⟩ := hc
  simp only [commonEnds, k1, k2, Option.map_some, Option.some.injEq, Prod.mk.injEq] at h0
  obtain ⟨rfl, rfl⟩ := h0
  have g1 : ¬ (max I.splitRange.1 rp.split.range.1 < 0) := by omega
  have g2 : ¬ (max ((g.splitExons.length : Int) - I.splitRange.2) ((g.splitExons.length : Int) - rp.split.range.2) < 0) := by
    omega
  have g3 : ¬ (I.splitProf.length < g.splitExons.length) := by omega
  have g4 : ¬ (rp.split.gene.length < g.splitExons.length) := by omega
  have eA : pyGet? (mirrorL L g.splitExons) (dualIdx g.splitExons.length cl) = (pyGet? g.splitExons cl).map (mirrorIv L) :=
    am_pyGet?_mirror_dual L _ _ (by omega) (by omega)
  have eB : pyGet? (mirrorL L g.splitExons) (dualIdx g.splitExons.length cf) = (pyGet? g.splitExons cf).map (mirrorIv L) :=
    am_pyGet?_mirror_dual L _ _ (by omega) (by omega)
  have dcl : dualIdx g.splitExons.length cl = (g.splitExons.length : Int) - 1 - cl := by
    simp only [dualIdx, hcl, if_false]
  have dcf : dualIdx g.splitExons.length cf = (g.splitExons.length : Int) - 1 - cf := by
    simp only [dualIdx, hcf, if_false]
  simp only [elongSides, mirrorGene, mirrorReadProf, mirrorIsoInfo, mirrorProfRes, mirrorRange, mirrorL_length,
    List.length_reverse, g1, g2, g3, g4, false_and, if_false, k1, k2, k3, k4, eA, eB, mirrorL_head?, mirrorL_getLast?,
    am_mirrorL_getElem?_one, am_mirrorL_reverse_getElem?_one]
  cases hh : rp.blocks.head? with
  | none =>
    have : rp.blocks = [] := by simpa using hh
    simp [this]
  | some fr =>
    cases hl : rp.blocks.getLast? with
    | none =>
      have : rp.blocks = [] := by simpa using hl
      simp [this] at hh
    | some lr =>
      cases hsf : pyGet? g.splitExons cf with
      | none => simp
      | some sf =>
        cases hsl : pyGet? g.splitExons cl with
        | none => simp
        | some sl =>
          simp only [Option.map_some, dcl, dcf, am_measuredExon_mirror]
          have e1 := am_elongLeftOf_mirror p L g.splitExons.length nEx (I.splitRange.2 - 1) cl
            (measuredExon p lr rp.blocks.reverse[1]? sl) sl
          have e2 := am_elongRightOf_mirror p L g.splitExons.length nEx I.splitRange.1 cf
            (measuredExon p fr rp.blocks[1]? sf) sf
          have a1 : (g.splitExons.length : Int) - (I.splitRange.2 - 1 + 1) = (g.splitExons.length : Int) - I.splitRange.2 := by omega
          rw [a1] at e1
          rw [e1, e2]

/-! ## `check_read_ends` -/

theorem am_is_major_elongation_swap (e : MatchEventSubtype) : (swapLR e).is_major_elongation = e.is_major_elongation := by
  cases e <;> decide
theorem am_is_minor_elongation_swap (e : MatchEventSubtype) : (swapLR e).is_minor_elongation = e.is_minor_elongation := by
  cases e <;> decide

theorem am_elongTypeStep_mirror (L : Int) (n : Nat) (l r : List Event) (ty : ReadAssignmentType) :
    elongTypeStep (r.map (mirrorEvent L n) ++ l.map (mirrorEvent L n)) ty = elongTypeStep (l ++ r) ty := by
  simp only [elongTypeStep, List.any_append, List.any_map, Function.comp_def, am_mirrorEvent_ty,
    am_is_major_elongation_swap, am_is_minor_elongation_swap, Bool.or_comm]

theorem am_checkReadEnds_step (g : Gene) (p : Params) (rp : ReadProf) (I : IsoInfo) (m : IsoMatch)
    (rest : List (IsoInfo × IsoMatch)) (ty : ReadAssignmentType) :
    checkReadEnds g p rp ((I, m) :: rest) ty =
      match elongationEvents g p rp I with
      | none => none
      | some el =>
        match checkReadEnds g p rp rest (elongTypeStep el ty) with
        | none => none
        | some (r, t) => some ((I, { m with events := el.foldl addSub m.events }) :: r, t) := by
  simp only [checkReadEnds, elongTypeStep] <;> rfl

theorem am_checkReadEnds_mirror (L : Int) (g : Gene) (p : Params) (rp : ReadProf) (ms : List (IsoInfo × IsoMatch))
    (ty : ReadAssignmentType) (h : ∀ Im ∈ ms, ElongWF g rp Im.1 ∧ HasCommon rp Im.1) :
    checkReadEnds (mirrorGene L g) p (mirrorReadProf L g rp) (ms.map (mirrorPair L g)) ty
      = checkReadEndsMirrored L g p rp ms ty := by
  induction ms generalizing ty with
  | nil => rfl
  | cons Im rest ih =>
    obtain ⟨I, m⟩ := Im
    have hI := h (I, m) (by simp)
    have e : (mirrorGene L g).introns.length = g.introns.length ∧ (mirrorGene L g).splitExons.length = g.splitExons.length := by
      simp [mirrorGene, mirrorL_length]
    simp only [List.map_cons, mirrorPair, am_checkReadEnds_step, checkReadEndsMirrored, am_elongationEvents_eq_sides,
      am_elongSides_mirror L g p rp I g.introns.length I.exons.length hI.1 hI.2]
    cases elongSides g p rp I with
    | none => rfl
    | some s =>
      dsimp only [Option.map]

      rw [am_elongTypeStep_mirror]
      have ih' := ih (elongTypeStep (s.1 ++ s.2) ty) (fun Im hIm => h Im (by simp [hIm]))
      rw [ih']
      cases checkReadEndsMirrored L g p rp rest (elongTypeStep (s.1 ++ s.2) ty) with
      | none => rfl
      | some rt => simp [mirrorMatch]

theorem am_checkReadEndsMirrored_type (L : Int) (g : Gene) (p : Params) (rp : ReadProf) (ms : List (IsoInfo × IsoMatch))
    (ty : ReadAssignmentType) :
    (checkReadEndsMirrored L g p rp ms ty).map (fun r => (r.1.map (fun Im => Im.1.id), r.2))
      = (checkReadEnds g p rp ms ty).map (fun r => (r.1.map (fun Im => Im.1.id), r.2)) := by
  induction ms generalizing ty with
  | nil => rfl
  | cons Im rest ih =>
    obtain ⟨I, m⟩ := Im
    simp only [am_checkReadEnds_step, checkReadEndsMirrored, am_elongationEvents_eq_sides]
    cases elongSides g p rp I with
    | none => rfl
    | some s =>
      simp only [Option.map_some]
      have ih' := ih (elongTypeStep (s.1 ++ s.2) ty)
      cases h1 : checkReadEndsMirrored L g p rp rest (elongTypeStep (s.1 ++ s.2) ty) <;>
        cases h2 : checkReadEnds g p rp rest (elongTypeStep (s.1 ++ s.2) ty) <;>
        simp_all [mirrorIsoInfo]

/-! ## the polyA / polyT pair (C01 copies) -/

theorem am_shiftPolytLoop_mirror (L pos : Int) (l : List Iv) (d : Int) :
    C01.shiftPolytLoop (L + 1 - pos) (l.map (mirrorIv L)) d = C01.shiftPolyaLoop pos l d := by
  induction l generalizing d with
  | nil => rfl
  | cons e es ih =>
    simp only [List.map_cons, C01.shiftPolytLoop, C01.shiftPolyaLoop, ih, mirrorIv_fst, mirrorIv_snd, interval_len]
    grind

theorem am_shiftPolyaLoop_mirror (L pos : Int) (l : List Iv) (d : Int) :
    C01.shiftPolyaLoop (L + 1 - pos) (l.map (mirrorIv L)) d = C01.shiftPolytLoop pos l d := by
  induction l generalizing d with
  | nil => rfl
  | cons e es ih =>
    simp only [List.map_cons, C01.shiftPolytLoop, C01.shiftPolyaLoop, ih, mirrorIv_fst, mirrorIv_snd, interval_len]
    grind

theorem am_pyGet?_neg_rev {α} (l : List α) (c : Nat) (h0 : 0 < c) (h1 : c < l.length) :
    pyGet? l (-(c : Int) - 1) = l.reverse[c]? := by
  have h2 : ¬ (0 ≤ -(c : Int) - 1) := by omega
  have h3 : -(l.length : Int) ≤ -(c : Int) - 1 := by omega
  simp only [pyGet?, h2, h3, if_false, if_true]
  rw [List.getElem?_reverse h1]
  congr 1; omega

theorem am_shiftPolya_mirror (L : Int) (exons : List Iv) (cnt : Nat) (pos : Int) (hp : pos ≠ -1) (h : L + 1 - pos ≠ -1) :
    C01.shiftPolyt (mirrorL L exons) cnt (L + 1 - pos) = (C01.shiftPolya exons cnt pos).map (mirrorP L) := by
  simp only [C01.shiftPolyt, C01.shiftPolya, mirrorL_length, hp, h, or_false]
  by_cases c : cnt = 0 ∨ cnt = exons.length
  · simp [c, mirrorP]
  · simp only [c, if_false]
    by_cases c2 : cnt > exons.length
    · simp [c2]
    · simp only [c2, if_false]
      rw [am_pyGet?_neg_rev exons cnt (by omega) (by omega)]
      rw [mirrorL_eq_map_reverse, ← List.map_take, am_shiftPolytLoop_mirror]
      simp only [List.getElem?_map]
      cases exons.reverse[cnt]? <;> simp [mirrorP, mirrorIv]; omega

theorem am_shiftPolyt_mirror (L : Int) (exons : List Iv) (cnt : Nat) (pos : Int) (hp : pos ≠ -1) (h : L + 1 - pos ≠ -1) :
    C01.shiftPolya (mirrorL L exons) cnt (L + 1 - pos) = (C01.shiftPolyt exons cnt pos).map (mirrorP L) := by
  simp only [C01.shiftPolyt, C01.shiftPolya, mirrorL_length, hp, h, or_false]
  by_cases c : cnt = 0 ∨ cnt = exons.length
  · simp [c, mirrorP]
  · simp only [c, if_false]
    by_cases c2 : cnt > exons.length
    · simp [c2]
    · simp only [c2, if_false]
      rw [am_pyGet?_neg_rev (mirrorL L exons) cnt (by omega) (by rw [mirrorL_length]; omega)]
      rw [mirrorL_reverse, ← List.map_take, am_shiftPolyaLoop_mirror]
      simp only [List.getElem?_map]
      cases exons[cnt]? <;> simp [mirrorP, mirrorIv]; omega

theorem am_shiftPoly_sentinel (exons : List Iv) (cnt : Nat) :
    C01.shiftPolya exons cnt (-1) = some (-1) ∧ C01.shiftPolyt exons cnt (-1) = some (-1) := by
  simp [C01.shiftPolya, C01.shiftPolyt]

theorem am_countBefore_mirror (L pos : Int) (l : List Iv) :
    countBefore (L + 1 - pos) (l.map (mirrorIv L)) = countBeyond pos l := by
  induction l with
  | nil => rfl
  | cons e es ih =>
    simp only [List.map_cons, countBefore, countBeyond, ih, mirrorIv_snd]
    grind

theorem am_countBeyond_mirror (L pos : Int) (l : List Iv) :
    countBeyond (L + 1 - pos) (l.map (mirrorIv L)) = countBefore pos l := by
  induction l with
  | nil => rfl
  | cons e es ih =>
    simp only [List.map_cons, countBefore, countBeyond, ih, mirrorIv_fst]
    grind

theorem am_countTy_mirror (L : Int) (n : Nat) (evs : List Event) (t : MatchEventSubtype) :
    countTy (evs.map (mirrorEvent L n)) (swapLR t) = countTy evs t := by
  induction evs with
  | nil => rfl
  | cons e es ih =>
    simp only [countTy, List.map_cons, List.filter_cons, am_mirrorEvent_ty] at ih ⊢
    have : (swapLR e.ty = swapLR t) ↔ (e.ty = t) := by
      rw [am_swapLR_eq_iff, am_swapLR_swapLR]
    by_cases c : e.ty = t
    · simp [c, ih]
    · have c' : ¬ (swapLR e.ty = swapLR t) := fun h => c (this.mp h)
      simp [c, c', ih]

theorem am_eraseIdx_map {α β} (f : α → β) (l : List α) (i : Nat) : (l.map f).eraseIdx i = (l.eraseIdx i).map f := by
  induction l generalizing i with
  | nil => rfl
  | cons x xs ih => cases i with
    | zero => rfl
    | succ j => simp [List.eraseIdx, ih]

theorem am_lastIndexOf_mirror (L : Int) (n : Nat) (evs : List Event) (t1 t2 : MatchEventSubtype) :
    lastIndexOf (evs.map (mirrorEvent L n)) (swapLR t1) (swapLR t2) = lastIndexOf evs t1 t2 := by
  have h : ∀ (e : Event) (t : MatchEventSubtype), (swapLR e.ty = swapLR t) ↔ (e.ty = t) := by
    intro e t; rw [am_swapLR_eq_iff, am_swapLR_swapLR]
  simp only [lastIndexOf, List.zipIdx_map, List.filter_map, List.getLast?_map, Option.map_map]
  have e : ((fun (x : Event × Nat) => decide (x.1.ty = swapLR t1 ∨ x.1.ty = swapLR t2)) ∘ Prod.map (mirrorEvent L n) id)
      = (fun (x : Event × Nat) => decide (x.1.ty = t1 ∨ x.1.ty = t2)) := by
    funext x
    simp only [Function.comp, Prod.map, am_mirrorEvent_ty, h]
  rw [e]
  cases (List.filter (fun (x : Event × Nat) => decide (x.1.ty = t1 ∨ x.1.ty = t2)) evs.zipIdx).getLast? <;> rfl

theorem am_eraseLastOf_mirror (L : Int) (n : Nat) (evs : List Event) (t1 t2 : MatchEventSubtype) :
    eraseLastOf (evs.map (mirrorEvent L n)) (swapLR t1) (swapLR t2) = (eraseLastOf evs t1 t2).map (mirrorEvent L n) := by
  simp only [eraseLastOf, am_lastIndexOf_mirror]
  cases lastIndexOf evs t1 t2 with
  | none => rfl
  | some i => exact am_eraseIdx_map _ _ _

theorem am_mirrorPos_ne (L x : Int) (h : PosOK L x) : (mirrorPos L x ≠ -1) ↔ (x ≠ -1) := by
  simp only [mirrorPos, PosOK] at *
  split <;> grind

theorem am_distOrInf_mirror (L stop x : Int) (h : PosOK L x) :
    distOrInf (L + 1 - stop) (mirrorPos L x) = distOrInf stop x := by
  simp only [distOrInf, mirrorPos, PosOK] at *
  by_cases c : x = -1
  · simp [c]
  · have := h c
    simp only [c, if_false, this, ne_eq, not_false_eq_true, if_true, iabs]
    grind

/-- `check_if_close` is self-dual (event type swapped, positions mirrored) -/

theorem am_checkIfClose_mirror (L : Int) (n : Nat) (p : Params) (stop ext int : Int) (evs : List Event)
    (ty : MatchEventSubtype) (hty : isPolyaSiteTy ty = true) (he : PosOK L ext) (hi : PosOK L int) :
    checkIfClose p (L + 1 - stop) (mirrorPos L ext) (mirrorPos L int) (evs.map (mirrorEvent L n)) (swapLR ty)
      = (checkIfClose p stop ext int evs ty).map (List.map (mirrorEvent L n)) := by
  have hnt : isTermMisTy ty = false := by cases ty <;> simp_all [isPolyaSiteTy, isTermMisTy]
  simp only [checkIfClose, am_distOrInf_mirror L stop ext he, am_distOrInf_mirror L stop int hi]
  split
  · rename_i h1
    have : int ≠ -1 := by
      intro c; subst c; simp [distOrInf, leInf] at h1
    simp only [Option.map_some, List.map_append, List.map_cons, List.map_nil, mirrorEvent, hty, hnt, mirrorPos, this,
      if_false, if_true, mirrorP]
    rfl
  · split
    · rename_i h1 h2
      have : ext ≠ -1 := by
        intro c; subst c
        cases hd : distOrInf stop int <;> simp [distOrInf, leInf, hd] at h2
      simp only [Option.map_some, List.map_append, List.map_cons, List.map_nil, mirrorEvent, hty, hnt, mirrorPos, this,
        if_false, if_true, mirrorP]
      rfl
    · rfl

theorem am_mirrorL_take (L : Int) (l : List Iv) (c : Nat) :
    (mirrorL L l).take c = mirrorL L (l.drop (l.length - c)) := by
  simp only [mirrorL]
  rw [List.take_reverse, List.map_drop, List.length_map]

/-- the distance of `detect_reference_exons_beyond_polya / before_polyt` (after fix a2ae069 an absent position is
    infinitely far) does not see the reflection -/
theorem am_tailDist_mirror (L a ext int : Int) (he : PosOK L ext) (hi : PosOK L int) :
    minInf (distOrInf (L + 1 - a) (mirrorPos L ext)) (distOrInf (L + 1 - a) (mirrorPos L int)) = minInf (distOrInf a ext) (distOrInf a int) := by
  simp only [am_distOrInf_mirror L a ext he, am_distOrInf_mirror L a int hi]

theorem am_countBeyond_le (pos : Int) (l : List Iv) : countBeyond pos l ≤ l.length := by
  induction l with
  | nil => simp [countBeyond]
  | cons e es ih => simp only [countBeyond]; split <;> simp <;> omega

theorem am_tailDist_absent (a : Int) : minInf (distOrInf a (-1)) (distOrInf a (-1)) = none := by
  simp [minInf, distOrInf]

/-- no position at all: nothing is detected -/
theorem am_detectBeyond_absent (p : Params) (iso : List Iv) (evs : List Event) :
    detectBeyondPolya p iso (-1) (-1) evs = some (evs, -1, -1) := by
  simp only [detectBeyondPolya, am_tailDist_absent, missedTerminalOk]
  generalize hc : countBeyond _ iso.reverse = c
  have hle : c ≤ iso.length := by rw [← hc]; simpa using am_countBeyond_le _ iso.reverse
  by_cases c1 : c = iso.length ∨ c = 0
  · simp [c1]
  · simp only [c1, if_false]
    rw [am_pyGet?_neg_rev iso c (by omega) (by omega)]
    have h1 : c < iso.reverse.length := by simp; omega
    have h2 : iso ≠ [] := by intro h; simp [h] at h1
    rw [List.getElem?_eq_getElem h1, List.getLast?_eq_some_getLast h2]
    simp

theorem am_termMis_events (L : Int) (n c : Nat) :
    (List.range c).map (fun (i : Nat) => ({ ty := .terminal_exon_misalignment_left, isoRegion := ((i : Int), (i : Int)) } : Event))
      = ((List.range c).map (fun (i : Nat) =>
          ({ ty := .terminal_exon_misalignment_right, isoRegion := ((n : Int) - 2 - i, (n : Int) - 2 - i) } : Event))).map
          (mirrorEvent L n) := by
  rw [List.map_map]
  apply List.map_congr_left
  intro i _
  simp only [Function.comp, mirrorEvent, swapLR, isTermMisTy, isPolyaSiteTy, if_true]
  congr 1
  ext <;> simp <;> omega

theorem am_detectBeyond_mirror_pos (L : Int) (p : Params) (iso : List Iv) (ext int : Int) (evs : List Event)
    (hpos : ext ≠ -1 ∨ int ≠ -1) (he : PosOK L ext) (hi : PosOK L int)
    (hend : ∀ e, iso.getLast? = some e → e.2 ≠ -1) :
    detectBeforePolyt p (mirrorL L iso) (mirrorPos L ext) (mirrorPos L int) (evs.map (mirrorEvent L iso.length))
      = (detectBeyondPolya p iso ext int evs).map
          (fun r => (r.1.map (mirrorEvent L iso.length), mirrorPos L r.2.1, mirrorPos L r.2.2)) := by
  have hp' : (if mirrorPos L int ≠ -1 then mirrorPos L int else mirrorPos L ext)
      = L + 1 - (if int ≠ -1 then int else ext) := by
    simp only [mirrorPos, PosOK] at *
    grind
  simp only [detectBeforePolyt, detectBeyondPolya, hp', mirrorL_length]
  rw [mirrorL_eq_map_reverse, am_countBefore_mirror]
  generalize hc : countBeyond (if int ≠ -1 then int else ext) iso.reverse = c
  by_cases c1 : c = iso.length ∨ c = 0
  · have c1' : c = 0 ∨ c = iso.length := by omega
    simp [c1, c1']
  · have c1' : ¬ (c = 0 ∨ c = iso.length) := by omega
    simp only [c1, c1', if_false]
    have hle : c ≤ iso.length := by
      rw [← hc]
      have : ∀ (pos : Int) (l : List Iv), countBeyond pos l ≤ l.length := by
        intro pos l; induction l with
        | nil => simp [countBeyond]
        | cons e es ih => simp only [countBeyond]; split <;> simp <;> omega
      simpa using this _ iso.reverse
    rw [am_pyGet?_neg_rev iso c (by omega) (by omega)]
    simp only [List.getElem?_map, List.head?_map, List.head?_reverse]
    cases hb : iso.reverse[c]? with
    | none => simp
    | some b =>
      cases hl : iso.getLast? with
      | none => simp
      | some lastE =>
        have e1 : intervalsTotalLength (List.take c (List.map (mirrorIv L) iso.reverse))
            = intervalsTotalLength (iso.drop (iso.length - c)) := by
          rw [← mirrorL_eq_map_reverse, am_mirrorL_take, intervalsTotalLength_mirror]
        have e2 := am_tailDist_mirror L b.2 ext int he hi
        have e3 : mirrorPos L lastE.2 = L + 1 - lastE.2 := by
          simp only [mirrorPos, hend lastE hl, if_false]
        simp only [Option.map_some, e1, mirrorIv_fst, e2]
        split
        · simp only [Option.map_some, List.map_append, am_termMis_events L iso.length c, e3]
        · rfl

theorem am_detectBefore_absent (p : Params) (iso : List Iv) (evs : List Event) :
    detectBeforePolyt p iso (-1) (-1) evs = some (evs, -1, -1) := by
  simp only [detectBeforePolyt, am_tailDist_absent, missedTerminalOk]
  generalize hc : countBefore _ iso = c
  have hle : c ≤ iso.length := by
    rw [← hc]
    have : ∀ (pos : Int) (l : List Iv), countBefore pos l ≤ l.length := by
      intro pos l; induction l with
      | nil => simp [countBefore]
      | cons e es ih => simp only [countBefore]; split <;> simp <;> omega
    exact this _ _
  by_cases c1 : c = 0 ∨ c = iso.length
  · simp [c1]
  · simp only [c1, if_false]
    have h1 : c < iso.length := by omega
    have h2 : iso ≠ [] := by intro h; simp [h] at h1
    rw [List.getElem?_eq_getElem h1, List.head?_eq_some_head h2]
    simp

/-- `detect_reference_exons_beyond_polya ↔ before_polyt`; no hypothesis beyond the sentinel collisions -/
theorem am_detectBeyond_mirror (L : Int) (p : Params) (iso : List Iv) (ext int : Int) (evs : List Event)
    (he : PosOK L ext) (hi : PosOK L int) (hend : ∀ e, iso.getLast? = some e → e.2 ≠ -1) :
    detectBeforePolyt p (mirrorL L iso) (mirrorPos L ext) (mirrorPos L int) (evs.map (mirrorEvent L iso.length))
      = (detectBeyondPolya p iso ext int evs).map
          (fun r => (r.1.map (mirrorEvent L iso.length), mirrorPos L r.2.1, mirrorPos L r.2.2)) := by
  by_cases hpos : ext ≠ -1 ∨ int ≠ -1
  · exact am_detectBeyond_mirror_pos L p iso ext int evs hpos he hi hend
  · have h1 : ext = -1 := by omega
    have h2 : int = -1 := by omega
    subst h1; subst h2
    simp [mirrorPos, am_detectBeyond_absent, am_detectBefore_absent]

theorem am_mirrorL_drop (L : Int) (l : List Iv) (c : Nat) (h : c ≤ l.length) :
    (mirrorL L l).drop (l.length - c) = mirrorL L (l.take c) := by
  simp only [mirrorL]
  rw [List.drop_reverse, List.map_take, List.length_map]
  congr 2; omega

theorem am_termMis_events' (L : Int) (n c : Nat) :
    (List.range c).map (fun (i : Nat) =>
          ({ ty := .terminal_exon_misalignment_right, isoRegion := ((n : Int) - 2 - i, (n : Int) - 2 - i) } : Event))
      = ((List.range c).map (fun (i : Nat) =>
          ({ ty := .terminal_exon_misalignment_left, isoRegion := ((i : Int), (i : Int)) } : Event))).map (mirrorEvent L n) := by
  rw [List.map_map]
  apply List.map_congr_left
  intro i _
  simp only [Function.comp, mirrorEvent, swapLR, isTermMisTy, isPolyaSiteTy, if_true]
  rfl

theorem am_countBefore_le (pos : Int) (l : List Iv) : countBefore pos l ≤ l.length := by
  induction l with
  | nil => simp [countBefore]
  | cons e es ih => simp only [countBefore]; split <;> simp <;> omega

theorem am_detectBefore_mirror_pos (L : Int) (p : Params) (iso : List Iv) (ext int : Int) (evs : List Event)
    (hpos : ext ≠ -1 ∨ int ≠ -1) (he : PosOK L ext) (hi : PosOK L int)
    (hstart : ∀ e, iso.head? = some e → e.1 ≠ -1) :
    detectBeyondPolya p (mirrorL L iso) (mirrorPos L ext) (mirrorPos L int) (evs.map (mirrorEvent L iso.length))
      = (detectBeforePolyt p iso ext int evs).map
          (fun r => (r.1.map (mirrorEvent L iso.length), mirrorPos L r.2.1, mirrorPos L r.2.2)) := by
  have hp' : (if mirrorPos L int ≠ -1 then mirrorPos L int else mirrorPos L ext)
      = L + 1 - (if int ≠ -1 then int else ext) := by
    simp only [mirrorPos, PosOK] at *
    grind
  simp only [detectBeforePolyt, detectBeyondPolya, hp', mirrorL_length]
  rw [mirrorL_reverse, am_countBeyond_mirror]
  generalize hc : countBefore (if int ≠ -1 then int else ext) iso = c
  by_cases c1 : c = 0 ∨ c = iso.length
  · have c1' : c = iso.length ∨ c = 0 := by omega
    simp [c1, c1']
  · have c1' : ¬ (c = iso.length ∨ c = 0) := by omega
    simp only [c1, c1', if_false]
    have hle : c ≤ iso.length := by rw [← hc]; exact am_countBefore_le _ _
    rw [am_pyGet?_neg_rev (mirrorL L iso) c (by omega) (by rw [mirrorL_length]; omega), mirrorL_reverse, mirrorL_getLast?]
    simp only [List.getElem?_map]
    cases hb : iso[c]? with
    | none => simp
    | some b =>
      cases hl : iso.head? with
      | none => simp
      | some firstE =>
        have e1 : intervalsTotalLength (List.drop (iso.length - c) (mirrorL L iso)) = intervalsTotalLength (iso.take c) := by
          rw [am_mirrorL_drop L iso c hle, intervalsTotalLength_mirror]
        have e2 := am_tailDist_mirror L b.1 ext int he hi
        have e3 : mirrorPos L firstE.1 = L + 1 - firstE.1 := by
          simp only [mirrorPos, hstart firstE hl, if_false]
        simp only [Option.map_some, e1, mirrorIv_snd, e2]
        split
        · simp only [Option.map_some, List.map_append, am_termMis_events' L iso.length c, e3]
        · rfl

theorem am_detectBefore_mirror (L : Int) (p : Params) (iso : List Iv) (ext int : Int) (evs : List Event)
    (he : PosOK L ext) (hi : PosOK L int) (hstart : ∀ e, iso.head? = some e → e.1 ≠ -1) :
    detectBeyondPolya p (mirrorL L iso) (mirrorPos L ext) (mirrorPos L int) (evs.map (mirrorEvent L iso.length))
      = (detectBeforePolyt p iso ext int evs).map
          (fun r => (r.1.map (mirrorEvent L iso.length), mirrorPos L r.2.1, mirrorPos L r.2.2)) := by
  by_cases hpos : ext ≠ -1 ∨ int ≠ -1
  · exact am_detectBefore_mirror_pos L p iso ext int evs hpos he hi hstart
  · have h1 : ext = -1 := by omega
    have h2 : int = -1 := by omega
    subst h1; subst h2
    simp [mirrorPos, am_detectBeyond_absent, am_detectBefore_absent]

theorem am_shiftPolya_mirrorPos (L : Int) (ex : List Iv) (cnt : Nat) (x : Int) (hx : PosOK L x) :
    C01.shiftPolyt (mirrorL L ex) cnt (mirrorPos L x)
      = (C01.shiftPolya ex cnt x).map (fun r => if x = -1 then -1 else L + 1 - r) := by
  by_cases c : x = -1
  · subst c
    simp [mirrorPos, (am_shiftPoly_sentinel _ cnt).1, (am_shiftPoly_sentinel _ cnt).2]
  · have h1 : mirrorPos L x = L + 1 - x := by simp [mirrorPos, c]
    rw [h1, am_shiftPolya_mirror L ex cnt x c (hx c)]
    simp only [c, if_false]
    rfl

theorem am_shiftPolyt_mirrorPos (L : Int) (ex : List Iv) (cnt : Nat) (x : Int) (hx : PosOK L x) :
    C01.shiftPolya (mirrorL L ex) cnt (mirrorPos L x)
      = (C01.shiftPolyt ex cnt x).map (fun r => if x = -1 then -1 else L + 1 - r) := by
  by_cases c : x = -1
  · subst c
    simp [mirrorPos, (am_shiftPoly_sentinel _ cnt).1, (am_shiftPoly_sentinel _ cnt).2]
  · have h1 : mirrorPos L x = L + 1 - x := by simp [mirrorPos, c]
    rw [h1, am_shiftPolyt_mirror L ex cnt x c (hx c)]
    simp only [c, if_false]
    rfl

/-- the last part of `verify_polya` / `verify_polyt` (after the positions have been corrected) -/
def polyTail (p : Params) (stop ext2 int2 : Int) (evs2 : List Event) (correct alt : MatchEventSubtype) : List Event :=
  match checkIfClose p stop ext2 int2 evs2 correct with
  | some r => r
  | none =>
    let pos := if int2 = -1 then ext2 else int2
    if iabs (pos - stop) > p.apa_delta then evs2 ++ [{ ty := alt, info := pos }]
    else evs2 ++ [{ ty := correct, info := pos }]

theorem am_polyTail_mirror (L : Int) (n : Nat) (p : Params) (stop ext2 int2 : Int) (evs2 : List Event)
    (correct alt : MatchEventSubtype) (h1 : isPolyaSiteTy correct = true) (h2 : isPolyaSiteTy alt = true)
    (he : PosOK L ext2) (hi : PosOK L int2) (hpos : ext2 ≠ -1 ∨ int2 ≠ -1) :
    polyTail p (L + 1 - stop) (mirrorPos L ext2) (mirrorPos L int2) (evs2.map (mirrorEvent L n)) (swapLR correct) (swapLR alt)
      = (polyTail p stop ext2 int2 evs2 correct alt).map (mirrorEvent L n) := by
  have hn1 : isTermMisTy correct = false := by cases correct <;> simp_all [isPolyaSiteTy, isTermMisTy]
  have hn2 : isTermMisTy alt = false := by cases alt <;> simp_all [isPolyaSiteTy, isTermMisTy]
  simp only [polyTail, am_checkIfClose_mirror L n p stop ext2 int2 evs2 correct h1 he hi]
  cases checkIfClose p stop ext2 int2 evs2 correct with
  | some r => rfl
  | none =>
    simp only [Option.map_none]
    have e1 : (if mirrorPos L int2 = -1 then mirrorPos L ext2 else mirrorPos L int2)
        = L + 1 - (if int2 = -1 then ext2 else int2) := by
      simp only [mirrorPos, PosOK] at *; grind
    have e2 : iabs (L + 1 - (if int2 = -1 then ext2 else int2) - (L + 1 - stop)) = iabs ((if int2 = -1 then ext2 else int2) - stop) := by
      simp only [iabs]; grind
    rw [e1, e2]
    by_cases c : p.apa_delta < iabs ((if int2 = -1 then ext2 else int2) - stop) <;>
      simp [c, mirrorEvent, h1, h2, hn1, hn2, mirrorP]

/-- the middle part: correction of the positions (`correct_polya_positions`, misalignment / reference exons) -/
def polyaStep (p : Params) (iso read : List Iv) (pa : PolyA) (evs0 : List Event) (isoEnd : Int) :
    Option (List Event × Int × Int) :=
  let fake := countTy evs0 .fake_terminal_exon_right
  let mis := countTy evs0 .terminal_exon_misalignment_right
  let evs := eraseLastOf evs0 .major_exon_elongation_right .exon_elongation_right
  if fake ≥ read.length then none
  else
    match C01.shiftPolya read fake pa.extA, C01.shiftPolya read fake pa.intA with
    | some ext1, some int1 => if mis > 0 then some (evs, isoEnd, isoEnd) else detectBeyondPolya p iso ext1 int1 evs
    | _, _ => none

theorem am_verifyPolya_eq (p : Params) (iso read : List Iv) (pa : PolyA) (evs0 : List Event) :
    verifyPolya p iso read pa evs0 =
      match iso.getLast? with
      | none => none
      | some lastE =>
        match checkIfClose p lastE.2 pa.extA pa.intA (eraseLastOf evs0 .major_exon_elongation_right .exon_elongation_right)
            .correct_polya_site_right with
        | some r => some r
        | none =>
          (polyaStep p iso read pa evs0 lastE.2).map (fun r =>
            polyTail p lastE.2 r.2.1 r.2.2 r.1 .correct_polya_site_right .alternative_polya_site_right) := by
  simp only [verifyPolya, polyaStep, polyTail]
  cases iso.getLast? with
  | none => rfl
  | some lastE =>
    dsimp only
    cases checkIfClose p lastE.2 pa.extA pa.intA (eraseLastOf evs0 .major_exon_elongation_right .exon_elongation_right)
        .correct_polya_site_right with
    | some r => rfl
    | none =>
      dsimp only
      split
      · rfl
      · cases C01.shiftPolya read (countTy evs0 .fake_terminal_exon_right) pa.extA <;>
          cases C01.shiftPolya read (countTy evs0 .fake_terminal_exon_right) pa.intA <;> try rfl
        by_cases hm : countTy evs0 .terminal_exon_misalignment_right > 0
        · simp only [hm, if_true, Option.map_some]
          generalize checkIfClose _ _ _ _ _ _ = o
          cases o with
          | some r => rfl
          | none => dsimp only; exact (apply_ite some _ _ _).symm
        · simp only [hm, if_false]
          cases detectBeyondPolya p iso _ _ _ with
          | none => rfl
          | some r =>
            obtain ⟨e2, x2, i2⟩ := r
            simp only [Option.map_some]
            generalize checkIfClose _ _ _ _ _ _ = o
            cases o with
            | some r => rfl
            | none => dsimp only; exact (apply_ite some _ _ _).symm

def polytStep (p : Params) (iso read : List Iv) (pa : PolyA) (evs0 : List Event) (isoStart : Int) :
    Option (List Event × Int × Int) :=
  let fake := countTy evs0 .fake_terminal_exon_left
  let mis := countTy evs0 .terminal_exon_misalignment_left
  let evs := eraseLastOf evs0 .major_exon_elongation_left .exon_elongation_left
  if fake ≥ read.length then none
  else
    match C01.shiftPolyt read fake pa.extT, C01.shiftPolyt read fake pa.intT with
    | some ext1, some int1 => if mis > 0 then some (evs, isoStart, isoStart) else detectBeforePolyt p iso ext1 int1 evs
    | _, _ => none

theorem am_verifyPolyt_eq (p : Params) (iso read : List Iv) (pa : PolyA) (evs0 : List Event) :
    verifyPolyt p iso read pa evs0 =
      match iso.head? with
      | none => none
      | some firstE =>
        match checkIfClose p firstE.1 pa.extT pa.intT (eraseLastOf evs0 .major_exon_elongation_left .exon_elongation_left)
            .correct_polya_site_left with
        | some r => some r
        | none =>
          (polytStep p iso read pa evs0 firstE.1).map (fun r =>
            polyTail p firstE.1 r.2.1 r.2.2 r.1 .correct_polya_site_left .alternative_polya_site_left) := by
  simp only [verifyPolyt, polytStep, polyTail]
  cases iso.head? with
  | none => rfl
  | some firstE =>
    dsimp only
    cases checkIfClose p firstE.1 pa.extT pa.intT (eraseLastOf evs0 .major_exon_elongation_left .exon_elongation_left)
        .correct_polya_site_left with
    | some r => rfl
    | none =>
      dsimp only
      split
      · rfl
      · cases C01.shiftPolyt read (countTy evs0 .fake_terminal_exon_left) pa.extT <;>
          cases C01.shiftPolyt read (countTy evs0 .fake_terminal_exon_left) pa.intT <;> try rfl
        by_cases hm : countTy evs0 .terminal_exon_misalignment_left > 0
        · simp only [hm, if_true, Option.map_some]
          generalize checkIfClose _ _ _ _ _ _ = o
          cases o with
          | some r => rfl
          | none => dsimp only; exact (apply_ite some _ _ _).symm
        · simp only [hm, if_false]
          cases detectBeforePolyt p iso _ _ _ with
          | none => rfl
          | some r =>
            obtain ⟨e2, x2, i2⟩ := r
            simp only [Option.map_some]
            generalize checkIfClose _ _ _ _ _ _ = o
            cases o with
            | some r => rfl
            | none => dsimp only; exact (apply_ite some _ _ _).symm

theorem am_detectBeyond_out (p : Params) (iso : List Iv) (ext int : Int) (evs : List Event) (r : List Event × Int × Int)
    (h : detectBeyondPolya p iso ext int evs = some r) :
    (r.2.1 = ext ∧ r.2.2 = int) ∨ (∃ l, iso.getLast? = some l ∧ r.2.1 = l.2 ∧ r.2.2 = l.2) := by
  simp only [detectBeyondPolya] at h
  generalize (if int ≠ -1 then int else ext) = pos at h
  generalize countBeyond pos iso.reverse = c at h
  by_cases c1 : c = iso.length ∨ c = 0
  · simp only [c1, if_true, Option.some.injEq] at h; subst h; exact Or.inl ⟨rfl, rfl⟩
  · simp only [c1, if_false] at h
    cases hb : pyGet? iso (-(c : Int) - 1) with
    | none => simp [hb] at h
    | some b =>
      cases hl : iso.getLast? with
      | none => simp [hb, hl] at h
      | some lastE =>
        simp only [hb, hl] at h
        split at h
        · simp only [Option.some.injEq] at h; subst h; exact Or.inr ⟨lastE, rfl, rfl, rfl⟩
        · simp only [Option.some.injEq] at h; subst h; exact Or.inl ⟨rfl, rfl⟩

theorem am_detectBefore_out (p : Params) (iso : List Iv) (ext int : Int) (evs : List Event) (r : List Event × Int × Int)
    (h : detectBeforePolyt p iso ext int evs = some r) :
    (r.2.1 = ext ∧ r.2.2 = int) ∨ (∃ l, iso.head? = some l ∧ r.2.1 = l.1 ∧ r.2.2 = l.1) := by
  simp only [detectBeforePolyt] at h
  generalize (if int ≠ -1 then int else ext) = pos at h
  generalize countBefore pos iso = c at h
  by_cases c1 : c = 0 ∨ c = iso.length
  · simp only [c1, if_true, Option.some.injEq] at h; subst h; exact Or.inl ⟨rfl, rfl⟩
  · simp only [c1, if_false] at h
    cases hb : iso[c]? with
    | none => simp [hb] at h
    | some b =>
      cases hl : iso.head? with
      | none => simp [hb, hl] at h
      | some firstE =>
        simp only [hb, hl] at h
        split at h
        · simp only [Option.some.injEq] at h; subst h; exact Or.inr ⟨firstE, rfl, rfl, rfl⟩
        · simp only [Option.some.injEq] at h; subst h; exact Or.inl ⟨rfl, rfl⟩

theorem am_posOK_of (L x r : Int) (hs : x = -1 → r = -1) (hn : x ≠ -1 → NoSent L r) :
    PosOK L r ∧ (if x = -1 then -1 else L + 1 - r) = mirrorPos L r ∧ (x ≠ -1 → r ≠ -1) := by
  simp only [PosOK, NoSent, mirrorPos] at *
  by_cases c : x = -1
  · have := hs c; simp [c, this]
  · have := hn c; simp [c, this]

theorem am_polyaStep_mirror (L : Int) (p : Params) (iso read : List Iv) (pa : PolyA) (evs0 : List Event) (lastE : Iv)
    (hl : iso.getLast? = some lastE)
    (h : PolyaMirrorOK L iso read pa.extA pa.intA (countTy evs0 .fake_terminal_exon_right)) :
    polytStep p (mirrorL L iso) (mirrorL L read) (mirrorPolyA L pa) (evs0.map (mirrorEvent L iso.length)) (L + 1 - lastE.2)
      = (polyaStep p iso read pa evs0 lastE.2).map
          (fun r => (r.1.map (mirrorEvent L iso.length), mirrorPos L r.2.1, mirrorPos L r.2.2)) ∧
    ∀ r, polyaStep p iso read pa evs0 lastE.2 = some r → PosOK L r.2.1 ∧ PosOK L r.2.2 ∧ (r.2.1 ≠ -1 ∨ r.2.2 ≠ -1) := by
  obtain ⟨hpos, he, hi, hend, hsh⟩ := h
  simp only [hl] at hend
  have cf : countTy (evs0.map (mirrorEvent L iso.length)) .fake_terminal_exon_left
      = countTy evs0 .fake_terminal_exon_right := am_countTy_mirror L _ evs0 .fake_terminal_exon_right
  have cm : countTy (evs0.map (mirrorEvent L iso.length)) .terminal_exon_misalignment_left
      = countTy evs0 .terminal_exon_misalignment_right := am_countTy_mirror L _ evs0 .terminal_exon_misalignment_right
  have ce : eraseLastOf (evs0.map (mirrorEvent L iso.length)) .major_exon_elongation_left .exon_elongation_left
      = (eraseLastOf evs0 .major_exon_elongation_right .exon_elongation_right).map (mirrorEvent L iso.length) :=
    am_eraseLastOf_mirror L _ evs0 .major_exon_elongation_right .exon_elongation_right
  have e3 : mirrorPos L lastE.2 = L + 1 - lastE.2 := by simp only [mirrorPos, hend.1, if_false]
  simp only [polytStep, polyaStep, cf, cm, ce, mirrorL_length, mirrorPolyA,
    am_shiftPolya_mirrorPos L read _ pa.extA he, am_shiftPolya_mirrorPos L read _ pa.intA hi]
  by_cases hf : countTy evs0 .fake_terminal_exon_right ≥ read.length
  · simp [hf]
  · simp only [hf, if_false]
    cases hs1 : C01.shiftPolya read (countTy evs0 .fake_terminal_exon_right) pa.extA with
    | none => simp
    | some ext1 =>
      cases hs2 : C01.shiftPolya read (countTy evs0 .fake_terminal_exon_right) pa.intA with
      | none => simp
      | some int1 =>
        simp only [hs1, hs2] at hsh
        obtain ⟨n1, n2⟩ := hsh
        have s1 : pa.extA = -1 → ext1 = -1 := by
          intro c; rw [c, (am_shiftPoly_sentinel read _).1] at hs1; simpa using hs1.symm
        have s2 : pa.intA = -1 → int1 = -1 := by
          intro c; rw [c, (am_shiftPoly_sentinel read _).1] at hs2; simpa using hs2.symm
        obtain ⟨pe, me, ne⟩ := am_posOK_of L pa.extA ext1 s1 n1
        obtain ⟨pi, mi, ni⟩ := am_posOK_of L pa.intA int1 s2 n2
        have hpos1 : ext1 ≠ -1 ∨ int1 ≠ -1 := hpos.elim (fun c => Or.inl (ne c)) (fun c => Or.inr (ni c))
        simp only [Option.map_some, me, mi]
        by_cases hm : countTy evs0 .terminal_exon_misalignment_right > 0
        · simp only [hm, if_true, Option.map_some, e3, true_and]
          intro r hr
          simp only [Option.some.injEq] at hr
          subst hr
          have : PosOK L lastE.2 := fun _ => hend.2
          exact ⟨this, this, Or.inl hend.1⟩
        · simp only [hm, if_false]
          refine ⟨am_detectBeyond_mirror L p iso ext1 int1 _ pe pi (fun e he' => ?_), ?_⟩
          · rw [hl] at he'; simp only [Option.some.injEq] at he'; subst he'; exact hend.1
          · intro r hr
            rcases am_detectBeyond_out p iso ext1 int1 _ r hr with ⟨a, b⟩ | ⟨l, a, b, c⟩
            · rw [a, b]; exact ⟨pe, pi, hpos1⟩
            · rw [hl] at a; simp only [Option.some.injEq] at a; subst a
              rw [b, c]
              have : PosOK L lastE.2 := fun _ => hend.2
              exact ⟨this, this, Or.inl hend.1⟩

theorem am_verifyPolya_mirror (L : Int) (p : Params) (iso read : List Iv) (pa : PolyA) (evs0 : List Event)
    (h : PolyaMirrorOK L iso read pa.extA pa.intA (countTy evs0 .fake_terminal_exon_right)) :
    verifyPolyt p (mirrorL L iso) (mirrorL L read) (mirrorPolyA L pa) (evs0.map (mirrorEvent L iso.length))
      = (verifyPolya p iso read pa evs0).map (List.map (mirrorEvent L iso.length)) := by
  rw [am_verifyPolyt_eq, am_verifyPolya_eq, mirrorL_head?]
  cases hl : iso.getLast? with
  | none => rfl
  | some lastE =>
    have ce : eraseLastOf (evs0.map (mirrorEvent L iso.length)) .major_exon_elongation_left .exon_elongation_left
        = (eraseLastOf evs0 .major_exon_elongation_right .exon_elongation_right).map (mirrorEvent L iso.length) :=
      am_eraseLastOf_mirror L _ evs0 .major_exon_elongation_right .exon_elongation_right
    have c1 := am_checkIfClose_mirror L iso.length p lastE.2 pa.extA pa.intA
      (eraseLastOf evs0 .major_exon_elongation_right .exon_elongation_right) .correct_polya_site_right rfl h.2.1 h.2.2.1
    obtain ⟨st, pr⟩ := am_polyaStep_mirror L p iso read pa evs0 lastE hl h
    simp only [Option.map_some, mirrorIv_fst, ce]
    have e1 : (mirrorPolyA L pa).extT = mirrorPos L pa.extA := rfl
    have e2 : (mirrorPolyA L pa).intT = mirrorPos L pa.intA := rfl
    rw [e1, e2]
    have c1' : checkIfClose p (L + 1 - lastE.2) (mirrorPos L pa.extA) (mirrorPos L pa.intA)
        ((eraseLastOf evs0 .major_exon_elongation_right .exon_elongation_right).map (mirrorEvent L iso.length))
        .correct_polya_site_left = _ := c1
    rw [c1', st]
    cases checkIfClose p lastE.2 pa.extA pa.intA (eraseLastOf evs0 .major_exon_elongation_right .exon_elongation_right)
        .correct_polya_site_right with
    | some r => rfl
    | none =>
      simp only [Option.map_none]
      cases hs : polyaStep p iso read pa evs0 lastE.2 with
      | none => rfl
      | some r =>
        obtain ⟨q1, q2, q3⟩ := pr r hs
        simp only [Option.map_some]
        exact congrArg some (am_polyTail_mirror L iso.length p lastE.2 r.2.1 r.2.2 r.1 .correct_polya_site_right
          .alternative_polya_site_right rfl rfl q1 q2 q3)

theorem am_polytStep_mirror (L : Int) (p : Params) (iso read : List Iv) (pa : PolyA) (evs0 : List Event) (firstE : Iv)
    (hl : iso.head? = some firstE)
    (h : PolytMirrorOK L iso read pa.extT pa.intT (countTy evs0 .fake_terminal_exon_left)) :
    polyaStep p (mirrorL L iso) (mirrorL L read) (mirrorPolyA L pa) (evs0.map (mirrorEvent L iso.length)) (L + 1 - firstE.1)
      = (polytStep p iso read pa evs0 firstE.1).map
          (fun r => (r.1.map (mirrorEvent L iso.length), mirrorPos L r.2.1, mirrorPos L r.2.2)) ∧
    ∀ r, polytStep p iso read pa evs0 firstE.1 = some r → PosOK L r.2.1 ∧ PosOK L r.2.2 ∧ (r.2.1 ≠ -1 ∨ r.2.2 ≠ -1) := by
  obtain ⟨hpos, he, hi, hend, hsh⟩ := h
  simp only [hl] at hend
  have cf : countTy (evs0.map (mirrorEvent L iso.length)) .fake_terminal_exon_right
      = countTy evs0 .fake_terminal_exon_left := am_countTy_mirror L _ evs0 .fake_terminal_exon_left
  have cm : countTy (evs0.map (mirrorEvent L iso.length)) .terminal_exon_misalignment_right
      = countTy evs0 .terminal_exon_misalignment_left := am_countTy_mirror L _ evs0 .terminal_exon_misalignment_left
  have ce : eraseLastOf (evs0.map (mirrorEvent L iso.length)) .major_exon_elongation_right .exon_elongation_right
      = (eraseLastOf evs0 .major_exon_elongation_left .exon_elongation_left).map (mirrorEvent L iso.length) :=
    am_eraseLastOf_mirror L _ evs0 .major_exon_elongation_left .exon_elongation_left
  have e3 : mirrorPos L firstE.1 = L + 1 - firstE.1 := by simp only [mirrorPos, hend.1, if_false]
  simp only [polyaStep, polytStep, cf, cm, ce, mirrorL_length, mirrorPolyA,
    am_shiftPolyt_mirrorPos L read _ pa.extT he, am_shiftPolyt_mirrorPos L read _ pa.intT hi]
  by_cases hf : countTy evs0 .fake_terminal_exon_left ≥ read.length
  · simp [hf]
  · simp only [hf, if_false]
    cases hs1 : C01.shiftPolyt read (countTy evs0 .fake_terminal_exon_left) pa.extT with
    | none => simp
    | some ext1 =>
      cases hs2 : C01.shiftPolyt read (countTy evs0 .fake_terminal_exon_left) pa.intT with
      | none => simp
      | some int1 =>
        simp only [hs1, hs2] at hsh
        obtain ⟨n1, n2⟩ := hsh
        have s1 : pa.extT = -1 → ext1 = -1 := by
          intro c; rw [c, (am_shiftPoly_sentinel read _).2] at hs1; simpa using hs1.symm
        have s2 : pa.intT = -1 → int1 = -1 := by
          intro c; rw [c, (am_shiftPoly_sentinel read _).2] at hs2; simpa using hs2.symm
        obtain ⟨pe, me, ne⟩ := am_posOK_of L pa.extT ext1 s1 n1
        obtain ⟨pi, mi, ni⟩ := am_posOK_of L pa.intT int1 s2 n2
        have hpos1 : ext1 ≠ -1 ∨ int1 ≠ -1 := hpos.elim (fun c => Or.inl (ne c)) (fun c => Or.inr (ni c))
        simp only [Option.map_some, me, mi]
        by_cases hm : countTy evs0 .terminal_exon_misalignment_left > 0
        · simp only [hm, if_true, Option.map_some, e3, true_and]
          intro r hr
          simp only [Option.some.injEq] at hr
          subst hr
          have : PosOK L firstE.1 := fun _ => hend.2
          exact ⟨this, this, Or.inl hend.1⟩
        · simp only [hm, if_false]
          refine ⟨am_detectBefore_mirror L p iso ext1 int1 _ pe pi (fun e he' => ?_), ?_⟩
          · rw [hl] at he'; simp only [Option.some.injEq] at he'; subst he'; exact hend.1
          · intro r hr
            rcases am_detectBefore_out p iso ext1 int1 _ r hr with ⟨a, b⟩ | ⟨l, a, b, c⟩
            · rw [a, b]; exact ⟨pe, pi, hpos1⟩
            · rw [hl] at a; simp only [Option.some.injEq] at a; subst a
              rw [b, c]
              have : PosOK L firstE.1 := fun _ => hend.2
              exact ⟨this, this, Or.inl hend.1⟩

theorem am_verifyPolyt_mirror (L : Int) (p : Params) (iso read : List Iv) (pa : PolyA) (evs0 : List Event)
    (h : PolytMirrorOK L iso read pa.extT pa.intT (countTy evs0 .fake_terminal_exon_left)) :
    verifyPolya p (mirrorL L iso) (mirrorL L read) (mirrorPolyA L pa) (evs0.map (mirrorEvent L iso.length))
      = (verifyPolyt p iso read pa evs0).map (List.map (mirrorEvent L iso.length)) := by
  rw [am_verifyPolya_eq, am_verifyPolyt_eq, mirrorL_getLast?]
  cases hl : iso.head? with
  | none => rfl
  | some firstE =>
    have ce : eraseLastOf (evs0.map (mirrorEvent L iso.length)) .major_exon_elongation_right .exon_elongation_right
        = (eraseLastOf evs0 .major_exon_elongation_left .exon_elongation_left).map (mirrorEvent L iso.length) :=
      am_eraseLastOf_mirror L _ evs0 .major_exon_elongation_left .exon_elongation_left
    have c1 := am_checkIfClose_mirror L iso.length p firstE.1 pa.extT pa.intT
      (eraseLastOf evs0 .major_exon_elongation_left .exon_elongation_left) .correct_polya_site_left rfl h.2.1 h.2.2.1
    obtain ⟨st, pr⟩ := am_polytStep_mirror L p iso read pa evs0 firstE hl h
    simp only [Option.map_some, mirrorIv_snd, ce]
    have e1 : (mirrorPolyA L pa).extA = mirrorPos L pa.extT := rfl
    have e2 : (mirrorPolyA L pa).intA = mirrorPos L pa.intT := rfl
    rw [e1, e2]
    have c1' : checkIfClose p (L + 1 - firstE.1) (mirrorPos L pa.extT) (mirrorPos L pa.intT)
        ((eraseLastOf evs0 .major_exon_elongation_left .exon_elongation_left).map (mirrorEvent L iso.length))
        .correct_polya_site_right = _ := c1
    rw [c1', st]
    cases checkIfClose p firstE.1 pa.extT pa.intT (eraseLastOf evs0 .major_exon_elongation_left .exon_elongation_left)
        .correct_polya_site_left with
    | some r => rfl
    | none =>
      simp only [Option.map_none]
      cases hs : polytStep p iso read pa evs0 firstE.1 with
      | none => rfl
      | some r =>
        obtain ⟨q1, q2, q3⟩ := pr r hs
        simp only [Option.map_some]
        exact congrArg some (am_polyTail_mirror L iso.length p firstE.1 r.2.1 r.2.2 r.1 .correct_polya_site_left
          .alternative_polya_site_left rfl rfl q1 q2 q3)

theorem am_checkInternal_mirror (L : Int) (n : Nat) (pos : Int) (evs : List Event) (incomplete internal : MatchEventSubtype)
    (hp : PosOK L pos) (h1 : isPolyaSiteTy internal = true) (h2 : isTermMisTy incomplete = false) :
    checkInternal (mirrorPos L pos) (evs.map (mirrorEvent L n)) (swapLR incomplete) (swapLR internal)
      = ((checkInternal pos evs incomplete internal).1.map (mirrorEvent L n), (checkInternal pos evs incomplete internal).2) := by
  have h3 : isTermMisTy internal = false := by cases internal <;> simp_all [isPolyaSiteTy, isTermMisTy]
  by_cases c : pos = -1
  · subst c; simp [checkInternal, mirrorPos]
  · have c' : ¬ (mirrorPos L pos = -1) := (am_mirrorPos_ne L pos hp).mpr c
    have hpe : mirrorPos L pos = L + 1 - pos := by simp [mirrorPos, c]
    have hq : ∀ e : Event, (swapLR e.ty = swapLR incomplete) ↔ (e.ty = incomplete) := by
      intro e; rw [am_swapLR_eq_iff, am_swapLR_swapLR]
    have hf : ((fun (e : Event) => decide (e.ty = swapLR incomplete)) ∘ mirrorEvent L n)
        = (fun (e : Event) => decide (e.ty = incomplete)) := by
      funext e; simp only [Function.comp, am_mirrorEvent_ty, hq]
    simp only [checkInternal, c, c', if_false, List.find?_map, hf]
    cases hfind : evs.find? (fun e => decide (e.ty = incomplete)) with
    | none => rfl
    | some e =>
      have hty : e.ty = incomplete := by simpa using List.find?_some hfind
      simp only [Option.map_some, List.map_append, List.map_cons, List.map_nil, Prod.mk.injEq, and_true]
      congr 1
      simp only [mirrorEvent, hty, h1, h2, h3, hpe, mirrorP, if_true] <;> simp

theorem am_map_isEmpty_fix (L : Int) (n : Nat) (e : List Event) :
    (if (e.map (mirrorEvent L n)).isEmpty then [({ ty := MatchEventSubtype.none } : Event)] else e.map (mirrorEvent L n))
      = (if e.isEmpty then [({ ty := MatchEventSubtype.none } : Event)] else e).map (mirrorEvent L n) := by
  cases e <;> rfl

theorem am_mirrorPolyA_extA (L : Int) (pa : PolyA) : (mirrorPolyA L pa).extA = mirrorPos L pa.extT := rfl
theorem am_mirrorPolyA_extT (L : Int) (pa : PolyA) : (mirrorPolyA L pa).extT = mirrorPos L pa.extA := rfl
theorem am_mirrorPolyA_intA (L : Int) (pa : PolyA) : (mirrorPolyA L pa).intA = mirrorPos L pa.intT := rfl
theorem am_mirrorPolyA_intT (L : Int) (pa : PolyA) : (mirrorPolyA L pa).intT = mirrorPos L pa.intA := rfl

/-- `verify_read_ends` before the final "empty list → [none]" step -/
def verifyReadEndsCore (p : Params) (rp : ReadProf) (I : IsoInfo) (evs : List Event) : Option (List Event) :=
  match I.strand with
  | .plus =>
    let ci := checkInternal rp.polya.intA evs .incomplete_intron_retention_right .internal_polya_right
    if !ci.2 && (rp.polya.extA ≠ -1 || rp.polya.intA ≠ -1) then verifyPolya p I.exons rp.blocks rp.polya ci.1
    else some ci.1
  | .minus =>
    let ci := checkInternal rp.polya.intT evs .incomplete_intron_retention_left .internal_polya_left
    if !ci.2 && (rp.polya.extT ≠ -1 || rp.polya.intT ≠ -1) then verifyPolyt p I.exons rp.blocks rp.polya ci.1
    else some ci.1
  | .other => some evs

theorem am_verifyReadEnds_eq (p : Params) (rp : ReadProf) (I : IsoInfo) (evs : List Event) :
    verifyReadEnds p rp I evs = (verifyReadEndsCore p rp I evs).map
      (fun e => if e.isEmpty then [{ ty := MatchEventSubtype.none }] else e) := by
  simp only [verifyReadEnds, verifyReadEndsCore]
  cases I.strand <;> rfl

theorem am_checkInternal_not_internal (pos : Int) (evs : List Event) (a b : MatchEventSubtype)
    (h : (checkInternal pos evs a b).2 = false) : (checkInternal pos evs a b).1 = evs := by
  simp only [checkInternal] at *
  split at h
  · simp_all
  · split at h <;> simp_all

theorem am_verifyReadEndsCore_mirror (L : Int) (g : Gene) (p : Params) (rp : ReadProf) (I : IsoInfo) (evs : List Event)
    (ni ns : Nat) (h : ReadEndsMirrorOK L rp I evs) :
    verifyReadEndsCore p (mirrorReadProf L g rp) (mirrorIsoInfo L ni ns I) (evs.map (mirrorEvent L I.exons.length))
      = (verifyReadEndsCore p rp I evs).map (List.map (mirrorEvent L I.exons.length)) := by
  simp only [verifyReadEndsCore, ReadEndsMirrorOK] at *
  cases hs : I.strand with
  | other => simp [mirrorIsoInfo, mirrorStrand, hs]
  | plus =>
    simp only [hs] at h
    have hpi : PosOK L rp.polya.intA := by
      rcases h with h | h
      · intro c; exact absurd h.2 c
      · exact h.2.2.1
    have hpe : PosOK L rp.polya.extA := by
      rcases h with h | h
      · intro c; exact absurd h.1 c
      · exact h.2.1
    have ci := am_checkInternal_mirror L I.exons.length rp.polya.intA evs .incomplete_intron_retention_right
      .internal_polya_right hpi rfl rfl
    have ci' : checkInternal (mirrorPos L rp.polya.intA) (evs.map (mirrorEvent L I.exons.length))
        .incomplete_intron_retention_left .internal_polya_left = _ := ci
    have n1 := am_mirrorPos_ne L _ hpe
    have n2 := am_mirrorPos_ne L _ hpi
    simp only [mirrorIsoInfo, mirrorStrand, hs, mirrorReadProf, am_mirrorPolyA_extT, am_mirrorPolyA_intT, ci', n1, n2]
    generalize hci : checkInternal rp.polya.intA evs .incomplete_intron_retention_right .internal_polya_right = cr at *
    by_cases hc : (!cr.2 && (decide (rp.polya.extA ≠ -1) || decide (rp.polya.intA ≠ -1))) = true
    · simp only [hc, if_true]
      have hint : cr.2 = false := by simp_all
      have hev : cr.1 = evs := by rw [← hci] at hint ⊢; exact am_checkInternal_not_internal _ _ _ _ hint
      have hpos : rp.polya.extA ≠ -1 ∨ rp.polya.intA ≠ -1 := by simp_all
      rcases h with h | h
      · exact absurd h.1 (by rcases hpos with q | q <;> simp_all)
      · rw [hev]
        exact am_verifyPolya_mirror L p I.exons rp.blocks rp.polya evs h
    · simp only [hc]
      rfl
  | minus =>
    simp only [hs] at h
    have hpi : PosOK L rp.polya.intT := by
      rcases h with h | h
      · intro c; exact absurd h.2 c
      · exact h.2.2.1
    have hpe : PosOK L rp.polya.extT := by
      rcases h with h | h
      · intro c; exact absurd h.1 c
      · exact h.2.1
    have ci := am_checkInternal_mirror L I.exons.length rp.polya.intT evs .incomplete_intron_retention_left
      .internal_polya_left hpi rfl rfl
    have ci' : checkInternal (mirrorPos L rp.polya.intT) (evs.map (mirrorEvent L I.exons.length))
        .incomplete_intron_retention_right .internal_polya_right = _ := ci
    have n1 := am_mirrorPos_ne L _ hpe
    have n2 := am_mirrorPos_ne L _ hpi
    simp only [mirrorIsoInfo, mirrorStrand, hs, mirrorReadProf, am_mirrorPolyA_extA, am_mirrorPolyA_intA, ci', n1, n2]
    generalize hci : checkInternal rp.polya.intT evs .incomplete_intron_retention_left .internal_polya_left = cr at *
    by_cases hc : (!cr.2 && (decide (rp.polya.extT ≠ -1) || decide (rp.polya.intT ≠ -1))) = true
    · simp only [hc, if_true]
      have hint : cr.2 = false := by simp_all
      have hev : cr.1 = evs := by rw [← hci] at hint ⊢; exact am_checkInternal_not_internal _ _ _ _ hint
      have hpos : rp.polya.extT ≠ -1 ∨ rp.polya.intT ≠ -1 := by simp_all
      rcases h with h | h
      · exact absurd h.1 (by rcases hpos with q | q <;> simp_all)
      · rw [hev]
        exact am_verifyPolyt_mirror L p I.exons rp.blocks rp.polya evs h
    · simp only [hc]
      rfl

theorem am_verifyReadEnds_mirror (L : Int) (g : Gene) (p : Params) (rp : ReadProf) (I : IsoInfo) (evs : List Event)
    (ni ns : Nat) (h : ReadEndsMirrorOK L rp I evs) :
    verifyReadEnds p (mirrorReadProf L g rp) (mirrorIsoInfo L ni ns I) (evs.map (mirrorEvent L I.exons.length))
      = (verifyReadEnds p rp I evs).map (List.map (mirrorEvent L I.exons.length)) := by
  rw [am_verifyReadEnds_eq, am_verifyReadEnds_eq, am_verifyReadEndsCore_mirror L g p rp I evs ni ns h]
  cases verifyReadEndsCore p rp I evs with
  | none => rfl
  | some e => exact congrArg some (am_map_isEmpty_fix L _ e)

/-! ## candidate selection -/

theorem am_regionOf_mirror (L : Int) (l : List Iv) : regionOf (mirrorL L l) = (regionOf l).map (mirrorIv L) := by
  simp only [regionOf, mirrorL_head?, mirrorL_getLast?]
  cases l.head? <;> cases l.getLast? <;> simp [mirrorIv]

theorem am_zip_reverse {α β} (A : List α) (B : List β) (h : A.length = B.length) :
    A.reverse.zip B.reverse = (A.zip B).reverse := by
  induction A generalizing B with
  | nil => cases B <;> simp_all
  | cons a as ih =>
    cases B with
    | nil => simp at h
    | cons b bs =>
      simp only [List.length_cons, Nat.add_right_cancel_iff] at h
      simp only [List.reverse_cons, List.zip_cons_cons]
      rw [List.zip_append (by simp [h]), ih bs h]
      rfl

/-- slice `[s, s+n)` of the reversed list = reversed slice of the original seen from the other end -/

theorem am_slice_reverse {α} (Z : List α) (s n : Nat) (h : s + n ≤ Z.length) :
    (Z.reverse.drop (Z.length - s - n)).take n = ((Z.drop s).take n).reverse := by
  rw [List.drop_reverse, List.take_reverse, List.length_take]
  have e1 : Z.length - (Z.length - s - n) = s + n := by omega
  rw [e1, List.drop_take]
  have e2 : min (s + n) Z.length - n = s := by omega
  have e3 : s + n - s = n := by omega
  rw [e2, e3]

/-- `anyRange` of a predicate that reads position `i` of a list: a plain `any` over the slice -/

theorem am_anyRange_slice {α} (p : Int → Option Bool) (Z : List α) (f : α → Bool) (s n : Nat) (h : s + n ≤ Z.length)
    (hp : ∀ (i : Nat) (hi : i < Z.length), p (i : Int) = some (f Z[i])) :
    anyRange p (s : Int) n = some (((Z.drop s).take n).any f) := by
  induction n generalizing s with
  | zero => simp [anyRange]
  | succ n ih =>
    have hs : s < Z.length := by omega
    have e : ((s : Int) + 1) = ((s + 1 : Nat) : Int) := by omega
    simp only [anyRange, hp s hs]
    rw [List.drop_eq_getElem_cons hs, List.take_succ_cons, List.any_cons]
    cases hf : f Z[s] with
    | true => simp
    | false =>
      simp only [Bool.false_or]
      rw [e, ih (s + 1) (by omega)]

theorem am_profile_pair_get (p1 p2 : List Int) (i : Nat) (hi : i < (p1.zip p2).length) :
    pyGet? p1 (i : Int) = some (p1.zip p2)[i].1 ∧ pyGet? p2 (i : Int) = some (p1.zip p2)[i].2 := by
  have h1 : i < p1.length := by simp only [List.length_zip] at hi; omega
  have h2 : i < p2.length := by simp only [List.length_zip] at hi; omega
  simp only [pyGet?_nonneg, List.getElem?_eq_getElem h1, List.getElem?_eq_getElem h2, List.getElem_zip, and_self]

theorem am_hasOverlapping_mirror (p1 p2 : List Int) (n : Nat) (h1 : p1.length = n) (h2 : p2.length = n)
    (rng : Int × Int) (ha : 0 ≤ rng.1) (hb : rng.2 ≤ n) :
    hasOverlappingFeatures p1.reverse p2.reverse (mirrorRange n rng) = hasOverlappingFeatures p1 p2 rng := by
  simp only [hasOverlappingFeatures, List.length_reverse, mirrorRange, h1, h2, ne_eq, not_true_eq_false, if_false]
  have em : ((n : Int) - rng.1 - ((n : Int) - rng.2)).toNat = (rng.2 - rng.1).toNat := by omega
  rw [em]
  generalize hm : (rng.2 - rng.1).toNat = m
  by_cases c : m = 0
  · subst c; rfl
  · have hz : (p1.zip p2).length = n := by simp [List.length_zip, h1, h2]
    have hzr : (p1.reverse.zip p2.reverse).length = n := by simp [List.length_zip, h1, h2]
    have e1 : rng.1 = ((rng.1.toNat : Nat) : Int) := by omega
    have e2 : (n : Int) - rng.2 = ((n - rng.1.toNat - m : Nat) : Int) := by omega
    rw [e2, am_anyRange_slice _ (p1.reverse.zip p2.reverse) (fun ab => ab.1 == 1 && ab.2 == 1) _ _ (by omega)
      (fun i hi => by
        obtain ⟨g1, g2⟩ := am_profile_pair_get p1.reverse p2.reverse i hi
        simp only [g1, g2])]
    rw [e1, am_anyRange_slice _ (p1.zip p2) (fun ab => ab.1 == 1 && ab.2 == 1) _ _ (by omega)
      (fun i hi => by
        obtain ⟨g1, g2⟩ := am_profile_pair_get p1 p2 i hi
        simp only [g1, g2])]
    rw [am_zip_reverse p1 p2 (by omega)]
    have := am_slice_reverse (p1.zip p2) rng.1.toNat m (by omega)
    rw [hz] at this
    simp only [Int.toNat_natCast]
    rw [this, List.any_reverse]

theorem am_filterOpt_map {α β} (f : α → Option Bool) (f' : β → Option Bool) (g : α → β) (l : List α)
    (h : ∀ x ∈ l, f' (g x) = f x) : filterOpt f' (l.map g) = (filterOpt f l).map (List.map g) := by
  induction l with
  | nil => rfl
  | cons x xs ih =>
    have hx := h x (by simp)
    have ih' := ih (fun y hy => h y (by simp [hy]))
    simp only [List.map_cons, filterOpt, hx, ih']
    cases f x with
    | none => rfl
    | some b => cases filterOpt f xs with
      | none => rfl
      | some r => cases b <;> rfl

theorem am_overlap_intervals_mirrorRange (n : Nat) (r1 r2 : Int × Int) :
    overlap_intervals (mirrorRange n r1) (mirrorRange n r2) = mirrorRange n (overlap_intervals r1 r2) := by
  simp only [overlap_intervals, mirrorRange]; ext <;> simp <;> omega

/-- `find_overlapping_isoforms` -/

theorem am_findOverlapping_mirror (L : Int) (g : Gene) (rp : ReadProf) (hint : List IsoInfo)
    (wf : ∀ I ∈ hint, ElongWF g rp I) :
    findOverlapping (mirrorReadProf L g rp) (hint.map (mirrorIsoInfo L g.introns.length g.splitExons.length))
      = (findOverlapping rp hint).map (List.map (mirrorIsoInfo L g.introns.length g.splitExons.length)) := by
  apply am_filterOpt_map
  intro I hI
  obtain ⟨hA, hB, ha, hb, hc, hd⟩ := wf I hI
  simp only [mirrorIsoInfo, mirrorReadProf, mirrorProfRes, am_overlap_intervals_mirrorRange]
  exact am_hasOverlapping_mirror _ _ _ hA hB _ (by simp only [overlap_intervals]; omega)
    (by simp only [overlap_intervals]; omega)

/-- weight of one position in `difference_in_present_features` -/

def diffWeight (ab : Int × Int) : Int :=
  if ab.2 = 0 then 0 else if ab.1 = 0 then 0 else if ab.1 ≠ ab.2 then 1 else 0

theorem am_diffLoop_slice (p1 p2 : List Int) (s n : Nat) (h : s + n ≤ (p1.zip p2).length) :
    diffLoop p1 p2 (s : Int) n = some ((((p1.zip p2).drop s).take n).map diffWeight).sum := by
  induction n generalizing s with
  | zero => simp [diffLoop]
  | succ n ih =>
    have hs : s < (p1.zip p2).length := by omega
    have h1 : s < p1.length := by simp only [List.length_zip] at hs; omega
    have h2 : s < p2.length := by simp only [List.length_zip] at hs; omega
    have e : ((s : Int) + 1) = ((s + 1 : Nat) : Int) := by omega
    simp only [diffLoop, pyGet?_nonneg, List.getElem?_eq_getElem h1, List.getElem?_eq_getElem h2]
    rw [List.drop_eq_getElem_cons hs, List.take_succ_cons, List.map_cons, List.sum_cons, List.getElem_zip, e,
      ih (s + 1) (by omega)]
    simp only [diffWeight]
    by_cases c1 : p2[s] = 0
    · simp [c1]
    · by_cases c2 : p1[s] = 0
      · simp [c1, c2]
      · simp only [c1, c2, if_false, Option.map_some]
        congr 1; omega

theorem am_differenceInPresentFeatures_mirror (p1 p2 : List Int) (n : Nat) (h1 : p1.length = n) (h2 : p2.length = n)
    (rng : Int × Int) (ha : 0 ≤ rng.1) (hb : rng.2 ≤ n) :
    differenceInPresentFeatures p1.reverse p2.reverse (mirrorRange n rng) = differenceInPresentFeatures p1 p2 rng := by
  simp only [differenceInPresentFeatures, List.length_reverse, mirrorRange, h1, h2, ne_eq, not_true_eq_false, if_false]
  have em : ((n : Int) - rng.1 - ((n : Int) - rng.2)).toNat = (rng.2 - rng.1).toNat := by omega
  rw [em]
  generalize hm : (rng.2 - rng.1).toNat = m
  by_cases c : m = 0
  · subst c; rfl
  · have hz : (p1.zip p2).length = n := by simp [List.length_zip, h1, h2]
    have hzr : (p1.reverse.zip p2.reverse).length = n := by simp [List.length_zip, h1, h2]
    have e1 : rng.1 = ((rng.1.toNat : Nat) : Int) := by omega
    have e2 : (n : Int) - rng.2 = ((n - rng.1.toNat - m : Nat) : Int) := by omega
    have q2 := am_diffLoop_slice p1 p2 rng.1.toNat m (by omega)
    rw [← e1] at q2
    rw [e2, am_diffLoop_slice _ _ _ _ (by omega), q2, am_zip_reverse p1 p2 (by omega)]
    have := am_slice_reverse (p1.zip p2) rng.1.toNat m (by omega)
    rw [hz] at this
    rw [this, List.map_reverse, List.sum_reverse]

theorem am_mapOpt_map {α β γ δ} (f : α → Option γ) (f' : β → Option δ) (g : α → β) (k : γ → δ) (l : List α)
    (h : ∀ x ∈ l, f' (g x) = (f x).map k) : mapOpt f' (l.map g) = (mapOpt f l).map (List.map k) := by
  induction l with
  | nil => rfl
  | cons x xs ih =>
    have hx := h x (by simp)
    have ih' := ih (fun y hy => h y (by simp [hy]))
    simp only [List.map_cons, mapOpt, hx, ih']
    cases f x with
    | none => rfl
    | some b => cases mapOpt f xs <;> rfl

theorem am_resolveByScore_map (score score' : IsoInfo → Option Rat) (g : IsoInfo → IsoInfo) (factor : Option Rat)
    (l : List IsoInfo) (h : ∀ x ∈ l, score' (g x) = score x) :
    resolveByScore score' factor (l.map g) = (resolveByScore score factor l).map (List.map g) := by
  simp only [resolveByScore, List.isEmpty_map]
  split
  · rfl
  · rw [am_mapOpt_map (fun I => (score I).map (fun s => (I, s))) (fun I => (score' I).map (fun s => (I, s))) g
        (fun Is => (g Is.1, Is.2)) l (by
          intro x hx; rw [h x hx]; cases score x <;> rfl)]
    cases mapOpt (fun I => (score I).map (fun s => (I, s))) l with
    | none => rfl
    | some scores =>
      simp only [Option.map_some, List.map_map]
      have e : ((fun (x : IsoInfo × Rat) => x.2) ∘ fun Is => (g Is.1, Is.2)) = (fun (x : IsoInfo × Rat) => x.2) := rfl
      rw [e]
      cases maxRat (scores.map (·.2)) with
      | none => rfl
      | some best =>
        cases factor with
        | none => simp [List.filter_map, Function.comp_def]
        | some fc => simp [List.filter_map, Function.comp_def]

theorem am_filterOpt_mem {α} (f : α → Option Bool) (l r : List α) (h : filterOpt f l = some r) : ∀ x ∈ r, x ∈ l := by
  induction l generalizing r with
  | nil => simp only [filterOpt, Option.some.injEq] at h; subst h; simp
  | cons y ys ih =>
    simp only [filterOpt] at h
    cases hf : f y with
    | none => simp [hf] at h
    | some b =>
      cases hr : filterOpt f ys with
      | none => simp [hf, hr] at h
      | some r' =>
        simp only [hf, hr, Option.some.injEq] at h
        subst h
        intro x hx
        cases b
        · exact List.mem_cons_of_mem _ (ih r' hr x (by simpa using hx))
        · simp only [if_true, List.mem_cons] at hx
          rcases hx with rfl | hx
          · simp
          · exact List.mem_cons_of_mem _ (ih r' hr x hx)

theorem am_mapOpt_fst_mem {α β} (f : α → Option β) (l : List α) (r : List (α × β))
    (h : mapOpt (fun x => (f x).map (fun s => (x, s))) l = some r) : ∀ x ∈ r, x.1 ∈ l := by
  induction l generalizing r with
  | nil => simp only [mapOpt, Option.some.injEq] at h; subst h; simp
  | cons y ys ih =>
    simp only [mapOpt] at h
    cases hf : f y with
    | none => simp [hf] at h
    | some b =>
      cases hr : mapOpt (fun x => (f x).map (fun s => (x, s))) ys with
      | none => simp [hf, hr] at h
      | some r' =>
        simp only [hf, hr, Option.map_some, Option.some.injEq] at h
        subst h
        intro x hx
        simp only [List.mem_cons] at hx
        rcases hx with rfl | hx
        · simp
        · exact List.mem_cons_of_mem _ (ih r' hr x hx)

theorem am_resolveByScore_mem (score : IsoInfo → Option Rat) (factor : Option Rat) (l r : List IsoInfo)
    (h : resolveByScore score factor l = some r) : ∀ x ∈ r, x ∈ l := by
  simp only [resolveByScore] at h
  split at h
  · simp only [Option.some.injEq] at h; subst h; simp
  · cases hm : mapOpt (fun I => (score I).map (fun s => (I, s))) l with
    | none => simp [hm] at h
    | some scores =>
      have hmem := am_mapOpt_fst_mem score l scores hm
      simp only [hm] at h
      cases hx : maxRat (scores.map (·.2)) with
      | none => simp [hx] at h
      | some best =>
        simp only [hx] at h
        intro x hxr
        cases factor with
        | none =>
          simp only [Option.some.injEq] at h; subst h
          simp only [List.mem_map, List.mem_filter] at hxr
          obtain ⟨y, ⟨hy, _⟩, rfl⟩ := hxr
          exact hmem y hy
        | some fc =>
          simp only [Option.some.injEq] at h; subst h
          simp only [List.mem_map, List.mem_filter] at hxr
          obtain ⟨y, ⟨hy, _⟩, rfl⟩ := hxr
          exact hmem y hy

end IsoVerif.Lemmas.C11
