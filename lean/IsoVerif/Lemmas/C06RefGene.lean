/-
Lemmas for C06: `select_reference_gene` — an insertion-ordered count dict filled from set iterations, consumed by a
sort whose key is a total order on the items.
-/
import IsoVerif.Model.Schedule
import IsoVerif.Lemmas.Schedule

namespace IsoVerif.Lemmas.C06
open IsoVerif.Model.C06

/-- a stable sort by a total, transitive, antisymmetric comparison depends only on the multiset of its input -/
theorem isort_eq_of_perm {α : Type} (le : α → α → Bool)
    (trans : ∀ a b c, le a b = true → le b c = true → le a c = true)
    (total : ∀ a b, le a b = true ∨ le b a = true)
    (antisymm : ∀ a b, le a b = true → le b a = true → a = b)
    {l l' : List α} (h : l.Perm l') : isort le l = isort le l' := by
  apply List.Perm.eq_of_pairwise (le := fun a b => le a b = true)
  · intro a b _ _ hab hba; exact antisymm a b hab hba
  · exact isort_pairwise le trans total l
  · exact isort_pairwise le trans total l'
  · exact (isort_perm le l).trans (h.trans (isort_perm le l').symm)

theorem lookup_bumpCount (g k : String) : ∀ d : List (String × Nat),
    (bumpCount d g).lookup k = if k = g then some ((d.lookup g).getD 0 + 1) else d.lookup k
  | [] => by
    by_cases h : k = g
    · subst h; simp [bumpCount, List.lookup]
    · have : (k == g) = false := by simp [h]
      simp [bumpCount, List.lookup, this, h]
  | (k', v) :: rest => by
    have ih := lookup_bumpCount g k rest
    unfold bumpCount
    by_cases hk' : k' = g
    · subst hk'
      simp only [beq_self_eq_true, if_true]
      by_cases h : k = k'
      · subst h; simp [List.lookup]
      · have : (k == k') = false := by simp [h]
        simp [List.lookup, this, h]
    · have hb : (k' == g) = false := by simp [hk']
      simp only [hb, Bool.false_eq_true, if_false]
      by_cases h : k = k'
      · subst h
        have : k ≠ g := hk'
        simp [List.lookup, this]
      · have hb2 : (k == k') = false := by simp [h]
        have hg : (g == k') = false := by simp [Ne.symm hk']
        simp only [List.lookup, hb2, hg]
        exact ih

theorem lookup_foldl_bumpCount (k : String) : ∀ (l : List String) (d : List (String × Nat)),
    (l.foldl bumpCount d).lookup k
      = if l.count k = 0 then d.lookup k else some ((d.lookup k).getD 0 + l.count k)
  | [], d => by simp
  | g :: gs, d => by
    rw [List.foldl_cons, lookup_foldl_bumpCount k gs (bumpCount d g), lookup_bumpCount]
    by_cases h : k = g
    · subst h
      simp only [if_true, List.count_cons_self, Option.getD_some]
      by_cases h0 : gs.count k = 0
      · simp [h0]
      · simp [h0]; omega
    · have hgk : g ≠ k := fun e => h e.symm
      simp only [h, if_false, List.count_cons_of_ne hgk]

def keysOf (d : List (String × Nat)) : List String := d.map Prod.fst

theorem keys_bumpCount (g : String) : ∀ d : List (String × Nat),
    keysOf (bumpCount d g) = if g ∈ keysOf d then keysOf d else keysOf d ++ [g]
  | [] => by simp [bumpCount, keysOf]
  | (k, v) :: rest => by
    have ih := keys_bumpCount g rest
    unfold bumpCount
    by_cases h : k = g
    · subst h; simp [keysOf]
    · have hb : (k == g) = false := by simp [h]
      simp only [hb, Bool.false_eq_true, if_false]
      simp only [keysOf, List.map_cons, List.mem_cons] at ih ⊢
      rw [ih]
      have hgk : g ≠ k := fun e => h e.symm
      by_cases hm : g ∈ rest.map Prod.fst
      · simp [hm]
      · simp [hm, hgk]

theorem nodup_keys_bumpCount (g : String) (d : List (String × Nat)) (h : (keysOf d).Nodup) :
    (keysOf (bumpCount d g)).Nodup := by
  rw [keys_bumpCount]
  by_cases hm : g ∈ keysOf d
  · simp [hm, h]
  · simp only [hm, if_false]
    rw [List.nodup_append]
    exact ⟨h, by simp, by intro a ha b hb; simp at hb; subst hb; intro e; subst e; exact hm ha⟩

theorem nodup_keys_foldl : ∀ (l : List String) (d : List (String × Nat)), (keysOf d).Nodup →
    (keysOf (l.foldl bumpCount d)).Nodup
  | [], _, h => h
  | g :: gs, d, h => nodup_keys_foldl gs _ (nodup_keys_bumpCount g d h)

/-- with distinct keys, membership is lookup -/
theorem mem_iff_lookup : ∀ (d : List (String × Nat)), (keysOf d).Nodup → ∀ k v, (k, v) ∈ d ↔ d.lookup k = some v
  | [], _, k, v => by simp [List.lookup]
  | (k', v') :: rest, h, k, v => by
    have h' : (k' :: keysOf rest).Nodup := h
    have hn := List.nodup_cons.1 h'
    have ih := mem_iff_lookup rest hn.2 k v
    by_cases hk : k = k'
    · subst hk
      simp only [List.lookup, beq_self_eq_true, List.mem_cons, Prod.mk.injEq, true_and, Option.some.injEq]
      constructor
      · rintro (e | hm)
        · exact e.symm
        · exact absurd (List.mem_map.2 ⟨(k, v), hm, rfl⟩) hn.1
      · intro e; exact Or.inl e.symm
    · have hb : (k == k') = false := by simp [hk]
      simp only [List.lookup, hb, List.mem_cons, Prod.mk.injEq, hk, false_and, false_or]
      exact ih

theorem nodup_of_nodup_keys : ∀ (d : List (String × Nat)), (keysOf d).Nodup → d.Nodup
  | [], _ => List.nodup_nil
  | p :: rest, h => by
    have h' : (p.1 :: keysOf rest).Nodup := h
    have hn := List.nodup_cons.1 h'
    refine List.nodup_cons.2 ⟨fun hm => hn.1 (List.mem_map.2 ⟨p, hm, rfl⟩), nodup_of_nodup_keys rest hn.2⟩

/-- the count dict of two iteration orders of the same multiset of gene ids: same items, possibly other order -/
theorem geneCounts_perm {iter iter' : List (List String)} (h : iter.flatten.Perm iter'.flatten) :
    (geneCounts iter).Perm (geneCounts iter') := by
  unfold geneCounts
  have n1 := nodup_keys_foldl iter.flatten [] (by simp [keysOf])
  have n2 := nodup_keys_foldl iter'.flatten [] (by simp [keysOf])
  rw [List.perm_ext_iff_of_nodup (nodup_of_nodup_keys _ n1) (nodup_of_nodup_keys _ n2)]
  rintro ⟨k, v⟩
  rw [mem_iff_lookup _ n1, mem_iff_lookup _ n2, lookup_foldl_bumpCount, lookup_foldl_bumpCount, h.count_eq k]

theorem refGeneBefore_total (a b : String × Nat) : refGeneBefore a b = true ∨ refGeneBefore b a = true := by
  unfold refGeneBefore
  rcases Nat.lt_trichotomy a.2 b.2 with h | h | h
  · right; simp [h]
  · rcases String.le_total a.1 b.1 with h' | h'
    · right; simp [h, h']
    · left; simp [h, h']
  · left; simp [h]

theorem refGeneBefore_cases (a b : String × Nat) :
    refGeneBefore a b = true ↔ b.2 < a.2 ∨ (a.2 = b.2 ∧ b.1 ≤ a.1) := by
  simp [refGeneBefore]

theorem refGeneBefore_trans (a b c : String × Nat) (h1 : refGeneBefore a b = true) (h2 : refGeneBefore b c = true) :
    refGeneBefore a c = true := by
  rw [refGeneBefore_cases] at *
  rcases h1 with h1 | ⟨e1, l1⟩ <;> rcases h2 with h2 | ⟨e2, l2⟩
  · left; omega
  · left; omega
  · left; omega
  · right; exact ⟨by omega, String.le_trans l2 l1⟩

theorem refGeneBefore_antisymm (a b : String × Nat) (h1 : refGeneBefore a b = true) (h2 : refGeneBefore b a = true) :
    a = b := by
  rw [refGeneBefore_cases] at *
  rcases h1 with h1 | ⟨e1, l1⟩ <;> rcases h2 with h2 | ⟨e2, l2⟩
  · omega
  · omega
  · omega
  · exact Prod.ext (String.le_antisymm l2 l1) e1

end IsoVerif.Lemmas.C06
