/-
Helper lemmas for C20Stable: chain of custody of artefact paths through the interleaved system.

Only a successful `produce c` changes a data file, and only at `c.target`.  If the targets of all pending productions
are pairwise distinct and none of them is the target of a logged production (hence, by `SInv`, of any cache entry or
result), then the step of any process keeps both facts and leaves every artefact a result refers to untouched.
-/
import IsoVerif.Model.Cache
import IsoVerif.Lemmas.Cache

namespace IsoVerif.Lemmas.C20
open IsoVerif.Model.C20

variable {β : Type}

theorem pendingOf_cons_sub (i : Instr) (l : List Instr) : (pendingOf l).Sublist (pendingOf (i :: l)) :=
  (List.sublist_cons_self i l).filterMap _

theorem pendingOf_drop_sub (k : Nat) (l : List Instr) : (pendingOf (l.drop k)).Sublist (pendingOf l) :=
  (List.drop_sublist k l).filterMap _

/-- what one step of one process does to the data files, the production log, its own pending productions and its
    results: it writes at most the paths `wr`, which it takes off its own pending list -/
theorem step_custody (cd : Codec β) (w : World β) (p : Proc) :
    ∃ wr : List Path,
      (wr ++ (stepProc cd w p).2.toProduce).Sublist p.toProduce ∧
      (∀ x, x ∉ wr → (stepProc cd w p).1.mtime x = w.mtime x) ∧
      (∀ cv ∈ (stepProc cd w p).1.convs, cv ∈ w.convs ∨ cv.client.target ∈ wr) ∧
      (∀ r ∈ (stepProc cd w p).2.results, r ∈ p.results ∨ r.stable (stepProc cd w p).1) := by
  have triv : ∀ (p' : Proc), p'.toProduce.Sublist p.toProduce → p'.results = p.results →
      ∃ wr : List Path, (wr ++ p'.toProduce).Sublist p.toProduce ∧ (∀ x, x ∉ wr → w.mtime x = w.mtime x) ∧
        (∀ cv ∈ w.convs, cv ∈ w.convs ∨ cv.client.target ∈ wr) ∧
        (∀ r ∈ p'.results, r ∈ p.results ∨ r.stable w) :=
    fun p' h1 h2 => ⟨[], by simpa using h1, fun _ _ => rfl, fun cv h => Or.inl h, fun r hr => Or.inl (h2 ▸ hr)⟩
  unfold stepProc
  split
  · exact triv p (List.Sublist.refl _) rfl
  · rename_i hcr
    have hcr' : p.crashed = false := by cases h : p.crashed <;> simp_all
    have hP : ∀ (i : Instr) (rest : List Instr), p.todo = i :: rest → p.toProduce = pendingOf (i :: rest) := by
      intro i rest h; simp [Proc.toProduce, hcr', h]
    have subRest : ∀ (i : Instr) (rest : List Instr) (p' : Proc), p.todo = i :: rest → p'.crashed = false →
        p'.todo = rest → p'.toProduce.Sublist p.toProduce := by
      intro i rest p' h hc' ht'
      rw [hP i rest h]; simp only [Proc.toProduce, hc', ht']
      exact pendingOf_cons_sub i rest
    have subDrop : ∀ (i : Instr) (rest : List Instr) (k : Nat) (p' : Proc), p.todo = i :: rest → p'.crashed = false →
        p'.todo = rest.drop k → p'.toProduce.Sublist p.toProduce := by
      intro i rest k p' h hc' ht'
      rw [hP i rest h]; simp only [Proc.toProduce, hc', ht']
      exact (pendingOf_drop_sub k rest).trans (pendingOf_cons_sub i rest)
    have subCrash : ∀ (p' : Proc), p'.crashed = true → p'.toProduce.Sublist p.toProduce := by
      intro p' hc'; simp [Proc.toProduce, hc']
    split
    · exact triv p (List.Sublist.refl _) rfl
    · -- existsQ
      rename_i f k rest htodo
      refine triv _ ?_ rfl
      dsimp only
      split
      · exact subDrop _ rest k _ htodo hcr' rfl
      · exact subRest _ rest _ htodo hcr' rfl
    · -- openW
      rename_i f rest htodo
      split
      · exact triv _ (subRest _ rest _ htodo hcr' rfl) rfl
      · exact triv _ (subRest _ rest _ htodo hcr' rfl) rfl
    · -- writeBuf
      rename_i f e rest htodo
      split
      · exact triv _ (subCrash _ rfl) rfl
      · exact triv _ (subRest _ rest _ htodo hcr' rfl) rfl
    · -- replaceBuf
      rename_i f e rest htodo
      exact triv _ (subRest _ rest _ htodo hcr' rfl) rfl
    · -- load
      rename_i f tol ap rest htodo
      dsimp only
      split
      · exact triv _ (subCrash _ rfl) rfl
      · exact triv _ (subRest _ rest _ htodo hcr' rfl) rfl
    · -- lookup
      rename_i c k rest htodo
      split
      · rename_i e he
        obtain ⟨_, _, _, h2, _, _⟩ := lookupHit_spec he
        refine ⟨[], ?_, fun _ _ => rfl, fun cv h => Or.inl h, ?_⟩
        · simp only [List.nil_append]; exact subDrop _ rest k _ htodo hcr' rfl
        · intro r hr
          rcases List.mem_cons.1 hr with hr | hr
          · right; subst hr; exact h2
          · exact Or.inl hr
      · exact triv _ (subRest _ rest _ htodo hcr' rfl) rfl
    · -- produce
      rename_i c an rest htodo
      have hPc : p.toProduce = c.target :: pendingOf rest := by
        rw [hP _ rest htodo]; simp [pendingOf, Instr.produces]
      split
      · dsimp only
        split
        · -- the production takes place
          refine ⟨[c.target], ?_, ?_, ?_, ?_⟩
          · rw [hPc]; simp [Proc.toProduce, hcr']
          · intro x hx
            have : x ≠ c.target := by simpa using hx
            simp [upd, this]
          · intro cv hcv
            rcases List.mem_cons.1 hcv with h | h
            · right; subst h; simp
            · exact Or.inl h
          · intro r hr
            rcases List.mem_cons.1 hr with h | h
            · right; subst h; simp [Result.stable, upd]
            · exact Or.inl h
        · -- (unreachable) the stat after the conversion fails: the target was written, the run dies
          refine ⟨[c.target], ?_, ?_, fun cv h => Or.inl h, fun r hr => Or.inl hr⟩
          · rw [hPc]; simp [Proc.toProduce]
          · intro x hx
            have : x ≠ c.target := by simpa using hx
            simp [upd, this]
      · exact triv _ (subCrash _ rfl) rfl

/-- replacing one element of a list replaces its block in the `flatMap` -/
theorem flatMap_set_split {α γ : Type} (f : α → List γ) : ∀ (l : List α) (i : Nat) (a a' : α), l[i]? = some a →
    ∃ A B, l.flatMap f = A ++ f a ++ B ∧ (l.set i a').flatMap f = A ++ f a' ++ B := by
  intro l
  induction l with
  | nil => intro i a a' h; simp at h
  | cons x r ih =>
    intro i a a' h
    cases i with
    | zero =>
      simp at h; subst h
      exact ⟨[], r.flatMap f, by simp, by simp⟩
    | succ j =>
      simp at h
      obtain ⟨A, B, h1, h2⟩ := ih j a a' h
      exact ⟨f x ++ A, B, by simp [h1], by simp [h2]⟩

/-- in a duplicate-free `A ++ (wr ++ P) ++ B` nothing of `wr` occurs in `A ++ P ++ B` -/
theorem nodup_split_disjoint {A wr P B : List Path} (h : (A ++ (wr ++ P) ++ B).Nodup) :
    (A ++ P ++ B).Nodup ∧ ∀ x ∈ wr, x ∉ A ++ P ++ B := by
  refine ⟨?_, ?_⟩
  · refine List.Nodup.sublist ?_ h
    exact ((List.Sublist.refl A).append (List.sublist_append_right wr P)).append (List.Sublist.refl B)
  · intro x hx hmem
    have hc := (List.nodup_iff_count.1 h) x
    have h1 : 0 < List.count x wr := List.count_pos_iff.2 hx
    have h2 : 0 < List.count x (A ++ P ++ B) := List.count_pos_iff.2 hmem
    simp only [List.count_append] at hc h2
    omega

/-- every result refers to a path some logged production wrote (`SInv`), hence not to a pending target -/
theorem results_not_pending (cd : Codec β) (s : Sys β) (hi : SInv cd s)
    (h2 : ∀ t ∈ s.toProduce, ∀ cv ∈ s.world.convs, cv.client.target ≠ t) :
    ∀ t ∈ s.toProduce, ∀ p ∈ s.procs, ∀ r ∈ p.results, r.target ≠ t := by
  intro t ht p hp r hr
  obtain ⟨cv, hcv, _, _, htg, _⟩ := (hi.2 p hp).2.2 r hr
  exact htg ▸ h2 t ht cv hcv

/-- the custody invariant: provenance of every entry, private pending targets, every result still stable -/
def StInv (cd : Codec β) (s : Sys β) : Prop := SInv cd s ∧ PrivateTargets s ∧ ResultsStableAt s

theorem stepSys_stinv (cd : Codec β) (hl : cd.Lawful) (s : Sys β) (pid : Nat) (h : StInv cd s) :
    StInv cd (stepSys cd s pid) := by
  obtain ⟨hi, ⟨hnd, hc2, hc3⟩, hst⟩ := h
  have hi' := stepSys_inv cd hl s pid hi
  cases hp : s.procs[pid]? with
  | none =>
    have : stepSys cd s pid = s := by unfold stepSys; simp [hp]
    rw [this]; exact ⟨hi, ⟨hnd, hc2, hc3⟩, hst⟩
  | some p =>
    have hmem : p ∈ s.procs := List.mem_of_getElem? hp
    have hs' : stepSys cd s pid =
        { world := (stepProc cd s.world p).1, procs := s.procs.set pid (stepProc cd s.world p).2 } := by
      unfold stepSys; simp [hp]
    obtain ⟨wr, hsub, hmt, hcv, hres⟩ := step_custody cd s.world p
    obtain ⟨A, B, hA, hB⟩ := flatMap_set_split Proc.toProduce s.procs pid p (stepProc cd s.world p).2 hp
    have hT : s.toProduce = A ++ p.toProduce ++ B := hA
    have hT' : (stepSys cd s pid).toProduce = A ++ (stepProc cd s.world p).2.toProduce ++ B := by
      rw [hs']; exact hB
    have hL : (A ++ (wr ++ (stepProc cd s.world p).2.toProduce) ++ B).Sublist s.toProduce := by
      rw [hT]; exact ((List.Sublist.refl A).append hsub).append (List.Sublist.refl B)
    obtain ⟨hnd', hdisj⟩ := nodup_split_disjoint (List.Nodup.sublist hL hnd)
    have hsubT : (stepSys cd s pid).toProduce.Sublist s.toProduce := by
      rw [hT']
      refine List.Sublist.trans ?_ hL
      exact ((List.Sublist.refl A).append (List.sublist_append_right wr _)).append (List.Sublist.refl B)
    have hwr : ∀ x ∈ wr, x ∈ s.toProduce := by
      intro x hx
      apply hL.subset
      simp [hx]
    have hc2' : ∀ t ∈ (stepSys cd s pid).toProduce, ∀ cv ∈ (stepSys cd s pid).world.convs, cv.client.target ≠ t := by
      intro t ht cv hcvm
      rw [hs'] at hcvm
      rcases hcv cv hcvm with hold | hnew
      · exact hc2 t (hsubT.subset ht) cv hold
      · intro e
        rw [hT'] at ht
        exact hdisj _ hnew (e ▸ ht)
    refine ⟨hi', ⟨by rw [hT']; exact hnd', hc2', results_not_pending cd _ hi' hc2'⟩, ?_⟩
    -- every result is still stable
    have hold : ∀ q ∈ s.procs, ∀ r ∈ q.results, r.stable (stepProc cd s.world p).1 := by
      intro q hq r hr
      have hne : r.target ∉ wr := fun hx => hc3 _ (hwr _ hx) q hq r hr rfl
      show (stepProc cd s.world p).1.mtime r.target = some r.tgtM
      rw [hmt _ hne]
      exact hst q hq r hr
    intro q hq r hr
    rw [hs'] at hq ⊢
    rcases List.mem_or_eq_of_mem_set hq with hq | hq
    · exact hold q hq r hr
    · subst hq
      rcases hres r hr with h | h
      · exact hold p hmem r h
      · exact h

theorem run_stinv (cd : Codec β) (hl : cd.Lawful) (sched : List Nat) :
    ∀ (s : Sys β), StInv cd s → StInv cd (run cd s sched) := by
  induction sched with
  | nil => intro s h; exact h
  | cons pid r ih =>
    intro s h
    show StInv cd (run cd (stepSys cd s pid) r)
    exact ih _ (stepSys_stinv cd hl s pid h)

/-! ### nothing but a later production into the same path makes a result unstable -/

theorem allSome_isSome (f : Nat → Option Nat) : ∀ (l : List Nat) (am : List Nat), allSome (l.map f) = some am →
    ∀ a ∈ l, (f a).isSome := by
  intro l
  induction l with
  | nil => intro am _ a ha; cases ha
  | cons x r ih =>
    intro am h a ha
    cases hx : f x with
    | none => simp [allSome, hx] at h
    | some v =>
      simp only [List.map_cons, hx, allSome] at h
      cases hr : allSome (r.map f) with
      | none => simp [hr] at h
      | some am' =>
        rcases List.mem_cons.1 ha with rfl | ha
        · simp [hx]
        · exact ih am' hr a ha

/-- the stat calls after a conversion cannot fail when those before it succeeded (the conversion only adds a file) -/
theorem second_stat_ok (w : World β) (c : Client) (sm : Nat) (am : List Nat) (hs : w.mtime c.src = some sm)
    (ha : allSome (c.aux.map w.mtime) = some am) :
    ∃ sm' am', upd w.mtime c.target (some w.clock) c.src = some sm' ∧
      allSome (c.aux.map (upd w.mtime c.target (some w.clock))) = some am' := by
  have hmono : ∀ x, (w.mtime x).isSome → (upd w.mtime c.target (some w.clock) x).isSome := by
    intro x hx; unfold upd; split
    · rfl
    · exact hx
  obtain ⟨am', ham'⟩ := allSome_of_forall (upd w.mtime c.target (some w.clock)) c.aux
    (fun a hmem => hmono a (allSome_isSome w.mtime c.aux am ha a hmem))
  have h1 := hmono c.src (by simp [hs])
  cases hsm : upd w.mtime c.target (some w.clock) c.src with
  | none => rw [hsm] at h1; cases h1
  | some v => exact ⟨v, am', rfl, ham'⟩

/-- the clock is ahead of every file time -/
def TimeInv (w : World β) : Prop := ∀ path m, w.mtime path = some m → m < w.clock

/-- a result is stable, or a logged production wrote its path later and that version is the one there now -/
def Overwritten (w : World β) (r : Result) : Prop :=
  ∃ cv ∈ w.convs, cv.client.target = r.target ∧ r.tgtM < cv.tgtM ∧ w.mtime r.target = some cv.tgtM

def TraceInv (s : Sys β) : Prop :=
  TimeInv s.world ∧ ConvInv s.world ∧
  ∀ p ∈ s.procs, ∀ r ∈ p.results, r.tgtM < s.world.clock ∧ (r.stable s.world ∨ Overwritten s.world r)

/-- one step of one process: the three facts are kept for the results of every process -/
theorem step_trace (cd : Codec β) (w : World β) (p : Proc) (ht : TimeInv w)
    (hp : ∀ r ∈ p.results, r.tgtM < w.clock ∧ (r.stable w ∨ Overwritten w r)) :
    TimeInv (stepProc cd w p).1 ∧
    (∀ r ∈ (stepProc cd w p).2.results, r.tgtM < (stepProc cd w p).1.clock ∧
      (r.stable (stepProc cd w p).1 ∨ Overwritten (stepProc cd w p).1 r)) ∧
    (∀ r : Result, r.tgtM < w.clock ∧ (r.stable w ∨ Overwritten w r) →
      r.tgtM < (stepProc cd w p).1.clock ∧ (r.stable (stepProc cd w p).1 ∨ Overwritten (stepProc cd w p).1 r)) := by
  unfold stepProc
  split
  · exact ⟨ht, hp, fun r h => h⟩
  · split
    · exact ⟨ht, hp, fun r h => h⟩
    · exact ⟨ht, hp, fun r h => h⟩
    · split <;> exact ⟨ht, hp, fun r h => h⟩
    · split <;> exact ⟨ht, hp, fun r h => h⟩
    · exact ⟨ht, hp, fun r h => h⟩
    · dsimp only
      split <;> exact ⟨ht, hp, fun r h => h⟩
    · -- lookup
      split
      · rename_i e he
        obtain ⟨_, _, _, h2, _, _⟩ := lookupHit_spec he
        refine ⟨ht, ?_, fun r h => h⟩
        intro r hr
        rcases List.mem_cons.1 hr with hr | hr
        · subst hr; exact ⟨ht _ _ h2, Or.inl h2⟩
        · exact hp r hr
      · exact ⟨ht, hp, fun r h => h⟩
    · -- produce
      rename_i c an rest htodo
      split
      · rename_i sm am hsm ham
        dsimp only
        split
        · rename_i sm' am' hsm' ham'
          have ht' : ∀ path m, upd w.mtime c.target (some w.clock) path = some m → m < w.clock + 1 := by
            intro path m hm
            unfold upd at hm
            split at hm
            · cases hm; exact Nat.lt_succ_self _
            · exact Nat.lt_succ_of_lt (ht path m hm)
          have keep : ∀ r : Result, r.tgtM < w.clock ∧ (r.stable w ∨ Overwritten w r) →
              r.tgtM < w.clock + 1 ∧
              (r.stable { w with mtime := upd w.mtime c.target (some w.clock), clock := w.clock + 1,
                                 convs := ({ client := c, srcM0 := sm, srcM := sm', auxM := am', tgtM := w.clock } : Conv) :: w.convs } ∨
               Overwritten { w with mtime := upd w.mtime c.target (some w.clock), clock := w.clock + 1,
                                    convs := ({ client := c, srcM0 := sm, srcM := sm', auxM := am', tgtM := w.clock } : Conv) :: w.convs } r) := by
            rintro r ⟨hlt, hso⟩
            refine ⟨Nat.lt_succ_of_lt hlt, ?_⟩
            by_cases hpath : r.target = c.target
            · right
              refine ⟨_, List.mem_cons_self, hpath.symm, hlt, ?_⟩
              simp [upd, hpath]
            · rcases hso with h | ⟨cv, hcv, h1, h2, h3⟩
              · left
                show upd w.mtime c.target (some w.clock) r.target = some r.tgtM
                simp [upd, hpath]; exact h
              · right
                refine ⟨cv, List.mem_cons_of_mem _ hcv, h1, h2, ?_⟩
                show upd w.mtime c.target (some w.clock) r.target = some cv.tgtM
                simp [upd, hpath]; exact h3
          refine ⟨ht', ?_, keep⟩
          intro r hr
          rcases List.mem_cons.1 hr with hr | hr
          · subst hr
            exact ⟨Nat.lt_succ_self _, Or.inl (by simp [Result.stable, upd])⟩
          · exact keep r (hp r hr)
        · rename_i hne
          obtain ⟨sm', am', h1, h2⟩ := second_stat_ok w c sm am hsm ham
          exact absurd h2 (hne sm' am' h1)
      · exact ⟨ht, hp, fun r h => h⟩

theorem stepSys_trace (cd : Codec β) (s : Sys β) (pid : Nat) (h : TraceInv s) : TraceInv (stepSys cd s pid) := by
  obtain ⟨ht, hc, hr⟩ := h
  cases hp : s.procs[pid]? with
  | none =>
    have : stepSys cd s pid = s := by unfold stepSys; simp [hp]
    rw [this]; exact ⟨ht, hc, hr⟩
  | some p =>
    have hmem : p ∈ s.procs := List.mem_of_getElem? hp
    have hs' : stepSys cd s pid =
        { world := (stepProc cd s.world p).1, procs := s.procs.set pid (stepProc cd s.world p).2 } := by
      unfold stepSys; simp [hp]
    obtain ⟨h1, h2, h3⟩ := step_trace cd s.world p ht (hr p hmem)
    rw [hs']
    refine ⟨h1, step_convInv cd s.world p hc, ?_⟩
    intro q hq r hrq
    rcases List.mem_or_eq_of_mem_set hq with hq | hq
    · exact h3 r (hr q hq r hrq)
    · subst hq; exact h2 r hrq

theorem run_trace (cd : Codec β) (sched : List Nat) : ∀ (s : Sys β), TraceInv s → TraceInv (run cd s sched) := by
  induction sched with
  | nil => intro s h; exact h
  | cons pid r ih =>
    intro s h
    show TraceInv (run cd (stepSys cd s pid) r)
    exact ih _ (stepSys_trace cd s pid h)

end IsoVerif.Lemmas.C20
