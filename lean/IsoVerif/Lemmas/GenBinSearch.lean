/-
Refinement lemmas for `interval_bin_search(_rev)` of Gen/Loops.lean.  Statements: Props/C19Gen.lean.
-/
import IsoVerif.Gen.Loops
import IsoVerif.Lemmas.GenBase
import IsoVerif.Lemmas.BinSearch

namespace IsoVerif.Lemmas.GenLoops
open IsoVerif.Gen IsoVerif.Model IsoVerif.Lemmas

/-! ### the two binary searches
The generated loops follow Python exactly (short-circuit evaluation of the chained comparison, negative indices wrap);
the hand model reads both intervals eagerly and flags a negative index.  They agree on ALL inputs because the index stays
inside `[0, len-2]` (`[0, len-1]` for `_rev`) for every list, sorted or not: the invariant `rem step ≤ ind`,
`ind + rem step + 2 ≤ len` only needs the three early exits of the function. -/

theorem rem_step (step : Nat) (h : 2 ≤ step) : rem step = step / 2 + rem (step / 2) := by
  match step, h with
  | c + 2, _ => simp [rem]

theorem rem_small (step : Nat) (h : step < 2) : rem step = 0 ∧ rem (max 1 (step / 2)) = 0 := by
  match step, h with
  | 0, _ => simp [rem]
  | 1, _ => simp [rem]

theorem bin_search_loop_eq (l : List Iv) (pos : Int) (f t : Iv) (hf : l[0]? = some f) (ht : l[l.length - 1]? = some t)
    (hpf : f.1 ≤ pos) (hpt : pos < t.1) (fuel ind step : Nat) (s : Int)
    (hlo : rem step ≤ ind) (hhi : ind + rem step + 2 ≤ l.length) :
    interval_bin_search.loop3 l pos fuel s (ind : Int) (step : Int)
      = (binSearchLoop l pos fuel ind step).map (fun (i : Nat) => (i : Int)) := by
  induction fuel generalizing ind step with
  | zero => simp [interval_bin_search.loop3, binSearchLoop]
  | succ fuel ih =>
    unfold interval_bin_search.loop3 binSearchLoop
    have hx : l[ind]? = some l[ind] := List.getElem?_eq_getElem (by omega)
    have hy : l[ind + 1]? = some l[ind + 1] := List.getElem?_eq_getElem (by omega)
    have hc : ((ind : Int) + 1) = ((ind + 1 : Nat) : Int) := by omega
    simp only [pyIdx_natCast, hx, hc, hy]
    by_cases h1 : l[ind].1 ≤ pos
    · by_cases h2 : pos < l[ind + 1].1
      · simp [h1, h2, interval_bin_search.after3]
      · have hnlt : ¬ pos < l[ind].1 := by omega
        have hstep : max 1 ((step : Int) / 2) = ((max 1 (step / 2) : Nat) : Int) := by omega
        have hadd : (ind : Int) + ((max 1 (step / 2) : Nat) : Int) = ((ind + max 1 (step / 2) : Nat) : Int) := by omega
        simp only [h1, h2, hnlt, decide_true, decide_false, if_true, if_false, Bool.not_false, and_false, hstep, hadd,
          Bool.false_eq_true]
        apply ih
        · by_cases hs : 2 ≤ step
          · have := rem_step step hs
            have hm : max 1 (step / 2) = step / 2 := by omega
            rw [hm]; omega
          · have := rem_small step (by omega); omega
        · by_cases hs : 2 ≤ step
          · have := rem_step step hs
            have hm : max 1 (step / 2) = step / 2 := by omega
            rw [hm]; omega
          · have hr := rem_small step (by omega)
            have hm : max 1 (step / 2) = 1 := by omega
            rw [hm] at hr ⊢
            -- a unit step to the right from `len - 2` would need `pos ≥ l[len-1].1`
            have : ind + 2 ≠ l.length := by
              intro he
              have : l[ind + 1]? = some t := by rw [← ht]; congr 1; omega
              rw [hy] at this
              injection this with this
              rw [this] at h2; exact h2 hpt
            omega
    · have hlt : pos < l[ind].1 := by omega
      have hstep : max 1 ((step : Int) / 2) = ((max 1 (step / 2) : Nat) : Int) := by omega
      have hind : ind ≠ 0 := by
        intro h0; subst h0
        rw [hf] at hx; injection hx with hx
        rw [← hx] at h1; exact h1 hpf
      have hle : max 1 (step / 2) ≤ ind := by
        by_cases hs : 2 ≤ step
        · have := rem_step step hs; omega
        · omega
      have hsub : (ind : Int) - ((max 1 (step / 2) : Nat) : Int) = ((ind - max 1 (step / 2) : Nat) : Int) := by omega
      simp only [h1, hlt, hle, decide_true, decide_false, if_true, if_false, Bool.not_false, false_and, hstep, hsub,
        Bool.false_eq_true]
      apply ih
      · by_cases hs : 2 ≤ step
        · have := rem_step step hs
          have hm : max 1 (step / 2) = step / 2 := by omega
          rw [hm]; omega
        · have := rem_small step (by omega); omega
      · by_cases hs : 2 ≤ step
        · have := rem_step step hs
          have hm : max 1 (step / 2) = step / 2 := by omega
          rw [hm]; omega
        · have := rem_small step (by omega); omega


theorem head_eq_getElem_zero {α} (l : List α) : l.head? = l[0]? := by cases l <;> rfl

theorem interval_bin_search_eq (l : List Iv) (pos : Int) :
    interval_bin_search l pos = intervalBinSearch l pos := by
  unfold interval_bin_search intervalBinSearch
  simp only [pyIdx_neg_one, pyIdx_zero]
  cases hh : l.head? with
  | none => cases l with
    | nil => rfl
    | cons a t => simp at hh
  | some f =>
    cases hl : l.getLast? with
    | none => cases l with
      | nil => simp at hh
      | cons a t => simp at hl
    | some t =>
      have hne : l.length ≠ 0 := by
        intro h0; have : l = [] := List.eq_nil_of_length_eq_zero h0; subst this; simp at hh
      by_cases h1 : pos > t.2
      · simp [h1]
      · by_cases h2 : pos < f.1
        · simp [h1, h2]
        · simp only [h1, h2, decide_false, Bool.false_eq_true, if_false, or_self, interval_bin_search.after1,
            pyIdx_neg_one, hl, pyLen]
          by_cases h3 : pos ≥ t.1
          · have : ((l.length : Int) - 1) = ((l.length - 1 : Nat) : Int) := by omega
            simp [h3, this]
          · simp only [h3, decide_false, Bool.false_eq_true, if_false, interval_bin_search.after2,
              interval_bin_search.fuel3]
            have hf0 : l[0]? = some f := by rw [← head_eq_getElem_zero]; exact hh
            have ht0 : l[l.length - 1]? = some t := by rw [← List.getLast?_eq_getElem?]; exact hl
            have hlen2 : 2 ≤ l.length := by
              refine Nat.le_of_not_lt (fun hlt => ?_)
              have h1' : l.length - 1 = 0 := by omega
              rw [h1', hf0] at ht0; injection ht0 with ht0
              rw [← ht0] at h3; omega
            have hs : (((l.length : Int) - 1) / 2) = (((l.length - 1) / 2 : Nat) : Int) := by omega
            rw [hs]
            have hr := rem_le ((l.length - 1) / 2)
            exact bin_search_loop_eq l pos f t hf0 ht0 (by omega) (by omega) _ _ _ _ (by omega) (by omega)

/-! `interval_bin_search_rev` -/

theorem bin_search_rev_loop_eq (l : List Iv) (pos : Int) (f t : Iv) (hf : l[0]? = some f) (ht : l[l.length - 1]? = some t)
    (hpf : f.2 < pos) (hpt : pos ≤ t.2) (fuel ind step : Nat) (s : Int)
    (hlo : rem step ≤ ind) (hhi : ind + rem step + 1 ≤ l.length) :
    interval_bin_search_rev.loop3 l pos fuel s (ind : Int) (step : Int)
      = (binSearchRevLoop l pos fuel ind step).map (fun (i : Nat) => (i : Int)) := by
  induction fuel generalizing ind step with
  | zero => simp [interval_bin_search_rev.loop3, binSearchRevLoop]
  | succ fuel ih =>
    unfold interval_bin_search_rev.loop3 binSearchRevLoop
    have hy : l[ind]? = some l[ind] := List.getElem?_eq_getElem (by omega)
    simp only [pyIdx_eq_pyGet]
    cases hA : pyGet? l ((ind : Int) - 1) with
    | none => rfl
    | some a =>
      have hyy : pyGet? l (ind : Int) = some l[ind] := by rw [← pyIdx_eq_pyGet, pyIdx_natCast]; exact hy
      simp only [hy, hyy]
      have hstep : max 1 ((step : Int) / 2) = ((max 1 (step / 2) : Nat) : Int) := by omega
      by_cases h1 : a.2 < pos
      · by_cases h2 : pos ≤ l[ind].2
        · simp [h1, h2, interval_bin_search_rev.after3]
        · have hgt : pos > l[ind].2 := by omega
          have hadd : (ind : Int) + ((max 1 (step / 2) : Nat) : Int) = ((ind + max 1 (step / 2) : Nat) : Int) := by omega
          simp only [h1, h2, hgt, decide_true, decide_false, if_true, if_false, Bool.not_false, and_false, hstep, hadd]
          apply ih
          · by_cases hs : 2 ≤ step
            · have := rem_step step hs
              have hm : max 1 (step / 2) = step / 2 := by omega
              rw [hm]; omega
            · have := rem_small step (by omega); omega
          · by_cases hs : 2 ≤ step
            · have := rem_step step hs
              have hm : max 1 (step / 2) = step / 2 := by omega
              rw [hm]; omega
            · have hr := rem_small step (by omega)
              have hm : max 1 (step / 2) = 1 := by omega
              rw [hm] at hr ⊢
              have : ind + 1 ≠ l.length := by
                intro he
                have : l[ind]? = some t := by rw [← ht]; congr 1; omega
                rw [hy] at this
                injection this with this
                rw [this] at h2; exact h2 hpt
              omega
      · by_cases hgt : pos > l[ind].2
        · have hadd : (ind : Int) + ((max 1 (step / 2) : Nat) : Int) = ((ind + max 1 (step / 2) : Nat) : Int) := by omega
          simp only [h1, hgt, decide_true, decide_false, if_true, if_false, Bool.not_false, false_and, hstep, hadd,
            Bool.false_eq_true]
          apply ih
          · by_cases hs : 2 ≤ step
            · have := rem_step step hs
              have hm : max 1 (step / 2) = step / 2 := by omega
              rw [hm]; omega
            · have := rem_small step (by omega); omega
          · by_cases hs : 2 ≤ step
            · have := rem_step step hs
              have hm : max 1 (step / 2) = step / 2 := by omega
              rw [hm]; omega
            · have hr := rem_small step (by omega)
              have hm : max 1 (step / 2) = 1 := by omega
              rw [hm] at hr ⊢
              have : ind + 1 ≠ l.length := by
                intro he
                have : l[ind]? = some t := by rw [← ht]; congr 1; omega
                rw [hy] at this
                injection this with this
                rw [this] at hgt; omega
              omega
        · have hind : ind ≠ 0 := by
            intro h0; subst h0
            rw [hf] at hy; injection hy with hy
            rw [← hy] at hgt; omega
          have hle : max 1 (step / 2) ≤ ind := by
            by_cases hs : 2 ≤ step
            · have := rem_step step hs; omega
            · omega
          have hsub : (ind : Int) - ((max 1 (step / 2) : Nat) : Int) = ((ind - max 1 (step / 2) : Nat) : Int) := by omega
          simp only [h1, hgt, hle, decide_false, if_true, if_false, Bool.not_false, false_and, hstep, hsub,
            Bool.false_eq_true]
          apply ih
          · by_cases hs : 2 ≤ step
            · have := rem_step step hs
              have hm : max 1 (step / 2) = step / 2 := by omega
              rw [hm]; omega
            · have := rem_small step (by omega); omega
          · by_cases hs : 2 ≤ step
            · have := rem_step step hs
              have hm : max 1 (step / 2) = step / 2 := by omega
              rw [hm]; omega
            · have := rem_small step (by omega); omega

theorem interval_bin_search_rev_eq (l : List Iv) (pos : Int) :
    interval_bin_search_rev l pos = intervalBinSearchRev l pos := by
  unfold interval_bin_search_rev intervalBinSearchRev
  simp only [pyIdx_neg_one, pyIdx_zero]
  cases hh : l.head? with
  | none => cases l with
    | nil => rfl
    | cons a t => simp at hh
  | some f =>
    cases hl : l.getLast? with
    | none => cases l with
      | nil => simp at hh
      | cons a t => simp at hl
    | some t =>
      have hne : l.length ≠ 0 := by
        intro h0; have : l = [] := List.eq_nil_of_length_eq_zero h0; subst this; simp at hh
      by_cases h1 : pos > t.2
      · simp [h1]
      · by_cases h2 : pos < f.1
        · simp [h1, h2]
        · simp only [h1, h2, decide_false, Bool.false_eq_true, if_false, or_self, interval_bin_search_rev.after1,
            pyIdx_zero, hh]
          by_cases h3 : pos ≤ f.2
          · simp [h3]
          · simp only [h3, decide_false, Bool.false_eq_true, if_false, interval_bin_search_rev.after2,
              interval_bin_search_rev.fuel3, pyLen]
            have hf0 : l[0]? = some f := by rw [← head_eq_getElem_zero]; exact hh
            have ht0 : l[l.length - 1]? = some t := by rw [← List.getLast?_eq_getElem?]; exact hl
            have hs : (((l.length : Int) - 1) / 2) = (((l.length - 1) / 2 : Nat) : Int) := by omega
            rw [hs]
            have hr := rem_le ((l.length - 1) / 2)
            exact bin_search_rev_loop_eq l pos f t hf0 ht0 (by omega) (by omega) _ _ _ _ (by omega) (by omega)

end IsoVerif.Lemmas.GenLoops
