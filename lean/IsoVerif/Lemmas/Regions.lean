/-
Helper lemmas for C05 (Props/C05.lean): coverage dictionary keys, the two loops of `split_coverage_regions`,
tilings, the index dictionaries of the in-memory storage, the `process` loop.
-/
import IsoVerif.Model.Regions

namespace IsoVerif.Lemmas.Regions
open IsoVerif.Gen IsoVerif.Model.Regions

/-! ### tilings -/

/-- `regs` is a chain of non-empty closed intervals, each starting right after the previous one ends,
    the first starting at `a`, the last ending at `b` (`a = b + 1` for the empty chain) -/
def TilesFrom : Int → List Iv → Int → Prop
  | a, [], b => a = b + 1
  | a, r :: rs, b => r.1 = a ∧ r.1 ≤ r.2 ∧ TilesFrom (r.2 + 1) rs b

theorem tilesFrom_cover {a b : Int} {regs : List Iv} (h : TilesFrom a regs b) (p : Int) (h1 : a ≤ p) (h2 : p ≤ b) :
    ∃ r, r ∈ regs ∧ r.1 ≤ p ∧ p ≤ r.2 := by
  induction regs generalizing a with
  | nil => simp [TilesFrom] at h; omega
  | cons r rs ih =>
    obtain ⟨ha, hwf, hrest⟩ := h
    by_cases hp : p ≤ r.2
    · exact ⟨r, by simp, by omega, hp⟩
    · obtain ⟨r', hr', h3, h4⟩ := ih hrest (by omega)
      exact ⟨r', by simp [hr'], h3, h4⟩

theorem tilesFrom_le {a b : Int} {regs : List Iv} (h : TilesFrom a regs b) : a ≤ b + 1 := by
  induction regs generalizing a with
  | nil => simp [TilesFrom] at h; omega
  | cons r rs ih =>
    obtain ⟨ha, hwf, hrest⟩ := h
    have := ih hrest
    omega

theorem tilesFrom_start_le {a b : Int} {regs : List Iv} (h : TilesFrom a regs b) : ∀ r, r ∈ regs → a ≤ r.1 := by
  induction regs generalizing a with
  | nil => simp
  | cons r rs ih =>
    obtain ⟨ha, hwf, hrest⟩ := h
    intro r' hr'
    rcases List.mem_cons.1 hr' with rfl | hmem
    · omega
    · have := ih hrest r' hmem
      omega

/-- the tiles are pairwise disjoint and in increasing order -/
theorem tilesFrom_disjoint {a b : Int} {regs : List Iv} (h : TilesFrom a regs b) :
    regs.Pairwise (fun r r' => r.2 < r'.1) := by
  induction regs generalizing a with
  | nil => simp
  | cons r rs ih =>
    obtain ⟨ha, hwf, hrest⟩ := h
    refine List.pairwise_cons.2 ⟨?_, ih hrest⟩
    intro r' hr'
    have := tilesFrom_start_le hrest r' hr'
    omega

theorem tilesFrom_setFirstStart {a b x : Int} {r : Iv} {rs : List Iv} (h : TilesFrom a (r :: rs) b) (hx : x ≤ r.2) :
    TilesFrom x (setFirstStart x (r :: rs)) b := by
  obtain ⟨_, _, hrest⟩ := h
  exact ⟨rfl, hx, hrest⟩

theorem tilesFrom_setLastEnd {a b x : Int} {regs : List Iv} (h : TilesFrom a regs b) (hne : regs ≠ []) (hx : b ≤ x) :
    TilesFrom a (setLastEnd x regs) x := by
  induction regs generalizing a with
  | nil => exact absurd rfl hne
  | cons r rs ih =>
    obtain ⟨ha, hwf, hrest⟩ := h
    cases rs with
    | nil =>
      simp [TilesFrom] at hrest
      simp [setLastEnd, TilesFrom]
      omega
    | cons r' rs' =>
      simp only [setLastEnd]
      exact ⟨ha, hwf, ih hrest (by simp)⟩

theorem setLastEnd_ne_nil {x : Int} {regs : List Iv} (hne : regs ≠ []) : setLastEnd x regs ≠ [] := by
  match regs with
  | [] => exact absurd rfl hne
  | [r] => simp [setLastEnd]
  | r :: r' :: rs => simp [setLastEnd]

/-! ### coverage dictionary -/

theorem maxKey_ge {d : CovDict} {m : Int} (h : maxKey d = some m) : ∀ p, p ∈ d → p.1 ≤ m := by
  induction d generalizing m with
  | nil => simp
  | cons q qs ih =>
    intro p hp
    simp only [maxKey] at h
    cases hq : maxKey qs with
    | none =>
      rw [hq] at h
      simp at h
      cases qs with
      | nil =>
        simp at hp; subst hp; omega
      | cons q' qs' =>
        simp only [maxKey] at hq
        split at hq <;> simp at hq
    | some m' =>
      rw [hq] at h
      simp at h
      rcases List.mem_cons.1 hp with rfl | hmem
      · omega
      · have := ih hq p hmem
        omega

theorem minKey_le {d : CovDict} {m : Int} (h : minKey d = some m) : ∀ p, p ∈ d → m ≤ p.1 := by
  induction d generalizing m with
  | nil => simp
  | cons q qs ih =>
    intro p hp
    simp only [minKey] at h
    cases hq : minKey qs with
    | none =>
      rw [hq] at h
      simp at h
      cases qs with
      | nil =>
        simp at hp; subst hp; omega
      | cons q' qs' =>
        simp only [minKey] at hq
        split at hq <;> simp at hq
    | some m' =>
      rw [hq] at h
      simp at h
      rcases List.mem_cons.1 hp with rfl | hmem
      · omega
      · have := ih hq p hmem
        omega

theorem covGet_eq_zero_of_not_key {d : CovDict} {k : Int} (h : ∀ p, p ∈ d → p.1 ≠ k) : covGet d k = 0 := by
  induction d with
  | nil => rfl
  | cons q qs ih =>
    simp only [covGet]
    rw [if_neg (h q (by simp))]
    exact ih (fun p hp => h p (by simp [hp]))

/-- a lookup beyond the largest key reads the `defaultdict` default -/
theorem covGet_gt_maxKey {d : CovDict} {m k : Int} (h : maxKey d = some m) (hk : m < k) : covGet d k = 0 :=
  covGet_eq_zero_of_not_key (fun p hp => by have := maxKey_ge h p hp; omega)

/-! ### the loops of `split_coverage_regions` -/

theorem aboveValley_zero (mc : Int) : aboveValley 0 mc = false := by
  simp [aboveValley, ap_ABS_COV_VALLEY]

/-- the inner `while` terminates within `last + 2 - pos` steps, at a position in `[pos, last + 1]` -/
theorem splitInner_spec (d : CovDict) (last cs : Int) (hcov : ∀ k, last < k → covGet d k = 0) :
    ∀ (fuel : Nat) (pos mc : Int), pos ≤ last + 1 → (last + 2 - pos).toNat ≤ fuel →
      ∃ p mc', splitInner d last cs fuel pos mc = some (p, mc') ∧ pos ≤ p ∧ p ≤ last + 1 := by
  intro fuel
  induction fuel with
  | zero => intro pos mc h1 h2; omega
  | succ n ih =>
    intro pos mc h1 h2
    simp only [splitInner]
    split
    · rename_i hc
      have hpos : pos ≤ last := by
        rcases hc with hc | hc
        · exact hc.1
        · by_cases hp : pos ≤ last
          · exact hp
          · rw [hcov pos (by omega), aboveValley_zero] at hc
            exact absurd hc (by simp)
      obtain ⟨p, mc', h3, h4, h5⟩ := ih (pos + 1) (max mc (covGet d pos)) (by omega) (by omega)
      exact ⟨p, mc', h3, by omega, h5⟩
    · exact ⟨pos, mc, rfl, by omega, h1⟩

/-- the outer `while` terminates and its sub-regions abut: they tile `[max(cs*BIN+1, R.1), e]` with
    `last*BIN ≤ e ≤ R.2` (nothing is emitted when `pos > last`) -/
theorem splitOuter_spec (d : CovDict) (R : Iv) (first last : Int) (innerFuel : Nat)
    (hcov : ∀ k, last < k → covGet d k = 0) (hR : R.1 ≤ R.2)
    (hf : bin R.1 = first) (hl : bin R.2 = last) (hif : (last + 2 - first).toNat ≤ innerFuel) :
    ∀ (fuel : Nat) (cs pos mc : Int), first ≤ cs → (pos ≤ last → cs < pos) → pos ≤ last + 1 →
      (last + 1 - pos).toNat + 1 ≤ fuel →
      ∃ regs, splitOuter d R last innerFuel fuel cs pos mc = some regs ∧
        (last < pos → regs = []) ∧
        (pos ≤ last → regs ≠ [] ∧ ∃ e, TilesFrom (max (cs * ap_COVERAGE_BIN + 1) R.1) regs e ∧ e ≤ R.2 ∧
          last * ap_COVERAGE_BIN ≤ e) := by
  intro fuel
  induction fuel with
  | zero => intro cs pos mc _ _ _ h; omega
  | succ n ih =>
    intro cs pos mc h1 h2 h3 h4
    simp only [splitOuter]
    by_cases hp : pos ≤ last
    · rw [if_pos hp]
      obtain ⟨p, mc', hi1, hi2, hi3⟩ := splitInner_spec d last cs hcov innerFuel pos mc h3 (by omega)
      rw [hi1]
      simp only
      have hcs := h2 hp
      obtain ⟨rest, hr1, hr2, hr3⟩ := ih p (min (p + 1) (last + 1)) (covGet d p) (by omega) (by omega) (by omega) (by omega)
      rw [hr1]
      refine ⟨_, rfl, fun h => absurd hp (by omega), fun _ => ⟨by simp, ?_⟩⟩
      simp only [bin, ap_COVERAGE_BIN] at hf hl ⊢
      by_cases hq : p + 1 ≤ last
      · obtain ⟨hne, e, ht, he1, he2⟩ := hr3 (by omega)
        refine ⟨e, ⟨rfl, by simp only; omega, ?_⟩, he1, he2⟩
        have : min (p * 256) R.2 + 1 = max (p * 256 + 1) R.1 := by omega
        simp only [this]
        exact ht
      · have hnil := hr2 (by omega)
        subst hnil
        refine ⟨min (p * 256) R.2, ⟨rfl, by simp only; omega, rfl⟩, by omega, by omega⟩
    · rw [if_neg hp]
      exact ⟨[], rfl, fun _ => rfl, fun h => absurd h hp⟩

/-! ### generic list facts -/

theorem overlaps_true_iff (r a : Iv) : overlaps r a = true ↔ (a.1 ≤ r.2 ∧ r.1 ≤ a.2) := by
  simp only [overlaps, Bool.not_eq_true', Bool.or_eq_false_iff, decide_eq_false_iff_not]; omega

theorem overlaps_false_iff (r a : Iv) : overlaps r a = false ↔ (r.2 < a.1 ∨ a.2 < r.1) := by
  rw [← Bool.not_eq_true, overlaps_true_iff]; omega

theorem findIdx_congr' {α} (p q : α → Bool) (l : List α) (h : ∀ x, x ∈ l → p x = q x) :
    l.findIdx p = l.findIdx q := by
  induction l with
  | nil => rfl
  | cons a l ih =>
    rw [List.findIdx_cons, List.findIdx_cons, h a (by simp), ih (fun x hx => h x (by simp [hx]))]

theorem findIdx_or {α} (p q : α → Bool) (l : List α) :
    l.findIdx (fun x => p x || q x) = min (l.findIdx p) (l.findIdx q) := by
  induction l with
  | nil => simp
  | cons a l ih =>
    simp only [List.findIdx_cons, ih]
    cases p a <;> cases q a <;> simp <;> omega

/-- filtering a window `[i, j)` of a list whose elements outside the window fail the test = filtering the list -/
theorem filter_window {α} (p : α → Bool) (l : List α) (i j : Nat)
    (hlo : ∀ k (h : k < l.length), k < i → p l[k] = false)
    (hhi : ∀ k (h : k < l.length), j ≤ k → p l[k] = false) :
    ((l.take j).drop i).filter p = l.filter p := by
  have h1 : l.filter p = (l.take j).filter p := by
    conv => lhs; rw [← List.take_append_drop j l]
    rw [List.filter_append]
    have : (l.drop j).filter p = [] := by
      rw [List.filter_eq_nil_iff]
      intro a ha
      obtain ⟨k, hk, rfl⟩ := List.mem_drop_iff_getElem.1 ha
      simp [hhi (j + k) (by omega) (by omega)]
    simp [this]
  have h2 : (l.take j).filter p = ((l.take j).drop i).filter p := by
    conv => lhs; rw [← List.take_append_drop i (l.take j)]
    rw [List.filter_append]
    have : ((l.take j).take i).filter p = [] := by
      rw [List.filter_eq_nil_iff]
      intro a ha
      obtain ⟨k, hk, rfl⟩ := List.mem_take_iff_getElem.1 ha
      have hk' : k < (l.take j).length := by omega
      have hk2 : k < l.length := by simp at hk'; omega
      rw [List.getElem_take]
      simp [hlo k hk2 (by omega)]
    simp [this]
  rw [h1, h2]

/-! ### the in-memory storage -/

/-- the alignments are in coordinate order (what a sorted BAM gives) -/
def SortedByStart (l : List Aln) : Prop := l.Pairwise (fun a b => a.start ≤ b.start)

/-- well-formed alignment: at least one reference base -/
def WFA (a : Aln) : Prop := a.start < a.stop

def pS (b : Int) : Aln → Bool := fun x => decide (x.binS = b)
def pE (b : Int) : Aln → Bool := fun x => decide (x.binE = b)
def pSge (b : Int) : Aln → Bool := fun x => decide (b ≤ x.binS)
def pEge (b : Int) : Aln → Bool := fun x => decide (b ≤ x.binE)

/-- what `add_alignment` maintains: the index dictionaries hold the first index per start / end bin -/
structure StoreInv (s : Store) : Prop where
  start : ∀ b, s.startIdx.get b = s.alns.findIdx? (pS b)
  stop : ∀ b, s.endIdx.get b = s.alns.findIdx? (pE b)

theorem storeInv_empty : StoreInv Store.empty := ⟨fun _ => rfl, fun _ => rfl⟩

theorem findIdx?_snoc (l : List Aln) (a : Aln) (p : Aln → Bool) :
    (l ++ [a]).findIdx? p = (l.findIdx? p).or (if p a then some l.length else none) := by
  rw [List.findIdx?_append]
  congr 1
  simp [List.findIdx?_cons]

theorem storeInv_add {s : Store} (h : StoreInv s) (a : Aln) : StoreInv (s.add a) := by
  constructor
  · intro b
    simp only [Store.add]
    rw [findIdx?_snoc]
    cases hq : s.startIdx.get a.binS with
    | none =>
      simp only [idxSet]
      by_cases hb : b = a.binS
      · subst hb
        rw [← h.start, hq]
        simp [pS]
      · rw [if_neg hb, h.start b]
        have : pS b a = false := by simp [pS]; omega
        simp [this]
    | some v =>
      simp only
      by_cases hb : b = a.binS
      · subst hb
        rw [← h.start, hq]
        simp
      · rw [h.start b]
        have : pS b a = false := by simp [pS]; omega
        simp [this]
  · intro b
    simp only [Store.add]
    rw [findIdx?_snoc]
    cases hq : s.endIdx.get a.binE with
    | none =>
      simp only [idxSet]
      by_cases hb : b = a.binE
      · subst hb
        rw [← h.stop, hq]
        simp [pE]
      · rw [if_neg hb, h.stop b]
        have : pE b a = false := by simp [pE]; omega
        simp [this]
    | some v =>
      simp only
      by_cases hb : b = a.binE
      · subst hb
        rw [← h.stop, hq]
        simp
      · rw [h.stop b]
        have : pE b a = false := by simp [pE]; omega
        simp [this]

theorem add_alns (s : Store) (a : Aln) : (s.add a).alns = s.alns ++ [a] := rfl

theorem foldl_add_alns (l : List Aln) (s : Store) : (l.foldl Store.add s).alns = s.alns ++ l := by
  induction l generalizing s with
  | nil => simp
  | cons a l ih => simp [ih, add_alns]

theorem foldl_add_inv (l : List Aln) (s : Store) (h : StoreInv s) : StoreInv (l.foldl Store.add s) := by
  induction l generalizing s with
  | nil => exact h
  | cons a l ih => exact ih _ (storeInv_add h a)

theorem buildStore_alns (l : List Aln) : (buildStore l).alns = l := by
  simp [buildStore, foldl_add_alns, Store.empty]

theorem buildStore_inv (l : List Aln) : StoreInv (buildStore l) := foldl_add_inv l _ storeInv_empty

/-! ### `fill_index` -/

/-- first index whose start bin is `≥ b` (the list length when there is none) -/
def firstS (c : List Aln) (b : Int) : Nat := c.findIdx (pSge b)
/-- first index whose end bin is `≥ b` -/
def firstE (c : List Aln) (b : Int) : Nat := c.findIdx (pEge b)

theorem firstS_of_none {c : List Aln} {b : Int} (h : c.findIdx? (pS b) = none) : firstS c b = firstS c (b + 1) := by
  apply findIdx_congr'
  intro x hx
  have := (List.findIdx?_eq_none_iff.1 h) x hx
  simp [pS] at this
  simp [pSge]; omega

theorem firstE_of_none {c : List Aln} {b : Int} (h : c.findIdx? (pE b) = none) : firstE c b = firstE c (b + 1) := by
  apply findIdx_congr'
  intro x hx
  have := (List.findIdx?_eq_none_iff.1 h) x hx
  simp [pE] at this
  simp [pEge]; omega

theorem binS_mono {a b : Aln} (h : a.start ≤ b.start) : a.binS ≤ b.binS := by
  simp only [Aln.binS, bin, ap_COVERAGE_BIN]; omega

/-- in coordinate order the first alignment starting in bin `b` is the first one starting in a bin `≥ b` -/
theorem firstS_of_some {c : List Aln} (hs : SortedByStart c) {b : Int} {v : Nat} (h : c.findIdx? (pS b) = some v) :
    firstS c b = v := by
  obtain ⟨hv, hf⟩ := List.findIdx?_eq_some_iff_findIdx_eq.1 h
  have hpv : pS b c[v] = true := by
    have := List.findIdx_getElem (p := pS b) (xs := c) (w := by omega)
    simpa [hf] using this
  simp only [pS, decide_eq_true_eq] at hpv
  unfold firstS
  rw [List.findIdx_eq hv]
  refine ⟨by simp [pSge]; omega, ?_⟩
  intro j hj
  have hnot : pS b c[j] = false := List.not_of_lt_findIdx (by omega)
  simp only [pS, decide_eq_false_iff_not] at hnot
  have hle := binS_mono ((List.pairwise_iff_getElem.1 hs) j v (by omega) hv hj)
  simp [pSge]; omega

theorem firstE_of_some {c : List Aln} {b : Int} {v : Nat} (h : c.findIdx? (pE b) = some v) :
    firstE c b = min v (firstE c (b + 1)) := by
  obtain ⟨hv, hf⟩ := List.findIdx?_eq_some_iff_findIdx_eq.1 h
  unfold firstE
  rw [← hf, ← findIdx_or]
  apply findIdx_congr'
  intro x _
  simp only [pEge, pE]
  rw [Bool.eq_iff_iff]
  simp; omega

/-- the downward loop over `alignment_start_index`: bins `(pos - n, pos]` end up holding `firstS`, the others
    are untouched -/
theorem fillStartLoop_spec (c : List Aln) (hs : SortedByStart c) :
    ∀ (n : Nat) (pos : Int) (idx : Idx) (cur : Nat),
      (∀ b, b ≤ pos → idx.get b = c.findIdx? (pS b)) → cur = firstS c (pos + 1) →
      ∀ b, (pos - n < b → b ≤ pos → (fillStartLoop n pos idx cur).get b = some (firstS c b)) ∧
           ((b ≤ pos - n ∨ pos < b) → (fillStartLoop n pos idx cur).get b = idx.get b) := by
  intro n
  induction n with
  | zero =>
    intro pos idx cur _ _ b
    exact ⟨fun h1 h2 => by omega, fun _ => rfl⟩
  | succ n ih =>
    intro pos idx cur hraw hcur b
    simp only [fillStartLoop]
    cases hq : idx.get pos with
    | none =>
      simp only
      have hnone : c.findIdx? (pS pos) = none := by rw [← hraw pos (Int.le_refl _)]; exact hq
      have hF : firstS c pos = cur := by rw [firstS_of_none hnone, hcur]
      have ih' := ih (pos - 1) (idxSet idx pos cur) cur
        (fun b' hb' => by simp only [idxSet]; rw [if_neg (by omega)]; exact hraw b' (by omega))
        (by rw [← hF]; congr 1; omega) b
      constructor
      · intro h1 h2
        by_cases hb : b = pos
        · subst hb
          rw [ih'.2 (Or.inr (by omega))]
          simp [idxSet, hF]
        · exact ih'.1 (by omega) (by omega)
      · intro h
        rw [ih'.2 (by omega)]
        simp only [idxSet]
        rw [if_neg (by omega)]
    | some v =>
      simp only
      have hsome : c.findIdx? (pS pos) = some v := by rw [← hraw pos (Int.le_refl _)]; exact hq
      have hF : firstS c pos = v := firstS_of_some hs hsome
      have ih' := ih (pos - 1) idx v (fun b' hb' => hraw b' (by omega)) (by rw [← hF]; congr 1; omega) b
      constructor
      · intro h1 h2
        by_cases hb : b = pos
        · subst hb
          rw [ih'.2 (Or.inr (by omega)), hq, hF]
        · exact ih'.1 (by omega) (by omega)
      · intro h
        exact ih'.2 (by omega)

theorem fillEndLoop_spec (c : List Aln) :
    ∀ (n : Nat) (pos : Int) (idx : Idx) (cur : Nat),
      (∀ b, b ≤ pos → idx.get b = c.findIdx? (pE b)) → cur = firstE c (pos + 1) →
      ∀ b, (pos - n < b → b ≤ pos → (fillEndLoop n pos idx cur).get b = some (firstE c b)) ∧
           ((b ≤ pos - n ∨ pos < b) → (fillEndLoop n pos idx cur).get b = idx.get b) := by
  intro n
  induction n with
  | zero =>
    intro pos idx cur _ _ b
    exact ⟨fun h1 h2 => by omega, fun _ => rfl⟩
  | succ n ih =>
    intro pos idx cur hraw hcur b
    simp only [fillEndLoop]
    cases hq : idx.get pos with
    | none =>
      simp only
      have hnone : c.findIdx? (pE pos) = none := by rw [← hraw pos (Int.le_refl _)]; exact hq
      have hF : firstE c pos = cur := by rw [firstE_of_none hnone, hcur]
      have ih' := ih (pos - 1) (idxSet idx pos cur) cur
        (fun b' hb' => by simp only [idxSet]; rw [if_neg (by omega)]; exact hraw b' (by omega))
        (by rw [← hF]; congr 1; omega) b
      constructor
      · intro h1 h2
        by_cases hb : b = pos
        · subst hb
          rw [ih'.2 (Or.inr (by omega))]
          simp [idxSet, hF]
        · exact ih'.1 (by omega) (by omega)
      · intro h
        rw [ih'.2 (by omega)]
        simp only [idxSet]
        rw [if_neg (by omega)]
    | some v =>
      simp only
      have hsome : c.findIdx? (pE pos) = some v := by rw [← hraw pos (Int.le_refl _)]; exact hq
      have hF : firstE c pos = min v cur := by rw [firstE_of_some hsome, hcur]
      split
      · rename_i hgt
        have hF' : firstE c pos = cur := by omega
        have ih' := ih (pos - 1) (idxSet idx pos cur) cur
          (fun b' hb' => by simp only [idxSet]; rw [if_neg (by omega)]; exact hraw b' (by omega))
          (by rw [← hF']; congr 1; omega) b
        constructor
        · intro h1 h2
          by_cases hb : b = pos
          · subst hb
            rw [ih'.2 (Or.inr (by omega))]
            simp [idxSet, hF']
          · exact ih'.1 (by omega) (by omega)
        · intro h
          rw [ih'.2 (by omega)]
          simp only [idxSet]
          rw [if_neg (by omega)]
      · rename_i hle
        have hF' : firstE c pos = v := by omega
        have ih' := ih (pos - 1) idx v (fun b' hb' => hraw b' (by omega)) (by rw [← hF']; congr 1; omega) b
        constructor
        · intro h1 h2
          by_cases hb : b = pos
          · subst hb
            rw [ih'.2 (Or.inr (by omega)), hq, hF']
          · exact ih'.1 (by omega) (by omega)
        · intro h
          exact ih'.2 (by omega)

/-! ### the region of a storage -/

/-- what `add_alignment` maintains about `region`: it is the hull of the stored alignments -/
def RegionInv (s : Store) : Prop :=
  match s.region with
  | none => s.alns = []
  | some R => s.alns ≠ [] ∧ (∀ x, x ∈ s.alns → R.1 ≤ x.start ∧ x.stop - 1 ≤ R.2) ∧
      (∃ x, x ∈ s.alns ∧ x.start = R.1) ∧ (∃ x, x ∈ s.alns ∧ x.stop - 1 = R.2)

theorem regionInv_empty : RegionInv Store.empty := rfl

theorem regionInv_add {s : Store} (h : RegionInv s) (a : Aln) : RegionInv (s.add a) := by
  unfold RegionInv at h ⊢
  simp only [Store.add]
  cases hr : s.region with
  | none =>
    rw [hr] at h
    simp only [hullAdd, h]
    refine ⟨by simp, ?_, ⟨a, by simp, rfl⟩, ⟨a, by simp, rfl⟩⟩
    intro x hx
    simp at hx
    subst hx
    omega
  | some R =>
    rw [hr] at h
    obtain ⟨hne, hc, ⟨x1, hx1, hx1'⟩, ⟨x2, hx2, hx2'⟩⟩ := h
    simp only [hullAdd]
    refine ⟨by simp, ?_, ?_, ?_⟩
    · intro x hx
      rcases List.mem_append.1 hx with hx | hx
      · have := hc x hx
        omega
      · simp at hx
        subst hx
        omega
    · by_cases hm : R.1 ≤ a.start
      · exact ⟨x1, by simp [hx1], by omega⟩
      · exact ⟨a, by simp, by omega⟩
    · by_cases hm : a.stop - 1 ≤ R.2
      · exact ⟨x2, by simp [hx2], by omega⟩
      · exact ⟨a, by simp, by omega⟩

theorem foldl_add_regionInv (l : List Aln) (s : Store) (h : RegionInv s) : RegionInv (l.foldl Store.add s) := by
  induction l generalizing s with
  | nil => exact h
  | cons a l ih => exact ih _ (regionInv_add h a)

theorem buildStore_regionInv (l : List Aln) : RegionInv (buildStore l) := foldl_add_regionInv l _ regionInv_empty

theorem add_region_isSome (s : Store) (a : Aln) : (s.add a).region.isSome = true := rfl

theorem buildStore_region_of_ne {l : List Aln} (h : l ≠ []) : ∃ R, (buildStore l).region = some R := by
  have hi := buildStore_regionInv l
  unfold RegionInv at hi
  cases hr : (buildStore l).region with
  | none => rw [hr] at hi; rw [buildStore_alns] at hi; exact absurd hi h
  | some R => exact ⟨R, rfl⟩

/-- region facts of a built storage, in one place -/
theorem buildStore_region_spec {l : List Aln} {R : Iv} (h : (buildStore l).region = some R) :
    l ≠ [] ∧ (∀ x, x ∈ l → R.1 ≤ x.start ∧ x.stop - 1 ≤ R.2) ∧
      (∃ x, x ∈ l ∧ x.start = R.1) ∧ (∃ x, x ∈ l ∧ x.stop - 1 = R.2) := by
  have hi := buildStore_regionInv l
  unfold RegionInv at hi
  rw [h, buildStore_alns] at hi
  exact hi

theorem region_wf {l : List Aln} {R : Iv} (h : (buildStore l).region = some R) (hwf : ∀ x, x ∈ l → WFA x) :
    R.1 ≤ R.2 := by
  obtain ⟨_, hc, ⟨x, hx, hx'⟩, _⟩ := buildStore_region_spec h
  have := hc x hx
  have := hwf x hx
  unfold WFA at this
  omega

/-! ### `InMemoryAlignmentStorage.get_alignments` -/

theorem bin_lt_of_lt {x y : Int} (h : bin x < bin y) : x < y := by
  simp only [bin, ap_COVERAGE_BIN] at h; omega

theorem bin_mono {x y : Int} (h : x ≤ y) : bin x ≤ bin y := by
  simp only [bin, ap_COVERAGE_BIN]; omega

/-- every stored alignment overlaps the region of its storage -/
theorem overlaps_hull {l : List Aln} {R : Iv} (h : (buildStore l).region = some R) (hwf : ∀ x, x ∈ l → WFA x) :
    ∀ x, x ∈ l → overlaps R x.iv = true := by
  obtain ⟨_, hc, _, _⟩ := buildStore_region_spec h
  intro x hx
  have := hc x hx
  have := hwf x hx
  unfold WFA at this
  rw [overlaps_true_iff]; simp only [Aln.iv]; omega

/-- **the index of the in-memory storage is exact**: for every sub-region `r` of the cluster's region the
    window `[alignment_end_index[bin r.1], alignment_start_index[bin r.2 + 1])` filtered by overlap is the
    overlap filter of the whole storage -/
theorem memGet_exact (c : List Aln) (hs : SortedByStart c) (hwf : ∀ x, x ∈ c → WFA x) (R : Iv)
    (hreg : (buildStore c).region = some R) (r : Iv) (h1 : R.1 ≤ r.1) (h2 : r.1 ≤ r.2) (h3 : r.2 ≤ R.2) :
    (buildStore c).memGet (some r) = some (c.filter (fun a => overlaps r a.iv)) := by
  obtain ⟨hne, hc, _, _⟩ := buildStore_region_spec hreg
  have hinv := buildStore_inv c
  have halns := buildStore_alns c
  simp only [Store.memGet, Store.memGetOff]
  by_cases heq : some r = (buildStore c).region
  · rw [if_pos heq, halns]
    rw [hreg] at heq
    injection heq with heq
    subst heq
    congr 1
    symm
    rw [List.filter_eq_self]
    intro a ha
    exact overlaps_hull hreg hwf a ha
  · rw [if_neg heq]
    simp only [Store.fillIndex, hreg, halns]
    -- all start / end bins are ≤ bin R.2
    have hSle : ∀ x, x ∈ c → x.binS ≤ bin R.2 := by
      intro x hx
      have := hc x hx
      have := hwf x hx
      unfold WFA at this
      exact bin_mono (by omega)
    have hEle : ∀ x, x ∈ c → x.binE ≤ bin R.2 := by
      intro x hx
      have := hc x hx
      exact bin_mono (by omega)
    have hcurS : c.length = firstS c (bin R.2 + 1 + 1) := by
      symm
      unfold firstS
      rw [List.findIdx_eq_length]
      intro x hx
      have := hSle x hx
      simp [pSge]; omega
    have hcurE : c.length = firstE c (bin R.2 + 1 + 1) := by
      symm
      unfold firstE
      rw [List.findIdx_eq_length]
      intro x hx
      have := hEle x hx
      simp [pEge]; omega
    have hbR : bin R.1 ≤ bin R.2 := bin_mono (by omega)
    have hb1 : bin R.1 ≤ bin r.1 := bin_mono h1
    have hb2 : bin r.1 ≤ bin r.2 := bin_mono h2
    have hb3 : bin r.2 ≤ bin R.2 := bin_mono h3
    have hS := (fillStartLoop_spec c hs (bin R.2 + 1 + 1 - bin R.1).toNat (bin R.2 + 1) (buildStore c).startIdx c.length
      (fun b _ => hinv.start b ▸ by rw [halns]) hcurS (bin r.2 + 1)).1 (by omega) (by omega)
    have hE := (fillEndLoop_spec c (bin R.2 + 1 + 1 - bin R.1).toNat (bin R.2 + 1) (buildStore c).endIdx c.length
      (fun b _ => hinv.stop b ▸ by rw [halns]) hcurE (bin r.1)).1 (by omega) (by omega)
    rw [hE, hS]
    simp only
    rw [if_pos (by unfold firstS; exact List.findIdx_le_length)]
    congr 1
    apply filter_window
    · intro k hk hlt
      have hnot : pEge (bin r.1) c[k] = false := List.not_of_lt_findIdx hlt
      have hnot1 : ¬ (bin r.1 ≤ c[k].binE) := of_decide_eq_false hnot
      have hnot' : bin (c[k].stop - 1) < bin r.1 := by simp only [Aln.binE] at hnot1; omega
      have := bin_lt_of_lt hnot'
      rw [overlaps_false_iff]; simp only [Aln.iv]; omega
    · intro k hk hge
      have hfl : firstS c (bin r.2 + 1) < c.length := by unfold firstS at hge ⊢; omega
      have hp0 : pSge (bin r.2 + 1) c[firstS c (bin r.2 + 1)] = true := List.findIdx_getElem (w := hfl)
      have hp : bin r.2 + 1 ≤ c[firstS c (bin r.2 + 1)].binS := of_decide_eq_true hp0
      have hle : c[firstS c (bin r.2 + 1)].binS ≤ c[k].binS := by
        by_cases hek : firstS c (bin r.2 + 1) = k
        · simp [hek]
        · exact binS_mono ((List.pairwise_iff_getElem.1 hs) _ k hfl hk (by unfold firstS at hge hek ⊢; omega))
      have := bin_lt_of_lt (by simp only [Aln.binS] at hp hle; omega : bin r.2 < bin c[k].start)
      rw [overlaps_false_iff]; simp only [Aln.iv]; omega

/-! ### keys of the coverage dictionary of a storage -/

def optMin (o : Option Int) (k : Int) : Int := match o with | none => k | some m => min m k
def optMax (o : Option Int) (k : Int) : Int := match o with | none => k | some m => max m k

theorem minKey_cons (p : Int × Int) (ps : CovDict) : minKey (p :: ps) = some (optMin (minKey ps) p.1) := by
  simp only [minKey, optMin]
  cases minKey ps <;> simp <;> omega

theorem maxKey_cons (p : Int × Int) (ps : CovDict) : maxKey (p :: ps) = some (optMax (maxKey ps) p.1) := by
  simp only [maxKey, optMax]
  cases maxKey ps <;> simp <;> omega

theorem minKey_covBump (d : CovDict) (k : Int) : minKey (covBump d k) = some (optMin (minKey d) k) := by
  induction d with
  | nil => simp [covBump, minKey, optMin]
  | cons p ps ih =>
    simp only [covBump]
    split
    · rename_i hk
      rw [minKey_cons, minKey_cons]
      simp only [optMin]
      cases minKey ps <;> simp <;> omega
    · rw [minKey_cons, ih, minKey_cons]
      simp only [optMin]
      cases minKey ps <;> simp <;> omega

theorem maxKey_covBump (d : CovDict) (k : Int) : maxKey (covBump d k) = some (optMax (maxKey d) k) := by
  induction d with
  | nil => simp [covBump, maxKey, optMax]
  | cons p ps ih =>
    simp only [covBump]
    split
    · rename_i hk
      rw [maxKey_cons, maxKey_cons]
      simp only [optMax]
      cases maxKey ps <;> simp <;> omega
    · rw [maxKey_cons, ih, maxKey_cons]
      simp only [optMax]
      cases maxKey ps <;> simp <;> omega

theorem minKey_covBumpRange (n : Nat) : ∀ (d : CovDict) (lo : Int),
    minKey (covBumpRange d lo (n + 1)) = some (optMin (minKey d) lo) := by
  induction n with
  | zero => intro d lo; simp [covBumpRange, minKey_covBump]
  | succ n ih =>
    intro d lo
    rw [covBumpRange, ih, minKey_covBump]
    simp only [optMin]
    cases minKey d <;> simp <;> omega

theorem maxKey_covBumpRange (n : Nat) : ∀ (d : CovDict) (lo : Int),
    maxKey (covBumpRange d lo (n + 1)) = some (optMax (maxKey d) (lo + n)) := by
  induction n with
  | zero => intro d lo; simp [covBumpRange, maxKey_covBump]
  | succ n ih =>
    intro d lo
    rw [covBumpRange, ih, maxKey_covBump]
    simp only [optMax]
    cases maxKey d <;> simp <;> omega

/-- what `add_alignment` maintains about `coverage_dict`: its extreme keys are the bins of the region's ends -/
def CovInv (s : Store) : Prop :=
  match s.region with
  | none => s.cov = []
  | some R => minKey s.cov = some (bin R.1) ∧ maxKey s.cov = some (bin R.2)

theorem covInv_add {s : Store} (h : CovInv s) (a : Aln) (hw : WFA a) : CovInv (s.add a) := by
  unfold CovInv at h ⊢
  unfold WFA at hw
  have hbins : a.binS ≤ a.binE := by simp only [Aln.binS, Aln.binE]; exact bin_mono (by omega)
  obtain ⟨n, hn⟩ : ∃ n : Nat, (a.binE + 1 - a.binS).toNat = n + 1 := ⟨(a.binE - a.binS).toNat, by omega⟩
  have hn' : a.binS + (n : Int) = a.binE := by omega
  simp only [Store.add, hn, minKey_covBumpRange, maxKey_covBumpRange, hn']
  cases hr : s.region with
  | none =>
    rw [hr] at h
    simp [h, hullAdd, minKey, maxKey, optMin, optMax, Aln.binS, Aln.binE]
  | some R =>
    rw [hr] at h
    simp only [h.1, h.2, hullAdd, optMin, optMax, Aln.binS, Aln.binE, bin, ap_COVERAGE_BIN]
    constructor
    · congr 1; omega
    · congr 1; omega

theorem covInv_empty : CovInv Store.empty := rfl

theorem foldl_add_covInv (l : List Aln) (hw : ∀ x, x ∈ l → WFA x) (s : Store) (h : CovInv s) :
    CovInv (l.foldl Store.add s) := by
  induction l generalizing s with
  | nil => exact h
  | cons a l ih =>
    exact ih (fun x hx => hw x (by simp [hx])) _ (covInv_add h a (hw a (by simp)))

theorem buildStore_covInv (l : List Aln) (hw : ∀ x, x ∈ l → WFA x) : CovInv (buildStore l) :=
  foldl_add_covInv l hw _ covInv_empty

/-! ### the `process` loop -/

theorem add_eq_build (p : List Aln) (a : Aln) : (buildStore p).add a = buildStore (p ++ [a]) := by
  simp [buildStore, List.foldl_append]

/-- alignments of different storages do not overlap: everything in `s1` ends before anything in `s2` starts -/
def Before (c1 c2 : List Aln) : Prop := ∀ x, x ∈ c1 → ∀ b, b ∈ c2 → x.stop - 1 < b.start

/-- invariant of the loop of `AlignmentCollector.process` on a coordinate-sorted, well-formed input `whole`;
    `rest` = the records not yet read -/
structure Inv (whole : List Aln) (st : PState) (rest : List Aln) : Prop where
  built : st.store = buildStore st.store.alns
  outBuilt : ∀ s, s ∈ st.out → s = buildStore s.alns ∧ s.alns ≠ []
  sorted : SortedByStart (st.store.alns ++ rest)
  wf : ∀ x, x ∈ st.store.alns ++ rest → WFA x
  sepOut : ∀ s, s ∈ st.out → Before s.alns (st.store.alns ++ rest)
  pairwiseOut : st.out.Pairwise (fun s1 s2 => Before s1.alns s2.alns)
  flat : (st.out.map (·.alns)).flatten ++ st.store.alns ++ rest = whole

theorem inv_init (l : List Aln) (hs : SortedByStart l) (hw : ∀ x, x ∈ l → WFA x) : Inv l PState.init l := by
  refine ⟨rfl, ?_, ?_, ?_, ?_, ?_, ?_⟩ <;> simp [PState.init, Store.empty, hs] <;> first | exact hw | skip
  all_goals simp

theorem inv_step {whole : List Aln} {st : PState} {a : Aln} {l : List Aln} (h : Inv whole st (a :: l)) :
    Inv whole (processStep st a) l := by
  have hsorted := h.sorted
  unfold SortedByStart at hsorted
  rw [List.pairwise_append] at hsorted
  obtain ⟨hs1, hs2, hs3⟩ := hsorted
  have hwa : WFA a := h.wf a (by simp)
  unfold processStep
  split
  · rename_i hna
    -- a new cluster starts with `a`
    cases hr : st.store.region with
    | none => rw [hr] at hna; simp [notAdjacent] at hna
    | some R =>
      rw [hr] at hna
      have hov : overlaps R a.iv = false := by simpa [notAdjacent] using hna
      have hreg : (buildStore st.store.alns).region = some R := by rw [← h.built]; exact hr
      obtain ⟨hne, hc, ⟨x1, hx1, hx1'⟩, _⟩ := buildStore_region_spec hreg
      have hR2 : R.2 < a.start := by
        rcases (overlaps_false_iff R a.iv).1 hov with h1 | h1
        · exact h1
        · have := hs3 x1 hx1 a (by simp)
          unfold WFA at hwa
          simp only [Aln.iv] at h1
          omega
      have hstoreBefore : Before st.store.alns ([a] ++ l) := by
        intro x hx b hb
        have hxR := hc x hx
        have hab : a.start ≤ b.start := by
          rcases List.mem_append.1 hb with hb | hb
          · simp at hb; subst hb; omega
          · exact (List.pairwise_cons.1 hs2).1 b hb
        omega
      refine ⟨?_, ?_, ?_, ?_, ?_, ?_, ?_⟩
      · rfl
      · intro s hs
        rcases List.mem_append.1 hs with hs | hs
        · exact h.outBuilt s hs
        · simp at hs; subst hs; exact ⟨h.built, hne⟩
      · show SortedByStart ((Store.empty.add a).alns ++ l)
        have e : (Store.empty.add a).alns ++ l = a :: l := by simp [add_alns, Store.empty]
        rw [e]
        exact hs2
      · intro x hx
        have hx' : x ∈ a :: l := by simpa [add_alns, Store.empty] using hx
        exact h.wf x (by simp only [List.mem_append]; exact Or.inr hx')
      · intro s hs
        show Before s.alns ((Store.empty.add a).alns ++ l)
        have e : (Store.empty.add a).alns ++ l = [a] ++ l := by simp [add_alns, Store.empty]
        rw [e]
        rcases List.mem_append.1 hs with hs | hs
        · intro x hx b hb
          exact h.sepOut s hs x hx b (by simp only [List.mem_append]; exact Or.inr (by simpa using hb))
        · simp at hs; subst hs; exact hstoreBefore
      · show (st.out ++ [st.store]).Pairwise _
        rw [List.pairwise_append]
        refine ⟨h.pairwiseOut, by simp, ?_⟩
        intro s1 hs1' s2 hs2'
        simp at hs2'; subst hs2'
        intro x hx b hb
        exact h.sepOut s1 hs1' x hx b (by simp [hb])
      · have := h.flat
        simp only [add_alns, Store.empty, List.map_append, List.flatten_append] at this ⊢
        simpa using this
  · -- `a` joins the current storage
    refine ⟨?_, h.outBuilt, ?_, ?_, ?_, h.pairwiseOut, ?_⟩
    · show st.store.add a = buildStore (st.store.add a).alns
      rw [add_alns, ← add_eq_build, ← h.built]
    · show SortedByStart ((st.store.add a).alns ++ l)
      rw [add_alns, List.append_assoc]
      exact h.sorted
    · intro x hx
      rw [add_alns, List.append_assoc] at hx
      exact h.wf x hx
    · intro s hs
      show Before s.alns ((st.store.add a).alns ++ l)
      rw [add_alns, List.append_assoc]
      exact h.sepOut s hs
    · show (st.out.map (·.alns)).flatten ++ (st.store.add a).alns ++ l = whole
      rw [add_alns]
      have := h.flat
      simpa using this

theorem inv_foldl {whole : List Aln} : ∀ (l : List Aln) (st : PState), Inv whole st l →
    Inv whole (l.foldl processStep st) [] := by
  intro l
  induction l with
  | nil => intro st h; exact h
  | cons a l ih => intro st h; exact ih _ (inv_step h)

theorem stats_foldl (l : List Aln) (st : PState) :
    (l.foldl processStep st).stats = l.foldl statStep st.stats := by
  induction l generalizing st with
  | nil => rfl
  | cons a l ih =>
    simp only [List.foldl_cons]
    rw [ih]
    congr 1
    unfold processStep
    split <;> rfl

/-- the storages forwarded by `process`, summarised -/
theorem processStores_spec (l : List Aln) (hs : SortedByStart l) (hw : ∀ x, x ∈ l → WFA x) :
    (∀ s, s ∈ processStores l → s = buildStore s.alns ∧ s.alns ≠ []) ∧
    ((processStores l).map (·.alns)).flatten = l ∧
    (processStores l).Pairwise (fun s1 s2 => Before s1.alns s2.alns) := by
  have h := inv_foldl l _ (inv_init l hs hw)
  unfold processStores processFinish
  generalize l.foldl processStep PState.init = st at h
  cases hr : st.store.region with
  | none =>
    have hnil : st.store.alns = [] := by
      have := buildStore_regionInv st.store.alns
      unfold RegionInv at this
      rw [← h.built, hr] at this
      exact this
    simp only [Option.isSome_none, Bool.false_eq_true, if_false]
    refine ⟨h.outBuilt, ?_, h.pairwiseOut⟩
    have := h.flat
    simpa [hnil] using this
  | some R =>
    have hreg : (buildStore st.store.alns).region = some R := by rw [← h.built]; exact hr
    obtain ⟨hne, _⟩ := buildStore_region_spec hreg
    simp only [Option.isSome_some, if_true]
    refine ⟨?_, ?_, ?_⟩
    · intro s hs'
      rcases List.mem_append.1 hs' with hs' | hs'
      · exact h.outBuilt s hs'
      · simp at hs'; subst hs'; exact ⟨h.built, hne⟩
    · have := h.flat
      simpa using this
    · rw [List.pairwise_append]
      refine ⟨h.pairwiseOut, by simp, ?_⟩
      intro s1 hs1 s2 hs2
      simp at hs2; subst hs2
      intro x hx b hb
      exact h.sepOut s1 hs1 x hx b (by simp [hb])

/-! ### `forward_alignments` -/

theorem tilesFrom_sub {a b : Int} {regs : List Iv} (h : TilesFrom a regs b) :
    ∀ r, r ∈ regs → a ≤ r.1 ∧ r.1 ≤ r.2 ∧ r.2 ≤ b := by
  induction regs generalizing a with
  | nil => simp
  | cons r rs ih =>
    obtain ⟨ha, hwf, hrest⟩ := h
    intro r' hr'
    rcases List.mem_cons.1 hr' with rfl | hmem
    · have := tilesFrom_le hrest
      omega
    · have := ih hrest r' hmem
      omega

theorem mapRegions_of_forall {get : Iv → Option (List Aln)} {f : Iv → List Aln} :
    ∀ (regs : List Iv), (∀ r, r ∈ regs → get r = some (f r)) →
      mapRegions get regs = some (regs.map (fun r => (r, f r))) := by
  intro regs
  induction regs with
  | nil => intro _; rfl
  | cons r rs ih =>
    intro h
    simp only [mapRegions, h r (by simp), ih (fun r' hr' => h r' (by simp [hr'])), List.map_cons]

/-- what both storages hand to `process_alignments_in_region` for a cluster `c` with region `R` split into `regs` -/
def expectedForward (c : List Aln) (R : Iv) (regs : List Iv) : List (Iv × List Aln) :=
  match regs with
  | [_] => [(R, c)]
  | _ => regs.map (fun r => (r, c.filter (fun a => overlaps r a.iv)))

theorem forwardWith_of {split : Iv → Nat → CovDict → Option (List Iv)} {get : Option Iv → Option (List Aln)}
    {s : Store} {R : Iv} {regs : List Iv} {c : List Aln} (hreg : s.region = some R)
    (hsplit : split R s.alns.length s.cov = some regs) (hall : get none = some c)
    (hsub : ∀ r, r ∈ regs → get (some r) = some (c.filter (fun a => overlaps r a.iv))) :
    forwardWith split get s = some (expectedForward c R regs) := by
  unfold forwardWith
  rw [hreg]
  simp only [hsplit]
  match regs, hsub with
  | [], _ => rfl
  | [r], _ => simp [hall, expectedForward]
  | r :: r' :: rs, hsub =>
    simp only [expectedForward]
    exact mapRegions_of_forall (get := fun r => get (some r)) _ hsub

/-- pysam `fetch` on the whole chromosome returns, for a sub-region of a cluster, exactly the overlap filter of the
    cluster: records of other clusters cannot overlap it -/
theorem bamGet_cluster {pre c post : List Aln} {R r : Iv} (hpre : Before pre c) (hpost : Before c post)
    (hlo : ∃ x, x ∈ c ∧ x.start = R.1) (hhi : ∃ x, x ∈ c ∧ x.stop - 1 = R.2) (h1 : R.1 ≤ r.1) (h2 : r.2 ≤ R.2) :
    bamGet (pre ++ c ++ post) r = c.filter (fun a => overlaps r a.iv) := by
  obtain ⟨x1, hx1, hx1'⟩ := hlo
  obtain ⟨x2, hx2, hx2'⟩ := hhi
  unfold bamGet
  rw [List.filter_append, List.filter_append]
  have e1 : pre.filter (fun a => overlaps r a.iv) = [] := by
    rw [List.filter_eq_nil_iff]
    intro a ha
    have := hpre a ha x1 hx1
    have : overlaps r a.iv = false := by rw [overlaps_false_iff]; simp only [Aln.iv]; omega
    simp [this]
  have e2 : post.filter (fun a => overlaps r a.iv) = [] := by
    rw [List.filter_eq_nil_iff]
    intro a ha
    have := hpost x2 hx2 a ha
    have : overlaps r a.iv = false := by rw [overlaps_false_iff]; simp only [Aln.iv]; omega
    simp [this]
  simp [e1, e2]

theorem collectStores_of_forall {f : Store → Option (List (Iv × List Aln))} {g : Store → List (Iv × List Aln)} :
    ∀ (ss : List Store), (∀ s, s ∈ ss → f s = some (g s)) → collectStores f ss = some (ss.flatMap g) := by
  intro ss
  induction ss with
  | nil => intro _; rfl
  | cons s ss ih =>
    intro h
    simp only [collectStores, h s (by simp), ih (fun s' hs' => h s' (by simp [hs'])), List.flatMap_cons]

/-! ### statistics -/

theorem statStep_foldl (l : List Aln) (s : Stats) (t : AlignmentType) :
    (l.foldl statStep s) t = s t + (l.filter (fun a => decide (statKey a = some t))).length := by
  induction l generalizing s with
  | nil => simp
  | cons a l ih =>
    simp only [List.foldl_cons, ih, List.filter_cons]
    unfold statStep
    cases hk : statKey a with
    | none => simp
    | some k =>
      by_cases htk : t = k
      · subst htk; simp; omega
      · have : ¬ (k = t) := fun h => htk h.symm
        simp [htk, this]

/-! ### `find_duplicates` -/

section fd
variable {α : Type} [DecidableEq α] (eq : α → α → Bool)

theorem fdInner_mono (x : α) : ∀ (ys disc : List α) (z : α), z ∈ disc → z ∈ fdInner eq x ys disc := by
  intro ys
  induction ys with
  | nil => intro disc z hz; exact hz
  | cons y ys ih =>
    intro disc z hz
    simp only [fdInner]
    split
    · exact ih disc z hz
    · split
      · exact ih (y :: disc) z (by simp [hz])
      · exact ih disc z hz

theorem fdInner_adds (x : α) : ∀ (ys disc : List α) (y : α), y ∈ ys → eq x y = true → y ∈ fdInner eq x ys disc := by
  intro ys
  induction ys with
  | nil => intro disc y hy; simp at hy
  | cons y' ys ih =>
    intro disc y hy he
    simp only [fdInner]
    rcases List.mem_cons.1 hy with rfl | hmem
    · split
      · rename_i hc
        exact fdInner_mono eq x ys disc y (by simpa using hc)
      · exact fdInner_mono eq x ys (y :: disc) y (by simp)
    · split
      · exact ih disc y hmem he
      · split
        · exact ih _ y hmem he
        · exact ih disc y hmem he

theorem fdInner_only (x : α) : ∀ (ys disc : List α) (z : α), z ∈ fdInner eq x ys disc →
    z ∈ disc ∨ (z ∈ ys ∧ eq x z = true) := by
  intro ys
  induction ys with
  | nil => intro disc z hz; exact Or.inl hz
  | cons y ys ih =>
    intro disc z hz
    simp only [fdInner] at hz
    split at hz
    · rcases ih disc z hz with h | h
      · exact Or.inl h
      · exact Or.inr ⟨by simp [h.1], h.2⟩
    · split at hz
      · rename_i he
        rcases ih (y :: disc) z hz with h | h
        · rcases List.mem_cons.1 h with rfl | h'
          · exact Or.inr ⟨by simp, he⟩
          · exact Or.inl h'
        · exact Or.inr ⟨by simp [h.1], h.2⟩
      · rcases ih disc z hz with h | h
        · exact Or.inl h
        · exact Or.inr ⟨by simp [h.1], h.2⟩

theorem fdOuter_mem : ∀ (l disc : List α) (z : α), z ∈ fdOuter eq l disc → z ∈ l ∧ z ∉ disc := by
  intro l
  induction l with
  | nil => intro disc z hz; simp [fdOuter] at hz
  | cons x rest ih =>
    intro disc z hz
    simp only [fdOuter] at hz
    split at hz
    · have := ih disc z hz
      exact ⟨by simp [this.1], this.2⟩
    · rename_i hc
      rcases List.mem_cons.1 hz with rfl | hmem
      · exact ⟨by simp, by simpa using hc⟩
      · have := ih _ z hmem
        exact ⟨by simp [this.1], fun hd => this.2 (fdInner_mono eq x rest disc z hd)⟩

theorem fdOuter_sublist : ∀ (l disc : List α), (fdOuter eq l disc).Sublist l := by
  intro l
  induction l with
  | nil => intro disc; simp [fdOuter]
  | cons x rest ih =>
    intro disc
    simp only [fdOuter]
    split
    · exact (ih disc).trans (List.sublist_cons_self x rest)
    · exact (ih _).cons_cons x

theorem fdOuter_pairwise : ∀ (l disc : List α), (fdOuter eq l disc).Pairwise (fun a b => eq a b = false) := by
  intro l
  induction l with
  | nil => intro disc; simp [fdOuter]
  | cons x rest ih =>
    intro disc
    simp only [fdOuter]
    split
    · exact ih disc
    · refine List.pairwise_cons.2 ⟨?_, ih _⟩
      intro z hz
      obtain ⟨hz1, hz2⟩ := fdOuter_mem eq rest _ z hz
      cases he : eq x z with
      | false => rfl
      | true => exact absurd (fdInner_adds eq x rest disc z hz1 he) hz2

theorem fdOuter_represents : ∀ (l disc : List α) (y : α), y ∈ l → y ∉ disc →
    ∃ x, x ∈ fdOuter eq l disc ∧ (x = y ∨ eq x y = true) := by
  intro l
  induction l with
  | nil => intro disc y hy; simp at hy
  | cons x rest ih =>
    intro disc y hy hnd
    simp only [fdOuter]
    split
    · rename_i hc
      have hxd : x ∈ disc := by simpa using hc
      rcases List.mem_cons.1 hy with rfl | hmem
      · exact absurd hxd hnd
      · exact ih disc y hmem hnd
    · rcases List.mem_cons.1 hy with rfl | hmem
      · exact ⟨y, by simp, Or.inl rfl⟩
      · by_cases hyd : y ∈ fdInner eq x rest disc
        · rcases fdInner_only eq x rest disc y hyd with h | h
          · exact absurd h hnd
          · exact ⟨x, by simp, Or.inr h.2⟩
        · obtain ⟨x', hx', hx''⟩ := ih _ y hmem hyd
          exact ⟨x', by simp [hx'], hx''⟩

theorem findDuplicates_spec (idxs : List α) :
    (findDuplicates eq idxs).Sublist idxs ∧
    (findDuplicates eq idxs).Pairwise (fun a b => eq a b = false) ∧
    (∀ y, y ∈ idxs → ∃ x, x ∈ findDuplicates eq idxs ∧ (x = y ∨ eq x y = true)) ∧
    (idxs ≠ [] → findDuplicates eq idxs ≠ []) := by
  unfold findDuplicates
  split
  · rename_i hl
    refine ⟨List.Sublist.refl _, ?_, fun y hy => ⟨y, hy, Or.inl rfl⟩, fun h => h⟩
    match idxs, hl with
    | [], _ => simp
    | [a], _ => simp
    | _ :: _ :: _, hl => simp at hl
  · refine ⟨fdOuter_sublist eq idxs [], fdOuter_pairwise eq idxs [], ?_, ?_⟩
    · intro y hy
      exact fdOuter_represents eq idxs [] y hy (by simp)
    · intro hne
      match idxs, hne with
      | x :: rest, _ => simp [fdOuter]

end fd

/-! ### index selection of `select_best_assignment` -/

theorem idxFilter_lt (recs : List Rec) (p : Rec → Bool) : ∀ i, i ∈ idxFilter recs p → i < recs.length := by
  intro i hi
  unfold idxFilter at hi
  have := (List.mem_filter.1 hi).1
  simpa using this

theorem foldl_min_attained (ss : List (Int × Nat)) : ∀ (m : Int),
    ss.foldl (fun m x => if x.1 < m then x.1 else m) m = m ∨
      ∃ x, x ∈ ss ∧ x.1 = ss.foldl (fun m x => if x.1 < m then x.1 else m) m := by
  induction ss with
  | nil => intro m; exact Or.inl rfl
  | cons y ys ih =>
    intro m
    simp only [List.foldl_cons]
    rcases ih (if y.1 < m then y.1 else m) with h | ⟨x, hx, hx'⟩
    · rw [h]
      split
      · exact Or.inr ⟨y, by simp, rfl⟩
      · exact Or.inl rfl
    · exact Or.inr ⟨x, by simp [hx], hx'⟩

theorem selectBestInconsistent_spec (recs : List Rec) (idxs : List Nat) (hne : idxs ≠ [])
    (hlt : ∀ i, i ∈ idxs → i < recs.length) :
    selectBestInconsistent recs idxs ≠ [] ∧ ∀ i, i ∈ selectBestInconsistent recs idxs → i ∈ idxs := by
  unfold selectBestInconsistent
  split
  · exact ⟨hne, fun i hi => hi⟩
  · have hmem : ∀ x, x ∈ idxs.filterMap (fun i => (recs[i]?).map (fun r => (r.penalty, i))) → x.2 ∈ idxs := by
      intro x hx
      obtain ⟨i, hi, hix⟩ := List.mem_filterMap.1 hx
      cases hr : recs[i]? with
      | none => rw [hr] at hix; simp at hix
      | some r => rw [hr] at hix; simp at hix; rw [← hix]; exact hi
    have hsne : idxs.filterMap (fun i => (recs[i]?).map (fun r => (r.penalty, i))) ≠ [] := by
      match idxs, hne, hlt with
      | i :: rest, _, hlt =>
        have hi := hlt i (by simp)
        simp [List.getElem?_eq_getElem hi]
    generalize idxs.filterMap (fun i => (recs[i]?).map (fun r => (r.penalty, i))) = scores at hmem hsne
    match scores, hsne with
    | sc :: ss, _ =>
      simp only
      constructor
      · have hatt : ∃ x, x ∈ sc :: ss ∧ x.1 = ss.foldl (fun m x => if x.1 < m then x.1 else m) sc.1 := by
          rcases foldl_min_attained ss sc.1 with h | ⟨x, hx, hx'⟩
          · exact ⟨sc, by simp, h.symm⟩
          · exact ⟨x, by simp [hx], hx'⟩
        obtain ⟨x, hx, hx'⟩ := hatt
        intro hnil
        have : x ∈ (sc :: ss).filter (fun y => decide (y.1 = ss.foldl (fun m x => if x.1 < m then x.1 else m) sc.1)) :=
          List.mem_filter.2 ⟨hx, by simpa using hx'⟩
        have h2 := List.map_eq_nil_iff.1 hnil
        rw [h2] at this
        simp at this
      · intro i hi
        obtain ⟨x, hx, rfl⟩ := List.mem_map.1 hi
        exact hmem x (List.mem_filter.1 hx).1

theorem foldl_max_ge (infos : List (Int × Nat)) : ∀ (m : Int),
    m ≤ infos.foldl (fun m x => max m x.1) m ∧ ∀ x, x ∈ infos → x.1 ≤ infos.foldl (fun m x => max m x.1) m := by
  induction infos with
  | nil => intro m; simp
  | cons y ys ih =>
    intro m
    simp only [List.foldl_cons]
    obtain ⟨h1, h2⟩ := ih (max m y.1)
    refine ⟨by omega, ?_⟩
    intro x hx
    rcases List.mem_cons.1 hx with rfl | hmem
    · omega
    · exact h2 x hmem

theorem foldl_max_attained (infos : List (Int × Nat)) : ∀ (m : Int),
    infos.foldl (fun m x => max m x.1) m = m ∨ ∃ x, x ∈ infos ∧ x.1 = infos.foldl (fun m x => max m x.1) m := by
  induction infos with
  | nil => intro m; exact Or.inl rfl
  | cons y ys ih =>
    intro m
    simp only [List.foldl_cons]
    rcases ih (max m y.1) with h | ⟨x, hx, hx'⟩
    · rw [h]
      by_cases hc : y.1 ≤ m
      · exact Or.inl (by omega)
      · exact Or.inr ⟨y, by simp, by omega⟩
    · exact Or.inr ⟨x, by simp [hx], hx'⟩

theorem intersection_len_nonneg (a b : Iv) : 0 ≤ intersection_len a b := by
  simp only [intersection_len]; omega

/-- `select_noninformative` has a candidate to keep (its `assert best_assignment != -1` cannot fail) and every
    candidate is one of the given indices -/
theorem noninformativeCands_spec (recs : List Rec) (idxs : List Nat) (hne : idxs ≠ [])
    (hlt : ∀ i, i ∈ idxs → i < recs.length) :
    noninformativeCands recs idxs ≠ [] ∧ ∀ i, i ∈ noninformativeCands recs idxs → i ∈ idxs := by
  unfold noninformativeCands
  have hmem : ∀ x, x ∈ idxs.filterMap (fun i => (recs[i]?).map (fun r => (intersection_len r.region (r.start, r.stop), i))) →
      x.2 ∈ idxs ∧ 0 ≤ x.1 := by
    intro x hx
    obtain ⟨i, hi, hix⟩ := List.mem_filterMap.1 hx
    cases hr : recs[i]? with
    | none => rw [hr] at hix; simp at hix
    | some r =>
      rw [hr] at hix; simp at hix; rw [← hix]
      exact ⟨hi, intersection_len_nonneg _ _⟩
  have hsne : idxs.filterMap (fun i => (recs[i]?).map (fun r => (intersection_len r.region (r.start, r.stop), i))) ≠ [] := by
    match idxs, hne, hlt with
    | i :: rest, _, hlt =>
      have hi := hlt i (by simp)
      simp [List.getElem?_eq_getElem hi]
  generalize idxs.filterMap (fun i => (recs[i]?).map (fun r => (intersection_len r.region (r.start, r.stop), i))) = infos
    at hmem hsne
  simp only
  constructor
  · have hatt : ∃ x, x ∈ infos ∧ x.1 = infos.foldl (fun m x => max m x.1) 0 := by
      rcases foldl_max_attained infos 0 with h | h
      · match infos, hsne with
        | y :: ys, _ =>
          refine ⟨y, by simp, ?_⟩
          have h1 := (foldl_max_ge (y :: ys) 0).2 y (by simp)
          have h2 := (hmem y (by simp)).2
          omega
      · exact h
    obtain ⟨x, hx, hx'⟩ := hatt
    intro hnil
    have : x ∈ infos.filter (fun y => decide (y.1 = infos.foldl (fun m x => max m x.1) 0)) :=
      List.mem_filter.2 ⟨hx, by simpa using hx'⟩
    have h2 := List.map_eq_nil_iff.1 hnil
    rw [h2] at this
    simp at this
  · intro i hi
    obtain ⟨x, hx, rfl⟩ := List.mem_map.1 hi
    exact (hmem x (List.mem_filter.1 hx).1).1

/-! ### clusters are connected -/

/-- every position of the storage's region is covered by a stored alignment (no gap inside a cluster) -/
def Conn (s : Store) : Prop :=
  ∀ R, s.region = some R → ∀ p, R.1 ≤ p → p ≤ R.2 → ∃ x, x ∈ s.alns ∧ x.start ≤ p ∧ p ≤ x.stop - 1

theorem conn_add {s : Store} (h : Conn s) (a : Aln) (_hw : WFA a)
    (hadj : notAdjacent s.region a = false) : Conn (s.add a) := by
  intro R' hR' p h1 h2
  simp only [Store.add] at hR'
  injection hR' with hR'
  cases hr : s.region with
  | none =>
    rw [hr] at hR'
    simp only [hullAdd] at hR'
    subst hR'
    exact ⟨a, by simp [add_alns], by simpa using h1, by simpa using h2⟩
  | some R =>
    rw [hr] at hR' hadj
    simp only [hullAdd] at hR'
    subst hR'
    have hov : overlaps R a.iv = true := by
      simp only [notAdjacent] at hadj
      cases ho : overlaps R a.iv with
      | true => rfl
      | false => rw [ho] at hadj; simp at hadj
    rw [overlaps_true_iff] at hov
    simp only [Aln.iv] at hov
    simp only at h1 h2
    by_cases hp : R.1 ≤ p ∧ p ≤ R.2
    · obtain ⟨x, hx, hx1, hx2⟩ := h R hr p hp.1 hp.2
      exact ⟨x, by simp [add_alns, hx], hx1, hx2⟩
    · exact ⟨a, by simp [add_alns], by omega, by omega⟩

theorem conn_empty : Conn Store.empty := by
  intro R hR; simp [Store.empty] at hR

/-- loop invariant: the current storage and every forwarded one are connected -/
structure InvConn (st : PState) : Prop where
  cur : Conn st.store
  out : ∀ s, s ∈ st.out → Conn s

theorem invConn_step {st : PState} {a : Aln} (h : InvConn st) (hw : WFA a) : InvConn (processStep st a) := by
  unfold processStep
  split
  · refine ⟨conn_add conn_empty a hw rfl, ?_⟩
    intro s hs
    rcases List.mem_append.1 hs with hs | hs
    · exact h.out s hs
    · simp at hs; subst hs; exact h.cur
  · rename_i hna
    exact ⟨conn_add h.cur a hw (by simpa using hna), h.out⟩

theorem invConn_foldl : ∀ (l : List Aln) (st : PState), InvConn st → (∀ x, x ∈ l → WFA x) →
    InvConn (l.foldl processStep st) := by
  intro l
  induction l with
  | nil => intro st h _; exact h
  | cons a l ih =>
    intro st h hw
    exact ih _ (invConn_step h (hw a (by simp))) (fun x hx => hw x (by simp [hx]))

theorem processStores_conn (l : List Aln) (hw : ∀ x, x ∈ l → WFA x) : ∀ s, s ∈ processStores l → Conn s := by
  have h := invConn_foldl l PState.init ⟨conn_empty, by simp [PState.init]⟩ hw
  unfold processStores processFinish
  intro s hs
  split at hs
  · rcases List.mem_append.1 hs with hs | hs
    · exact h.out s hs
    · simp at hs; subst hs; exact h.cur
  · exact h.out s hs

/-! ### values of the coverage dictionary -/

theorem covGet_covBump (d : CovDict) (k b : Int) : covGet (covBump d k) b = covGet d b + (if b = k then 1 else 0) := by
  induction d with
  | nil =>
    simp only [covBump, covGet]
    by_cases h : b = k
    · rw [if_pos h.symm, if_pos h]; omega
    · rw [if_neg (fun e => h e.symm), if_neg h]; omega
  | cons p ps ih =>
    simp only [covBump]
    split
    · rename_i hk
      simp only [covGet]
      by_cases h : b = k
      · rw [if_pos (by omega), if_pos (by omega), if_pos h]
      · rw [if_neg (by omega), if_neg (by omega), if_neg h]; omega
    · rename_i hk
      simp only [covGet]
      by_cases h : p.1 = b
      · rw [if_pos h, if_pos h, if_neg (by omega)]; omega
      · rw [if_neg h, if_neg h, ih]

theorem covGet_covBumpRange (n : Nat) : ∀ (d : CovDict) (lo b : Int),
    covGet (covBumpRange d lo n) b = covGet d b + (if lo ≤ b ∧ b < lo + n then 1 else 0) := by
  induction n with
  | zero => intro d lo b; rw [if_neg (by omega)]; simp [covBumpRange]
  | succ n ih =>
    intro d lo b
    rw [covBumpRange, ih, covGet_covBump]
    by_cases h1 : b = lo
    · rw [if_pos h1, if_neg (by omega), if_pos (by omega)]; omega
    · rw [if_neg h1]
      by_cases h2 : lo + 1 ≤ b ∧ b < lo + 1 + ↑n
      · rw [if_pos h2, if_pos (by omega)]; omega
      · rw [if_neg h2, if_neg (by omega)]; omega

/-- alignment `a` spans bin `b` -/
def spansBin (b : Int) (a : Aln) : Bool := decide (a.binS ≤ b) && decide (b ≤ a.binE)

theorem covGet_add (s : Store) (a : Aln) (b : Int) :
    covGet (s.add a).cov b = covGet s.cov b + (if spansBin b a = true then 1 else 0) := by
  simp only [Store.add, covGet_covBumpRange]
  by_cases h : a.binS ≤ b ∧ b ≤ a.binE
  · have hs : spansBin b a = true := by simp [spansBin, h]
    rw [if_pos (by omega), if_pos hs]
  · have hs : ¬ (spansBin b a = true) := by
      simp only [spansBin, Bool.and_eq_true, decide_eq_true_eq]; exact h
    rw [if_neg (by omega), if_neg hs]

theorem covGet_foldl (l : List Aln) (s : Store) (b : Int) :
    covGet (l.foldl Store.add s).cov b = covGet s.cov b + ((l.filter (spansBin b)).length : Int) := by
  induction l generalizing s with
  | nil => simp
  | cons a l ih =>
    simp only [List.foldl_cons, ih, covGet_add, List.filter_cons]
    by_cases hs : spansBin b a = true
    · rw [if_pos hs, if_pos hs, List.length_cons]; omega
    · rw [if_neg hs, if_neg hs]; omega

/-- the coverage dictionary of a storage counts, per 256-bp bin, the stored alignments spanning that bin -/
theorem covGet_buildStore (l : List Aln) (b : Int) :
    covGet (buildStore l).cov b = ((l.filter (spansBin b)).length : Int) := by
  unfold buildStore
  rw [covGet_foldl]
  simp [Store.empty, covGet]

end IsoVerif.Lemmas.Regions
