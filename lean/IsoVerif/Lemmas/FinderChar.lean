/-
Helper lemmas for C16 (polyA finder characterisation): `find?` over `range`, the window scan for every window length
(including 0), the brute-force specification `findPolyaSpec`, "AA inside a dense window" (pigeonhole), the checked
regions of the two tail finders.
-/
import IsoVerif.Model.FinderChar
import IsoVerif.Lemmas.FinderSpec

namespace IsoVerif.Lemmas.C16
open IsoVerif.Gen IsoVerif.Model IsoVerif.Model.C16

/-! ### least witness of a decidable predicate below a bound -/

theorem find?_range_spec (p : Nat → Bool) (n : Nat) :
    match (List.range n).find? p with
    | some i => i < n ∧ p i = true ∧ ∀ j < i, p j = false
    | none => ∀ j < n, p j = false := by
  induction n with
  | zero => simp
  | succ n ih =>
    rw [List.range_succ, List.find?_append]
    cases h : (List.range n).find? p with
    | some k =>
      rw [h] at ih
      simp only [Option.some_or]
      exact ⟨by omega, ih.2.1, ih.2.2⟩
    | none =>
      rw [h] at ih
      simp only [Option.none_or]
      by_cases hp : p n = true
      · rw [show List.find? p [n] = some n from by simp [hp]]
        exact ⟨by omega, hp, ih⟩
      · have hp' : p n = false := by simpa using hp
        rw [show List.find? p [n] = none from by simp [hp']]
        intro j hj
        by_cases hjn : j = n
        · subst hjn; exact hp'
        · exact ih j (by omega)

/-! ### "AA" at a position -/

/-- both `seq[k]` and `seq[k+1]` are set -/
def AAat (seq : List Bool) (k : Nat) : Prop := seq[k]? = some true ∧ seq[k + 1]? = some true

theorem aaAt_iff (seq : List Bool) (k : Nat) : aaAt seq k = true ↔ AAat seq k := by
  simp [aaAt, AAat]

theorem aaAt_false_iff (seq : List Bool) (k : Nat) : aaAt seq k = false ↔ ¬ AAat seq k := by
  rw [← aaAt_iff]; simp

theorem AAat_lt {seq : List Bool} {k : Nat} (h : AAat seq k) : k + 1 < seq.length := by
  by_cases hlt : k + 1 < seq.length
  · exact hlt
  · have := h.2; rw [List.getElem?_eq_none (by omega)] at this; cases this

theorem AAat_drop (seq : List Bool) (i k : Nat) : AAat (seq.drop i) k ↔ AAat seq (i + k) := by
  simp [AAat, List.getElem?_drop, Nat.add_assoc]

/-! ### the window scan for every window length -/

theorem aCount_eq_winCount (seq : List Bool) (j w : Nat) : aCount seq j w = winCount seq j w := rfl

/-- window 0: the two list cursors of the loop coincide and the count never changes -/
theorem findPolyaLoop_w0 (c : Nat) : ∀ (front : List Bool) (i : Nat) (a : Int),
    findPolyaLoop c a i front front = if front = [] then none else if a ≥ (c : Int) then some i else none := by
  intro front
  induction front with
  | nil => intro i a; simp [findPolyaLoop]
  | cons f front ih =>
    intro i a
    by_cases hc : a ≥ (c : Int)
    · have hc' : (c : Int) ≤ a := hc
      simp [findPolyaLoop, hc']
    · have hsame : (if (f && !f) = true then a - 1 else if (!f && f) = true then a + 1 else a) = a := by
        cases f <;> simp
      simp only [findPolyaLoop, hc, if_false, hsame]
      rw [ih]
      simp [hc]

/-- `find_polya_window_spec` without the hypothesis `1 ≤ w` -/
theorem findPolya_window_all (w c : Nat) (seq : List Bool) :
    match findPolya w c seq with
    | none => ∀ j, j + w < seq.length → winCount seq j w < c
    | some p => ∃ i, FirstWindow seq w c i ∧ p = i + (findAA (seq.drop i)).getD 0 := by
  by_cases hw : 1 ≤ w
  · have h := IsoVerif.Props.C16Finder.find_polya_window_spec w c hw seq
    cases hf : findPolya w c seq with
    | none => rw [hf] at h; exact h
    | some p =>
      rw [hf] at h
      obtain ⟨i, h1, h2, h3, h4⟩ := h
      exact ⟨i, ⟨h1, h2, h3⟩, h4⟩
  · have hw0 : w = 0 := by omega
    subst hw0
    have hunf : findPolya 0 c seq =
        match findPolyaLoop c 0 0 seq seq with
        | none => none
        | some i => some (i + ((findAA (seq.drop i)).getD 0)) := by
      simp [findPolya, countTrue]
      rfl
    rw [hunf, findPolyaLoop_w0]
    by_cases hnil : seq = []
    · subst hnil; simp
    · simp only [hnil, if_false]
      have hlen : 0 < seq.length := List.length_pos_iff.2 hnil
      by_cases hc : (0 : Int) ≥ (c : Int)
      · simp only [hc, if_true]
        refine ⟨0, ⟨by omega, by omega, fun j hj => by omega⟩, rfl⟩
      · simp only [hc, if_false]
        intro j _
        simp [winCount, countTrue]
        omega

theorem FirstWindow_unique {seq : List Bool} {w c i i' : Nat} (h : FirstWindow seq w c i)
    (h' : FirstWindow seq w c i') : i = i' := by
  rcases Nat.lt_trichotomy i i' with hlt | heq | hgt
  · have := h'.2.2 i hlt; have := h.2.1; omega
  · exact heq
  · have := h.2.2 i' hgt; have := h'.2.1; omega

/-! ### the brute-force specification -/

theorem denseAt_iff (w c : Nat) (seq : List Bool) (i : Nat) :
    denseAt w c seq i = true ↔ i + w < seq.length ∧ c ≤ winCount seq i w := by
  unfold denseAt
  rw [Bool.and_eq_true, decide_eq_true_eq, decide_eq_true_eq, aCount_eq_winCount]

theorem firstDense_spec (w c : Nat) (seq : List Bool) :
    match firstDense w c seq with
    | some i => FirstWindow seq w c i
    | none => ∀ j, j + w < seq.length → winCount seq j w < c := by
  have h := find?_range_spec (denseAt w c seq) seq.length
  unfold firstDense
  cases hf : (List.range seq.length).find? (denseAt w c seq) with
  | some i =>
    rw [hf] at h
    obtain ⟨_, h2, h3⟩ := h
    obtain ⟨g1, g2⟩ := (denseAt_iff w c seq i).1 h2
    refine ⟨g1, g2, fun j hj => ?_⟩
    have := h3 j hj
    by_cases hc : c ≤ winCount seq j w
    · have hd : denseAt w c seq j = true := (denseAt_iff w c seq j).2 ⟨by omega, hc⟩
      rw [hd] at this; cases this
    · omega
  | none =>
    rw [hf] at h
    intro j hj
    have := h j (by omega)
    by_cases hc : c ≤ winCount seq j w
    · have hd : denseAt w c seq j = true := (denseAt_iff w c seq j).2 ⟨hj, hc⟩
      rw [hd] at this; cases this
    · omega

theorem firstAAFrom_spec (seq : List Bool) (i : Nat) :
    match firstAAFrom seq i with
    | some k => i ≤ k ∧ AAat seq k ∧ ∀ j, i ≤ j → j < k → ¬ AAat seq j
    | none => ∀ j, i ≤ j → ¬ AAat seq j := by
  have h := find?_range_spec (fun k => decide (i ≤ k) && aaAt seq k) seq.length
  unfold firstAAFrom
  cases hf : (List.range seq.length).find? (fun k => decide (i ≤ k) && aaAt seq k) with
  | some k =>
    rw [hf] at h
    obtain ⟨_, h2, h3⟩ := h
    simp only [Bool.and_eq_true, decide_eq_true_eq] at h2
    refine ⟨h2.1, (aaAt_iff seq k).1 h2.2, fun j hij hjk => ?_⟩
    have := h3 j hjk
    simp only [Bool.and_eq_false_iff, decide_eq_false_iff_not] at this
    rcases this with h' | h'
    · omega
    · exact (aaAt_false_iff seq j).1 h'
  | none =>
    rw [hf] at h
    intro j hij haa
    have hlt := AAat_lt haa
    have := h j (by omega)
    simp only [Bool.and_eq_false_iff, decide_eq_false_iff_not] at this
    rcases this with h' | h'
    · omega
    · exact (aaAt_false_iff seq j).1 h' haa

/-- `max(0, seq[i:].find('AA'))` added to `i` = the first "AA" at or after `i`, `i` itself when there is none -/
theorem aa_offset_eq (seq : List Bool) (i : Nat) :
    i + (findAA (seq.drop i)).getD 0 = (firstAAFrom seq i).getD i := by
  have h1 := findAA_spec (seq.drop i)
  have h2 := firstAAFrom_spec seq i
  cases ha : findAA (seq.drop i) with
  | some a =>
    rw [ha] at h1
    obtain ⟨g1, g2, g3⟩ := h1
    have haa : AAat seq (i + a) := (AAat_drop seq i a).1 ⟨g1, g2⟩
    cases hk : firstAAFrom seq i with
    | some k =>
      rw [hk] at h2
      obtain ⟨k1, k2, k3⟩ := h2
      simp only [Option.getD_some]
      rcases Nat.lt_trichotomy (i + a) k with hlt | heq | hgt
      · exact absurd haa (k3 (i + a) (by omega) hlt)
      · exact heq
      · exfalso
        have := g3 (k - i) (by omega)
        apply this
        have hk2 : AAat seq (i + (k - i)) := by
          have : i + (k - i) = k := by omega
          rw [this]; exact k2
        exact (AAat_drop seq i (k - i)).2 hk2
    | none =>
      rw [hk] at h2
      exact absurd haa (h2 (i + a) (by omega))
  | none =>
    rw [ha] at h1
    cases hk : firstAAFrom seq i with
    | some k =>
      rw [hk] at h2
      obtain ⟨k1, k2, _⟩ := h2
      exfalso
      apply h1 (k - i)
      have hk2 : AAat seq (i + (k - i)) := by
        have : i + (k - i) = k := by omega
        rw [this]; exact k2
      exact (AAat_drop seq i (k - i)).2 hk2
    | none => simp

/-- the modelled loop equals the brute-force specification, for every window length, count and sequence -/
theorem findPolya_eq_spec (w c : Nat) (seq : List Bool) : findPolya w c seq = findPolyaSpec w c seq := by
  have h1 := findPolya_window_all w c seq
  have h2 := firstDense_spec w c seq
  unfold findPolyaSpec
  cases hf : findPolya w c seq with
  | none =>
    rw [hf] at h1
    cases hd : firstDense w c seq with
    | none => rfl
    | some i =>
      rw [hd] at h2
      have := h1 i h2.1
      have := h2.2.1
      omega
  | some p =>
    rw [hf] at h1
    obtain ⟨i, hi, hp⟩ := h1
    cases hd : firstDense w c seq with
    | none =>
      rw [hd] at h2
      have := h2 i hi.1
      have := hi.2.1
      omega
    | some i' =>
      rw [hd] at h2
      have := FirstWindow_unique hi h2
      subst this
      simp only [hp, aa_offset_eq]

/-! ### pigeonhole: a dense window contains an "AA" -/

theorem countTrue_le_length (l : List Bool) : countTrue l ≤ l.length := by
  unfold countTrue; exact List.countP_le_length

theorem no_aa_count : ∀ (n : Nat) (l : List Bool), l.length ≤ n → (∀ k, ¬ AAat l k) →
    2 * countTrue l ≤ l.length + 1 := by
  intro n
  induction n with
  | zero =>
    intro l hl _
    have : l = [] := List.length_eq_zero_iff.1 (by omega)
    subst this; simp [countTrue]
  | succ n ih =>
    intro l hl hno
    match l, hl, hno with
    | [], _, _ => simp [countTrue]
    | [a], _, _ => have := countTrue_le_length [a]; simp at this ⊢; omega
    | a :: b :: rest, hl, hno =>
      cases a with
      | false =>
        have := ih (b :: rest) (by simp at hl ⊢; omega) (fun k hk => hno (k + 1) (by simpa [AAat] using hk))
        rw [countTrue_cons]
        simp only [List.length_cons] at this ⊢
        simp
        omega
      | true =>
        cases b with
        | true => exact absurd (by simp [AAat]) (hno 0)
        | false =>
          have := ih rest (by simp at hl ⊢; omega) (fun k hk => hno (k + 2) (by simpa [AAat] using hk))
          rw [countTrue_cons, countTrue_cons]
          simp only [List.length_cons] at this ⊢
          simp
          omega

/-- a window of `w` flags ending before the end of the sequence with more than `(w+1)/2` set flags holds an "AA" -/
theorem aa_in_window (seq : List Bool) (w c i : Nat) (h : FirstWindow seq w c i) (hc : w + 2 ≤ 2 * c) :
    ∃ k, i ≤ k ∧ k + 2 ≤ i + w ∧ AAat seq k := by
  apply Classical.byContradiction
  intro hcon
  have hlen : ((seq.drop i).take w).length = w := by
    rw [List.length_take, List.length_drop]; have := h.1; omega
  have hno : ∀ k, ¬ AAat ((seq.drop i).take w) k := by
    intro k hk
    have hlt := AAat_lt hk
    rw [hlen] at hlt
    apply hcon
    refine ⟨i + k, by omega, by omega, ?_⟩
    obtain ⟨a1, a2⟩ := hk
    rw [List.getElem?_take_of_lt (by omega), List.getElem?_drop] at a1 a2
    exact ⟨a1, by rw [Nat.add_assoc]; exact a2⟩
  have := no_aa_count w _ (by omega) hno
  rw [hlen] at this
  have h2 := h.2.1
  unfold winCount at h2
  omega

/-! ### the query-level scan -/

theorem countTrue_take_all (l : List Bool) (p : Nat) : aCount l p l.length = countTrue (l.drop p) := by
  unfold aCount
  rw [List.take_of_length_le (by simp)]

theorem tailScan_eq_spec (w num den : Nat) (chk : Bool) (region : List Bool) :
    tailScan w num den chk region = tailScanSpec w num den chk region := by
  unfold tailScan tailScanSpec
  rw [findPolya_eq_spec]
  cases findPolyaSpec w (w * num / den) region with
  | none => rfl
  | some p =>
    simp only [countTrue_take_all, List.length_drop]
    cases chk <;> simp

/-! ### the checked regions -/

/-- Python slice with non-negative bounds: element `j` of `seq[a:b]` is `seq[a+j]` as long as `a + j < b` -/
theorem slice_getElem? {α} (l : List α) (a b : Int) (j : Nat) :
    (slice l a b)[j]? = if a.toNat + j < b.toNat then l[a.toNat + j]? else none := by
  unfold slice
  by_cases h : j < b.toNat - a.toNat
  · rw [List.getElem?_take_of_lt h, List.getElem?_drop]
    have : a.toNat + j < b.toNat := by omega
    simp [this]
  · have h1 : ¬ (a.toNat + j < b.toNat) := by omega
    rw [if_neg h1, List.getElem?_eq_none]
    rw [List.length_take]; omega

theorem slice_length {α} (l : List α) (a b : Int) (hb : b ≤ l.length) :
    (slice l a b).length = b.toNat - a.toNat := by
  unfold slice
  rw [List.length_take, List.length_drop]; omega

/-! ### the relational specification of `find_polya` -/

/-- **what `find_polya` reports, as a relation**: `p` is the start `i` of the first window of `w` bases that ends
    strictly before the end of the sequence and holds at least `c` 'A', advanced to the least position `≥ i` at which an
    "AA" starts; `p = i` when no "AA" starts at or after `i` -/
def PolyAStart (w c : Nat) (seq : List Bool) (p : Nat) : Prop :=
  ∃ i, FirstWindow seq w c i ∧
    ((i ≤ p ∧ AAat seq p ∧ ∀ k, i ≤ k → k < p → ¬ AAat seq k) ∨ (p = i ∧ ∀ k, i ≤ k → ¬ AAat seq k))

theorem findPolyaSpec_sound (w c : Nat) (seq : List Bool) :
    match findPolyaSpec w c seq with
    | some p => PolyAStart w c seq p
    | none => ∀ j, j + w < seq.length → winCount seq j w < c := by
  have h1 := firstDense_spec w c seq
  unfold findPolyaSpec
  cases hd : firstDense w c seq with
  | none => rw [hd] at h1; exact h1
  | some i =>
    rw [hd] at h1
    have h2 := firstAAFrom_spec seq i
    show PolyAStart w c seq ((firstAAFrom seq i).getD i)
    cases hk : firstAAFrom seq i with
    | some k =>
      rw [hk] at h2
      exact ⟨i, h1, Or.inl ⟨h2.1, h2.2.1, h2.2.2⟩⟩
    | none =>
      rw [hk] at h2
      exact ⟨i, h1, Or.inr ⟨rfl, h2⟩⟩

theorem PolyAStart_unique {w c : Nat} {seq : List Bool} {p p' : Nat} (h : PolyAStart w c seq p)
    (h' : PolyAStart w c seq p') : p = p' := by
  obtain ⟨i, hi, hp⟩ := h
  obtain ⟨i', hi', hp'⟩ := h'
  have := FirstWindow_unique hi hi'
  subst this
  rcases hp with ⟨a1, a2, a3⟩ | ⟨a1, a2⟩ <;> rcases hp' with ⟨b1, b2, b3⟩ | ⟨b1, b2⟩
  · rcases Nat.lt_trichotomy p p' with hlt | heq | hgt
    · exact absurd a2 (b3 p a1 hlt)
    · exact heq
    · exact absurd b2 (a3 p' b1 hgt)
  · exact absurd a2 (b2 p a1)
  · exact absurd b2 (a2 p' b1)
  · omega

theorem PolyAStart_lt {w c : Nat} {seq : List Bool} {p : Nat} (h : PolyAStart w c seq p) :
    p < seq.length ∧ (1 ≤ w → p + 1 < seq.length) := by
  obtain ⟨i, hi, hp⟩ := h
  rcases hp with ⟨_, a2, _⟩ | ⟨a1, _⟩
  · have := AAat_lt a2; omega
  · have := hi.1; omega

/-- the relational specification of the query-level scan: `find_polya`'s answer, and for the internal finder the
    rest of the checked sequence from the reported base on holds at least the fraction `num/den` of 'A' -/
def TailStart (w num den : Nat) (chk : Bool) (region : List Bool) (p : Nat) : Prop :=
  PolyAStart w (w * num / den) region p ∧
    (chk = true → (region.length - p) * num ≤ countTrue (region.drop p) * den)

theorem tailScanSpec_sound (w num den : Nat) (chk : Bool) (region : List Bool) :
    match tailScanSpec w num den chk region with
    | some p => TailStart w num den chk region p
    | none => ∀ p, ¬ TailStart w num den chk region p := by
  have h := findPolyaSpec_sound w (w * num / den) region
  unfold tailScanSpec
  cases hf : findPolyaSpec w (w * num / den) region with
  | none =>
    rw [hf] at h
    intro p ⟨⟨i, hi, _⟩, _⟩
    have := h i hi.1
    have := hi.2.1
    omega
  | some p =>
    rw [hf] at h
    simp only [countTrue_take_all]
    by_cases hc : (chk && decide (countTrue (region.drop p) * den < (region.length - p) * num)) = true
    · simp only [hc, if_true]
      intro p' hp'
      have := PolyAStart_unique h hp'.1
      subst this
      simp only [Bool.and_eq_true, decide_eq_true_eq] at hc
      have := hp'.2 hc.1
      omega
    · simp only [hc]
      refine ⟨h, fun hchk => ?_⟩
      simp only [hchk, Bool.true_and, decide_eq_true_eq] at hc
      omega

/-! ### the two finders in terms of the scan and the projection -/

theorem findPolyaTail_unfold (w num den : Nat) (s : Int) (cigar : List CigarOp) (seq : List Char)
    (fromPos toPos : Int) (chk : Bool) (hne : cigar ≠ []) (hseq : seq ≠ [])
    (hclip : softClipTail cigar < seq.length) :
    findPolyaTail w num den s cigar seq fromPos toPos chk =
      match tailScan w num den chk (regionA cigar seq fromPos toPos) with
      | none => some (-1)
      | some p =>
        if (seq.length : Int) - softClipTail cigar ≤ startA cigar seq fromPos + p then
          some (referenceEnd s cigar + (startA cigar seq fromPos + p - ((seq.length : Int) - softClipTail cigar)))
        else
          (moveRefCoord cigar (startA cigar seq fromPos + p - ((seq.length : Int) - softClipTail cigar))).map
            (referenceEnd s cigar - ·) := by
  unfold findPolyaTail regionA startA
  simp only [hne, hseq, if_false, hclip, not_true_eq_false]
  cases tailScan w num den chk _ with
  | none => rfl
  | some p =>
    simp only [ge_iff_le]
    split
    · rfl
    · cases moveRefCoord cigar _ <;> rfl

theorem findPolytHead_unfold (w num den : Nat) (s : Int) (cigar : List CigarOp) (seq : List Char)
    (fromPos toPos : Int) (chk : Bool) (hne : cigar ≠ []) (hseq : seq ≠ [])
    (hclip : softClipHead cigar < seq.length) :
    findPolytHead w num den s cigar seq fromPos toPos chk =
      match tailScan w num den chk (regionT cigar seq fromPos toPos) with
      | none => some (-1)
      | some p =>
        if stopT cigar seq fromPos - p - 1 ≤ softClipHead cigar then
          some (max 1 (s - (softClipHead cigar - (stopT cigar seq fromPos - p - 1))))
        else
          (moveRefCoord cigar (stopT cigar seq fromPos - p - 1 - softClipHead cigar)).map (fun k => max 1 (s + k)) := by
  unfold findPolytHead regionT stopT
  simp only [hne, hseq, if_false, hclip, not_true_eq_false]
  cases tailScan w num den chk _ with
  | none => rfl
  | some p =>
    simp only
    split
    · rfl
    · cases moveRefCoord cigar _ <;> rfl

theorem TailStart_unique {w num den : Nat} {chk : Bool} {region : List Bool} {p p' : Nat}
    (h : TailStart w num den chk region p) (h' : TailStart w num den chk region p') : p = p' :=
  PolyAStart_unique h.1 h'.1

/-- a non-zero shift on a non-empty CIGAR with non-negative lengths: the walk returns `k` iff no `P` is met and `k`
    is the base-by-base projection -/
theorem moveRefCoord_some_iff (cigar : List CigarOp) (shift k : Int) (hnn : NonNeg cigar) (h0 : shift ≠ 0)
    (hne : cigar ≠ []) :
    moveRefCoord cigar shift = some k ↔
      padReached (walkCore cigar (decide (shift > 0))) shift.natAbs = false ∧
      ProjectsTo (expand (walkCore cigar (decide (shift > 0)))) shift.natAbs k := by
  rw [IsoVerif.Props.C16MoveRef.move_ref_coord_eq_spec cigar shift hnn]
  unfold moveRefCoordSpec
  simp only [h0, hne, if_false]
  cases hp : padReached (walkCore cigar (decide (shift > 0))) shift.natAbs with
  | true => simp
  | false =>
    simp only [Bool.false_eq_true, if_false, Option.some.injEq, true_and]
    constructor
    · intro h; rw [← h]; exact projectsTo_refColsUpTo _ _
    · intro h; exact (projectsTo_unique _ _ _ _ h (projectsTo_refColsUpTo _ _)).symm

theorem moveRefCoord_none_iff (cigar : List CigarOp) (shift : Int) (hnn : NonNeg cigar) (h0 : shift ≠ 0)
    (hne : cigar ≠ []) :
    moveRefCoord cigar shift = none ↔ padReached (walkCore cigar (decide (shift > 0))) shift.natAbs = true := by
  rw [IsoVerif.Props.C16MoveRef.move_ref_coord_eq_spec cigar shift hnn]
  unfold moveRefCoordSpec
  simp only [h0, hne, if_false]
  cases hp : padReached (walkCore cigar (decide (shift > 0))) shift.natAbs <;> simp

end IsoVerif.Lemmas.C16
