/-
Refinement lemmas for `junctions_from_blocks`, `get_exons`, `get_exon`, `get_preceding/following_exon_from_junctions`
of Gen/Loops.lean.  Statements: Props/C19Gen.lean.
-/
import IsoVerif.Gen.Loops
import IsoVerif.Lemmas.GenBase

namespace IsoVerif.Lemmas.GenLoops
open IsoVerif.Gen IsoVerif.Model IsoVerif.Lemmas

/-! ### `junctions_from_blocks` -/

theorem junctions_loop (l : List Iv) (n k : Nat) (acc : List Iv) (h : k + n + 1 = l.length) :
    junctions_from_blocks.loop1 l (pyRangeN (k : Int) n) acc = some (acc ++ junctionsFromBlocks (l.drop k)) := by
  induction n generalizing k acc with
  | zero =>
    have hx : l[k]? = some l[k] := List.getElem?_eq_getElem (by omega)
    have hd := drop_eq_cons_of_getElem l k _ hx
    have : l.drop (k + 1) = [] := List.drop_eq_nil_of_le (by omega)
    simp [pyRangeN, junctions_from_blocks.loop1, junctions_from_blocks.after1, hd, this, junctionsFromBlocks]
  | succ n ih =>
    have hx : l[k]? = some l[k] := List.getElem?_eq_getElem (by omega)
    have hy : l[k + 1]? = some l[k + 1] := List.getElem?_eq_getElem (by omega)
    have hd := drop_eq_cons_of_getElem l k _ hx
    have hd2 := drop_eq_cons_of_getElem l (k + 1) _ hy
    have hcast : ((k : Int) + 1) = ((k + 1 : Nat) : Int) := by omega
    rw [pyRangeN_succ]
    unfold junctions_from_blocks.loop1
    simp only [pyIdx_natCast, hcast, hx, hy, hd, hd2, junctionsFromBlocks]
    by_cases hc : l[k].2 + 1 < l[k + 1].1
    · simp only [hc, decide_true, if_true]
      rw [ih (k + 1) _ (by omega), hd2]
      simp
    · simp only [hc, decide_false, if_false, Bool.false_eq_true]
      rw [ih (k + 1) _ (by omega), hd2]

theorem junctions_from_blocks_eq (l : List Iv) :
    junctions_from_blocks l = some (junctionsFromBlocks l) := by
  unfold junctions_from_blocks
  simp only [pyLen, pyRange]
  by_cases h : (l.length : Int) ≥ 2
  · have hn : ((l.length : Int) - 1 - 0).toNat = l.length - 1 := by omega
    simp only [h, decide_true, if_true, hn]
    have := junctions_loop l (l.length - 1) 0 [] (by omega)
    simpa using this
  · simp only [h, decide_false, if_false, Bool.false_eq_true]
    match l, h with
    | [], _ => simp [junctionsFromBlocks]
    | [a], _ => simp [junctionsFromBlocks]
    | a :: b :: t, h => simp at h; omega

/-! ### `get_exons`: the two `math.inf` sentinels are never read -/

theorem jfb_first (x x' a : Int) (l : List Iv) :
    junctionsFromBlocks ((x, a) :: l) = junctionsFromBlocks ((x', a) :: l) := by
  cases l with
  | nil => simp [junctionsFromBlocks]
  | cons c t => simp [junctionsFromBlocks]

theorem jfb_last (a : Iv) (l : List Iv) (b y y' : Int) :
    junctionsFromBlocks (a :: (l ++ [(b, y)])) = junctionsFromBlocks (a :: (l ++ [(b, y')])) := by
  induction l generalizing a with
  | nil => simp [junctionsFromBlocks]
  | cons c t ih =>
    simp only [List.cons_append, junctionsFromBlocks, ih c]

theorem get_exons_eq (inf : Int) (region : Iv) (introns : List Iv) :
    get_exons inf region introns = some (getExons region introns) := by
  unfold get_exons getExons
  rw [junctions_from_blocks_eq]
  simp only [List.cons_append, List.nil_append]
  rw [jfb_first (-inf) 0, jfb_last _ introns (region.2 + 1) inf 0]

/-! ### single exons from the junction list (straight-line code with list indexing) -/

theorem get_following_exon_eq (region : Iv) (introns : List Iv) (pos : Int) :
    get_following_exon_from_junctions region introns pos = getFollowingExon region introns pos := by
  unfold get_following_exon_from_junctions getFollowingExon
  simp only [pyLen, pyIdx_eq_pyGet]
  by_cases h1 : pos = (introns.length : Int) - 1 <;> by_cases h2 : pos = -1 <;>
    cases hA : pyGet? introns pos <;> cases hB : pyGet? introns (pos + 1) <;> simp_all

theorem get_preceding_exon_eq (region : Iv) (introns : List Iv) (pos : Int) :
    get_preceding_exon_from_junctions region introns pos = getPrecedingExon region introns pos := by
  unfold get_preceding_exon_from_junctions getPrecedingExon
  simp only [pyLen, pyIdx_eq_pyGet]
  by_cases h : pos ≤ (introns.length : Int)
  · have h' : ¬ pos > (introns.length : Int) := by omega
    by_cases h0 : pos = 0 <;> by_cases hn : pos = (introns.length : Int) <;>
      cases hA : pyGet? introns pos <;> cases hB : pyGet? introns (pos - 1) <;> simp_all
  · have h' : pos > (introns.length : Int) := by omega
    simp [h, h']

theorem get_exon_eq (region : Iv) (junctions : List Iv) (pos : Int) :
    get_exon region junctions pos = getExon region junctions pos := by
  unfold get_exon getExon
  simp only [pyLen, pyIdx_eq_pyGet]
  by_cases h : pos ≤ (junctions.length : Int)
  · have h' : ¬ pos > (junctions.length : Int) := by omega
    simp only [h, h', decide_true, if_true, if_false]
    by_cases hneg : pos < 0
    · simp only [hneg, decide_true, if_true]
      by_cases h0 : (junctions.length : Int) + pos + 1 = 0 <;>
        by_cases hn : (junctions.length : Int) + pos + 1 = (junctions.length : Int) <;>
        cases hA : pyGet? junctions 0 <;> cases hB : pyGet? junctions (-1) <;>
        cases hC : pyGet? junctions ((junctions.length : Int) + pos + 1 - 1) <;>
        cases hD : pyGet? junctions ((junctions.length : Int) + pos + 1) <;> simp_all
    · simp only [hneg, decide_false, Bool.false_eq_true, if_false]
      by_cases h0 : pos = 0 <;> by_cases hn : pos = (junctions.length : Int) <;>
        cases hA : pyGet? junctions 0 <;> cases hB : pyGet? junctions (-1) <;>
        cases hC : pyGet? junctions (pos - 1) <;> cases hD : pyGet? junctions pos <;> simp_all
  · have h' : pos > (junctions.length : Int) := by omega
    simp [h, h']

end IsoVerif.Lemmas.GenLoops
