/-
Helper lemmas for C12: the merged stream keeps every file's own order and labels each record with the index of
the file it came from.
-/
import IsoVerif.Model.BamMerge
import IsoVerif.Lemmas.BamMerge
import IsoVerif.Lemmas.BamRecords

namespace IsoVerif.Lemmas.C12
open IsoVerif.Gen IsoVerif.Model.C12
open List

/-- what is still to come from file `i`: its queue entry (if any), then the rest of its iterator -/
def pending (i : Nat) (s : MState) : List Aln :=
  (s.queue.filter (fun e => e.1 == i)).map Prod.snd ++ (s.its[i]?.getD [])

theorem filter_idx_none {q : List Entry} {i : Nat} (h : i ∉ q.map Prod.fst) : q.filter (fun e => e.1 == i) = [] := by
  induction q with
  | nil => rfl
  | cons x t ih =>
    simp only [List.map_cons, List.mem_cons, not_or] at h
    have hx : (x.1 == i) = false := by simpa using fun e => h.1 e.symm
    simp [hx, ih h.2]

theorem filter_idx_self {q : List Entry} {m : Entry} (hn : (q.map Prod.fst).Nodup) (hm : m ∈ q) :
    q.filter (fun e => e.1 == m.1) = [m] := by
  induction q with
  | nil => cases hm
  | cons x t ih =>
    simp only [List.map_cons, List.nodup_cons] at hn
    rcases List.mem_cons.mp hm with rfl | hmt
    · simp [filter_idx_none hn.1]
    · have hne : x.1 ≠ m.1 := by
        intro e; exact hn.1 (e ▸ List.mem_map_of_mem hmt)
      have hx : (x.1 == m.1) = false := by simpa using hne
      simp [hx, ih hn.2 hmt]

theorem filter_idx_erase_self {q : List Entry} {m : Entry} (hn : (q.map Prod.fst).Nodup) (hm : m ∈ q) :
    (q.erase m).filter (fun e => e.1 == m.1) = [] := by
  have hp : q.map Prod.fst ~ m.1 :: (q.erase m).map Prod.fst := by
    simpa using (perm_cons_erase hm).map Prod.fst
  exact filter_idx_none (List.nodup_cons.mp (hp.nodup_iff.mp hn)).1

theorem filter_idx_erase_other {q : List Entry} {m : Entry} {i : Nat} (hne : m.1 ≠ i) :
    (q.erase m).filter (fun e => e.1 == i) = q.filter (fun e => e.1 == i) := by
  induction q with
  | nil => rfl
  | cons x t ih =>
    by_cases hx : x = m
    · subst hx
      have : (x.1 == i) = false := by simpa using hne
      simp [this]
    · have hb : (x == m) = false := by simpa using hx
      simp only [List.erase_cons, hb, Bool.false_eq_true, if_false, List.filter_cons, ih]

theorem pending_step_same {s : MState} {m : Entry} (hn : (s.queue.map Prod.fst).Nodup) (hm : m ∈ s.queue) :
    pending m.1 s = m.2 :: pending m.1 (stepState s m) := by
  have h1 := filter_idx_self hn hm
  have h2 := filter_idx_erase_self hn hm
  unfold pending stepState advance
  split
  · rename_i b t hb
    simp only at hb
    have hlt : m.1 < s.its.length := by
      rcases Nat.lt_or_ge m.1 s.its.length with h | h
      · exact h
      · rw [List.getElem?_eq_none h] at hb; simp at hb
    simp only [h1, h2, List.filter_cons, beq_self_eq_true, if_true, List.map_cons, List.map_nil, hb,
      Option.getD_some, List.cons_append, List.nil_append]
    rw [List.getElem?_set]
    simp [hlt]
  · rename_i hb
    simp only at hb
    have : s.its[m.1]?.getD [] = [] := by
      cases h : s.its[m.1]? with
      | none => rfl
      | some f =>
        cases f with
        | nil => rfl
        | cons b t => exact absurd h (hb b t)
    simp [h1, h2, this]

theorem pending_step_other {s : MState} {m : Entry} {i : Nat} (hne : m.1 ≠ i) :
    pending i (stepState s m) = pending i s := by
  have h3 := filter_idx_erase_other (q := s.queue) hne
  have hx : (m.1 == i) = false := by simpa using hne
  unfold pending stepState advance
  split
  · rename_i b t hb
    simp only [List.filter_cons, hx, Bool.false_eq_true, if_false, h3]
    rw [List.getElem?_set]
    simp [hne]
  · simp only [h3]

theorem pending_nil_of_queue_nil {s : MState} (hc : Covered s) (hq : s.queue = []) (i : Nat) : pending i s = [] := by
  unfold pending
  have : s.its[i]?.getD [] = [] := by
    cases h : s.its[i]? with
    | none => rfl
    | some f =>
      cases f with
      | nil => rfl
      | cons b t =>
        obtain ⟨c, hcq⟩ := hc i b t h
        rw [hq] at hcq; cases hcq
  simp [hq, this]

theorem run_file_order (n : Nat) (s : MState) (i : Nat) (hc : Covered s) (hn : (s.queue.map Prod.fst).Nodup)
    (hf : (content s).length ≤ n) :
    ((run n s).filter (fun e => e.1 == i)).map Prod.snd = pending i s := by
  induction n generalizing s with
  | zero =>
    have hcn : content s = [] := List.eq_nil_of_length_eq_zero (by omega)
    have hq : s.queue = [] := by
      simp only [content, List.append_eq_nil_iff, List.map_eq_nil_iff] at hcn
      exact hcn.1
    simp [run, pending_nil_of_queue_nil hc hq]
  | succ n ih =>
    simp only [run]
    cases hm : minEntry s.queue with
    | none =>
      simp [pending_nil_of_queue_nil hc (minEntry_none.mp hm)]
    | some m =>
      have hmem := minEntry_mem hm
      have hp := content_step (s := s) hmem
      have hlen : (content (stepState s m)).length ≤ n := by
        have := hp.length_eq
        simp at this
        omega
      have ih' := ih (stepState s m) (covered_step hc) (nodup_step hmem hn) hlen
      show (List.filter (fun e => e.1 == i) (m :: run n (stepState s m))).map Prod.snd = pending i s
      by_cases hi : m.1 = i
      · subst hi
        simp only [List.filter_cons, beq_self_eq_true, if_true, List.map_cons, ih']
        exact (pending_step_same hn hmem).symm
      · have hx : (m.1 == i) = false := by simpa using hi
        simp only [List.filter_cons, hx, Bool.false_eq_true, if_false, ih']
        exact pending_step_other hi

theorem initGo_pending (k : Nat) (files : List (List Aln)) (j : Nat) :
    ((initGo k files).1.filter (fun e => e.1 == k + j)).map Prod.snd ++ ((initGo k files).2[j]?.getD []) =
      files[j]?.getD [] := by
  induction files generalizing k j with
  | nil => simp [initGo]
  | cons f fs ih =>
    have hnone : ∀ q : List Entry, (∀ e ∈ q, k + 1 ≤ e.1) → q.filter (fun e => e.1 == k) = [] := by
      intro q hq
      apply filter_idx_none
      intro hmem
      obtain ⟨e, he, hek⟩ := List.mem_map.mp hmem
      have := hq e he
      omega
    cases j with
    | zero =>
      cases f with
      | nil =>
        simp only [initGo, Nat.add_zero, List.getElem?_cons_zero, Option.getD_some, List.append_nil]
        rw [hnone _ (initGo_index_ge (k + 1) fs)]; rfl
      | cons a t =>
        simp only [initGo, Nat.add_zero, List.getElem?_cons_zero, Option.getD_some, List.filter_cons,
          beq_self_eq_true, if_true, List.map_cons]
        rw [hnone _ (initGo_index_ge (k + 1) fs)]; rfl
    | succ j =>
      have e1 : k + (j + 1) = k + 1 + j := by omega
      cases f with
      | nil =>
        simp only [initGo, List.getElem?_cons_succ]
        rw [e1]; exact ih (k + 1) j
      | cons a t =>
        have hx : (k == k + 1 + j) = false := by simp; omega
        simp only [initGo, List.getElem?_cons_succ, List.filter_cons]
        rw [e1]
        simp only [hx, Bool.false_eq_true, if_false]
        exact ih (k + 1) j

theorem merge_file_order_aux (files : List (List Aln)) (i : Nat) :
    ((Model.C12.merge files).filter (fun e => e.1 == i)).map Prod.snd = files[i]?.getD [] := by
  unfold Model.C12.merge
  have hc := init_content files
  rw [run_file_order _ _ i (init_covered files)
    (by simpa [initState] using initGo_nodup 0 files) (by rw [hc.length_eq]; exact Nat.le_refl _)]
  have := initGo_pending 0 files i
  simpa [pending, initState] using this

end IsoVerif.Lemmas.C12
