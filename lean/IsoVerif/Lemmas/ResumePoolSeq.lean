/-
C07: the `--threads 1` run (Model/Resume.lean `run`) is the pool run with the empty schedules — for every variant of the
model, whenever the run completes.  (When a task raises the two differ by design: a lazy `map` stops at the raise, a
pool lets the other tasks finish.)
-/
import IsoVerif.Lemmas.ResumePoolIndep

namespace IsoVerif.Lemmas.Resume
open IsoVerif.Model.Resume

/-- the tasks of a parallel stage do not depend on each other: each writes only inside its footprint `T c`, and
    behaves the same after other tasks have performed any of their events -/
def Indep (task : Chr → Stage) : Prop :=
  ∃ T : Chr → Path → Bool,
    (∀ c c' p, T c p = true → T c' p = true → c = c') ∧
    (∀ c fs, ∀ e ∈ (runActs (task c fs) fs).evs, T c e.path = true) ∧
    (∀ c fs es, (∀ e ∈ es, ∃ c', c' ≠ c ∧ T c' e.path = true) →
      (runActs (task c (applyAll fs es)) (applyAll fs es)).evs = (runActs (task c fs) fs).evs ∧
      (runActs (task c (applyAll fs es)) (applyAll fs es)).ok = (runActs (task c fs) fs).ok)

/-- the empty schedule: the barrier lets the tasks run one after the other -/
theorem weave_fill (cs : List Chr) (nd : cs.Nodup) (rem : Chr → List Ev) : weave (fill cs rem) rem = cs.flatMap rem := by
  induction cs generalizing rem with
  | nil => rfl
  | cons c cs ih =>
    have nd' := List.nodup_cons.mp nd
    simp only [fill, List.flatMap_cons]
    rw [weave_replicate, List.take_of_length_le (Nat.le_refl _)]
    have hf : fill cs (fun x => if x = c then (rem c).drop (rem c).length else rem x) = fill cs rem := by
      simp only [fill]
      apply flatMap_congr_on
      intro x hx
      have : x ≠ c := fun e => nd'.1 (e ▸ hx)
      simp [this]
    have := ih nd'.2 (fun x => if x = c then (rem c).drop (rem c).length else rem x)
    rw [hf] at this
    simp only [fill] at this
    rw [this]
    congr 1
    apply flatMap_congr_on
    intro x hx
    have : x ≠ c := fun e => nd'.1 (e ▸ hx)
    simp [this]

/-- a completed sequential loop over independent tasks performs, task by task, what each task performs when started
    with the loop -/
theorem seq_tasks {task : Chr → Stage} (hi : Indep task) (cs : List Chr) (nd : cs.Nodup) (fs : FS)
    (hok : (runStages (cs.map task) fs).ok = true) :
    (runStages (cs.map task) fs).evs = cs.flatMap (fun c => (runActs (task c fs) fs).evs) ∧
      ∀ c ∈ cs, (runActs (task c fs) fs).ok = true := by
  obtain ⟨T, hdisj, hT, hind⟩ := hi
  induction cs generalizing fs with
  | nil => exact ⟨rfl, fun c hc => by simp at hc⟩
  | cons c cs ih =>
    have nd' := List.nodup_cons.mp nd
    simp only [List.map_cons, runStages] at hok ⊢
    by_cases h1 : (runActs (task c fs) fs).ok = true
    · simp only [h1, if_true] at hok ⊢
      have hfs : (runActs (task c fs) fs).fs = applyAll fs (runActs (task c fs) fs).evs := runActs_fs _ _
      obtain ⟨e2, o2⟩ := ih nd'.2 _ hok
      have hother : ∀ c' ∈ cs, ∀ e ∈ (runActs (task c fs) fs).evs, ∃ c'', c'' ≠ c' ∧ T c'' e.path = true :=
        fun c' hc' e he => ⟨c, fun e' => nd'.1 (e' ▸ hc'), hT c fs e he⟩
      refine ⟨?_, ?_⟩
      · simp only [List.flatMap_cons]
        rw [e2]
        congr 1
        apply flatMap_congr_on
        intro c' hc'
        rw [hfs]
        exact (hind c' fs _ (hother c' hc')).1
      · intro c' hc'
        simp only [List.mem_cons] at hc'
        rcases hc' with rfl | hc'
        · exact h1
        · have := o2 c' hc'
          rw [hfs, (hind c' fs _ (hother c' hc')).2] at this
          exact this
    · simp only [h1] at hok
      exact absurd hok h1

theorem Res_ext {a b : Res} (h1 : a.evs = b.evs) (h2 : a.fs = b.fs) (h3 : a.ok = b.ok) : a = b := by
  cases a; cases b; simp_all

/-- a parallel stage of independent tasks with the empty schedule = the sequential loop, when the loop completes -/
theorem poolStage_nil_eq {task : Chr → Stage} (hi : Indep task) (cs : List Chr) (nd : cs.Nodup) (fs : FS)
    (hok : (runStages (cs.map task) fs).ok = true) : poolStage task cs [] fs = runStages (cs.map task) fs := by
  obtain ⟨e, o⟩ := seq_tasks hi cs nd fs hok
  have hev : (poolStage task cs [] fs).evs = (runStages (cs.map task) fs).evs := by
    show weave ([] ++ fill cs (taskEvents task cs fs)) (taskEvents task cs fs) = _
    rw [List.nil_append, weave_fill cs nd, e]
    apply flatMap_congr_on
    intro c hc
    simp [taskEvents, hc]
  apply Res_ext hev
  · show applyAll fs (poolStage task cs [] fs).evs = _
    rw [hev, ← runStages_fs]
  · rw [hok]
    simp only [poolStage, List.all_eq_true]
    exact o

/-- the stages a list of phases stands for when the tasks of every parallel stage are executed one after the other -/
def flattenPhases : List Phase → List Stage
  | [] => []
  | .seq s :: ps => s :: flattenPhases ps
  | .pool task cs _ :: ps => cs.map task ++ flattenPhases ps

/-- every parallel stage has independent tasks, distinct chromosomes and the empty schedule -/
def SeqLike : List Phase → Prop
  | [] => True
  | .seq _ :: ps => SeqLike ps
  | .pool task cs sc :: ps => Indep task ∧ cs.Nodup ∧ sc = [] ∧ SeqLike ps

theorem runPhases_eq_runStages (ps : List Phase) (h : SeqLike ps) (fs : FS)
    (hok : (runStages (flattenPhases ps) fs).ok = true) : runPhases ps fs = runStages (flattenPhases ps) fs := by
  induction ps generalizing fs with
  | nil => rfl
  | cons p ps ih =>
    cases p with
    | seq s =>
      simp only [flattenPhases, runStages, runPhases, runPhase] at hok ⊢
      by_cases h1 : (runActs (s fs) fs).ok = true
      · simp only [h1, if_true] at hok ⊢
        rw [ih h _ hok]
      · simp only [h1] at hok
        exact absurd hok h1
    | pool task cs sc =>
      obtain ⟨hi, nd, rfl, hrest⟩ := h
      simp only [flattenPhases] at hok ⊢
      rw [runStages_append] at hok ⊢
      by_cases h1 : (runStages (cs.map task) fs).ok = true
      · simp only [h1, if_true] at hok ⊢
        simp only [runPhases, runPhase, poolStage_nil_eq hi cs nd fs h1, h1, if_true]
        rw [ih hrest _ hok]
      · simp only [h1] at hok
        exact absurd hok h1

theorem collect_indep (v : Variant) (cfg : Cfg) (rs sk : Bool) : Indep (collectChr v cfg rs sk) := by
  refine ⟨Tcol, Tcol_disjoint, ?_, fun c fs es hes => collect_start_indep v cfg rs sk c fs es hes⟩
  intro c fs e he
  have hp := collectChr_T_any v cfg rs sk c fs
  simp only [List.all_eq_true] at hp
  exact hp e (runActs_evs_sub _ _ e he)

theorem construct_indep (v : Variant) (cfg : Cfg) (rs : Bool) : Indep (constructChr v cfg rs) := by
  refine ⟨Tcon, Tcon_disjoint, ?_, fun c fs es hes => construct_start_indep v cfg rs c fs es hes⟩
  intro c fs e he
  have hp := constructChr_T_any v cfg rs c fs
  simp only [List.all_eq_true] at hp
  exact hp e (runActs_evs_sub _ _ e he)

theorem stages_flatten (v : Variant) (cfg : Cfg) (ord : List Path) (rs sk : Bool) :
    flattenPhases (phases v cfg ord rs sk [] []) = stages v cfg ord rs sk := by
  simp only [phases, stages, List.cons_append, List.nil_append, flattenPhases, List.append_assoc]
  split <;> simp [flattenPhases]

theorem phases_seqLike (v : Variant) (cfg : Cfg) (nd : cfg.chrs.Nodup) (ord : List Path) (rs sk : Bool) :
    SeqLike (phases v cfg ord rs sk [] []) := by
  simp only [phases, List.cons_append, List.nil_append, SeqLike]
  refine ⟨collect_indep _ _ _ _, nd, trivial, construct_indep _ _ _, nd, trivial, ?_⟩
  split <;> simp [SeqLike]

/-- **`--threads 1` is the pool run with the empty schedules** (every variant; whenever the run completes) -/
theorem runPool_nil_eq_run (v : Variant) (cfg : Cfg) (nd : cfg.chrs.Nodup) (ord : List Path) (rs : Bool) (fs : FS)
    (hok : (run v cfg ord rs fs).ok = true) : runPool v cfg ord rs [] [] fs = run v cfg ord rs fs := by
  unfold runPool run at *
  have h := runPhases_eq_runStages (.seq (forceClean v cfg rs) :: phases v cfg ord rs (rs && fs.has .lock) [] [])
    (by simp only [SeqLike]; exact phases_seqLike v cfg nd ord rs _) fs
  simp only [flattenPhases, stages_flatten] at h
  exact h hok

end IsoVerif.Lemmas.Resume
