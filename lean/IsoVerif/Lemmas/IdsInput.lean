/-
Helper lemmas for Props/C17Input.lean: the fold invariant of `check_gtf_duplicates` (model: `IsoVerif/Model/IdsInput.lean`)
on the accepting path – as long as `gtf_correct` is still true nothing has been renamed, every counter is 0 and every
sequence list is a singleton.  Core Lean only.
-/
import IsoVerif.Model.IdsInput

namespace IsoVerif.Lemmas.C17Input
open IsoVerif.Model.C17

def Z (d : Dict Nat) : Prop := ∀ k n, d.lookup k = some n → n = 0
def K (d : Dict (List Str)) : Prop := ∀ k l, d.lookup k = some l → ∃ s, l = [s]

theorem lookup_cons_self {β} (k : Str) (v : β) (d : Dict β) : List.lookup k ((k, v) :: d) = some v := by
  simp [List.lookup]

theorem lookup_cons_ne {β} (k k' : Str) (v : β) (d : Dict β) (h : k ≠ k') :
    List.lookup k ((k', v) :: d) = List.lookup k d := by
  have : (k == k') = false := by simpa using h
  simp [List.lookup, this]

theorem Z_cons (d : Dict Nat) (hz : Z d) (id : Str) : Z ((id, 0) :: d) := by
  intro k n hk
  by_cases e : k = id
  · subst e; rw [lookup_cons_self] at hk; cases hk; rfl
  · rw [lookup_cons_ne _ _ _ _ e] at hk; exact hz k n hk

theorem K_cons (d : Dict (List Str)) (hk : K d) (id seq : Str) : K ((id, [seq]) :: d) := by
  intro k l hkl
  by_cases e : k = id
  · subst e; rw [lookup_cons_self] at hkl; cases hkl; exact ⟨seq, rfl⟩
  · rw [lookup_cons_ne _ _ _ _ e] at hkl; exact hk k l hkl

theorem countDup_ok (d : Dict Nat) (hz : Z d) (isRec : Bool) (id : Str) (h : (countDup d isRec id).2.1 = true) :
    (countDup d isRec id).2.2 = id ∧ Z (countDup d isRec id).1 ∧
    (isRec = true → d.lookup id = none ∧ (countDup d isRec id).1.lookup id = some 0) ∧
    (∀ k, k ≠ id → (countDup d isRec id).1.lookup k = d.lookup k) ∧
    (isRec = false → (countDup d isRec id).1 = d) := by
  cases hl : d.lookup id with
  | none =>
    cases isRec with
    | true =>
      have e : countDup d true id = ((id, 0) :: d, true, id) := by simp [countDup, hl]
      rw [e]
      exact ⟨rfl, Z_cons d hz id, fun _ => ⟨rfl, lookup_cons_self _ _ _⟩, fun k hk => lookup_cons_ne _ _ _ _ hk,
        by simp⟩
    | false =>
      have e : countDup d false id = (d, true, id) := by simp [countDup, hl]
      rw [e]
      exact ⟨rfl, hz, by simp, fun _ _ => rfl, fun _ => rfl⟩
  | some n =>
    cases isRec with
    | true =>
      have e : (countDup d true id).2.1 = false := by simp [countDup, hl]
      rw [e] at h; cases h
    | false =>
      have := hz id n hl
      subst this
      have e : countDup d false id = (d, true, id) := by simp [countDup, hl]
      rw [e]
      exact ⟨rfl, hz, by simp, fun _ _ => rfl, fun _ => rfl⟩

theorem trackSeq_ok (d : Dict (List Str)) (hk : K d) (id seq : Str) (h : (trackSeq d id seq).2.1 = true) :
    (trackSeq d id seq).2.2 = id ∧ K (trackSeq d id seq).1 ∧ (trackSeq d id seq).1.lookup id = some [seq] ∧
    (∀ k, k ≠ id → (trackSeq d id seq).1.lookup k = d.lookup k) ∧ (∀ l, d.lookup id = some l → l = [seq]) := by
  cases hl : d.lookup id with
  | none =>
    have e : trackSeq d id seq = ((id, [seq]) :: d, true, id) := by simp [trackSeq, hl]
    rw [e]
    exact ⟨rfl, K_cons d hk id seq, lookup_cons_self _ _ _, fun k hk' => lookup_cons_ne _ _ _ _ hk',
      fun l x => by cases x⟩
  | some l =>
    obtain ⟨s, rfl⟩ := hk id l hl
    by_cases e : seq = s
    · subst e
      have e : trackSeq d id seq = (d, true, id) := by simp [trackSeq, hl]
      rw [e]
      exact ⟨rfl, hk, hl, fun _ _ => rfl, fun l x => by cases x; rfl⟩
    · have e' : (trackSeq d id seq).2.1 = false := by simp [trackSeq, hl, e]
      rw [e'] at h; cases h

structure ChkInv (pre : List GtfRec) (st : ChkState) : Prop where
  zg : Z st.geneCnt
  zt : Z st.trCnt
  kg : K st.geneSeqs
  kt : K st.trSeqs
  gseq : ∀ r ∈ pre, st.geneSeqs.lookup r.gene = some [r.seq]
  tseq : ∀ r ∈ pre, r.kind ≠ .gene → st.trSeqs.lookup r.tr = some [r.seq]
  grec : ∀ r ∈ pre, r.kind = .gene → st.geneCnt.lookup r.gene = some 0
  trec : ∀ r ∈ pre, r.kind = .transcript → st.trCnt.lookup r.tr = some 0
  gnd : ((pre.filter (fun r => r.kind == .gene)).map (·.gene)).Nodup
  tnd : ((pre.filter (fun r => r.kind == .transcript)).map (·.tr)).Nodup
  ne : ∀ r ∈ pre, r.kind ≠ .gene → r.gene ≠ r.tr
  out : st.out = pre

theorem chkStep_gene (t : Bool) (st : ChkState) (r : GtfRec) (hk : r.kind = .gene) :
    chkStep t st r =
      { st with
        ok := st.ok && (countDup st.geneCnt true r.gene).2.1 &&
          (trackSeq st.geneSeqs (countDup st.geneCnt true r.gene).2.2 r.seq).2.1,
        geneCnt := (countDup st.geneCnt true r.gene).1,
        geneSeqs := (trackSeq st.geneSeqs (countDup st.geneCnt true r.gene).2.2 r.seq).1,
        out := st.out ++ [{ r with gene := (trackSeq st.geneSeqs (countDup st.geneCnt true r.gene).2.2 r.seq).2.2 }] } := by
  simp [chkStep, hk]

theorem chkStep_sub (st : ChkState) (r : GtfRec) (hk : r.kind ≠ .gene) :
    chkStep true st r =
      { ok := st.ok && (countDup st.geneCnt false r.gene).2.1 &&
          (trackSeq st.geneSeqs (countDup st.geneCnt false r.gene).2.2 r.seq).2.1 &&
          (countDup st.trCnt (r.kind == .transcript) r.tr).2.1 &&
          (trackSeq st.trSeqs (countDup st.trCnt (r.kind == .transcript) r.tr).2.2 r.seq).2.1 &&
          !((trackSeq st.geneSeqs (countDup st.geneCnt false r.gene).2.2 r.seq).2.2 ==
            (trackSeq st.trSeqs (countDup st.trCnt (r.kind == .transcript) r.tr).2.2 r.seq).2.2),
        geneCnt := (countDup st.geneCnt false r.gene).1,
        geneSeqs := (trackSeq st.geneSeqs (countDup st.geneCnt false r.gene).2.2 r.seq).1,
        trCnt := (countDup st.trCnt (r.kind == .transcript) r.tr).1,
        trSeqs := (trackSeq st.trSeqs (countDup st.trCnt (r.kind == .transcript) r.tr).2.2 r.seq).1,
        out := st.out ++ [{ r with
          gene := (trackSeq st.geneSeqs (countDup st.geneCnt false r.gene).2.2 r.seq).2.2,
          tr := if (trackSeq st.geneSeqs (countDup st.geneCnt false r.gene).2.2 r.seq).2.2 ==
              (trackSeq st.trSeqs (countDup st.trCnt (r.kind == .transcript) r.tr).2.2 r.seq).2.2
            then (trackSeq st.trSeqs (countDup st.trCnt (r.kind == .transcript) r.tr).2.2 r.seq).2.2 ++ rnaSuffix
            else (trackSeq st.trSeqs (countDup st.trCnt (r.kind == .transcript) r.tr).2.2 r.seq).2.2 }] } := by
  have hb : (r.kind == FKind.gene) = (decide (r.kind = FKind.gene)) := by cases r.kind <;> rfl
  simp [chkStep, hk, hb]

theorem chkStep_ok_mono (t : Bool) (st : ChkState) (r : GtfRec) (h : (chkStep t st r).ok = true) : st.ok = true := by
  unfold chkStep at h
  split at h <;> simp at h <;> simp [h]

theorem foldl_ok_mono (t : Bool) (l : List GtfRec) : ∀ st, (l.foldl (chkStep t) st).ok = true → st.ok = true := by
  induction l with
  | nil => intro st h; exact h
  | cons r l ih => intro st h; exact chkStep_ok_mono t st r (ih _ h)

theorem rec_eta_gene (r : GtfRec) : ({ r with gene := r.gene } : GtfRec) = r := by cases r; rfl
theorem rec_eta_both (r : GtfRec) : ({ r with gene := r.gene, tr := r.tr } : GtfRec) = r := by cases r; rfl

theorem chkStep_inv_gene (pre : List GtfRec) (st : ChkState) (r : GtfRec) (hk : r.kind = .gene)
    (inv : ChkInv pre st) (h : (chkStep true st r).ok = true) : ChkInv (pre ++ [r]) (chkStep true st r) := by
  rw [chkStep_gene true st r hk] at h ⊢
  simp only [Bool.and_eq_true] at h
  obtain ⟨⟨_, h1⟩, h2⟩ := h
  obtain ⟨c1, c2, c3, c4, _⟩ := countDup_ok st.geneCnt inv.zg true r.gene h1
  obtain ⟨c3a, c3b⟩ := c3 rfl
  rw [c1] at h2 ⊢
  obtain ⟨s1, s2, s3, s4, s5⟩ := trackSeq_ok st.geneSeqs inv.kg r.gene r.seq h2
  have hnew : ∀ r' ∈ pre, r'.kind = .gene → r'.gene ≠ r.gene := by
    intro r' hr' hk' e
    have := inv.grec r' hr' hk'
    rw [e, c3a] at this; cases this
  refine ⟨c2, inv.zt, s2, inv.kt, ?_, ?_, ?_, ?_, ?_, ?_, ?_, ?_⟩
  · intro r' hr'
    rcases List.mem_append.mp hr' with hp | hp
    · by_cases e : r'.gene = r.gene
      · have := s5 _ (e ▸ inv.gseq r' hp)
        simp only [List.cons.injEq, and_true] at this
        show List.lookup r'.gene (trackSeq st.geneSeqs r.gene r.seq).1 = some [r'.seq]
        rw [e, this]; exact s3
      · show List.lookup r'.gene (trackSeq st.geneSeqs r.gene r.seq).1 = some [r'.seq]
        rw [s4 _ e]; exact inv.gseq r' hp
    · have : r' = r := by simpa using hp
      subst this; exact s3
  · intro r' hr' hk'
    rcases List.mem_append.mp hr' with hp | hp
    · exact inv.tseq r' hp hk'
    · have : r' = r := by simpa using hp
      subst this; exact absurd hk hk'
  · intro r' hr' hk'
    rcases List.mem_append.mp hr' with hp | hp
    · show List.lookup r'.gene (countDup st.geneCnt true r.gene).1 = some 0
      rw [c4 _ (hnew r' hp hk')]; exact inv.grec r' hp hk'
    · have : r' = r := by simpa using hp
      subst this; exact c3b
  · intro r' hr' hk'
    rcases List.mem_append.mp hr' with hp | hp
    · exact inv.trec r' hp hk'
    · have : r' = r := by simpa using hp
      subst this; rw [hk] at hk'; cases hk'
  · rw [List.filter_append, List.map_append, List.nodup_append]
    refine ⟨inv.gnd, by simp [hk], ?_⟩
    intro a ha b hb
    simp only [List.mem_map, List.mem_filter] at ha
    obtain ⟨r', ⟨hr', hk'⟩, rfl⟩ := ha
    have hb' : b = r.gene := by simpa [hk] using hb
    rw [hb']
    exact hnew r' hr' (by simpa using hk')
  · rw [List.filter_append, List.map_append]
    simpa [hk] using inv.tnd
  · intro r' hr' hk'
    rcases List.mem_append.mp hr' with hp | hp
    · exact inv.ne r' hp hk'
    · have : r' = r := by simpa using hp
      subst this; exact absurd hk hk'
  · show st.out ++ [{ r with gene := (trackSeq st.geneSeqs r.gene r.seq).2.2 }] = pre ++ [r]
    have e : ({ r with gene := (trackSeq st.geneSeqs r.gene r.seq).2.2 } : GtfRec) = r := by
      rw [s1]
    rw [e, inv.out]

theorem chkStep_inv_sub (pre : List GtfRec) (st : ChkState) (r : GtfRec) (hk : r.kind ≠ .gene)
    (inv : ChkInv pre st) (h : (chkStep true st r).ok = true) : ChkInv (pre ++ [r]) (chkStep true st r) := by
  rw [chkStep_sub st r hk] at h ⊢
  simp only [Bool.and_eq_true, Bool.not_eq_true', beq_eq_false_iff_ne, ne_eq] at h
  obtain ⟨⟨⟨⟨⟨_, h1⟩, h2⟩, h3⟩, h4⟩, h5⟩ := h
  obtain ⟨c1, _, _, _, c5⟩ := countDup_ok st.geneCnt inv.zg false r.gene h1
  have c5 := c5 rfl
  rw [c1] at h2 h5 ⊢
  rw [c5]
  obtain ⟨s1, s2, s3, s4, s5⟩ := trackSeq_ok st.geneSeqs inv.kg r.gene r.seq h2
  obtain ⟨d1, d2, d3, d4, d5⟩ := countDup_ok st.trCnt inv.zt (r.kind == .transcript) r.tr h3
  rw [d1] at h4 h5 ⊢
  obtain ⟨t1, t2, t3, t4, t5⟩ := trackSeq_ok st.trSeqs inv.kt r.tr r.seq h4
  rw [s1, t1] at h5
  have hnew : ∀ r' ∈ pre, r'.kind = .transcript → r.kind = .transcript → r'.tr ≠ r.tr := by
    intro r' hr' hk' hkr e
    have := inv.trec r' hr' hk'
    rw [e, (d3 (by simp [hkr])).1] at this; cases this
  refine ⟨inv.zg, d2, s2, t2, ?_, ?_, ?_, ?_, ?_, ?_, ?_, ?_⟩
  · intro r' hr'
    rcases List.mem_append.mp hr' with hp | hp
    · by_cases e : r'.gene = r.gene
      · have := s5 _ (e ▸ inv.gseq r' hp)
        simp only [List.cons.injEq, and_true] at this
        show List.lookup r'.gene (trackSeq st.geneSeqs r.gene r.seq).1 = some [r'.seq]
        rw [e, this]; exact s3
      · show List.lookup r'.gene (trackSeq st.geneSeqs r.gene r.seq).1 = some [r'.seq]
        rw [s4 _ e]; exact inv.gseq r' hp
    · have : r' = r := by simpa using hp
      subst this; exact s3
  · intro r' hr' hk'
    rcases List.mem_append.mp hr' with hp | hp
    · by_cases e : r'.tr = r.tr
      · have := t5 _ (e ▸ inv.tseq r' hp hk')
        simp only [List.cons.injEq, and_true] at this
        show List.lookup r'.tr (trackSeq st.trSeqs r.tr r.seq).1 = some [r'.seq]
        rw [e, this]; exact t3
      · show List.lookup r'.tr (trackSeq st.trSeqs r.tr r.seq).1 = some [r'.seq]
        rw [t4 _ e]; exact inv.tseq r' hp hk'
    · have : r' = r := by simpa using hp
      subst this; exact t3
  · intro r' hr' hk'
    rcases List.mem_append.mp hr' with hp | hp
    · exact inv.grec r' hp hk'
    · have : r' = r := by simpa using hp
      subst this; exact absurd hk' hk
  · intro r' hr' hk'
    rcases List.mem_append.mp hr' with hp | hp
    · show List.lookup r'.tr (countDup st.trCnt (r.kind == .transcript) r.tr).1 = some 0
      by_cases hkr : r.kind = .transcript
      · rw [d4 _ (hnew r' hp hk' hkr)]; exact inv.trec r' hp hk'
      · rw [d5 (by simpa using hkr)]; exact inv.trec r' hp hk'
    · have : r' = r := by simpa using hp
      subst this; exact (d3 (by simp [hk'])).2
  · rw [List.filter_append, List.map_append]
    have : (r.kind == FKind.gene) = false := by simpa using hk
    simpa [this] using inv.gnd
  · rw [List.filter_append, List.map_append]
    by_cases hkr : r.kind = .transcript
    · rw [List.nodup_append]
      refine ⟨inv.tnd, by simp [hkr], ?_⟩
      intro a ha b hb
      simp only [List.mem_map, List.mem_filter] at ha
      obtain ⟨r', ⟨hr', hk'⟩, rfl⟩ := ha
      have hb' : b = r.tr := by simpa [hkr] using hb
      rw [hb']
      exact hnew r' hr' (by simpa using hk') hkr
    · have : (r.kind == FKind.transcript) = false := by simpa using hkr
      simpa [this] using inv.tnd
  · intro r' hr' hk'
    rcases List.mem_append.mp hr' with hp | hp
    · exact inv.ne r' hp hk'
    · have : r' = r := by simpa using hp
      subst this; exact h5
  · have hb : ((trackSeq st.geneSeqs r.gene r.seq).2.2 == (trackSeq st.trSeqs r.tr r.seq).2.2) = false := by
      rw [s1, t1]; simpa using h5
    simp only [hb, Bool.false_eq_true, if_false]
    have e : ({ r with gene := (trackSeq st.geneSeqs r.gene r.seq).2.2,
                       tr := (trackSeq st.trSeqs r.tr r.seq).2.2 } : GtfRec) = r := by
      rw [s1, t1]
    rw [e, inv.out]

theorem chkStep_inv (pre : List GtfRec) (st : ChkState) (r : GtfRec)
    (inv : ChkInv pre st) (h : (chkStep true st r).ok = true) : ChkInv (pre ++ [r]) (chkStep true st r) := by
  by_cases hk : r.kind = .gene
  · exact chkStep_inv_gene pre st r hk inv h
  · exact chkStep_inv_sub pre st r hk inv h

theorem foldl_inv (suf : List GtfRec) : ∀ (pre : List GtfRec) (st : ChkState), ChkInv pre st →
    (suf.foldl (chkStep true) st).ok = true → ChkInv (pre ++ suf) (suf.foldl (chkStep true) st) := by
  induction suf with
  | nil => intro pre st inv _; simpa using inv
  | cons r suf ih =>
    intro pre st inv h
    have h1 : (chkStep true st r).ok = true := foldl_ok_mono true suf _ h
    have := ih (pre ++ [r]) (chkStep true st r) (chkStep_inv pre st r inv h1) h
    simpa using this

theorem init_inv : ChkInv [] ChkState.init :=
  ⟨fun _ _ h => by simp [ChkState.init] at h, fun _ _ h => by simp [ChkState.init] at h,
   fun _ _ h => by simp [ChkState.init] at h, fun _ _ h => by simp [ChkState.init] at h,
   by simp, by simp, by simp, by simp, by simp, by simp, by simp, rfl⟩

theorem check_inv (recs : List GtfRec) (h : (check true recs).1 = true) :
    ChkInv recs (recs.foldl (chkStep true) ChkState.init) := by
  have := foldl_inv recs [] ChkState.init init_inv h
  simpa using this

end IsoVerif.Lemmas.C17Input
