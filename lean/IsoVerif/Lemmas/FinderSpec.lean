/-
Helper lemmas for C16: the tail scan (`find_polya` + the entire-tail fraction test) and the bounds of the reference
projection used by `find_polya_tail` / `find_polyt_head`.
-/
import IsoVerif.Model.TailSpec
import IsoVerif.Lemmas.MoveRef
import IsoVerif.Lemmas.PolyAFinder
import IsoVerif.Props.C16Finder
import IsoVerif.Props.C16MoveRef

namespace IsoVerif.Lemmas.C16
open IsoVerif.Gen IsoVerif.Model IsoVerif.Model.C16

/-- `i` is the start of the first window of `w` flags that ends strictly before the end of `seq` and holds at
    least `c` set flags -/
def FirstWindow (seq : List Bool) (w c i : Nat) : Prop :=
  i + w < seq.length ∧ c ≤ winCount seq i w ∧ ∀ j < i, winCount seq j w < c

/-- `str.find('AA')`, declaratively -/
theorem findAA_spec : ∀ (l : List Bool),
    match findAA l with
    | some k => l[k]? = some true ∧ l[k + 1]? = some true ∧
        ∀ j < k, ¬ (l[j]? = some true ∧ l[j + 1]? = some true)
    | none => ∀ j, ¬ (l[j]? = some true ∧ l[j + 1]? = some true) := by
  intro l
  induction l with
  | nil => simp [findAA]
  | cons a rest ih =>
    cases rest with
    | nil =>
      simp only [findAA]
      intro j ⟨_, h2⟩
      simp at h2
    | cons b rest =>
      by_cases hab : (a && b) = true
      · simp only [findAA, hab, if_true]
        simp only [Bool.and_eq_true] at hab
        refine ⟨by simp [hab.1], by simp [hab.2], fun j hj => by omega⟩
      · simp only [findAA, hab]
        cases hr : findAA (b :: rest) with
        | some k =>
          rw [hr] at ih
          obtain ⟨h1, h2, h3⟩ := ih
          simp only [Option.map_some]
          refine ⟨by simpa using h1, by simpa using h2, ?_⟩
          intro j hj
          cases j with
          | zero =>
            intro ⟨x, y⟩
            simp at x y
            exact hab (by simp [x, y])
          | succ j => simpa using h3 j (by omega)
        | none =>
          rw [hr] at ih
          simp only [Option.map_none]
          intro j
          cases j with
          | zero =>
            intro ⟨x, y⟩
            simp at x y
            exact hab (by simp [x, y])
          | succ j => simpa using ih j

/-- the offset added by `max(0, seq[i:].find('AA'))` stays inside the sequence -/
theorem findAA_lt (l : List Bool) (k : Nat) (h : findAA l = some k) : k + 1 < l.length := by
  have := findAA_spec l
  rw [h] at this
  obtain ⟨_, h2, _⟩ := this
  have : (k + 1) < l.length := by
    by_cases hlt : k + 1 < l.length
    · exact hlt
    · rw [List.getElem?_eq_none (by omega)] at h2; cases h2
  exact this

/-- what `tailScan` returns -/
theorem tailScan_spec (w num den : Nat) (hw : 1 ≤ w) (chk : Bool) (region : List Bool) :
    match tailScan w num den chk region with
    | some p => ∃ i, FirstWindow region w (w * num / den) i ∧ p = i + (findAA (region.drop i)).getD 0 ∧
        p < region.length ∧
        (chk = true → (region.drop p).length * num ≤ countTrue (region.drop p) * den)
    | none => (∀ j, j + w < region.length → winCount region j w < w * num / den) ∨
        (chk = true ∧ ∃ i, FirstWindow region w (w * num / den) i ∧
          countTrue (region.drop (i + (findAA (region.drop i)).getD 0)) * den <
            (region.drop (i + (findAA (region.drop i)).getD 0)).length * num) := by
  have h := IsoVerif.Props.C16Finder.find_polya_window_spec w (w * num / den) hw region
  unfold tailScan
  cases hf : findPolya w (w * num / den) region with
  | none =>
    rw [hf] at h
    simp only
    exact Or.inl h
  | some p =>
    rw [hf] at h
    obtain ⟨i, h1, h2, h3, h4⟩ := h
    have hp : p < region.length := by
      cases ha : findAA (region.drop i) with
      | none => rw [ha] at h4; simp at h4; omega
      | some k =>
        have := findAA_lt _ _ ha
        rw [ha] at h4
        simp at h4 this
        omega
    simp only
    cases chk with
    | false => exact ⟨i, ⟨h1, h2, h3⟩, h4, hp, by simp⟩
    | true =>
      simp only [if_true]
      by_cases hlt : countTrue (region.drop p) * den < (region.drop p).length * num
      · simp only [hlt, if_true]
        right
        refine ⟨trivial, i, ⟨h1, h2, h3⟩, ?_⟩
        rw [← h4]; exact hlt
      · simp only [hlt, if_false]
        exact ⟨i, ⟨h1, h2, h3⟩, h4, hp, fun _ => by omega⟩

/-! ### bounds of the walk -/

theorem refLen_reverse (l : List CigarOp) : refLen l.reverse = refLen l := by
  induction l with
  | nil => rfl
  | cons o l ih => rw [List.reverse_cons, refLen_append, ih, refLen_cons, refLen_cons, refLen_nil]; omega

theorem NonNeg_reverse {l : List CigarOp} (h : NonNeg l) : NonNeg l.reverse := fun o ho => h o (List.mem_reverse.1 ho)

theorem refLen_takeWhile_le (p : CigarOp → Bool) {l : List CigarOp} (h : NonNeg l) : refLen (l.takeWhile p) ≤ refLen l := by
  have := List.takeWhile_append_dropWhile (p := p) (l := l)
  have h2 : NonNeg (l.dropWhile p) := fun o ho => h o ((List.dropWhile_sublist p).subset ho)
  have := refLen_nonneg h2
  calc refLen (l.takeWhile p) ≤ refLen (l.takeWhile p) + refLen (l.dropWhile p) := by omega
    _ = refLen l := by rw [← refLen_append, List.takeWhile_append_dropWhile]

theorem refLen_drop_le (n : Nat) {l : List CigarOp} (h : NonNeg l) : refLen (l.drop n) ≤ refLen l := by
  have h2 : NonNeg (l.take n) := fun o ho => h o (List.mem_of_mem_take ho)
  have := refLen_nonneg h2
  calc refLen (l.drop n) ≤ refLen (l.take n) + refLen (l.drop n) := by omega
    _ = refLen l := by rw [← refLen_append, List.take_append_drop]

theorem NonNeg_walkCore {cigar : List CigarOp} (h : NonNeg cigar) (fwd : Bool) : NonNeg (walkCore cigar fwd) := by
  intro o ho
  unfold walkCore at ho
  have h1 := (List.takeWhile_sublist _).subset ho
  have h2 := List.mem_of_mem_drop h1
  cases fwd
  · simp at h2; exact h o h2
  · simp at h2; exact h o h2

theorem refLen_walkCore_le {cigar : List CigarOp} (h : NonNeg cigar) (fwd : Bool) :
    refLen (walkCore cigar fwd) ≤ refLen cigar := by
  unfold walkCore
  cases fwd
  · simp only [Bool.false_eq_true, if_false]
    have h1 := NonNeg_reverse h
    have h2 : NonNeg (cigar.reverse.drop (leadingClips cigar.reverse)) := fun o ho => h1 o (List.mem_of_mem_drop ho)
    calc _ ≤ refLen (cigar.reverse.drop (leadingClips cigar.reverse)) := refLen_takeWhile_le _ h2
      _ ≤ refLen cigar.reverse := refLen_drop_le _ h1
      _ = refLen cigar := refLen_reverse _
  · simp only [if_true]
    have h2 : NonNeg (cigar.drop (leadingClips cigar)) := fun o ho => h o (List.mem_of_mem_drop ho)
    calc _ ≤ refLen (cigar.drop (leadingClips cigar)) := refLen_takeWhile_le _ h2
      _ ≤ refLen cigar := refLen_drop_le _ h

/-- the walk starts on a reference-consuming operation of positive length (for a backward walk: the alignment ends,
    clips aside, with `M = X D N` — every aligner's output; excluded: a CIGAR whose last non-clip operation is `I`) -/
def WalkOnRef (cigar : List CigarOp) (fwd : Bool) : Prop :=
  ∃ o rest, walkCore cigar fwd = o :: rest ∧ consumesRef o.1 = true ∧ 0 < o.2

theorem refColsUpTo_pos_of_head (o : CigarOp) (rest : List CigarOp) (q : Nat) (hr : consumesRef o.1 = true)
    (hp : 0 < o.2) : 1 ≤ refColsUpTo (expand (o :: rest)) q := by
  rw [expand_cons, hr]
  obtain ⟨m, hm⟩ : ∃ m, o.2.toNat = m + 1 := ⟨o.2.toNat - 1, by omega⟩
  rw [hm, List.replicate_succ, List.cons_append]
  cases consumesQuery o.1 with
  | false => simp only [refColsUpTo, Bool.toNat_true]; omega
  | true =>
    cases q with
    | zero => simp [refColsUpTo]
    | succ q => simp only [refColsUpTo, Bool.toNat_true]; omega

/-- what a successful call of `move_ref_coord_alogn_alignment` with a non-zero shift returns: the base-by-base
    projection, within `[-1, reference length - 1]`, and non-negative when the walk starts on the reference -/
theorem moveRefCoord_some (cigar : List CigarOp) (shift k : Int) (hnn : NonNeg cigar) (h0 : shift ≠ 0)
    (h : moveRefCoord cigar shift = some k) :
    ProjectsTo (expand (walkCore cigar (decide (shift > 0)))) shift.natAbs k ∧ -1 ≤ k ∧ k ≤ refLen cigar - 1 ∧
    (WalkOnRef cigar (decide (shift > 0)) → 0 ≤ k) := by
  rw [IsoVerif.Props.C16MoveRef.move_ref_coord_eq_spec cigar shift hnn] at h
  unfold moveRefCoordSpec at h
  simp only [h0, if_false] at h
  split at h
  · cases h
  split at h
  · cases h
  have hk := (Option.some.inj h).symm
  subst hk
  have h1 := refColsUpTo_le_rCount (expand (walkCore cigar (decide (shift > 0)))) shift.natAbs
  have h2 := rCount_expand (NonNeg_walkCore hnn (decide (shift > 0)))
  have h3 := refLen_walkCore_le hnn (decide (shift > 0))
  refine ⟨projectsTo_refColsUpTo _ _, by omega, by omega, ?_⟩
  rintro ⟨o, rest, hc, hr, hp⟩
  have := refColsUpTo_pos_of_head o rest shift.natAbs hr hp
  rw [hc]; omega

theorem slice_length_le {α} (l : List α) (a b : Int) : (slice l a b).length ≤ b.toNat - a.toNat := by
  simp [slice]; omega

theorem softClipTail_nonneg {cigar : List CigarOp} (h : NonNeg cigar) : 0 ≤ softClipTail cigar := by
  have hr := NonNeg_reverse h
  unfold softClipTail
  split
  · rename_i a b rest heq
    have ha := hr a (by rw [heq]; simp)
    have hb := hr b (by rw [heq]; simp)
    split
    · exact hb
    · split
      · exact ha
      · omega
  · rename_i a heq
    have ha := hr a (by rw [heq]; simp)
    split
    · exact ha
    · omega
  · omega

theorem softClipHead_nonneg {cigar : List CigarOp} (h : NonNeg cigar) : 0 ≤ softClipHead cigar := by
  unfold softClipHead
  split
  · rename_i a b rest
    have ha := h a (by simp)
    have hb := h b (by simp)
    split
    · exact hb
    · split
      · exact ha
      · omega
  · rename_i a
    have ha := h a (by simp)
    split
    · exact ha
    · omega
  · omega

theorem referenceEnd_ge (s : Int) (cigar : List CigarOp) (h : NonNeg cigar) :
    s + refLen cigar ≤ referenceEnd s cigar ∧ s + 1 ≤ referenceEnd s cigar := by
  have := refLen_nonneg h
  unfold referenceEnd
  split <;> omega

theorem tailScan_lt (w num den : Nat) (hw : 1 ≤ w) (chk : Bool) (region : List Bool) (p : Nat)
    (h : tailScan w num den chk region = some p) : p < region.length := by
  have := tailScan_spec w num den hw chk region
  rw [h] at this
  obtain ⟨_, _, _, hp, _⟩ := this
  exact hp

theorem softClipHead_reverse (cigar : List CigarOp) : softClipHead cigar.reverse = softClipTail cigar := by
  unfold softClipHead softClipTail
  cases cigar.reverse with
  | nil => rfl
  | cons a t => cases t <;> rfl

theorem walkCore_reverse (cigar : List CigarOp) : walkCore cigar.reverse true = walkCore cigar false := by
  simp [walkCore]

/-- inside the first match operation of the walk the projection is the identity -/
theorem moveRefCoord_in_first_match (cigar : List CigarOp) (fwd : Bool) (k0 : CigarEvent) (l : Int)
    (rest : List CigarOp) (hc : walkCore cigar fwd = (k0, l) :: rest) (hk : isAligned k0 = true) (j : Int)
    (hj0 : 0 < j) (hjl : j < l) : moveRefCoord cigar (if fwd then j else -j) = some j := by
  have hne : cigar ≠ [] := by
    intro h; subst h; cases fwd <;> simp [walkCore, leadingClips] at hc
  have hs0 : (if fwd then j else -j) ≠ 0 := by cases fwd <;> simp <;> omega
  have hdir : ((if fwd then j else -j) > 0) ↔ fwd = true := by cases fwd <;> simp <;> omega
  unfold moveRefCoord
  simp only [hs0, hne, if_false]
  have hwalk : (if (if fwd then j else -j) > 0 then cigar else cigar.reverse) = (if fwd then cigar else cigar.reverse) := by
    cases fwd <;> simp <;> omega
  have habs : (if (if fwd then j else -j) > 0 then (if fwd then j else -j) else -(if fwd then j else -j)) = j := by
    cases fwd <;> simp <;> omega
  rw [hwalk, habs]
  unfold walkCore at hc
  simp only at hc
  generalize hw : (if fwd then cigar else cigar.reverse) = walk at hc ⊢
  have hcons : ∃ rest', walk.drop (leadingClips walk) = (k0, l) :: rest' := by
    cases hd : walk.drop (leadingClips walk) with
    | nil => rw [hd] at hc; simp at hc
    | cons a t =>
      rw [hd, List.takeWhile_cons] at hc
      split at hc
      · simp only [List.cons.injEq] at hc; exact ⟨t, by rw [hc.1]⟩
      · cases hc
  obtain ⟨rest', hr'⟩ := hcons
  rw [hr', step_aln _ _ _ _ _ _ (by omega) hk, if_neg (by omega), moveRefLoop_done _ _ _ _ (by omega)]
  simp

/-! ### a clean end: `j` non-A bases followed by `k` A's -/

theorem findAA_clean : ∀ (j k : Nat), 2 ≤ k → findAA (List.replicate j false ++ List.replicate k true) = some j := by
  intro j
  induction j with
  | zero =>
    intro k hk
    obtain ⟨k', rfl⟩ : ∃ k', k = k' + 2 := ⟨k - 2, by omega⟩
    simp [List.replicate_succ, findAA]
  | succ j ih =>
    intro k hk
    have := ih k hk
    cases j with
    | zero =>
      obtain ⟨k', rfl⟩ : ∃ k', k = k' + 2 := ⟨k - 2, by omega⟩
      simp [List.replicate_succ, findAA]
    | succ j =>
      simp only [List.replicate_succ, List.cons_append] at this ⊢
      simp [findAA, this]

theorem countTrue_replicate (n : Nat) (b : Bool) : countTrue (List.replicate n b) = if b then n else 0 := by
  cases b <;> simp [countTrue, List.countP_replicate]

/-- the scan on a clean end: the first window already qualifies and the answer moves to the first A -/
theorem findPolya_clean (w c j k : Nat) (hw : 1 ≤ w) (hj : j + c ≤ w) (hk : w < j + k) (hk2 : 2 ≤ k) :
    findPolya w c (List.replicate j false ++ List.replicate k true) = some j := by
  have h := IsoVerif.Props.C16Finder.find_polya_window_spec w c hw (List.replicate j false ++ List.replicate k true)
  have hw0 : c ≤ winCount (List.replicate j false ++ List.replicate k true) 0 w := by
    simp only [winCount, List.drop_zero]
    rw [List.take_append, List.take_replicate, List.take_replicate, countTrue_append, countTrue_replicate,
      countTrue_replicate]
    simp only [List.length_replicate, Bool.false_eq_true, if_false, if_true]
    omega
  cases hf : findPolya w c (List.replicate j false ++ List.replicate k true) with
  | none =>
    rw [hf] at h
    have := h 0 (by simp; omega)
    omega
  | some p =>
    rw [hf] at h
    obtain ⟨i, _, _, h3, h4⟩ := h
    have hi : i = 0 := by
      cases i with
      | zero => rfl
      | succ i => have := h3 0 (by omega); omega
    subst hi
    rw [h4, List.drop_zero, findAA_clean j k hk2]
    simp

theorem slice_map {α β} (f : α → β) (l : List α) (a b : Int) : (slice l a b).map f = slice (l.map f) a b := by
  simp [slice, List.map_take, List.map_drop]

theorem take_two_rep (k m : Nat) (hm : 2 ≤ m) :
    ([false, false] ++ List.replicate k true).take m = List.replicate 2 false ++ List.replicate (min k (m - 2)) true := by
  obtain ⟨m', rfl⟩ : ∃ m', m = m' + 2 := ⟨m - 2, by omega⟩
  simp [List.take_replicate, List.replicate_succ]
  exact Nat.min_comm _ _

/-- the polyA window (external finder) on a clean end -/
theorem sliceA_clean (body : List Bool) (k w : Nat) :
    slice (body ++ [false, false, false] ++ List.replicate k true)
      (max 0 (((body.length + 3 + k : Nat) : Int) - k - 2))
      (min ((body.length + 3 + k : Nat) : Int) (((body.length + 3 + k : Nat) : Int) - k + 2 * w + 1))
    = List.replicate 2 false ++ List.replicate (min k (2 * w + 1)) true := by
  have ha : (max 0 (((body.length + 3 + k : Nat) : Int) - k - 2)).toNat = body.length + 1 := by omega
  have hb : (min ((body.length + 3 + k : Nat) : Int) (((body.length + 3 + k : Nat) : Int) - k + 2 * w + 1)).toNat
      - (body.length + 1) = min (k + 2) (2 * w + 3) := by omega
  unfold slice
  rw [ha, hb]
  have hd : (body ++ [false, false, false] ++ List.replicate k true).drop (body.length + 1)
      = [false, false] ++ List.replicate k true := by
    rw [List.append_assoc, List.drop_append]
    simp
  rw [hd, take_two_rep k _ (by omega)]
  congr 2; omega

/-- the polyT window of the mirror image on a clean end -/
theorem sliceT_clean (body : List Bool) (k w : Nat) :
    (slice (body ++ [false, false, false] ++ List.replicate k true).reverse
      (max 0 ((k : Int) - 2 * w))
      (min ((body.length + 3 + k : Nat) : Int) ((k : Int) + 2 + 1))).reverse
    = List.replicate 3 false ++ List.replicate (min k (2 * w)) true := by
  have hb : (min ((body.length + 3 + k : Nat) : Int) ((k : Int) + 2 + 1)).toNat = k + 3 := by omega
  unfold slice
  rw [hb]
  generalize ha : (max 0 ((k : Int) - 2 * w)).toNat = a
  have hak : a ≤ k := by omega
  have hr : (body ++ [false, false, false] ++ List.replicate k true).reverse
      = List.replicate k true ++ ([false, false, false] ++ body.reverse) := by simp
  rw [hr, List.drop_append_of_le_length (by simpa using hak), List.drop_replicate, List.take_append]
  have h3 : k + 3 - a - (k - a) = 3 := by omega
  have h4 : min (k + 3 - a) (k - a) = min k (2 * w) := by omega
  simp [h3, h4, List.replicate_succ]

end IsoVerif.Lemmas.C16
