/-
Lemmas for C06: assignment ids (renumbering, shift), worker-state (in)dependence of the two tasks.
-/
import IsoVerif.Model.Schedule

namespace IsoVerif.Lemmas.C06
open IsoVerif.Model.C06

def renumMM (g : Nat → Nat) (a : MMRec) : MMRec := { a with aid := g a.aid }
def renumIds (g : Nat → Nat) (ids : List (Nat × ReadRec)) : List (Nat × ReadRec) := ids.map (fun p => (g p.1, p.2))
def shiftSave (k : Nat) (sv : SaveFile) : SaveFile := sv.map (fun p => (p.1, renumIds (· + k) p.2))

theorem filter_readId_map (g : Nat → Nat) (mm : List MMRec) (rid : String) :
    (mm.map (renumMM g)).filter (fun a => a.readId == rid) = (mm.filter (fun a => a.readId == rid)).map (renumMM g) := by
  rw [List.filter_map]
  rfl

theorem filter_aid_map (g : Nat → Nat) (hg : ∀ a b, g a = g b → a = b) (mm : List MMRec) (aid : Nat) (chr : String) :
    (mm.map (renumMM g)).filter (fun a => a.aid == g aid && a.chr == chr)
      = (mm.filter (fun a => a.aid == aid && a.chr == chr)).map (renumMM g) := by
  rw [List.filter_map]
  congr 1
  apply List.filter_congr
  intro a _
  have e : (g a.aid == g aid) = (a.aid == aid) := by
    by_cases h : a.aid = aid
    · rw [h]; simp
    · have : g a.aid ≠ g aid := fun h' => h (hg _ _ h')
      rw [beq_eq_false_iff_ne.2 this, beq_eq_false_iff_ne.2 h]
  show ((renumMM g a).aid == g aid && (renumMM g a).chr == chr) = (a.aid == aid && a.chr == chr)
  show ((g a.aid) == g aid && a.chr == chr) = (a.aid == aid && a.chr == chr)
  rw [e]

theorem matchOne_renumber (g : Nat → Nat) (hg : ∀ a b, g a = g b → a = b) (chr : String) (mm : List MMRec)
    (aid : Nat) (r : ReadRec) :
    matchOne chr (mm.map (renumMM g)) (g aid) r = matchOne chr mm aid r := by
  unfold matchOne
  simp only [filter_readId_map, filter_aid_map g hg, List.isEmpty_map, List.getLast?_map]
  cases h : ((mm.filter (fun a => a.readId == r.readId)).filter (fun a => a.aid == aid && a.chr == chr)).getLast? <;>
    simp [renumMM]

theorem loadBlock_renumber (g : Nat → Nat) (hg : ∀ a b, g a = g b → a = b) (chr : String) (mm : List MMRec)
    (ids : List (Nat × ReadRec)) :
    loadBlock chr (mm.map (renumMM g)) (renumIds g ids) = loadBlock chr mm ids := by
  unfold loadBlock renumIds
  induction ids with
  | nil => rfl
  | cons p ps ih =>
    simp only [List.map_cons, List.filterMap_cons, matchOne_renumber g hg]
    rw [ih]

theorem numberReads_shift (k c : Nat) : ∀ rs : List ReadRec,
    numberReads (c + k) rs = renumIds (· + k) (numberReads c rs)
  | [] => rfl
  | r :: rs => by
    have ih := numberReads_shift k (c + 1) rs
    have e : c + k + 1 = c + 1 + k := by omega
    simp only [numberReads, renumIds, List.map_cons, e]
    rw [ih]
    rfl
termination_by rs => rs.length

theorem collectBlocks_shift (k : Nat) : ∀ (bs : List Block) (st : WState),
    (collectBlocks { st with assignCtr := st.assignCtr + k } bs).1 = shiftSave k (collectBlocks st bs).1
  | [], st => rfl
  | b :: bs, st => by
    have ih := collectBlocks_shift k bs
      { st with assignCtr := st.assignCtr + b.reads.length, featCtr := st.featCtr + b.nFeatures }
    have e : st.assignCtr + k + b.reads.length = st.assignCtr + b.reads.length + k := by omega
    simp only [collectBlocks, shiftSave, List.map_cons, numberReads_shift, e]
    simp only [shiftSave] at ih
    rw [ih]

/-- the save file does not depend on the other components of the worker state -/
theorem collectBlocks_ctr_only : ∀ (bs : List Block) (st st' : WState), st.assignCtr = st'.assignCtr →
    (collectBlocks st bs).1 = (collectBlocks st' bs).1
  | [], _, _, _ => rfl
  | b :: bs, st, st', h => by
    have ih := collectBlocks_ctr_only bs
      { st with assignCtr := st.assignCtr + b.reads.length, featCtr := st.featCtr + b.nFeatures }
      { st' with assignCtr := st'.assignCtr + b.reads.length, featCtr := st'.featCtr + b.nFeatures } (by simp [h])
    simp only [collectBlocks]
    rw [ih, h]

theorem constructBlocks_detected_only (chr : String) (mm : List MMRec) : ∀ (sv : SaveFile) (st st' : WState),
    st.detected = st'.detected → (constructBlocks chr mm st sv).1 = (constructBlocks chr mm st' sv).1
  | [], _, _, _ => rfl
  | (b, ids) :: sv, st, st', h => by
    have ih := constructBlocks_detected_only chr mm sv
      { st with assignCtr := st.assignCtr + b.nAssign2, featCtr := st.featCtr + b.nFeatures,
                detected := (reportKnown st.detected b.known).2 }
      { st' with assignCtr := st'.assignCtr + b.nAssign2, featCtr := st'.featCtr + b.nFeatures,
                 detected := (reportKnown st'.detected b.known).2 } (by simp [h])
    simp only [constructBlocks]
    rw [ih, h]

/-- ids already in the set that do not occur among the candidates only ride along -/
theorem reportKnown_append (e : List String) : ∀ (ts d : List String), (∀ t, t ∈ ts → t ∉ e) →
    (reportKnown (d ++ e) ts).1 = (reportKnown d ts).1 ∧ (reportKnown (d ++ e) ts).2 = (reportKnown d ts).2 ++ e
  | [], d, _ => by simp [reportKnown]
  | t :: ts, d, h => by
    have ht : t ∉ e := h t (List.mem_cons_self)
    have hts : ∀ x, x ∈ ts → x ∉ e := fun x hx => h x (List.mem_cons_of_mem _ hx)
    have hc : (d ++ e).contains t = d.contains t := by
      by_cases hd : t ∈ d
      · have h1 : t ∈ d ++ e := List.mem_append_left _ hd
        simp [hd]
      · have h1 : t ∉ d ++ e := by simp [hd, ht]
        simp [hd, ht]
    unfold reportKnown
    rw [hc]
    by_cases hd : d.contains t = true
    · simp only [hd, if_true]
      exact reportKnown_append e ts d hts
    · have hd' : d.contains t = false := by simpa using hd
      simp only [hd', Bool.false_eq_true, if_false]
      have := reportKnown_append e ts (t :: d) hts
      simp only [List.cons_append] at this
      exact ⟨by rw [this.1], this.2⟩

theorem constructBlocks_append (chr : String) (mm : List MMRec) (e : List String) : ∀ (sv : SaveFile) (st : WState),
    (∀ p, p ∈ sv → ∀ t, t ∈ p.1.known → t ∉ e) →
    (constructBlocks chr mm { st with detected := st.detected ++ e } sv).1 = (constructBlocks chr mm st sv).1
  | [], _, _ => rfl
  | (b, ids) :: sv, st, h => by
    have hb : ∀ t, t ∈ b.known → t ∉ e := h (b, ids) List.mem_cons_self
    have hsv : ∀ p, p ∈ sv → ∀ t, t ∈ p.1.known → t ∉ e := fun p hp => h p (List.mem_cons_of_mem _ hp)
    obtain ⟨h1, h2⟩ := reportKnown_append e b.known st.detected hb
    simp only [constructBlocks, h1, h2]
    have := constructBlocks_append chr mm e sv
      { st with assignCtr := st.assignCtr + b.nAssign2, featCtr := st.featCtr + b.nFeatures,
                detected := (reportKnown st.detected b.known).2 } hsv
    simp only at this
    rw [this]

end IsoVerif.Lemmas.C06
