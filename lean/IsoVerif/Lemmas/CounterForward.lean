/-
Helper lemmas for C02 / forward_counts: the two loops as one pass over the (transcript, read) incidences, what the
pass leaves in the three accumulators, sums over the insertion-ordered dict of lists.  Core Lean only.
-/
import IsoVerif.Model.Counter
import IsoVerif.Model.CounterSpec
import IsoVerif.Lemmas.Counter
import IsoVerif.Lemmas.CounterSteps

set_option linter.unusedSectionVars false
set_option linter.unusedSimpArgs false

namespace IsoVerif.Lemmas.C02
open IsoVerif.Gen IsoVerif.Model.C02

variable {F : Type} [DecidableEq F] {R : Type} [DecidableEq R]

/-- both loops as one pass over the incidences -/
def fcInc : List (F × R) → List (R × Nat) → List (R × List F) → List (Event F) →
    List (R × Nat) × List (R × List F) × List (Event F)
  | [], cnt, amb, out => (cnt, amb, out)
  | (t, r) :: rest, cnt, amb, out =>
    if (ddGet cnt r).1 = 1 then fcInc rest (ddGet cnt r).2 amb (out ++ [Event.raw false [t]])
    else fcInc rest (ddGet cnt r).2 (ambAppend amb r t) out

theorem fcReads_eq (t : F) (rs : List R) (cnt : List (R × Nat)) (amb : List (R × List F)) (out : List (Event F)) :
    fcReads t rs cnt amb out = fcInc (rs.map (fun r => (t, r))) cnt amb out := by
  induction rs generalizing cnt amb out with
  | nil => simp [fcReads, fcInc]
  | cons r rs ih =>
    simp only [fcReads, List.map_cons, fcInc]
    split <;> simp [ih]

theorem fcInc_append (L1 L2 : List (F × R)) (cnt : List (R × Nat)) (amb : List (R × List F)) (out : List (Event F)) :
    fcInc (L1 ++ L2) cnt amb out =
      fcInc L2 (fcInc L1 cnt amb out).1 (fcInc L1 cnt amb out).2.1 (fcInc L1 cnt amb out).2.2 := by
  induction L1 generalizing cnt amb out with
  | nil => simp [fcInc]
  | cons p ps ih =>
    obtain ⟨t, r⟩ := p
    simp only [List.cons_append, fcInc]
    split <;> simp [ih]

theorem fcTranscripts_eq (tr : List (F × List R)) (cnt : List (R × Nat)) (amb : List (R × List F)) (out : List (Event F)) :
    fcTranscripts tr cnt amb out = fcInc (incidences tr) cnt amb out := by
  induction tr generalizing cnt amb out with
  | nil => simp [fcTranscripts, fcInc, incidences]
  | cons p ps ih =>
    obtain ⟨t, rs⟩ := p
    simp only [fcTranscripts, incidences, List.flatMap_cons]
    rw [fcInc_append, ← fcReads_eq]
    have := ih (fcReads t rs cnt amb out).1 (fcReads t rs cnt amb out).2.1 (fcReads t rs cnt amb out).2.2
    simp only [incidences] at this
    rw [← this]

/-- `defaultdict` lookups never change a stored value -/
theorem ddGet_fst (cnt : List (R × Nat)) (r : R) : (ddGet cnt r).1 = countOf cnt r := by
  induction cnt with
  | nil => simp [ddGet, countOf]
  | cons p ps ih =>
    obtain ⟨k, v⟩ := p
    by_cases hk : k = r
    · simp [ddGet, countOf, hk]
    · simp [ddGet, countOf, hk, ih]

theorem countOf_ddGet (cnt : List (R × Nat)) (r r' : R) : countOf (ddGet cnt r).2 r' = countOf cnt r' := by
  induction cnt with
  | nil =>
    by_cases h : r = r' <;> simp [ddGet, countOf, h]
  | cons p ps ih =>
    obtain ⟨k, v⟩ := p
    by_cases hk : k = r
    · simp [ddGet, hk]
    · by_cases hk' : k = r'
      · subst hk'
        simp [ddGet, countOf, hk]
      · simp [ddGet, countOf, hk, hk', ih]

/-! ### what the single pass produces -/

def ambFold (amb : List (R × List F)) (L : List (F × R)) : List (R × List F) :=
  L.foldl (fun a p => ambAppend a p.2 p.1) amb

theorem fcInc_spec (L : List (F × R)) (cnt : List (R × Nat)) (amb : List (R × List F)) (out : List (Event F)) :
    (fcInc L cnt amb out).2.2
        = out ++ (L.filter (fun p => countOf cnt p.2 = 1)).map (fun p => Event.raw false [p.1]) ∧
    (fcInc L cnt amb out).2.1 = ambFold amb (L.filter (fun p => ¬ countOf cnt p.2 = 1)) ∧
    (∀ r, countOf (fcInc L cnt amb out).1 r = countOf cnt r) := by
  induction L generalizing cnt amb out with
  | nil => simp [fcInc, ambFold]
  | cons p ps ih =>
    obtain ⟨t, r⟩ := p
    have hfun1 : (fun p : F × R => decide (countOf (ddGet cnt r).2 p.2 = 1)) = (fun p => decide (countOf cnt p.2 = 1)) := by
      funext p; rw [countOf_ddGet]
    have hfun2 : (fun p : F × R => decide (¬ countOf (ddGet cnt r).2 p.2 = 1)) = (fun p => decide (¬ countOf cnt p.2 = 1)) := by
      funext p; rw [countOf_ddGet]
    simp only [fcInc, ddGet_fst]
    by_cases h1 : countOf cnt r = 1
    · simp only [h1, if_true]
      obtain ⟨ih1, ih2, ih3⟩ := ih (ddGet cnt r).2 amb (out ++ [Event.raw false [t]])
      refine ⟨?_, ?_, ?_⟩
      · rw [ih1, hfun1]; simp [List.filter_cons, h1]
      · rw [ih2, hfun2]; simp [List.filter_cons, h1]
      · intro r'; rw [ih3, countOf_ddGet]
    · simp only [h1, if_false]
      obtain ⟨ih1, ih2, ih3⟩ := ih (ddGet cnt r).2 (ambAppend amb r t) out
      refine ⟨?_, ?_, ?_⟩
      · rw [ih1, hfun1]; simp [List.filter_cons, h1]
      · rw [ih2, hfun2]; simp [List.filter_cons, h1, ambFold]
      · intro r'; rw [ih3, countOf_ddGet]

/-! ### the insertion-ordered dict of lists -/

def ambGet (amb : List (R × List F)) (r : R) : List F :=
  match amb with
  | [] => []
  | (r', ts) :: rest => if r' = r then ts else ambGet rest r

theorem ambGet_append (amb : List (R × List F)) (r r' : R) (t : F) :
    ambGet (ambAppend amb r t) r' = ambGet amb r' ++ (if r = r' then [t] else []) := by
  induction amb with
  | nil => by_cases h : r = r' <;> simp [ambAppend, ambGet, h]
  | cons p ps ih =>
    obtain ⟨k, ts⟩ := p
    by_cases hk : k = r
    · subst hk
      by_cases h : k = r' <;> simp [ambAppend, ambGet, h]
    · by_cases h : k = r'
      · subst h
        have : ¬ r = k := fun e => hk e.symm
        simp [ambAppend, ambGet, hk, this]
      · simp [ambAppend, ambGet, hk, h, ih]

theorem keys_append (amb : List (R × List F)) (r : R) (t : F) :
    (ambAppend amb r t).map Prod.fst = if r ∈ amb.map Prod.fst then amb.map Prod.fst else amb.map Prod.fst ++ [r] := by
  induction amb with
  | nil => simp [ambAppend]
  | cons p ps ih =>
    obtain ⟨k, ts⟩ := p
    by_cases hk : k = r
    · subst hk; simp [ambAppend]
    · have : ¬ r = k := fun e => hk e.symm
      simp only [ambAppend, hk, if_false, List.map_cons, ih, List.mem_cons, this, false_or]
      split <;> simp

theorem ambFold_spec (L : List (F × R)) (amb : List (R × List F)) (hnd : (amb.map Prod.fst).Nodup) :
    ((ambFold amb L).map Prod.fst).Nodup ∧
    (∀ r, r ∈ (ambFold amb L).map Prod.fst ↔ r ∈ amb.map Prod.fst ∨ ∃ p ∈ L, p.2 = r) ∧
    (∀ r, ambGet (ambFold amb L) r = ambGet amb r ++ modelsOf L r) := by
  induction L generalizing amb with
  | nil => exact ⟨by simpa [ambFold] using hnd, by simp [ambFold], by simp [ambFold, modelsOf]⟩
  | cons p ps ih =>
    obtain ⟨t, r0⟩ := p
    have hnd' : ((ambAppend amb r0 t).map Prod.fst).Nodup := by
      rw [keys_append]
      split
      · exact hnd
      · rename_i hnot
        rw [List.nodup_append]
        refine ⟨hnd, by simp, ?_⟩
        intro a ha b hb
        simp only [List.mem_singleton] at hb
        subst hb
        intro e; subst e; exact hnot ha
    obtain ⟨h1, h2, h3⟩ := ih (ambAppend amb r0 t) hnd'
    simp only [ambFold, List.foldl_cons] at h1 h2 h3 ⊢
    refine ⟨h1, ?_, ?_⟩
    · intro r
      rw [h2 r, keys_append]
      by_cases hin : r0 ∈ amb.map Prod.fst
      · simp only [hin, if_true, List.mem_cons, exists_eq_or_imp]
        grind
      · simp only [hin, if_false, List.mem_append, List.mem_cons, exists_eq_or_imp]
        grind
    · intro r
      rw [h3 r, ambGet_append]
      by_cases h : r0 = r
      · subst h; simp [modelsOf, List.filter_cons]
      · simp [modelsOf, List.filter_cons, h]

/-! ### sums over the dict, partition by key -/

theorem ambGet_of_not_key (k : R) (ts : List F) (rest : List (R × List F)) (r : R) (h : ¬ k = r) :
    ambGet ((k, ts) :: rest) r = ambGet rest r := by simp [ambGet, h]

theorem ratSum_amb (amb : List (R × List F)) (hnd : (amb.map Prod.fst).Nodup) (H : R → List F → Rat) :
    ratSum (amb.map (fun p => H p.1 p.2)) = ratSum ((amb.map Prod.fst).map (fun r => H r (ambGet amb r))) := by
  induction amb with
  | nil => simp
  | cons p ps ih =>
    obtain ⟨k, ts⟩ := p
    simp only [List.map_cons, List.nodup_cons] at hnd
    simp only [List.map_cons, ratSum_cons, ih hnd.2]
    have h1 : ambGet ((k, ts) :: ps) k = ts := by simp [ambGet]
    have h2 : (ps.map Prod.fst).map (fun r => H r (ambGet ((k, ts) :: ps) r))
        = (ps.map Prod.fst).map (fun r => H r (ambGet ps r)) := by
      apply List.map_congr_left
      intro r hr
      have : ¬ k = r := fun e => hnd.1 (e ▸ hr)
      rw [ambGet_of_not_key k ts ps r this]
    rw [h1, h2]

omit [DecidableEq F] in
theorem ratSum_partition (L : List (F × R)) (K : List R) (hK : K.Nodup) (hcov : ∀ p ∈ L, p.2 ∈ K)
    (g : F × R → Rat) :
    ratSum (L.map g) = ratSum (K.map (fun r => ratSum ((L.filter (fun p => p.2 = r)).map g))) := by
  induction L with
  | nil =>
    simp only [List.map_nil, ratSum_nil, List.filter_nil]
    exact (ratSum_map_zero K _ (fun _ _ => rfl)).symm
  | cons p ps ih =>
    have hp := hcov p (by simp)
    have ih' := ih (fun q hq => hcov q (by simp [hq]))
    have : K.map (fun r => ratSum (((p :: ps).filter (fun q => q.2 = r)).map g))
        = K.map (fun r => (if p.2 = r then g p else 0) + ratSum ((ps.filter (fun q => q.2 = r)).map g)) := by
      apply List.map_congr_left
      intro r _
      by_cases h : p.2 = r
      · simp [List.filter_cons, h]
      · simp [List.filter_cons, h, Rat.zero_add]
    rw [this, ratSum_map_add, ← ih']
    have hind : K.map (fun r => if p.2 = r then g p else 0) = K.map (fun r => (if p.2 = r then (1 : Rat) else 0) * g p) := by
      apply List.map_congr_left
      intro r _
      by_cases h : p.2 = r <;> simp [h, Rat.one_mul, Rat.zero_mul]
    rw [hind, ratSum_map_mul_right, indicator_sum K hK p.2]
    simp [hp, Rat.one_mul]

omit [DecidableEq R] in
theorem ratSum_group (M : List (F × R)) (f : F) (W : Rat) :
    ratSum (M.map (fun p => if p.1 = f then W else 0)) = cnt (M.map Prod.fst) f * W := by
  induction M with
  | nil => simp [cnt_nil, Rat.zero_mul]
  | cons p ps ih =>
    simp only [List.map_cons, ratSum_cons, ih, cnt_cons]
    by_cases h : p.1 = f <;> simp [h] <;> grind

omit [DecidableEq F] [DecidableEq R] in
theorem ratSum_filter_split (L : List (F × R)) (P : F × R → Prop) [DecidablePred P] (h : F × R → Rat) :
    ratSum (L.map h) = ratSum ((L.filter (fun p => P p)).map h) + ratSum ((L.filter (fun p => ¬ P p)).map h) := by
  induction L with
  | nil => simp [Rat.add_zero]
  | cons p ps ih =>
    by_cases hp : P p
    · simp [List.filter_cons, hp, ih]; grind
    · simp [List.filter_cons, hp, ih]; grind

theorem run_noRead (s : CountingStrategy) (lvl : Level) (es : List (Event F)) (h : ∀ e ∈ es, noRead e = true)
    (st0 : CState F) : ∃ st, run s lvl st0 es = some st := by
  induction es generalizing st0 with
  | nil => exact ⟨st0, rfl⟩
  | cons e es ih =>
    have he := h e (by simp)
    have hes : ∀ e' ∈ es, noRead e' = true := fun e' he' => h e' (List.mem_cons_of_mem _ he')
    cases e with
    | read a => simp [noRead] at he
    | raw noId fs => simp only [run, step]; exact ih hes _
    | unassigned n => simp only [run, step]; exact ih hes _
    | unaligned n => simp only [run, step]; exact ih hes _
    | confirm fs => simp only [run, step]; exact ih hes _

theorem forwardCounts_noRead (tr : List (F × List R)) (rc : List (R × Nat)) (models : List F) :
    ∀ e ∈ forwardCounts tr rc models, noRead e = true := by
  intro e he
  unfold forwardCounts at he
  rw [fcTranscripts_eq] at he
  obtain ⟨hout, _, _⟩ := fcInc_spec (incidences tr) rc ([] : List (R × List F)) ([] : List (Event F))
  simp only [hout, List.nil_append, List.mem_append, List.mem_map, List.mem_cons, List.not_mem_nil, or_false] at he
  rcases he with (⟨p, _, rfl⟩ | ⟨p, _, rfl⟩) | rfl | rfl <;> rfl

theorem ddGet_snd_of_mem (rc : List (R × Nat)) (r : R) (h : r ∈ rc.map Prod.fst) : (ddGet rc r).2 = rc := by
  induction rc with
  | nil => simp at h
  | cons p ps ih =>
    obtain ⟨k, v⟩ := p
    by_cases hk : k = r
    · simp [ddGet, hk]
    · simp only [List.map_cons, List.mem_cons] at h
      have hr : r ∈ ps.map Prod.fst := by
        rcases h with h | h
        · exact absurd h.symm hk
        · exact h
      simp [ddGet, hk, ih hr]

theorem fcInc_counts_unchanged (L : List (F × R)) (rc : List (R × Nat)) (amb : List (R × List F)) (out : List (Event F))
    (hkeys : ∀ p ∈ L, p.2 ∈ rc.map Prod.fst) : (fcInc L rc amb out).1 = rc := by
  induction L generalizing amb out with
  | nil => simp [fcInc]
  | cons p ps ih =>
    obtain ⟨t, r⟩ := p
    have hr := hkeys (t, r) (by simp)
    have hps : ∀ p ∈ ps, p.2 ∈ rc.map Prod.fst := fun q hq => hkeys q (by simp [hq])
    simp only [fcInc, ddGet_snd_of_mem rc r hr]
    split
    · exact ih _ _ hps
    · exact ih _ _ hps

theorem ambAppend_nonempty (amb : List (R × List F)) (r : R) (t : F) (h : ∀ p ∈ amb, p.2 ≠ []) :
    ∀ p ∈ ambAppend amb r t, p.2 ≠ [] := by
  induction amb with
  | nil => simp [ambAppend]
  | cons q qs ih =>
    obtain ⟨k, ts⟩ := q
    have hq := h (k, ts) (by simp)
    have hqs : ∀ p ∈ qs, p.2 ≠ [] := fun p hp => h p (by simp [hp])
    by_cases hk : k = r
    · simp only [ambAppend, hk, if_true, List.mem_cons]
      rintro p (rfl | hp)
      · simp
      · exact hqs p hp
    · simp only [ambAppend, hk, if_false, List.mem_cons]
      rintro p (rfl | hp)
      · exact hq
      · exact ih hqs p hp

theorem ambFold_nonempty (L : List (F × R)) (amb : List (R × List F)) (h : ∀ p ∈ amb, p.2 ≠ []) :
    ∀ p ∈ ambFold amb L, p.2 ≠ [] := by
  induction L generalizing amb with
  | nil => simpa [ambFold] using h
  | cons q qs ih =>
    simp only [ambFold, List.foldl_cons]
    exact ih _ (ambAppend_nonempty amb q.2 q.1 h)

end IsoVerif.Lemmas.C02
