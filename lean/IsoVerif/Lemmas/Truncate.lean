import IsoVerif.Lemmas.Split
import IsoVerif.Lemmas.Exons
import IsoVerif.Lemmas.MergeSorted

/-! `truncate_read_to_polya` (no caller in the pipeline): single-sided truncations. -/
namespace IsoVerif.Lemmas
open IsoVerif.Gen IsoVerif.Model

theorem endIndexLoop_skip (P : Int) (xs ys : List Iv) (i : Int) (h : ∀ x ∈ xs, P ≤ x.1) :
    endIndexLoop P (xs ++ ys) i = endIndexLoop P ys (i - xs.length) := by
  induction xs generalizing i with
  | nil => simp
  | cons x t ih =>
    have hx := h x (by simp)
    have hn : ¬ x.1 < P := by omega
    simp only [List.cons_append, endIndexLoop, hn, if_false, List.length_cons]
    rw [ih _ (fun y hy => h y (List.mem_cons_of_mem _ hy))]
    congr 1; omega

theorem endIndex_eq (pre post : List Iv) (e : Iv) (P : Int) (he : e.1 < P) (hpost : ∀ x ∈ post, P ≤ x.1) :
    endIndexLoop P (pre ++ e :: post).reverse (((pre ++ e :: post).length : Int) - 1) = pre.length := by
  have : (pre ++ e :: post).reverse = post.reverse ++ (e :: pre.reverse) := by simp
  rw [this, endIndexLoop_skip P _ _ _ (by simpa using hpost)]
  simp only [endIndexLoop, he, if_true]
  simp; omega

theorem truncate_polya_eq (pre post : List Iv) (e : Iv) (P : Int) (hP : P ≠ -1) (he : e.1 < P)
    (hpost : ∀ x ∈ post, P ≤ x.1) (t : Iv) (ht : (pre ++ e :: post).getLast? = some t) (hne : P ≠ t.2) :
    truncateReadToPolya (pre ++ e :: post) P (-1) = some (pre ++ [(e.1, P)]) := by
  have h1 : (P != -1) = true := by simpa using hP
  have h2 : ((-1 : Int) != -1) = false := by decide
  cases pre with
  | nil =>
    have hei := endIndex_eq [] post e P he hpost
    simp only [List.nil_append, List.length_nil] at hei ht ⊢
    simp only [truncateReadToPolya, List.head?_cons, ht, h1, h2, if_true, hei]
    simp [hne]
  | cons s pre' =>
    have hei := endIndex_eq (s :: pre') post e P he hpost
    simp only [List.cons_append] at hei ht ⊢
    simp only [truncateReadToPolya, List.head?_cons, ht, h1, h2, if_true, hei]
    have hg0 : pyGet? (s :: (pre' ++ e :: post)) 0 = some s := by simp [pyGet?]
    have hgk : pyGet? (s :: (pre' ++ e :: post)) ((s :: pre').length : Int) = some e := by
      rw [pyGet?_nat]; simp
    have hsl : pySlice (s :: (pre' ++ e :: post)) (0 + 1) ((s :: pre').length : Int) = pre' := by
      have e1 : ¬ ((0 : Int) + 1 < 0) := by omega
      have e2 : ¬ (((s :: pre').length : Int) < 0) := by omega
      simp only [pySlice, e1, e2, if_false]
      have e3 : (min ((0 : Int) + 1) ((s :: (pre' ++ e :: post)).length : Int)).toNat = 1 := by
        simp only [List.length_cons, List.length_append]; omega
      have e4 : (min (((s :: pre').length : Nat) : Int) ((s :: (pre' ++ e :: post)).length : Int)).toNat
          = pre'.length + 1 := by
        simp only [List.length_cons, List.length_append]; omega
      rw [e3, e4]
      simp
    have hk : ¬ ((0 : Int) = ((s :: pre').length : Int)) := by simp only [List.length_cons]; omega
    simp only [Bool.false_eq_true, if_false, hne, and_false, hk, hg0, hgk, hsl]
    simp

/-! ### list facts about `SD` and `++` -/

theorem SD_append_right (pre l : List Iv) (h : SD (pre ++ l)) : SD l := by
  induction pre with
  | nil => exact h
  | cons x t ih => exact ih (SD_tail h)

theorem SD_append_left_lt (pre post : List Iv) (e : Iv) (h : SD (pre ++ e :: post)) (w : WFl pre) :
    ∀ x ∈ pre, x.2 < e.1 := by
  induction pre with
  | nil => intro x hx; cases hx
  | cons y t ih =>
    intro x hx
    have hall := ih (SD_tail h) (WFl_tail w)
    cases t with
    | nil => simp at hx; subst hx; exact h.1
    | cons z t' =>
      rcases List.mem_cons.mp hx with rfl | hx'
      · have := hall z (by simp); have := h.1; have := w z (by simp); simp only [List.cons_append] at *; omega
      · exact hall x hx'

theorem SD_append_replace (pre post : List Iv) (e e' : Iv) (h : SD (pre ++ e :: post)) (he : e'.1 = e.1) :
    SD (pre ++ [e']) := by
  induction pre with
  | nil => trivial
  | cons x t ih =>
    cases t with
    | nil => exact ⟨by rw [he]; exact h.1, trivial⟩
    | cons y t' => exact ⟨h.1, ih h.2⟩

theorem WFl_append {l1 l2 : List Iv} (h1 : WFl l1) (h2 : WFl l2) : WFl (l1 ++ l2) := by
  intro r hr
  rcases List.mem_append.mp hr with h | h
  · exact h1 r h
  · exact h2 r h

theorem mem_of_getLast? {α} {l : List α} {t : α} (h : l.getLast? = some t) : t ∈ l :=
  List.mem_of_getLast? h

/-- polyA-side truncation at a position `P` whose predecessor `P − 1` is a read position (so `P` lies inside an exon
    or directly behind one): the result keeps the read positions `≤ P`, plus `P` itself -/
theorem truncate_polya_aux (exons : List Iv) (f t : Iv) (P : Int) (h : SD exons) (w : WFl exons)
    (hf : exons.head? = some f) (ht : exons.getLast? = some t) (hP : P ≠ -1) (hin : cov exons (P - 1)) :
    ∃ res, truncateReadToPolya exons P (-1) = some res ∧ SD res ∧ WFl res ∧
      res.head?.map (·.1) = some f.1 ∧ res.getLast?.map (·.2) = some P ∧
      ∀ p, cov res p ↔ (p ≤ P ∧ cov exons p) ∨ p = P := by
  by_cases hid : P = t.2
  · refine ⟨exons, ?_, h, w, by simp [hf], by simp [ht, hid], fun p => ?_⟩
    · simp [truncateReadToPolya, hf, ht, hid]
    · constructor
      · rintro ⟨r, hr, hr1, hr2⟩
        have := SD_le_last h w t ht r hr
        exact Or.inl ⟨by omega, r, hr, hr1, hr2⟩
      · rintro (⟨_, hc⟩ | rfl)
        · exact hc
        · have htm := mem_of_getLast? ht
          exact ⟨t, htm, by have := w t htm; omega, by omega⟩
  · obtain ⟨e, he, he1, he2⟩ := hin
    obtain ⟨pre, post, rfl⟩ := List.append_of_mem he
    have hwpre : WFl pre := fun r hr => w r (by simp [hr])
    have hsd_e : SD (e :: post) := SD_append_right pre _ h
    have hw_e : WFl (e :: post) := fun r hr => w r (by simp at hr ⊢; rcases hr with h | h <;> simp [h])
    have hpost : ∀ x ∈ post, e.2 < x.1 := SD_all_right hsd_e hw_e
    have hpre : ∀ x ∈ pre, x.2 < e.1 := SD_append_left_lt pre post e h hwpre
    refine ⟨pre ++ [(e.1, P)], ?_, SD_append_replace pre post e _ h rfl, ?_, ?_, by simp, fun p => ?_⟩
    · exact truncate_polya_eq pre post e P hP (by omega) (fun x hx => by have := hpost x hx; omega) t ht hid
    · exact WFl_append hwpre (fun r hr => by simp at hr; subst hr; simp only; omega)
    · cases pre with
      | nil => simp at hf ⊢; rw [← hf]
      | cons s pre' => simp at hf ⊢; rw [← hf]
    · rw [cov_append, cov_cons, cov_append, cov_cons]
      simp only [cov_nil, or_false]
      constructor
      · rintro (⟨r, hr, hr1, hr2⟩ | ⟨h1, h2⟩)
        · have := hpre r hr
          exact Or.inl ⟨by omega, Or.inl ⟨r, hr, hr1, hr2⟩⟩
        · by_cases hpe : p ≤ e.2
          · exact Or.inl ⟨h2, Or.inr (Or.inl ⟨h1, hpe⟩)⟩
          · right; omega
      · rintro (⟨h1, hc | hc | ⟨r, hr, hr1, hr2⟩⟩ | rfl)
        · exact Or.inl hc
        · exact Or.inr ⟨hc.1, h1⟩
        · have := hpost r hr; right; exact ⟨by omega, h1⟩
        · right; exact ⟨by omega, by omega⟩

/-! ### polyT side -/

theorem startIndexLoop_skip (T endIndex : Int) (xs ys : List Iv) (i : Int) (h : ∀ x ∈ xs, x.2 ≤ T)
    (hi : i + xs.length ≤ endIndex + 1) :
    startIndexLoop T endIndex (xs ++ ys) i = startIndexLoop T endIndex ys (i + xs.length) := by
  induction xs generalizing i with
  | nil => simp
  | cons x t ih =>
    have hx := h x (by simp)
    have hn : ¬ x.2 > T := by omega
    simp only [List.length_cons] at hi
    have hle : i ≤ endIndex := by omega
    simp only [List.cons_append, startIndexLoop, hn, hle, if_true, if_false, List.length_cons]
    rw [ih _ (fun y hy => h y (List.mem_cons_of_mem _ hy)) (by omega)]
    congr 1; omega

theorem startIndex_eq (pre post : List Iv) (e : Iv) (T : Int) (he : T < e.2) (hpre : ∀ x ∈ pre, x.2 ≤ T) :
    startIndexLoop T (((pre ++ e :: post).length : Int) - 1) (pre ++ e :: post) 0 = pre.length := by
  rw [startIndexLoop_skip T _ pre _ 0 hpre (by simp only [List.length_append, List.length_cons]; omega)]
  have h1 : (0 : Int) + (pre.length : Int) ≤ ((pre ++ e :: post).length : Int) - 1 := by
    simp only [List.length_append, List.length_cons]; omega
  have h2 : e.2 > T := he
  simp only [startIndexLoop, h1, h2, if_true]
  omega

theorem nil_or_snoc {α} (l : List α) : l = [] ∨ ∃ m x, l = m ++ [x] := by
  rcases List.eq_nil_or_concat l with h | ⟨m, x, h⟩
  · exact Or.inl h
  · exact Or.inr ⟨m, x, by rw [h, List.concat_eq_append]⟩

theorem getLast?_snoc3 {α} (pre mid : List α) (e t : α) : (pre ++ e :: (mid ++ [t])).getLast? = some t := by
  have : pre ++ e :: (mid ++ [t]) = (pre ++ e :: mid) ++ [t] := by simp
  rw [this, List.getLast?_concat]

theorem truncate_polyt_eq (pre post : List Iv) (e : Iv) (T : Int) (hT : T ≠ -1) (he : T < e.2)
    (hpre : ∀ x ∈ pre, x.2 ≤ T) (f : Iv) (hf : (pre ++ e :: post).head? = some f) (hne : T ≠ f.1) :
    truncateReadToPolya (pre ++ e :: post) (-1) T = some ((T, e.2) :: post) := by
  have h1 : (T != -1) = true := by simpa using hT
  have h2 : ((-1 : Int) != -1) = false := by decide
  have hsi := startIndex_eq pre post e T he hpre
  obtain ⟨t, ht⟩ : ∃ t, (pre ++ e :: post).getLast? = some t :=
    ⟨(pre ++ e :: post).getLast (by simp), List.getLast?_eq_some_getLast (by simp)⟩
  simp only [truncateReadToPolya, hf, ht, h1, h2, if_true, Bool.false_eq_true, if_false, hsi, hne, false_and]
  rcases nil_or_snoc post with rfl | ⟨mid, t', rfl⟩
  · have hte : t = e := by simp at ht; exact ht.symm
    subst hte
    simp
  · have hte : t = t' := by
      rw [getLast?_snoc3] at ht; injection ht with ht; exact ht.symm
    subst hte
    have hk : ¬ ((pre.length : Int) = ((pre ++ e :: (mid ++ [t])).length : Int) - 1) := by
      simp only [List.length_append, List.length_cons, List.length_nil]; omega
    have hg1 : pyGet? (pre ++ e :: (mid ++ [t])) (pre.length : Int) = some e := by
      rw [pyGet?_nat]; simp
    have hg2 : pyGet? (pre ++ e :: (mid ++ [t])) (((pre ++ e :: (mid ++ [t])).length : Int) - 1) = some t := by
      have e1 : ((pre ++ e :: (mid ++ [t])).length : Int) - 1 = (((pre ++ e :: (mid ++ [t])).length - 1 : Nat) : Int) := by
        simp only [List.length_append, List.length_cons, List.length_nil]; omega
      rw [e1, pyGet?_nat]
      exact getElem?_last _ _ ht
    have hsl : pySlice (pre ++ e :: (mid ++ [t])) ((pre.length : Int) + 1)
        (((pre ++ e :: (mid ++ [t])).length : Int) - 1) = mid := by
      have e1 : ¬ ((pre.length : Int) + 1 < 0) := by omega
      have e2 : ¬ (((pre ++ e :: (mid ++ [t])).length : Int) - 1 < 0) := by
        simp only [List.length_append, List.length_cons, List.length_nil]; omega
      simp only [pySlice, e1, e2, if_false]
      have e3 : (min ((pre.length : Int) + 1) ((pre ++ e :: (mid ++ [t])).length : Int)).toNat = pre.length + 1 := by
        simp only [List.length_append, List.length_cons, List.length_nil]; omega
      have e4 : (min (((pre ++ e :: (mid ++ [t])).length : Int) - 1) ((pre ++ e :: (mid ++ [t])).length : Int)).toNat
          = pre.length + 1 + mid.length := by
        simp only [List.length_append, List.length_cons, List.length_nil]; omega
      rw [e3, e4]
      have : pre ++ e :: (mid ++ [t]) = (pre ++ [e]) ++ (mid ++ [t]) := by simp
      rw [this, List.drop_left' (by simp)]
      have : pre.length + 1 + mid.length - (pre.length + 1) = mid.length := by omega
      rw [this, List.take_left' rfl]
    simp only [hk, if_false, hg1, hg2, hsl]
    simp

theorem SD_replace_head (e e' : Iv) (post : List Iv) (h : SD (e :: post)) (he : e'.2 = e.2) : SD (e' :: post) := by
  cases post with
  | nil => trivial
  | cons y t => exact ⟨by rw [he]; exact h.1, h.2⟩

/-- polyT-side truncation at a position `T` whose successor `T + 1` is a read position: the result keeps the read
    positions `≥ T`, plus `T` itself -/
theorem truncate_polyt_aux (exons : List Iv) (f t : Iv) (T : Int) (h : SD exons) (w : WFl exons)
    (hf : exons.head? = some f) (ht : exons.getLast? = some t) (hT : T ≠ -1) (hin : cov exons (T + 1)) :
    ∃ res, truncateReadToPolya exons (-1) T = some res ∧ SD res ∧ WFl res ∧
      res.head?.map (·.1) = some T ∧ res.getLast?.map (·.2) = some t.2 ∧
      ∀ p, cov res p ↔ (T ≤ p ∧ cov exons p) ∨ p = T := by
  by_cases hid : T = f.1
  · refine ⟨exons, ?_, h, w, by simp [hf, hid], by simp [ht], fun p => ?_⟩
    · simp [truncateReadToPolya, hf, ht, hid]
    · have hne : exons ≠ [] := by intro e; simp [e] at hf
      obtain ⟨rest, hrest⟩ : ∃ rest, exons = f :: rest := by
        cases exons with
        | nil => exact absurd rfl hne
        | cons a rest => simp at hf; subst hf; exact ⟨rest, rfl⟩
      subst hrest
      constructor
      · rintro ⟨r, hr, hr1, hr2⟩
        have := SD_head_le h w r hr
        exact Or.inl ⟨by omega, r, hr, hr1, hr2⟩
      · rintro (⟨_, hc⟩ | rfl)
        · exact hc
        · exact ⟨f, by simp, by omega, by have := WFl_head w; omega⟩
  · obtain ⟨e, he, he1, he2⟩ := hin
    obtain ⟨pre, post, rfl⟩ := List.append_of_mem he
    have hwpre : WFl pre := fun r hr => w r (by simp [hr])
    have hsd_e : SD (e :: post) := SD_append_right pre _ h
    have hw_e : WFl (e :: post) := fun r hr => w r (by simp at hr ⊢; rcases hr with h | h <;> simp [h])
    have hpost : ∀ x ∈ post, e.2 < x.1 := SD_all_right hsd_e hw_e
    have hpre : ∀ x ∈ pre, x.2 < e.1 := SD_append_left_lt pre post e h hwpre
    refine ⟨(T, e.2) :: post, ?_, SD_replace_head e _ post hsd_e rfl, ?_, by simp, ?_, fun p => ?_⟩
    · exact truncate_polyt_eq pre post e T hT (by omega) (fun x hx => by have := hpre x hx; omega) f hf hid
    · exact WFl_cons (by simp only; omega) (WFl_tail hw_e)
    · rcases nil_or_snoc post with rfl | ⟨mid, t', rfl⟩
      · simp at ht ⊢; rw [← ht]
      · rw [getLast?_snoc3] at ht; injection ht with ht; subst ht
        have := getLast?_snoc3 ([] : List Iv) mid (T, e.2) t'
        simp only [List.nil_append] at this
        rw [this]; rfl
    · rw [cov_cons, cov_append, cov_cons]
      simp only
      constructor
      · rintro (⟨h1, h2⟩ | ⟨r, hr, hr1, hr2⟩)
        · by_cases hpe : e.1 ≤ p
          · exact Or.inl ⟨h1, Or.inr (Or.inl ⟨hpe, h2⟩)⟩
          · right; omega
        · have := hpost r hr
          exact Or.inl ⟨by omega, Or.inr (Or.inr ⟨r, hr, hr1, hr2⟩)⟩
      · rintro (⟨h1, ⟨r, hr, hr1, hr2⟩ | hc | hc⟩ | rfl)
        · have := hpre r hr; left; exact ⟨h1, by omega⟩
        · exact Or.inl ⟨h1, hc.2⟩
        · exact Or.inr hc
        · left; exact ⟨by omega, by omega⟩

/-! ### any tail position behind the first base / before the last base -/

/-- the last exon starting before `P` -/
theorem split_at_polya (exons : List Iv) (f : Iv) (P : Int) (h : SD exons) (w : WFl exons)
    (hf : exons.head? = some f) (hP : f.1 < P) :
    ∃ pre e post, exons = pre ++ e :: post ∧ e.1 < P ∧ ∀ x ∈ post, P ≤ x.1 := by
  induction exons generalizing f with
  | nil => simp at hf
  | cons a rest ih =>
    simp at hf; subst hf
    cases rest with
    | nil => exact ⟨[], a, [], rfl, hP, fun x hx => by cases hx⟩
    | cons b rest' =>
      by_cases hb : b.1 < P
      · obtain ⟨pre, e, post, heq, he, hpost⟩ := ih b (SD_tail h) (WFl_tail w) rfl hb
        exact ⟨a :: pre, e, post, by rw [heq]; rfl, he, hpost⟩
      · refine ⟨[], a, b :: rest', rfl, hP, fun x hx => ?_⟩
        have := SD_head_le (SD_tail h) (WFl_tail w) x hx
        omega

/-- the first exon ending behind `T` -/
theorem split_at_polyt (exons : List Iv) (t : Iv) (T : Int) (ht : exons.getLast? = some t) (hT : T < t.2) :
    ∃ pre e post, exons = pre ++ e :: post ∧ T < e.2 ∧ ∀ x ∈ pre, x.2 ≤ T := by
  induction exons with
  | nil => simp at ht
  | cons a rest ih =>
    by_cases ha : T < a.2
    · exact ⟨[], a, rest, rfl, ha, fun x hx => by cases hx⟩
    · cases rest with
      | nil => simp at ht; subst ht; exact absurd hT ha
      | cons b rest' =>
        obtain ⟨pre, e, post, heq, he, hpre⟩ := ih (by simpa [List.getLast?_cons_cons] using ht)
        refine ⟨a :: pre, e, post, by rw [heq]; rfl, he, fun x hx => ?_⟩
        rcases List.mem_cons.mp hx with rfl | hx'
        · omega
        · exact hpre x hx'

/-- polyA-side truncation at any `P` behind the first base of the read: all read positions `≤ P` are kept, the result
    spans `[read start, P]`, and the only other positions it covers lie in the stretch between the end of the last
    exon starting before `P` and `P` -/
theorem truncate_polya_span_aux (exons : List Iv) (f t : Iv) (P : Int) (h : SD exons) (w : WFl exons)
    (hf : exons.head? = some f) (ht : exons.getLast? = some t) (hP : P ≠ -1) (hin : f.1 < P) :
    ∃ res, truncateReadToPolya exons P (-1) = some res ∧ SD res ∧ WFl res ∧
      res.head?.map (·.1) = some f.1 ∧ res.getLast?.map (·.2) = some P ∧
      (∀ p, p ≤ P → cov exons p → cov res p) ∧
      (∀ p, cov res p → p ≤ P ∧ (cov exons p ∨ ∀ e ∈ exons, e.1 < P → e.2 < p)) := by
  by_cases hid : P = t.2
  · refine ⟨exons, ?_, h, w, by simp [hf], by simp [ht, hid], fun p _ hc => hc, fun p hc => ?_⟩
    · simp [truncateReadToPolya, hf, ht, hid]
    · obtain ⟨r, hr, hr1, hr2⟩ := hc
      have := SD_le_last h w t ht r hr
      exact ⟨by omega, Or.inl ⟨r, hr, hr1, hr2⟩⟩
  · obtain ⟨pre, e, post, rfl, he, hpostP⟩ := split_at_polya exons f P h w hf hin
    have hwpre : WFl pre := fun r hr => w r (by simp [hr])
    have hsd_e : SD (e :: post) := SD_append_right pre _ h
    have hw_e : WFl (e :: post) := fun r hr => w r (by simp at hr ⊢; rcases hr with h | h <;> simp [h])
    have hpost : ∀ x ∈ post, e.2 < x.1 := SD_all_right hsd_e hw_e
    have hpre : ∀ x ∈ pre, x.2 < e.1 := SD_append_left_lt pre post e h hwpre
    refine ⟨pre ++ [(e.1, P)], ?_, SD_append_replace pre post e _ h rfl, ?_, ?_, by simp, fun p hpP hc => ?_,
      fun p hc => ?_⟩
    · exact truncate_polya_eq pre post e P hP he hpostP t ht hid
    · exact WFl_append hwpre (fun r hr => by simp at hr; subst hr; simp only; omega)
    · cases pre with
      | nil => simp at hf ⊢; rw [← hf]
      | cons s pre' => simp at hf ⊢; rw [← hf]
    · rw [cov_append, cov_cons] at hc ⊢
      simp only [cov_nil, or_false]
      rcases hc with hc | hc | ⟨r, hr, hr1, hr2⟩
      · exact Or.inl hc
      · exact Or.inr ⟨hc.1, hpP⟩
      · have := hpostP r hr; right; exact ⟨by omega, hpP⟩
    · rw [cov_append, cov_cons] at hc
      simp only [cov_nil, or_false] at hc
      rcases hc with ⟨r, hr, hr1, hr2⟩ | ⟨h1, h2⟩
      · have := hpre r hr
        exact ⟨by omega, Or.inl ⟨r, by simp [hr], hr1, hr2⟩⟩
      · refine ⟨h2, ?_⟩
        by_cases hpe : p ≤ e.2
        · exact Or.inl ⟨e, by simp, h1, hpe⟩
        · right
          intro x hx hxP
          rcases List.mem_append.mp hx with hx' | hx'
          · have := hpre x hx'; omega
          · rcases List.mem_cons.mp hx' with rfl | hx''
            · omega
            · have := hpostP x hx''; omega

/-- polyT-side truncation at any `T` before the last base of the read -/
theorem truncate_polyt_span_aux (exons : List Iv) (f t : Iv) (T : Int) (h : SD exons) (w : WFl exons)
    (hf : exons.head? = some f) (ht : exons.getLast? = some t) (hT : T ≠ -1) (hin : T < t.2) :
    ∃ res, truncateReadToPolya exons (-1) T = some res ∧ SD res ∧ WFl res ∧
      res.head?.map (·.1) = some T ∧ res.getLast?.map (·.2) = some t.2 ∧
      (∀ p, T ≤ p → cov exons p → cov res p) ∧
      (∀ p, cov res p → T ≤ p ∧ (cov exons p ∨ ∀ e ∈ exons, T < e.2 → p < e.1)) := by
  by_cases hid : T = f.1
  · refine ⟨exons, ?_, h, w, by simp [hf, hid], by simp [ht], fun p _ hc => hc, fun p hc => ?_⟩
    · simp [truncateReadToPolya, hf, ht, hid]
    · obtain ⟨rest, hrest⟩ : ∃ rest, exons = f :: rest := by
        cases exons with
        | nil => simp at hf
        | cons a rest => simp at hf; subst hf; exact ⟨rest, rfl⟩
      subst hrest
      obtain ⟨r, hr, hr1, hr2⟩ := hc
      have := SD_head_le h w r hr
      exact ⟨by omega, Or.inl ⟨r, hr, hr1, hr2⟩⟩
  · obtain ⟨pre, e, post, rfl, he, hpreT⟩ := split_at_polyt exons t T ht hin
    have hwpre : WFl pre := fun r hr => w r (by simp [hr])
    have hsd_e : SD (e :: post) := SD_append_right pre _ h
    have hw_e : WFl (e :: post) := fun r hr => w r (by simp at hr ⊢; rcases hr with h | h <;> simp [h])
    have hpost : ∀ x ∈ post, e.2 < x.1 := SD_all_right hsd_e hw_e
    refine ⟨(T, e.2) :: post, ?_, SD_replace_head e _ post hsd_e rfl, ?_, by simp, ?_, fun p hTp hc => ?_,
      fun p hc => ?_⟩
    · exact truncate_polyt_eq pre post e T hT he hpreT f hf hid
    · exact WFl_cons (by simp only; omega) (WFl_tail hw_e)
    · rcases nil_or_snoc post with rfl | ⟨mid, t', rfl⟩
      · simp at ht ⊢; rw [← ht]
      · rw [getLast?_snoc3] at ht; injection ht with ht; subst ht
        have := getLast?_snoc3 ([] : List Iv) mid (T, e.2) t'
        simp only [List.nil_append] at this
        rw [this]; rfl
    · rw [cov_append, cov_cons] at hc
      rw [cov_cons]
      simp only
      rcases hc with ⟨r, hr, hr1, hr2⟩ | hc | hc
      · have := hpreT r hr; left; exact ⟨hTp, by omega⟩
      · exact Or.inl ⟨hTp, hc.2⟩
      · exact Or.inr hc
    · rw [cov_cons] at hc
      simp only at hc
      rcases hc with ⟨h1, h2⟩ | ⟨r, hr, hr1, hr2⟩
      · refine ⟨h1, ?_⟩
        by_cases hpe : e.1 ≤ p
        · exact Or.inl ⟨e, by simp, hpe, h2⟩
        · right
          intro x hx hxT
          rcases List.mem_append.mp hx with hx' | hx'
          · have := hpreT x hx'; omega
          · rcases List.mem_cons.mp hx' with rfl | hx''
            · omega
            · have := hpost x hx''; omega
      · have := hpost r hr
        exact ⟨by omega, Or.inl ⟨r, by simp [hr], hr1, hr2⟩⟩

end IsoVerif.Lemmas
