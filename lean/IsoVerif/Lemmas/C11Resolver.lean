/-
C11 helper lemmas — translation `x ↦ x + k` of Model/Resolver.lean (C08): every step of `MultimapResolver.resolve`
commutes with `shiftRec k` (start, end and gene region of every record shifted; everything else kept), and the
loader / graph-input functions commute with the shift of the introns.
-/
import IsoVerif.Model.Resolver
import IsoVerif.Model.C11SymGraph
import IsoVerif.Lemmas.C11Shift

namespace IsoVerif.Lemmas.C11.ResolverShift
open IsoVerif.Lemmas.C11
open IsoVerif.Gen IsoVerif.Model IsoVerif.Model.C11 IsoVerif.Model.Resolver

/-! ## field access -/

@[simp] theorem shiftRec_aid (k : Int) (r : Rec) : (shiftRec k r).aid = r.aid := rfl
@[simp] theorem shiftRec_readId (k : Int) (r : Rec) : (shiftRec k r).readId = r.readId := rfl
@[simp] theorem shiftRec_chr (k : Int) (r : Rec) : (shiftRec k r).chr = r.chr := rfl
@[simp] theorem shiftRec_start (k : Int) (r : Rec) : (shiftRec k r).start = r.start + k := rfl
@[simp] theorem shiftRec_stop (k : Int) (r : Rec) : (shiftRec k r).stop = r.stop + k := rfl
@[simp] theorem shiftRec_region (k : Int) (r : Rec) : (shiftRec k r).region = shiftIv k r.region := rfl
@[simp] theorem shiftRec_multimapper (k : Int) (r : Rec) : (shiftRec k r).multimapper = r.multimapper := rfl
@[simp] theorem shiftRec_polyA (k : Int) (r : Rec) : (shiftRec k r).polyA = r.polyA := rfl
@[simp] theorem shiftRec_atype (k : Int) (r : Rec) : (shiftRec k r).atype = r.atype := rfl
@[simp] theorem shiftRec_gtype (k : Int) (r : Rec) : (shiftRec k r).gtype = r.gtype := rfl
@[simp] theorem shiftRec_penalty (k : Int) (r : Rec) : (shiftRec k r).penalty = r.penalty := rfl
@[simp] theorem shiftRec_isoforms (k : Int) (r : Rec) : (shiftRec k r).isoforms = r.isoforms := rfl
@[simp] theorem shiftRec_genes (k : Int) (r : Rec) : (shiftRec k r).genes = r.genes := rfl
@[simp] theorem shiftIRec_fst (k : Int) (x : IRec) : (shiftIRec k x).1 = shiftRec k x.1 := rfl
@[simp] theorem shiftIRec_snd (k : Int) (x : IRec) : (shiftIRec k x).2 = x.2 := rfl

theorem shiftRec_zero (r : Rec) : shiftRec 0 r = r := by
  cases r; simp [shiftRec, shiftIv]

theorem shiftRec_add (j k : Int) (r : Rec) : shiftRec j (shiftRec k r) = shiftRec (k + j) r := by
  cases r; simp only [shiftRec, shiftIv, Rec.mk.injEq, Prod.mk.injEq, true_and, and_true]; omega

theorem shiftRec_injective (k : Int) {a b : Rec} (h : shiftRec k a = shiftRec k b) : a = b := by
  have := congrArg (shiftRec (-k)) h
  simpa only [shiftRec_add, Int.add_right_neg, shiftRec_zero] using this

/-! ## `__eq__`, `find_duplicates` -/

theorem recEq_shift (k : Int) (a b : Rec) : recEq (shiftRec k a) (shiftRec k b) = recEq a b := by
  simp only [recEq, shiftRec_readId, shiftRec_chr, shiftRec_start, shiftRec_stop, shiftRec_isoforms]
  have h1 : (a.start + k == b.start + k) = (a.start == b.start) := by
    rw [Bool.eq_iff_iff]; simp only [beq_iff_eq]; omega
  have h2 : (a.stop + k == b.stop + k) = (a.stop == b.stop) := by
    rw [Bool.eq_iff_iff]; simp only [beq_iff_eq]; omega
  rw [h1, h2]

theorem firstWinsAux_map {α β : Type} (f : α → β) (eqa : α → α → Bool) (eqb : β → β → Bool)
    (h : ∀ a b, eqb (f a) (f b) = eqa a b) (kept l : List α) :
    firstWinsAux eqb (kept.map f) (l.map f) = (firstWinsAux eqa kept l).map f := by
  induction l generalizing kept with
  | nil => rfl
  | cons x rest ih =>
    simp only [List.map_cons, firstWinsAux, List.any_map, Function.comp_def, h]
    split
    · exact ih kept
    · have := ih (kept ++ [x])
      simpa only [List.map_append, List.map_cons, List.map_nil] using this

theorem firstWins_map {α β : Type} (f : α → β) (eqa : α → α → Bool) (eqb : β → β → Bool)
    (h : ∀ a b, eqb (f a) (f b) = eqa a b) (l : List α) :
    firstWins eqb (l.map f) = (firstWins eqa l).map f :=
  firstWinsAux_map f eqa eqb h [] l

theorem findDuplicates_shift (k : Int) (keep : List IRec) :
    findDuplicates (keep.map (shiftIRec k)) = (findDuplicates keep).map (shiftIRec k) := by
  unfold findDuplicates
  exact firstWins_map (shiftIRec k) _ _ (fun a b => by simp only [shiftIRec_fst, recEq_shift]) keep

/-! ## `filter_assignments` -/

theorem suspend_shift (k : Int) (r : Rec) : suspend (shiftRec k r) = shiftRec k (suspend r) := rfl

theorem flag_shift (k : Int) (ct cg : Bool) (r : Rec) : flag ct cg (shiftRec k r) = shiftRec k (flag ct cg r) := by
  cases ct <;> cases cg <;> rfl

theorem flatMap_isoforms_shift (k : Int) (kept : List IRec) :
    (kept.map (shiftIRec k)).flatMap (fun x => x.1.isoforms) = kept.flatMap (fun x => x.1.isoforms) := by
  induction kept with
  | nil => rfl
  | cons a t ih => simp only [List.map_cons, List.flatMap_cons, ih, shiftIRec_fst, shiftRec_isoforms]

theorem flatMap_genes_shift (k : Int) (kept : List IRec) :
    (kept.map (shiftIRec k)).flatMap (fun x => x.1.genes) = kept.flatMap (fun x => x.1.genes) := by
  induction kept with
  | nil => rfl
  | cons a t ih => simp only [List.map_cons, List.flatMap_cons, ih, shiftIRec_fst, shiftRec_genes]

theorem zipIdx_shift (k : Int) (l : List Rec) (n : Nat) :
    (l.map (shiftRec k)).zipIdx n = (l.zipIdx n).map (shiftIRec k) := by
  induction l generalizing n with
  | nil => rfl
  | cons a t ih => simp only [List.map_cons, List.zipIdx_cons, ih]; rfl

theorem map_snd_shiftIRec (k : Int) (kept : List IRec) : (kept.map (shiftIRec k)).map (·.2) = kept.map (·.2) := by
  simp only [List.map_map]; rfl

theorem applyKeep_shift (k : Int) (l : List Rec) (kept : List IRec) :
    applyKeep (l.map (shiftRec k)) (kept.map (shiftIRec k)) = (applyKeep l kept).map (shiftRec k) := by
  simp only [applyKeep, flatMap_isoforms_shift, flatMap_genes_shift, zipIdx_shift, List.map_map, List.length_map]
  apply List.map_congr_left
  intro x _
  simp only [Function.comp_def, shiftIRec_fst, shiftIRec_snd, apply_ite (shiftRec k), flag_shift, suspend_shift]

theorem filterAssignments_shift (k : Int) (l : List Rec) (keep : List IRec) :
    filterAssignments (l.map (shiftRec k)) (keep.map (shiftIRec k)) = (filterAssignments l keep).map (shiftRec k) := by
  simp only [filterAssignments, findDuplicates_shift, applyKeep_shift]

/-! ## classes -/

theorem isInc_shift (k : Int) (r : Rec) : isInc (shiftRec k r) = isInc r := rfl
theorem isCons_shift (k : Int) (r : Rec) : isCons (shiftRec k r) = isCons r := rfl
theorem isNoninf_shift (k : Int) (r : Rec) : isNoninf (shiftRec k r) = isNoninf r := rfl
theorem isPrimaryUnique_shift (k : Int) (r : Rec) : isPrimaryUnique (shiftRec k r) = isPrimaryUnique r := rfl
theorem isPrimaryInc_shift (k : Int) (r : Rec) : isPrimaryInc (shiftRec k r) = isPrimaryInc r := rfl

theorem classFilter_shift (k : Int) (p : Rec → Bool) (hp : ∀ r, p (shiftRec k r) = p r) (l : List Rec) :
    (l.map (shiftRec k)).zipIdx.filter (fun x => p x.1) = (l.zipIdx.filter (fun x => p x.1)).map (shiftIRec k) := by
  rw [zipIdx_shift, List.filter_map]
  congr 1
  simp only [Function.comp_def, shiftIRec_fst, hp]

theorem classPU_shift (k : Int) (l : List Rec) : classPU (l.map (shiftRec k)) = (classPU l).map (shiftIRec k) :=
  classFilter_shift k isPrimaryUnique (isPrimaryUnique_shift k) l
theorem classCons_shift (k : Int) (l : List Rec) : classCons (l.map (shiftRec k)) = (classCons l).map (shiftIRec k) :=
  classFilter_shift k isCons (isCons_shift k) l
theorem classPInc_shift (k : Int) (l : List Rec) : classPInc (l.map (shiftRec k)) = (classPInc l).map (shiftIRec k) :=
  classFilter_shift k isPrimaryInc (isPrimaryInc_shift k) l
theorem classInc_shift (k : Int) (l : List Rec) : classInc (l.map (shiftRec k)) = (classInc l).map (shiftIRec k) :=
  classFilter_shift k isInc (isInc_shift k) l
theorem classNon_shift (k : Int) (l : List Rec) : classNon (l.map (shiftRec k)) = (classNon l).map (shiftIRec k) :=
  classFilter_shift k isNoninf (isNoninf_shift k) l

/-! ## `select_best_inconsistent` -/

theorem minPenalty_shift (k : Int) (first : Int) (rest : List IRec) :
    minPenalty first (rest.map (shiftIRec k)) = minPenalty first rest := by
  unfold minPenalty
  induction rest generalizing first with
  | nil => rfl
  | cons a t ih => simp only [List.map_cons, List.foldl_cons, shiftIRec_fst, shiftRec_penalty, ih]

theorem bestInconsistent_shift (k : Int) (inc : List IRec) :
    bestInconsistent (inc.map (shiftIRec k)) = (bestInconsistent inc).map (shiftIRec k) := by
  match inc with
  | [] => rfl
  | [a] => rfl
  | a :: b :: rest =>
    have h := minPenalty_shift k a.1.penalty (b :: rest)
    simp only [List.map_cons] at h
    simp only [List.map_cons, bestInconsistent, shiftIRec_fst, shiftRec_penalty, h]
    rw [← List.map_cons, ← List.map_cons, List.filter_map]
    rfl

/-! ## `select_noninformative` -/

theorem overlapLen_shift (k : Int) (r : Rec) : overlapLen (shiftRec k r) = overlapLen r := by
  simp only [overlapLen, intersection_len, shiftRec_region, shiftRec_start, shiftRec_stop, shiftIv_fst, shiftIv_snd]
  omega

theorem maxOverlap_shift (k : Int) (non : List IRec) : maxOverlap (non.map (shiftIRec k)) = maxOverlap non := by
  unfold maxOverlap
  generalize (0 : Int) = m
  induction non generalizing m with
  | nil => rfl
  | cons a t ih => simp only [List.map_cons, List.foldl_cons, shiftIRec_fst, overlapLen_shift, ih]

/-- lexicographic `<` on lists: a common head shift and an order-isomorphic tail -/
theorem tieKey_lt_shift (k : Int) (x y : Rec) :
    tieKey (shiftRec k x) < tieKey (shiftRec k y) ↔ tieKey x < tieKey y := by
  simp only [tieKey, List.cons_append, List.nil_append, List.cons_lt_cons_iff, shiftRec_region, shiftRec_chr,
    shiftRec_start, shiftRec_stop, shiftRec_isoforms, shiftIv_fst]
  have e1 : x.region.1 + k < y.region.1 + k ↔ x.region.1 < y.region.1 := by omega
  have e2 : x.region.1 + k = y.region.1 + k ↔ x.region.1 = y.region.1 := by omega
  have e3 : x.start + k < y.start + k ↔ x.start < y.start := by omega
  have e4 : x.start + k = y.start + k ↔ x.start = y.start := by omega
  have e5 : x.stop + k < y.stop + k ↔ x.stop < y.stop := by omega
  have e6 : x.stop + k = y.stop + k ↔ x.stop = y.stop := by omega
  rw [e1, e2, e3, e4, e5, e6]

theorem pickBest_shift (k : Int) (m : Int) (b : Option IRec) (non : List IRec) :
    pickBest m (b.map (shiftIRec k)) (non.map (shiftIRec k)) = (pickBest m b non).map (shiftIRec k) := by
  induction non generalizing b with
  | nil => cases b <;> rfl
  | cons x rest ih =>
    cases b with
    | none =>
      simp only [Option.map_none, List.map_cons, pickBest, shiftIRec_fst, overlapLen_shift]
      split
      · exact ih (some x)
      · exact ih none
    | some y =>
      simp only [Option.map_some, List.map_cons, pickBest, shiftIRec_fst, overlapLen_shift, tieKey_lt_shift]
      split
      · split
        · exact ih (some x)
        · exact ih (some y)
      · exact ih (some y)

theorem pickBestBuggy_shift (k : Int) (m : Int) (b : Option IRec) (non : List IRec) :
    pickBestBuggy m (b.map (shiftIRec k)) (non.map (shiftIRec k)) = (pickBestBuggy m b non).map (shiftIRec k) := by
  induction non generalizing b with
  | nil => cases b <;> rfl
  | cons x rest ih =>
    cases b with
    | none =>
      simp only [Option.map_none, List.map_cons, pickBestBuggy, shiftIRec_fst, overlapLen_shift]
      split
      · exact ih (some x)
      · exact ih none
    | some y =>
      have e : x.1.region.1 + k < y.1.region.1 + k ↔ x.1.region.1 < y.1.region.1 := by omega
      simp only [Option.map_some, List.map_cons, pickBestBuggy, shiftIRec_fst, overlapLen_shift, shiftRec_region,
        shiftIv_fst, e]
      split
      · split
        · exact ih (some x)
        · exact ih (some y)
      · exact ih (some y)

theorem bestNoninformative_shift (k : Int) (non : List IRec) :
    bestNoninformative (non.map (shiftIRec k)) = (bestNoninformative non).map (shiftIRec k) := by
  simp only [bestNoninformative, maxOverlap_shift]
  exact pickBest_shift k _ none non

theorem bestNoninformativeBuggy_shift (k : Int) (non : List IRec) :
    bestNoninformativeBuggy (non.map (shiftIRec k)) = (bestNoninformativeBuggy non).map (shiftIRec k) := by
  simp only [bestNoninformativeBuggy, maxOverlap_shift]
  exact pickBestBuggy_shift k _ none non

theorem selectNoninformative_shift (k : Int) (l : List Rec) (non : List IRec) :
    selectNoninformative (l.map (shiftRec k)) (non.map (shiftIRec k))
      = (selectNoninformative l non).map (List.map (shiftRec k)) := by
  simp only [selectNoninformative, bestNoninformative_shift]
  cases bestNoninformative non with
  | none => rfl
  | some x =>
    simp only [Option.map_some]
    have := filterAssignments_shift k l [x]
    simp only [List.map_cons, List.map_nil] at this
    rw [this]

theorem selectBestInconsistent_shift (k : Int) (l : List Rec) (inc : List IRec) :
    selectBestInconsistent (l.map (shiftRec k)) (inc.map (shiftIRec k))
      = (selectBestInconsistent l inc).map (shiftRec k) := by
  simp only [selectBestInconsistent, bestInconsistent_shift, filterAssignments_shift]

/-! ## `select_best_assignment`, `merge_assignments`, `resolve` -/

theorem isEmpty_map' {α β : Type} (f : α → β) (l : List α) : (l.map f).isEmpty = l.isEmpty := by
  cases l <;> rfl

theorem selectBestAssignment_shift (k : Int) (l : List Rec) :
    selectBestAssignment (l.map (shiftRec k)) = (selectBestAssignment l).map (List.map (shiftRec k)) := by
  simp only [selectBestAssignment, classPU_shift, classCons_shift, classPInc_shift, classInc_shift, classNon_shift,
    isEmpty_map', filterAssignments_shift, selectBestInconsistent_shift, selectNoninformative_shift]
  split
  · rfl
  · split
    · rfl
    · split
      · rfl
      · split
        · rfl
        · split
          · rfl
          · split
            · rfl
            · simp only [Option.map_some, List.map_take]

theorem selectBestAssignmentBuggy_shift (k : Int) (l : List Rec) :
    selectBestAssignmentBuggy (l.map (shiftRec k)) = (selectBestAssignmentBuggy l).map (List.map (shiftRec k)) := by
  simp only [selectBestAssignmentBuggy, classPU_shift, classCons_shift, classPInc_shift, classInc_shift,
    classNon_shift, isEmpty_map', filterAssignments_shift, selectBestInconsistent_shift, bestNoninformativeBuggy_shift]
  split
  · rfl
  · split
    · rfl
    · split
      · rfl
      · split
        · rfl
        · split
          · rfl
          · split
            · cases bestNoninformativeBuggy (classNon l) with
              | none => rfl
              | some x =>
                simp only [Option.map_some]
                have := filterAssignments_shift k l [x]
                simp only [List.map_cons, List.map_nil] at this
                rw [this]
            · simp only [Option.map_some, List.map_take]

theorem mergeAssignments_shift (k : Int) (l : List Rec) :
    mergeAssignments (l.map (shiftRec k)) = (mergeAssignments l).map (List.map (shiftRec k)) := by
  have h := classFilter_shift k (fun r => !(r.atype == .noninformative)) (fun _ => rfl) l
  simp only [mergeAssignments, h, List.length_map, applyKeep_shift]
  split <;> rfl

theorem resolve_shift (k : Int) (s : MultimapResolvingStrategy) (l : List Rec) :
    resolve s (l.map (shiftRec k)) = (resolve s l).map (List.map (shiftRec k)) := by
  simp only [resolve, List.length_map]
  split
  · rfl
  · cases s with
    | ignore_multimapper => simp only [Option.map_some, List.map_map]; rfl
    | merge => exact mergeAssignments_shift k l
    | take_best => exact selectBestAssignment_shift k l

theorem candidates_shift (k : Int) (l : List Rec) :
    candidates (l.map (shiftRec k)) = (candidates l).map (List.map (shiftIRec k)) := by
  simp only [candidates, classPU_shift, classCons_shift, classPInc_shift, classInc_shift, classNon_shift,
    isEmpty_map', bestInconsistent_shift, bestNoninformative_shift]
  split
  · rfl
  · split
    · rfl
    · split
      · rfl
      · split
        · rfl
        · split
          · rfl
          · cases bestNoninformative (classNon l) <;> rfl

theorem retained_shift (k : Int) (out : List Rec) :
    retained (out.map (shiftRec k)) = (retained out).map (shiftRec k) := by
  unfold retained
  rw [List.filter_map]
  rfl

/-! ## loader, graph input -/

@[simp] theorem shiftFull_introns (k : Int) (f : Full) : (shiftFull k f).introns = shiftL k f.introns := rfl

theorem shiftDict_lookup (k : Int) (d : List (Nat × List Rec)) (rid : Nat) :
    (shiftDict k d).lookup rid = (d.lookup rid).map (shiftRecs k) := by
  induction d with
  | nil => rfl
  | cons kv t ih =>
    obtain ⟨a, v⟩ := kv
    simp only [shiftDict, List.map_cons, List.lookup_cons] at ih ⊢
    cases h : (rid == a)
    · exact ih
    · rfl

theorem lookupVerdict_aux (k : Int) (ra : Full) (vs : List Rec) (acc : Option Rec) :
    (vs.map (shiftRec k)).foldl (fun acc a => if a.aid == ra.aid && a.chr == ra.chr then some a else acc)
        (acc.map (shiftRec k))
      = (vs.foldl (fun acc a => if a.aid == ra.aid && a.chr == ra.chr then some a else acc) acc).map (shiftRec k) := by
  induction vs generalizing acc with
  | nil => rfl
  | cons a t ih =>
    simp only [List.map_cons, List.foldl_cons]
    have : (if ((shiftRec k a).aid == ra.aid && (shiftRec k a).chr == ra.chr) = true
              then some (shiftRec k a) else acc.map (shiftRec k))
        = (if (a.aid == ra.aid && a.chr == ra.chr) = true then some a else acc).map (shiftRec k) := by
      show (if (a.aid == ra.aid && a.chr == ra.chr) = true then _ else _) = _
      split <;> rfl
    rw [this]
    exact ih _

theorem lookupVerdict_shift (k : Int) (vs : List Rec) (ra : Full) :
    lookupVerdict (shiftRecs k vs) (shiftFull k ra) = (lookupVerdict vs ra).map (shiftRec k) :=
  lookupVerdict_aux k ra vs none

theorem loadOne_shift (k : Int) (dict : List (Nat × List Rec)) (ra : Full) :
    loadOne (shiftDict k dict) (shiftFull k ra) = (loadOne dict ra).map (shiftFull k) := by
  have hl := shiftDict_lookup k dict ra.readId
  unfold loadOne
  show (match (shiftDict k dict).lookup ra.readId with | none => _ | some vs => _) = _
  rw [hl]
  cases dict.lookup ra.readId with
  | none => rfl
  | some vs =>
    simp only [Option.map_some, lookupVerdict_shift]
    cases lookupVerdict vs ra with
    | none => rfl
    | some a =>
      simp only [Option.map_some, shiftRec_atype]
      by_cases h : (a.atype == ReadAssignmentType.suspended) = true
      · simp only [h, ↓reduceIte]; rfl
      · simp only [h]; rfl

theorem dupVerdict_shift (k : Int) (vs : List Rec) (ra : Full) :
    dupVerdict (shiftRecs k vs) (shiftFull k ra) = dupVerdict vs ra := by
  unfold dupVerdict shiftRecs
  rw [List.filter_map, List.length_map]
  rfl

theorem raisesFor_shift (k : Int) (dict : List (Nat × List Rec)) (ra : Full) :
    raisesFor (shiftDict k dict) (shiftFull k ra) = raisesFor dict ra := by
  have hl := shiftDict_lookup k dict ra.readId
  unfold raisesFor
  show (match (shiftDict k dict).lookup ra.readId with | none => _ | some vs => _) = _
  rw [hl]
  cases dict.lookup ra.readId with
  | none => rfl
  | some vs => exact dupVerdict_shift k vs ra

theorem loadCore_shift (k : Int) (dict : List (Nat × List Rec)) (ras : List Full) :
    loadCore (shiftDict k dict) (ras.map (shiftFull k)) = (loadCore dict ras).map (shiftFull k) := by
  unfold loadCore
  induction ras with
  | nil => rfl
  | cons a t ih =>
    simp only [List.map_cons, List.filterMap_cons, loadOne_shift]
    cases loadOne dict a with
    | none => exact ih
    | some b => simp only [Option.map_some, List.map_cons, ih]

theorem load_shift (k : Int) (dict : List (Nat × List Rec)) (ras : List Full) :
    load (shiftDict k dict) (ras.map (shiftFull k)) = (load dict ras).map (List.map (shiftFull k)) := by
  simp only [load, List.any_map, Function.comp_def, raisesFor_shift, loadCore_shift]
  split <;> rfl

theorem shiftL_isEmpty (k : Int) (l : List Iv) : (shiftL k l).isEmpty = l.isEmpty := by
  cases l <;> rfl

theorem collectIntrons_shift (k : Int) (storage : List Full) :
    collectIntrons (storage.map (shiftFull k)) = shiftL k (collectIntrons storage) := by
  unfold collectIntrons
  induction storage with
  | nil => rfl
  | cons a t ih =>
    simp only [List.map_cons, List.filter_cons, shiftFull_introns, shiftL_isEmpty]
    have hm : (shiftFull k a).multimapper = a.multimapper := rfl
    rw [hm]
    split
    · simp only [List.flatMap_cons, shiftFull_introns, ih, shiftL_append]
    · exact ih

theorem shiftIv_injective (k : Int) {a b : Iv} (h : shiftIv k a = shiftIv k b) : a = b := by
  simp only [shiftIv, Prod.mk.injEq] at h
  ext <;> omega

theorem shiftL_contains (k : Int) (d : List Iv) (i : Iv) : (shiftL k d).contains (shiftIv k i) = d.contains i := by
  induction d with
  | nil => rfl
  | cons a t ih =>
    simp only [shiftL_cons, List.contains_cons, ih]
    congr 1
    rw [Bool.eq_iff_iff]
    simp only [beq_iff_eq]
    exact ⟨fun h => shiftIv_injective k h, fun h => by rw [h]⟩

theorem any_discarded_shift (k : Int) (d l : List Iv) :
    (shiftL k l).any (fun i => (shiftL k d).contains i) = l.any (fun i => d.contains i) := by
  simp only [shiftL, List.any_map, Function.comp_def]
  congr 1
  funext i
  exact shiftL_contains k d i

theorem zip_tail_shift (k : Int) (l : List Iv) :
    (shiftL k l).zip (shiftL k l).tail = (l.zip l.tail).map (mapPair (shiftIv k)) := by
  simp only [shiftL, ← List.map_tail, List.zip_map]
  rfl

theorem graphEdges_shift (k : Int) (discarded : List Iv) (storage : List Full) :
    graphEdges (shiftL k discarded) (storage.map (shiftFull k))
      = (graphEdges discarded storage).map (mapPair (shiftIv k)) := by
  unfold graphEdges
  induction storage with
  | nil => rfl
  | cons a t ih =>
    simp only [List.map_cons, List.filter_cons, shiftFull_introns, any_discarded_shift]
    have hm : (shiftFull k a).multimapper = a.multimapper := rfl
    rw [hm]
    split
    · simp only [List.flatMap_cons, shiftFull_introns, ih, List.map_append, zip_tail_shift]
    · exact ih

end IsoVerif.Lemmas.C11.ResolverShift
