/-
Helper lemmas for C05 (growth): merging the re-fetched files gives the SAME ORDER as filtering the whole-chromosome
merge — `BAMOnlineMerger` commutes with pysam's `fetch` on coordinate-sorted files.

The k-way merge is not a sort (files are sorted by start only, the heap key is `(start, end, index)`), so this is not a
general fact about filters: it needs that a record dropped by `fetch` never "blocks" a kept record of the same file
with a smaller key, which holds because among records with one start `fetch` keeps an up-set of ends (`UpClosed`).
-/
import IsoVerif.Model.RegionsMulti
import IsoVerif.Lemmas.RegionsMulti

namespace IsoVerif.Lemmas.RegionsMulti
open IsoVerif.Gen IsoVerif.Model IsoVerif.Model.C12 IsoVerif.Lemmas.C12
open List

/-- among records with the same start the filter keeps an up-set of ends -/
def UpClosed (P : C12.Aln → Bool) : Prop :=
  ∀ a b : C12.Aln, a.start = b.start → a.stop ≤ b.stop → P a = true → P b = true

theorem inR_upClosed (r : Iv) : UpClosed (inR r) := by
  intro a b h1 h2 h3
  simp only [inR, Bool.and_eq_true, decide_eq_true_eq] at h3 ⊢
  omega

structure Good (s : MState) : Prop where
  cov : Covered s
  nodup : (s.queue.map Prod.fst).Nodup

theorem good_step {s : MState} {m : Entry} (h : Good s) (hm : m ∈ s.queue) : Good (stepState s m) :=
  ⟨covered_step h.cov, nodup_step hm h.nodup⟩

/-- a queue entry is the head of what is pending from its file -/
theorem pending_of_mem {s : MState} (h : Good s) {m : Entry} (hm : m ∈ s.queue) :
    pending m.1 s = m.2 :: pending m.1 (stepState s m) := pending_step_same h.nodup hm

/-- the head of what is pending from a file sits in the queue -/
theorem mem_of_pending {s : MState} (h : Good s) {i : Nat} {a : C12.Aln} {t : List C12.Aln}
    (hp : pending i s = a :: t) : (i, a) ∈ s.queue := by
  unfold pending at hp
  cases hq : s.queue.filter (fun e => e.1 == i) with
  | nil =>
    rw [hq] at hp
    simp only [List.map_nil, List.nil_append] at hp
    cases hi : s.its[i]? with
    | none => rw [hi] at hp; simp at hp
    | some f =>
      rw [hi] at hp
      simp only [Option.getD_some] at hp
      subst hp
      obtain ⟨b, hb⟩ := h.cov i a t hi
      have : (i, b) ∈ s.queue.filter (fun e => e.1 == i) := List.mem_filter.2 ⟨hb, by simp⟩
      rw [hq] at this; cases this
  | cons e rest =>
    have he : e ∈ s.queue.filter (fun e => e.1 == i) := by rw [hq]; simp
    obtain ⟨heq, hei⟩ := List.mem_filter.1 he
    have hei' : e.1 = i := by simpa using hei
    have hs := filter_idx_self h.nodup heq
    rw [hei'] at hs
    rw [hs] at hp
    simp only [List.map_cons, List.map_nil, List.cons_append, List.nil_append, List.cons.injEq] at hp
    obtain ⟨e1, e2⟩ := e
    simp only at hei' hp
    rw [← hei', ← hp.1]
    exact heq

theorem run_nil_of_pending_nil {s : MState} (h : Good s) (hp : ∀ i, pending i s = []) (n : Nat) : run n s = [] := by
  have hq : s.queue = [] := by
    cases hq : s.queue with
    | nil => rfl
    | cons m t =>
      have hm : m ∈ s.queue := by rw [hq]; simp
      have := pending_of_mem h hm
      rw [hp m.1] at this
      cases this
  cases n with
  | zero => rfl
  | succ n => simp [run, hq, minEntry]

theorem keyLe_antisymm_idx {x y : Entry} (h1 : keyLe x y = true) (h2 : keyLe y x = true) : x.1 = y.1 := by
  simp only [keyLe, Bool.or_eq_true, Bool.and_eq_true, decide_eq_true_eq] at h1 h2
  omega

theorem content_pos_of_mem {s : MState} {m : Entry} (hm : m ∈ s.queue) : 0 < (content s).length := by
  have := (content_step (s := s) hm).length_eq
  simp at this
  omega

theorem content_step_length {s : MState} {m : Entry} (hm : m ∈ s.queue) :
    (content s).length = (content (stepState s m)).length + 1 := by
  have := (content_step (s := s) hm).length_eq
  simpa using this

/-- the relation between the full merger and the merger of the filtered files -/
def Rel (P : C12.Aln → Bool) (s s' : MState) : Prop := ∀ i, pending i s' = (pending i s).filter P

def Srt (s : MState) : Prop := ∀ i, SortedStart (pending i s)

theorem srt_step {s : MState} {m : Entry} (h : Good s) (hm : m ∈ s.queue) (hs : Srt s) : Srt (stepState s m) := by
  intro i
  by_cases hi : m.1 = i
  · subst hi
    have := hs m.1
    rw [pending_of_mem h hm] at this
    exact (List.pairwise_cons.1 this).2
  · rw [pending_step_other hi]; exact hs i

theorem run_filter (P : C12.Aln → Bool) (hP : UpClosed P) :
    ∀ (n : Nat) (s s' : MState) (n' : Nat), Good s → Good s' → Srt s → Rel P s s' →
      (content s).length ≤ n → (content s').length ≤ n' →
      (run n s).filter (fun e => P e.2) = run n' s' := by
  intro n
  induction n with
  | zero =>
    intro s s' n' hg hg' _ hr hn _
    have hc : content s = [] := List.eq_nil_of_length_eq_zero (by omega)
    have hq : s.queue = [] := by
      simp only [content, List.append_eq_nil_iff, List.map_eq_nil_iff] at hc
      exact hc.1
    have hp : ∀ i, pending i s' = [] := by
      intro i; rw [hr i, pending_nil_of_queue_nil hg.cov hq i]; rfl
    rw [run_nil_of_pending_nil hg' hp]; rfl
  | succ n ih =>
    intro s s' n' hg hg' hsrt hr hn hn'
    simp only [run]
    cases hm : minEntry s.queue with
    | none =>
      have hq := minEntry_none.mp hm
      have hp : ∀ i, pending i s' = [] := by
        intro i; rw [hr i, pending_nil_of_queue_nil hg.cov hq i]; rfl
      rw [run_nil_of_pending_nil hg' hp]; rfl
    | some m =>
      have hmem := minEntry_mem hm
      have hpm := pending_of_mem hg hmem
      have hlen := content_step_length (s := s) hmem
      simp only
      by_cases hPm : P m.2 = true
      · -- the record is kept: the filtered merger pops the same entry
        have hpm' : pending m.1 s' = m.2 :: (pending m.1 (stepState s m)).filter P := by
          rw [hr m.1, hpm, List.filter_cons, if_pos hPm]
        have hmem' : m ∈ s'.queue := mem_of_pending hg' hpm'
        have hpos := content_pos_of_mem hmem'
        obtain ⟨n'', rfl⟩ : ∃ k, n' = k + 1 := ⟨n' - 1, by omega⟩
        have hmin : minEntry s'.queue = some m := by
          cases hm' : minEntry s'.queue with
          | none => rw [minEntry_none.mp hm'] at hmem'; cases hmem'
          | some m' =>
            have hm'mem := minEntry_mem hm'
            have h1 : keyLe m' m = true := minEntry_le hm' m hmem'
            have h2 : keyLe m m' = true := by
              have hp' := pending_of_mem hg' hm'mem
              rw [hr m'.1] at hp'
              -- the head `c` of what is pending from that file in the full merger
              cases hcu : pending m'.1 s with
              | nil => rw [hcu] at hp'; simp at hp'
              | cons c u =>
                have hcq : (m'.1, c) ∈ s.queue := mem_of_pending hg hcu
                have hk := minEntry_le hm _ hcq
                rw [hcu, List.filter_cons] at hp'
                by_cases hPc : P c = true
                · rw [if_pos hPc] at hp'
                  injection hp' with hc _
                  have : m' = (m'.1, c) := by rw [hc]
                  rw [this]; exact hk
                · rw [if_neg hPc] at hp'
                  have hin : m'.2 ∈ u := by
                    have : m'.2 ∈ u.filter P := by rw [hp']; simp
                    exact (List.mem_filter.1 this).1
                  have hPm' : P m'.2 = true := by
                    have : m'.2 ∈ u.filter P := by rw [hp']; simp
                    exact (List.mem_filter.1 this).2
                  have hso := hsrt m'.1
                  rw [hcu] at hso
                  have hcs : c.start ≤ m'.2.start := (List.pairwise_cons.1 hso).1 _ hin
                  have hstop : c.start = m'.2.start → c.stop < m'.2.stop := by
                    intro hst
                    by_cases h : c.stop < m'.2.stop
                    · exact h
                    · exact absurd (hP m'.2 c hst.symm (by omega) hPm') hPc
                  simp only [keyLe, Bool.or_eq_true, Bool.and_eq_true, decide_eq_true_eq] at hk ⊢
                  by_cases hlt : c.start < m'.2.start
                  · omega
                  · have := hstop (by omega)
                    omega
            have hidx := keyLe_antisymm_idx h1 h2
            exact congrArg some (eq_of_nodup_map Prod.fst hg'.nodup hm'mem hmem' hidx)
        simp only [run, hmin, List.filter_cons, hPm, if_true]
        congr 1
        have hlen' := content_step_length (s := s') hmem'
        apply ih (stepState s m) (stepState s' m) n'' (good_step hg hmem) (good_step hg' hmem') (srt_step hg hmem hsrt)
        · intro i
          by_cases hi : m.1 = i
          · subst hi
            have := pending_of_mem hg' hmem'
            rw [hpm'] at this
            injection this with _ ht
            exact ht.symm
          · rw [pending_step_other hi, pending_step_other hi]; exact hr i
        · omega
        · omega
      · -- the record is dropped by the filter: the filtered merger does nothing
        have hPf : P m.2 = false := by simpa using hPm
        simp only [List.filter_cons, hPf, Bool.false_eq_true, if_false]
        apply ih (stepState s m) s' n' (good_step hg hmem) hg' (srt_step hg hmem hsrt)
        · intro i
          by_cases hi : m.1 = i
          · subst hi
            rw [hr m.1, hpm, List.filter_cons, if_neg hPm]
          · rw [pending_step_other hi]; exact hr i
        · omega
        · exact hn'

theorem pending_init (files : List (List C12.Aln)) (i : Nat) : pending i (initState files) = files[i]?.getD [] := by
  have := initGo_pending 0 files i
  simpa [pending, initState] using this

theorem good_init (files : List (List C12.Aln)) : Good (initState files) :=
  ⟨init_covered files, by simpa [initState] using initGo_nodup 0 files⟩

/-- **`BAMOnlineMerger` commutes with `fetch`**: merging the filtered files = filtering the merged stream, in order -/
theorem merge_filter (P : C12.Aln → Bool) (hP : UpClosed P) (files : List (List C12.Aln))
    (hs : ∀ f ∈ files, SortedStart f) :
    C12.merge (files.map (fun f => f.filter P)) = (C12.merge files).filter (fun e => P e.2) := by
  unfold C12.merge
  symm
  apply run_filter P hP _ _ _ _ (good_init files) (good_init _)
  · intro i
    rw [pending_init]
    cases hf : files[i]? with
    | none => exact List.Pairwise.nil
    | some f => exact hs f (List.mem_of_getElem? hf)
  · intro i
    rw [pending_init, pending_init, List.getElem?_map]
    cases files[i]? <;> rfl
  · rw [(init_content files).length_eq]; exact Nat.le_refl _
  · rw [(init_content _).length_eq]; exact Nat.le_refl _

/-! ### consequences for the collector -/

open IsoVerif.Model.Regions IsoVerif.Model.RegionsMulti IsoVerif.Lemmas.Regions

/-- the per-region re-fetch yields the whole-chromosome stream restricted to the region, in the same order -/
theorem regionStream_eq_scan_filter (rest : Nat → Regions.Aln) {files : List (List C12.Aln)} {L : Int}
    (hv : ValidFiles files L) (r : Iv) :
    regionStream rest files r = (scanStream rest files L).filter (fun e => overlaps r e.2.iv) := by
  rw [scan_eq rest hv]
  unfold regionStream
  have hf : files.map (C12.fetch r) = files.map (fun f => f.filter (inR r)) := rfl
  rw [hf, merge_filter (inR r) (inR_upClosed r) files hv.1, List.filter_map]
  congr 1
  apply List.filter_congr
  intro e _
  simp only [Function.comp, label]
  exact (ov_full rest r e.2).symm

theorem handed_modes_eq {rest : Nat → Regions.Aln} {files : List (List C12.Aln)} {L : Int} (hv : ValidFiles files L)
    {ms : MStore} (hms : ms ∈ mProcessStores (scanStream rest files L)) {r : Iv} (hr : r ∈ subRegionsOf ms.base) :
    handed .memory rest files ms r = handed .bam rest files ms r := by
  have hA := scan_valid rest hv
  obtain ⟨R, regs, hf⟩ := storeFacts hA (base_mem hms)
  obtain ⟨hr1, _, hr3⟩ := subRegionsOf_sub hf r hr
  simp only [handed]
  rw [regionStream_eq_scan_filter rest hv r, scan_filter_cluster hA hms hf hr1 hr3]

theorem flatMap_congr' {α β : Type} {l : List α} {f g : α → List β} (h : ∀ x, x ∈ l → f x = g x) :
    l.flatMap f = l.flatMap g := by
  induction l with
  | nil => rfl
  | cons x l ih => simp only [List.flatMap_cons, h x (by simp), ih (fun y hy => h y (by simp [hy]))]

theorem collectM_modes_eq (rest : Nat → Regions.Aln) {files : List (List C12.Aln)} {L : Int} (hv : ValidFiles files L) :
    collectM .memory rest files L = collectM .bam rest files L := by
  rw [collectM_eq .memory hv, collectM_eq .bam hv]
  congr 1
  apply flatMap_congr'
  intro ms hms
  apply List.map_congr_left
  intro r hr
  rw [handed_modes_eq hv hms hr]

end IsoVerif.Lemmas.RegionsMulti
