/-
C11 helper lemmas — translation of the assignment model, part 3: events, polyA / polyT verification
(src/polya_verification.py as modelled in Model/Assign.lean).
-/
import IsoVerif.Lemmas.C11AssignShift2

namespace IsoVerif.Lemmas.C11.AssignShift
open IsoVerif.Gen IsoVerif.Model IsoVerif.Model.C01 IsoVerif.Model.C11

/-! ## events -/

@[simp] theorem shiftEvent_ty (k : Int) (e : Event) : (shiftEvent k e).ty = e.ty := by
  unfold shiftEvent; split <;> rfl
@[simp] theorem shiftEvent_isoRegion (k : Int) (e : Event) : (shiftEvent k e).isoRegion = e.isoRegion := by
  unfold shiftEvent; split <;> rfl
@[simp] theorem shiftEvent_readRegion (k : Int) (e : Event) : (shiftEvent k e).readRegion = e.readRegion := by
  unfold shiftEvent; split <;> rfl

theorem shiftEvent_of_not_pos (k : Int) (e : Event) (h : isPosEvent e.ty = false) : shiftEvent k e = e := by
  simp [shiftEvent, h]

theorem shiftEvent_pos (k : Int) (ty : MatchEventSubtype) (h : isPosEvent ty = true) (ir rr : Int × Int) (info : Int) :
    shiftEvent k { ty := ty, isoRegion := ir, readRegion := rr, info := info }
      = { ty := ty, isoRegion := ir, readRegion := rr, info := shiftPos k info } := by
  simp [shiftEvent, h]

theorem shiftEvents_nil (k : Int) : shiftEvents k [] = [] := rfl
theorem shiftEvents_cons (k : Int) (e : Event) (l : List Event) :
    shiftEvents k (e :: l) = shiftEvent k e :: shiftEvents k l := rfl
theorem shiftEvents_append (k : Int) (a b : List Event) : shiftEvents k (a ++ b) = shiftEvents k a ++ shiftEvents k b := by
  simp [shiftEvents]
theorem shiftEvents_length (k : Int) (l : List Event) : (shiftEvents k l).length = l.length := by simp [shiftEvents]
theorem shiftEvents_isEmpty (k : Int) (l : List Event) : (shiftEvents k l).isEmpty = l.isEmpty := by
  cases l <;> rfl

/-- no event of the list carries a position -/
def NoPos (evs : List Event) : Prop := ∀ e ∈ evs, isPosEvent e.ty = false

theorem shiftEvents_of_noPos (k : Int) (evs : List Event) (h : NoPos evs) : shiftEvents k evs = evs := by
  induction evs with
  | nil => rfl
  | cons e es ih =>
    rw [shiftEvents_cons, shiftEvent_of_not_pos k e (h e (by simp)), ih (fun x hx => h x (List.mem_cons_of_mem _ hx))]

theorem filter_ty_shift (k : Int) (q : MatchEventSubtype → Bool) (evs : List Event) :
    (shiftEvents k evs).filter (fun e => q e.ty) = shiftEvents k (evs.filter (fun e => q e.ty)) := by
  simp only [shiftEvents, List.filter_map]
  congr 1
  apply List.filter_congr
  intro e _
  simp only [Function.comp, shiftEvent_ty]

theorem countTy_shift (k : Int) (evs : List Event) (t : MatchEventSubtype) :
    countTy (shiftEvents k evs) t = countTy evs t := by
  have := filter_ty_shift k (fun x => decide (x = t)) evs
  simp only [countTy, this, shiftEvents_length]

theorem lastIndexOf_shift (k : Int) (evs : List Event) (t1 t2 : MatchEventSubtype) :
    lastIndexOf (shiftEvents k evs) t1 t2 = lastIndexOf evs t1 t2 := by
  simp only [lastIndexOf, shiftEvents, List.zipIdx_map, List.filter_map, List.getLast?_map, Option.map_map]
  have e : (List.filter ((fun (x : Event × Nat) => decide (x.1.ty = t1 ∨ x.1.ty = t2)) ∘ Prod.map (shiftEvent k) id) evs.zipIdx)
      = List.filter (fun (x : Event × Nat) => decide (x.1.ty = t1 ∨ x.1.ty = t2)) evs.zipIdx := by
    apply List.filter_congr
    intro x _
    simp only [Function.comp, Prod.map, shiftEvent_ty]
  rw [e]
  cases (List.filter (fun (x : Event × Nat) => decide (x.1.ty = t1 ∨ x.1.ty = t2)) evs.zipIdx).getLast? <;> rfl

theorem eraseIdx_map' {α β} (f : α → β) (l : List α) (i : Nat) : (l.map f).eraseIdx i = (l.eraseIdx i).map f := by
  induction l generalizing i with
  | nil => rfl
  | cons x xs ih =>
    cases i with
    | zero => rfl
    | succ n => simp only [List.map_cons, List.eraseIdx_cons_succ, ih]

theorem eraseLastOf_shift (k : Int) (evs : List Event) (t1 t2 : MatchEventSubtype) :
    eraseLastOf (shiftEvents k evs) t1 t2 = shiftEvents k (eraseLastOf evs t1 t2) := by
  simp only [eraseLastOf, lastIndexOf_shift]
  cases lastIndexOf evs t1 t2 with
  | none => rfl
  | some i => simp only [shiftEvents, eraseIdx_map']

theorem find?_ty_shift (k : Int) (evs : List Event) (t : MatchEventSubtype) :
    (shiftEvents k evs).find? (fun e => e.ty = t) = (evs.find? (fun e => e.ty = t)).map (shiftEvent k) := by
  induction evs with
  | nil => rfl
  | cons e es ih =>
    simp only [shiftEvents_cons, List.find?_cons, shiftEvent_ty, ih]
    split <;> rfl

theorem addSub_shift (k : Int) (evs : List Event) (e : Event) :
    addSub (shiftEvents k evs) (shiftEvent k e) = shiftEvents k (addSub evs e) := by
  cases evs with
  | nil => rfl
  | cons x xs =>
    cases xs with
    | nil =>
      simp only [shiftEvents_cons, shiftEvents_nil, addSub, shiftEvent_ty]
      split <;> rfl
    | cons y ys => simp [addSub, shiftEvents]

theorem foldl_addSub_shift (k : Int) (el evs : List Event) :
    (shiftEvents k el).foldl addSub (shiftEvents k evs) = shiftEvents k (el.foldl addSub evs) := by
  induction el generalizing evs with
  | nil => rfl
  | cons e es ih => simp only [shiftEvents_cons, List.foldl_cons, addSub_shift, ih]

/-! ## `shift_polya` / `shift_polyt` (the copies of Model/Assign.lean) -/

theorem interval_len_shift (k : Int) (e : Iv) : interval_len (shiftIv k e) = interval_len e := by
  simp only [interval_len, shiftIv]; omega

theorem c01_shiftPolyaLoop_shift (k pos : Int) (l : List Iv) (d : Int) :
    C01.shiftPolyaLoop (pos + k) (shiftL k l) d = C01.shiftPolyaLoop pos l d := by
  induction l generalizing d with
  | nil => rfl
  | cons e es ih =>
    have h1 : (e.1 + k > pos + k) ↔ (e.1 > pos) := by omega
    have h2 : pos + k - (e.1 + k) = pos - e.1 := by omega
    simp only [shiftL_cons, C01.shiftPolyaLoop, shiftIv_fst, h1, h2, interval_len_shift, ih]

theorem c01_shiftPolytLoop_shift (k pos : Int) (l : List Iv) (d : Int) :
    C01.shiftPolytLoop (pos + k) (shiftL k l) d = C01.shiftPolytLoop pos l d := by
  induction l generalizing d with
  | nil => rfl
  | cons e es ih =>
    have h1 : (e.2 + k < pos + k) ↔ (e.2 < pos) := by omega
    have h2 : e.2 + k - (pos + k) = e.2 - pos := by omega
    simp only [shiftL_cons, C01.shiftPolytLoop, shiftIv_snd, h1, h2, interval_len_shift, ih]

theorem c01_shiftPolya_shift (k : Int) (exons : List Iv) (count : Nat) (pos : Int) (hp : pos ≠ -1) (hp' : pos + k ≠ -1) :
    C01.shiftPolya (shiftL k exons) count (pos + k) = (C01.shiftPolya exons count pos).map (· + k) := by
  simp only [C01.shiftPolya, shiftL_length, hp, hp', or_false, pyGet?_shiftL, ← shiftL_reverse, ← shiftL_take,
    c01_shiftPolyaLoop_shift]
  split
  · rfl
  · split
    · rfl
    · cases pyGet? exons (-(count : Int) - 1) with
      | none => rfl
      | some b => simp only [Option.map_some, shiftIv_snd]; congr 1; omega

theorem c01_shiftPolyt_shift (k : Int) (exons : List Iv) (count : Nat) (pos : Int) (hp : pos ≠ -1) (hp' : pos + k ≠ -1) :
    C01.shiftPolyt (shiftL k exons) count (pos + k) = (C01.shiftPolyt exons count pos).map (· + k) := by
  simp only [C01.shiftPolyt, shiftL_length, hp, hp', or_false, shiftL_getElem?, ← shiftL_take,
    c01_shiftPolytLoop_shift]
  split
  · rfl
  · split
    · rfl
    · cases exons[count]? with
      | none => rfl
      | some b => simp only [Option.map_some, shiftIv_fst]; congr 1; omega

/-- the polyA position recomputed by `shift_polya` (for any number of fake terminal exons) is not the sentinel,
    before or after the shift, unless the position is absent -/
def MovedSafeA (k : Int) (read : List Iv) (pos : Int) : Prop :=
  ∀ c r, C01.shiftPolya read c pos = some r → pos ≠ -1 → r ≠ -1 ∧ r + k ≠ -1
def MovedSafeT (k : Int) (read : List Iv) (pos : Int) : Prop :=
  ∀ c r, C01.shiftPolyt read c pos = some r → pos ≠ -1 → r ≠ -1 ∧ r + k ≠ -1

theorem c01_shiftPolya_absent (exons : List Iv) (count : Nat) : C01.shiftPolya exons count (-1) = some (-1) := by
  simp [C01.shiftPolya]
theorem c01_shiftPolyt_absent (exons : List Iv) (count : Nat) : C01.shiftPolyt exons count (-1) = some (-1) := by
  simp [C01.shiftPolyt]

theorem c01_shiftPolya_shiftPos (k : Int) (read : List Iv) (c : Nat) (pos : Int) (h : SafePos k pos)
    (hm : MovedSafeA k read pos) :
    C01.shiftPolya (shiftL k read) c (shiftPos k pos) = (C01.shiftPolya read c pos).map (shiftPos k) := by
  by_cases hp : pos = -1
  · subst hp; simp [shiftPos_neg_one, c01_shiftPolya_absent]
  · rw [shiftPos_of_ne k pos hp, c01_shiftPolya_shift k read c pos hp (h hp)]
    cases hr : C01.shiftPolya read c pos with
    | none => rfl
    | some r => simp only [Option.map_some, shiftPos_of_ne k r (hm c r hr hp).1]

theorem c01_shiftPolyt_shiftPos (k : Int) (read : List Iv) (c : Nat) (pos : Int) (h : SafePos k pos)
    (hm : MovedSafeT k read pos) :
    C01.shiftPolyt (shiftL k read) c (shiftPos k pos) = (C01.shiftPolyt read c pos).map (shiftPos k) := by
  by_cases hp : pos = -1
  · subst hp; simp [shiftPos_neg_one, c01_shiftPolyt_absent]
  · rw [shiftPos_of_ne k pos hp, c01_shiftPolyt_shift k read c pos hp (h hp)]
    cases hr : C01.shiftPolyt read c pos with
    | none => rfl
    | some r => simp only [Option.map_some, shiftPos_of_ne k r (hm c r hr hp).1]

theorem movedA_out (k : Int) (read : List Iv) (c : Nat) (pos r : Int) (hm : MovedSafeA k read pos)
    (hr : C01.shiftPolya read c pos = some r) : SafePos k r ∧ (r = -1 ↔ pos = -1) := by
  by_cases hp : pos = -1
  · subst hp
    rw [c01_shiftPolya_absent] at hr
    cases hr
    exact ⟨fun h => absurd rfl h, by simp⟩
  · have := hm c r hr hp
    exact ⟨fun _ => this.2, by simp [hp, this.1]⟩

theorem movedT_out (k : Int) (read : List Iv) (c : Nat) (pos r : Int) (hm : MovedSafeT k read pos)
    (hr : C01.shiftPolyt read c pos = some r) : SafePos k r ∧ (r = -1 ↔ pos = -1) := by
  by_cases hp : pos = -1
  · subst hp
    rw [c01_shiftPolyt_absent] at hr
    cases hr
    exact ⟨fun h => absurd rfl h, by simp⟩
  · have := hm c r hr hp
    exact ⟨fun _ => this.2, by simp [hp, this.1]⟩

/-! ## `check_if_close` -/

theorem distOrInf_shift (k stop x : Int) (h : SafePos k x) : distOrInf (stop + k) (shiftPos k x) = distOrInf stop x := by
  by_cases c : x = -1
  · subst c; simp [distOrInf, shiftPos]
  · have := h c
    have e : stop + k - (x + k) = stop - x := by omega
    simp [distOrInf, shiftPos, c, this, e]

theorem checkIfClose_shift (k : Int) (p : Params) (stop ext int : Int) (evs : List Event) (ty : MatchEventSubtype)
    (hty : isPosEvent ty = true) (hE : SafePos k ext) (hI : SafePos k int) :
    checkIfClose p (stop + k) (shiftPos k ext) (shiftPos k int) (shiftEvents k evs) ty
      = (checkIfClose p stop ext int evs ty).map (shiftEvents k) := by
  simp only [checkIfClose, distOrInf_shift k stop ext hE, distOrInf_shift k stop int hI]
  split
  · simp only [Option.map_some, shiftEvents_append, shiftEvents_cons, shiftEvents_nil, shiftEvent_pos k ty hty]
  · split
    · simp only [Option.map_some, shiftEvents_append, shiftEvents_cons, shiftEvents_nil, shiftEvent_pos k ty hty]
    · rfl

/-! ## the last step of `verify_polya` / `verify_polyt` -/

/-- positions of a triple (events, external, internal) shifted with the sentinel kept -/
def outShift (k : Int) (r : List Event × Int × Int) : List Event × Int × Int :=
  (shiftEvents k r.1, shiftPos k r.2.1, shiftPos k r.2.2)

/-- second `check_if_close` and the final decision of `verify_polya` (site = isoform end) / `verify_polyt` (isoform start) -/
def siteTail (p : Params) (site : Int) (okTy altTy : MatchEventSubtype) (r : List Event × Int × Int) : List Event :=
  match checkIfClose p site r.2.1 r.2.2 r.1 okTy with
  | some x => x
  | none =>
    if iabs ((if r.2.2 = -1 then r.2.1 else r.2.2) - site) > p.apa_delta then
      r.1 ++ [{ ty := altTy, info := (if r.2.2 = -1 then r.2.1 else r.2.2) }]
    else r.1 ++ [{ ty := okTy, info := (if r.2.2 = -1 then r.2.1 else r.2.2) }]

theorem siteTail_shift (k : Int) (p : Params) (site : Int) (okTy altTy : MatchEventSubtype)
    (hok : isPosEvent okTy = true) (halt : isPosEvent altTy = true) (evs : List Event) (ext int : Int)
    (hE : SafePos k ext) (hI : SafePos k int) (hP : ext ≠ -1 ∨ int ≠ -1) :
    siteTail p (site + k) okTy altTy (shiftEvents k evs, shiftPos k ext, shiftPos k int)
      = shiftEvents k (siteTail p site okTy altTy (evs, ext, int)) := by
  simp only [siteTail, checkIfClose_shift k p site ext int evs okTy hok hE hI]
  cases checkIfClose p site ext int evs okTy with
  | some x => rfl
  | none =>
    simp only [Option.map_none]
    by_cases c : int = -1
    · have hx : ext ≠ -1 := by
        rcases hP with h | h
        · exact h
        · exact absurd c h
      have e2 : shiftPos k ext - (site + k) = ext - site := by rw [shiftPos_of_ne k _ hx]; omega
      simp only [c, shiftPos_neg_one, if_true, e2]
      split
      · simp only [shiftEvents_append, shiftEvents_cons, shiftEvents_nil, shiftEvent_pos k altTy halt]
      · simp only [shiftEvents_append, shiftEvents_cons, shiftEvents_nil, shiftEvent_pos k okTy hok]
    · have hk := hI c
      have e0 : shiftPos k int = int + k := shiftPos_of_ne k int c
      have e2 : int + k - (site + k) = int - site := by omega
      simp only [c, e0, hk, if_false, e2]
      split
      · rw [← e0]
        simp only [shiftEvents_append, shiftEvents_cons, shiftEvents_nil, shiftEvent_pos k altTy halt]
      · rw [← e0]
        simp only [shiftEvents_append, shiftEvents_cons, shiftEvents_nil, shiftEvent_pos k okTy hok]

/-! ## `detect_reference_exons_beyond_polya` / `_before_polyt` -/

theorem countBeyond_shift (k pos : Int) (l : List Iv) : countBeyond (pos + k) (shiftL k l) = countBeyond pos l := by
  induction l with
  | nil => rfl
  | cons e es ih =>
    have h : (e.1 + k ≥ pos + k) ↔ (e.1 ≥ pos) := by omega
    simp only [shiftL_cons, countBeyond, shiftIv_fst, h, ih]

theorem countBefore_shift (k pos : Int) (l : List Iv) : countBefore (pos + k) (shiftL k l) = countBefore pos l := by
  induction l with
  | nil => rfl
  | cons e es ih =>
    have h : (e.2 + k ≤ pos + k) ↔ (e.2 ≤ pos) := by omega
    simp only [shiftL_cons, countBefore, shiftIv_snd, h, ih]

/-- `dist_to_polya` of `detect_reference_exons_*` (after fix a2ae069 an absent position is infinitely far) -/
theorem tailDist_shift (k a ext int : Int) (hE : SafePos k ext) (hI : SafePos k int) :
    minInf (distOrInf (a + k) (shiftPos k ext)) (distOrInf (a + k) (shiftPos k int)) = minInf (distOrInf a ext) (distOrInf a int) := by
  simp only [distOrInf_shift k a ext hE, distOrInf_shift k a int hI]

end IsoVerif.Lemmas.C11.AssignShift
