/-
C16 (growth c05edge) — helper lemmas for Props/C16NoExon.lean: every non-separator operation lies in the run of one
cut, and the runs hold operations of the CIGAR only.
-/
import IsoVerif.Model.Cigar
import IsoVerif.Lemmas.Cigar

namespace IsoVerif.Lemmas.C16
open IsoVerif.Gen IsoVerif.Model IsoVerif.Model.C16

theorem cutsAux_covers : ∀ (rest pre seg : List CigarOp) (o : CigarOp), o ∈ seg ++ rest → isSep o.1 = false →
    ∃ c, c ∈ cutsAux pre seg rest ∧ o ∈ c.2 := by
  intro rest
  induction rest with
  | nil => intro pre seg o ho _; exact ⟨(pre, seg), by simp [cutsAux], by simpa using ho⟩
  | cons op rest ih =>
    intro pre seg o ho hsep
    unfold cutsAux
    by_cases hop : isSep op.1 = true
    · simp only [hop, if_true]
      rcases List.mem_append.1 ho with h | h
      · exact ⟨(pre, seg), List.mem_cons_self, h⟩
      · rcases List.mem_cons.1 h with rfl | h
        · rw [hop] at hsep; cases hsep
        · obtain ⟨c, hc, hoc⟩ := ih (pre ++ seg ++ [op]) [] o (by simpa using h) hsep
          exact ⟨c, List.mem_cons_of_mem _ hc, hoc⟩
    · simp only [hop]
      exact ih pre (seg ++ [op]) o (by simpa [List.append_assoc] using ho) hsep

theorem cutsAux_sub : ∀ (rest pre seg : List CigarOp) (c : List CigarOp × List CigarOp), c ∈ cutsAux pre seg rest →
    ∀ o, o ∈ c.2 → o ∈ seg ++ rest := by
  intro rest
  induction rest with
  | nil => intro pre seg c hc o ho; simp [cutsAux] at hc; subst hc; simpa using ho
  | cons op rest ih =>
    intro pre seg c hc o ho
    unfold cutsAux at hc
    by_cases hop : isSep op.1 = true
    · simp only [hop, if_true] at hc
      rcases List.mem_cons.1 hc with rfl | hc
      · exact List.mem_append_left _ ho
      · have := ih _ _ c hc o ho
        simp at this
        exact List.mem_append_right _ (List.mem_cons_of_mem _ this)
    · simp only [hop] at hc
      have := ih _ _ c hc o ho
      simpa [List.append_assoc] using this

end IsoVerif.Lemmas.C16
