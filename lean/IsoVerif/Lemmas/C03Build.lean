/-
Lemmas about the constructors of novel exon lists (`get_exons`, `correct_novel_transcript_ends`).  Core Lean only.
-/
import IsoVerif.Model.Gtf
import IsoVerif.Lemmas.Interval

namespace IsoVerif.Lemmas.C03
open IsoVerif.Gen IsoVerif.Model IsoVerif.Model.C03 IsoVerif.Lemmas

theorem SD_cons_of_forall {e : Iv} {l : List Iv} (h : ∀ x ∈ l, e.2 < x.1) (hs : SD l) : SD (e :: l) := by
  cases l with
  | nil => trivial
  | cons b t => exact ⟨h b (by simp), hs⟩

/-- intron starts do not decrease along the path -/
def StartsMono (l : List Iv) : Prop := l.Pairwise (fun a b => a.1 ≤ b.1)

theorem SD_startsMono : ∀ (l : List Iv), SD l → WFl l → StartsMono l
  | [], _, _ => List.Pairwise.nil
  | a :: t, hs, hw => by
    refine List.pairwise_cons.mpr ⟨?_, SD_startsMono t (SD_tail hs) (WFl_tail hw)⟩
    intro b hb
    have := SD_all_right hs hw b hb
    have := WFl_head hw
    omega

/-- core of `get_exons`: the blocks between a previous block `a`, an intron list with well-formed introns whose starts
    do not decrease, and a closing block `z` -/
theorem junctions_between (z : Iv) : ∀ (introns : List Iv) (a : Iv), StartsMono introns → WFl introns →
    let E := junctionsFromBlocks (a :: introns ++ [z])
    WFl E ∧ SD E ∧
    (∀ x ∈ E, x.1 = a.2 + 1 ∨ ∃ c ∈ introns, x.1 = c.2 + 1) ∧
    (∀ x ∈ E, x.2 = z.1 - 1 ∨ ∃ c ∈ introns, x.2 = c.1 - 1) := by
  intro introns
  induction introns with
  | nil =>
    intro a _ _
    simp only [List.nil_append, List.cons_append, junctionsFromBlocks]
    split
    · refine ⟨?_, trivial, ?_, ?_⟩
      · intro r hr; simp at hr; subst hr; simp; omega
      · intro x hx; simp at hx; subst hx; left; rfl
      · intro x hx; simp at hx; subst hx; left; rfl
    · exact ⟨fun r hr => (by cases hr), trivial, fun x hx => (by cases hx), fun x hx => (by cases hx)⟩
  | cons i rest ih =>
    intro a hsm hw
    have hsm' := List.pairwise_cons.mp hsm
    have ihh := ih i hsm'.2 (WFl_tail hw)
    simp only at ihh
    obtain ⟨w', s', st', en'⟩ := ihh
    have hiw : i.1 ≤ i.2 := WFl_head hw
    -- every block of the tail starts after the start of intron i
    have hlow : ∀ x ∈ junctionsFromBlocks (i :: rest ++ [z]), i.1 + 1 ≤ x.1 := by
      intro x hx
      rcases st' x hx with h1 | ⟨c, hc, h1⟩
      · omega
      · have := hsm'.1 c hc
        have := WFl_tail hw c hc
        omega
    simp only [List.cons_append, junctionsFromBlocks]
    simp only [List.cons_append] at w' s' st' en' hlow
    split
    · rename_i hgap
      refine ⟨?_, ?_, ?_, ?_⟩
      · intro r hr
        rcases List.mem_cons.mp hr with hr | hr
        · subst hr; simp; omega
        · exact w' r hr
      · apply SD_cons_of_forall _ s'
        intro x hx
        have := hlow x hx
        simp; omega
      · intro x hx
        rcases List.mem_cons.mp hx with hx | hx
        · subst hx; left; rfl
        · rcases st' x hx with h1 | ⟨c, hc, h1⟩
          · right; exact ⟨i, by simp, h1⟩
          · right; exact ⟨c, by simp [hc], h1⟩
      · intro x hx
        rcases List.mem_cons.mp hx with hx | hx
        · subst hx; right; exact ⟨i, by simp, rfl⟩
        · rcases en' x hx with h1 | ⟨c, hc, h1⟩
          · left; exact h1
          · right; exact ⟨c, by simp [hc], h1⟩
    · refine ⟨w', s', ?_, ?_⟩
      · intro x hx
        rcases st' x hx with h1 | ⟨c, hc, h1⟩
        · right; exact ⟨i, by simp, h1⟩
        · right; exact ⟨c, by simp [hc], h1⟩
      · intro x hx
        rcases en' x hx with h1 | ⟨c, hc, h1⟩
        · left; exact h1
        · right; exact ⟨c, by simp [hc], h1⟩

/-! ### the length guard of `construct_fl_isoforms` -/

theorem junctions_length_le : ∀ l : List Iv, (junctionsFromBlocks l).length ≤ l.length - 1
  | [] => by simp [junctionsFromBlocks]
  | [_] => by simp [junctionsFromBlocks]
  | a :: b :: t => by
    have ih := junctions_length_le (b :: t)
    simp only [junctionsFromBlocks]
    split <;> simp at ih ⊢ <;> omega

/-- every block ends at least two positions before the next one starts (a non-empty gap between them) -/
def GapsAll : List Iv → Prop
  | [] => True
  | [_] => True
  | a :: b :: t => a.2 + 1 < b.1 ∧ GapsAll (b :: t)

theorem junctions_full_gaps : ∀ l : List Iv, (junctionsFromBlocks l).length = l.length - 1 → GapsAll l
  | [], _ => trivial
  | [_], _ => trivial
  | a :: b :: t, h => by
    have hle := junctions_length_le (b :: t)
    simp only [junctionsFromBlocks] at h
    split at h
    · rename_i hg
      refine ⟨hg, junctions_full_gaps (b :: t) ?_⟩
      simp at h hle ⊢; omega
    · simp at h hle; omega

theorem gaps_inner_SD (z : Iv) : ∀ (introns : List Iv) (a : Iv), GapsAll (a :: introns ++ [z]) → SD introns
  | [], _, _ => trivial
  | [_], _, _ => trivial
  | i :: j :: rest, a, h => by
    have h1 : GapsAll (i :: j :: rest ++ [z]) := h.2
    refine ⟨?_, gaps_inner_SD z (j :: rest) i h1⟩
    have := h1.1
    omega

/-! ### `setHead` / `setLast` -/

theorem setHead_length (l : List Iv) (x : Iv) : (setHead l x).length = l.length := by
  cases l <;> rfl

theorem setLast_length : ∀ (l : List Iv) (x : Iv), (setLast l x).length = l.length
  | [], _ => rfl
  | [_], _ => rfl
  | a :: b :: t, x => by simp [setLast, setLast_length (b :: t) x]

theorem junctions_setHead (a : Iv) (t : List Iv) (s : Int) :
    junctionsFromBlocks (setHead (a :: t) (s, a.2)) = junctionsFromBlocks (a :: t) := by
  cases t with
  | nil => simp [setHead, junctionsFromBlocks]
  | cons b t' => simp [setHead, junctionsFromBlocks]

theorem SD_setHead (a : Iv) (t : List Iv) (s : Int) (h : SD (a :: t)) : SD (setHead (a :: t) (s, a.2)) := by
  cases t with
  | nil => trivial
  | cons b t' => exact ⟨h.1, h.2⟩

theorem setLast_spec : ∀ (l : List Iv) (t : Iv) (e : Int), l.getLast? = some t →
    junctionsFromBlocks (setLast l (t.1, e)) = junctionsFromBlocks l ∧
    (SD l → SD (setLast l (t.1, e))) ∧
    (setLast l (t.1, e)).getLast? = some (t.1, e) ∧
    (setLast l (t.1, e)).head?.map (·.1) = l.head?.map (·.1) ∧
    (∀ x ∈ setLast l (t.1, e), x ∈ l ∨ x = (t.1, e))
  | [], _, _, h => by simp at h
  | [a], t, e, h => by
    simp at h; subst h
    simp [setLast, junctionsFromBlocks, SD]
  | a :: b :: rest, t, e, h => by
    have h' : (b :: rest).getLast? = some t := by simpa [List.getLast?_cons_cons] using h
    obtain ⟨j, s, g, hd, m⟩ := setLast_spec (b :: rest) t e h'
    have hne : ∃ b' r', setLast (b :: rest) (t.1, e) = b' :: r' ∧ b'.1 = b.1 := by
      cases rest with
      | nil =>
        simp at h'; subst h'
        exact ⟨_, _, rfl, rfl⟩
      | cons c r => exact ⟨b, _, rfl, rfl⟩
    obtain ⟨b', r', hb', hb1⟩ := hne
    refine ⟨?_, ?_, ?_, ?_, ?_⟩
    · simp only [setLast]
      rw [hb'] at j ⊢
      simp only [junctionsFromBlocks, hb1]
      rw [j]
    · intro hsd
      simp only [setLast]
      have := s hsd.2
      rw [hb'] at this ⊢
      exact ⟨by rw [hb1]; exact hsd.1, this⟩
    · simp only [setLast]
      rw [hb'] at g ⊢
      simpa [List.getLast?_cons_cons] using g
    · simp [setLast]
    · intro x hx
      simp only [setLast, List.mem_cons] at hx
      rcases hx with hx | hx
      · left; simp [hx]
      · rcases m x (by simpa using hx) with h1 | h1
        · left; exact List.mem_cons_of_mem _ h1
        · right; exact h1

/-! ### end correction -/

/-- what end correction may do to a transcript: same number of exons, same intron chain, still sorted, disjoint
    and well-formed, start not earlier and end not later than before -/
def Shrunk (orig r : List Iv) : Prop :=
  SD r ∧ WFl r ∧ r.length = orig.length ∧ junctionsFromBlocks r = junctionsFromBlocks orig ∧
  ∀ f t, orig.head? = some f → orig.getLast? = some t →
    ∃ f' t', r.head? = some f' ∧ r.getLast? = some t' ∧ f.1 ≤ f'.1 ∧ t'.2 ≤ t.2

theorem Shrunk.refl (l : List Iv) (hsd : SD l) (hw : WFl l) : Shrunk l l :=
  ⟨hsd, hw, rfl, rfl, fun f t hf ht => ⟨f, t, hf, ht, Int.le_refl _, Int.le_refl _⟩⟩

/-- moving the start of the first exon to the right, inside the exon -/
theorem Shrunk.set_head {orig : List Iv} {a : Iv} {t : List Iv} (h : Shrunk orig (a :: t)) (s : Int)
    (h1 : a.1 ≤ s) (h2 : s ≤ a.2) : Shrunk orig (setHead (a :: t) (s, a.2)) := by
  obtain ⟨hsd, hw, hlen, hj, hb⟩ := h
  refine ⟨SD_setHead a t s hsd, ?_, by rw [setHead_length, hlen], by rw [junctions_setHead, hj], ?_⟩
  · intro r hr
    simp only [setHead, List.mem_cons] at hr
    rcases hr with hr | hr
    · subst hr; exact h2
    · exact hw r (List.mem_cons_of_mem _ hr)
  · intro f tl hf htl
    obtain ⟨f', t', hf', ht', b1, b2⟩ := hb f tl hf htl
    have hf'' : a = f' := by simpa using hf'
    subst hf''
    cases t with
    | nil =>
      simp at ht'; subst ht'
      exact ⟨(s, a.2), (s, a.2), rfl, rfl, by simp; omega, by simpa using b2⟩
    | cons b t'' =>
      refine ⟨(s, a.2), t', rfl, ?_, by simp; omega, b2⟩
      simpa [setHead, List.getLast?_cons_cons] using ht'

/-- moving the end of the last exon to the left, inside the exon -/
theorem Shrunk.set_last {orig l : List Iv} (h : Shrunk orig l) (tl : Iv) (e : Int) (hl : l.getLast? = some tl)
    (h1 : tl.1 ≤ e) (h2 : e ≤ tl.2) : Shrunk orig (setLast l (tl.1, e)) := by
  obtain ⟨hsd, hw, hlen, hj, hb⟩ := h
  obtain ⟨sj, ssd, sg, shd, sm⟩ := setLast_spec l tl e hl
  refine ⟨ssd hsd, ?_, by rw [setLast_length, hlen], by rw [sj, hj], ?_⟩
  · intro r hr
    rcases sm r hr with hr | hr
    · exact hw r hr
    · subst hr; exact h1
  · intro f t hf ht
    obtain ⟨f', t', hf', ht', b1, b2⟩ := hb f t hf ht
    rw [hl] at ht'
    simp only [Option.some.injEq] at ht'
    subst ht'
    rw [hf'] at shd
    cases hh : (setLast l (tl.1, e)).head? with
    | none => simp [hh] at shd
    | some f'' =>
      simp only [hh, Option.map_some, Option.some.injEq] at shd
      exact ⟨f'', (tl.1, e), rfl, sg, by omega, by simp; omega⟩

theorem applyStart_shrunk (a : Iv) (t : List Iv) (last : Iv) (hlast : (a :: t).getLast? = some last)
    (hsd : SD (a :: t)) (hw : WFl (a :: t)) (ns : Option Int) (hns : ∀ s, ns = some s → s > a.1) :
    Shrunk (a :: t) (applyStart (a :: t) a ns) ∧
    (∀ tl, (applyStart (a :: t) a ns).getLast? = some tl → tl.2 = last.2) := by
  have hrefl := Shrunk.refl (a :: t) hsd hw
  have hsame : ∀ tl, (a :: t).getLast? = some tl → tl.2 = last.2 := by
    intro tl h; rw [hlast] at h; simp at h; rw [h]
  unfold applyStart
  cases ns with
  | none => exact ⟨hrefl, hsame⟩
  | some s =>
    simp only
    split
    · rename_i hc
      have hgt := hns s rfl
      refine ⟨hrefl.set_head s (by omega) (by omega), ?_⟩
      intro tl htl
      cases t with
      | nil =>
        simp [setHead] at htl
        simp at hlast
        subst hlast; subst htl; rfl
      | cons b t' =>
        have : (setHead (a :: b :: t') (s, a.2)).getLast? = (a :: b :: t').getLast? := by
          simp [setHead, List.getLast?_cons_cons]
        rw [this] at htl
        exact hsame tl htl
    · exact ⟨hrefl, hsame⟩

theorem applyEnd_shrunk {orig l1 : List Iv} (hsh : Shrunk orig l1) (hne : l1 ≠ []) (bound : Int)
    (hb : ∀ tl, l1.getLast? = some tl → tl.2 = bound) (ne : Option Int) (hne2 : ∀ e, ne = some e → e < bound) :
    ∃ r, applyEnd l1 ne = some r ∧ Shrunk orig r := by
  obtain ⟨last1, hlast1⟩ : ∃ x, l1.getLast? = some x := by
    cases h : l1.getLast? with
    | none => exact absurd (by simpa using h) hne
    | some x => exact ⟨x, rfl⟩
  unfold applyEnd
  rw [hlast1]
  cases ne with
  | none => exact ⟨l1, rfl, hsh⟩
  | some e =>
    simp only
    have hlt := hne2 e rfl
    have := hb last1 hlast1
    split
    · exact ⟨_, rfl, hsh.set_last last1 e hlast1 (by omega) (by omega)⟩
    · exact ⟨l1, rfl, hsh⟩

end IsoVerif.Lemmas.C03
