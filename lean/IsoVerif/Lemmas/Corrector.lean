/-
Helper lemmas for C14 (BED blocks, exon lists built from intron lists, the event loop of the corrector).
Own namespace `IsoVerif.Lemmas.C14` so that nothing clashes with other properties' lemma files.
-/
import IsoVerif.Gen.Prims
import IsoVerif.Model.Interval
import IsoVerif.Model.Bed
import IsoVerif.Model.Corrector
import IsoVerif.Lemmas.Interval

namespace IsoVerif.Lemmas.C14
open IsoVerif.Gen IsoVerif.Model IsoVerif.Model.C14 IsoVerif.Lemmas

/-! ### BED blocks -/

/-- (blockStart, blockSize) of an exon relative to the first exon start `c` -/
def blk (c : Int) (e : Iv) : Int × Int := (e.1 - c, e.2 - e.1 + 1)

/-- consecutive (start, size) blocks do not overlap and ascend -/
def BlocksAscending : List (Int × Int) → Prop
  | [] => True
  | [_] => True
  | a :: b :: t => a.1 + a.2 ≤ b.1 ∧ BlocksAscending (b :: t)

theorem zip_maps_blk (c : Int) (l : List Iv) :
    List.zip (l.map (fun e => e.1 - c)) (l.map (fun e => e.2 - e.1 + 1)) = l.map (blk c) := by
  induction l with
  | nil => rfl
  | cons a t ih => simp only [List.map_cons, List.zip_cons_cons, ih, blk]

theorem ascending_blk_iff (c : Int) (l : List Iv) : BlocksAscending (l.map (blk c)) ↔ SD l := by
  induction l with
  | nil => simp [BlocksAscending, SD]
  | cons a t ih =>
    cases t with
    | nil => simp [BlocksAscending, SD]
    | cons b t' =>
      simp only [List.map_cons, BlocksAscending, SD] at ih ⊢
      rw [ih]
      simp only [blk]
      constructor <;> rintro ⟨h1, h2⟩ <;> exact ⟨by omega, h2⟩

theorem sizes_pos_iff (l : List Iv) : (∀ s ∈ l.map (fun e => e.2 - e.1 + 1), 0 < s) ↔ WFl l := by
  unfold WFl
  constructor
  · intro h r hr
    have := h (r.2 - r.1 + 1) (List.mem_map.mpr ⟨r, hr, rfl⟩)
    omega
  · intro h s hs
    obtain ⟨r, hr, rfl⟩ := List.mem_map.mp hs
    have := h r hr
    omega

theorem first_le_last {l : List Iv} (hsd : SD l) (hw : WFl l) {f t : Iv} (hf : l.head? = some f)
    (ht : l.getLast? = some t) : f.1 ≤ t.2 := by
  induction l generalizing f with
  | nil => simp at hf
  | cons a rest ih =>
    simp at hf; subst hf
    cases rest with
    | nil => simp at ht; subst ht; exact hw a (by simp)
    | cons b rest' =>
      have ht' : (b :: rest').getLast? = some t := by simpa [List.getLast?_cons_cons] using ht
      have := ih (SD_tail hsd) (WFl_tail hw) (f := b) (by simp) ht'
      have := hsd.1
      have := hw a (by simp)
      have := hw b (by simp)
      omega


/-! ### exon lists built from a region and an intron list (`correct_assigned_read`) -/

/-- well-formed intervals, each separated from the next by at least one position
    (exon blocks of an alignment; intron lists of a valid exon chain) -/
def Spaced : List Iv → Prop
  | [] => True
  | [a] => a.1 ≤ a.2
  | a :: b :: t => a.1 ≤ a.2 ∧ a.2 + 1 < b.1 ∧ Spaced (b :: t)

def Spaced.dec : (l : List Iv) → Decidable (Spaced l)
  | [] => isTrue trivial
  | [a] => if h : a.1 ≤ a.2 then isTrue h else isFalse h
  | a :: b :: t =>
    match Spaced.dec (b :: t) with
    | isTrue h =>
      if h1 : a.1 ≤ a.2 then
        if h2 : a.2 + 1 < b.1 then isTrue ⟨h1, h2, h⟩ else isFalse (fun x => h2 x.2.1)
      else isFalse (fun x => h1 x.1)
    | isFalse h => isFalse (fun x => h x.2.2)

instance : DecidablePred Spaced := Spaced.dec

theorem Spaced_tail {a : Iv} {l : List Iv} (h : Spaced (a :: l)) : Spaced l := by
  cases l with
  | nil => trivial
  | cons b t => exact h.2.2

theorem Spaced_head {a : Iv} {l : List Iv} (h : Spaced (a :: l)) : a.1 ≤ a.2 := by
  cases l with
  | nil => exact h
  | cons b t => exact h.1

theorem Spaced_SD {l : List Iv} (h : Spaced l) : SD l := by
  induction l with
  | nil => trivial
  | cons a t ih =>
    cases t with
    | nil => trivial
    | cons b t' => exact ⟨by have := h.2.1; omega, ih h.2.2⟩

theorem Spaced_WFl {l : List Iv} (h : Spaced l) : WFl l := by
  induction l with
  | nil => intro r hr; cases hr
  | cons a t ih =>
    intro r hr
    cases hr with
    | head => exact Spaced_head h
    | tail _ hr' => exact ih (Spaced_tail h) r hr'

theorem junctions_cons_cons_of_lt {a b : Iv} {t : List Iv} (h : a.2 + 1 < b.1) :
    junctionsFromBlocks (a :: b :: t) = (a.2 + 1, b.1 - 1) :: junctionsFromBlocks (b :: t) := by
  simp [junctionsFromBlocks, h]

theorem junctions_cons_cons_of_not_lt {a b : Iv} {t : List Iv} (h : ¬ a.2 + 1 < b.1) :
    junctionsFromBlocks (a :: b :: t) = junctionsFromBlocks (b :: t) := by
  simp [junctionsFromBlocks, h]

/-- the body of `buildExons` for a non-empty intron list `a :: rest` with last element `t` -/
def chain (x y : Int) (a : Iv) (rest : List Iv) (t : Iv) : List Iv :=
  (x, a.1 - 1) :: (junctionsFromBlocks (a :: rest) ++ [(t.2 + 1, y)])

theorem buildExons_cons (reg : Iv) (a : Iv) (rest : List Iv) (t : Iv) (ht : (a :: rest).getLast? = some t) :
    buildExons reg (a :: rest) = chain reg.1 reg.2 a rest t := by
  simp [buildExons, chain, ht]

theorem buildExons_nil (reg : Iv) : buildExons reg [] = [reg] := by simp [buildExons]

theorem getLast?_cons_some {α} (a : α) (l : List α) : ∃ t, (a :: l).getLast? = some t := by
  cases h : (a :: l).getLast? with
  | none => simp at h
  | some t => exact ⟨t, rfl⟩

/-- the junctions of the exon chain built from a gapped intron list are these introns -/
theorem junctions_chain (a : Iv) (rest : List Iv) (x y : Int) (t : Iv) (h : Spaced (a :: rest))
    (ht : (a :: rest).getLast? = some t) :
    junctionsFromBlocks (chain x y a rest t) = a :: rest := by
  unfold chain
  induction rest generalizing a x with
  | nil =>
    simp at ht; subst ht
    have : a.1 ≤ a.2 := h
    simp only [junctionsFromBlocks, List.nil_append]
    have h1 : a.1 - 1 + 1 < a.2 + 1 := by omega
    simp only [h1, if_true]
    congr 1
    ext <;> simp
  | cons b rest' ih =>
    obtain ⟨h1, h2, h3⟩ := h
    have ht' : (b :: rest').getLast? = some t := by simpa [List.getLast?_cons_cons] using ht
    rw [junctions_cons_cons_of_lt h2]
    simp only [List.cons_append]
    have hlt : a.1 - 1 + 1 < a.2 + 1 := by omega
    rw [junctionsFromBlocks]
    simp only [hlt, if_true]
    have := ih b (a.2 + 1) h3 ht'
    rw [this]
    congr 1
    ext <;> simp <;> omega

theorem SD_cons_cons {a b : Iv} {t : List Iv} : SD (a :: b :: t) ↔ a.2 < b.1 ∧ SD (b :: t) := Iff.rfl

theorem WFl_cons {a : Iv} {t : List Iv} : WFl (a :: t) ↔ a.1 ≤ a.2 ∧ WFl t := by
  unfold WFl
  constructor
  · intro h; exact ⟨h a (by simp), fun r hr => h r (by simp [hr])⟩
  · rintro ⟨h1, h2⟩ r hr
    cases hr with
    | head => exact h1
    | tail _ hr' => exact h2 r hr'

/-- weakly monotone intron list: every intron is well formed and neither end moves backwards -/
def Monotone2 : List Iv → Prop
  | [] => True
  | [a] => a.1 ≤ a.2
  | a :: b :: t => a.1 ≤ a.2 ∧ a.1 ≤ b.1 ∧ a.2 ≤ b.2 ∧ Monotone2 (b :: t)

theorem Spaced_Monotone2 {l : List Iv} (h : Spaced l) : Monotone2 l := by
  induction l with
  | nil => trivial
  | cons a t ih =>
    cases t with
    | nil => exact h
    | cons b t' =>
      have hb := Spaced_head h.2.2
      have h1 := h.1
      have h2 := h.2.1
      exact ⟨h1, by omega, by omega, ih h.2.2⟩

/-- lowering the end of the first block keeps a block list sorted and disjoint -/
theorem SD_lower_head {x u u' : Int} {T : List Iv} (h : SD ((x, u) :: T)) (hu : u' ≤ u) : SD ((x, u') :: T) := by
  cases T with
  | nil => trivial
  | cons b t => exact ⟨by have := h.1; simp at this ⊢; omega, h.2⟩

/-- the chain over a weakly monotone intron list inside `(x, y)` is a valid exon list
    (overlapping or touching neighbours are merged by `junctions_from_blocks`) -/
theorem chain_valid_of_monotone (a : Iv) (rest : List Iv) (x y : Int) (t : Iv) (h : Monotone2 (a :: rest))
    (ht : (a :: rest).getLast? = some t) (hx : x < a.1) (hy : t.2 < y) :
    SD (chain x y a rest t) ∧ WFl (chain x y a rest t) := by
  unfold chain
  induction rest generalizing a x with
  | nil =>
    simp at ht; subst ht
    have : a.1 ≤ a.2 := h
    simp only [junctionsFromBlocks, List.nil_append]
    refine ⟨⟨by simp; omega, trivial⟩, ?_⟩
    rw [WFl_cons, WFl_cons]
    exact ⟨by simp; omega, by simp; omega, fun r hr => by cases hr⟩
  | cons b rest' ih =>
    obtain ⟨h1, h2, h3, h4⟩ := h
    have ht' : (b :: rest').getLast? = some t := by simpa [List.getLast?_cons_cons] using ht
    by_cases hlt : a.2 + 1 < b.1
    · rw [junctions_cons_cons_of_lt hlt]
      simp only [List.cons_append]
      obtain ⟨ihs, ihw⟩ := ih b (a.2 + 1) h4 ht' hlt
      refine ⟨⟨by simp; omega, ihs⟩, ?_⟩
      rw [WFl_cons]; exact ⟨by simp; omega, ihw⟩
    · rw [junctions_cons_cons_of_not_lt hlt]
      obtain ⟨ihs, ihw⟩ := ih b x h4 ht' (by omega)
      refine ⟨SD_lower_head ihs (by omega), ?_⟩
      rw [WFl_cons] at ihw ⊢
      exact ⟨by simp; omega, ihw.2⟩

/-- the introns of a sorted, disjoint, well-formed block list are gapped, and the first one starts after the end
    of the first block -/
theorem gapped_junctions_aux (l : List Iv) (hsd : SD l) (hw : WFl l) :
    Spaced (junctionsFromBlocks l) ∧
      ∀ a, l.head? = some a → ∀ j, (junctionsFromBlocks l).head? = some j → a.2 < j.1 := by
  induction l with
  | nil => simp [junctionsFromBlocks, Spaced]
  | cons a t ih =>
    cases t with
    | nil => simp [junctionsFromBlocks, Spaced]
    | cons b t' =>
      obtain ⟨ihg, ihf⟩ := ih (SD_tail hsd) (WFl_tail hw)
      have hab : a.2 < b.1 := hsd.1
      have hb : b.1 ≤ b.2 := hw b (by simp)
      by_cases hlt : a.2 + 1 < b.1
      · rw [junctions_cons_cons_of_lt hlt]
        constructor
        · cases hj : junctionsFromBlocks (b :: t') with
          | nil => simp [Spaced]; omega
          | cons j js =>
            rw [hj] at ihg
            have := ihf b (by simp) j (by simp [hj])
            exact ⟨by simp; omega, by simp; omega, ihg⟩
        · intro a' ha' j hj; simp at ha' hj; subst ha'; subst hj; simp; omega
      · rw [junctions_cons_cons_of_not_lt hlt]
        refine ⟨ihg, ?_⟩
        intro a' ha' j hj; simp at ha'; subst ha'
        have := ihf b (by simp) j hj
        omega

theorem gapped_junctions {l : List Iv} (hsd : SD l) (hw : WFl l) : Spaced (junctionsFromBlocks l) :=
  (gapped_junctions_aux l hsd hw).1

/-- every junction is the gap between two blocks of the list -/
theorem mem_junctions {l : List Iv} {j : Iv} (h : j ∈ junctionsFromBlocks l) :
    ∃ a ∈ l, ∃ b ∈ l, j = (a.2 + 1, b.1 - 1) := by
  induction l with
  | nil => simp [junctionsFromBlocks] at h
  | cons a t ih =>
    cases t with
    | nil => simp [junctionsFromBlocks] at h
    | cons b t' =>
      by_cases hlt : a.2 + 1 < b.1
      · rw [junctions_cons_cons_of_lt hlt] at h
        cases h with
        | head => exact ⟨a, by simp, b, by simp, rfl⟩
        | tail _ h' =>
          obtain ⟨u, hu, v, hv, e⟩ := ih h'
          exact ⟨u, List.mem_cons_of_mem _ hu, v, List.mem_cons_of_mem _ hv, e⟩
      · rw [junctions_cons_cons_of_not_lt hlt] at h
        obtain ⟨u, hu, v, hv, e⟩ := ih h
        exact ⟨u, List.mem_cons_of_mem _ hu, v, List.mem_cons_of_mem _ hv, e⟩

/-- inversion used by `strategy_none_identity`: the exon chain rebuilt from the introns of a gapped exon list
    (at least two exons) is that exon list -/
theorem chain_of_junctions (a b : Iv) (rest : List Iv) (h : Spaced (a :: b :: rest)) (t : Iv)
    (ht : (a :: b :: rest).getLast? = some t) :
    buildExons (a.1, t.2) (junctionsFromBlocks (a :: b :: rest)) = a :: b :: rest := by
  induction rest generalizing a b with
  | nil =>
    simp at ht; subst ht
    obtain ⟨h1, h2, h3⟩ := h
    rw [junctions_cons_cons_of_lt h2]
    simp [buildExons, junctionsFromBlocks]
  | cons c rest' ih =>
    obtain ⟨h1, h2, h3⟩ := h
    have ht' : (b :: c :: rest').getLast? = some t := by simpa [List.getLast?_cons_cons] using ht
    have hbc := h3.2.1
    have hb := h3.1
    have ih' := ih b c h3 ht'
    rw [junctions_cons_cons_of_lt hbc] at ih'
    rw [junctions_cons_cons_of_lt h2, junctions_cons_cons_of_lt hbc]
    obtain ⟨tl, htl⟩ := getLast?_cons_some (b.2 + 1, c.1 - 1) (junctionsFromBlocks (c :: rest'))
    have htl2 : ((a.2 + 1, b.1 - 1) :: (b.2 + 1, c.1 - 1) :: junctionsFromBlocks (c :: rest')).getLast? = some tl := by
      simpa [List.getLast?_cons_cons] using htl
    rw [buildExons_cons _ _ _ tl htl] at ih'
    rw [buildExons_cons _ _ _ tl htl2]
    simp only [chain] at ih' ⊢
    have hj : (a.2 + 1, b.1 - 1).2 + 1 < (b.2 + 1, c.1 - 1).1 := by simp; omega
    rw [junctions_cons_cons_of_lt hj]
    simp only [List.cons_append]
    have hb' : ((b.1, (b.2 + 1, c.1 - 1).1 - 1) : Iv) = b := by ext <;> simp
    rw [hb'] at ih'
    have hb'' : (((a.2 + 1, b.1 - 1).2 + 1, (b.2 + 1, c.1 - 1).1 - 1) : Iv) = b := by ext <;> simp
    rw [hb'']
    have ha' : ((a.1, (a.2 + 1, b.1 - 1).1 - 1) : Iv) = a := by ext <;> simp
    rw [ha']
    simp only [List.cons.injEq, true_and] at ih' ⊢
    exact ih'


/-! ### the validity gate -/

theorem chainSorted_iff (l : List Iv) : chainSorted l = true ↔ SD l := by
  induction l with
  | nil => simp [chainSorted, SD]
  | cons a t ih =>
    cases t with
    | nil => simp [chainSorted, SD]
    | cons b t' => simp only [chainSorted, SD, Bool.and_eq_true, decide_eq_true_eq, ih]

/-- `is_valid_intron_chain` is exactly `Spaced` -/
theorem validIntronChain_iff (ni : List Iv) : validIntronChain ni = true ↔ Spaced ni := by
  induction ni with
  | nil => simp [validIntronChain, intronsSpaced, Spaced]
  | cons a t ih =>
    cases t with
    | nil => simp [validIntronChain, intronsSpaced, Spaced]
    | cons b t' =>
      simp only [validIntronChain, intronsSpaced, Spaced, List.all_cons, Bool.and_eq_true, decide_eq_true_eq] at ih ⊢
      constructor
      · rintro ⟨⟨ha, hall⟩, hg, hs⟩; exact ⟨ha, hg, ih.mp ⟨hall, hs⟩⟩
      · rintro ⟨ha, hg, hsp⟩
        obtain ⟨hall, hs⟩ := ih.mpr hsp
        exact ⟨⟨ha, hall⟩, hg, hs⟩

/-- the introns of a gapped exon list form a valid intron chain -/
theorem junctions_spaced : ∀ (l : List Iv), Spaced l → Spaced (junctionsFromBlocks l)
  | [], _ => trivial
  | [_], _ => trivial
  | [a, b], h => by
    obtain ⟨_, h2, _⟩ := h
    simp only [junctionsFromBlocks, h2, if_true, Spaced]
    omega
  | a :: b :: c :: t, h => by
    obtain ⟨h1, h2, h3⟩ := h
    have ih := junctions_spaced (b :: c :: t) h3
    obtain ⟨h4, h5, _⟩ := h3
    simp only [junctionsFromBlocks, h2, h5, if_true] at ih ⊢
    refine ⟨by simp; omega, by simp; omega, ih⟩

theorem validChain_iff (l : List Iv) : validChain l = true ↔ WFl l ∧ SD l := by
  simp only [validChain, Bool.and_eq_true, chainSorted_iff, List.all_eq_true, decide_eq_true_eq, WFl]

/-- all blocks of a sorted disjoint well-formed list lie between the start of the first and the end of the last -/
theorem SD_bounds {l : List Iv} (hsd : SD l) (hw : WFl l) {f t : Iv} (hf : l.head? = some f)
    (ht : l.getLast? = some t) : ∀ r ∈ l, f.1 ≤ r.1 ∧ r.2 ≤ t.2 := by
  induction l generalizing f with
  | nil => simp at hf
  | cons a rest ih =>
    simp at hf; subst hf
    cases rest with
    | nil =>
      simp at ht; subst ht
      intro r hr; simp at hr; subst hr; exact ⟨by omega, by omega⟩
    | cons b rest' =>
      have ht' : (b :: rest').getLast? = some t := by simpa [List.getLast?_cons_cons] using ht
      have hall := ih (SD_tail hsd) (WFl_tail hw) (f := b) (by simp) ht'
      have hab := hsd.1
      have ha := hw a (by simp)
      have hb := hw b (by simp)
      intro r hr
      cases hr with
      | head => exact ⟨by omega, by have := (hall b (by simp)).2; omega⟩
      | tail _ hr' => have := hall r hr'; exact ⟨by omega, this.2⟩

/-! ### association-list lookups, Python indexing, slices -/

theorem lookup_mem {k : Int} {e : MEvent} {m : List (Int × MEvent)} (h : m.lookup k = some e) : (k, e) ∈ m := by
  induction m with
  | nil => simp at h
  | cons q t ih =>
    obtain ⟨k', e'⟩ := q
    rw [List.lookup_cons] at h
    by_cases hk : k = k'
    · subst hk; simp at h; subst h; simp
    · have : (k == k') = false := by simp [hk]
      rw [this] at h
      exact List.mem_cons_of_mem _ (ih h)

theorem lookup_none_of_keys {k : Int} {m : List (Int × MEvent)} (h : ∀ q ∈ m, q.1 ≠ k) : m.lookup k = none := by
  cases hl : m.lookup k with
  | none => rfl
  | some e => exact absurd rfl (h _ (lookup_mem hl))

theorem pyGet_nonneg {α} (l : List α) (i : Int) (h0 : 0 ≤ i) : pyGet? l i = l[i.toNat]? := by
  simp [pyGet?, h0]

theorem pyGet_inrange (l : List Iv) (i : Int) (h0 : 0 ≤ i) (h1 : i < l.length) :
    ∃ x, pyGet? l i = some x ∧ l[i.toNat]? = some x := by
  rw [pyGet_nonneg l i h0]
  have : i.toNat < l.length := by omega
  exact ⟨l[i.toNat], by simp [this], by simp [this]⟩

theorem pyGet_mem {α} {l : List α} {i : Int} {x : α} (h : pyGet? l i = some x) : x ∈ l := by
  unfold pyGet? at h
  split at h
  · exact List.mem_of_getElem? h
  · split at h
    · exact List.mem_of_getElem? h
    · cases h

theorem rangeGet_mem {l : List Iv} {a : Int} {n : Nat} {xs : List Iv} (h : rangeGet l a n = some xs) :
    ∀ x ∈ xs, ∃ j, a ≤ j ∧ j < a + n ∧ pyGet? l j = some x := by
  induction n generalizing a xs with
  | zero => simp [rangeGet] at h; subst h; intro x hx; cases hx
  | succ n ih =>
    rw [rangeGet] at h
    cases h1 : pyGet? l a with
    | none => simp [h1] at h
    | some y =>
      cases h2 : rangeGet l (a + 1) n with
      | none => simp [h1, h2] at h
      | some ys =>
        simp [h1, h2] at h; subst h
        intro x hx
        cases hx with
        | head => exact ⟨a, by omega, by omega, h1⟩
        | tail _ hx' =>
          obtain ⟨j, hj1, hj2, hj3⟩ := ih h2 x hx'
          exact ⟨j, by omega, by omega, hj3⟩

theorem rangeGet_inrange (l : List Iv) (a : Int) (n : Nat) (h0 : 0 ≤ a) (h1 : a + n ≤ l.length) :
    rangeGet l a n = some ((l.drop a.toNat).take n) := by
  induction n generalizing a with
  | zero => simp [rangeGet]
  | succ n ih =>
    rw [rangeGet]
    obtain ⟨x, hx, hx'⟩ := pyGet_inrange l a h0 (by omega)
    rw [hx, ih (a + 1) (by omega) (by omega)]
    have hlt : a.toNat < l.length := by omega
    have hd : l.drop a.toNat = l[a.toNat] :: l.drop (a.toNat + 1) := List.drop_eq_getElem_cons hlt
    have hx'' : l[a.toNat] = x := by
      have := List.getElem?_eq_getElem hlt
      rw [this] at hx'; exact Option.some.inj hx'
    have ht : (a + 1).toNat = a.toNat + 1 := by omega
    simp only [hd, List.take_succ_cons, ht, hx'']

theorem sliceIncl_inrange (l : List Iv) (a b : Int) (h0 : 0 ≤ a) (h1 : a ≤ b) (h2 : b < l.length) :
    sliceIncl l a b = .ok ((l.drop a.toNat).take (b + 1 - a).toNat) := by
  unfold sliceIncl
  rw [rangeGet_inrange l a (b + 1 - a).toNat h0 (by omega)]

theorem sliceIncl_mem {l : List Iv} {a b : Int} {xs : List Iv} (h : sliceIncl l a b = .ok xs) :
    ∀ x ∈ xs, ∃ j, a ≤ j ∧ j ≤ b ∧ pyGet? l j = some x := by
  unfold sliceIncl at h
  cases hr : rangeGet l a (b + 1 - a).toNat with
  | none => simp [hr] at h
  | some ys =>
    simp [hr] at h; subst h
    intro x hx
    obtain ⟨j, h1, h2, h3⟩ := rangeGet_mem hr x hx
    exact ⟨j, h1, by omega, h3⟩

end IsoVerif.Lemmas.C14
