/-
C11 helper lemmas — the loops of the polyA / polyT code pairs (Model/C11Polya.lean) under shift and reflection.
-/
import IsoVerif.Model.C11Polya
import IsoVerif.Lemmas.C11Mirror

namespace IsoVerif.Lemmas.C11
open IsoVerif.Gen IsoVerif.Model IsoVerif.Model.C11 IsoVerif.Lemmas

theorem countPolytLoop_mirror (L mf pos : Int) (l : List Iv) :
    countPolytLoop mf (L + 1 - pos) (l.map (mirrorIv L)) = countPolyaLoop mf pos l := by
  induction l with
  | nil => rfl
  | cons e es ih =>
    simp only [List.map_cons, countPolytLoop, countPolyaLoop, ih, mirrorIv_fst, mirrorIv_snd]
    grind

theorem countPolyaLoop_mirror (L mf pos : Int) (l : List Iv) :
    countPolyaLoop mf (L + 1 - pos) (l.map (mirrorIv L)) = countPolytLoop mf pos l := by
  induction l with
  | nil => rfl
  | cons e es ih =>
    simp only [List.map_cons, countPolytLoop, countPolyaLoop, ih, mirrorIv_fst, mirrorIv_snd]
    grind

theorem shiftPolytLoop_mirror (L pos : Int) (l : List Iv) (d : Int) :
    shiftPolytLoop (L + 1 - pos) (l.map (mirrorIv L)) d = shiftPolyaLoop pos l d := by
  induction l generalizing d with
  | nil => rfl
  | cons e es ih =>
    simp only [List.map_cons, shiftPolytLoop, shiftPolyaLoop, ih, mirrorIv_fst, mirrorIv_snd, interval_len]
    grind

theorem shiftPolyaLoop_mirror (L pos : Int) (l : List Iv) (d : Int) :
    shiftPolyaLoop (L + 1 - pos) (l.map (mirrorIv L)) d = shiftPolytLoop pos l d := by
  induction l generalizing d with
  | nil => rfl
  | cons e es ih =>
    simp only [List.map_cons, shiftPolytLoop, shiftPolyaLoop, ih, mirrorIv_fst, mirrorIv_snd, interval_len]
    grind

theorem countPolyaLoop_shift (k mf pos : Int) (l : List Iv) :
    countPolyaLoop mf (pos + k) (shiftL k l) = countPolyaLoop mf pos l := by
  induction l with
  | nil => rfl
  | cons e es ih => simp only [shiftL_cons, countPolyaLoop, ih, shiftIv_fst, shiftIv_snd]; grind

theorem countPolytLoop_shift (k mf pos : Int) (l : List Iv) :
    countPolytLoop mf (pos + k) (shiftL k l) = countPolytLoop mf pos l := by
  induction l with
  | nil => rfl
  | cons e es ih => simp only [shiftL_cons, countPolytLoop, ih, shiftIv_fst, shiftIv_snd]; grind

theorem shiftPolyaLoop_shift (k pos : Int) (l : List Iv) (d : Int) :
    shiftPolyaLoop (pos + k) (shiftL k l) d = shiftPolyaLoop pos l d := by
  induction l generalizing d with
  | nil => rfl
  | cons e es ih =>
    simp only [shiftL_cons, shiftPolyaLoop, ih, shiftIv_fst, shiftIv_snd, interval_len]; grind

theorem shiftPolytLoop_shift (k pos : Int) (l : List Iv) (d : Int) :
    shiftPolytLoop (pos + k) (shiftL k l) d = shiftPolytLoop pos l d := by
  induction l generalizing d with
  | nil => rfl
  | cons e es ih =>
    simp only [shiftL_cons, shiftPolytLoop, ih, shiftIv_fst, shiftIv_snd, interval_len]; grind

end IsoVerif.Lemmas.C11
