/-
C16 (proof closure p16spec) — helper lemmas for the finders of the CURRENT tree (`findPolyaTailFix`, `findPolytHeadFix`,
`findPolytHeadWin`: projection after the `P` repair, head window after the window repair).

* the repaired projection as a relation: `moveRefCoordFix cigar shift = some k ↔ ProjectsTo …` (no `padReached` clause) and
  its range;
* the finders with the projection as a parameter, in terms of the scan and the projection (`…With_unfold`), and their
  guards (`polya_found_with`, `polyt_found_with`) — for EVERY projection function;
* the columns between two neighbouring query bases (`refColsUpTo_step`), used by the general position law.
-/
import IsoVerif.Model.FinderMirror
import IsoVerif.Lemmas.FinderChar
import IsoVerif.Lemmas.FinderSpec
import IsoVerif.Lemmas.TailRecord
import IsoVerif.Props.C16Pad

namespace IsoVerif.Lemmas.C16
open IsoVerif.Gen IsoVerif.Model IsoVerif.Model.C16

/-! ### the repaired projection -/

/-- a non-zero shift on a non-empty CIGAR with non-negative lengths: the repaired walk returns `k` iff `k` is the
    base-by-base projection (no condition on `P` operations) -/
theorem moveRefCoordFix_some_iff (cigar : List CigarOp) (shift k : Int) (hnn : NonNeg cigar) (h0 : shift ≠ 0)
    (hne : cigar ≠ []) :
    moveRefCoordFix cigar shift = some k ↔
      ProjectsTo (expand (walkCore cigar (decide (shift > 0)))) shift.natAbs k := by
  rw [IsoVerif.Props.C16Pad.move_ref_coord_fix_eq_spec cigar shift hnn]
  unfold moveRefCoordSpecFix
  simp only [h0, hne, if_false, Option.some.injEq]
  constructor
  · intro h; rw [← h]; exact projectsTo_refColsUpTo _ _
  · intro h; exact (projectsTo_unique _ _ _ _ h (projectsTo_refColsUpTo _ _)).symm

/-- the value of the repaired walk, as one equation -/
theorem moveRefCoordFix_eq (cigar : List CigarOp) (shift : Int) (hnn : NonNeg cigar) (h0 : shift ≠ 0)
    (hne : cigar ≠ []) :
    moveRefCoordFix cigar shift =
      some ((refColsUpTo (expand (walkCore cigar (decide (shift > 0)))) shift.natAbs : Int) - 1) := by
  rw [IsoVerif.Props.C16Pad.move_ref_coord_fix_eq_spec cigar shift hnn]
  unfold moveRefCoordSpecFix
  simp only [h0, hne, if_false]

/-- range of the repaired projection: within `[-1, reference length - 1]`, non-negative when the walk starts on the
    reference (counterpart of `moveRefCoord_some`) -/
theorem moveRefCoordFix_some (cigar : List CigarOp) (shift k : Int) (hnn : NonNeg cigar) (h0 : shift ≠ 0)
    (h : moveRefCoordFix cigar shift = some k) :
    ProjectsTo (expand (walkCore cigar (decide (shift > 0)))) shift.natAbs k ∧ -1 ≤ k ∧ k ≤ refLen cigar - 1 ∧
    (WalkOnRef cigar (decide (shift > 0)) → 0 ≤ k) := by
  have hne : cigar ≠ [] := by
    intro hc
    have := (IsoVerif.Props.C16Pad.move_ref_fix_total cigar shift).2 ⟨h0, hc⟩
    rw [this] at h; cases h
  rw [moveRefCoordFix_eq cigar shift hnn h0 hne] at h
  have hk := (Option.some.inj h).symm
  subst hk
  have h1 := refColsUpTo_le_rCount (expand (walkCore cigar (decide (shift > 0)))) shift.natAbs
  have h2 := rCount_expand (NonNeg_walkCore hnn (decide (shift > 0)))
  have h3 := refLen_walkCore_le hnn (decide (shift > 0))
  refine ⟨projectsTo_refColsUpTo _ _, by omega, by omega, ?_⟩
  rintro ⟨o, rest, hc, hr, hp⟩
  have := refColsUpTo_pos_of_head o rest shift.natAbs hr hp
  rw [hc]; omega

/-- on a non-empty CIGAR the repaired projection always answers -/
theorem moveRefCoordFix_total (cigar : List CigarOp) (shift : Int) (hne : cigar ≠ []) :
    ∃ k, moveRefCoordFix cigar shift = some k := by
  cases hm : moveRefCoordFix cigar shift with
  | none => exact absurd ((IsoVerif.Props.C16Pad.move_ref_fix_total cigar shift).1 hm).2 hne
  | some v => exact ⟨v, rfl⟩

/-! ### the finders, projection as a parameter -/

theorem findPolyaTailWith_unfold (move : List CigarOp → Int → Option Int) (w num den : Nat) (s : Int)
    (cigar : List CigarOp) (seq : List Char) (fromPos toPos : Int) (chk : Bool) (hne : cigar ≠ []) (hseq : seq ≠ [])
    (hclip : softClipTail cigar < seq.length) :
    findPolyaTailWith move w num den s cigar seq fromPos toPos chk =
      match tailScan w num den chk (regionA cigar seq fromPos toPos) with
      | none => some (-1)
      | some p =>
        if (seq.length : Int) - softClipTail cigar ≤ startA cigar seq fromPos + p then
          some (referenceEnd s cigar + (startA cigar seq fromPos + p - ((seq.length : Int) - softClipTail cigar)))
        else
          (move cigar (startA cigar seq fromPos + p - ((seq.length : Int) - softClipTail cigar))).map
            (referenceEnd s cigar - ·) := by
  unfold findPolyaTailWith regionA startA
  simp only [hne, hseq, if_false, hclip, not_true_eq_false]
  cases tailScan w num den chk _ with
  | none => rfl
  | some p =>
    simp only [ge_iff_le]
    split
    · rfl
    · cases move cigar _ <;> rfl

theorem findPolytHeadWith_unfold (move : List CigarOp → Int → Option Int) (w num den : Nat) (s : Int)
    (cigar : List CigarOp) (seq : List Char) (fromPos toPos : Int) (chk : Bool) (hne : cigar ≠ []) (hseq : seq ≠ [])
    (hclip : softClipHead cigar < seq.length) :
    findPolytHeadWith move w num den s cigar seq fromPos toPos chk =
      match tailScan w num den chk (regionT cigar seq fromPos toPos) with
      | none => some (-1)
      | some p =>
        if stopT cigar seq fromPos - p - 1 ≤ softClipHead cigar then
          some (max 1 (s - (softClipHead cigar - (stopT cigar seq fromPos - p - 1))))
        else
          (move cigar (stopT cigar seq fromPos - p - 1 - softClipHead cigar)).map (fun k => max 1 (s + k)) := by
  unfold findPolytHeadWith regionT stopT
  simp only [hne, hseq, if_false, hclip, not_true_eq_false]
  cases tailScan w num den chk _ with
  | none => rfl
  | some p =>
    simp only
    split
    · rfl
    · cases move cigar _ <;> rfl

/-- a position other than −1 reported by `find_polya_tail` (any projection): the record passed the guards and the scan
    found a tail -/
theorem polya_found_with (move : List CigarOp → Int → Option Int) (w num den : Nat) (s : Int) (cigar : List CigarOp)
    (seq : List Char) (fromPos toPos : Int) (chk : Bool) (r : Int)
    (h : findPolyaTailWith move w num den s cigar seq fromPos toPos chk = some r) (hr : r ≠ -1) :
    cigar ≠ [] ∧ seq ≠ [] ∧ softClipTail cigar < seq.length ∧
      ∃ p, tailScan w num den chk (regionA cigar seq fromPos toPos) = some p := by
  unfold findPolyaTailWith at h
  by_cases h1 : cigar = []
  · simp [h1] at h
  by_cases h2 : seq = []
  · simp [h1, h2] at h; omega
  by_cases h3 : softClipTail cigar < seq.length
  · refine ⟨h1, h2, h3, ?_⟩
    simp only [h1, h2, if_false, h3, not_true_eq_false] at h
    unfold regionA
    cases hts : tailScan w num den chk _ with
    | none => rw [hts] at h; simp at h; omega
    | some p => exact ⟨p, rfl⟩
  · simp [h1, h2, h3] at h

theorem polyt_found_with (move : List CigarOp → Int → Option Int) (w num den : Nat) (s : Int) (cigar : List CigarOp)
    (seq : List Char) (fromPos toPos : Int) (chk : Bool) (r : Int)
    (h : findPolytHeadWith move w num den s cigar seq fromPos toPos chk = some r) (hr : r ≠ -1) :
    cigar ≠ [] ∧ seq ≠ [] ∧ softClipHead cigar < seq.length ∧
      ∃ p, tailScan w num den chk (regionT cigar seq fromPos toPos) = some p := by
  unfold findPolytHeadWith at h
  by_cases h1 : cigar = []
  · simp [h1] at h
  by_cases h2 : seq = []
  · simp [h1, h2] at h; omega
  by_cases h3 : softClipHead cigar < seq.length
  · refine ⟨h1, h2, h3, ?_⟩
    simp only [h1, h2, if_false, h3, not_true_eq_false] at h
    unfold regionT
    cases hts : tailScan w num den chk _ with
    | none => rw [hts] at h; simp at h; omega
    | some p => exact ⟨p, rfl⟩
  · simp [h1, h2, h3] at h

/-- the scanned position is an index of the read (tail side) -/
theorem startA_add_lt (w num den : Nat) (hw : 1 ≤ w) (chk : Bool) (cigar : List CigarOp) (seq : List Char)
    (fromPos toPos : Int) (p : Nat) (hts : tailScan w num den chk (regionA cigar seq fromPos toPos) = some p) :
    0 ≤ startA cigar seq fromPos ∧ startA cigar seq fromPos + p < seq.length := by
  have hp := tailScan_lt w num den hw chk _ p hts
  have hlen : (regionA cigar seq fromPos toPos).length ≤
      (min (seq.length : Int) ((seq.length : Int) - softClipTail cigar + toPos + 1)).toNat -
        (startA cigar seq fromPos).toNat := by
    unfold regionA startA; rw [List.length_map]; exact slice_length_le _ _ _
  have hs0 : 0 ≤ startA cigar seq fromPos := by unfold startA; omega
  exact ⟨hs0, by omega⟩

/-- the scanned position is an index of the read (head side) -/
theorem stopT_sub_nonneg (w num den : Nat) (hw : 1 ≤ w) (chk : Bool) (cigar : List CigarOp) (seq : List Char)
    (fromPos toPos : Int) (p : Nat) (hts : tailScan w num den chk (regionT cigar seq fromPos toPos) = some p) :
    0 ≤ stopT cigar seq fromPos - p - 1 := by
  have hp := tailScan_lt w num den hw chk _ p hts
  have hlen : (regionT cigar seq fromPos toPos).length ≤
      (stopT cigar seq fromPos).toNat - (max 0 (softClipHead cigar - toPos)).toNat := by
    unfold regionT stopT; rw [List.length_map, List.length_reverse]; exact slice_length_le _ _ _
  omega

end IsoVerif.Lemmas.C16
