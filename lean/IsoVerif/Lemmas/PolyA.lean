/-
Helper lemmas for C16 (polyA/polyT terminal-exon trimming).
-/
import IsoVerif.Model.PolyA

namespace IsoVerif.Lemmas.C16
open IsoVerif.Gen IsoVerif.Model IsoVerif.Model.C16

/-- every interval is well formed -/
def WFs (l : List Iv) : Prop := ∀ e ∈ l, e.1 ≤ e.2
/-- sorted and pairwise disjoint: `a.2 < b.1` for `a` before `b` -/
def SD (l : List Iv) : Prop := WFs l ∧ l.Pairwise (fun a b => a.2 < b.1)

/-! ### counting loops -/

theorem countPolyaLoop_bounds (mf pos : Int) (l : List Iv) :
    ∀ cnt, cnt ≤ countPolyaLoop mf pos cnt l ∧ countPolyaLoop mf pos cnt l ≤ cnt + l.length := by
  induction l with
  | nil => intro cnt; simp [countPolyaLoop]
  | cons e rest ih =>
    intro cnt
    have h1 := ih cnt
    have h2 := ih (cnt + 1)
    simp only [countPolyaLoop, List.length_cons]
    split
    · omega
    · split <;> omega

theorem countPolytLoop_bounds (mf pos : Int) (l : List Iv) :
    ∀ cnt, cnt ≤ countPolytLoop mf pos cnt l ∧ countPolytLoop mf pos cnt l ≤ cnt + l.length := by
  induction l with
  | nil => intro cnt; simp [countPolytLoop]
  | cons e rest ih =>
    intro cnt
    have h1 := ih cnt
    have h2 := ih (cnt + 1)
    simp only [countPolytLoop, List.length_cons]
    split
    · omega
    · split <;> omega

theorem countPolyaExons_bounds (mf : Int) (l : List Iv) (pos : Int) :
    0 ≤ countPolyaExons mf l pos ∧ countPolyaExons mf l pos ≤ l.length := by
  unfold countPolyaExons
  split
  · omega
  · have := countPolyaLoop_bounds mf pos l.reverse 0
    simp at this; omega

theorem countPolytExons_bounds (mf : Int) (l : List Iv) (pos : Int) :
    0 ≤ countPolytExons mf l pos ∧ countPolytExons mf l pos ≤ l.length := by
  unfold countPolytExons
  split
  · omega
  · have := countPolytLoop_bounds mf pos l 0
    omega

/-! ### the clamp loop of the fixed `correct_read_info` -/

theorem clampLoop_spec : ∀ (fuel : Nat) (n a t : Int), 1 ≤ fuel → a + t - n + 3 ≤ 2 * (fuel : Int) →
    ∃ k : Int, 0 ≤ k ∧ clampLoop fuel n a t = some (a - k, t - k) ∧ (a - k) + (t - k) < n ∧
      (k = 0 ∨ n ≤ (a - k) + (t - k) + 2) := by
  intro fuel
  induction fuel with
  | zero => intro n a t h0 h; omega
  | succ f ih =>
    intro n a t _ h
    by_cases hc : t + a ≥ n
    · obtain ⟨k, hk0, hk, hlt, hmin⟩ := ih n (a - 1) (t - 1) (by omega) (by omega)
      refine ⟨k + 1, by omega, ?_, by omega, by omega⟩
      simp only [clampLoop, hc, if_true]
      rw [hk]
      congr 2 <;> omega
    · refine ⟨0, by omega, ?_, by omega, by omega⟩
      simp [clampLoop, hc]

/-- the fixed `correct_read_info` always returns, and never asks to trim every exon -/
theorem correctReadInfo_spec (mf : Int) (exons : List Iv) (info : PolyAInfo) (hne : exons ≠ []) :
    ∃ a t : Int, correctReadInfo mf exons info = some (a, t) ∧
      (a.toNat + t.toNat < exons.length) ∧
      a ≤ countPolyaExons mf exons info.internalPolyA ∧ t ≤ countPolytExons mf exons info.internalPolyT ∧
      (countPolyaExons mf exons info.internalPolyA + countPolytExons mf exons info.internalPolyT < exons.length →
        a = countPolyaExons mf exons info.internalPolyA ∧ t = countPolytExons mf exons info.internalPolyT) := by
  have hlen : 0 < exons.length := List.length_pos_iff.2 hne
  unfold correctReadInfo
  by_cases h1 : exons.length = 1
  · simp only [h1, if_true]
    have ha := countPolyaExons_bounds mf exons info.internalPolyA
    have ht := countPolytExons_bounds mf exons info.internalPolyT
    refine ⟨0, 0, rfl, by simp, ha.1, ht.1, ?_⟩
    intro h; omega
  · simp only [h1, if_false]
    have ha := countPolyaExons_bounds mf exons info.internalPolyA
    have ht := countPolytExons_bounds mf exons info.internalPolyT
    obtain ⟨k, hk0, hk, hlt, hmin⟩ := clampLoop_spec (exons.length + 2) exons.length
      (countPolyaExons mf exons info.internalPolyA) (countPolytExons mf exons info.internalPolyT)
      (by omega) (by push_cast; omega)
    refine ⟨_, _, hk, ?_, by omega, by omega, ?_⟩
    · omega
    · intro h; rcases hmin with h0 | h0 <;> omega

/-! ### Python indexing -/

theorem pyGet?_neg {α} (l : List α) (i : Int) (h1 : i < 0) (h2 : -(l.length : Int) ≤ i) :
    ∃ x, pyGet? l i = some x ∧ l[((l.length : Int) + i).toNat]? = some x := by
  have hlt : ((l.length : Int) + i).toNat < l.length := by omega
  refine ⟨l[((l.length : Int) + i).toNat], ?_, by simp [hlt]⟩
  unfold pyGet?
  have : ¬ (0 ≤ i) := by omega
  simp [this, h2, hlt]

theorem pyGet?_nonneg {α} (l : List α) (i : Int) (h1 : 0 ≤ i) (h2 : i < l.length) :
    ∃ x, pyGet? l i = some x ∧ l[i.toNat]? = some x := by
  have hlt : i.toNat < l.length := by omega
  refine ⟨l[i.toNat], ?_, by simp [hlt]⟩
  unfold pyGet?
  simp [h1, hlt]

/-! ### `shift_polya` / `shift_polyt` do not raise when at least one exon is kept -/

theorem shiftPolya_some (exons : List Iv) (k pos : Int) (h0 : 0 < k) (h1 : k < exons.length) :
    ∃ v, shiftPolya exons k pos = some v := by
  unfold shiftPolya
  by_cases hc : k = 0 ∨ k = exons.length ∨ pos = -1
  · exact ⟨pos, by simp [hc]⟩
  · obtain ⟨x, hx, _⟩ := pyGet?_neg exons (-k - 1) (by omega) (by omega)
    have : ¬ (k > exons.length) := by omega
    simp [hc, this, hx]

theorem shiftPolyt_some (exons : List Iv) (k pos : Int) (h0 : 0 < k) (h1 : k < exons.length) :
    ∃ v, shiftPolyt exons k pos = some v := by
  unfold shiftPolyt
  by_cases hc : k = 0 ∨ k = exons.length ∨ pos = -1
  · exact ⟨pos, by simp [hc]⟩
  · obtain ⟨x, hx, _⟩ := pyGet?_nonneg exons k (by omega) h1
    have : ¬ (k > exons.length) := by omega
    simp [hc, this, hx]

/-! ### the two trimming halves of `add_polya_info` -/

theorem trimPolyA_spec (st : AInfo) (a : Int) (h : a < st.exons.length) :
    ∃ st1, trimPolyA st a = some st1 ∧
      st1.exons = st.exons.take (st.exons.length - a.toNat) ∧
      st1.readBlocks = st.readBlocks.take (st.readBlocks.length - a.toNat) ∧
      st1.cigarBlocks = st.cigarBlocks.take (st.cigarBlocks.length - a.toNat) ∧
      st1.info.internalPolyT = st.info.internalPolyT ∧ st1.info.externalPolyT = st.info.externalPolyT ∧
      (st1.exonsChanged = (st.exonsChanged || decide (a > 0))) ∧
      st1.readStart = st.readStart ∧ st1.readEnd = st.readEnd ∧
      (a ≤ 0 → st1 = st) ∧
      (0 < a → shiftPolya st.exons a st.info.internalPolyA = some st1.info.internalPolyA ∧
               (shiftPolya st.exons a st.info.externalPolyA).map
                 (clampA st.info.internalPolyA st.info.externalPolyA st1.info.internalPolyA) =
                   some st1.info.externalPolyA) := by
  unfold trimPolyA
  by_cases ha : a > 0
  · obtain ⟨v1, hv1⟩ := shiftPolya_some st.exons a st.info.internalPolyA ha h
    obtain ⟨v2, hv2⟩ := shiftPolya_some st.exons a st.info.externalPolyA ha h
    simp [ha, hv1, hv2]
    omega
  · have h0 : a.toNat = 0 := by omega
    simp [ha, h0]

theorem trimPolyT_spec (st : AInfo) (t : Int) (h : t < st.exons.length) :
    ∃ st1, trimPolyT st t = some st1 ∧
      st1.exons = st.exons.drop t.toNat ∧
      st1.readBlocks = st.readBlocks.drop t.toNat ∧
      st1.cigarBlocks = st.cigarBlocks.drop t.toNat ∧
      st1.info.internalPolyA = st.info.internalPolyA ∧ st1.info.externalPolyA = st.info.externalPolyA ∧
      (st1.exonsChanged = (st.exonsChanged || decide (t > 0))) ∧
      st1.readStart = st.readStart ∧ st1.readEnd = st.readEnd ∧
      (t ≤ 0 → st1 = st) ∧
      (0 < t → shiftPolyt st.exons t st.info.internalPolyT = some st1.info.internalPolyT ∧
               (shiftPolyt st.exons t st.info.externalPolyT).map
                 (clampT st.info.internalPolyT st.info.externalPolyT st1.info.internalPolyT) =
                   some st1.info.externalPolyT) := by
  unfold trimPolyT
  by_cases ht : t > 0
  · obtain ⟨v1, hv1⟩ := shiftPolyt_some st.exons t st.info.internalPolyT ht h
    obtain ⟨v2, hv2⟩ := shiftPolyt_some st.exons t st.info.externalPolyT ht h
    simp [ht, hv1, hv2]
    omega
  · have h0 : t.toNat = 0 := by omega
    simp [ht, h0]

/-! ### the whole of `add_polya_info` -/

/-- structure of a run of `add_polya_info` on a non-empty exon list (fixed code): it does not raise, trims
    `A = max a 0` exons at the 3' end and `T = max t 0` at the 5' end with `A + T < len`, and both position
    pairs are the `shift_*` images on the lists they were computed on -/
theorem addPolyaInfo_spec (mf : Int) (exons rb cb : List Iv) (info : PolyAInfo) (hne : exons ≠ []) :
    ∃ (a t : Int) (st0 st1 st2 r : AInfo),
      correctReadInfo mf exons info = some (a, t) ∧ a.toNat + t.toNat < exons.length ∧
      ainfoInit exons rb cb info = some st0 ∧ st0.exons = exons ∧ st0.info = info ∧
      trimPolyA st0 a = some st1 ∧ trimPolyT st1 t = some st2 ∧ refreshEnds st2 = some r ∧
      addPolyaInfo mf exons rb cb info = some r ∧
      st1.exons = exons.take (exons.length - a.toNat) ∧
      r.exons = (exons.take (exons.length - a.toNat)).drop t.toNat ∧
      r.readBlocks = (rb.take (rb.length - a.toNat)).drop t.toNat ∧
      r.cigarBlocks = (cb.take (cb.length - a.toNat)).drop t.toNat ∧
      r.info = st2.info ∧
      r.exonsChanged = (decide (a > 0) || decide (t > 0)) ∧
      -- positions
      (a ≤ 0 → st1.info = info) ∧
      (0 < a → shiftPolya exons a info.internalPolyA = some st1.info.internalPolyA ∧
               (shiftPolya exons a info.externalPolyA).map
                 (clampA info.internalPolyA info.externalPolyA st1.info.internalPolyA) = some st1.info.externalPolyA) ∧
      st1.info.internalPolyT = info.internalPolyT ∧ st1.info.externalPolyT = info.externalPolyT ∧
      (t ≤ 0 → st2.info = st1.info) ∧
      (0 < t → shiftPolyt st1.exons t info.internalPolyT = some st2.info.internalPolyT ∧
               (shiftPolyt st1.exons t info.externalPolyT).map
                 (clampT info.internalPolyT info.externalPolyT st2.info.internalPolyT) = some st2.info.externalPolyT) ∧
      st2.info.internalPolyA = st1.info.internalPolyA ∧ st2.info.externalPolyA = st1.info.externalPolyA := by
  obtain ⟨a, t, hcri, hlt, _, _, _⟩ := correctReadInfo_spec mf exons info hne
  have hlen : 0 < exons.length := List.length_pos_iff.2 hne
  -- __init__
  obtain ⟨f, hf⟩ : ∃ f, exons.head? = some f := by
    cases exons with
    | nil => exact absurd rfl hne
    | cons x xs => exact ⟨x, rfl⟩
  obtain ⟨l, hl⟩ : ∃ l, exons.getLast? = some l := by
    cases h : exons.getLast? with
    | none => simp at h; exact absurd h hne
    | some l => exact ⟨l, rfl⟩
  let st0 : AInfo := { exons := exons, readBlocks := rb, cigarBlocks := cb, info := info,
                       exonsChanged := false, readStart := f.1, readEnd := l.2 }
  have h0 : ainfoInit exons rb cb info = some st0 := by simp [ainfoInit, hf, hl, st0]
  obtain ⟨st1, h1, h1e, h1r, h1c, h1it, h1et, h1ch, _, _, h1id, h1sh⟩ := trimPolyA_spec st0 a (by simp [st0]; omega)
  have h1len : st1.exons.length = exons.length - a.toNat := by
    rw [h1e]; simp [st0]
  have htlt : t < st1.exons.length := by rw [h1len]; omega
  obtain ⟨st2, h2, h2e, h2r, h2c, h2ia, h2ea, h2ch, _, _, h2id, h2sh⟩ := trimPolyT_spec st1 t htlt
  have h2len : 0 < st2.exons.length := by rw [h2e, List.length_drop, h1len]; omega
  -- the final refresh
  obtain ⟨r, hr, hre, hrr, hrc, hri, hrch⟩ : ∃ r, refreshEnds st2 = some r ∧ r.exons = st2.exons ∧
      r.readBlocks = st2.readBlocks ∧ r.cigarBlocks = st2.cigarBlocks ∧ r.info = st2.info ∧
      r.exonsChanged = st2.exonsChanged := by
    unfold refreshEnds
    by_cases hch : st2.exonsChanged = true
    · have hne2 : st2.exons ≠ [] := List.length_pos_iff.1 h2len
      obtain ⟨f2, hf2⟩ : ∃ f2, st2.exons.head? = some f2 := by
        cases h : st2.exons with
        | nil => exact absurd h hne2
        | cons x xs => exact ⟨x, rfl⟩
      obtain ⟨l2, hl2⟩ : ∃ l2, st2.exons.getLast? = some l2 := by
        cases h : st2.exons.getLast? with
        | none => simp at h; exact absurd h hne2
        | some l => exact ⟨l, rfl⟩
      simp [hch, hf2, hl2]
    · simp [hch]
  refine ⟨a, t, st0, st1, st2, r, hcri, hlt, h0, rfl, rfl, h1, h2, hr, ?_, ?_, ?_, ?_, ?_, hri, ?_,
    ?_, h1sh, h1it, h1et, ?_, ?_, h2ia, h2ea⟩
  · simp [addPolyaInfo, addPolyaInfoWith, h0, hcri, h1, h2, hr]
  · rw [h1e]
  · rw [hre, h2e, h1e]
  · rw [hrr, h2r, h1r]
  · rw [hrc, h2c, h1c]
  · rw [hrch, h2ch, h1ch]; simp [st0]
  · intro h; rw [h1id h]
  · intro h; rw [h2id h]
  · intro h
    obtain ⟨e1, e2⟩ := h2sh h
    have hi : st1.info.internalPolyT = info.internalPolyT := h1it
    have he : st1.info.externalPolyT = info.externalPolyT := h1et
    rw [hi] at e1 e2; rw [he] at e2
    exact ⟨e1, e2⟩

/-! ### the distance loops of `shift_polya` / `shift_polyt` -/

/-- room left before the next exon to be processed by `shift_polya`'s loop -/
def boundA (pos lo : Int) : List Iv → Int
  | [] => pos - lo
  | e :: _ => pos - e.2 - 1

def boundT (pos hi : Int) : List Iv → Int
  | [] => hi - pos
  | e :: _ => e.1 - 1 - pos

/-- `L` = the trimmed exons, last exon first; `lo` bounds their starts from below -/
theorem shiftDistA_bound (pos lo : Int) : ∀ (L : List Iv) (d : Int),
    (∀ e ∈ L, lo ≤ e.1 ∧ e.1 ≤ e.2) → L.Pairwise (fun a b => b.2 < a.1) → 0 ≤ d →
    d ≤ max 0 (boundA pos lo L) →
    d ≤ shiftDistA pos d L ∧ shiftDistA pos d L ≤ max 0 (pos - lo) := by
  intro L
  induction L with
  | nil => intro d _ _ _ h; simp only [shiftDistA]; exact ⟨Int.le_refl _, h⟩
  | cons e rest ih =>
    intro d hwf hp hd hb
    have he := hwf e (by simp)
    have hwf' : ∀ x ∈ rest, lo ≤ x.1 ∧ x.1 ≤ x.2 := fun x hx => hwf x (by simp [hx])
    have hp' := (List.pairwise_cons.1 hp).2
    have hlt := (List.pairwise_cons.1 hp).1
    simp only [boundA] at hb
    simp only [shiftDistA, interval_len]
    have key : ∀ d', d' ≤ max 0 (pos - e.1) → d' ≤ max 0 (boundA pos lo rest) := by
      intro d' hd'
      cases rest with
      | nil => simp only [boundA]; omega
      | cons e' r' =>
        have := hlt e' (by simp)
        simp only [boundA]; omega
    split
    · exact ih d hwf' hp' hd (key d (by omega))
    · split
      · have h := ih (d + (pos - e.1)) hwf' hp' (by omega) (key _ (by omega))
        omega
      · have h := ih (d + (e.2 - e.1 + 1)) hwf' hp' (by omega) (key _ (by omega))
        omega

/-- mirror image for `shift_polyt`: `L` = the trimmed exons, first exon first; `hi` bounds their ends -/
theorem shiftDistT_bound (pos hi : Int) : ∀ (L : List Iv) (d : Int),
    (∀ e ∈ L, e.2 ≤ hi ∧ e.1 ≤ e.2) → L.Pairwise (fun a b => a.2 < b.1) → 0 ≤ d →
    d ≤ max 0 (boundT pos hi L) →
    d ≤ shiftDistT pos d L ∧ shiftDistT pos d L ≤ max 0 (hi - pos) := by
  intro L
  induction L with
  | nil => intro d _ _ _ h; simp only [shiftDistT]; exact ⟨Int.le_refl _, h⟩
  | cons e rest ih =>
    intro d hwf hp hd hb
    have he := hwf e (by simp)
    have hwf' : ∀ x ∈ rest, x.2 ≤ hi ∧ x.1 ≤ x.2 := fun x hx => hwf x (by simp [hx])
    have hp' := (List.pairwise_cons.1 hp).2
    have hlt := (List.pairwise_cons.1 hp).1
    simp only [boundT] at hb
    simp only [shiftDistT, interval_len]
    have key : ∀ d', d' ≤ max 0 (e.2 - pos) → d' ≤ max 0 (boundT pos hi rest) := by
      intro d' hd'
      cases rest with
      | nil => simp only [boundT]; omega
      | cons e' r' =>
        have := hlt e' (by simp)
        simp only [boundT]; omega
    split
    · exact ih d hwf' hp' hd (key d (by omega))
    · split
      · have h := ih (d + (e.2 - pos)) hwf' hp' (by omega) (key _ (by omega))
        omega
      · have h := ih (d + (e.2 - e.1 + 1)) hwf' hp' (by omega) (key _ (by omega))
        omega

theorem SD.drop {l : List Iv} (h : SD l) (n : Nat) : SD (l.drop n) :=
  ⟨fun e he => h.1 e (List.mem_of_mem_drop he), List.Pairwise.sublist (List.drop_sublist n l) h.2⟩

theorem SD.take {l : List Iv} (h : SD l) (n : Nat) : SD (l.take n) :=
  ⟨fun e he => h.1 e (List.mem_of_mem_take he), List.Pairwise.sublist (List.take_sublist n l) h.2⟩

/-- `shift_polya` re-anchors a position at the end of the last retained exon, at a distance bounded by the
    genomic distance from the start of the trimmed part -/
theorem shiftPolya_onto_retained (exons : List Iv) (k pos : Int) (hsd : SD exons) (h0 : 0 < k)
    (h1 : k < exons.length) (hp : pos ≠ -1) :
    ∃ (last first : Iv) (d : Int), exons[exons.length - k.toNat - 1]? = some last ∧
      exons[exons.length - k.toNat]? = some first ∧
      shiftPolya exons k pos = some (last.2 + d) ∧ 0 ≤ d ∧ d ≤ max 0 (pos - first.1) := by
  have hm : exons.length - k.toNat < exons.length := by omega
  obtain ⟨last, hlast, hlast'⟩ := pyGet?_neg exons (-k - 1) (by omega) (by omega)
  have hidx : ((exons.length : Int) + (-k - 1)).toNat = exons.length - k.toNat - 1 := by omega
  rw [hidx] at hlast'
  have hdrop : exons.drop (exons.length - k.toNat) =
      exons[exons.length - k.toNat] :: exons.drop (exons.length - k.toNat + 1) := List.drop_eq_getElem_cons hm
  have hsdd := hsd.drop (exons.length - k.toNat)
  rw [hdrop] at hsdd
  have hfirst_wf : (exons[exons.length - k.toNat]).1 ≤ (exons[exons.length - k.toNat]).2 :=
    hsd.1 _ (List.getElem_mem _)
  have hpw := List.pairwise_cons.1 hsdd.2
  have hb := shiftDistA_bound pos (exons[exons.length - k.toNat]).1 (exons.reverse.take k.toNat) 0
    (by
      intro e he
      rw [List.take_reverse, List.mem_reverse, hdrop] at he
      rcases List.mem_cons.1 he with h | h
      · subst h; exact ⟨Int.le_refl _, hfirst_wf⟩
      · have := hpw.1 e h
        have hw := hsd.1 e (List.mem_of_mem_drop h)
        omega)
    (by
      rw [List.take_reverse, List.pairwise_reverse]
      exact (hsd.drop _).2)
    (Int.le_refl 0) (by omega)
  refine ⟨last, exons[exons.length - k.toNat], shiftDistA pos 0 (exons.reverse.take k.toNat), hlast', by simp [hm],
    ?_, hb.1, hb.2⟩
  unfold shiftPolya
  have hc : ¬ (k = 0 ∨ k = exons.length ∨ pos = -1) := by omega
  have hc2 : ¬ (k > exons.length) := by omega
  simp [hc, hc2, hlast]

/-- mirror image: `shift_polyt` re-anchors a position at the start of the first retained exon -/
theorem shiftPolyt_onto_retained (exons : List Iv) (k pos : Int) (hsd : SD exons) (h0 : 0 < k)
    (h1 : k < exons.length) (hp : pos ≠ -1) :
    ∃ (firstKept lastTrimmed : Iv) (d : Int), exons[k.toNat]? = some firstKept ∧
      exons[k.toNat - 1]? = some lastTrimmed ∧
      shiftPolyt exons k pos = some (firstKept.1 - d) ∧ 0 ≤ d ∧ d ≤ max 0 (lastTrimmed.2 - pos) := by
  have hk : k.toNat < exons.length := by omega
  have hk1 : k.toNat - 1 < exons.length := by omega
  obtain ⟨fk, hfk, hfk'⟩ := pyGet?_nonneg exons k (by omega) h1
  -- the trimmed prefix ends with `exons[k-1]`
  have hsdt := hsd.take k.toNat
  have hmem : ∀ e ∈ exons.take k.toNat, e.2 ≤ (exons[k.toNat - 1]).2 ∧ e.1 ≤ e.2 := by
    intro e he
    refine ⟨?_, hsdt.1 e he⟩
    obtain ⟨i, hi, rfl⟩ := List.mem_iff_getElem.1 he
    rw [List.length_take] at hi
    rw [List.getElem_take]
    by_cases hik : i = k.toNat - 1
    · subst hik; exact Int.le_refl _
    · have hlt : i < k.toNat - 1 := by omega
      have := List.pairwise_iff_getElem.1 hsd.2 i (k.toNat - 1) (by omega) hk1 hlt
      have hw := hsd.1 (exons[k.toNat - 1]) (List.getElem_mem _)
      omega
  have hb := shiftDistT_bound pos (exons[k.toNat - 1]).2 (exons.take k.toNat) 0 hmem hsdt.2 (Int.le_refl 0) (by omega)
  refine ⟨fk, exons[k.toNat - 1], shiftDistT pos 0 (exons.take k.toNat), hfk', by simp [hk1], ?_, hb.1, hb.2⟩
  unfold shiftPolyt
  have hc : ¬ (k = 0 ∨ k = exons.length ∨ pos = -1) := by omega
  have hc2 : ¬ (k > exons.length) := by omega
  simp [hc, hc2, hfk]

theorem shiftPolya_none_found (exons : List Iv) (k : Int) : shiftPolya exons k (-1) = some (-1) := by
  simp [shiftPolya]

theorem shiftPolyt_none_found (exons : List Iv) (k : Int) : shiftPolyt exons k (-1) = some (-1) := by
  simp [shiftPolyt]

/-! ### counts as (upper bounds by) `countP` of a per-exon predicate -/

def polyaCounted (mf pos : Int) (e : Iv) : Bool := decide (e.2 > pos) && isPolyaExon mf pos e
def polytCounted (mf pos : Int) (e : Iv) : Bool := decide (e.1 < pos) && isPolytExon mf pos e

theorem countPolyaLoop_le_countP (mf pos : Int) (l : List Iv) :
    ∀ cnt, countPolyaLoop mf pos cnt l ≤ cnt + (l.countP (polyaCounted mf pos) : Nat) := by
  induction l with
  | nil => intro cnt; simp [countPolyaLoop]
  | cons e rest ih =>
    intro cnt
    have h1 := ih cnt
    have h2 := ih (cnt + 1)
    simp only [countPolyaLoop, List.countP_cons, polyaCounted]
    split
    · omega
    · rename_i hgt
      have hgt' : e.2 > pos := by omega
      split
      · rename_i hp; simp [hgt', hp]; omega
      · rename_i hp; simp [hp]; omega

theorem countPolytLoop_le_countP (mf pos : Int) (l : List Iv) :
    ∀ cnt, countPolytLoop mf pos cnt l ≤ cnt + (l.countP (polytCounted mf pos) : Nat) := by
  induction l with
  | nil => intro cnt; simp [countPolytLoop]
  | cons e rest ih =>
    intro cnt
    have h1 := ih cnt
    have h2 := ih (cnt + 1)
    simp only [countPolytLoop, List.countP_cons, polytCounted]
    split
    · omega
    · rename_i hgt
      have hgt' : e.1 < pos := by omega
      split
      · rename_i hp; simp [hgt', hp]; omega
      · rename_i hp; simp [hp]; omega

theorem countP_add_le_of_disjoint {α} (p q : α → Bool) (l : List α) (h : ∀ x ∈ l, ¬ (p x = true ∧ q x = true)) :
    l.countP p + l.countP q ≤ l.length := by
  induction l with
  | nil => simp
  | cons x xs ih =>
    have hx := h x (by simp)
    have := ih (fun y hy => h y (by simp [hy]))
    simp only [List.countP_cons, List.length_cons]
    cases hp : p x <;> cases hq : q x <;> simp_all <;> omega

/-! ### the internal position: removed exons are exactly exons that end after it -/

theorem shiftDistA_append (pos : Int) : ∀ (A B : List Iv) (d : Int),
    shiftDistA pos d (A ++ B) = shiftDistA pos (shiftDistA pos d A) B := by
  intro A
  induction A with
  | nil => intro B d; rfl
  | cons e es ih =>
    intro B d
    simp only [List.cons_append, shiftDistA]
    split
    · exact ih B d
    · split <;> exact ih B _

theorem shiftDistA_all_skip (pos : Int) : ∀ (L : List Iv) (d : Int), (∀ e ∈ L, e.1 > pos) → shiftDistA pos d L = d := by
  intro L
  induction L with
  | nil => intro d _; rfl
  | cons e es ih =>
    intro d h
    have he := h e (by simp)
    simp only [shiftDistA, he, if_true]
    exact ih d (fun x hx => h x (by simp [hx]))

theorem countPolyaLoop_le_takeWhile (mf pos : Int) (l : List Iv) :
    ∀ cnt, countPolyaLoop mf pos cnt l ≤ cnt + ((l.takeWhile (fun e => decide (e.2 > pos))).length : Nat) := by
  induction l with
  | nil => intro cnt; simp [countPolyaLoop]
  | cons e rest ih =>
    intro cnt
    have h1 := ih cnt
    have h2 := ih (cnt + 1)
    simp only [countPolyaLoop, List.takeWhile_cons]
    split
    · rename_i hle
      have : ¬ (e.2 > pos) := by omega
      simp [this]
    · rename_i hgt
      have : e.2 > pos := by omega
      simp only [this, decide_true, if_true, List.length_cons]
      split <;> omega

theorem take_le_takeWhile {α} (p : α → Bool) : ∀ (l : List α) (k : Nat), k ≤ (l.takeWhile p).length →
    ∀ e ∈ l.take k, p e = true := by
  intro l
  induction l with
  | nil => intro k _ e he; simp at he
  | cons x xs ih =>
    intro k hk e he
    cases k with
    | zero => simp at he
    | succ k' =>
      by_cases hx : p x = true
      · simp only [List.takeWhile_cons, hx, if_true, List.length_cons] at hk
        rcases List.mem_cons.1 (by simpa using he) with h | h
        · subst h; exact hx
        · exact ih k' (by omega) e h
      · simp [hx] at hk

/-- the last `k ≤ count_polya_exons` exons all end after the internal polyA position -/
theorem last_counted_end_after (mf : Int) (exons : List Iv) (pos : Int) (k : Nat)
    (hk : (k : Int) ≤ countPolyaExons mf exons pos) (hk0 : 0 < k) :
    ∀ e ∈ exons.drop (exons.length - k), e.2 > pos := by
  unfold countPolyaExons at hk
  split at hk
  · omega
  · have h1 := countPolyaLoop_le_takeWhile mf pos exons.reverse 0
    have h2 : k ≤ (exons.reverse.takeWhile (fun e => decide (e.2 > pos))).length := by omega
    intro e he
    have := take_le_takeWhile _ exons.reverse k h2 e (by rw [List.take_reverse, List.mem_reverse]; exact he)
    simpa using this

theorem shiftPolya_eq (exons : List Iv) (k pos : Int) (h0 : 0 < k) (h1 : k < exons.length) (hp : pos ≠ -1) :
    ∃ last : Iv, exons[exons.length - k.toNat - 1]? = some last ∧
      shiftPolya exons k pos = some (last.2 + shiftDistA pos 0 (exons.reverse.take k.toNat)) := by
  obtain ⟨last, hlast, hlast'⟩ := pyGet?_neg exons (-k - 1) (by omega) (by omega)
  have hidx : ((exons.length : Int) + (-k - 1)).toNat = exons.length - k.toNat - 1 := by omega
  rw [hidx] at hlast'
  refine ⟨last, hlast', ?_⟩
  unfold shiftPolya
  have hc : ¬ (k = 0 ∨ k = exons.length ∨ pos = -1) := by omega
  have hc2 : ¬ (k > exons.length) := by omega
  simp [hc, hc2, hlast]

/-- when the removed exons all end after `pos` (as the counted ones do), only the first removed exon can
    contribute to the distance: it is `max 0 (pos - first.1)` -/
theorem shiftDistA_counted (exons : List Iv) (k : Nat) (pos : Int) (hsd : SD exons) (hk0 : 0 < k)
    (hk : k < exons.length) (hend : ∀ e ∈ exons.drop (exons.length - k), e.2 > pos) :
    shiftDistA pos 0 (exons.reverse.take k) = max 0 (pos - (exons[exons.length - k]'(by omega)).1) := by
  have hm : exons.length - k < exons.length := by omega
  have hdrop : exons.drop (exons.length - k) = exons[exons.length - k] :: exons.drop (exons.length - k + 1) :=
    List.drop_eq_getElem_cons hm
  have hsdd := (hsd.drop (exons.length - k)).2
  rw [hdrop] at hsdd
  have hpw := (List.pairwise_cons.1 hsdd).1
  have hf := hend (exons[exons.length - k]) (by rw [hdrop]; exact List.mem_cons_self)
  rw [List.take_reverse, hdrop, List.reverse_cons, shiftDistA_append,
    shiftDistA_all_skip pos _ 0 (by
      intro e he
      have he' := List.mem_reverse.1 he
      have := hpw e he'
      omega)]
  simp only [shiftDistA]
  split
  · omega
  · simp; omega

/-! ### mirror image for the internal polyT position (c16x) -/

theorem shiftDistT_append (pos : Int) : ∀ (A B : List Iv) (d : Int),
    shiftDistT pos d (A ++ B) = shiftDistT pos (shiftDistT pos d A) B := by
  intro A
  induction A with
  | nil => intro B d; rfl
  | cons e es ih =>
    intro B d
    simp only [List.cons_append, shiftDistT]
    split
    · exact ih B d
    · split <;> exact ih B _

theorem shiftDistT_all_skip (pos : Int) : ∀ (L : List Iv) (d : Int), (∀ e ∈ L, e.2 < pos) → shiftDistT pos d L = d := by
  intro L
  induction L with
  | nil => intro d _; rfl
  | cons e es ih =>
    intro d h
    have he := h e (by simp)
    simp only [shiftDistT, he, if_true]
    exact ih d (fun x hx => h x (by simp [hx]))

theorem countPolytLoop_le_takeWhile (mf pos : Int) (l : List Iv) :
    ∀ cnt, countPolytLoop mf pos cnt l ≤ cnt + ((l.takeWhile (fun e => decide (e.1 < pos))).length : Nat) := by
  induction l with
  | nil => intro cnt; simp [countPolytLoop]
  | cons e rest ih =>
    intro cnt
    have h1 := ih cnt
    have h2 := ih (cnt + 1)
    simp only [countPolytLoop, List.takeWhile_cons]
    split
    · rename_i hle
      have : ¬ (e.1 < pos) := by omega
      simp [this]
    · rename_i hgt
      have : e.1 < pos := by omega
      simp only [this, decide_true, if_true, List.length_cons]
      split <;> omega

/-- the first `k ≤ count_polyt_exons` exons all start before the internal polyT position -/
theorem first_counted_start_before (mf : Int) (exons : List Iv) (pos : Int) (k : Nat)
    (hk : (k : Int) ≤ countPolytExons mf exons pos) (hk0 : 0 < k) :
    ∀ e ∈ exons.take k, e.1 < pos := by
  unfold countPolytExons at hk
  split at hk
  · omega
  · have h1 := countPolytLoop_le_takeWhile mf pos exons 0
    have h2 : k ≤ (exons.takeWhile (fun e => decide (e.1 < pos))).length := by omega
    intro e he
    have := take_le_takeWhile _ exons k h2 e he
    simpa using this

theorem shiftPolyt_eq (exons : List Iv) (k pos : Int) (h0 : 0 < k) (h1 : k < exons.length) (hp : pos ≠ -1) :
    ∃ fk : Iv, exons[k.toNat]? = some fk ∧
      shiftPolyt exons k pos = some (fk.1 - shiftDistT pos 0 (exons.take k.toNat)) := by
  obtain ⟨fk, hfk, hfk'⟩ := pyGet?_nonneg exons k (by omega) h1
  refine ⟨fk, hfk', ?_⟩
  unfold shiftPolyt
  have hc : ¬ (k = 0 ∨ k = exons.length ∨ pos = -1) := by omega
  have hc2 : ¬ (k > exons.length) := by omega
  simp [hc, hc2, hfk]

/-- when the removed exons all start before `pos` (as the counted ones do), only the last removed exon can
    contribute to the distance: it is `max 0 (last.2 - pos)` -/
theorem shiftDistT_counted (exons : List Iv) (k : Nat) (pos : Int) (hsd : SD exons) (hk0 : 0 < k)
    (hk : k < exons.length) (hstart : ∀ e ∈ exons.take k, e.1 < pos) :
    shiftDistT pos 0 (exons.take k) = max 0 ((exons[k - 1]'(by omega)).2 - pos) := by
  have hk1 : k - 1 < exons.length := by omega
  have htake : exons.take k = exons.take (k - 1) ++ [exons[k - 1]] := by
    have : k = (k - 1) + 1 := by omega
    conv => lhs; rw [this]
    rw [List.take_succ_eq_append_getElem hk1]
  have hmem : exons[k - 1] ∈ exons.take (k - 1) ++ [exons[k - 1]] :=
    List.mem_append_right _ (List.mem_singleton.2 rfl)
  rw [← htake] at hmem
  have hl := hstart (exons[k - 1]) hmem
  rw [htake, shiftDistT_append, shiftDistT_all_skip pos _ 0 (by
    intro e he
    obtain ⟨i, hi, rfl⟩ := List.mem_iff_getElem.1 he
    rw [List.length_take] at hi
    rw [List.getElem_take]
    have := List.pairwise_iff_getElem.1 hsd.2 i (k - 1) (by omega) hk1 (by omega)
    omega)]
  simp only [shiftDistT]
  split
  · omega
  · simp; omega

/-! ### the clamp of the repaired `add_polya_info` -/

theorem clampA_le (oi oe ni ne : Int) : clampA oi oe ni ne ≤ ne := by
  unfold clampA; split <;> omega

theorem clampA_both (oi oe ni ne : Int) (h1 : oi ≠ -1) (h2 : oe ≠ -1) : clampA oi oe ni ne = min ne ni := by
  simp [clampA, h1, h2]

theorem clampT_ge (oi oe ni ne : Int) : ne ≤ clampT oi oe ni ne := by
  unfold clampT; split <;> omega

theorem clampT_both (oi oe ni ne : Int) (h1 : oi ≠ -1) (h2 : oe ≠ -1) : clampT oi oe ni ne = max ne ni := by
  simp [clampT, h1, h2]

end IsoVerif.Lemmas.C16
