/-
Helper lemmas for C08 that speak about the declarative classes of Props/C08Spec.lean (bridges between the Boolean
class tests of the model and the classes of the statement; permutation invariance; uniqueness of the best
uninformative alignment).  Core Lean only.
-/
import IsoVerif.Model.Resolver
import IsoVerif.Lemmas.Resolver
import IsoVerif.Props.C08Spec

namespace IsoVerif.Lemmas.ResolverSpec
open IsoVerif.Gen IsoVerif.Model.Resolver IsoVerif.Lemmas.Resolver IsoVerif.Props.C08

theorem isPrimaryUnique_iff (r : Rec) : isPrimaryUnique r = true ↔ PU r := by
  simp only [isPrimaryUnique, PU, Cons, Bool.and_eq_true, isCons_iff, Bool.not_eq_true', beq_eq_false_iff_ne, ne_eq]
  constructor
  · rintro ⟨⟨h1, h2⟩, h3⟩; exact ⟨h1, h2, h3⟩
  · rintro ⟨h1, h2, h3⟩; exact ⟨⟨h1, h2⟩, h3⟩

theorem isPrimaryInc_iff (r : Rec) : isPrimaryInc r = true ↔ PInc r := by
  simp [isPrimaryInc, PInc, Inc, isInc]

theorem isNoninf_iff (r : Rec) : isNoninf r = true ↔ ¬ Cons r ∧ ¬ Inc r := by
  simp only [isNoninf, Cons, Inc, Bool.and_eq_true, Bool.not_eq_true', Bool.not_eq_true]
  exact ⟨fun h => ⟨h.2, h.1⟩, fun h => ⟨h.2, h.1⟩⟩

theorem class_nonempty_iff (l : List Rec) (p : Rec → Bool) (P : Rec → Prop) (hp : ∀ r, p r = true ↔ P r) :
    (!(l.zipIdx.filter (fun x => p x.1)).isEmpty) = true ↔ Has P l := by
  rw [Bool.not_eq_true', ← Bool.not_eq_true, filter_zipIdx_isEmpty_iff]
  simp only [Has]
  constructor
  · intro h
    apply Classical.byContradiction
    intro hn
    apply h
    intro r hr
    cases hpr : p r with
    | false => rfl
    | true => exact absurd ⟨r, hr, (hp r).mp hpr⟩ hn
  · rintro ⟨q, hq, hP⟩ h
    have := h q hq
    rw [(hp q).mpr hP] at this; cases this

theorem PU_cons {r : Rec} (h : PU r) : Cons r := h.1
theorem not_cons_of_inc {r : Rec} (h : Inc r) : ¬ Cons r := fun hc => consistent_inconsistent_disjoint r.atype ⟨hc, h⟩

theorem has_perm {P : Rec → Prop} {l l' : List Rec} (hp : l.Perm l') : Has P l ↔ Has P l' := by
  simp only [Has]
  constructor
  · rintro ⟨q, hq, h⟩; exact ⟨q, hp.mem_iff.mp hq, h⟩
  · rintro ⟨q, hq, h⟩; exact ⟨q, hp.mem_iff.mpr hq, h⟩

theorem winner_perm {l l' : List Rec} (hp : l.Perm l') (r : Rec) : Winner l r ↔ Winner l' r := by
  have hm : ∀ q, q ∈ l ↔ q ∈ l' := fun q => hp.mem_iff
  simp only [Winner, MinPenaltyAmong, BestUninformative, has_perm (P := PU) hp, has_perm (P := Cons) hp,
    has_perm (P := PInc) hp, has_perm (P := Inc) hp, hm]

theorem key_eq_of_sameAlignment {r r' : Rec} (h : SameAlignment r r') : key r' = key r := by
  obtain ⟨_, _, h3, h4, h5, _, _, _, h9, _⟩ := h
  simp [key, h3, h4, h5, h9]

theorem map_ofNat_inj : ∀ (xs ys : List Nat), xs.map (fun n => Int.ofNat n) = ys.map (fun n => Int.ofNat n) → xs = ys
  | [], [], _ => rfl
  | [], _ :: _, h => by simp at h
  | _ :: _, [], h => by simp at h
  | x :: xs, y :: ys, h => by
    simp only [List.map_cons, List.cons.injEq] at h
    rw [Int.ofNat.inj h.1, map_ofNat_inj xs ys h.2]

theorem key_eq_of_tieKey_eq {a b : Rec} (h : tieKey a = tieKey b) : key a = key b := by
  simp only [tieKey, List.cons_append, List.nil_append, List.cons.injEq] at h
  obtain ⟨_, h2, h3, h4, h5⟩ := h
  have h2' : a.chr = b.chr := by exact_mod_cast h2
  have h5' : a.isoforms = b.isoforms := map_ofNat_inj _ _ h5
  simp [key, h2', h3, h4, h5']

/-- two `Winner`s among uninformative-only records stand for the same alignment -/
theorem best_uninformative_unique {l : List Rec} {a b : Rec} (ha : a ∈ l) (hb : b ∈ l)
    (hA : BestUninformative l a) (hB : BestUninformative l b) : key a = key b := by
  have h1 := hA.1 b hb
  have h2 := hB.1 a ha
  have hov : overlapLen a = overlapLen b := by omega
  exact key_eq_of_tieKey_eq (List.le_antisymm (hA.2 b hb hov.symm) (hB.2 a ha hov))

end IsoVerif.Lemmas.ResolverSpec
