/-
Helper lemmas for Props/C04Similar.lean: the two loops of `detect_similar_isoforms` (keys only grow, every entry is
justified by a verdict, models that stay unsubstituted were compared and did not match), the second loop of
`filter_transcripts` as a list filter, `filterLoopC` against `filterLoopG`, `read_assignment_counts` against
`transcript_read_ids`.
-/
import IsoVerif.Model.SimilarIsoforms
import IsoVerif.Lemmas.IntronGraph
import IsoVerif.Lemmas.ModelConstruction

namespace IsoVerif.Lemmas.C04
open IsoVerif.Gen IsoVerif.Model IsoVerif.Model.C04

/-! ### association lists -/

theorem amHas_amSet {α β} [DecidableEq α] (m : List (α × β)) (k t : α) (v : β) :
    amHas (amSet m k v) t = (decide (t = k) || amHas m t) := by
  unfold amHas
  by_cases h : t = k
  · subst h; simp [amGet?_amSet_self]
  · simp [amGet?_amSet_ne _ _ _ _ h, h]

theorem amHas_iff_mem_keys {α β} [DecidableEq α] (m : List (α × β)) (k : α) : amHas m k = true ↔ k ∈ amKeys m := by
  induction m with
  | nil => simp [amHas, amGet?, amKeys]
  | cons a t ih =>
    obtain ⟨k', v⟩ := a
    simp only [amHas, amKeys, List.map_cons, List.mem_cons] at ih ⊢
    by_cases h : k' = k
    · simp [amGet?, h]
    · have h' : ¬ k = k' := fun e => h e.symm
      simp [amGet?, h, h', ih]

theorem amHas_of_mem {α β} [DecidableEq α] {m : List (α × β)} {k : α} {v : β} (h : (k, v) ∈ m) : amHas m k = true :=
  (amHas_iff_mem_keys m k).2 (by simp only [amKeys, List.mem_map]; exact ⟨(k, v), h, rfl⟩)

/-! ### detect_similar_isoforms -/

/-- `m` is compared with `model` whenever it is not substituted yet (the static part of the inner guard) -/
def Comparable (model m : TModel) : Prop :=
  m.ttype ≠ .known ∧ m.tid ≠ model.tid ∧ m.exons.length ≠ 1 ∧ m.intronPath ≠ [] ∧ m.exons.length ≤ model.exons.length

theorem simSkip_false_iff (sub : List (String × String)) (model m : TModel) :
    simSkip sub model m = false ↔ (Comparable model m ∧ amHas sub m.tid = false) := by
  unfold simSkip Comparable
  simp only [Bool.or_eq_false_iff, decide_eq_false_iff_not, List.isEmpty_eq_false_iff, Nat.not_lt, ne_eq]
  constructor
  · rintro ⟨⟨⟨⟨⟨h1, h2⟩, h3⟩, h4⟩, h5⟩, h6⟩; exact ⟨⟨h1, h2, h4, h5, h6⟩, h3⟩
  · rintro ⟨⟨h1, h2, h4, h5, h6⟩, h3⟩; exact ⟨⟨⟨⟨⟨h1, h2⟩, h3⟩, h4⟩, h5⟩, h6⟩

section loops
variable {γ : Type} (prep : TModel → Option γ) (verdict : γ → TModel → Option Bool)

theorem simInner_mono (g : γ) (model : TModel) : ∀ (l : List TModel) (sub sub' : List (String × String)),
    simInner verdict g model l sub = some sub' → ∀ k, amHas sub k = true → amHas sub' k = true := by
  intro l
  induction l with
  | nil => intro sub sub' h k hk; simp only [simInner, Option.some.injEq] at h; subst h; exact hk
  | cons m t ih =>
    intro sub sub' h k hk
    simp only [simInner] at h
    split at h
    · exact ih _ _ h k hk
    · split at h
      · simp at h
      · exact ih _ _ h k (by rw [amHas_amSet]; simp [hk])
      · exact ih _ _ h k hk

theorem simInner_sound (g : γ) (model : TModel) : ∀ (l : List TModel) (sub sub' : List (String × String)),
    simInner verdict g model l sub = some sub' →
    ∀ kv ∈ sub', kv ∈ sub ∨ ∃ m ∈ l, kv = (m.tid, model.tid) ∧ Comparable model m ∧ verdict g m = some true := by
  intro l
  induction l with
  | nil => intro sub sub' h kv hkv; simp only [simInner, Option.some.injEq] at h; subst h; exact Or.inl hkv
  | cons m t ih =>
    intro sub sub' h kv hkv
    simp only [simInner] at h
    split at h
    · rcases ih _ _ h kv hkv with h1 | ⟨x, hx, hr⟩
      · exact Or.inl h1
      · exact Or.inr ⟨x, by simp [hx], hr⟩
    · rename_i hskip
      have hc := ((simSkip_false_iff sub model m).1 (by simpa using hskip)).1
      split at h
      · simp at h
      · rename_i hv
        rcases ih _ _ h kv hkv with h1 | ⟨x, hx, hr⟩
        · rcases mem_amSet h1 with h2 | h2
          · exact Or.inr ⟨m, by simp, h2, hc, hv⟩
          · exact Or.inl h2
        · exact Or.inr ⟨x, by simp [hx], hr⟩
      · rcases ih _ _ h kv hkv with h1 | ⟨x, hx, hr⟩
        · exact Or.inl h1
        · exact Or.inr ⟨x, by simp [hx], hr⟩

theorem simInner_complete (g : γ) (model : TModel) : ∀ (l : List TModel) (sub sub' : List (String × String)),
    simInner verdict g model l sub = some sub' →
    ∀ m ∈ l, Comparable model m → amHas sub' m.tid = false → verdict g m = some false := by
  intro l
  induction l with
  | nil => intro sub sub' _ m hm; simp at hm
  | cons a t ih =>
    intro sub sub' h m hm hc hno
    simp only [simInner] at h
    simp only [List.mem_cons] at hm
    split at h
    · rename_i hskip
      rcases hm with rfl | hm
      · -- skipped although comparable: it was substituted already, and keys only grow
        have hsub : amHas sub m.tid = true := by
          cases hb : amHas sub m.tid with
          | true => rfl
          | false =>
            have : simSkip sub model m = false := (simSkip_false_iff sub model m).2 ⟨hc, hb⟩
            rw [this] at hskip; simp at hskip
        have := simInner_mono verdict g model t sub sub' h _ hsub
        rw [this] at hno; simp at hno
      · exact ih _ _ h m hm hc hno
    · split at h
      · simp at h
      · rename_i hv
        rcases hm with rfl | hm
        · have : amHas (amSet sub m.tid model.tid) m.tid = true := by rw [amHas_amSet]; simp
          have := simInner_mono verdict g model t _ sub' h _ this
          rw [this] at hno; simp at hno
        · exact ih _ _ h m hm hc hno
      · rename_i hv
        rcases hm with rfl | hm
        · exact hv
        · exact ih _ _ h m hm hc hno

theorem simOuter_mono (storage : List TModel) : ∀ (l : List TModel) (sub sub' : List (String × String)),
    simOuter prep verdict storage l sub = some sub' → ∀ k, amHas sub k = true → amHas sub' k = true := by
  intro l
  induction l with
  | nil => intro sub sub' h k hk; simp only [simOuter, Option.some.injEq] at h; subst h; exact hk
  | cons m t ih =>
    intro sub sub' h k hk
    simp only [simOuter] at h
    split at h
    · exact ih _ _ h k hk
    · split at h
      · simp at h
      · split at h
        · simp at h
        · rename_i sub1 hin
          exact ih _ _ h k (simInner_mono verdict _ _ _ _ _ hin k hk)

theorem simOuter_sound (storage : List TModel) : ∀ (l : List TModel) (sub sub' : List (String × String)),
    simOuter prep verdict storage l sub = some sub' →
    ∀ kv ∈ sub', kv ∈ sub ∨ ∃ model ∈ l, ∃ g, ∃ m ∈ storage, 3 ≤ model.exons.length ∧ prep model = some g ∧
      kv = (m.tid, model.tid) ∧ Comparable model m ∧ verdict g m = some true := by
  intro l
  induction l with
  | nil => intro sub sub' h kv hkv; simp only [simOuter, Option.some.injEq] at h; subst h; exact Or.inl hkv
  | cons a t ih =>
    intro sub sub' h kv hkv
    simp only [simOuter] at h
    split at h
    · rcases ih _ _ h kv hkv with h1 | ⟨x, hx, hr⟩
      · exact Or.inl h1
      · exact Or.inr ⟨x, by simp [hx], hr⟩
    · rename_i hguard
      split at h
      · simp at h
      · rename_i g hg
        split at h
        · simp at h
        · rename_i sub1 hin
          rcases ih _ _ h kv hkv with h1 | ⟨x, hx, hr⟩
          · rcases simInner_sound verdict g a storage sub sub1 hin kv h1 with h2 | ⟨m, hm, hr⟩
            · exact Or.inl h2
            · refine Or.inr ⟨a, by simp, g, m, hm, ?_, hg, hr⟩
              have : ¬ a.exons.length ≤ 2 := fun hc => hguard (Or.inl hc)
              omega
          · exact Or.inr ⟨x, by simp [hx], hr⟩

theorem simOuter_complete (storage : List TModel) : ∀ (l : List TModel) (sub sub' : List (String × String)),
    simOuter prep verdict storage l sub = some sub' →
    ∀ model ∈ l, 3 ≤ model.exons.length → amHas sub' model.tid = false →
      ∃ g, prep model = some g ∧
        ∀ m ∈ storage, Comparable model m → amHas sub' m.tid = false → verdict g m = some false := by
  intro l
  induction l with
  | nil => intro sub sub' _ model hm; simp at hm
  | cons a t ih =>
    intro sub sub' h model hm hlen hno
    simp only [simOuter] at h
    simp only [List.mem_cons] at hm
    split at h
    · rename_i hguard
      rcases hm with rfl | hm
      · rcases hguard with hg | hg
        · omega
        · have := simOuter_mono prep verdict storage t sub sub' h _ hg
          rw [this] at hno; simp at hno
      · exact ih _ _ h model hm hlen hno
    · split at h
      · simp at h
      · rename_i g hg
        split at h
        · simp at h
        · rename_i sub1 hin
          rcases hm with rfl | hm
          · refine ⟨g, hg, fun m hms hc hnm => ?_⟩
            apply simInner_complete verdict g model storage sub sub1 hin m hms hc
            cases h1 : amHas sub1 m.tid with
            | false => rfl
            | true =>
              have := simOuter_mono prep verdict storage t sub1 sub' h _ h1
              rw [this] at hnm; simp at hnm
          · exact ih _ _ h model hm hlen hno

end loops

/-! ### the second loop of `filter_transcripts` is a list filter -/

theorem filterLoopG_dec2 (toSub : List String) : ∀ (ms : List TModel) (s : Store) (kept : List TModel) (s' : Store)
    (kept' : List TModel), filterLoopG (filterDec2 toSub) ms s kept = some (s', kept') →
    kept' = kept ++ ms.filter (fun m => decide (m.ttype = .known) || !decide (m.tid ∈ toSub)) := by
  intro ms
  induction ms with
  | nil => intro s kept s' kept' h; simp only [filterLoopG, Option.some.injEq, Prod.mk.injEq] at h; simp [h.2]
  | cons m t ih =>
    intro s kept s' kept' h
    simp only [filterLoopG] at h
    split at h
    · simp at h
    · rename_i s1 hd
      have := ih _ _ _ _ h
      rw [this]
      have hk : (decide (m.ttype = .known) || !decide (m.tid ∈ toSub)) = true := by
        unfold filterDec2 at hd
        split at hd
        · rename_i hkn; simp [hkn]
        · split at hd
          · simp at hd
          · rename_i hns; simp [hns]
      simp [List.filter_cons, hk]
    · rename_i s1 hd
      split at h
      · simp at h
      · have := ih _ _ _ _ h
        rw [this]
        have hk : (decide (m.ttype = .known) || !decide (m.tid ∈ toSub)) = false := by
          unfold filterDec2 at hd
          split at hd
          · simp at hd
          · rename_i hkn
            split at hd
            · rename_i hs; simp [hkn, hs]
            · simp at hd
        simp [List.filter_cons, hk]

end IsoVerif.Lemmas.C04

namespace IsoVerif.Lemmas.C04
open IsoVerif.Gen IsoVerif.Model IsoVerif.Model.C04

/-! ### `filterLoopC` against `filterLoopG` -/

/-- what the end correction may do to a kept model: nothing to a known one, only `exon_blocks` otherwise -/
def PostOK (post : Store → TModel → Option TModel) : Prop :=
  ∀ s m m', post s m = some m' → (m.ttype = .known → m' = m) ∧ m' = { m with exons := m'.exons }

theorem correctModel_postOK (apa : Int) (readSpan : String → Iv) : PostOK (correctModel apa readSpan) := by
  intro s m m' h
  unfold correctModel at h
  split at h
  · rename_i hk
    simp only [Option.some.injEq] at h; subst h
    exact ⟨fun _ => rfl, rfl⟩
  · rename_i hk
    cases hc : C03.correctEnds m.exons ((readsOf s m.tid).map readSpan) apa with
    | none => simp [hc] at h
    | some ex =>
      simp only [hc, Option.map_some, Option.some.injEq] at h; subst h
      exact ⟨fun hkn => absurd hkn hk, rfl⟩

theorem PostOK.tid {post : Store → TModel → Option TModel} (hp : PostOK post) {s : Store} {m m' : TModel}
    (h : post s m = some m') : m'.tid = m.tid ∧ m'.ttype = m.ttype := by
  have := (hp s m m' h).2
  rw [this]; exact ⟨rfl, rfl⟩

theorem filterLoopC_spec {dec : Store → TModel → Option (Bool × Store)} {post : Store → TModel → Option TModel}
    (hp : PostOK post) : ∀ (ms : List TModel) (s : Store) (kept keptG : List TModel) (s' : Store) (kept' : List TModel),
    filterLoopC dec post ms s kept = some (s', kept') →
    ∃ new0 new, filterLoopG dec ms s keptG = some (s', keptG ++ new0) ∧ kept' = kept ++ new ∧ ids new = ids new0 ∧
      (∀ b ∈ new, ∃ a ∈ new0, ∃ sx, post sx a = some b) ∧ (∀ a ∈ new0, ∃ b ∈ new, ∃ sx, post sx a = some b) := by
  intro ms
  induction ms with
  | nil =>
    intro s kept keptG s' kept' h
    simp only [filterLoopC, Option.some.injEq, Prod.mk.injEq] at h
    exact ⟨[], [], by simp [filterLoopG, h.1], by simp [h.2], rfl, by simp, by simp⟩
  | cons m t ih =>
    intro s kept keptG s' kept' h
    simp only [filterLoopC] at h
    split at h
    · simp at h
    · rename_i s1 hd
      split at h
      · simp at h
      · rename_i m' hpost
        obtain ⟨new0, new, hG, hk, hids, hb, ha⟩ := ih s1 (kept ++ [m']) (keptG ++ [m]) s' kept' h
        refine ⟨m :: new0, m' :: new, ?_, by simp [hk], ?_, ?_, ?_⟩
        · simp only [filterLoopG, hd]; simpa using hG
        · simp only [ids, List.map_cons] at hids ⊢; rw [hids, (hp.tid hpost).1]
        · intro b hb'
          simp only [List.mem_cons] at hb'
          rcases hb' with rfl | hb'
          · exact ⟨m, by simp, s1, hpost⟩
          · obtain ⟨a, ha', r⟩ := hb b hb'; exact ⟨a, by simp [ha'], r⟩
        · intro a ha'
          simp only [List.mem_cons] at ha'
          rcases ha' with rfl | ha'
          · exact ⟨m', by simp, s1, hpost⟩
          · obtain ⟨b, hb', r⟩ := ha a ha'; exact ⟨b, by simp [hb'], r⟩
    · rename_i s1 hd
      split at h
      · simp at h
      · rename_i sd hdel
        obtain ⟨new0, new, hG, hk, hids, hb, ha⟩ := ih sd kept keptG s' kept' h
        exact ⟨new0, new, by simp only [filterLoopG, hd, hdel]; exact hG, hk, hids, hb, ha⟩

/-- a loop body that never deletes a model with property `P` keeps every such model -/
theorem filterLoopG_keeps {dec : Store → TModel → Option (Bool × Store)} (P : TModel → Prop)
    (hdec : ∀ s m k s1, dec s m = some (k, s1) → P m → k = true) :
    ∀ (ms : List TModel) (s : Store) (kept : List TModel) (s' : Store) (kept' : List TModel),
    filterLoopG dec ms s kept = some (s', kept') → (∀ m ∈ kept, m ∈ kept') ∧ ∀ m ∈ ms, P m → m ∈ kept' := by
  intro ms
  induction ms with
  | nil =>
    intro s kept s' kept' h
    simp only [filterLoopG, Option.some.injEq, Prod.mk.injEq] at h
    exact ⟨fun m hm => h.2 ▸ hm, by simp⟩
  | cons a t ih =>
    intro s kept s' kept' h
    simp only [filterLoopG] at h
    split at h
    · simp at h
    · obtain ⟨h1, h2⟩ := ih _ _ _ _ h
      refine ⟨fun m hm => h1 m (by simp [hm]), fun m hm hP => ?_⟩
      simp only [List.mem_cons] at hm
      rcases hm with rfl | hm
      · exact h1 m (by simp)
      · exact h2 m hm hP
    · rename_i s1 hd
      split at h
      · simp at h
      · obtain ⟨h1, h2⟩ := ih _ _ _ _ h
        refine ⟨h1, fun m hm hP => ?_⟩
        simp only [List.mem_cons] at hm
        rcases hm with rfl | hm
        · have := hdec _ _ _ _ hd hP; simp at this
        · exact h2 m hm hP

theorem preFilterDec_known {p : FilterParams} {mapq : String → Int} {cutoff : Int} {s s1 : Store} {m : TModel} {k : Bool}
    (h : preFilterDec p mapq cutoff s m = some (k, s1)) (hk : m.ttype = .known) : k = true := by
  unfold preFilterDec at h
  split at h
  · simp at h; exact h.1
  · split at h
    · rename_i hc; exact absurd hk hc.1
    · split at h
      · rename_i hc; exact absurd hk hc
      · simp at h; exact h.1

theorem filterDec1_known {p : FilterParams} {mapq : String → Int} {toSub : List String} {cov : TModel → Int}
    {s s1 : Store} {m : TModel} {k : Bool} (h : filterDec1 p mapq toSub cov s m = some (k, s1)) (hk : m.ttype = .known) :
    k = true := by
  unfold filterDec1 at h
  rw [if_pos hk] at h
  simp at h; exact h.1

/-! ### `read_assignment_counts` against `transcript_read_ids` -/

/-- number of times read `r` is listed in `transcript_read_ids` -/
def occ (rm : List (String × List String)) (r : String) : Int := (rm.map (fun p => (p.2.count r : Int))).sum

/-- `read_assignment_counts[r]` (0 when absent) is the number of listings of `r`; the dict has one entry per key -/
def CountsConsistent (s : Store) : Prop := (amKeys s.readIds).Nodup ∧ ∀ r, cnt s.rcount r = occ s.readIds r

theorem amErase_of_not_mem (rm : List (String × List String)) (k : String) (h : k ∉ amKeys rm) : amErase rm k = rm := by
  unfold amErase
  apply List.filter_eq_self.2
  intro p hp
  simp only [ne_eq, decide_eq_true_eq]
  intro e
  exact h (by simp only [amKeys, List.mem_map]; exact ⟨p, hp, e⟩)

theorem readsIn_of_not_mem (rm : List (String × List String)) (k : String) (h : k ∉ amKeys rm) : readsIn rm k = [] := by
  unfold readsIn
  cases hg : amGet? rm k with
  | none => rfl
  | some v =>
    exfalso; apply h
    simp only [amKeys, List.mem_map]
    exact ⟨(k, v), amGet?_mem hg, rfl⟩

theorem occ_amErase (r : String) : ∀ (rm : List (String × List String)) (k : String), (amKeys rm).Nodup →
    occ (amErase rm k) r = occ rm r - ((readsIn rm k).count r : Int) := by
  intro rm
  induction rm with
  | nil => intro k _; simp [amErase, occ, readsIn, amGet?]
  | cons a t ih =>
    intro k hnd
    obtain ⟨k', v⟩ := a
    simp only [amKeys, List.map_cons, List.nodup_cons] at hnd
    by_cases hk : k' = k
    · subst hk
      have h1 : amErase ((k', v) :: t) k' = t := by
        have := amErase_of_not_mem t k' hnd.1
        simpa [amErase] using this
      rw [h1]
      simp only [occ, readsIn, amGet?, if_true, Option.getD_some, List.map_cons, List.sum_cons]
      omega
    · have h1 : amErase ((k', v) :: t) k = (k', v) :: amErase t k := by simp [amErase, hk]
      have h2 : readsIn ((k', v) :: t) k = readsIn t k := by simp [readsIn, amGet?, hk]
      rw [h1, h2]
      have := ih k hnd.2
      simp only [occ, List.map_cons, List.sum_cons] at this ⊢
      omega

theorem keys_amErase_nodup (rm : List (String × List String)) (k : String) (h : (amKeys rm).Nodup) :
    (amKeys (amErase rm k)).Nodup := by
  unfold amKeys amErase
  exact (List.Sublist.map _ List.filter_sublist).nodup h

theorem cnt_fold_dec (r : String) : ∀ (l : List String) (rc : List (String × Int)),
    cnt (l.foldl (fun rc a => amSet rc a (cnt rc a - 1)) rc) r = cnt rc r - (l.count r : Int) := by
  intro l
  induction l with
  | nil => intro rc; simp
  | cons a t ih =>
    intro rc
    simp only [List.foldl_cons]
    rw [ih, cnt_amSet]
    by_cases h : r = a
    · subst h; simp; omega
    · have h' : ¬ a = r := fun e => h e.symm
      simp [h, List.count_cons, h']

/-- **`delete_from_storage` keeps the counts consistent** -/
theorem deleteFromStorage_counts {s s' : Store} {tid : String} (hc : CountsConsistent s)
    (h : s.deleteFromStorage tid = some s') : CountsConsistent s' := by
  unfold Store.deleteFromStorage at h
  simp only at h
  split at h
  · simp only [Option.some.injEq] at h; subst h
    refine ⟨keys_amErase_nodup _ _ hc.1, fun r => ?_⟩
    simp only
    rw [cnt_fold_dec, occ_amErase r _ _ hc.1, hc.2 r, readsOf_eq]
  · simp at h

theorem touchList_counts (rm : List (String × List String)) (k : String) (h : (amKeys rm).Nodup) :
    (amKeys (touchList rm k)).Nodup ∧ ∀ r, occ (touchList rm k) r = occ rm r := by
  unfold touchList
  split
  · exact ⟨h, fun _ => rfl⟩
  · rename_i hh
    have hnk : k ∉ amKeys rm := fun hm => hh ((amHas_iff_mem_keys rm k).2 hm)
    have hset : ∀ (l : List (String × List String)), k ∉ amKeys l → amSet l k ([] : List String) = l ++ [(k, [])] := by
      intro l
      induction l with
      | nil => intro _; rfl
      | cons a t ih =>
        intro hn
        obtain ⟨k', v⟩ := a
        simp only [amKeys, List.map_cons, List.mem_cons, not_or] at hn
        have : ¬ k' = k := fun e => hn.1 e.symm
        simp only [amSet, this, if_false, List.cons_append]
        rw [ih (by simpa [amKeys] using hn.2)]
    rw [hset rm hnk]
    constructor
    · simp only [amKeys, List.map_append, List.map_cons, List.map_nil]
      rw [List.nodup_append]
      refine ⟨h, by simp, ?_⟩
      intro a ha b hb
      simp at hb; subst hb
      intro e; subst e; exact hnk ha
    · intro r; simp [occ]

/-- a loop body that only reads: `rcount` untouched, `transcript_read_ids` at most touched (defaultdict read) -/
def ReadsOnly (dec : Store → TModel → Option (Bool × Store)) : Prop :=
  ∀ s m k s1, dec s m = some (k, s1) → s1.rcount = s.rcount ∧ (s1.readIds = s.readIds ∨ ∃ t, s1.readIds = touchList s.readIds t)

theorem ReadsOnly.counts {dec : Store → TModel → Option (Bool × Store)} (hd : ReadsOnly dec) {s s1 : Store} {m : TModel} {k : Bool}
    (h : dec s m = some (k, s1)) (hc : CountsConsistent s) : CountsConsistent s1 := by
  obtain ⟨h1, h2⟩ := hd s m k s1 h
  rcases h2 with h2 | ⟨t, h2⟩
  · exact ⟨by rw [h2]; exact hc.1, fun r => by rw [h1, h2]; exact hc.2 r⟩
  · obtain ⟨hn, ho⟩ := touchList_counts s.readIds t hc.1
    exact ⟨by rw [h2]; exact hn, fun r => by rw [h1, h2, ho]; exact hc.2 r⟩

theorem filterLoopC_counts {dec : Store → TModel → Option (Bool × Store)} {post : Store → TModel → Option TModel}
    (hd : ReadsOnly dec) : ∀ (ms : List TModel) (s : Store) (kept : List TModel) (s' : Store) (kept' : List TModel),
    filterLoopC dec post ms s kept = some (s', kept') → CountsConsistent s → CountsConsistent s' := by
  intro ms
  induction ms with
  | nil => intro s kept s' kept' h hc; simp only [filterLoopC, Option.some.injEq, Prod.mk.injEq] at h; rw [← h.1]; exact hc
  | cons m t ih =>
    intro s kept s' kept' h hc
    simp only [filterLoopC] at h
    split at h
    · simp at h
    · rename_i s1 hdm
      split at h
      · simp at h
      · exact ih _ _ _ _ h (hd.counts hdm hc)
    · rename_i s1 hdm
      split at h
      · simp at h
      · rename_i sd hdel
        exact ih _ _ _ _ h (deleteFromStorage_counts (hd.counts hdm hc) hdel)

theorem filterLoopG_counts {dec : Store → TModel → Option (Bool × Store)}
    (hd : ReadsOnly dec) : ∀ (ms : List TModel) (s : Store) (kept : List TModel) (s' : Store) (kept' : List TModel),
    filterLoopG dec ms s kept = some (s', kept') → CountsConsistent s → CountsConsistent s' := by
  intro ms
  induction ms with
  | nil => intro s kept s' kept' h hc; simp only [filterLoopG, Option.some.injEq, Prod.mk.injEq] at h; rw [← h.1]; exact hc
  | cons m t ih =>
    intro s kept s' kept' h hc
    simp only [filterLoopG] at h
    split at h
    · simp at h
    · rename_i s1 hdm
      exact ih _ _ _ _ h (hd.counts hdm hc)
    · rename_i s1 hdm
      split at h
      · simp at h
      · rename_i sd hdel
        exact ih _ _ _ _ h (deleteFromStorage_counts (hd.counts hdm hc) hdel)

theorem preFilterDec_readsOnly (p : FilterParams) (mapq : String → Int) (cutoff : Int) : ReadsOnly (preFilterDec p mapq cutoff) := by
  intro s m k s1 h
  unfold preFilterDec at h
  split at h
  · simp at h; obtain ⟨_, rfl⟩ := h; exact ⟨rfl, Or.inl rfl⟩
  · split at h
    · simp at h; obtain ⟨_, rfl⟩ := h; exact ⟨rfl, Or.inl rfl⟩
    · split at h
      · simp only at h
        split at h
        · simp at h
        · simp at h; obtain ⟨_, rfl⟩ := h; exact ⟨rfl, Or.inr ⟨_, rfl⟩⟩
      · simp at h; obtain ⟨_, rfl⟩ := h; exact ⟨rfl, Or.inl rfl⟩

theorem filterDec1_readsOnly (p : FilterParams) (mapq : String → Int) (toSub : List String) (cov : TModel → Int) :
    ReadsOnly (filterDec1 p mapq toSub cov) := by
  intro s m k s1 h
  unfold filterDec1 at h
  split at h
  · simp at h; obtain ⟨_, rfl⟩ := h; exact ⟨rfl, Or.inl rfl⟩
  · split at h
    · simp at h; obtain ⟨_, rfl⟩ := h; exact ⟨rfl, Or.inl rfl⟩
    · simp only at h
      split at h
      · simp at h; obtain ⟨_, rfl⟩ := h; exact ⟨rfl, Or.inl rfl⟩
      · split at h
        · split at h
          · simp at h
          · simp at h; obtain ⟨_, rfl⟩ := h; exact ⟨rfl, Or.inr ⟨_, rfl⟩⟩
        · simp at h; obtain ⟨_, rfl⟩ := h; exact ⟨rfl, Or.inr ⟨_, rfl⟩⟩

theorem filterDec2_readsOnly (toSub : List String) : ReadsOnly (filterDec2 toSub) := by
  intro s m k s1 h
  unfold filterDec2 at h
  split at h
  · simp at h; obtain ⟨_, rfl⟩ := h; exact ⟨rfl, Or.inl rfl⟩
  · split at h <;> (simp at h; obtain ⟨_, rfl⟩ := h; exact ⟨rfl, Or.inl rfl⟩)

end IsoVerif.Lemmas.C04

namespace IsoVerif.Lemmas.C04
open IsoVerif.Gen IsoVerif.Model IsoVerif.Model.C04

/-! ### `save_assigned_read` keeps the counts consistent -/

theorem occ_amSet (r : String) (k : String) (v : List String) : ∀ (rm : List (String × List String)),
    occ (amSet rm k v) r = occ rm r - ((readsIn rm k).count r : Int) + (v.count r : Int) := by
  intro rm
  induction rm with
  | nil => simp [amSet, occ, readsIn, amGet?]
  | cons a t ih =>
    obtain ⟨k', v'⟩ := a
    by_cases hk : k' = k
    · subst hk
      simp only [amSet, if_true, occ, readsIn, amGet?, Option.getD_some, List.map_cons, List.sum_cons]
      omega
    · have h2 : readsIn ((k', v') :: t) k = readsIn t k := by simp [readsIn, amGet?, hk]
      simp only [amSet, hk, if_false, h2]
      simp only [occ, List.map_cons, List.sum_cons] at ih ⊢
      omega

theorem mem_keys_amSet {k t : String} {v : List String} : ∀ {rm : List (String × List String)},
    t ∈ amKeys (amSet rm k v) → t = k ∨ t ∈ amKeys rm := by
  intro rm h
  simp only [amKeys, List.mem_map] at h ⊢
  obtain ⟨p, hp, rfl⟩ := h
  rcases mem_amSet hp with h1 | h1
  · subst h1; exact Or.inl rfl
  · exact Or.inr ⟨p, h1, rfl⟩

theorem keys_amSet_nodup (k : String) (v : List String) : ∀ (rm : List (String × List String)), (amKeys rm).Nodup →
    (amKeys (amSet rm k v)).Nodup := by
  intro rm
  induction rm with
  | nil => intro _; simp [amSet, amKeys]
  | cons a t ih =>
    intro h
    obtain ⟨k', v'⟩ := a
    simp only [amKeys, List.map_cons, List.nodup_cons] at h
    by_cases hk : k' = k
    · subst hk
      simp only [amSet, if_true, amKeys, List.map_cons, List.nodup_cons]
      exact h
    · simp only [amSet, hk, if_false, amKeys, List.map_cons, List.nodup_cons]
      refine ⟨fun hm => ?_, ih h.2⟩
      rcases mem_keys_amSet (rm := t) (by simpa [amKeys] using hm) with h1 | h1
      · exact hk h1
      · exact h.1 (by simpa [amKeys] using h1)

theorem countsConsistent_empty : CountsConsistent Store.empty := by
  refine ⟨by simp [Store.empty, amKeys], fun r => ?_⟩
  simp [Store.empty, cnt, amGet?, occ]

theorem saveRead_counts {s : Store} (hc : CountsConsistent s) (read tid : String) : CountsConsistent (s.saveRead read tid) := by
  refine ⟨keys_amSet_nodup _ _ _ hc.1, fun r => ?_⟩
  simp only [Store.saveRead, cnt_amSet, occ_amSet, readsOf_eq]
  have := hc.2 r
  by_cases h : r = read
  · subst h; simp [List.count_append]; omega
  · have h' : ¬ read = r := fun e => h e.symm
    simp [h, List.count_append, List.count_cons, h']; omega

theorem addModel_counts {s : Store} (hc : CountsConsistent s) (m : TModel) (reads : List String) :
    CountsConsistent (s.addModel m reads) := by
  unfold Store.addModel
  have : ∀ (l : List String) (sx : Store), CountsConsistent sx → CountsConsistent (l.foldl (fun s r => s.saveRead r m.tid) sx) := by
    intro l
    induction l with
    | nil => intro sx h; simpa using h
    | cons a t ih => intro sx h; simp only [List.foldl_cons]; exact ih _ (saveRead_counts h a m.tid)
  exact this reads _ ⟨hc.1, hc.2⟩

/-! ### what the computed `filter_transcripts` does to the storage -/

theorem filterDec2_known {toSub : List String} {s s1 : Store} {m : TModel} {k : Bool}
    (h : filterDec2 toSub s m = some (k, s1)) (hk : m.ttype = .known) : k = true := by
  unfold filterDec2 at h
  rw [if_pos hk] at h
  simp at h; exact h.1

theorem filterTranscriptsG_spec {s s' : Store} {p : FilterParams} {mapq : String → Int}
    {similar : List TModel → Option (List String)} {post : Store → TModel → Option TModel} {covTerm : TModel → Int}
    (hp : PostOK post) (h : s.filterTranscriptsG p mapq similar post covTerm = some s') :
    ∃ D, Shrunk D s s' ∧ (ids s'.models).Sublist (ids s.models) ∧
      (∀ b ∈ s'.models, ∃ a ∈ s.models, ∃ sx, post sx a = some b) ∧
      (∀ m ∈ s.models, m.ttype = .known → m ∈ s'.models) ∧
      ((ids s.models).Nodup → ∀ b ∈ s'.models, b.tid ∉ D ∧ (b.ttype ≠ .known → p.minNovelCount ≤ cnt s.counter b.tid)) := by
  unfold Store.filterTranscriptsG at h
  split at h
  · simp at h
  · rename_i sub1 h1
    split at h
    · simp at h
    · rename_i s1 pre h2
      split at h
      · simp at h
      · rename_i sub2 h3
        split at h
        · simp at h
        · rename_i s2 kept h4
          simp only [Option.some.injEq] at h; subst h
          obtain ⟨new0, new, hG, hk, hids, hb, ha⟩ := filterLoopC_spec hp _ _ _ ([] : List TModel) _ _ h2
          simp only [List.nil_append] at hG hk
          subst hk
          obtain ⟨new1, D1, hk1, hsub1, _, hcov1, hsh1, hB1⟩ :=
            filterLoopG_spec _ (fun c m => m.ttype ≠ .known → p.minNovelCount ≤ c)
              (fun _ _ _ _ h => filterDec1_touched h) (fun _ _ _ h => filterDec1_keep h) _ _ _ _ _ hG
          simp only [List.nil_append] at hk1; subst hk1
          obtain ⟨new2, D2, hk2, hsub2, hD2, hcov2, hsh2, hB2⟩ :=
            filterLoopG_spec _ (fun _ _ => True) (fun _ _ _ _ h => filterDec2_touched h) (fun _ _ _ _ => trivial) _ _ _ _ _ h4
          simp only [List.nil_append] at hk2; subst hk2
          refine ⟨D1 ++ D2, hsh1.trans ⟨hsh2.counter, hsh2.reads, hsh2.entries⟩, ?_, ?_, ?_, ?_⟩
          · have : (ids kept).Sublist (ids pre) := hsub2.map _
            rw [hids] at this
            exact this.trans (hsub1.map _)
          · intro b hbk
            obtain ⟨a, ha', r⟩ := hb b (hsub2.subset hbk)
            exact ⟨a, hsub1.subset ha', r⟩
          · intro m hm hkn
            have hm0 : m ∈ new0 :=
              (filterLoopG_keeps (fun m => m.ttype = .known) (fun _ _ _ _ h hk => filterDec1_known h hk) _ _ _ _ _ hG).2 m hm hkn
            obtain ⟨b, hb', sx, hpost⟩ := ha m hm0
            have hbm : b = m := (hp sx m b hpost).1 hkn
            subst hbm
            exact (filterLoopG_keeps (fun m => m.ttype = .known) (fun _ _ _ _ h hk => filterDec2_known h hk) _ _ _ _ _ h4).2 b hb' hkn
          · intro hnd b hbk
            obtain ⟨hd1, hq1⟩ := hB1 hnd
            have hnd0 : (ids new0).Nodup := sublist_ids_nodup hsub1 hnd
            obtain ⟨hd2, _⟩ := hB2 (by rw [hids]; exact hnd0)
            obtain ⟨a, ha', sx, hpost⟩ := hb b (hsub2.subset hbk)
            obtain ⟨ht, hty⟩ := hp.tid hpost
            refine ⟨?_, ?_⟩
            · rw [ht]
              have := hd2 b hbk
              rw [ht] at this
              simp [hd1 a ha', this]
            · rw [ht, hty]; exact hq1 a ha'

theorem filterTranscriptsG_counts {s s' : Store} {p : FilterParams} {mapq : String → Int}
    {similar : List TModel → Option (List String)} {post : Store → TModel → Option TModel} {covTerm : TModel → Int}
    (hc : CountsConsistent s) (h : s.filterTranscriptsG p mapq similar post covTerm = some s') : CountsConsistent s' := by
  unfold Store.filterTranscriptsG at h
  split at h
  · simp at h
  · split at h
    · simp at h
    · rename_i s1 pre h2
      split at h
      · simp at h
      · split at h
        · simp at h
        · rename_i s2 kept h4
          simp only [Option.some.injEq] at h; subst h
          have c1 := filterLoopC_counts (filterDec1_readsOnly _ _ _ _) _ _ _ _ _ h2 hc
          have c2 := filterLoopG_counts (filterDec2_readsOnly _) _ _ _ _ _ h4 c1
          exact ⟨c2.1, c2.2⟩

theorem preFilter_counts {s s' : Store} {p : FilterParams} {mapq : String → Int} (hc : CountsConsistent s)
    (h : s.preFilter p mapq = some s') : CountsConsistent s' := by
  simp only [Store.preFilter] at h
  split at h
  · simp at h
  · rename_i sx kept hl
    simp only [Option.some.injEq] at h; subst h
    have c := filterLoopG_counts (preFilterDec_readsOnly _ _ _) _ _ _ _ _ hl ⟨hc.1, hc.2⟩
    exact ⟨c.1, c.2⟩

theorem preFilter_known {s s' : Store} {p : FilterParams} {mapq : String → Int} (h : s.preFilter p mapq = some s') :
    ∀ m ∈ s.models, m.ttype = .known → m ∈ s'.models := by
  simp only [Store.preFilter] at h
  split at h
  · simp at h
  · rename_i sx kept hl
    simp only [Option.some.injEq] at h; subst h
    exact (filterLoopG_keeps (fun m => m.ttype = .known) (fun _ _ _ _ h hk => preFilterDec_known h hk) _ _ _ _ _ hl).2

end IsoVerif.Lemmas.C04
