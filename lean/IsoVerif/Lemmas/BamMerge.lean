/-
Helper lemmas for C12: invariants of the `BAMOnlineMerger` model (`Model/BamMerge.lean`).
-/
import IsoVerif.Model.BamMerge

namespace IsoVerif.Lemmas.C12
open IsoVerif.Gen IsoVerif.Model.C12
open List

/-! ### minEntry -/

theorem minEntry_none {q : List Entry} : minEntry q = none ↔ q = [] := by
  cases q with
  | nil => simp [minEntry]
  | cons x t =>
    simp only [minEntry]
    cases minEntry t with
    | none => simp
    | some m => by_cases h : keyLe x m <;> simp [h]

theorem minEntry_mem {q : List Entry} {m : Entry} (h : minEntry q = some m) : m ∈ q := by
  induction q generalizing m with
  | nil => simp [minEntry] at h
  | cons x t ih =>
    simp only [minEntry] at h
    cases hm : minEntry t with
    | none => simp [hm] at h; simp [h]
    | some m' =>
      simp only [hm] at h
      by_cases hk : keyLe x m'
      · simp [hk] at h; simp [h]
      · simp [hk] at h; subst h; exact List.mem_cons_of_mem _ (ih hm)

theorem keyLe_start {x y : Entry} (h : keyLe x y = true) : x.2.start ≤ y.2.start := by
  simp only [keyLe, Bool.or_eq_true, Bool.and_eq_true, decide_eq_true_eq] at h
  omega

theorem keyLe_total {x y : Entry} (h : keyLe x y = false) : keyLe y x = true := by
  simp only [keyLe, Bool.or_eq_false_iff, Bool.and_eq_false_iff, decide_eq_false_iff_not] at h
  simp only [keyLe, Bool.or_eq_true, Bool.and_eq_true, decide_eq_true_eq]
  omega

theorem keyLe_trans {x y z : Entry} (h1 : keyLe x y = true) (h2 : keyLe y z = true) : keyLe x z = true := by
  simp only [keyLe, Bool.or_eq_true, Bool.and_eq_true, decide_eq_true_eq] at *
  omega

theorem keyLe_refl (x : Entry) : keyLe x x = true := by
  simp [keyLe]

theorem minEntry_le {q : List Entry} {m : Entry} (h : minEntry q = some m) : ∀ y ∈ q, keyLe m y = true := by
  induction q generalizing m with
  | nil => simp [minEntry] at h
  | cons x t ih =>
    simp only [minEntry] at h
    cases hm : minEntry t with
    | none =>
      simp [hm] at h; subst h
      have : t = [] := minEntry_none.mp hm
      subst this
      intro y hy; simp at hy; subst hy; exact keyLe_refl _
    | some m' =>
      simp only [hm] at h
      by_cases hk : keyLe x m'
      · simp [hk] at h; subst h
        intro y hy
        rcases List.mem_cons.mp hy with rfl | hy
        · exact keyLe_refl _
        · exact keyLe_trans hk (ih hm y hy)
      · simp [hk] at h; subst h
        intro y hy
        rcases List.mem_cons.mp hy with rfl | hy
        · exact keyLe_total (by simpa using hk)
        · exact ih hm y hy

/-! ### content is preserved by `advance`; fuel -/

theorem flatten_set_perm {l : List (List Aln)} {i : Nat} {a : Aln} {t : List Aln}
    (h : l[i]? = some (a :: t)) : l.flatten ~ a :: (l.set i t).flatten := by
  induction l generalizing i with
  | nil => simp at h
  | cons f fs ih =>
    cases i with
    | zero =>
      simp at h; subst h
      simp
    | succ i =>
      simp at h
      have := ih h
      simp only [List.set_cons_succ, List.flatten_cons]
      exact (Perm.append_left f this).trans perm_middle

theorem content_advance (i : Nat) (s : MState) : content (advance i s) ~ content s := by
  unfold advance
  split
  · rename_i a t h
    simp only [content, List.map_cons, List.cons_append]
    have := flatten_set_perm h
    exact ((Perm.append_left _ this).trans perm_middle).symm
  · exact Perm.refl _

/-! ### invariants of the merger state -/

/-- every non-exhausted iterator has an entry in the queue -/
def Covered (s : MState) : Prop := ∀ i a t, s.its[i]? = some (a :: t) → ∃ b, (i, b) ∈ s.queue

/-- the state after popping `m` and refilling from iterator `m.1` -/
def stepState (s : MState) (m : Entry) : MState := advance m.1 { s with queue := s.queue.erase m }

theorem covered_step {s : MState} {m : Entry} (hc : Covered s) : Covered (stepState s m) := by
  intro i a t h
  unfold stepState advance at *
  split at h
  · rename_i b t' hb
    simp only at h ⊢
    by_cases hi : m.1 = i
    · subst hi; exact ⟨b, by simp⟩
    · rw [List.getElem?_set] at h
      simp [hi] at h
      obtain ⟨c, hc'⟩ := hc i a t h
      refine ⟨c, List.mem_cons_of_mem _ ?_⟩
      have hne : (i, c) ≠ m := by intro e; apply hi; rw [← e]
      exact (List.mem_erase_of_ne hne).mpr hc'
  · rename_i hb
    simp only at h ⊢
    have hi : m.1 ≠ i := by
      intro e; subst e; exact hb a t h
    obtain ⟨c, hc'⟩ := hc i a t h
    refine ⟨c, ?_⟩
    have hne : (i, c) ≠ m := by intro e; apply hi; rw [← e]
    exact (List.mem_erase_of_ne hne).mpr hc'

theorem flatten_nil_of_all_nil {l : List (List Aln)} (h : ∀ (i : Nat) (a : Aln) (t : List Aln), l[i]? ≠ some (a :: t)) : l.flatten = [] := by
  induction l with
  | nil => rfl
  | cons f fs ih =>
    have hf : f = [] := by
      cases f with
      | nil => rfl
      | cons a t => exact absurd rfl (h 0 a t)
    subst hf
    simp only [List.flatten_cons, List.nil_append]
    exact ih (fun i a t hi => h (i + 1) a t (by simpa using hi))

theorem content_nil_of_queue_nil {s : MState} (hc : Covered s) (hq : s.queue = []) : content s = [] := by
  have : s.its.flatten = [] := flatten_nil_of_all_nil (fun i a t h => by
    obtain ⟨b, hb⟩ := hc i a t h
    rw [hq] at hb; simp at hb)
  simp [content, hq, this]

theorem content_step {s : MState} {m : Entry} (hm : m ∈ s.queue) : content s ~ m.2 :: content (stepState s m) := by
  have h1 : content (stepState s m) ~ content { s with queue := s.queue.erase m } := content_advance _ _
  have h2 : s.queue ~ m :: s.queue.erase m := perm_cons_erase hm
  have h3 : content s ~ m.2 :: content { s with queue := s.queue.erase m } := by
    simp only [content]
    have := (h2.map Prod.snd).append_right s.its.flatten
    simpa using this
  exact h3.trans (Perm.cons _ h1.symm)

theorem run_perm (n : Nat) (s : MState) (hc : Covered s) (hn : (content s).length ≤ n) :
    (run n s).map Prod.snd ~ content s := by
  induction n generalizing s with
  | zero =>
    have : content s = [] := List.eq_nil_of_length_eq_zero (by omega)
    simp [run, this]
  | succ n ih =>
    simp only [run]
    cases hm : minEntry s.queue with
    | none =>
      have := content_nil_of_queue_nil hc (minEntry_none.mp hm)
      simp [this]
    | some m =>
      have hmem := minEntry_mem hm
      have hp := content_step (s := s) hmem
      have hlen : (content (stepState s m)).length ≤ n := by
        have := hp.length_eq
        simp at this
        omega
      have := ih (stepState s m) (covered_step hc) hlen
      simp only [List.map_cons]
      exact (Perm.cons _ this).trans hp.symm

/-! ### initial state -/

theorem initGo_content (i : Nat) (files : List (List Aln)) :
    (initGo i files).1.map Prod.snd ++ (initGo i files).2.flatten ~ files.flatten := by
  induction files generalizing i with
  | nil => simp [initGo]
  | cons f fs ih =>
    cases f with
    | nil => simpa [initGo] using ih (i + 1)
    | cons a t =>
      simp only [initGo, List.map_cons, List.flatten_cons, List.cons_append]
      refine Perm.cons a ?_
      have := ih (i + 1)
      exact (perm_append_comm_assoc _ _ _).trans (Perm.append_left t this)

theorem initGo_covered (i : Nat) (files : List (List Aln)) :
    ∀ j a t, (initGo i files).2[j]? = some (a :: t) → ∃ b, (i + j, b) ∈ (initGo i files).1 := by
  induction files generalizing i with
  | nil => intro j a t h; simp [initGo] at h
  | cons f fs ih =>
    intro j a t h
    cases f with
    | nil =>
      cases j with
      | zero => simp [initGo] at h
      | succ j =>
        simp only [initGo, List.getElem?_cons_succ] at h
        obtain ⟨b, hb⟩ := ih (i + 1) j a t h
        exact ⟨b, by simpa [initGo, Nat.add_assoc, Nat.add_comm 1 j] using hb⟩
    | cons x xs =>
      cases j with
      | zero => exact ⟨x, by simp [initGo]⟩
      | succ j =>
        simp only [initGo, List.getElem?_cons_succ] at h
        obtain ⟨b, hb⟩ := ih (i + 1) j a t h
        refine ⟨b, ?_⟩
        simp only [initGo]
        refine List.mem_cons_of_mem _ ?_
        simpa [Nat.add_assoc, Nat.add_comm 1 j] using hb

theorem init_covered (files : List (List Aln)) : Covered (initState files) := by
  intro i a t h
  have := initGo_covered 0 files i a t h
  simpa [initState] using this

theorem init_content (files : List (List Aln)) : content (initState files) ~ files.flatten := by
  simpa [initState, content] using initGo_content 0 files

theorem merge_perm_aux (files : List (List Aln)) : (Model.C12.merge files).map Prod.snd ~ files.flatten := by
  unfold Model.C12.merge
  have hc := init_content files
  exact (run_perm _ _ (init_covered files) (by rw [hc.length_eq]; exact Nat.le_refl _)).trans hc

/-! ### the merged stream is sorted by start when every file is -/

/-- coordinate-sorted BAM: non-decreasing `reference_start` (nothing is assumed about ends or ties) -/
abbrev SortedStart (l : List Aln) : Prop := l.Pairwise (fun a b => a.start ≤ b.start)

/-- iterators are sorted, and a queue entry is not larger than what is left in its iterator -/
def HeadsLow (s : MState) : Prop :=
  (∀ f ∈ s.its, SortedStart f) ∧
  ∀ (i : Nat) (b : Aln), (i, b) ∈ s.queue → ∀ f, s.its[i]? = some f → ∀ x ∈ f, b.start ≤ x.start

theorem headsLow_step {s : MState} {m : Entry} (hk : HeadsLow s) : HeadsLow (stepState s m) := by
  obtain ⟨hs, hq⟩ := hk
  unfold stepState advance
  split
  · rename_i b t hb
    simp only at hb
    have hbt : SortedStart (b :: t) := hs _ (List.mem_of_getElem? hb)
    have hlt : m.1 < s.its.length := by
      rcases Nat.lt_or_ge m.1 s.its.length with h | h
      · exact h
      · rw [List.getElem?_eq_none h] at hb; simp at hb
    refine ⟨?_, ?_⟩
    · intro f hf
      rcases List.mem_or_eq_of_mem_set hf with h | h
      · exact hs f h
      · subst h; exact (List.pairwise_cons.mp hbt).2
    · intro i c hic f hf x hx
      simp only at hic hf
      rw [List.getElem?_set] at hf
      rcases List.mem_cons.mp hic with h | h
      · cases h
        simp [hlt] at hf; subst hf
        exact (List.pairwise_cons.mp hbt).1 x hx
      · have hmem := List.mem_of_mem_erase h
        by_cases hi : m.1 = i
        · subst hi
          simp [hlt] at hf; subst hf
          exact hq _ c hmem _ hb x (List.mem_cons_of_mem _ hx)
        · simp [hi] at hf
          exact hq i c hmem f hf x hx
  · refine ⟨hs, ?_⟩
    intro i c hic f hf x hx
    exact hq i c (List.mem_of_mem_erase hic) f hf x hx

theorem run_subset (n : Nat) (s : MState) : ∀ y ∈ run n s, y.2 ∈ content s := by
  induction n generalizing s with
  | zero => intro y hy; simp [run] at hy
  | succ n ih =>
    intro y hy
    simp only [run] at hy
    cases hm : minEntry s.queue with
    | none => simp [hm] at hy
    | some m =>
      simp only [hm] at hy
      have hp := content_step (s := s) (minEntry_mem hm)
      rcases List.mem_cons.mp hy with h | h
      · subst h; exact hp.symm.subset (List.mem_cons_self)
      · exact hp.symm.subset (List.mem_cons_of_mem _ (ih _ y h))

theorem min_le_content {s : MState} {m : Entry} (hm : minEntry s.queue = some m) (hc : Covered s)
    (hk : HeadsLow s) : ∀ a ∈ content s, m.2.start ≤ a.start := by
  intro a ha
  simp only [content, List.mem_append, List.mem_map, List.mem_flatten] at ha
  rcases ha with ⟨e, he, rfl⟩ | ⟨f, hf, haf⟩
  · exact keyLe_start (minEntry_le hm e he)
  · obtain ⟨i, hi⟩ := List.getElem?_of_mem hf
    cases f with
    | nil => simp at haf
    | cons x t =>
      obtain ⟨c, hcq⟩ := hc i x t hi
      have h1 := keyLe_start (minEntry_le hm _ hcq)
      have h2 := hk.2 i c hcq _ hi a haf
      simp only at h1
      omega

theorem run_sorted (n : Nat) (s : MState) (hc : Covered s) (hk : HeadsLow s) :
    (run n s).Pairwise (fun x y => x.2.start ≤ y.2.start) := by
  induction n generalizing s with
  | zero => simp [run]
  | succ n ih =>
    simp only [run]
    cases hm : minEntry s.queue with
    | none => simp
    | some m =>
      simp only
      refine List.pairwise_cons.mpr ⟨?_, ih _ (covered_step hc) (headsLow_step hk)⟩
      intro y hy
      have hy' := run_subset n _ y hy
      have hp := content_step (s := s) (minEntry_mem hm)
      exact min_le_content hm hc hk _ (hp.symm.subset (List.mem_cons_of_mem _ hy'))

theorem initGo_index_ge (i : Nat) (files : List (List Aln)) : ∀ e ∈ (initGo i files).1, i ≤ e.1 := by
  induction files generalizing i with
  | nil => intro e he; simp [initGo] at he
  | cons f fs ih =>
    intro e he
    cases f with
    | nil =>
      simp only [initGo] at he
      have := ih (i + 1) e he
      omega
    | cons a t =>
      simp only [initGo] at he
      rcases List.mem_cons.mp he with h | h
      · subst h; exact Nat.le_refl _
      · have := ih (i + 1) e h
        omega

theorem initGo_headsLow (i : Nat) (files : List (List Aln)) (hs : ∀ f ∈ files, SortedStart f) :
    (∀ f ∈ (initGo i files).2, SortedStart f) ∧
    ∀ (j : Nat) (b : Aln), (i + j, b) ∈ (initGo i files).1 → ∀ f, (initGo i files).2[j]? = some f →
      ∀ x ∈ f, b.start ≤ x.start := by
  induction files generalizing i with
  | nil => simp [initGo]
  | cons f fs ih =>
    have ihh := ih (i + 1) (fun g hg => hs g (List.mem_cons_of_mem _ hg))
    have hf : SortedStart f := hs f List.mem_cons_self
    cases f with
    | nil =>
      refine ⟨?_, ?_⟩
      · intro g hg
        simp only [initGo] at hg
        rcases List.mem_cons.mp hg with h | h
        · subst h; exact List.Pairwise.nil
        · exact ihh.1 g h
      · intro j b hb g hg x hx
        simp only [initGo] at hb hg
        have hge := initGo_index_ge (i + 1) fs _ hb
        cases j with
        | zero => simp at hge; omega
        | succ j =>
          simp only [List.getElem?_cons_succ] at hg
          exact ihh.2 j b (by simpa [Nat.add_assoc, Nat.add_comm 1 j] using hb) g hg x hx
    | cons a t =>
      refine ⟨?_, ?_⟩
      · intro g hg
        simp only [initGo] at hg
        rcases List.mem_cons.mp hg with h | h
        · subst h; exact (List.pairwise_cons.mp hf).2
        · exact ihh.1 g h
      · intro j b hb g hg x hx
        simp only [initGo] at hb hg
        cases j with
        | zero =>
          simp only [List.getElem?_cons_zero, Option.some.injEq] at hg
          subst hg
          rcases List.mem_cons.mp hb with h | h
          · cases h; exact (List.pairwise_cons.mp hf).1 x hx
          · have hge := initGo_index_ge (i + 1) fs _ h
            simp at hge; omega
        | succ j =>
          simp only [List.getElem?_cons_succ] at hg
          rcases List.mem_cons.mp hb with h | h
          · have : i + (j + 1) = i := congrArg Prod.fst h
            exact absurd this (by omega)
          · exact ihh.2 j b (by simpa [Nat.add_assoc, Nat.add_comm 1 j] using h) g hg x hx

theorem init_headsLow (files : List (List Aln)) (hs : ∀ f ∈ files, SortedStart f) : HeadsLow (initState files) := by
  have := initGo_headsLow 0 files hs
  refine ⟨this.1, ?_⟩
  intro i b hb f hf x hx
  exact this.2 i b (by simpa [initState] using hb) f hf x hx

theorem merge_sorted_aux (files : List (List Aln)) (hs : ∀ f ∈ files, SortedStart f) :
    (Model.C12.merge files).Pairwise (fun x y => x.2.start ≤ y.2.start) :=
  run_sorted _ _ (init_covered files) (init_headsLow files hs)

end IsoVerif.Lemmas.C12
