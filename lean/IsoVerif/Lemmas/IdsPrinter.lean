/-
Helper lemmas for the C17 printer theorems.  Core Lean only.
-/
import IsoVerif.Model.IdsPrinter
import IsoVerif.Lemmas.Ids

namespace IsoVerif.Lemmas.C17
open IsoVerif.Gen IsoVerif.Model.C17

/-! ### call histories compose -/

theorem getIds_append : ∀ (a b : List ExonKey) (st : FeatureIdStorage),
    st.getIds (a ++ b) =
      match st.getIds a with
      | none => none
      | some (i1, s1) =>
        match s1.getIds b with
        | none => none
        | some (i2, s2) => some (i1 ++ i2, s2)
  | [], b, st => by
      simp only [List.nil_append, FeatureIdStorage.getIds]
      cases st.getIds b with
      | none => rfl
      | some r => rfl
  | k :: a, b, st => by
      simp only [List.cons_append, FeatureIdStorage.getIds]
      cases h : st.getId k with
      | none => rfl
      | some r =>
        obtain ⟨id, s1⟩ := r
        simp only []
        rw [getIds_append a b s1]
        cases s1.getIds a with
        | none => rfl
        | some r1 =>
          obtain ⟨i1, s2⟩ := r1
          simp only []
          cases s2.getIds b with
          | none => rfl
          | some r2 => rfl

/-! ### what was written -/

/-- (key, exon_id) of the written feature lines -/
def outKeyIds (out : List OutLine) : List (ExonKey × Str) :=
  out.filterMap (fun l => match l.1.key?, l.2 with | some k, some i => some (k, i) | _, _ => none)

/-- gene ids of the written gene lines -/
def PLine.geneId? : PLine → Option Str
  | .gene _ _ _ _ gid => some gid
  | _ => none

def planGeneIds (plan : List PLine) : List Str := plan.filterMap PLine.geneId?
def outGeneIds (out : List OutLine) : List Str := planGeneIds (out.map (·.1))

/-- transcript ids of the written transcript lines -/
def PLine.transcriptId? : PLine → Option Str
  | .transcript _ _ _ _ _ tid => some tid
  | _ => none

def planTranscriptIds (plan : List PLine) : List Str := plan.filterMap PLine.transcriptId?
def outTranscriptIds (out : List OutLine) : List Str := planTranscriptIds (out.map (·.1))

theorem fill_plan : ∀ (plan : List PLine) (ids : List Str), (fill plan ids).map (·.1) = plan
  | [], _ => rfl
  | l :: r, ids => by
      unfold fill
      cases hk : l.key? with
      | none => simp [fill_plan r ids]
      | some k =>
        cases ids with
        | nil => simp [fill_plan r []]
        | cons id ids' => simp [fill_plan r ids']

theorem fill_keyIds : ∀ (plan : List PLine) (ids : List Str), ids.length = (planKeys plan).length →
    outKeyIds (fill plan ids) = (planKeys plan).zip ids
  | [], ids, _ => by simp [fill, outKeyIds, planKeys]
  | l :: r, ids, h => by
      unfold fill
      cases hk : l.key? with
      | none =>
        have hpk : planKeys (l :: r) = planKeys r := by simp [planKeys, hk]
        rw [hpk] at h ⊢
        have ih := fill_keyIds r ids h
        simp only [outKeyIds, List.filterMap_cons, hk] at ih ⊢
        exact ih
      | some k =>
        have hpk : planKeys (l :: r) = k :: planKeys r := by simp [planKeys, hk]
        rw [hpk] at h ⊢
        cases ids with
        | nil => simp at h
        | cons id ids' =>
          have ih := fill_keyIds r ids' (by simpa using h)
          simp only [outKeyIds, List.filterMap_cons, hk, List.zip_cons_cons] at ih ⊢
          rw [ih]

/-! ### gene lines and `printed_gene_ids` -/

theorem modelLines_no_gene (p : Placed) : planGeneIds (modelLines p) = [] := by
  simp only [modelLines, planGeneIds, List.filterMap_cons, PLine.geneId?]
  rw [List.filterMap_eq_nil_iff]
  intro a ha
  simp only [List.mem_map] at ha
  obtain ⟨x, _, rfl⟩ := ha
  rfl

theorem flatMap_modelLines_no_gene (ms : List Placed) : planGeneIds (ms.flatMap modelLines) = [] := by
  induction ms with
  | nil => rfl
  | cons m ms ih =>
    simp only [List.flatMap_cons, planGeneIds, List.filterMap_append] at ih ⊢
    rw [ih]
    simpa [planGeneIds] using modelLines_no_gene m

/-- the second loop writes a gene line exactly for the genes that were not yet in `printed_gene_ids`,
    adds them, and so never repeats one -/
theorem dumpGenes_printed (gm : List (Str × List Placed)) : ∀ (order : List (Str × GeneRec)) (printed : List Str),
    printed.Nodup →
    (dumpGenes gm order printed).2 = printed ++ planGeneIds (dumpGenes gm order printed).1 ∧
    (dumpGenes gm order printed).2.Nodup
  | [], printed, h => by simp [dumpGenes, planGeneIds, h]
  | (gid, rec) :: gs, printed, h => by
      simp only [dumpGenes]
      by_cases hm : gid ∈ printed
      · simp only [hm, if_true]
        obtain ⟨a, b⟩ := dumpGenes_printed gm gs printed h
        refine ⟨?_, b⟩
        rw [a]
        simp only [planGeneIds, List.filterMap_append] at *
        have := flatMap_modelLines_no_gene ((assocGet gid gm).getD [])
        simp only [planGeneIds] at this
        rw [this]; simp
      · simp only [hm, if_false]
        have h' : (printed ++ [gid]).Nodup := by
          rw [List.nodup_append]
          exact ⟨h, by simp, fun x hx y hy e => by simp at hy; subst hy; subst e; exact hm hx⟩
        obtain ⟨a, b⟩ := dumpGenes_printed gm gs (printed ++ [gid]) h'
        refine ⟨?_, b⟩
        rw [a]
        simp only [planGeneIds, List.filterMap_cons, List.filterMap_append, PLine.geneId?] at *
        have := flatMap_modelLines_no_gene ((assocGet gid gm).getD [])
        simp only [planGeneIds] at this
        rw [this]; simp

/-! ### the stable sort is a permutation -/

theorem orderedInsert_perm {α} (le : α → α → Bool) (a : α) : ∀ l : List α, (orderedInsert le a l).Perm (a :: l)
  | [] => List.Perm.refl _
  | b :: l => by
      simp only [orderedInsert]
      split
      · exact List.Perm.refl _
      · exact ((orderedInsert_perm le a l).cons b).trans (List.Perm.swap a b l)

theorem pySorted_perm {α} (le : α → α → Bool) : ∀ l : List α, (pySorted le l).Perm l
  | [] => List.Perm.refl _
  | a :: l => (orderedInsert_perm le a _).trans ((pySorted_perm le l).cons a)

/-! ### insertion-ordered dict -/

theorem flatMap_congr_mem {α β} {f g : α → List β} : ∀ (l : List α), (∀ x ∈ l, f x = g x) →
    l.flatMap f = l.flatMap g
  | [], _ => rfl
  | a :: l, h => by
      simp only [List.flatMap_cons]
      rw [h a (by simp), flatMap_congr_mem l (fun x hx => h x (by simp [hx]))]

theorem assocGet_none_iff {α} (k : Str) : ∀ l : List (Str × α), assocGet k l = none ↔ k ∉ l.map (·.1)
  | [] => by simp [assocGet]
  | (k', v) :: r => by
      simp only [assocGet, List.map_cons, List.mem_cons, not_or]
      by_cases e : k = k'
      · simp [e]
      · simp [e, assocGet_none_iff k r]

theorem assocSet_new {α} (k : Str) (v : α) : ∀ l : List (Str × α), assocGet k l = none →
    assocSet k v l = l ++ [(k, v)]
  | [], _ => by simp [assocSet]
  | (k', v') :: r, h => by
      simp only [assocGet] at h
      by_cases e : k = k'
      · simp [e] at h
      · simp only [e, if_false] at h
        simp [assocSet, e, assocSet_new k v r h]

theorem assocSet_keys_old {α} (k : Str) (v : α) : ∀ (l : List (Str × α)) (w : α), assocGet k l = some w →
    (assocSet k v l).map (·.1) = l.map (·.1)
  | [], _, h => by simp [assocGet] at h
  | (k', v') :: r, w, h => by
      simp only [assocGet] at h
      by_cases e : k = k'
      · simp [assocSet, e]
      · simp only [e, if_false] at h
        simp [assocSet, e, assocSet_keys_old k v r w h]

/-- transcript ids of the models collected per gene -/
def groupTids (gm : List (Str × List Placed)) : List Str := gm.flatMap (fun g => g.2.map (·.1.tid))

theorem groupTids_set_old (k : Str) (x : Placed) : ∀ (gm : List (Str × List Placed)) (l : List Placed),
    assocGet k gm = some l → (groupTids (assocSet k (l ++ [x]) gm)).Perm (groupTids gm ++ [x.1.tid])
  | [], _, h => by simp [assocGet] at h
  | (k', v') :: r, l, h => by
      simp only [assocGet] at h
      by_cases e : k = k'
      · simp only [e, if_true, Option.some.injEq] at h
        subst h
        simp only [assocSet, e, if_true, groupTids, List.flatMap_cons, List.map_append, List.map_cons,
          List.map_nil, List.append_assoc]
        exact List.Perm.append_left _ List.perm_append_comm
      · simp only [e, if_false] at h
        have ih := groupTids_set_old k x r l h
        simp only [assocSet, e, if_false, groupTids, List.flatMap_cons, List.append_assoc] at ih ⊢
        exact List.Perm.append_left _ ih

/-- looking the genes up by key gives back the grouped models when the keys are distinct -/
theorem lookup_all_keys : ∀ (gm : List (Str × List Placed)), (gm.map (·.1)).Nodup →
    (gm.map (·.1)).flatMap (fun k => ((assocGet k gm).getD []).map (·.1.tid)) = groupTids gm
  | [], _ => rfl
  | (k, v) :: r, h => by
      simp only [List.map_cons, List.nodup_cons] at h
      obtain ⟨hk, hr⟩ := h
      simp only [List.map_cons, List.flatMap_cons, assocGet, if_true, Option.getD_some, groupTids]
      congr 1
      have ih := lookup_all_keys r hr
      simp only [groupTids] at ih
      rw [← ih]
      apply flatMap_congr_mem
      intro x hx
      have : x ≠ k := fun e => hk (e ▸ hx)
      simp [this]

/-! ### the first loop of `dump` groups the valid models, nothing is lost or repeated -/

structure CollInv (c : Collected) : Prop where
  keys : c.geneInfo.map (·.1) = c.geneModels.map (·.1)
  nodup : (c.geneModels.map (·.1)).Nodup

/-- transcript ids of the models that pass `validate_exons`, in input order -/
def validTids (ms : List TModel) : List Str := (ms.filter (fun m => validateExons m.exons)).map (·.tid)

/-- one step of the bookkeeping: both dicts receive the key `gid` -/
theorem collect_step (acc : Collected) (inv : CollInv acc) (m : TModel) (tr : Int × Int) (rec : GeneRec) :
    let gm := match assocGet m.gid acc.geneModels with
      | none => assocSet m.gid [(m, tr)] acc.geneModels
      | some l => assocSet m.gid (l ++ [(m, tr)]) acc.geneModels
    CollInv ⟨gm, assocSet m.gid rec acc.geneInfo⟩ ∧ (groupTids gm).Perm (groupTids acc.geneModels ++ [m.tid]) := by
  intro gm
  cases hgm : assocGet m.gid acc.geneModels with
  | none =>
    have hgi : assocGet m.gid acc.geneInfo = none := by
      rw [assocGet_none_iff, inv.keys, ← assocGet_none_iff]; exact hgm
    have e1 := assocSet_new m.gid [(m, tr)] acc.geneModels hgm
    have e2 := assocSet_new m.gid rec acc.geneInfo hgi
    have hg : gm = acc.geneModels ++ [(m.gid, [(m, tr)])] := by simp only [gm, hgm, e1]
    rw [hg, e2]
    refine ⟨⟨by simp [inv.keys], ?_⟩, by simp [groupTids]⟩
    simp only [List.map_append, List.map_cons, List.map_nil]
    rw [List.nodup_append]
    refine ⟨inv.nodup, by simp, fun a ha b hb e => ?_⟩
    simp only [List.mem_cons, List.not_mem_nil, or_false] at hb
    subst hb; subst e
    exact (assocGet_none_iff _ _).mp hgm ha
  | some l =>
    have hgi : ∃ w, assocGet m.gid acc.geneInfo = some w := by
      cases h : assocGet m.gid acc.geneInfo with
      | some w => exact ⟨w, rfl⟩
      | none =>
        exfalso
        rw [assocGet_none_iff, inv.keys, ← assocGet_none_iff, hgm] at h
        cases h
    obtain ⟨w, hw⟩ := hgi
    have hg : gm = assocSet m.gid (l ++ [(m, tr)]) acc.geneModels := by simp only [gm, hgm]
    rw [hg]
    refine ⟨⟨?_, ?_⟩, groupTids_set_old m.gid (m, tr) acc.geneModels l hgm⟩
    · simp only [assocSet_keys_old _ _ _ _ hw, assocSet_keys_old _ _ _ _ hgm, inv.keys]
    · simp only [assocSet_keys_old _ _ _ _ hgm]; exact inv.nodup

theorem dumpCollect_spec (giChr : Str) (regions : List (Str × (Int × Int))) :
    ∀ (ms : List TModel) (acc c : Collected), dumpCollect giChr regions ms acc = some c → CollInv acc →
      CollInv c ∧ (groupTids c.geneModels).Perm (groupTids acc.geneModels ++ validTids ms)
  | [], acc, c, h, inv => by
      simp only [dumpCollect, Option.some.injEq] at h
      subst h
      exact ⟨inv, by simp [validTids]⟩
  | m :: ms, acc, c, h, inv => by
      simp only [dumpCollect] at h
      by_cases hv : validateExons m.exons = true
      · simp only [hv, if_true] at h
        have hvt : validTids (m :: ms) = m.tid :: validTids ms := by simp [validTids, hv]
        split at h
        · next f l hf hl =>
          have finish : ∀ (rec : GeneRec),
              dumpCollect giChr regions ms
                ⟨match assocGet m.gid acc.geneModels with
                  | none => assocSet m.gid [(m, (f.1, l.2))] acc.geneModels
                  | some l' => assocSet m.gid (l' ++ [(m, (f.1, l.2))]) acc.geneModels,
                 assocSet m.gid rec acc.geneInfo⟩ = some c →
              CollInv c ∧ (groupTids c.geneModels).Perm (groupTids acc.geneModels ++ validTids (m :: ms)) := by
            intro rec hh
            obtain ⟨i1, p1⟩ := collect_step acc inv m (f.1, l.2) rec
            obtain ⟨i2, p2⟩ := dumpCollect_spec giChr regions ms _ c hh i1
            refine ⟨i2, p2.trans ?_⟩
            rw [hvt]
            simpa using p1.append_right (validTids ms)
          split at h
          · split at h
            · exact finish _ h
            · cases h
          · split at h
            · exact finish _ h
            · cases h
        · cases h
      · have hv' : validateExons m.exons = false := by simpa using hv
        simp only [hv', Bool.false_eq_true, if_false] at h
        have hvt : validTids (m :: ms) = validTids ms := by simp [validTids, hv']
        rw [hvt]
        exact dumpCollect_spec giChr regions ms acc c h inv

/-! ### transcript lines -/

theorem modelLines_tids (p : Placed) : planTranscriptIds (modelLines p) = [p.1.tid] := by
  simp only [modelLines, planTranscriptIds, List.filterMap_cons, PLine.transcriptId?]
  congr 1
  rw [List.filterMap_eq_nil_iff]
  intro a ha
  simp only [List.mem_map] at ha
  obtain ⟨x, _, rfl⟩ := ha
  rfl

theorem flatMap_modelLines_tids (ms : List Placed) :
    planTranscriptIds (ms.flatMap modelLines) = ms.map (·.1.tid) := by
  induction ms with
  | nil => rfl
  | cons m ms ih =>
    simp only [List.flatMap_cons, planTranscriptIds, List.filterMap_append, List.map_cons] at ih ⊢
    rw [ih]
    have := modelLines_tids m
    simp only [planTranscriptIds] at this
    rw [this]; rfl

theorem dumpGenes_tids (gm : List (Str × List Placed)) : ∀ (order : List (Str × GeneRec)) (printed : List Str),
    planTranscriptIds (dumpGenes gm order printed).1 =
      order.flatMap (fun g => ((assocGet g.1 gm).getD []).map (·.1.tid))
  | [], _ => rfl
  | (gid, rec) :: gs, printed => by
      simp only [dumpGenes, List.flatMap_cons]
      have hm := flatMap_modelLines_tids ((assocGet gid gm).getD [])
      simp only [planTranscriptIds] at hm
      split
      · have ih := dumpGenes_tids gm gs printed
        simp only [planTranscriptIds, List.filterMap_append] at ih ⊢
        rw [ih, hm]
      · have ih := dumpGenes_tids gm gs (printed ++ [gid])
        simp only [planTranscriptIds, List.filterMap_append, List.filterMap_cons, PLine.transcriptId?] at ih ⊢
        rw [ih, hm]

/-- the transcript lines of one dump call are exactly the models that pass `validate_exons`, each once -/
theorem dumpPlan_transcripts (printed : List Str) (giChr : Str) (regions : List (Str × (Int × Int)))
    (models : List TModel) (plan : List PLine) (printed' : List Str)
    (h : dumpPlan printed giChr regions models = some (plan, printed')) :
    (planTranscriptIds plan).Perm (validTids models) := by
  unfold dumpPlan at h
  cases hc : dumpCollect giChr regions models ⟨[], []⟩ with
  | none => simp [hc] at h
  | some c =>
    simp only [hc, Option.some.injEq] at h
    obtain ⟨inv, pm⟩ := dumpCollect_spec giChr regions models ⟨[], []⟩ c hc ⟨rfl, by simp⟩
    have hp : plan = (dumpGenes c.geneModels (pySorted (fun a b => ivLexLe a.2.region b.2.region) c.geneInfo) printed).1 := by
      rw [h]
    rw [hp, dumpGenes_tids]
    refine ((pySorted_perm _ c.geneInfo).flatMap_right _).trans ?_
    have : c.geneInfo.flatMap (fun g => ((assocGet g.1 c.geneModels).getD []).map (·.1.tid))
        = (c.geneInfo.map (·.1)).flatMap (fun k => ((assocGet k c.geneModels).getD []).map (·.1.tid)) := by
      rw [List.flatMap_map]
    rw [this, inv.keys, lookup_all_keys _ inv.nodup]
    simpa [groupTids] using pm

end IsoVerif.Lemmas.C17
