/-
C01, forward clause: helper lemmas about the gene model (`Gene.fromModels`), the split-exon atoms and the profile
comparison loops (`equal_profiles_in_range`, `has_overlapping_features`) in the INTRODUCTION direction.
-/
import IsoVerif.Lemmas.C01SplitSweep
import IsoVerif.Lemmas.C01FollowIntron
import IsoVerif.Props.C19Split
import IsoVerif.Lemmas.Exons

namespace IsoVerif.Lemmas.C01
open IsoVerif.Gen IsoVerif.Model IsoVerif.Model.C01 IsoVerif.Lemmas

/-! ### the comparison loops, introduction direction -/

theorem allRange_intro (p : Int → Option Bool) : ∀ (n : Nat) (s : Int),
    (∀ k : Nat, k < n → p (s + k) = some true) → allRange p s n = some true := by
  intro n
  induction n with
  | zero => intro s _; rfl
  | succ n ih =>
    intro s h
    have h0 := h 0 (by omega)
    simp only [Int.natCast_zero, Int.add_zero] at h0
    simp only [allRange, h0]
    apply ih
    intro k hk
    have := h (k + 1) (by omega)
    have e : s + ((k + 1 : Nat) : Int) = s + 1 + (k : Int) := by omega
    rw [e] at this; exact this

theorem anyRange_intro (p : Int → Option Bool) : ∀ (n : Nat) (s : Int),
    (∀ k : Nat, k < n → ∃ b, p (s + k) = some b) → (∃ k : Nat, k < n ∧ p (s + k) = some true) →
    anyRange p s n = some true := by
  intro n
  induction n with
  | zero => intro s _ ⟨k, hk, _⟩; omega
  | succ n ih =>
    intro s hdef ⟨k, hk, hpk⟩
    obtain ⟨b, hb⟩ := hdef 0 (by omega)
    simp only [Int.natCast_zero, Int.add_zero] at hb
    simp only [anyRange, hb]
    cases b with
    | true => rfl
    | false =>
      simp only
      apply ih
      · intro k' hk'
        obtain ⟨b', hb'⟩ := hdef (k' + 1) (by omega)
        have e : s + ((k' + 1 : Nat) : Int) = s + 1 + (k' : Int) := by omega
        rw [e] at hb'; exact ⟨b', hb'⟩
      · cases k with
        | zero =>
          simp only [Int.natCast_zero, Int.add_zero] at hpk
          rw [hb] at hpk; cases hpk
        | succ k =>
          refine ⟨k, by omega, ?_⟩
          have e : s + ((k + 1 : Nat) : Int) = s + 1 + (k : Int) := by omega
          rw [e] at hpk; exact hpk

/-- `equal_profiles_in_range` answers True when every non-zero mark of the read profile inside the range is copied
    by the isoform profile -/
theorem equalProfilesInRange_intro (iso read : List Int) (rng : Int × Int) (h0 : 0 ≤ rng.1)
    (h : ∀ i : Nat, rng.1 ≤ (i : Int) → (i : Int) < rng.2 →
      ∃ v, read[i]? = some v ∧ (v = 0 ∨ iso[i]? = some v)) :
    equalProfilesInRange iso read rng = some true := by
  unfold equalProfilesInRange
  apply allRange_intro
  intro k hk
  have hi : rng.1 + (k : Int) = (((rng.1 + (k : Int)).toNat : Nat) : Int) := by omega
  obtain ⟨v, hv, hor⟩ := h (rng.1 + (k : Int)).toNat (by omega) (by omega)
  rw [hi, pyGet?_nat, hv]
  simp only
  rcases hor with e | e
  · simp [e]
  · by_cases e0 : v = 0
    · simp [e0]
    · simp only [e0, if_false, pyGet?_nat, e]
      simp

/-- `has_overlapping_features` answers True when the range is inside both profiles and some index carries a 1 in
    both -/
theorem hasOverlappingFeatures_intro (p1 p2 : List Int) (rng : Int × Int) (hlen : p1.length = p2.length)
    (h0 : 0 ≤ rng.1) (h1 : rng.2 ≤ (p1.length : Int))
    (i : Nat) (hlo : rng.1 ≤ (i : Int)) (hhi : (i : Int) < rng.2) (ha : p1[i]? = some 1) (hb : p2[i]? = some 1) :
    hasOverlappingFeatures p1 p2 rng = some true := by
  unfold hasOverlappingFeatures
  simp only [hlen, ne_eq, not_true_eq_false, if_false]
  apply anyRange_intro
  · intro k hk
    have hi : rng.1 + (k : Int) = (((rng.1 + (k : Int)).toNat : Nat) : Int) := by omega
    have hl1 : (rng.1 + (k : Int)).toNat < p1.length := by omega
    have hl2 : (rng.1 + (k : Int)).toNat < p2.length := by omega
    rw [hi, pyGet?_nat, pyGet?_nat]
    simp [hl1, hl2]
  · refine ⟨(i - rng.1).toNat, by omega, ?_⟩
    have e : rng.1 + (((i : Int) - rng.1).toNat : Int) = (i : Int) := by omega
    rw [e, pyGet?_nat, pyGet?_nat, ha, hb]
    simp

/-! ### profile ranges -/

theorem leadingLt1_le (l : List Int) (i : Nat) (v : Int) (h : l[i]? = some v) (hv : 1 ≤ v) : leadingLt1 l ≤ i := by
  induction l generalizing i with
  | nil => simp at h
  | cons x xs ih =>
    cases i with
    | zero =>
      simp at h; subst h
      have : ¬ x < 1 := by omega
      simp [leadingLt1, this]
    | succ i =>
      simp at h
      have := ih i h
      simp only [leadingLt1]
      split <;> omega

theorem leadingLt1_le_length (l : List Int) : leadingLt1 l ≤ l.length := by
  induction l with
  | nil => simp [leadingLt1]
  | cons x xs ih => simp only [leadingLt1]; split <;> simp <;> omega

/-- a mark 1 of an isoform profile lies inside the profile range `set_profiles` records -/
theorem setProfiles_range (cmp : Iv → Iv → Bool) (features tf : List Iv) (region : Iv) (i : Nat)
    (h : (setProfiles features tf region cmp).1[i]? = some 1) :
    (setProfiles features tf region cmp).2.1 ≤ (i : Int) ∧ (i : Int) < (setProfiles features tf region cmp).2.2 := by
  have hi : i < (setProfiles features tf region cmp).1.length := getElem?_lt h
  have h1 := leadingLt1_le _ i 1 h (by omega)
  have h2 : leadingLt1 (setProfiles features tf region cmp).1.reverse ≤
      (setProfiles features tf region cmp).1.length - 1 - i := by
    apply leadingLt1_le _ _ 1 _ (by omega)
    rw [List.getElem?_reverse (by omega)]
    have e : (setProfiles features tf region cmp).1.length - 1 -
        ((setProfiles features tf region cmp).1.length - 1 - i) = i := by omega
    rw [e]; exact h
  have e1 : (setProfiles features tf region cmp).2.1 = (leadingLt1 (setProfiles features tf region cmp).1 : Int) := rfl
  have e2 : (setProfiles features tf region cmp).2.2 = ((setProfiles features tf region cmp).1.length : Int) - 1 -
      (leadingLt1 (setProfiles features tf region cmp).1.reverse : Int) + 1 := rfl
  rw [e1, e2]
  omega

theorem setProfiles_range_bounds (cmp : Iv → Iv → Bool) (features tf : List Iv) (region : Iv) :
    0 ≤ (setProfiles features tf region cmp).2.1 ∧
    (setProfiles features tf region cmp).2.2 ≤ ((setProfiles features tf region cmp).1.length : Int) := by
  have e1 : (setProfiles features tf region cmp).2.1 = (leadingLt1 (setProfiles features tf region cmp).1 : Int) := rfl
  have e2 : (setProfiles features tf region cmp).2.2 = ((setProfiles features tf region cmp).1.length : Int) - 1 -
      (leadingLt1 (setProfiles features tf region cmp).1.reverse : Int) + 1 := rfl
  rw [e1, e2]
  omega

theorem profileRange_bounds (l : List Int) : 0 ≤ (profileRange l).1 ∧ (profileRange l).2 ≤ (l.length : Int) := by
  simp only [profileRange]; omega

/-! ### what `Gene.fromModels` records (profiles AND ranges, the split-exon list) -/

structure IsoOf2 (g : Gene) (m : Isoform) (I : IsoInfo) : Prop where
  base : IsoOf g m I
  splitRange : I.splitRange = (setProfiles g.splitExons m.exons I.region (fun a b => contains a b)).2
  intronRange : I.intronRange = (setProfiles g.introns I.introns I.region (fun a b => equal_ranges a b 0)).2

theorem fromModels_spec2 (ms : List Isoform) (g : Gene) (h : Gene.fromModels ms = some g) :
    IsoVerif.Model.splitExons g.exons = some g.splitExons ∧ ∀ I ∈ g.isos, ∃ m ∈ ms, IsoOf2 g m I := by
  unfold Gene.fromModels at h
  split at h
  · simp at h
  · simp at h
  · simp only at h
    split at h
    · simp at h
    · rename_i split hsplit
      split at h
      · simp at h
      · rename_i isos hisos
        simp at h; subst h
        refine ⟨hsplit, ?_⟩
        intro I hI
        obtain ⟨m, hm, id, hid⟩ := mkIsos_mem _ _ ms 0 isos hisos I hI
        refine ⟨m, hm, ?_⟩
        unfold mkIso at hid
        split at hid
        · simp at hid
        · rename_i reg hreg
          simp at hid; subst hid
          exact ⟨⟨rfl, rfl, hreg, rfl, rfl, rfl⟩, rfl, rfl⟩

/-- coordinates are non-negative (genomic coordinates are ≥ 1; `split_exons` uses −1 as a marker) -/
def NonNeg (ms : List Isoform) : Prop := ∀ m ∈ ms, ∀ e ∈ m.exons, 0 ≤ e.1

/-- the atoms of the exon arrangement -/
structure Atoms (g : Gene) : Prop where
  sd : SD g.splitExons
  wf : WFl g.splitExons
  cover : ∀ p, cov g.splitExons p ↔ cov g.exons p
  atom : ∀ b ∈ g.splitExons, ∀ e ∈ g.exons, contains e b = true ∨ overlaps e b = false

theorem atoms_of_fromModels (ms : List Isoform) (g : Gene) (h : Gene.fromModels ms = some g) (hwf : WellFormed ms)
    (hnn : NonNeg ms) : Atoms g := by
  obtain ⟨_, hex, _⟩ := fromModels_spec ms g h
  obtain ⟨hsp, _⟩ := fromModels_spec2 ms g h
  have hmem : ∀ e ∈ g.exons, ∃ m ∈ ms, e ∈ m.exons := by
    intro e he
    rw [hex, mem_sortDedupIv] at he
    simpa [List.mem_flatMap] using he
  have w : WFl g.exons := by
    intro e he
    obtain ⟨m, hm, hem⟩ := hmem e he
    exact (hwf m hm).2 e hem
  have hpos : ∀ e ∈ g.exons, 0 ≤ e.1 := by
    intro e he
    obtain ⟨m, hm, hem⟩ := hmem e he
    exact hnn m hm e hem
  obtain ⟨blocks, hb, h1, h2, h3, h4, _⟩ := IsoVerif.Props.C19Split.split_exons_spec g.exons w hpos
  rw [hsp] at hb; cases hb
  exact ⟨h1, h2, h3, h4⟩

theorem exon_mem_gene (ms : List Isoform) (g : Gene) (h : Gene.fromModels ms = some g) (m : Isoform) (hm : m ∈ ms)
    (e : Iv) (he : e ∈ m.exons) : e ∈ g.exons := by
  obtain ⟨_, hex, _⟩ := fromModels_spec ms g h
  rw [hex, mem_sortDedupIv]
  simp only [List.mem_flatMap]
  exact ⟨m, hm, he⟩

/-- an atom that overlaps an exon is contained in it; every position of an exon lies in an atom -/
theorem atom_in_exon {g : Gene} (ha : Atoms g) (e : Iv) (he : e ∈ g.exons) (k : Iv) (hk : k ∈ g.splitExons)
    (hov : overlaps e k = true) : e.1 ≤ k.1 ∧ k.2 ≤ e.2 := by
  rcases ha.atom k hk e he with h | h
  · simp [contains] at h; omega
  · rw [h] at hov; cases hov

theorem atom_at {g : Gene} (ha : Atoms g) (e : Iv) (he : e ∈ g.exons) (p : Int) (hp : e.1 ≤ p ∧ p ≤ e.2) :
    ∃ k ∈ g.splitExons, k.1 ≤ p ∧ p ≤ k.2 ∧ e.1 ≤ k.1 ∧ k.2 ≤ e.2 := by
  obtain ⟨k, hk, hkp⟩ := (ha.cover p).mpr ⟨e, he, hp⟩
  have hov : overlaps e k = true := by
    simp [overlaps]; omega
  obtain ⟨h1, h2⟩ := atom_in_exon ha e he k hk hov
  exact ⟨k, hk, hkp.1, hkp.2, h1, h2⟩

/-- the split-exon profile of an isoform marks with 1 exactly the atoms contained in one of its exons -/
theorem splitProf_one_iff (ms : List Isoform) (g : Gene) (h : Gene.fromModels ms = some g) (hwf : WellFormed ms)
    (hnn : NonNeg ms) (I : IsoInfo) (hI : I ∈ g.isos) (i : Nat) (k : Iv) (hk : g.splitExons[i]? = some k) :
    I.splitProf[i]? = some 1 ↔ ∃ e ∈ I.exons, contains e k = true := by
  obtain ⟨_, hisos⟩ := fromModels_spec2 ms g h
  obtain ⟨m, hm, hio⟩ := hisos I hI
  have ha := atoms_of_fromModels ms g h hwf hnn
  rw [hio.base.splitProf, hio.base.exons]
  constructor
  · intro h1
    exact setProfiles_sound _ _ _ _ i k hk h1
  · rintro ⟨e, he, hc⟩
    obtain ⟨mk, hmk, hv⟩ := setProfiles_get (fun a b => contains a b) g.splitExons m.exons I.region i k hk
    have := markLoop_complete_contains m.exons g.splitExons false ha.sd ha.wf (hwf m hm).1 (hwf m hm).2
      (by
        intro e' he'
        left
        have hw := (hwf m hm).2 e' he'
        obtain ⟨k', hk', _, _, h1, h2⟩ := atom_at ha e' (exon_mem_gene ms g h m hm e' he') e'.1 ⟨by omega, hw⟩
        exact ⟨k', hk', by simp [contains]; omega⟩)
      (by simp) i k hk e he hc
    rw [this] at hmk
    injection hmk with hmk
    subst hmk
    simpa using hv

theorem splitProf_length (ms : List Isoform) (g : Gene) (h : Gene.fromModels ms = some g)
    (I : IsoInfo) (hI : I ∈ g.isos) : I.splitProf.length = g.splitExons.length := by
  obtain ⟨_, hisos⟩ := fromModels_spec2 ms g h
  obtain ⟨m, hm, hio⟩ := hisos I hI
  rw [hio.base.splitProf, setProfiles_length]

theorem intronProf_length (ms : List Isoform) (g : Gene) (h : Gene.fromModels ms = some g)
    (I : IsoInfo) (hI : I ∈ g.isos) : I.intronProf.length = g.introns.length := by
  obtain ⟨_, hisos⟩ := fromModels_spec2 ms g h
  obtain ⟨m, hm, hio⟩ := hisos I hI
  rw [hio.base.intronProf, setProfiles_length]

/-- non-1 values of an isoform profile -/
theorem prof_values (features tf : List Iv) (region : Iv) (cmp : Iv → Iv → Bool) (i : Nat) (k : Iv)
    (hk : features[i]? = some k) (hn1 : (setProfiles features tf region cmp).1[i]? ≠ some 1)
    (hov : overlaps k region = true) : (setProfiles features tf region cmp).1[i]? = some (-1) := by
  have hlen : i < (setProfiles features tf region cmp).1.length := by
    rw [setProfiles_length]; exact getElem?_lt hk
  have hv : (setProfiles features tf region cmp).1[i]? = some ((setProfiles features tf region cmp).1[i]) := by
    simp [hlen]
  rcases setProfiles_values cmp features tf region i k _ hk hv with h1 | ⟨h1, _⟩ | ⟨_, h2⟩
  · rw [h1] at hv; exact absurd hv hn1
  · rw [hv, h1]
  · rw [h2] at hov; cases hov

end IsoVerif.Lemmas.C01
