/-
Helper lemmas for C04: exon/intron inversion for graph paths, inversion of the decision block of
`construct_fl_isoforms`, bookkeeping invariants of the transcript storage.  Core Lean only.
-/
import IsoVerif.Model.ModelConstruction
import IsoVerif.Lemmas.IntronGraph

namespace IsoVerif.Lemmas.C04
open IsoVerif.Gen IsoVerif.Model IsoVerif.Model.C04

/-! ### exons of a path and back -/

/-- the intron path leaves a non-empty exon before, between and after its introns, starting at `s`, ending at `e`;
    introns are well formed -/
def PathGapped : Int → List Iv → Int → Prop
  | s, [], e => s ≤ e
  | s, i :: t, e => s < i.1 ∧ i.1 ≤ i.2 ∧ PathGapped (i.2 + 1) t e

instance : (s : Int) → (l : List Iv) → (e : Int) → Decidable (PathGapped s l e)
  | s, [], e => by unfold PathGapped; exact inferInstance
  | s, i :: t, e => by
    unfold PathGapped
    have := instDecidablePathGapped (i.2 + 1) t e
    exact inferInstance

theorem junctions_junctions (b : Iv) (ip : List Iv) (e : Int) (h : PathGapped (b.2 + 1) ip e) :
    junctionsFromBlocks (junctionsFromBlocks (b :: ip ++ [(e + 1, 0)])) = ip := by
  induction ip generalizing b with
  | nil =>
    simp only [List.cons_append, List.nil_append, junctionsFromBlocks]
    split <;> simp [junctionsFromBlocks]
  | cons i t ih =>
    obtain ⟨h1, h2, h3⟩ := h
    cases t with
    | nil =>
      simp only [PathGapped] at h3
      have e1 : b.2 + 1 < i.1 := h1
      have e2 : i.2 + 1 < e + 1 := by omega
      simp only [List.cons_append, List.nil_append, junctionsFromBlocks, e1, e2, if_true]
      have e3 : i.1 - 1 + 1 < i.2 + 1 := by omega
      simp only [e3, if_true]
      congr 1
      exact Prod.ext (by simp) (by simp)
    | cons j u =>
      have ihh := ih i h3
      obtain ⟨g1, g2, g3⟩ := h3
      have e1 : b.2 + 1 < i.1 := h1
      have e2 : i.2 + 1 < j.1 := g1
      simp only [List.cons_append, junctionsFromBlocks, e1, e2, if_true] at ihh ⊢
      have e3 : i.1 - 1 + 1 < i.2 + 1 := by omega
      simp only [e3, if_true]
      rw [ihh]
      congr 1
      exact Prod.ext (by simp) (by simp)

theorem junctions_getExons (s e : Int) (ip : List Iv) (h : PathGapped s ip e) :
    junctionsFromBlocks (getExons (s, e) ip) = ip := by
  unfold getExons
  have := junctions_junctions (0, s - 1) ip e (by simpa using h)
  simpa using this


/-! ### inversion of the decision block -/

theorem buildNovel_inv {env : FLEnv} {next : Nat → Nat} {idv tidNum : Nat} {ip exons : List Iv} {strand : Strand}
    {m : TModel} {idv' : Nat} (h : buildNovel env next idv tidNum ip exons strand = some (m, idv')) :
    m.intronPath = ip ∧ m.exons = exons ∧ m.chr = env.chr ∧
    (strand ≠ .dot → m.strand = strand) ∧
    ((∀ i ∈ ip, i ∈ env.knownIntrons) →
        m.tid = novelTid tidNum env.chr tn_nic_transcript_suffix ∧ m.ttype = .novel_in_catalog) ∧
    (¬ (∀ i ∈ ip, i ∈ env.knownIntrons) →
        m.tid = novelTid tidNum env.chr tn_nnic_transcript_suffix ∧ m.ttype = .novel_not_in_catalog) ∧
    (selectReferenceGene env ip strand = some none → m.gene = novelGeneId env.chr (next idv)) := by
  have hall : (ip.all fun i => decide (i ∈ env.knownIntrons)) = true ↔ ∀ i ∈ ip, i ∈ env.knownIntrons := by
    simp [List.all_eq_true]
  unfold buildNovel at h
  split at h
  · simp at h
  · simp only [Option.some.injEq, Prod.mk.injEq] at h
    obtain ⟨rfl, _⟩ := h
    refine ⟨rfl, rfl, rfl, fun _ => rfl, ?_, ?_, fun _ => rfl⟩
    · intro hk; simp [hall.2 hk]
    · intro hk
      have : (ip.all fun i => decide (i ∈ env.knownIntrons)) = false := by
        cases hb : (ip.all fun i => decide (i ∈ env.knownIntrons)) with
        | false => rfl
        | true => exact absurd (hall.1 hb) hk
      simp [this]
  · rename_i gene hsel
    simp only at h
    split at h
    · simp at h
    · rename_i st hst
      simp only [Option.some.injEq, Prod.mk.injEq] at h
      obtain ⟨rfl, _⟩ := h
      refine ⟨rfl, rfl, rfl, ?_, ?_, ?_, ?_⟩
      · intro hd; simp [hd] at hst; exact hst.symm
      · intro hk; simp [hall.2 hk]
      · intro hk
        have : (ip.all fun i => decide (i ∈ env.knownIntrons)) = false := by
          cases hb : (ip.all fun i => decide (i ∈ env.knownIntrons)) with
          | false => rfl
          | true => exact absurd (hall.1 hb) hk
        simp [this]
      · intro hn; rw [hsel] at hn; simp at hn

/-- everything the loop body established when it emitted a novel model -/
structure NovelFacts (guard : Bool) (env : FLEnv) (sd : Iv → Strand) (next : Nat → Nat) (st : FLState) (pi : PathIn)
    (m : TModel) : Prop where
  nonempty : pi.path.tail.dropLast ≠ []
  ends : ∃ first last, pi.path.head? = some first ∧ pi.path.getLast? = some last ∧
    m.exons = getExons (first.2, last.2) pi.path.tail.dropLast ∧
    (guard = true → (getExons (first.2, last.2) pi.path.tail.dropLast).length = pi.path.tail.dropLast.length + 1) ∧
    novelGate env sd pi.count (getExons (first.2, last.2) pi.path.tail.dropLast).length pi.path.tail.dropLast
      (decide (last.1 = VERTEX_polya)) (decide (first.1 = VERTEX_polyt)) = false ∧
    ∃ idv', buildNovel env next (next st.idv) (next st.idv) pi.path.tail.dropLast
      (getExons (first.2, last.2) pi.path.tail.dropLast)
      (getStrand sd pi.path.tail.dropLast (decide (last.1 = VERTEX_polya)) (decide (first.1 = VERTEX_polyt))) = some (m, idv')
  notKnownPath : pi.matching = true ∨ pi.path.tail.dropLast ∉ env.knownPaths
  noRef : pi.matching = false ∨ pi.ref = ""

theorem flStepG_novel_inv {guard : Bool} {env : FLEnv} {sd : Iv → Strand} {next : Nat → Nat} {st st' : FLState}
    {pi : PathIn} {m : TModel}
    (h : flStepG guard env sd next st pi = some (st', .novelAdded m)) : NovelFacts guard env sd next st pi m := by
  unfold flStepG at h
  simp only at h
  split at h
  · simp at h
  · rename_i hne
    split at h
    · rename_i first last hf hl
      split at h
      · simp at h
      · rename_i hguard
        split at h
        · simp at h
        · rename_i hkp
          split at h
          · split at h
            · simp at h
            · split at h
              · simp at h
              · split at h <;> simp at h
          · rename_i hnoref
            split at h
            · simp at h
            · rename_i hgate
              split at h
              · simp at h
              · split at h
                · simp at h
                · rename_i mm idv' hb
                  simp only [Option.some.injEq, Prod.mk.injEq, Decision.novelAdded.injEq] at h
                  obtain ⟨_, rfl⟩ := h
                  refine ⟨by simpa using hne, ⟨first, last, hf, hl, (buildNovel_inv hb).2.1, ?_, by simpa using hgate, idv', hb⟩, ?_, ?_⟩
                  · intro hg
                    simp only [hg, Bool.true_and, decide_eq_true_eq, ne_eq, Decidable.not_not] at hguard
                    exact hguard
                  · cases hm : pi.matching <;> simp [hm] at hkp ⊢
                    exact hkp
                  · cases hm : pi.matching <;> simp [hm] at hnoref ⊢
                    exact hnoref
    · simp at h

theorem flStep_novel_inv {env : FLEnv} {sd : Iv → Strand} {next : Nat → Nat} {st st' : FLState} {pi : PathIn} {m : TModel}
    (h : flStep env sd next st pi = some (st', .novelAdded m)) : NovelFacts true env sd next st pi m :=
  flStepG_novel_inv h

/-- `junctions_from_blocks` emits at most one junction per consecutive pair -/
theorem junctions_length_le (x : Iv) (l : List Iv) : (junctionsFromBlocks (x :: l)).length ≤ l.length := by
  induction l generalizing x with
  | nil => simp [junctionsFromBlocks]
  | cons y t ih =>
    simp only [junctionsFromBlocks]
    split
    · simp only [List.length_cons]; have := ih y; omega
    · simp only [List.length_cons]; have := ih y; omega

/-- when `get_exons` returns one exon more than there are introns, no exon was dropped: the path is gapped -/
theorem pathGapped_of_length (b : Iv) (ip : List Iv) (e : Int) (hwf : ∀ i ∈ ip, i.1 ≤ i.2)
    (h : (junctionsFromBlocks (b :: ip ++ [(e + 1, 0)])).length = ip.length + 1) : PathGapped (b.2 + 1) ip e := by
  induction ip generalizing b with
  | nil =>
    simp only [List.cons_append, List.nil_append, junctionsFromBlocks] at h
    simp only [PathGapped]
    split at h
    · omega
    · simp [junctionsFromBlocks] at h
  | cons i t ih =>
    simp only [List.cons_append, junctionsFromBlocks] at h
    have hb := junctions_length_le i (t ++ [(e + 1, 0)])
    simp only [List.length_append, List.length_cons, List.length_nil] at hb h
    split at h
    · rename_i hc
      simp only [List.length_cons] at h
      refine ⟨hc, hwf i (by simp), ih i (fun j hj => hwf j (by simp [hj])) ?_⟩
      simp only [List.cons_append]
      omega
    · omega

theorem pathGapped_of_getExons_length (s e : Int) (ip : List Iv) (hwf : ∀ i ∈ ip, i.1 ≤ i.2)
    (h : (getExons (s, e) ip).length = ip.length + 1) : PathGapped s ip e := by
  unfold getExons at h
  have := pathGapped_of_length (0, s - 1) ip e hwf (by simpa using h)
  simpa using this

/-! ### storage bookkeeping -/

theorem cnt_amSet {α} [DecidableEq α] (m : List (α × Int)) (k t : α) (v : Int) :
    cnt (amSet m k v) t = if t = k then v else cnt m t := by
  unfold cnt
  by_cases h : t = k
  · subst h; simp [amGet?_amSet_self]
  · simp [amGet?_amSet_ne _ _ _ _ h, h]

theorem cnt_amErase {α} [DecidableEq α] (m : List (α × Int)) (k t : α) :
    cnt (amErase m k) t = if t = k then 0 else cnt m t := by
  unfold cnt
  rw [amGet?_amErase]
  split <;> simp

theorem cnt_touchInt (m : List (String × Int)) (k t : String) : cnt (touchInt m k) t = cnt m t := by
  unfold touchInt
  split
  · rfl
  · rename_i h
    rw [cnt_amSet]
    split
    · rename_i htk; subst htk
      simp only [amHas, Bool.not_eq_true, Option.isSome_eq_false_iff, Option.isNone_iff_eq_none] at h
      simp [cnt, h]
    · rfl

def readsIn (rm : List (String × List String)) (t : String) : List String := (amGet? rm t).getD []

theorem readsOf_eq (s : Store) (t : String) : readsOf s t = readsIn s.readIds t := rfl

theorem readsIn_amSet (m : List (String × List String)) (k t : String) (v : List String) :
    readsIn (amSet m k v) t = if t = k then v else readsIn m t := by
  unfold readsIn
  by_cases h : t = k
  · subst h; simp [amGet?_amSet_self]
  · simp [amGet?_amSet_ne _ _ _ _ h, h]

theorem readsIn_amErase (m : List (String × List String)) (k t : String) :
    readsIn (amErase m k) t = if t = k then [] else readsIn m t := by
  unfold readsIn
  rw [amGet?_amErase]
  split <;> simp

theorem readsIn_touchList (m : List (String × List String)) (k t : String) : readsIn (touchList m k) t = readsIn m t := by
  unfold touchList
  split
  · rfl
  · rename_i h
    rw [readsIn_amSet]
    split
    · rename_i htk; subst htk
      simp only [amHas, Bool.not_eq_true, Option.isSome_eq_false_iff, Option.isNone_iff_eq_none] at h
      simp [readsIn, h]
    · rfl

/-- the per-transcript read counter never exceeds the number of reads listed for the transcript -/
def CounterLe (s : Store) : Prop := ∀ t, cnt s.counter t ≤ ((readsIn s.readIds t).length : Int)

theorem counterLe_empty : CounterLe Store.empty := by
  intro t; simp [Store.empty, cnt, amGet?, readsIn]

theorem saveRead_counterLe {s : Store} (h : CounterLe s) (r tid : String) : CounterLe (s.saveRead r tid) := by
  intro t
  have := h t
  simp only [Store.saveRead, cnt_amSet, readsIn_amSet, readsOf_eq]
  split
  · rename_i ht; subst ht; simp; omega
  · exact this

theorem saveRead_models (s : Store) (r tid : String) : (s.saveRead r tid).models = s.models := rfl

theorem foldl_saveRead_counterLe (reads : List String) (tid : String) {s : Store} (h : CounterLe s) :
    CounterLe (reads.foldl (fun s r => s.saveRead r tid) s) := by
  induction reads generalizing s with
  | nil => simpa using h
  | cons a t ih => simp only [List.foldl_cons]; exact ih (saveRead_counterLe h a tid)

theorem foldl_saveRead_models (reads : List String) (tid : String) (s : Store) :
    (reads.foldl (fun s r => s.saveRead r tid) s).models = s.models := by
  induction reads generalizing s with
  | nil => rfl
  | cons a t ih => simp only [List.foldl_cons]; rw [ih]; rfl

theorem addModel_counterLe {s : Store} (h : CounterLe s) (m : TModel) (reads : List String) :
    CounterLe (s.addModel m reads) := by
  unfold Store.addModel
  exact foldl_saveRead_counterLe _ _ (fun t => h t)

theorem addModel_models (s : Store) (m : TModel) (reads : List String) : (s.addModel m reads).models = s.models ++ [m] := by
  unfold Store.addModel
  rw [foldl_saveRead_models]

theorem deleteFromStorage_spec {s s' : Store} {tid : String} (h : s.deleteFromStorage tid = some s') :
    s'.models = s.models ∧ (∀ t, cnt s'.counter t = if t = tid then 0 else cnt s.counter t) ∧
    (∀ t, readsIn s'.readIds t = if t = tid then [] else readsIn s.readIds t) ∧
    s'.readIds = amErase s.readIds tid := by
  unfold Store.deleteFromStorage at h
  simp only at h
  split at h
  · simp at h; subst h
    exact ⟨rfl, fun t => cnt_amErase _ _ _, fun t => readsIn_amErase _ _ _, rfl⟩
  · simp at h

theorem deleteFromStorage_counterLe {s s' : Store} {tid : String} (hc : CounterLe s)
    (h : s.deleteFromStorage tid = some s') : CounterLe s' := by
  obtain ⟨_, h1, h2, _⟩ := deleteFromStorage_spec h
  intro t
  rw [h1, h2]
  split
  · simp
  · exact hc t

/-- `s'` lists at least the reads `s` lists, for every transcript, and keeps the counter within the growth -/
structure Grow (s s' : Store) : Prop where
  models : s'.models = s.models
  reads : ∀ t, readsIn s.readIds t <+: readsIn s'.readIds t
  counter : ∀ t, cnt s'.counter t - cnt s.counter t ≤
    ((readsIn s'.readIds t).length : Int) - ((readsIn s.readIds t).length : Int)

theorem Grow.refl (s : Store) : Grow s s := ⟨rfl, fun _ => List.prefix_refl _, fun _ => by simp⟩

theorem Grow.trans {a b c : Store} (h1 : Grow a b) (h2 : Grow b c) : Grow a c :=
  ⟨h2.models.trans h1.models, fun t => (h1.reads t).trans (h2.reads t), fun t => by
    have := h1.counter t; have := h2.counter t; omega⟩

theorem Grow.counterLe {s s' : Store} (h : Grow s s') (hc : CounterLe s) : CounterLe s' := by
  intro t; have := h.counter t; have := hc t; omega

theorem grow_rcount (s : Store) (rc : List (String × Int)) : Grow s { s with rcount := rc } :=
  ⟨rfl, fun _ => List.prefix_refl _, fun _ => by simp⟩

theorem grow_append (s : Store) (rc : List (String × Int)) (m r : String) :
    Grow s { s with rcount := rc, readIds := amSet s.readIds m (readsOf s m ++ [r]) } := by
  refine ⟨rfl, fun t => ?_, fun t => ?_⟩
  · simp only [readsIn_amSet, readsOf_eq]
    split
    · rename_i h; subst h; exact List.prefix_append _ _
    · exact List.prefix_refl _
  · simp only [readsIn_amSet, readsOf_eq]
    split
    · rename_i h; subst h; simp; omega
    · simp

theorem foldl_matched_grow (read : String) (matched : List String) (s : Store) :
    Grow s (matched.foldl (fun s m => { s with rcount := amSet s.rcount read (cnt s.rcount read + 1),
                                               readIds := amSet s.readIds m (readsOf s m ++ [read]) }) s) := by
  induction matched generalizing s with
  | nil => exact Grow.refl s
  | cons m t ih =>
    simp only [List.foldl_cons]
    exact (grow_append s _ m read).trans (ih _)

theorem assignOne_grow (s : Store) (a : AssignIn) : Grow s (assignOne s a) := by
  unfold assignOne
  split
  · exact grow_rcount s _
  · split
    · -- consistent
      cases hm : a.matched with
      | nil => simp only [List.foldl_nil]; exact grow_rcount s _
      | cons m t =>
        cases t with
        | nil =>
          simp only [List.foldl_cons, List.foldl_nil]
          refine ⟨rfl, fun t => ?_, fun t => ?_⟩
          · simp only [readsIn_amSet, readsOf_eq]
            split
            · rename_i h; subst h; exact List.prefix_append _ _
            · exact List.prefix_refl _
          · simp only [readsIn_amSet, readsOf_eq, cnt_amSet]
            split
            · rename_i h; subst h; simp; omega
            · simp
        | cons m2 t2 =>
          exact (grow_rcount s _).trans (foldl_matched_grow a.read _ _)
    · exact grow_rcount s _

theorem assignReads_grow (s : Store) (ins : List AssignIn) : Grow s (s.assignReads ins) := by
  unfold Store.assignReads
  split
  · generalize s = s0
    induction ins generalizing s0 with
    | nil => exact Grow.refl _
    | cons a t ih => simp only [List.foldl_cons]; exact (grow_rcount s0 _).trans (ih _)
  · generalize s = s0
    induction ins generalizing s0 with
    | nil => exact Grow.refl _
    | cons a t ih => simp only [List.foldl_cons]; exact (assignOne_grow s0 a).trans (ih _)


/-! ### the filtering loops -/

def ids (ms : List TModel) : List String := ms.map (·.tid)

/-- `s1` is `s` after defaultdict reads: same counters, same read lists, possibly new empty entries -/
structure Touched (s s1 : Store) : Prop where
  models : s1.models = s.models
  counter : ∀ t, cnt s1.counter t = cnt s.counter t
  reads : ∀ t, readsIn s1.readIds t = readsIn s.readIds t
  entries : ∀ p ∈ s1.readIds, p ∈ s.readIds ∨ p.2 = []

theorem Touched.refl (s : Store) : Touched s s := ⟨rfl, fun _ => rfl, fun _ => rfl, fun p hp => Or.inl hp⟩

theorem mem_touchList {m : List (String × List String)} {k : String} {p : String × List String}
    (h : p ∈ touchList m k) : p ∈ m ∨ p.2 = [] := by
  unfold touchList at h
  split at h
  · exact Or.inl h
  · rcases mem_amSet h with h' | h'
    · subst h'; exact Or.inr rfl
    · exact Or.inl h'

theorem touched_counter (s : Store) (k : String) : Touched s { s with counter := touchInt s.counter k } :=
  ⟨rfl, fun t => cnt_touchInt _ _ _, fun _ => rfl, fun p hp => Or.inl hp⟩

theorem touched_both (s : Store) (k : String) :
    Touched s { s with counter := touchInt s.counter k, readIds := touchList s.readIds k } :=
  ⟨rfl, fun t => cnt_touchInt _ _ _, fun t => readsIn_touchList _ _ _, fun p hp => mem_touchList hp⟩

/-- `s'` is `s` with the transcripts `D` deleted (and possibly defaultdict reads) -/
structure Shrunk (D : List String) (s s' : Store) : Prop where
  counter : ∀ t, cnt s'.counter t = if t ∈ D then 0 else cnt s.counter t
  reads : ∀ t, readsIn s'.readIds t = if t ∈ D then [] else readsIn s.readIds t
  entries : ∀ p ∈ s'.readIds, p.2 = [] ∨ (p ∈ s.readIds ∧ p.1 ∉ D)

theorem filterLoopG_spec (dec : Store → TModel → Option (Bool × Store)) (Q : Int → TModel → Prop)
    (hdec : ∀ s m k s1, dec s m = some (k, s1) → Touched s s1)
    (hQ : ∀ s m s1, dec s m = some (true, s1) → Q (cnt s.counter m.tid) m)
    (ms : List TModel) (s : Store) (kept : List TModel) (s' : Store) (kept' : List TModel)
    (h : filterLoopG dec ms s kept = some (s', kept')) :
    ∃ new D, kept' = kept ++ new ∧ new.Sublist ms ∧ (∀ d ∈ D, d ∈ ids ms) ∧ (∀ m ∈ ms, m ∈ new ∨ m.tid ∈ D) ∧
      Shrunk D s s' ∧
      ((ids ms).Nodup → (∀ m ∈ new, m.tid ∉ D) ∧ (∀ m ∈ new, Q (cnt s.counter m.tid) m)) := by
  induction ms generalizing s kept with
  | nil =>
    simp only [filterLoopG, Option.some.injEq, Prod.mk.injEq] at h
    obtain ⟨rfl, rfl⟩ := h
    exact ⟨[], [], by simp, List.Sublist.refl _, by simp, by simp,
      ⟨fun t => by simp, fun t => by simp, fun p hp => by
        by_cases h2 : p.2 = []
        · exact Or.inl h2
        · exact Or.inr ⟨hp, by simp⟩⟩, fun _ => ⟨by simp, by simp⟩⟩
  | cons m t ih =>
    simp only [filterLoopG] at h
    split at h
    · simp at h
    · rename_i s1 hd
      have ht := hdec _ _ _ _ hd
      obtain ⟨new, D, hk, hsub, hD, hcov, hsh, hB⟩ := ih s1 _ h
      refine ⟨m :: new, D, by simp [hk], List.Sublist.cons_cons _ hsub,
        fun d hd' => by simp only [ids, List.map_cons, List.mem_cons]; exact Or.inr (hD d hd'), ?_, ?_, ?_⟩
      · intro x hx
        simp only [List.mem_cons] at hx
        rcases hx with rfl | hx
        · exact Or.inl (by simp)
        · rcases hcov x hx with h1 | h1
          · exact Or.inl (by simp [h1])
          · exact Or.inr h1
      · refine ⟨fun t' => by rw [hsh.counter, ht.counter], fun t' => by rw [hsh.reads, ht.reads], fun p hp => ?_⟩
        rcases hsh.entries p hp with h1 | ⟨h1, h2⟩
        · exact Or.inl h1
        · rcases ht.entries p h1 with h3 | h3
          · exact Or.inr ⟨h3, h2⟩
          · exact Or.inl h3
      · intro hnd
        have hnd' : (ids t).Nodup := by simp only [ids, List.map_cons, List.nodup_cons] at hnd; exact hnd.2
        have hm_notin : m.tid ∉ ids t := by simp only [ids, List.map_cons, List.nodup_cons] at hnd; exact hnd.1
        obtain ⟨hnD, hq⟩ := hB hnd'
        constructor
        · intro x hx
          simp only [List.mem_cons] at hx
          rcases hx with rfl | hx
          · intro hc; exact hm_notin (hD _ hc)
          · exact hnD x hx
        · intro x hx
          simp only [List.mem_cons] at hx
          rcases hx with rfl | hx
          · exact hQ _ _ _ hd
          · have := hq x hx
            rw [ht.counter] at this
            exact this
    · rename_i s1 hd
      have ht := hdec _ _ _ _ hd
      split at h
      · simp at h
      · rename_i sd hdel
        obtain ⟨_, hc, hr, he⟩ := deleteFromStorage_spec hdel
        obtain ⟨new, D, hk, hsub, hD, hcov, hsh, hB⟩ := ih sd _ h
        refine ⟨new, m.tid :: D, hk, hsub.trans (List.sublist_cons_self _ _), ?_, ?_, ?_, ?_⟩
        · intro d hd'
          simp only [List.mem_cons] at hd'
          simp only [ids, List.map_cons, List.mem_cons]
          rcases hd' with rfl | hd'
          · exact Or.inl rfl
          · exact Or.inr (hD d hd')
        · intro x hx
          simp only [List.mem_cons] at hx
          rcases hx with rfl | hx
          · exact Or.inr (by simp)
          · rcases hcov x hx with h1 | h1
            · exact Or.inl h1
            · exact Or.inr (by simp [h1])
        · refine ⟨fun t' => ?_, fun t' => ?_, fun p hp => ?_⟩
          · rw [hsh.counter, hc, ht.counter]
            by_cases h1 : t' ∈ D <;> by_cases h2 : t' = m.tid <;> simp [h1, h2]
          · rw [hsh.reads, hr, ht.reads]
            by_cases h1 : t' ∈ D <;> by_cases h2 : t' = m.tid <;> simp [h1, h2]
          · rcases hsh.entries p hp with h1 | ⟨h1, h2⟩
            · exact Or.inl h1
            · rw [he] at h1
              have := mem_amErase h1
              rcases ht.entries p this.1 with h3 | h3
              · refine Or.inr ⟨h3, ?_⟩
                simp only [List.mem_cons, not_or]
                exact ⟨this.2, h2⟩
              · exact Or.inl h3
        · intro hnd
          have hnd' : (ids t).Nodup := by simp only [ids, List.map_cons, List.nodup_cons] at hnd; exact hnd.2
          have hm_notin : m.tid ∉ ids t := by simp only [ids, List.map_cons, List.nodup_cons] at hnd; exact hnd.1
          obtain ⟨hnD, hq⟩ := hB hnd'
          have hnew_ne : ∀ x ∈ new, x.tid ≠ m.tid := by
            intro x hx heq
            apply hm_notin
            rw [← heq]
            simp only [ids, List.mem_map]
            exact ⟨x, hsub.subset hx, rfl⟩
          constructor
          · intro x hx hc'
            simp only [List.mem_cons] at hc'
            rcases hc' with hc' | hc'
            · exact hnew_ne x hx hc'
            · exact hnD x hx hc'
          · intro x hx
            have := hq x hx
            rw [hc, ht.counter] at this
            simpa [hnew_ne x hx] using this

/-! ### the three loop bodies only read -/

theorem preFilterDec_touched {p : FilterParams} {mapq : String → Int} {cutoff : Int} {s s1 : Store} {m : TModel} {k : Bool}
    (h : preFilterDec p mapq cutoff s m = some (k, s1)) : Touched s s1 := by
  unfold preFilterDec at h
  split at h
  · simp at h; obtain ⟨_, rfl⟩ := h; exact Touched.refl s
  · split at h
    · simp at h; obtain ⟨_, rfl⟩ := h; exact touched_counter s _
    · split at h
      · simp only at h
        split at h
        · simp at h
        · simp at h; obtain ⟨_, rfl⟩ := h; exact touched_both s _
      · simp at h; obtain ⟨_, rfl⟩ := h; exact Touched.refl s

theorem filterDec1_touched {p : FilterParams} {mapq : String → Int} {toSub : List String} {cov : TModel → Int}
    {s s1 : Store} {m : TModel} {k : Bool} (h : filterDec1 p mapq toSub cov s m = some (k, s1)) : Touched s s1 := by
  unfold filterDec1 at h
  split at h
  · simp at h; obtain ⟨_, rfl⟩ := h; exact Touched.refl s
  · split at h
    · simp at h; obtain ⟨_, rfl⟩ := h; exact Touched.refl s
    · simp only at h
      split at h
      · simp at h; obtain ⟨_, rfl⟩ := h; exact touched_counter s _
      · split at h
        · split at h
          · simp at h
          · simp at h; obtain ⟨_, rfl⟩ := h; exact touched_both s _
        · simp at h; obtain ⟨_, rfl⟩ := h; exact touched_both s _

theorem filterDec1_keep {p : FilterParams} {mapq : String → Int} {toSub : List String} {cov : TModel → Int}
    {s s1 : Store} {m : TModel} (h : filterDec1 p mapq toSub cov s m = some (true, s1)) :
    m.ttype ≠ .known → p.minNovelCount ≤ cnt s.counter m.tid := by
  intro hk
  unfold filterDec1 at h
  rw [if_neg hk] at h
  split at h
  · simp at h
  · simp only at h
    split at h
    · simp at h
    · rename_i hc
      rw [cnt_touchInt] at hc
      have : max (p.minNovelCount * 1000) (cov m) ≥ p.minNovelCount * 1000 := Int.le_max_left _ _
      omega

theorem filterDec2_touched {toSub : List String} {s s1 : Store} {m : TModel} {k : Bool}
    (h : filterDec2 toSub s m = some (k, s1)) : Touched s s1 := by
  unfold filterDec2 at h
  split at h
  · simp at h; obtain ⟨_, rfl⟩ := h; exact Touched.refl s
  · split at h <;> (simp at h; obtain ⟨_, rfl⟩ := h; exact Touched.refl s)

theorem Shrunk.counterLe {D : List String} {s s' : Store} (h : Shrunk D s s') (hc : CounterLe s) : CounterLe s' := by
  intro t
  rw [h.counter, h.reads]
  split
  · simp
  · exact hc t

theorem sublist_ids_nodup {a b : List TModel} (h : a.Sublist b) (hb : (ids b).Nodup) : (ids a).Nodup :=
  (h.map _).nodup hb

theorem mem_dump_of_reads {s : Store} {r t : String} (h : r ∈ readsIn s.readIds t) : (r, t) ∈ s.dumpR2T := by
  unfold readsIn at h
  cases hg : amGet? s.readIds t with
  | none => simp [hg] at h
  | some rs =>
    simp only [hg, Option.getD_some] at h
    unfold Store.dumpR2T
    simp only [List.mem_append, List.mem_flatMap, List.mem_map]
    exact Or.inl ⟨(t, rs), amGet?_mem hg, r, h, rfl⟩


theorem Shrunk.trans {D1 D2 : List String} {a b c : Store} (h1 : Shrunk D1 a b) (h2 : Shrunk D2 b c) :
    Shrunk (D1 ++ D2) a c := by
  refine ⟨fun t => ?_, fun t => ?_, fun p hp => ?_⟩
  · rw [h2.counter, h1.counter]
    by_cases x : t ∈ D1 <;> by_cases y : t ∈ D2 <;> simp [x, y]
  · rw [h2.reads, h1.reads]
    by_cases x : t ∈ D1 <;> by_cases y : t ∈ D2 <;> simp [x, y]
  · rcases h2.entries p hp with h | ⟨h, hn2⟩
    · exact Or.inl h
    · rcases h1.entries p h with h' | ⟨h', hn1⟩
      · exact Or.inl h'
      · exact Or.inr ⟨h', by simp [hn1, hn2]⟩

theorem touchFold_cnt (l : List TModel) (c : List (String × Int)) (t : String) :
    cnt (l.foldl (fun c m => touchInt c m.tid) c) t = cnt c t := by
  induction l generalizing c with
  | nil => rfl
  | cons a t' ih => simp only [List.foldl_cons]; rw [ih, cnt_touchInt]

/-- what `pre_filter_transcripts` does to the storage -/
theorem preFilter_spec {s s' : Store} {p : FilterParams} {mapq : String → Int} (h : s.preFilter p mapq = some s') :
    ∃ D, s'.models.Sublist s.models ∧ (∀ m ∈ s.models, m ∈ s'.models ∨ m.tid ∈ D) ∧ Shrunk D s s' := by
  simp only [Store.preFilter] at h
  split at h
  · simp at h
  · rename_i sx kept hl
    simp only [Option.some.injEq] at h; subst h
    obtain ⟨new, D, hk, hsub, _, hcov, hsh, _⟩ :=
      filterLoopG_spec _ (fun _ _ => True) (fun _ _ _ _ h => preFilterDec_touched h) (fun _ _ _ _ => trivial) _ _ _ _ _ hl
    simp only [List.nil_append] at hk; subst hk
    refine ⟨D, hsub, hcov, ⟨fun t => ?_, fun t => hsh.reads t, fun q hq => hsh.entries q hq⟩⟩
    rw [hsh.counter]
    simp only [touchFold_cnt]

/-- what `filter_transcripts` does to the storage -/
theorem filterTranscripts_spec {s s' : Store} {p : FilterParams} {mapq : String → Int}
    {similar : List TModel → List String} {covTerm : TModel → Int}
    (h : s.filterTranscripts p mapq similar covTerm = some s') :
    ∃ D, s'.models.Sublist s.models ∧ (∀ m ∈ s.models, m ∈ s'.models ∨ m.tid ∈ D) ∧ Shrunk D s s' ∧
      ((ids s.models).Nodup → ∀ m ∈ s'.models, m.tid ∉ D ∧ (m.ttype ≠ .known → p.minNovelCount ≤ cnt s.counter m.tid)) := by
  simp only [Store.filterTranscripts] at h
  split at h
  · simp at h
  · rename_i s1 pre hl1
    split at h
    · simp at h
    · rename_i s2 kept hl2
      simp only [Option.some.injEq] at h; subst h
      obtain ⟨new1, D1, hk1, hsub1, _, hcov1, hsh1, hB1⟩ :=
        filterLoopG_spec _ (fun c m => m.ttype ≠ .known → p.minNovelCount ≤ c)
          (fun _ _ _ _ h => filterDec1_touched h) (fun _ _ _ h => filterDec1_keep h) _ _ _ _ _ hl1
      simp only [List.nil_append] at hk1; subst hk1
      obtain ⟨new2, D2, hk2, hsub2, hD2, hcov2, hsh2, hB2⟩ :=
        filterLoopG_spec _ (fun _ _ => True) (fun _ _ _ _ h => filterDec2_touched h) (fun _ _ _ _ => trivial) _ _ _ _ _ hl2
      simp only [List.nil_append] at hk2; subst hk2
      refine ⟨D1 ++ D2, hsub2.trans hsub1, ?_, hsh1.trans ⟨hsh2.counter, hsh2.reads, hsh2.entries⟩, ?_⟩
      · intro m hm
        rcases hcov1 m hm with h1 | h1
        · rcases hcov2 m h1 with h2 | h2
          · exact Or.inl h2
          · exact Or.inr (by simp [h2])
        · exact Or.inr (by simp [h1])
      · intro hnd m hm
        obtain ⟨hd1, hq1⟩ := hB1 hnd
        obtain ⟨hd2, _⟩ := hB2 (sublist_ids_nodup hsub1 hnd)
        have hm1 : m ∈ pre := hsub2.subset hm
        exact ⟨by simp [hd1 m hm1, hd2 m hm], hq1 m hm1⟩


/-! ### naming, strand and chain helpers of the decision block -/

theorem suffix_novelTid (n : Nat) (chr suf : String) : suf.toList <:+ (novelTid n chr suf).toList := by
  unfold novelTid
  rw [String.toList_append]
  exact List.suffix_append _ _

theorem not_suffix_other {a b x : List Char} (hab : ¬ a <:+ b) (hba : ¬ b <:+ a) : ¬ a <:+ x ++ b := by
  intro h
  have hb : b <:+ x ++ b := List.suffix_append _ _
  rcases Nat.le_total a.length b.length with hl | hl
  · exact hab (List.suffix_of_suffix_length_le h hb hl)
  · exact hba (List.suffix_of_suffix_length_le hb h hl)

theorem getStrand_ne_dot_of_clean (sd : Iv → Strand) (l : List Iv) (a t : Bool) (h : getCleanStrand sd l ≠ .dot) :
    getStrand sd l a t ≠ .dot := by
  unfold getCleanStrand at h
  unfold getStrand
  simp only at h ⊢
  split at h
  · rename_i hc
    rw [if_neg (by omega)]
    split <;> simp
  · split at h
    · rename_i hc
      rw [if_neg (by omega)]
      split <;> simp
    · simp at h

theorem prefix_novelGeneId (chr : String) (n : Nat) : tn_novel_gene_prefix.toList <+: (novelGeneId chr n).toList := by
  unfold novelGeneId
  rw [String.toList_append, String.toList_append, String.toList_append, List.append_assoc, List.append_assoc]
  exact List.prefix_append _ _

theorem flLoop_chains (env : FLEnv) (sd : Iv → Strand) (next : Nat → Nat) (paths : List PathIn) (st : FLState)
    (ds : List Decision) (st' : FLState) (ds' : List Decision)
    (h : flLoop env sd next paths st ds = some (st', ds')) :
    ∃ new, novelChains ds' = novelChains ds ++ new ∧ new.Sublist (paths.map (fun p => p.path.tail.dropLast)) := by
  induction paths generalizing st ds with
  | nil => simp [flLoop] at h; obtain ⟨_, rfl⟩ := h; exact ⟨[], by simp, by simp⟩
  | cons pi t ih =>
    simp only [flLoop] at h
    split at h
    · simp at h
    · rename_i st1 d hd
      obtain ⟨new, hnew, hsub⟩ := ih _ _ h
      cases d with
      | skipped =>
        refine ⟨new, ?_, hsub.trans (List.sublist_cons_self _ _)⟩
        simpa [novelChains, List.filterMap_append] using hnew
      | knownAdded m =>
        refine ⟨new, ?_, hsub.trans (List.sublist_cons_self _ _)⟩
        simpa [novelChains, List.filterMap_append] using hnew
      | novelAdded m =>
        have hf := flStep_novel_inv hd
        obtain ⟨first, last, _, _, _, _, _, idv', hb⟩ := hf.ends
        have hip := (buildNovel_inv hb).1
        refine ⟨m.intronPath :: new, ?_, ?_⟩
        · simpa [novelChains, List.filterMap_append] using hnew
        · rw [hip]; exact List.Sublist.cons_cons _ hsub

/-! ### lines of transcript_model_reads -/

/-- entries of `transcript_read_ids` that hold reads belong to stored models -/
def R2TInv (s : Store) : Prop := ∀ p ∈ s.readIds, p.2 ≠ [] → p.1 ∈ ids s.models

theorem r2tInv_saveRead {s : Store} {r tid : String} (h : R2TInv s) (ht : tid ∈ ids s.models) : R2TInv (s.saveRead r tid) := by
  intro p hp hne
  simp only [Store.saveRead] at hp
  rcases mem_amSet hp with h' | h'
  · subst h'; exact ht
  · exact h p h' hne

theorem r2tInv_foldl_saveRead (reads : List String) (tid : String) {s : Store} (h : R2TInv s) (ht : tid ∈ ids s.models) :
    R2TInv (reads.foldl (fun s r => s.saveRead r tid) s) := by
  induction reads generalizing s with
  | nil => simpa using h
  | cons a t ih => simp only [List.foldl_cons]; exact ih (r2tInv_saveRead h ht) ht

theorem r2tInv_assignOne {s : Store} {a : AssignIn} (h : R2TInv s) (hm : ∀ t ∈ a.matched, t ∈ ids s.models) :
    R2TInv (assignOne s a) := by
  unfold assignOne
  split
  · exact h
  · split
    · have key : ∀ (l : List String) (s0 : Store), R2TInv s0 → (∀ t ∈ l, t ∈ ids s0.models) →
          R2TInv (l.foldl (fun s m => { s with rcount := amSet s.rcount a.read (cnt s.rcount a.read + 1),
                                               readIds := amSet s.readIds m (readsOf s m ++ [a.read]) }) s0) := by
        intro l
        induction l with
        | nil => intro s0 h0 _; simpa using h0
        | cons x t ih =>
          intro s0 h0 hl
          simp only [List.foldl_cons]
          apply ih
          · intro p hp hne
            rcases mem_amSet hp with h' | h'
            · subst h'; exact hl x (by simp)
            · exact h0 p h' hne
          · intro y hy; exact hl y (by simp [hy])
      apply key
      · split <;> exact h
      · split <;> exact hm
    · exact h


/-! ### exons of a gapped path are printable -/

theorem validate_junctions (b : Iv) (ip : List Iv) (e : Int) (hpos : 0 < b.2 + 1) (h : PathGapped (b.2 + 1) ip e) :
    validateExons (junctionsFromBlocks (b :: ip ++ [(e + 1, 0)])) = true ∧
    ∀ x ∈ (junctionsFromBlocks (b :: ip ++ [(e + 1, 0)])).head?, x.1 = b.2 + 1 := by
  induction ip generalizing b with
  | nil =>
    simp only [PathGapped] at h
    have e1 : b.2 + 1 < e + 1 := by omega
    simp only [List.cons_append, List.nil_append, junctionsFromBlocks, e1, if_true]
    refine ⟨?_, by simp⟩
    simp [validateExons, sortedIv]; omega
  | cons i t ih =>
    obtain ⟨h1, h2, h3⟩ := h
    have e1 : b.2 + 1 < i.1 := h1
    obtain ⟨hv, hh⟩ := ih i (by omega) h3
    simp only [List.cons_append, junctionsFromBlocks, e1, if_true]
    simp only [List.cons_append] at hv hh
    refine ⟨?_, by simp⟩
    cases hj : junctionsFromBlocks (i :: (t ++ [(e + 1, 0)])) with
    | nil => simp [validateExons, sortedIv]; omega
    | cons x rest =>
      have hx : x.1 = i.2 + 1 := hh x (by simp [hj])
      rw [hj] at hv
      simp only [validateExons, Bool.and_eq_true, List.all_eq_true] at hv ⊢
      refine ⟨?_, ?_⟩
      · simp only [sortedIv, Bool.and_eq_true]
        refine ⟨?_, hv.1⟩
        simp [ivLe]; left; omega
      · intro y hy
        simp only [List.mem_cons] at hy
        rcases hy with rfl | hy
        · simp; omega
        · exact hv.2 y (by simp [hy])

theorem validate_getExons (s e : Int) (ip : List Iv) (hs : 0 < s) (h : PathGapped s ip e) :
    validateExons (getExons (s, e) ip) = true := by
  unfold getExons
  exact (validate_junctions (0, s - 1) ip e (by simpa using hs) (by simpa using h)).1


/-! ### every decision of the loop comes from one of the paths -/

theorem flLoop_origin (env : FLEnv) (sd : Iv → Strand) (next : Nat → Nat) (paths : List PathIn) (st : FLState)
    (ds : List Decision) (st' : FLState) (ds' : List Decision)
    (h : flLoop env sd next paths st ds = some (st', ds')) :
    ∀ d ∈ ds', d ∈ ds ∨ ∃ pi ∈ paths, ∃ s1 s2, flStep env sd next s1 pi = some (s2, d) := by
  induction paths generalizing st ds with
  | nil => simp [flLoop] at h; obtain ⟨_, rfl⟩ := h; intro d hd; exact Or.inl hd
  | cons pi t ih =>
    simp only [flLoop] at h
    split at h
    · simp at h
    · rename_i st1 d1 hd1
      intro d hd
      rcases ih _ _ h d hd with h' | ⟨pj, hpj, s1, s2, hs⟩
      · simp only [List.mem_append, List.mem_singleton] at h'
        rcases h' with h' | h'
        · exact Or.inl h'
        · subst h'; exact Or.inr ⟨pi, by simp, st, st1, hd1⟩
      · exact Or.inr ⟨pj, by simp [hpj], s1, s2, hs⟩

end IsoVerif.Lemmas.C04
