/-
Helper lemmas for C09, `ProfileFeatureCounter` part (core Lean only).
-/
import IsoVerif.Model.C09
import IsoVerif.Lemmas.C09

namespace IsoVerif.Lemmas.C09Profile
open IsoVerif.Gen IsoVerif.Model.C09 IsoVerif.Lemmas.C09

/-- number of positions of a profile with value `sign` whose feature is `f` -/
def pVal (sign : Int) : List Int → List String → String → Rat
  | [], _, _ => 0
  | p :: ps, fids, f => (if p = sign ∧ fids.head? = some f then 1 else 0) + pVal sign ps fids.tail f

theorem pLoop_spec (gid : Nat) : ∀ (prof : List Int) (fids : List String) (incl excl : FC) (names : List String)
    (incl' excl' : FC) (names' : List String),
    pLoop gid prof fids incl excl names = .ok (incl', excl', names') →
    ∀ f k, cell incl' f k = cell incl f k + (if gid = k then pVal 1 prof fids f else 0) ∧
           cell excl' f k = cell excl f k + (if gid = k then pVal (-1) prof fids f else 0)
  | [], fids, incl, excl, names, incl', excl', names', h => by
    simp only [pLoop] at h
    injection h with h; injection h with h1 h2; injection h2 with h2 h3
    subst h1; subst h2
    intro f k; simp [pVal, Rat.add_zero]
  | p :: ps, fids, incl, excl, names, incl', excl', names', h => by
    simp only [pLoop] at h
    intro f k
    by_cases hp1 : p = 1
    · simp only [hp1, if_true] at h
      cases fids with
      | nil => cases h
      | cons f0 fs =>
        simp only at h
        obtain ⟨h1, h2⟩ := pLoop_spec gid ps fs _ _ _ _ _ _ h f k
        rw [h1, h2, cell_incF]
        subst hp1
        simp only [pVal, List.head?_cons, List.tail_cons, Option.some.injEq]
        constructor
        · by_cases hk : gid = k <;> by_cases hf : f0 = f <;> simp [hk, hf] <;> grind
        · have : ¬ ((1 : Int) = -1) := by decide
          simp only [this, false_and, if_false]
          by_cases hk : gid = k <;> simp [hk] <;> grind
    · by_cases hp2 : p = -1
      · simp only [hp1, if_false, hp2, if_true] at h
        cases fids with
        | nil => cases h
        | cons f0 fs =>
          simp only at h
          obtain ⟨h1, h2⟩ := pLoop_spec gid ps fs _ _ _ _ _ _ h f k
          rw [h1, h2, cell_incF]
          subst hp2
          simp only [pVal, List.head?_cons, List.tail_cons, Option.some.injEq]
          constructor
          · have : ¬ ((-1 : Int) = 1) := by decide
            simp only [this, false_and, if_false]
            by_cases hk : gid = k <;> simp [hk] <;> grind
          · by_cases hk : gid = k <;> by_cases hf : f0 = f <;> simp [hk, hf] <;> grind
      · simp only [hp1, if_false, hp2] at h
        obtain ⟨h1, h2⟩ := pLoop_spec gid ps fids.tail _ _ _ _ _ _ h f k
        rw [h1, h2]
        simp only [pVal, hp1, hp2, false_and, if_false]
        constructor <;> (by_cases hk : gid = k <;> simp [hk] <;> grind)

/-! ### `group_numeric_ids` filled on first sight -/

theorem lookup_append_single (l : List (String × Nat)) (g : String) (n : Nat) (g' : String) :
    (l ++ [(g, n)]).lookup g' =
      match l.lookup g' with
      | some i => some i
      | none => if g' = g then some n else none := by
  induction l with
  | nil =>
    by_cases h : g' = g
    · subst h; simp [List.lookup]
    · have : (g' == g) = false := by simp [h]
      simp [List.lookup, this, h]
  | cons p t ih =>
    obtain ⟨k0, v0⟩ := p
    by_cases h : g' = k0
    · subst h; simp [List.lookup]
    · have : (g' == k0) = false := by simp [h]
      simp only [List.cons_append, List.lookup, this]
      exact ih

/-- invariant of the id dictionary: unique names, unique numbers, all numbers below `current_group_id` -/
def PInv (c : PCounter) : Prop :=
  (c.ids.map Prod.fst).Nodup ∧ (c.ids.map Prod.snd).Nodup ∧ ∀ p ∈ c.ids, p.2 < c.next

theorem PInv_init (b : Bool) : PInv (initPCounter b) := by
  cases b <;> simp [PInv, initPCounter]

theorem lookup_inj {c : PCounter} (h : PInv c) {g1 g2 : String} {i : Nat}
    (h1 : c.ids.lookup g1 = some i) (h2 : c.ids.lookup g2 = some i) : g1 = g2 := by
  have m1 := mem_of_lookup h1
  have m2 := mem_of_lookup h2
  have hv := h.2.1
  generalize c.ids = l at m1 m2 hv
  induction l with
  | nil => cases m1
  | cons p t ih =>
    simp only [List.map_cons, List.nodup_cons] at hv
    rcases List.mem_cons.mp m1 with e1 | e1 <;> rcases List.mem_cons.mp m2 with e2 | e2
    · rw [← e2] at e1; injection e1
    · exact absurd (List.mem_map.mpr ⟨_, e2, by rw [← e1]⟩) hv.1
    · exact absurd (List.mem_map.mpr ⟨_, e1, by rw [← e2]⟩) hv.1
    · exact ih e1 e2 hv.2

theorem assign_spec {c : PCounter} (h : PInv c) (g : String) :
    PInv (assign c g) ∧ (∃ gid, (assign c g).ids.lookup g = some gid) ∧
    (∀ g' i, c.ids.lookup g' = some i → (assign c g).ids.lookup g' = some i) ∧
    (assign c g).incl = c.incl ∧ (assign c g).excl = c.excl ∧ (assign c g).names = c.names ∧
    (assign c g).ignoreGroups = c.ignoreGroups := by
  unfold assign
  cases hl : c.ids.lookup g with
  | some i => exact ⟨h, ⟨i, hl⟩, fun _ _ h' => h', rfl, rfl, rfl, rfl⟩
  | none =>
    simp only
    refine ⟨⟨?_, ?_, ?_⟩, ⟨c.next, by simp [lookup_append_single, hl]⟩, ?_, trivial, trivial, trivial, trivial⟩
    · rw [List.map_append]
      refine List.nodup_append.mpr ⟨h.1, by simp, ?_⟩
      intro a ha b hb
      simp at hb; subst hb
      intro e; subst e
      obtain ⟨p, hp, hp1⟩ := List.mem_map.mp ha
      have : c.ids.lookup p.1 ≠ none := by
        intro hn
        have := (IsoVerif.Lemmas.C09.mem_of_lookup (l := c.ids) (k := p.1) (v := p.2))
        cases hq : c.ids.lookup p.1 with
        | some v => rw [hq] at hn; cases hn
        | none =>
          -- p ∈ ids but lookup none: impossible
          clear this
          have hmem : (p.1, p.2) ∈ c.ids := hp
          generalize c.ids = l at hmem hq
          induction l with
          | nil => cases hmem
          | cons q t ih =>
            obtain ⟨k0, v0⟩ := q
            rw [List.lookup_cons] at hq
            by_cases hk : p.1 = k0
            · simp [hk] at hq
            · have hb : (p.1 == k0) = false := by simp [hk]
              simp only [hb] at hq
              rcases List.mem_cons.mp hmem with e | e
              · injection e with e1 _; exact hk e1
              · exact ih e hq
      rw [hp1] at this
      exact this hl
    · rw [List.map_append]
      refine List.nodup_append.mpr ⟨h.2.1, by simp, ?_⟩
      intro a ha b hb
      simp at hb; subst hb
      intro e; subst e
      obtain ⟨p, hp, hp2⟩ := List.mem_map.mp ha
      have := h.2.2 p hp
      omega
    · intro p hp
      show p.2 < c.next + 1
      rcases List.mem_append.mp hp with hp | hp
      · have := h.2.2 p hp; omega
      · simp at hp; subst hp; simp
    · intro g' i hg'
      simp [lookup_append_single, hg']

/-! ### one read, a stream of reads -/

/-- the group name under which a read is counted -/
def pName (c : PCounter) (r : PRead) : String := if c.ignoreGroups then NA else r.group

theorem pStep_spec {c c' : PCounter} {r : PRead} (hi : PInv c) (h : pStep c r = .ok c') :
    PInv c' ∧ c'.ignoreGroups = c.ignoreGroups ∧
    (∀ g i, c.ids.lookup g = some i → c'.ids.lookup g = some i) ∧
    (r.valid = false → c' = c) ∧
    (r.valid = true → ∃ gid, c'.ids.lookup (pName c r) = some gid ∧
      ∀ f k, cell c'.incl f k = cell c.incl f k + (if gid = k then pVal 1 r.profile r.fids f else 0) ∧
             cell c'.excl f k = cell c.excl f k + (if gid = k then pVal (-1) r.profile r.fids f else 0)) := by
  unfold pStep at h
  cases hv : r.valid with
  | false =>
    simp only [hv, Bool.not_false, if_true] at h
    injection h with h; subst h
    exact ⟨hi, rfl, fun _ _ h' => h', fun _ => rfl, (fun h' => by cases h')⟩
  | true =>
    simp only [hv, Bool.not_true, Bool.false_eq_true, if_false] at h
    obtain ⟨hinv1, ⟨gid, hgid⟩, hmono, hincl, hexcl, hnames, hig⟩ := assign_spec hi (if c.ignoreGroups then NA else r.group)
    rw [hgid] at h
    simp only at h
    split at h
    · cases h
    · rename_i incl excl names hloop
      injection h with h; subst h
      refine ⟨hinv1, hig, hmono, (fun h' => by cases h'), fun _ => ⟨gid, hgid, ?_⟩⟩
      intro f k
      have := pLoop_spec gid _ _ _ _ _ _ _ _ hloop f k
      rw [hincl, hexcl] at this
      exact this

/-- a stream of reads: the dictionary only grows, every valid read's group has an id in the end, and every cell is its
    initial value plus the reads counted in its column (column = final id of the read's group) -/
theorem pRun_spec {c c' : PCounter} {rs : List PRead} (hi : PInv c) (h : pRun c rs = .ok c') :
    PInv c' ∧ c'.ignoreGroups = c.ignoreGroups ∧
    (∀ g i, c.ids.lookup g = some i → c'.ids.lookup g = some i) ∧
    (∀ r ∈ rs, r.valid = true → ∃ gid, c'.ids.lookup (pName c r) = some gid) ∧
    (∀ f k, cell c'.incl f k = cell c.incl f k +
        sumOver rs (fun r => if r.valid = true ∧ c'.ids.lookup (pName c r) = some k then pVal 1 r.profile r.fids f else 0)) ∧
    (∀ f k, cell c'.excl f k = cell c.excl f k +
        sumOver rs (fun r => if r.valid = true ∧ c'.ids.lookup (pName c r) = some k then pVal (-1) r.profile r.fids f else 0)) := by
  induction rs generalizing c with
  | nil =>
    simp only [pRun] at h; injection h with h; subst h
    exact ⟨hi, rfl, fun _ _ h' => h', by simp, by intro f k; simp [sumOver, Rat.add_zero], by intro f k; simp [sumOver, Rat.add_zero]⟩
  | cons r rs ih =>
    simp only [pRun] at h
    split at h
    · cases h
    · rename_i c1 h1
      obtain ⟨hinv1, hig1, hmono1, hinvalid, hvalid⟩ := pStep_spec hi h1
      obtain ⟨hinv', hig', hmono', hall, hincl, hexcl⟩ := ih hinv1 h
      have hname : ∀ r', pName c1 r' = pName c r' := by intro r'; simp [pName, hig1]
      refine ⟨hinv', by rw [hig', hig1], fun g i hg => hmono' g i (hmono1 g i hg), ?_, ?_, ?_⟩
      · intro r' hr' hv'
        rcases List.mem_cons.mp hr' with e | e
        · subst e
          obtain ⟨gid, hg, _⟩ := hvalid hv'
          exact ⟨gid, hmono' _ _ hg⟩
        · obtain ⟨gid, hg⟩ := hall r' e hv'
          exact ⟨gid, by rw [← hname]; exact hg⟩
      all_goals
        intro f k
        first | rw [hincl f k] | rw [hexcl f k]
        simp only [sumOver, hname]
        cases hv : r.valid with
        | false =>
          rw [hinvalid hv]
          simp [Rat.zero_add]
        | true =>
          obtain ⟨gid, hg, hcell⟩ := hvalid hv
          have hg' := hmono' _ _ hg
          first | rw [(hcell f k).1] | rw [(hcell f k).2]
          by_cases hk : gid = k
          · subst hk; simp [hg']; grind
          · have : ¬ (c'.ids.lookup (pName c r) = some k) := by
              intro e; rw [hg'] at e; exact hk (Option.some.inj e)
            simp [hk, this]; grind

end IsoVerif.Lemmas.C09Profile
