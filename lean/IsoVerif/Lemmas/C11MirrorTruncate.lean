/-
C11 helper lemmas — reflection of `truncate_read_to_polya` (Model/Interval.lean): the polyA scan from the right
and the polyT scan from the left are each other's mirror image as long as both scans find an exon and do not
cross (`firstIdx` = index of the first block with the property, or the length).
-/
import IsoVerif.Gen.Prims
import IsoVerif.Model.Interval
import IsoVerif.Model.C11Symmetry
import IsoVerif.Lemmas.C11Mirror
import IsoVerif.Lemmas.C11ShiftProfiles

namespace IsoVerif.Lemmas.C11.Lists
open IsoVerif.Gen IsoVerif.Model IsoVerif.Model.C11 IsoVerif.Lemmas

/-- index of the first block with property `p`; the length of the list if there is none -/
def firstIdx (p : Iv → Bool) : List Iv → Nat
  | [] => 0
  | r :: rs => if p r then 0 else firstIdx p rs + 1

theorem firstIdx_le (p : Iv → Bool) (l : List Iv) : firstIdx p l ≤ l.length := by
  induction l with
  | nil => simp [firstIdx]
  | cons a t ih => simp only [firstIdx, List.length_cons]; split <;> omega

theorem firstIdx_lt_of_mem (p : Iv → Bool) (l : List Iv) (h : ∃ r ∈ l, p r = true) : firstIdx p l < l.length := by
  induction l with
  | nil => obtain ⟨r, hr, _⟩ := h; cases hr
  | cons a t ih =>
    simp only [firstIdx, List.length_cons]
    split
    · omega
    · rename_i hp
      obtain ⟨r, hr, hpr⟩ := h
      rcases List.mem_cons.mp hr with e | hr'
      · subst e; exact absurd hpr hp
      · have := ih ⟨r, hr', hpr⟩; omega

/-- no block before the first one with the property has it -/
theorem firstIdx_before (p : Iv → Bool) (l : List Iv) (j : Nat) (r : Iv) (hj : j < firstIdx p l) (hr : l[j]? = some r) :
    p r = false := by
  induction l generalizing j with
  | nil => simp at hr
  | cons a t ih =>
    simp only [firstIdx] at hj
    split at hj
    · omega
    · rename_i hp
      cases j with
      | zero => simp at hr; subst hr; simpa using hp
      | succ j => simp at hr; exact ih j (by omega) hr

theorem firstIdx_map (p : Iv → Bool) (f : Iv → Iv) (l : List Iv) : firstIdx p (l.map f) = firstIdx (fun r => p (f r)) l := by
  induction l with
  | nil => rfl
  | cons a t ih => simp only [List.map_cons, firstIdx, ih]

theorem firstIdx_congr (p q : Iv → Bool) (l : List Iv) (h : ∀ r, p r = q r) : firstIdx p l = firstIdx q l := by
  have : p = q := funext h
  rw [this]

theorem endIndexLoop_eq (p : Int) (l : List Iv) (i : Int) :
    endIndexLoop p l i =
      if firstIdx (fun r => decide (r.1 < p)) l < l.length then i - (firstIdx (fun r => decide (r.1 < p)) l : Nat) else -1 := by
  induction l generalizing i with
  | nil => simp [endIndexLoop, firstIdx]
  | cons a t ih =>
    simp only [endIndexLoop, firstIdx, List.length_cons]
    by_cases c : a.1 < p
    · simp [c]
    · simp only [c, if_false, decide_false, Bool.false_eq_true, ih]
      split <;> split <;> omega

theorem startIndexLoop_eq (p E : Int) (l : List Iv) (i : Int) :
    startIndexLoop p E l i = i + (min (firstIdx (fun r => decide (r.2 > p)) l) (E + 1 - i).toNat : Nat) := by
  induction l generalizing i with
  | nil => simp [startIndexLoop, firstIdx]
  | cons a t ih =>
    simp only [startIndexLoop, firstIdx]
    by_cases c1 : i ≤ E
    · by_cases c2 : a.2 > p
      · simp [c1, c2]
      · simp only [c1, c2, if_true, if_false, decide_false, Bool.false_eq_true, ih]
        omega
    · simp only [c1, if_false]
      omega

/-! ### the slice between the two indices -/

theorem pySlice_nat {α} (l : List α) (a b : Nat) (ha : a ≤ l.length) (hb : b ≤ l.length) :
    pySlice l (a : Int) (b : Int) = (l.drop a).take (b - a) := by
  simp only [pySlice]
  have e1 : ((if (a : Int) < 0 then max 0 ((l.length : Int) + a) else min (a : Int) l.length).toNat) = a := by
    split <;> omega
  have e2 : ((if (b : Int) < 0 then max 0 ((l.length : Int) + b) else min (b : Int) l.length).toNat) = b := by
    split <;> omega
  rw [e1, e2]

theorem slice_reverse {α} (l : List α) (s e : Nat) (he : e ≤ l.length) :
    (l.reverse.drop (l.length - e)).take (e - s) = ((l.drop s).take (e - s)).reverse := by
  rw [List.drop_reverse]
  have e1 : l.length - (l.length - e) = e := by omega
  rw [e1, List.take_reverse, List.length_take, Nat.min_eq_left he, List.drop_take]
  by_cases c : s ≤ e
  · have e2 : e - (e - s) = s := by omega
    rw [e2]
  · have e3 : e - s = 0 := by omega
    simp [e3]

/-- the two index loops of the mirrored call, seen from the original list -/
theorem truncTail_mirror (L : Int) (exons : List Iv) (f t : Iv) (s e : Nat) (sp ep : Int)
    (hs : s < exons.length) (he : e < exons.length) :
    truncTail (mirrorL L exons) (mirrorIv L t) (mirrorIv L f)
        ((exons.length : Int) - 1 - (e : Int)) ((exons.length : Int) - 1 - (s : Int)) (L + 1 - ep) (L + 1 - sp)
      = (truncTail exons f t (s : Int) (e : Int) sp ep).map (mirrorL L) := by
  simp only [truncTail, mirrorIv_fst, mirrorIv_snd]
  have e1 : (L + 1 - ep = L + 1 - t.2 ∧ L + 1 - sp = L + 1 - f.1) ↔ (sp = f.1 ∧ ep = t.2) := by omega
  have e2 : ((exons.length : Int) - 1 - (e : Int) = (exons.length : Int) - 1 - (s : Int)) ↔ ((s : Int) = (e : Int)) := by omega
  simp only [e1, e2]
  by_cases c1 : sp = f.1 ∧ ep = t.2
  · simp [c1]
  · simp only [c1, if_false]
    by_cases c2 : (s : Int) = (e : Int)
    · simp [c2, mirrorL, mirrorIv]
    · simp only [c2, if_false]
      rw [pyGet?_mirror L exons e he, pyGet?_mirror L exons s hs, pyGet?_nonneg, pyGet?_nonneg]
      obtain ⟨S, hS⟩ : ∃ x, exons[s]? = some x := ⟨exons[s], by simp [hs]⟩
      obtain ⟨E, hE⟩ : ∃ x, exons[e]? = some x := ⟨exons[e], by simp [he]⟩
      simp only [hS, hE, Option.map_some]
      have a1 : (exons.length : Int) - 1 - (e : Int) + 1 = ((exons.length - e : Nat) : Int) := by omega
      have a2 : (exons.length : Int) - 1 - (s : Int) = ((exons.length - 1 - s : Nat) : Int) := by omega
      have a3 : (s : Int) + 1 = ((s + 1 : Nat) : Int) := by omega
      rw [a1, a2, a3, pySlice_nat _ _ _ (by rw [mirrorL_length]; omega) (by rw [mirrorL_length]; omega),
        pySlice_nat _ _ _ (by omega) (by omega)]
      have a4 : exons.length - 1 - s - (exons.length - e) = e - (s + 1) := by omega
      rw [a4]
      have hl : (exons.map (mirrorIv L)).length = exons.length := by simp
      have := slice_reverse (exons.map (mirrorIv L)) (s + 1) e (by rw [hl]; omega)
      rw [hl] at this
      simp only [mirrorL, this, mirrorIv_fst, mirrorIv_snd, List.map_cons, List.map_append, List.reverse_cons,
        List.reverse_append, List.map_nil, List.reverse_nil, List.nil_append, List.map_take, List.map_drop,
        List.cons_append, Option.some.injEq]
      simp [mirrorIv]

/-- the scans do not cross: if the polyT position lies before the polyA position, the first block ending behind the
    polyT position is not behind the block after the last one starting before the polyA position -/
theorem scans_do_not_cross (exons : List Iv) (w : WFl exons) (pa pt : Int) (hX : pt < pa)
    (hb : firstIdx (fun r => decide (r.2 > pt)) exons < exons.length) :
    firstIdx (fun r => decide (r.1 < pa)) exons.reverse + firstIdx (fun r => decide (r.2 > pt)) exons ≤ exons.length := by
  apply Classical.byContradiction
  intro hc
  have hle := firstIdx_le (fun r => decide (r.1 < pa)) exons.reverse
  rw [List.length_reverse] at hle
  let a := firstIdx (fun r => decide (r.1 < pa)) exons.reverse
  let b := firstIdx (fun r => decide (r.2 > pt)) exons
  have ha1 : 1 ≤ a := by show 1 ≤ firstIdx _ _; omega
  have hj : exons.length - a < exons.length := by omega
  obtain ⟨r, hr⟩ : ∃ x, exons[exons.length - a]? = some x := ⟨exons[exons.length - a], by simp [hj]⟩
  have h1 := firstIdx_before (fun r => decide (r.2 > pt)) exons (exons.length - a) r (by show _ < firstIdx _ _; omega) hr
  have hr' : exons.reverse[a - 1]? = some r := by
    rw [List.getElem?_reverse (by omega)]
    have : exons.length - 1 - (a - 1) = exons.length - a := by omega
    rw [this]; exact hr
  have h2 := firstIdx_before (fun r => decide (r.1 < pa)) exons.reverse (a - 1) r (by show _ < firstIdx _ _; omega) hr'
  have hw := w r (List.mem_of_getElem? hr)
  simp only [decide_eq_false_iff_not] at h1 h2
  omega

theorem truncate_mirror_core (L : Int) (exons : List Iv) (pa pt : Int) (w : WFl exons)
    (hA : pa ≠ -1 → (∃ e ∈ exons, e.1 < pa) ∧ L + 1 - pa ≠ -1)
    (hT : pt ≠ -1 → (∃ e ∈ exons, pt < e.2) ∧ L + 1 - pt ≠ -1)
    (hX : pa ≠ -1 → pt ≠ -1 → pt < pa) :
    truncateReadToPolya (mirrorL L exons) (mirrorPos L pt) (mirrorPos L pa)
      = (truncateReadToPolya exons pa pt).map (mirrorL L) := by
  cases hf : exons.head? with
  | none =>
    have : exons = [] := by cases exons <;> simp_all
    subst this; rfl
  | some f =>
    have hne : exons ≠ [] := by intro e; simp [e] at hf
    have hn : 0 < exons.length := List.length_pos_iff.mpr hne
    obtain ⟨t, ht⟩ : ∃ t, exons.getLast? = some t := ⟨_, List.getLast?_eq_some_getLast hne⟩
    rw [truncate_eq exons pa pt f t hf ht,
      truncate_eq (mirrorL L exons) _ _ (mirrorIv L t) (mirrorIv L f) (by rw [mirrorL_head?, ht]; rfl)
        (by rw [mirrorL_getLast?, hf]; rfl)]
    simp only [mirrorL_length, mirrorL_reverse, endIndexLoop_eq, startIndexLoop_eq, List.length_map, List.length_reverse]
    have ea : firstIdx (fun r => decide (r.2 > L + 1 - pa)) (mirrorL L exons)
        = firstIdx (fun r => decide (r.1 < pa)) exons.reverse := by
      rw [mirrorL_eq_map_reverse, firstIdx_map]
      apply firstIdx_congr; intro r; simp only [mirrorIv_snd]; apply decide_eq_decide.mpr; omega
    have eb : firstIdx (fun r => decide (r.1 < L + 1 - pt)) (exons.map (mirrorIv L))
        = firstIdx (fun r => decide (r.2 > pt)) exons := by
      rw [firstIdx_map]
      apply firstIdx_congr; intro r; simp only [mirrorIv_fst]; apply decide_eq_decide.mpr; omega
    have ha : pa ≠ -1 → firstIdx (fun r => decide (r.1 < pa)) exons.reverse < exons.length := by
      intro h
      obtain ⟨e, he, hlt⟩ := (hA h).1
      have := firstIdx_lt_of_mem (fun r => decide (r.1 < pa)) exons.reverse ⟨e, by simpa using he, by simpa using hlt⟩
      simpa using this
    have hb : pt ≠ -1 → firstIdx (fun r => decide (r.2 > pt)) exons < exons.length := by
      intro h
      obtain ⟨e, he, hlt⟩ := (hT h).1
      exact firstIdx_lt_of_mem (fun r => decide (r.2 > pt)) exons ⟨e, he, by simpa using hlt⟩
    have hab : pa ≠ -1 → pt ≠ -1 → firstIdx (fun r => decide (r.1 < pa)) exons.reverse
        + firstIdx (fun r => decide (r.2 > pt)) exons ≤ exons.length :=
      fun h1 h2 => scans_do_not_cross exons w pa pt (hX h1 h2) (hb h2)
    have cn : (((-1 : Int)) != -1) = false := by decide
    by_cases ca : pa = -1 <;> by_cases ct : pt = -1
    · subst ca; subst ct
      have hmn : mirrorPos L (-1) = -1 := by simp [mirrorPos]
      rw [hmn]
      simp only [cn, Bool.false_eq_true, if_false]
      have := truncTail_mirror L exons f t 0 (exons.length - 1) f.1 t.2 (by omega) (by omega)
      refine Eq.trans ?_ (this.trans ?_)
      · simp only [mirrorIv_fst, mirrorIv_snd]; congr 1 <;> omega
      · congr 2; omega
    · subst ca
      have hb' := hb ct
      have hm := (hT ct).2
      have hmp : mirrorPos L pt = L + 1 - pt := by simp [mirrorPos, ct]
      have hmn : mirrorPos L (-1) = -1 := by simp [mirrorPos]
      have c1 : (pt != -1) = true := by simp [ct]
      have c3 : (L + 1 - pt != -1) = true := by simp [hm]
      rw [hmp, hmn, eb]
      simp only [cn, c1, c3, Bool.false_eq_true, if_false, if_true, hb']
      generalize firstIdx (fun r => decide (r.2 > pt)) exons = b at hb' ⊢
      have := truncTail_mirror L exons f t b (exons.length - 1) pt t.2 hb' (by omega)
      refine Eq.trans ?_ (this.trans ?_)
      · simp only [mirrorIv_fst, mirrorIv_snd]; congr 1 <;> omega
      · congr 2 <;> omega
    · subst ct
      have ha' := ha ca
      have hm := (hA ca).2
      have hmp : mirrorPos L pa = L + 1 - pa := by simp [mirrorPos, ca]
      have hmn : mirrorPos L (-1) = -1 := by simp [mirrorPos]
      have c1 : (pa != -1) = true := by simp [ca]
      have c3 : (L + 1 - pa != -1) = true := by simp [hm]
      rw [hmp, hmn, ea]
      simp only [cn, c1, c3, Bool.false_eq_true, if_false, if_true, ha']
      generalize firstIdx (fun r => decide (r.1 < pa)) exons.reverse = a at ha' ⊢
      have := truncTail_mirror L exons f t 0 (exons.length - 1 - a) f.1 pa (by omega) (by omega)
      refine Eq.trans ?_ (this.trans ?_)
      · simp only [mirrorIv_fst, mirrorIv_snd]; congr 1 <;> omega
      · congr 2 <;> omega
    · have ha' := ha ca
      have hb' := hb ct
      have hab' := hab ca ct
      have hm1 := (hA ca).2
      have hm2 := (hT ct).2
      have hmp1 : mirrorPos L pa = L + 1 - pa := by simp [mirrorPos, ca]
      have hmp2 : mirrorPos L pt = L + 1 - pt := by simp [mirrorPos, ct]
      have c1 : (pa != -1) = true := by simp [ca]
      have c2 : (pt != -1) = true := by simp [ct]
      have c3 : (L + 1 - pa != -1) = true := by simp [hm1]
      have c4 : (L + 1 - pt != -1) = true := by simp [hm2]
      rw [hmp1, hmp2, ea, eb]
      simp only [c1, c2, c3, c4, if_true, ha', hb']
      generalize firstIdx (fun r => decide (r.1 < pa)) exons.reverse = a at ha' hab' ⊢
      generalize firstIdx (fun r => decide (r.2 > pt)) exons = b at hb' hab' ⊢
      have := truncTail_mirror L exons f t b (exons.length - 1 - a) pt pa hb' (by omega)
      refine Eq.trans ?_ (this.trans ?_)
      · congr 1 <;> omega
      · congr 2 <;> omega

end IsoVerif.Lemmas.C11.Lists
