/-
C07 with a process pool (Model/ResumePool.lean): interleavings of per-task event lists, the lock/data invariant `J`
lifted to products of per-task states, and the two parallel stages of a run of the repaired code.

The argument: every task `c` writes only inside its own footprint `T c` (`Tcol c` / `Tcon c`), the footprints are
pairwise disjoint, do not contain `.params`, and a lock inside `T c'` never vouches for a file inside another `T c`.
A state reached by an interleaving is then a *product state*: inside `T c` it equals the state `σ c` that task `c`
alone would have produced from the stage's start (after as many of its events), outside all footprints it equals the
start state.  `J` of a product state follows from `J` of the factors (`J_product`), and `J` of the factors at every
prefix is what the per-task lemmas of the sequential proof give (`collectChr_stage`, `constructChr_stage`).
-/
import IsoVerif.Lemmas.ResumeHistory
import IsoVerif.Model.ResumePool

namespace IsoVerif.Lemmas.Resume
open IsoVerif.Model.Resume

/-! ### interleavings -/

theorem weave_nil_of_empty (s : List Chr) (rem : Chr → List Ev) (h : ∀ c, rem c = []) : weave s rem = [] := by
  induction s with
  | nil => rfl
  | cons c s ih => simp only [weave, h c]; exact ih

theorem mem_weave {s : List Chr} {rem : Chr → List Ev} {e : Ev} (h : e ∈ weave s rem) : ∃ c, e ∈ rem c := by
  induction s generalizing rem with
  | nil => simp [weave] at h
  | cons c s ih =>
    simp only [weave] at h
    split at h
    · exact ih h
    · rename_i e0 es heq
      simp only [List.mem_cons] at h
      rcases h with rfl | h
      · exact ⟨c, by rw [heq]; simp⟩
      · obtain ⟨c', hc'⟩ := ih h
        by_cases hx : c' = c
        · subst hx; simp only [if_true] at hc'; exact ⟨c', by rw [heq]; simp [hc']⟩
        · simp only [hx, if_false] at hc'; exact ⟨c', hc'⟩

/-- the events of task `c` occur in the interleaving in their own order — as many of them as the schedule names `c` -/
theorem weave_proj {T : Chr → Path → Bool} (hdisj : ∀ c c' p, T c p = true → T c' p = true → c = c')
    (s : List Chr) (rem : Chr → List Ev) (hT : ∀ c, ∀ e ∈ rem c, T c e.path = true) (c : Chr) :
    (weave s rem).filter (fun e => T c e.path) = (rem c).take (s.count c) := by
  induction s generalizing rem with
  | nil => simp [weave]
  | cons c' s ih =>
    simp only [weave]
    split
    · rename_i heq
      rw [ih rem hT]
      by_cases hx : c' = c
      · subst hx; simp [heq]
      · simp [List.count_cons, hx]
    · rename_i e0 es heq
      have hT' : ∀ x, ∀ e ∈ (fun x => if x = c' then es else rem x) x, T x e.path = true := by
        intro x e he
        by_cases hx : x = c'
        · subst hx; simp only [if_true] at he; exact hT x e (by rw [heq]; simp [he])
        · simp only [hx, if_false] at he; exact hT x e he
      have h0 : T c' e0.path = true := hT c' e0 (by rw [heq]; simp)
      rw [List.filter_cons]
      by_cases hx : c' = c
      · subst hx
        simp only [h0, if_true]
        rw [ih _ hT']
        simp [heq, List.count_cons]
      · have hf : T c e0.path = false := by
          cases hq : T c e0.path with
          | false => rfl
          | true => exact absurd (hdisj c c' _ hq h0) (Ne.symm hx)
        simp only [hf, Bool.false_eq_true, if_false]
        rw [ih _ hT']
        simp [hx, Ne.symm hx, List.count_cons]

theorem applyAll_congr (fs fs' : FS) (es : List Ev) (p : Path) (h : fs p = fs' p) : applyAll fs es p = applyAll fs' es p := by
  induction es generalizing fs fs' with
  | nil => exact h
  | cons e es ih =>
    simp only [applyAll]
    apply ih
    simp only [apply, FS.set]
    split
    · rfl
    · exact h

/-- only the events that may touch `p` matter for the value at `p` -/
theorem applyAll_filter (fs : FS) (es : List Ev) (q : Ev → Bool) (p : Path) (h : ∀ e ∈ es, q e = false → e.path ≠ p) :
    applyAll fs es p = applyAll fs (es.filter q) p := by
  induction es generalizing fs with
  | nil => rfl
  | cons e es ih =>
    have ih' := fun fs => ih fs (fun e' he' => h e' (by simp [he']))
    rw [List.filter_cons]
    cases hq : q e with
    | true => simp only [if_true, applyAll]; exact ih' _
    | false =>
      simp only [Bool.false_eq_true, if_false, applyAll]
      rw [ih']
      apply applyAll_congr
      exact set_other fs _ (fun e' => h e (by simp) hq e'.symm)

theorem count_fill {cs : List Chr} {rem : Chr → List Ev} {c : Chr} (hc : c ∈ cs) : (rem c).length ≤ (fill cs rem).count c := by
  induction cs with
  | nil => simp at hc
  | cons c' cs ih =>
    simp only [fill, List.flatMap_cons, List.count_append]
    simp only [List.mem_cons] at hc
    rcases hc with rfl | hc
    · simp [List.count_replicate]
    · have := ih hc
      simp only [fill] at this
      omega

/-! ### block schedules -/

theorem weave_replicate (c : Chr) (n : Nat) (s : List Chr) (rem : Chr → List Ev) :
    weave (List.replicate n c ++ s) rem =
      (rem c).take n ++ weave s (fun x => if x = c then (rem c).drop n else rem x) := by
  induction n generalizing rem with
  | zero =>
    simp only [List.replicate_zero, List.nil_append, List.take_zero, List.drop_zero]
    congr 1; funext x; split
    · rename_i h; rw [h]
    · rfl
  | succ n ih =>
    simp only [List.replicate_succ, List.cons_append, weave]
    split
    · rename_i heq
      rw [ih, heq]
      simp only [List.take_nil, List.drop_nil, List.nil_append]
    · rename_i e0 es heq
      rw [ih, heq]
      simp only [if_true, List.take_succ_cons, List.drop_succ_cons, List.cons_append]
      have : (fun x => if x = c then List.drop n es else if x = c then es else rem x)
          = (fun x => if x = c then List.drop n es else rem x) := by
        funext x; by_cases h : x = c <;> simp [h]
      rw [this]

theorem flatMap_congr_on {α β : Type} {l : List α} {f g : α → List β} (h : ∀ x ∈ l, f x = g x) : l.flatMap f = l.flatMap g := by
  induction l with
  | nil => rfl
  | cons a l ih =>
    simp only [List.flatMap_cons]
    rw [h a (by simp), ih (fun x hx => h x (by simp [hx]))]

/-! ### the invariant of a product state -/

theorem J_product {cfg : Cfg} {T : Chr → Path → Bool}
    (hdisj : ∀ c c' p, T c p = true → T c' p = true → c = c') (hpar : ∀ c, T c .params = false)
    (hP1 : ∀ c c' l d, T c' l = true → d ∈ guarded cfg l → T c d = true → c = c')
    {fs0 fs : FS} (hJ0 : J cfg fs0) (hbase : ∀ p, (∀ c, T c p = false) → fs p = fs0 p)
    (hsolo : ∀ c, ∃ σ, J cfg σ ∧ ∀ p, (∀ c', c' ≠ c → T c' p = false) → fs p = σ p) : J cfg fs := by
  have notT : ∀ {c c' p}, T c p = true → c' ≠ c → T c' p = false := by
    intro c c' p h hne
    cases hq : T c' p with
    | false => rfl
    | true => exact absurd (hdisj c' c p hq h) hne
  refine ⟨?_, ?_⟩
  · simp only [FS.good, hbase _ hpar]; exact hJ0.1
  · intro l hl d hd
    by_cases hdT : ∃ c, T c d = true
    · obtain ⟨c, hc⟩ := hdT
      obtain ⟨σ, hσ, hag⟩ := hsolo c
      have el : fs l = σ l := by
        apply hag; intro c' hne
        cases hq : T c' l with
        | false => rfl
        | true => exact absurd (hP1 c c' l d hq hd hc).symm hne
      have ed : fs d = σ d := hag d (fun c' hne => notT hc hne)
      simp only [FS.has, FS.good, el, ed] at hl ⊢
      exact hσ.2 l hl d hd
    · have hdF : ∀ c, T c d = false := by
        intro c; cases hq : T c d with
        | false => rfl
        | true => exact absurd ⟨c, hq⟩ hdT
      by_cases hlT : ∃ c, T c l = true
      · obtain ⟨c, hc⟩ := hlT
        obtain ⟨σ, hσ, hag⟩ := hsolo c
        have el : fs l = σ l := hag l (fun c' hne => notT hc hne)
        have ed : fs d = σ d := hag d (fun c' _ => hdF c')
        simp only [FS.has, FS.good, el, ed] at hl ⊢
        exact hσ.2 l hl d hd
      · have hlF : ∀ c, T c l = false := by
          intro c; cases hq : T c l with
          | false => rfl
          | true => exact absurd ⟨c, hq⟩ hlT
        simp only [FS.has, FS.good, hbase l hlF, hbase d hdF] at hl ⊢
        exact hJ0.2 l hl d hd

/-- **the invariant along every interleaving**: when every task alone keeps `J` at every prefix of what it still
    has to do (from its factor `σ c` of the current product state), every interleaving keeps `J` at every prefix -/
theorem allJ_weave {cfg : Cfg} {T : Chr → Path → Bool}
    (hdisj : ∀ c c' p, T c p = true → T c' p = true → c = c') (hpar : ∀ c, T c .params = false)
    (hP1 : ∀ c c' l d, T c' l = true → d ∈ guarded cfg l → T c d = true → c = c')
    {fs0 : FS} (hJ0 : J cfg fs0) (s : List Chr) (rem : Chr → List Ev)
    (hT : ∀ c, ∀ e ∈ rem c, T c e.path = true) (fs : FS)
    (hbase : ∀ p, (∀ c, T c p = false) → fs p = fs0 p)
    (hsolo : ∀ c, ∃ σ, AllP (J cfg) σ (rem c) ∧ ∀ p, (∀ c', c' ≠ c → T c' p = false) → fs p = σ p) :
    AllP (J cfg) fs (weave s rem) := by
  have hJ : ∀ {fs : FS} {rem : Chr → List Ev}, (∀ p, (∀ c, T c p = false) → fs p = fs0 p) →
      (∀ c, ∃ σ, AllP (J cfg) σ (rem c) ∧ ∀ p, (∀ c', c' ≠ c → T c' p = false) → fs p = σ p) → J cfg fs := by
    intro fs rem hb hs
    exact J_product hdisj hpar hP1 hJ0 hb (fun c => by obtain ⟨σ, h1, h2⟩ := hs c; exact ⟨σ, AllP_head h1, h2⟩)
  induction s generalizing rem fs with
  | nil => exact hJ hbase hsolo
  | cons c s ih =>
    simp only [weave]
    split
    · exact ih rem hT fs hbase hsolo
    · rename_i e0 es heq
      have h0 : T c e0.path = true := hT c e0 (by rw [heq]; simp)
      refine ⟨hJ hbase hsolo, ih _ ?_ _ ?_ ?_⟩
      · intro x e he
        by_cases hx : x = c
        · subst hx; simp only [if_true] at he; exact hT x e (by rw [heq]; simp [he])
        · simp only [hx, if_false] at he; exact hT x e he
      · intro p hp
        have hne : p ≠ e0.path := by
          intro e'; have := hp c; rw [e', h0] at this; exact absurd this (by simp)
        simp only [apply]; rw [set_other _ _ hne]; exact hbase p hp
      · intro x
        by_cases hx : x = c
        · subst hx
          obtain ⟨σ, h1, h2⟩ := hsolo x
          rw [heq] at h1
          refine ⟨apply σ e0, by simpa using h1.2, ?_⟩
          intro p hp
          simp only [apply, FS.set]
          split
          · rfl
          · exact h2 p hp
        · obtain ⟨σ, h1, h2⟩ := hsolo x
          refine ⟨σ, by simpa [hx] using h1, ?_⟩
          intro p hp
          have hne : p ≠ e0.path := by
            intro e'; have := hp c (fun e'' => hx e''.symm); rw [e', h0] at this; exact absurd this (by simp)
          simp only [apply]; rw [set_other _ _ hne]; exact h2 p hp

/-! ### one parallel stage -/

theorem taskEvents_T {T : Chr → Path → Bool} {task : Chr → Stage} {cs : List Chr} {fs : FS}
    (hT : ∀ c ∈ cs, ∀ e ∈ (runActs (task c fs) fs).evs, T c e.path = true) :
    ∀ c, ∀ e ∈ taskEvents task cs fs c, T c e.path = true := by
  intro c e he
  simp only [taskEvents] at he
  split at he
  · rename_i hc; exact hT c hc e he
  · simp at he

/-- a parallel stage whose tasks, each alone, complete and keep the invariant: for every schedule the stage completes,
    keeps the invariant at every prefix of the interleaved event list, and ends in the product of the tasks' end states -/
theorem pool_good {cfg : Cfg} {T : Chr → Path → Bool}
    (hdisj : ∀ c c' p, T c p = true → T c' p = true → c = c') (hpar : ∀ c, T c .params = false)
    (hP1 : ∀ c c' l d, T c' l = true → d ∈ guarded cfg l → T c d = true → c = c')
    (task : Chr → Stage) (cs sched : List Chr) {fs : FS} (h : J cfg fs)
    (hsolo : ∀ c ∈ cs, Good cfg fs (runActs (task c fs) fs))
    (hT : ∀ c ∈ cs, ∀ e ∈ (runActs (task c fs) fs).evs, T c e.path = true) :
    Good cfg fs (poolStage task cs sched fs) ∧
      (∀ c ∈ cs, ∀ p, T c p = true → (poolStage task cs sched fs).fs p = (runActs (task c fs) fs).fs p) ∧
      (∀ p, (∀ c ∈ cs, T c p = false) → (poolStage task cs sched fs).fs p = fs p) := by
  have hTe := taskEvents_T hT
  refine ⟨⟨?_, ?_⟩, ?_, ?_⟩
  · simp only [poolStage, List.all_eq_true]
    intro c hc; exact (hsolo c hc).1
  · show AllP (J cfg) fs (weave (sched ++ fill cs (taskEvents task cs fs)) (taskEvents task cs fs))
    apply allJ_weave hdisj hpar hP1 h _ _ hTe fs (fun _ _ => rfl)
    intro c
    refine ⟨fs, ?_, fun _ _ => rfl⟩
    simp only [taskEvents]
    split
    · rename_i hc; exact (hsolo c hc).2
    · exact h
  · intro c hc p hp
    show applyAll fs (weave (sched ++ fill cs (taskEvents task cs fs)) (taskEvents task cs fs)) p = _
    rw [applyAll_filter fs _ (fun e => T c e.path) p (by intro e _ hq e'; rw [e', hp] at hq; exact absurd hq (by simp)),
        weave_proj hdisj _ _ hTe c, List.take_of_length_le, runActs_fs]
    · simp [taskEvents, hc]
    · rw [List.count_append]
      have := count_fill (rem := taskEvents task cs fs) hc
      omega
  · intro p hp
    show applyAll fs (weave (sched ++ fill cs (taskEvents task cs fs)) (taskEvents task cs fs)) p = fs p
    apply applyAll_untouched
    intro e he hpe
    obtain ⟨c, hc⟩ := mem_weave he
    have hcs : c ∈ cs := by
      cases hq : decide (c ∈ cs) with
      | true => simpa using hq
      | false => simp only [taskEvents] at hc; simp at hq; simp [hq] at hc
    have := hTe c e hc
    rw [hpe, hp c hcs] at this
    exact absurd this (by simp)

/-- a stage whose tasks all have nothing to do leaves the file system alone -/
theorem poolStage_skip (task : Chr → Stage) (cs sched : List Chr) (fs : FS) (h : ∀ c ∈ cs, task c fs = []) :
    (poolStage task cs sched fs).fs = fs ∧ (poolStage task cs sched fs).evs = [] := by
  have : ∀ c, taskEvents task cs fs c = [] := by
    intro c; simp only [taskEvents]; split
    · rename_i hc; rw [h c hc]; rfl
    · rfl
  simp only [poolStage, weave_nil_of_empty _ _ this, applyAll, and_self]

/-! ### footprints of the two kinds of tasks -/

theorem Tcol_disjoint (c c' : Chr) (p : Path) (h : Tcol c p = true) (h' : Tcol c' p = true) : c = c' := by
  cases p <;> simp [Tcol] at h h' <;> rw [← h, ← h']

theorem Tcon_disjoint (c c' : Chr) (p : Path) (h : Tcon c p = true) (h' : Tcon c' p = true) : c = c' := by
  cases p <;> simp [Tcon] at h h' <;> rw [← h, ← h']

/-- a lock written by the collection of `c'` vouches only for files of `c'` -/
theorem Tcol_guard {cfg : Cfg} (c c' : Chr) (l d : Path) (hl : Tcol c' l = true) (hd : d ∈ guarded cfg l)
    (hc : Tcol c d = true) : c = c' := by
  cases l <;> simp only [guarded] at hd
  all_goals try (simp at hd; done)
  all_goals try (simp [Tcol] at hl; done)
  split at hd
  · simp only [List.mem_cons, List.not_mem_nil, or_false] at hd
    simp only [Tcol, beq_iff_eq] at hl
    rcases hd with rfl | rfl | rfl <;> simp only [Tcol, beq_iff_eq] at hc <;> rw [← hc, ← hl]
  · simp at hd

/-- a lock written by the model construction of `c'` vouches only for files of `c'` -/
theorem Tcon_guard {cfg : Cfg} (c c' : Chr) (l d : Path) (hl : Tcon c' l = true) (hd : d ∈ guarded cfg l)
    (hc : Tcon c d = true) : c = c' := by
  cases l <;> simp only [guarded] at hd
  all_goals try (simp at hd; done)
  all_goals try (simp [Tcon] at hl; done)
  split at hd
  · simp only [Tcon, beq_iff_eq] at hl
    rcases mem_chrOutputs hd with ⟨s, rfl⟩ | ⟨s, rfl⟩ | ⟨s, rfl⟩ | rfl | rfl <;>
      simp only [Tcon, beq_iff_eq] at hc <;> rw [← hc, ← hl]
  · simp at hd

theorem collectChr_T (cfg : Cfg) (rs sk : Bool) (c : Chr) (fs : FS) :
    ∀ e ∈ eventsOf (collectChr fixed cfg rs sk c fs), Tcol c e.path = true := by
  intro e he
  unfold collectChr at he
  cases sk with
  | true => simp [eventsOf] at he
  | false =>
    simp only [Bool.false_eq_true, if_false] at he
    generalize hG : (if cfg.rg = RG.file then [Act.exist (Path.rgSplit c)] else []) = G at he
    have hGev : eventsOf G = [] := by subst hG; split <;> rfl
    by_cases hb : (rs && fs.has (.collected c) && fs.has (.groups c) && fs.has (.save c)) = true
    · simp only [hb, if_true, eventsOf_append, hGev] at he; simp [eventsOf] at he
    · simp only [hb, Bool.false_eq_true, if_false, eventsOf_append, hGev, eventsOf_evs, List.nil_append] at he
      simp only [fixed, if_true, Bool.false_eq_true, if_false, List.append_nil, List.mem_append, List.mem_cons,
        List.not_mem_nil, or_false] at he
      rcases he with ((rfl | rfl | rfl | rfl | rfl | rfl) | rfl) | rfl <;> simp [Tcol, Ev.path]

/-! ### the two parallel stages of a run of the repaired code -/

theorem collect_pool {cfg : Cfg} (rs sk : Bool) (sched : List Chr)
    {fs : FS} (h : J cfg fs) (hrg : fs.has .rgLock = true) (hnl : sk = false → fs.has .lock = false)
    (hnc : rs = false → sk = false → ∀ c ∈ cfg.chrs, fs.has (.collected c) = false) (href : refOK cfg fs = true) :
    Good cfg fs (poolStage (collectChr fixed cfg rs sk) cfg.chrs sched fs) ∧
      (sk = false → ∀ c ∈ cfg.chrs, (poolStage (collectChr fixed cfg rs sk) cfg.chrs sched fs).fs.has (.collected c) = true) ∧
      (∀ p, (∀ c ∈ cfg.chrs, Tcol c p = false) → (poolStage (collectChr fixed cfg rs sk) cfg.chrs sched fs).fs p = fs p) := by
  have hs : ∀ c ∈ cfg.chrs, _ := fun c hc => collectChr_stage rs sk h hc hrg hnl (fun e e' => hnc e e' c hc) href
  obtain ⟨g, prod, fr⟩ := pool_good (T := Tcol) Tcol_disjoint (fun _ => rfl) Tcol_guard (collectChr fixed cfg rs sk) cfg.chrs sched h
    (fun c hc => (hs c hc).1)
    (fun c hc e he => collectChr_T cfg rs sk c fs e (runActs_evs_sub _ _ e he))
  refine ⟨g, ?_, fr⟩
  intro e c hc
  rw [FS.has, prod c hc _ (by simp [Tcol])]
  exact (hs c hc).2.1 e

theorem construct_pool {cfg : Cfg} (rs : Bool) (sched : List Chr)
    {fs : FS} (h : J cfg fs) (hsv : SavesOK cfg fs)
    (hnp : rs = false → ∀ c ∈ cfg.chrs, fs.has (.processed c) = false) (href : refOK cfg fs = true) :
    Good cfg fs (poolStage (constructChr fixed cfg rs) cfg.chrs sched fs) ∧
      (∀ c ∈ cfg.chrs, (poolStage (constructChr fixed cfg rs) cfg.chrs sched fs).fs.has (.processed c) = true) ∧
      (∀ p, (∀ c ∈ cfg.chrs, Tcon c p = false) → (poolStage (constructChr fixed cfg rs) cfg.chrs sched fs).fs p = fs p) := by
  have hs : ∀ c ∈ cfg.chrs, _ := fun c hc => constructChr_stage rs h hc hsv (fun e => hnp e c hc) href
  obtain ⟨g, prod, fr⟩ := pool_good (T := Tcon) Tcon_disjoint (fun _ => rfl) Tcon_guard (constructChr fixed cfg rs) cfg.chrs sched h
    (fun c hc => (hs c hc).1)
    (fun c hc e he => by
      have := constructChr_T cfg rs c fs
      simp only [List.all_eq_true] at this
      exact this e (runActs_evs_sub _ _ e he))
  refine ⟨g, ?_, fr⟩
  intro c hc
  rw [FS.has, prod c hc _ (by simp [Tcon])]
  exact (hs c hc).2.1

end IsoVerif.Lemmas.Resume
