/-
Helper lemmas for the end-to-end part of C12: what `MultimapResolver.resolve` keeps for one read, index-free
(`keptRecs` = the first record of every `__eq__`-class of `Winner` records), the verdict dictionaries by look-up, the
loader on one record.  Uses C08's theorems (`priority_candidates`, `losers_never_loaded`, `memory_paths_agree`).
-/
import IsoVerif.Model.Resolver
import IsoVerif.Lemmas.Resolver
import IsoVerif.Lemmas.ResolverSpec
import IsoVerif.Lemmas.ResolverFlow
import IsoVerif.Lemmas.C12Lists
import IsoVerif.Props.C08
import IsoVerif.Props.C08Flow

namespace IsoVerif.Lemmas.C12
open IsoVerif.Gen IsoVerif.Model.Resolver IsoVerif.Lemmas.Resolver IsoVerif.Lemmas.ResolverSpec
open IsoVerif.Lemmas.ResolverFlow IsoVerif.Props.C08 IsoVerif.Props.C08Flow
open List

/-! ### the kept records of one read, index-free -/

/-- the records the statement of C08 says win, in list order -/
noncomputable def winnersR (l : List Rec) : List Rec :=
  open Classical in l.filter (fun r => decide (Winner l r))

/-- the first record of every `__eq__`-class of winners -/
noncomputable def keptRecs (l : List Rec) : List Rec := firstWins recEq (winnersR l)

/-- the indexed records `filter_assignments` keeps (`find_duplicates` of the candidates) -/
def keptI (l : List Rec) : List IRec :=
  match candidates l with
  | some cand => findDuplicates cand
  | none => []

theorem zipIdx_nodup {α : Type} (l : List α) : l.zipIdx.Nodup := by
  have hnodup : (l.zipIdx.map (·.2)).Nodup := by
    have : l.zipIdx.map (·.2) = List.range' 0 l.length := by
      apply List.ext_getElem?
      intro i
      simp only [List.getElem?_map, List.getElem?_zipIdx, Option.map_map]
      by_cases h : i < l.length
      · simp [h]
      · simp [h]
    rw [this]; exact List.nodup_range'
  exact List.Pairwise.of_map (fun x : α × Nat => x.2) (fun a b h e => h (congrArg _ e)) hnodup

theorem zipIdx_filter_map_fst {α : Type} (l : List α) (p : α → Bool) :
    (l.zipIdx.filter (fun x => p x.1)).map Prod.fst = l.filter p := by
  have : l.filter p = (l.zipIdx.map Prod.fst).filter p := by simp
  rw [this, List.filter_map]
  rfl

theorem keptI_spec (l : List Rec) (h2 : 2 ≤ l.length) :
    resolve .take_best l = some (applyKeep l (keptI l)) ∧ (keptI l).Sublist l.zipIdx := by
  have hl : l ≠ [] := by intro h; simp [h] at h2
  obtain ⟨cand, hc, hsel, hsub, _⟩ := priority_candidates l hl
  simp only [keptI, hc]
  exact ⟨(resolve_take_best l h2).trans hsel, (firstWins_sublist _ cand).trans hsub⟩

/-- **index-free form of what the resolver keeps**: for the records of one read (one read id), the kept records are
    the first record of every `__eq__`-class of `Winner` records -/
theorem keptI_map_fst (l : List Rec) (hl : l ≠ []) (hread : ∀ a ∈ l, ∀ b ∈ l, a.readId = b.readId) :
    (keptI l).map Prod.fst = keptRecs l := by
  classical
  obtain ⟨cand, hc, _, hsub, _, hwin, hall, hone⟩ := priority_candidates l hl
  simp only [keptI, hc, findDuplicates, keptRecs]
  rw [firstWins_map (f := Prod.fst) (eqb := recEq)]
  by_cases hassigned : Has Cons l ∨ Has Inc l
  · -- the candidates are exactly the winners, in order
    have hcand : cand = l.zipIdx.filter (fun x => decide (Winner l x.1)) := by
      apply sublist_eq_filter _ hsub (zipIdx_nodup l)
      intro x hx
      simp only [decide_eq_true_eq]
      exact ⟨fun h => hwin x h, fun h => hall hassigned x hx h⟩
    rw [hcand, zipIdx_filter_map_fst l (fun r => decide (Winner l r))]
    rfl
  · have hcn : ¬ Has Cons l := fun h => hassigned (Or.inl h)
    have hin : ¬ Has Inc l := fun h => hassigned (Or.inr h)
    obtain ⟨x, pre, post, hcx, hdec, hpre⟩ := hone hcn hin
    have hxw : Winner l x.1 := hwin x (by rw [hcx]; simp)
    have hlist : l = pre.map Prod.fst ++ x.1 :: post.map Prod.fst := by
      have : l = l.zipIdx.map Prod.fst := by simp
      rw [this, hdec]; simp
    have hw : winnersR l = x.1 :: (post.map Prod.fst).filter (fun r => decide (Winner l r)) := by
      unfold winnersR
      conv => lhs; arg 2; rw [hlist]
      rw [List.filter_append, List.filter_cons]
      have hpre' : (pre.map Prod.fst).filter (fun r => decide (Winner l r)) = [] := by
        rw [List.filter_eq_nil_iff]
        intro r hr
        obtain ⟨y, hy, rfl⟩ := List.mem_map.mp hr
        simpa using hpre y hy
      simp [hpre', hxw]
    rw [hcx, hw]
    simp only [List.map_cons, List.map_nil]
    have hx1 : x.1 ∈ l := by rw [hlist]; simp
    have hfirst : firstWins recEq [x.1] = [x.1] := by simp [firstWins, firstWinsAux]
    rw [hfirst]
    refine (firstWins_all_eq recEq x.1 ((post.map Prod.fst).filter (fun r => decide (Winner l r))) ?_).symm
    · intro y hy
      obtain ⟨hy1, hy2⟩ := List.mem_filter.mp hy
      have hyl : y ∈ l := by rw [hlist]; simp [hy1]
      have hyw : Winner l y := by simpa using hy2
      rw [recEq_iff]
      exact ⟨hread _ hx1 _ hyl, best_uninformative_unique hx1 hyl (hxw.2.2.2.2 hcn hin) (hyw.2.2.2.2 hcn hin)⟩

/-! ### association lists -/

theorem lookup_of_mem_nodup {β : Type} {d : List (Nat × β)} (hnd : (d.map Prod.fst).Nodup) {k : Nat} {v : β}
    (h : (k, v) ∈ d) : d.lookup k = some v := by
  induction d with
  | nil => cases h
  | cons kv rest ih =>
    obtain ⟨k', v'⟩ := kv
    simp only [List.map_cons, List.nodup_cons] at hnd
    rcases List.mem_cons.mp h with h | h
    · cases h; simp [List.lookup]
    · have hne : k ≠ k' := by
        intro e
        apply hnd.1
        rw [← e]
        exact List.mem_map.mpr ⟨(k, v), h, rfl⟩
      have : (k == k') = false := by rw [beq_eq_false_iff_ne]; exact hne
      simp only [List.lookup, this]
      exact ih hnd.2 h

theorem lookup_none_of_not_mem {β : Type} {d : List (Nat × β)} {k : Nat} (h : k ∉ d.map Prod.fst) :
    d.lookup k = none := by
  induction d with
  | nil => rfl
  | cons kv rest ih =>
    obtain ⟨k', v'⟩ := kv
    simp only [List.map_cons, List.mem_cons, not_or] at h
    have : (k == k') = false := by rw [beq_eq_false_iff_ne]; exact h.1
    simp only [List.lookup, this]
    exact ih h.2

theorem mapM_option_eq_some {α β : Type} (f : α → Option β) (l : List α) (h : ∀ x ∈ l, ∃ y, f x = some y) :
    l.mapM f = some (l.filterMap f) := by
  induction l with
  | nil => rfl
  | cons x t ih =>
    obtain ⟨y, hy⟩ := h x (by simp)
    rw [List.mapM_cons, hy, ih (fun z hz => h z (List.mem_cons_of_mem _ hz))]
    simp [hy]

theorem mapM_option_eq_none {α β : Type} (f : α → Option β) (l : List α) (x : α) (hx : x ∈ l) (h : f x = none) :
    l.mapM f = none := by
  induction l with
  | nil => cases hx
  | cons y t ih =>
    rw [List.mapM_cons]
    rcases List.mem_cons.mp hx with rfl | hx
    · simp [h]
    · cases f y with
      | none => rfl
      | some v => simp [ih hx]

end IsoVerif.Lemmas.C12
