/-
Helper lemmas for C10 (Model/Samples.lean): task lists under the per-task reset, outer join.
-/
import IsoVerif.Model.Samples

namespace IsoVerif.Lemmas.C10
open IsoVerif.Model.C10

/-! ### chromosome tasks under the per-task reset -/

theorem chrTask_reset (w : Wiring) (h : w.resetDetectedPerTask = true) (cfg : Config) (fl : Flags)
    (d : List String) (c : ChrData) : chrTask w cfg fl d c = chrTask w cfg fl [] c := by
  simp [chrTask, h]

theorem runSeq_eq_map (w : Wiring) (h : w.resetDetectedPerTask = true) (cfg : Config) (fl : Flags)
    (d : List String) (cs : List ChrData) :
    (runSeq w cfg fl d cs).1 = cs.map (fun c => (chrTask w cfg fl [] c).1) := by
  induction cs generalizing d with
  | nil => rfl
  | cons c cs ih =>
    simp only [runSeq, List.map_cons, ih]
    rw [chrTask_reset w h cfg fl d c]

theorem runPool_eq_map (w : Wiring) (h : w.resetDetectedPerTask = true) (cfg : Config) (fl : Flags)
    (d0 : List String) (ws : List (Nat × List String)) (assign : List Nat) (cs : List ChrData) :
    runPool w cfg fl d0 ws assign cs = cs.map (fun c => (chrTask w cfg fl [] c).1) := by
  induction cs generalizing ws assign with
  | nil => rfl
  | cons c cs ih =>
    simp only [runPool, List.map_cons, ih]
    rw [chrTask_reset w h cfg fl _ c]

/-! ### assignment ids: loading a chromosome does not depend on the number its ids start from -/

def shiftId (d : Nat) (e : Entry) : Entry := { e with id := e.id + d }

theorem entriesFrom_chr (c : String) (k : Nat) (recs : List Rec) : ∀ e ∈ entriesFrom c k recs, e.chr = c := by
  induction recs generalizing k with
  | nil => simp [entriesFrom]
  | cons r rs ih =>
    intro e he
    simp only [entriesFrom] at he
    split at he
    · rcases List.mem_cons.mp he with rfl | h
      · rfl
      · exact ih _ e h
    · exact ih _ e he

theorem entriesFrom_shift (c : String) (k d : Nat) (recs : List Rec) :
    entriesFrom c (k + d) recs = (entriesFrom c k recs).map (shiftId d) := by
  induction recs generalizing k with
  | nil => rfl
  | cons r rs ih =>
    simp only [entriesFrom]
    have h : k + d + 1 = k + 1 + d := by omega
    split
    · simp [h, ih, shiftId]
    · simp [h, ih]

theorem foldl_lookup_shift (c : String) (d : Nat) (rid : String) (id : Nat) (es : List Entry) (acc : Option Nat) :
    (es.map (shiftId d)).foldl
        (fun acc e => if e.readId == rid && e.id == id + d && e.chr == c then some e.verdict else acc) acc
      = es.foldl (fun acc e => if e.readId == rid && e.id == id && e.chr == c then some e.verdict else acc) acc := by
  induction es generalizing acc with
  | nil => rfl
  | cons e es ih =>
    simp only [List.map_cons, List.foldl_cons]
    have : ((shiftId d e).id == id + d) = (e.id == id) := by
      simp only [shiftId]
      rw [Bool.eq_iff_iff]
      simp
    simp only [this]
    exact ih _

theorem lookupLast_shift (c : String) (d : Nat) (es : List Entry) (rid : String) (id : Nat) :
    lookupLast c (es.map (shiftId d)) rid (id + d) = lookupLast c es rid id :=
  foldl_lookup_shift c d rid id es none

theorem any_shift (d : Nat) (es : List Entry) (rid : String) :
    (es.map (shiftId d)).any (fun e => e.readId == rid) = es.any (fun e => e.readId == rid) := by
  induction es with
  | nil => rfl
  | cons e es ih =>
    simp only [List.map_cons, List.any_cons, ih]
    rfl

theorem loadFrom_shift (c : String) (d : Nat) (es : List Entry) (k : Nat) (recs : List Rec) :
    loadFrom c (es.map (shiftId d)) (k + d) recs = loadFrom c es k recs := by
  induction recs generalizing k with
  | nil => rfl
  | cons r rs ih =>
    simp only [loadFrom]
    have h : k + d + 1 = k + 1 + d := by omega
    rw [h, ih, any_shift, lookupLast_shift]

theorem filter_own (c : String) (es : List Entry) (h : ∀ e ∈ es, e.chr = c) :
    es.filter (fun e => e.chr == c) = es := by
  apply List.filter_eq_self.mpr
  intro e he
  simp [h e he]

theorem filter_foreign (c : String) (foreign : List Entry) (h : ∀ e ∈ foreign, e.chr ≠ c) :
    foreign.filter (fun e => e.chr == c) = [] := by
  apply List.filter_eq_nil_iff.mpr
  intro e he
  simp [h e he]

theorem loadChr_base_zero (c : String) (base : Nat) (recs : List Rec) (foreign : List Entry)
    (hf : ∀ e ∈ foreign, e.chr ≠ c) :
    loadChr c base recs foreign = loadChr c 0 recs [] := by
  unfold loadChr
  rw [List.filter_append, filter_foreign c foreign hf, List.nil_append, List.nil_append,
    filter_own c _ (entriesFrom_chr c base recs), filter_own c _ (entriesFrom_chr c 0 recs)]
  have h1 : entriesFrom c base recs = (entriesFrom c 0 recs).map (shiftId base) := by
    have := entriesFrom_shift c 0 base recs
    simpa using this
  rw [h1]
  have h2 := loadFrom_shift c base (entriesFrom c 0 recs) 0 recs
  simpa using h2

/-! ### the YAML parser: every experiment is parsed from its own entry -/

def hasKey (d : NameDict) (k : String) : Bool := d.any (fun p => p.1 == k)

theorem lookup_none_of_not_hasKey (d : NameDict) (k : String) (h : hasKey d k = false) : d.lookup k = none := by
  induction d with
  | nil => rfl
  | cons p d ih =>
    obtain ⟨a, b⟩ := p
    simp only [hasKey, List.any_cons, Bool.or_eq_false_iff] at h
    have hk : (k == a) = false := by
      have := h.1
      simp only [beq_eq_false_iff_ne, ne_eq] at this ⊢
      exact fun e => this e.symm
    simp only [List.lookup, hk]
    exact ih h.2

theorem dictGet_fresh (d : NameDict) (k : String) (h : hasKey d k = false) : dictGet d k = [] := by
  simp [dictGet, lookup_none_of_not_hasKey d k h]

theorem dictSet_fresh (d : NameDict) (k : String) (v : List (String × String)) (h : hasKey d k = false) :
    dictSet d k v = d ++ [(k, v)] := by
  have : (d.any fun p => p.1 == k) = false := h
  simp [dictSet, this]

theorem dictGet_set_same (d : NameDict) (k : String) (v : List (String × String)) (h : hasKey d k = false) :
    dictGet (dictSet d k v) k = v := by
  rw [dictSet_fresh d k v h]
  simp [dictGet, List.lookup_append, lookup_none_of_not_hasKey d k h, List.lookup]

theorem dictGet_set_other (d : NameDict) (k k' : String) (v : List (String × String)) (h : hasKey d k = false)
    (hne : k' ≠ k) : dictGet (dictSet d k v) k' = dictGet d k' := by
  rw [dictSet_fresh d k v h]
  have hb : (k' == k) = false := by simpa using hne
  cases hl : d.lookup k' <;> simp [dictGet, List.lookup_append, hl, List.lookup, hb]

theorem hasKey_set (d : NameDict) (k k' : String) (v : List (String × String)) (h : hasKey d k = false) :
    hasKey (dictSet d k v) k' = true → hasKey d k' = true ∨ k' = k := by
  rw [dictSet_fresh d k v h]
  intro hk
  simp only [hasKey, List.any_append, List.any_cons, List.any_nil, Bool.or_false, Bool.or_eq_true] at hk
  rcases hk with hk | hk
  · exact Or.inl hk
  · have : k = k' := by simpa using hk
    exact Or.inr this.symm

/-- loop invariant: the samples finished so far, and every name the locals mention is among the names used -/
structure ParseInv (st : ParseSt) (outs : List ParsedSample) (used : List String) : Prop where
  fin : finishParse st = outs
  names : ∀ n ∈ st.names, n ∈ used
  keys : ∀ k, hasKey st.dict k = true → k ∈ used
  acc : ∀ t ∈ st.acc, t.1 ∈ used

theorem finishParse_dict_fresh (st : ParseSt) (used : List String) (n : String) (v : List (String × String))
    (hacc : ∀ t ∈ st.acc, t.1 ∈ used) (hk : hasKey st.dict n = false) (hn : n ∉ used) :
    st.acc.map (fun t => (⟨t.1, t.2.1, dictGet (dictSet st.dict n v) t.1, t.2.2⟩ : ParsedSample)) = finishParse st := by
  unfold finishParse
  apply List.map_congr_left
  intro t ht
  have : t.1 ≠ n := fun e => hn (e ▸ hacc t ht)
  rw [dictGet_set_other st.dict n t.1 v hk this]

theorem yamlStep_own (rc : Bool) (pfx : String) (st : ParseSt) (outs : List ParsedSample) (used : List String)
    (e : YamlEntry) (n : String) (hI : ParseInv st outs used) (hn : e.name = some n) (hfresh : n ∉ used) :
    match parseOwnYaml e n with
    | none => yamlStepR rc pfx st e = none
    | some r => ∃ st', yamlStepR rc pfx st e = some st' ∧ ParseInv st' (outs ++ r.toList) (n :: used) := by
  have hnames : st.names.contains n = false := by
    rw [Bool.eq_false_iff]
    intro h
    exact hfresh (hI.names n (by simpa using h))
  have hkey : hasKey st.dict n = false := by
    rw [Bool.eq_false_iff]
    intro h
    exact hfresh (hI.keys n h)
  unfold parseOwnYaml yamlStepR
  simp only [hn, hnames, Bool.false_and, Bool.false_eq_true, if_false]
  cases hf : e.files with
  | none => simp
  | some fs =>
    simp only
    cases hl : labelled fs e.labels with
    | none => simp
    | some pairs =>
      simp only [dictGet_fresh st.dict n hkey]
      cases ha : addFiles [] pairs with
      | none => simp
      | some d =>
        simp only
        by_cases hemp : fs.isEmpty = true
        · simp only [hemp, if_true]
          refine ⟨_, rfl, ?_⟩
          constructor
          · simp only [Option.toList, List.append_nil]
            show List.map _ st.acc = outs
            rw [finishParse_dict_fresh st used n d hI.acc hkey hfresh, hI.fin]
          · intro m hm; exact List.mem_cons_of_mem _ (hI.names m hm)
          · intro k hk
            rcases hasKey_set st.dict n k d hkey hk with h | h
            · exact List.mem_cons_of_mem _ (hI.keys k h)
            · exact h ▸ List.mem_cons_self
          · intro t ht; exact List.mem_cons_of_mem _ (hI.acc t ht)
        · simp only [hemp, Bool.false_eq_true, if_false]
          refine ⟨_, rfl, ?_⟩
          constructor
          · show List.map _ (st.acc ++ _) = _
            rw [List.map_append, finishParse_dict_fresh st used n d hI.acc hkey hfresh, hI.fin]
            simp [Option.toList, dictGet_set_same st.dict n d hkey]
          · intro m hm
            rcases List.mem_append.mp hm with h | h
            · exact List.mem_cons_of_mem _ (hI.names m h)
            · simp only [List.mem_singleton] at h; exact h ▸ List.mem_cons_self
          · intro k hk
            rcases hasKey_set st.dict n k d hkey hk with h | h
            · exact List.mem_cons_of_mem _ (hI.keys k h)
            · exact h ▸ List.mem_cons_self
          · intro t ht
            rcases List.mem_append.mp ht with h | h
            · exact List.mem_cons_of_mem _ (hI.acc t h)
            · simp only [List.mem_singleton] at h; rw [h]; exact List.mem_cons_self

theorem yamlLoop_own (rc : Bool) (pfx : String) (entries : List YamlEntry) (ns : List String) (st : ParseSt)
    (outs : List ParsedSample) (used : List String) (hI : ParseInv st outs used)
    (hnames : entries.map YamlEntry.name = ns.map some) (hnd : ns.Nodup) (hfresh : ∀ n ∈ ns, n ∉ used) :
    (yamlLoopR rc pfx st entries).map finishParse = (parseEachOwn (entries.zip ns)).map (fun rs => outs ++ rs) := by
  induction entries generalizing ns st outs used with
  | nil =>
    cases ns with
    | nil => simp [yamlLoopR, parseEachOwn, hI.fin]
    | cons n ns => simp at hnames
  | cons e es ih =>
    cases ns with
    | nil => simp at hnames
    | cons n ns =>
      simp only [List.map_cons, List.cons.injEq] at hnames
      have hnd' := List.nodup_cons.mp hnd
      have hstep := yamlStep_own rc pfx st outs used e n hI hnames.1 (hfresh n List.mem_cons_self)
      simp only [List.zip_cons_cons, parseEachOwn, yamlLoopR]
      cases hp : parseOwnYaml e n with
      | none =>
        simp only [hp] at hstep
        simp [hstep]
      | some r =>
        simp only [hp] at hstep
        obtain ⟨st', hs, hI'⟩ := hstep
        simp only [hs]
        have := ih ns st' (outs ++ r.toList) (n :: used) hI' hnames.2 hnd'.2 (by
          intro m hm hmu
          rcases List.mem_cons.mp hmu with h | h
          · exact hnd'.1 (h ▸ hm)
          · exact hfresh m (List.mem_cons_of_mem _ hm) h)
        rw [this]
        cases parseEachOwn (es.zip ns) <;> simp [List.append_assoc]

/-! ### the list-file parser -/

theorem lookup_map_replace (d : NameDict) (k : String) (v : List (String × String)) (h : hasKey d k = true) :
    (d.map (fun p => if p.1 == k then (k, v) else p)).lookup k = some v := by
  induction d with
  | nil => simp [hasKey] at h
  | cons p d ih =>
    obtain ⟨a, b⟩ := p
    by_cases ha : a = k
    · subst ha
      simp [List.lookup]
    · have h1 : (a == k) = false := by simpa using ha
      have h2 : (k == a) = false := by simpa using fun e : k = a => ha e.symm
      simp only [hasKey, List.any_cons, h1, Bool.false_or] at h
      simp only [List.map_cons, h1, Bool.false_eq_true, if_false, List.lookup, h2]
      exact ih h

theorem lookup_map_replace_other (d : NameDict) (k k' : String) (v : List (String × String)) (hne : k' ≠ k) :
    (d.map (fun p => if p.1 == k then (k, v) else p)).lookup k' = d.lookup k' := by
  induction d with
  | nil => rfl
  | cons p d ih =>
    obtain ⟨a, b⟩ := p
    have hk : (k' == k) = false := by simpa using hne
    by_cases ha : a = k
    · subst ha
      simp only [List.map_cons, beq_self_eq_true, if_true, List.lookup, hk]
      exact ih
    · have h1 : (a == k) = false := by simpa using ha
      simp only [List.map_cons, h1, Bool.false_eq_true, if_false, List.lookup]
      cases hka : (k' == a)
      · exact ih
      · rfl

theorem hasKey_map_replace (d : NameDict) (k k' : String) (v : List (String × String)) :
    hasKey (d.map (fun p => if p.1 == k then (k, v) else p)) k' = hasKey d k' := by
  induction d with
  | nil => rfl
  | cons p d ih =>
    obtain ⟨a, b⟩ := p
    simp only [hasKey, List.map_cons, List.any_cons] at ih ⊢
    rw [ih]
    by_cases ha : a = k
    · subst ha; simp
    · have h1 : (a == k) = false := by simpa using ha
      simp [h1]

theorem dictGet_set_same' (d : NameDict) (k : String) (v : List (String × String)) :
    dictGet (dictSet d k v) k = v := by
  cases h : hasKey d k with
  | false => exact dictGet_set_same d k v h
  | true =>
    have h' : (d.any fun p => p.1 == k) = true := h
    unfold dictGet dictSet
    rw [if_pos h', lookup_map_replace d k v h]

theorem dictGet_set_other' (d : NameDict) (k k' : String) (v : List (String × String)) (hne : k' ≠ k) :
    dictGet (dictSet d k v) k' = dictGet d k' := by
  cases h : hasKey d k with
  | false => exact dictGet_set_other d k k' v h hne
  | true =>
    have h' : (d.any fun p => p.1 == k) = true := h
    unfold dictGet dictSet
    rw [if_pos h', lookup_map_replace_other d k k' v hne]

theorem hasKey_set' (d : NameDict) (k k' : String) (v : List (String × String)) :
    hasKey (dictSet d k v) k' = true → hasKey d k' = true ∨ k' = k := by
  cases h : hasKey d k with
  | false => exact hasKey_set d k k' v h
  | true =>
    have h' : (d.any fun p => p.1 == k) = true := h
    intro hk
    left
    simp only [dictSet, h', if_true] at hk
    rwa [hasKey_map_replace] at hk

/-- what a run of file lines does to the locals: only the pending sample and the labels under its name change -/
structure FilesFrame (s s' : ListSt) (d' : List (String × String)) (c' : List (List String)) : Prop where
  cur : s'.cur = c'
  curName : s'.curName = s.curName
  names : s'.st.names = s.st.names
  index : s'.st.index = s.st.index
  acc : s'.st.acc = s.st.acc
  own : dictGet s'.st.dict s.curName = d'
  other : ∀ k, k ≠ s.curName → dictGet s'.st.dict k = dictGet s.st.dict k
  keys : ∀ k, hasKey s'.st.dict k = true → hasKey s.st.dict k = true ∨ k = s.curName

theorem listLoop_files (rc : Bool) (pfx : String) (lines : List ListLine) (hl : ∀ l ∈ lines, l.isFiles = true) (s : ListSt) :
    match blockOwn (dictGet s.st.dict s.curName) s.cur lines with
    | none => listLoopR rc pfx s lines = none
    | some r => ∃ s', listLoopR rc pfx s lines = some s' ∧ FilesFrame s s' r.1 r.2 := by
  induction lines generalizing s with
  | nil =>
    simp only [blockOwn, listLoopR]
    exact ⟨s, rfl, ⟨rfl, rfl, rfl, rfl, rfl, rfl, fun _ _ => rfl, fun _ h => Or.inl h⟩⟩
  | cons l ls ih =>
    cases l with
    | header n => simp [ListLine.isFiles] at hl
    | files fs label =>
      have hls : ∀ l ∈ ls, l.isFiles = true := fun l h => hl l (List.mem_cons_of_mem _ h)
      simp only [blockOwn, listLoopR, listStepR]
      cases ha : addFiles (dictGet s.st.dict s.curName) (fs.map (fun f => (f.path, lineLabel fs label))) with
      | none => simp
      | some d1 =>
        simp only
        have := ih hls { s with st := { s.st with dict := dictSet s.st.dict s.curName d1 },
                                cur := s.cur ++ [fs.map InFile.path] }
        simp only [dictGet_set_same'] at this
        cases hb : blockOwn d1 (s.cur ++ [fs.map InFile.path]) ls with
        | none => simp only [hb] at this; simpa using this
        | some r =>
          simp only [hb] at this
          obtain ⟨s', hs', fr⟩ := this
          refine ⟨s', hs', ?_⟩
          exact ⟨fr.cur, fr.curName, fr.names, fr.index, fr.acc, fr.own,
            fun k hk => by rw [fr.other k hk]; exact dictGet_set_other' _ _ _ _ hk,
            fun k hk => by
              rcases fr.keys k hk with h | h
              · exact hasKey_set' _ _ _ _ h
              · exact Or.inr h⟩

def finishWith (d : NameDict) (acc : List (String × List (List String) × Option (List String))) : List ParsedSample :=
  acc.map (fun t => ⟨t.1, t.2.1, dictGet d t.1, t.2.2⟩)

theorem finishParse_eq (st : ParseSt) : finishParse st = finishWith st.dict st.acc := rfl

theorem finishWith_congr (d d' : NameDict) (acc : List (String × List (List String) × Option (List String)))
    (h : ∀ t ∈ acc, dictGet d' t.1 = dictGet d t.1) : finishWith d' acc = finishWith d acc := by
  unfold finishWith
  apply List.map_congr_left
  intro t ht
  rw [h t ht]

structure ListInv (s : ListSt) (outs : List ParsedSample) (used : List String) : Prop where
  fin : finishParse s.flush = outs
  names : ∀ n ∈ s.flush.names, n ∈ used
  keys : ∀ k, hasKey s.st.dict k = true → k ∈ used
  acc : ∀ t ∈ s.flush.acc, t.1 ∈ used

theorem flush_dict (s : ListSt) : s.flush.dict = s.st.dict := by
  unfold ListSt.flush; split <;> rfl

theorem flush_index (s : ListSt) : s.flush.index = s.st.index := by
  unfold ListSt.flush; split <;> rfl

theorem listBlock_own (rc : Bool) (pfx : String) (s : ListSt) (outs : List ParsedSample) (used : List String)
    (n : String) (lines : List ListLine) (hI : ListInv s outs used) (hne : n.isEmpty = false)
    (hfresh : n ∉ used) (hl : ∀ l ∈ lines, l.isFiles = true) :
    match ownBlock n lines with
    | none => listLoopR rc pfx s (ListLine.header n :: lines) = none
    | some r => ∃ s', listLoopR rc pfx s (ListLine.header n :: lines) = some s' ∧ ListInv s' (outs ++ r.toList) (n :: used) := by
  have hnames : s.flush.names.contains n = false := by
    rw [Bool.eq_false_iff]
    intro h
    exact hfresh (hI.names n (by simpa using h))
  have hkey : hasKey s.st.dict n = false := by
    rw [Bool.eq_false_iff]
    intro h
    exact hfresh (hI.keys n h)
  -- the header line
  have hhead : listStepR rc pfx s (ListLine.header n)
      = some ⟨{ s.flush with index := s.flush.index + 1 }, [], n⟩ := by
    have hmem : n ∉ s.flush.names := fun h => hfresh (hI.names n h)
    simp [listStepR, hne, hmem]
  simp only [listLoopR, hhead]
  -- the file lines
  have hfiles := listLoop_files rc pfx lines hl ⟨{ s.flush with index := s.flush.index + 1 }, [], n⟩
  have hd : dictGet s.flush.dict n = [] := by rw [flush_dict]; exact dictGet_fresh _ _ hkey
  dsimp only at hfiles
  rw [hd] at hfiles
  unfold ownBlock
  cases hb : blockOwn [] [] lines with
  | none => simp only [hb] at hfiles; simpa using hfiles
  | some r =>
    obtain ⟨d, c⟩ := r
    simp only [hb] at hfiles
    obtain ⟨s', hs', fr⟩ := hfiles
    have hcur := fr.cur; have hcn := fr.curName; have hnm := fr.names; have hacc := fr.acc
    have hown := fr.own; have hoth := fr.other; have hkeys := fr.keys
    dsimp only at hcur hcn hnm hacc hown hoth hkeys
    have hold : ∀ t ∈ s.flush.acc, dictGet s'.st.dict t.1 = dictGet s.flush.dict t.1 := by
      intro t ht
      have : t.1 ≠ n := fun e => hfresh (e ▸ hI.acc t ht)
      rw [hoth t.1 this]
    have hfinOld : finishWith s'.st.dict s.flush.acc = outs := by
      rw [finishWith_congr _ _ _ hold, ← finishParse_eq, hI.fin]
    have hkeys' : ∀ k, hasKey s'.st.dict k = true → k ∈ n :: used := by
      intro k hk
      rcases hkeys k hk with h | h
      · rw [flush_dict] at h; exact List.mem_cons_of_mem _ (hI.keys k h)
      · exact h ▸ List.mem_cons_self
    by_cases hemp : c.isEmpty = true
    · simp only [hemp, if_true]
      refine ⟨s', hs', ?_⟩
      have hfl : s'.flush = s'.st := by simp [ListSt.flush, hcur, hemp]
      constructor
      · rw [hfl, finishParse_eq, hacc]; simpa [Option.toList] using hfinOld
      · intro m hm; rw [hfl, hnm] at hm; exact List.mem_cons_of_mem _ (hI.names m hm)
      · exact hkeys'
      · intro t ht; rw [hfl, hacc] at ht; exact List.mem_cons_of_mem _ (hI.acc t ht)
    · simp only [hemp, Bool.false_eq_true, if_false]
      refine ⟨s', hs', ?_⟩
      have hfl : s'.flush = { s'.st with names := s'.st.names ++ [n], acc := s'.st.acc ++ [(n, c, none)] } := by
        simp [ListSt.flush, hcur, hcn, hemp]
      constructor
      · rw [hfl, finishParse_eq]
        simp only [hacc, finishWith, List.map_append, List.map_cons, List.map_nil, Option.toList, hown]
        have := hfinOld
        simp only [finishWith] at this
        rw [this]
      · intro m hm
        rw [hfl] at hm
        simp only [hnm] at hm
        rcases List.mem_append.mp hm with h | h
        · exact List.mem_cons_of_mem _ (hI.names m h)
        · simp only [List.mem_singleton] at h; exact h ▸ List.mem_cons_self
      · exact hkeys'
      · intro t ht
        rw [hfl] at ht
        simp only [hacc] at ht
        rcases List.mem_append.mp ht with h | h
        · exact List.mem_cons_of_mem _ (hI.acc t h)
        · simp only [List.mem_singleton] at h; rw [h]; exact List.mem_cons_self

theorem listLoop_append (rc : Bool) (pfx : String) (l1 l2 : List ListLine) (s : ListSt) :
    listLoopR rc pfx s (l1 ++ l2) = (listLoopR rc pfx s l1).bind (fun s' => listLoopR rc pfx s' l2) := by
  induction l1 generalizing s with
  | nil => simp [listLoopR]
  | cons l ls ih =>
    simp only [List.cons_append, listLoopR]
    cases listStepR rc pfx s l with
    | none => simp
    | some s' => simpa using ih s'

theorem listLoop_blocks (rc : Bool) (pfx : String) (blocks : List (String × List ListLine)) (s : ListSt)
    (outs : List ParsedSample) (used : List String) (hI : ListInv s outs used)
    (hne : ∀ b ∈ blocks, b.1.isEmpty = false ∧ ∀ l ∈ b.2, l.isFiles = true)
    (hnd : (blocks.map Prod.fst).Nodup) (hfresh : ∀ b ∈ blocks, b.1 ∉ used) :
    (listLoopR rc pfx s (renderBlocks blocks)).map (fun s' => finishParse s'.flush)
      = (parseEachOwnBlock blocks).map (fun rs => outs ++ rs) := by
  induction blocks generalizing s outs used with
  | nil => simp [renderBlocks, listLoopR, parseEachOwnBlock, hI.fin]
  | cons b bs ih =>
    obtain ⟨n, lines⟩ := b
    have hb := hne (n, lines) List.mem_cons_self
    simp only [List.map_cons, List.nodup_cons] at hnd
    have hstep := listBlock_own rc pfx s outs used n lines hI hb.1 (hfresh (n, lines) List.mem_cons_self) hb.2
    have hr : renderBlocks ((n, lines) :: bs) = (ListLine.header n :: lines) ++ renderBlocks bs := by
      simp [renderBlocks]
    rw [hr, listLoop_append]
    simp only [parseEachOwnBlock]
    cases hp : ownBlock n lines with
    | none =>
      simp only [hp] at hstep
      simp [hstep]
    | some r =>
      simp only [hp] at hstep
      obtain ⟨s', hs, hI'⟩ := hstep
      simp only [hs, Option.bind]
      have := ih s' (outs ++ r.toList) (n :: used) hI'
        (fun b hb' => hne b (List.mem_cons_of_mem _ hb')) hnd.2 (by
          intro b hb' hmu
          rcases List.mem_cons.mp hmu with h | h
          · exact hnd.1 (List.mem_map.mpr ⟨b, hb', h⟩)
          · exact hfresh b (List.mem_cons_of_mem _ hb') h)
      rw [this]
      cases parseEachOwnBlock bs <;> simp [List.append_assoc]

/-! ### unionKeys -/

theorem mem_unionKeys (acc ks : List String) (x : String) :
    x ∈ unionKeys acc ks ↔ x ∈ acc ∨ x ∈ ks := by
  induction ks generalizing acc with
  | nil => simp [unionKeys]
  | cons k ks ih =>
    simp only [unionKeys]
    split
    · rename_i hk
      rw [ih]
      have : k ∈ acc := by simpa using hk
      constructor
      · rintro (h | h)
        · exact Or.inl h
        · exact Or.inr (List.mem_cons_of_mem _ h)
      · rintro (h | h)
        · exact Or.inl h
        · rcases List.mem_cons.mp h with rfl | h
          · exact Or.inl this
          · exact Or.inr h
    · rw [ih]
      simp [or_assoc]

theorem nodup_unionKeys (acc ks : List String) (h : acc.Nodup) : (unionKeys acc ks).Nodup := by
  induction ks generalizing acc with
  | nil => simpa [unionKeys]
  | cons k ks ih =>
    simp only [unionKeys]
    split
    · exact ih acc h
    · rename_i hk
      apply ih
      have hk' : k ∉ acc := by simpa using hk
      rw [List.nodup_append]
      refine ⟨h, by simp, ?_⟩
      intro a ha b hb
      simp only [List.mem_singleton] at hb
      subst hb
      intro hab
      subst hab
      exact hk' ha

def allKeys (tabs : List Table) (acc : List String) : List String :=
  tabs.foldl (fun acc t => unionKeys acc (t.map Prod.fst)) acc

theorem mem_allKeys (tabs : List Table) (acc : List String) (x : String) :
    x ∈ allKeys tabs acc ↔ x ∈ acc ∨ ∃ t ∈ tabs, x ∈ t.map Prod.fst := by
  induction tabs generalizing acc with
  | nil => simp [allKeys]
  | cons t tabs ih =>
    simp only [allKeys, List.foldl_cons] at ih ⊢
    rw [ih, mem_unionKeys]
    constructor
    · rintro ((h | h) | ⟨t', ht', h⟩)
      · exact Or.inl h
      · exact Or.inr ⟨t, List.mem_cons_self, h⟩
      · exact Or.inr ⟨t', List.mem_cons_of_mem _ ht', h⟩
    · rintro (h | ⟨t', ht', h⟩)
      · exact Or.inl (Or.inl h)
      · rcases List.mem_cons.mp ht' with rfl | ht'
        · exact Or.inl (Or.inr h)
        · exact Or.inr ⟨t', ht', h⟩

theorem nodup_allKeys (tabs : List Table) (acc : List String) (h : acc.Nodup) : (allKeys tabs acc).Nodup := by
  induction tabs generalizing acc with
  | nil => simpa [allKeys]
  | cons t tabs ih =>
    simp only [allKeys, List.foldl_cons] at ih ⊢
    exact ih _ (nodup_unionKeys acc _ h)

/-! ### lookup in a table with distinct keys -/

theorem lookup_some_mem (t : Table) (k v : String) (h : t.lookup k = some v) : (k, v) ∈ t := by
  induction t with
  | nil => simp at h
  | cons p t ih =>
    obtain ⟨a, b⟩ := p
    by_cases hk : k = a
    · subst hk
      simp [List.lookup] at h
      subst h
      exact List.mem_cons_self
    · have : (k == a) = false := by simpa using hk
      simp [List.lookup, this] at h
      exact List.mem_cons_of_mem _ (ih h)

theorem mem_lookup_some (t : Table) (hnd : (t.map Prod.fst).Nodup) (k v : String) (h : (k, v) ∈ t) :
    t.lookup k = some v := by
  induction t with
  | nil => simp at h
  | cons p t ih =>
    obtain ⟨a, b⟩ := p
    simp only [List.map_cons, List.nodup_cons] at hnd
    rcases List.mem_cons.mp h with heq | hin
    · have h1 : k = a := (Prod.mk.inj heq).1
      have h2 : v = b := (Prod.mk.inj heq).2
      subst h1; subst h2
      simp [List.lookup]
    · have hne : k ≠ a := by
        intro hka
        subst hka
        exact hnd.1 (List.mem_map.mpr ⟨(k, v), hin, rfl⟩)
      have : (k == a) = false := by simpa using hne
      simp [List.lookup, this]
      exact ih hnd.2 hin

theorem nodup_take_keys (t : Table) (n : Nat) (h : (t.map Prod.fst).Nodup) : ((t.take n).map Prod.fst).Nodup := by
  rw [List.map_take]
  exact List.Sublist.nodup (List.take_sublist n _) h

theorem transformCounts_nodup (full : Bool) (t : Table) (h : (t.map Prod.fst).Nodup) :
    ((transformCounts full t).map Prod.fst).Nodup := by
  unfold transformCounts
  split
  · exact h
  · exact nodup_take_keys t _ h

/-! ### combineTable -/

theorem combineTable_rows (full : Bool) (ts : List (String × Table)) :
    (combineTable full ts).2 =
      (allKeys (ts.map (fun p => transformCounts full p.2)) []).map
        (fun k => (k, (ts.map (fun p => transformCounts full p.2)).map (fun t => t.lookup k))) := rfl

theorem combine_keys_nodup (full : Bool) (ts : List (String × Table)) :
    ((combineTable full ts).2.map Prod.fst).Nodup := by
  rw [combineTable_rows, List.map_map]
  have : (Prod.fst ∘ fun k => (k, (ts.map (fun p => transformCounts full p.2)).map (fun t => List.lookup k t)))
      = (id : String → String) := by
    funext k; rfl
  rw [this, List.map_id]
  exact nodup_allKeys _ [] List.nodup_nil

theorem combine_cell_iff (full : Bool) (ts : List (String × Table))
    (hnd : ∀ p ∈ ts, (p.2.map Prod.fst).Nodup) (i : Nat) (p : String × Table) (hi : ts[i]? = some p)
    (k v : String) :
    (∃ row ∈ (combineTable full ts).2, row.1 = k ∧ row.2[i]? = some (some v))
      ↔ (k, v) ∈ transformCounts full p.2 := by
  rw [combineTable_rows]
  have hp : p ∈ ts := List.mem_of_getElem? hi
  have hcell : ∀ k', ((ts.map (fun p => transformCounts full p.2)).map (fun t => t.lookup k'))[i]?
      = some ((transformCounts full p.2).lookup k') := by
    intro k'
    simp [List.getElem?_map, hi]
  constructor
  · rintro ⟨row, hrow, hk, hc⟩
    obtain ⟨k', _, rfl⟩ := List.mem_map.mp hrow
    simp only at hk hc
    subst hk
    rw [hcell] at hc
    exact lookup_some_mem _ _ _ (Option.some.inj hc)
  · intro hmem
    have hlk : (transformCounts full p.2).lookup k = some v :=
      mem_lookup_some _ (transformCounts_nodup full p.2 (hnd p hp)) k v hmem
    refine ⟨(k, (ts.map (fun p => transformCounts full p.2)).map (fun t => t.lookup k)), ?_, rfl, ?_⟩
    · apply List.mem_map.mpr
      refine ⟨k, ?_, rfl⟩
      rw [mem_allKeys]
      refine Or.inr ⟨transformCounts full p.2, ?_, ?_⟩
      · exact List.mem_map.mpr ⟨p, hp, rfl⟩
      · exact List.mem_map.mpr ⟨(k, v), hmem, rfl⟩
    · simp only
      rw [hcell, hlk]

end IsoVerif.Lemmas.C10
