/-
Helper lemmas for C10 (Model/Samples.lean): task lists under the per-task reset, outer join.
-/
import IsoVerif.Model.Samples

namespace IsoVerif.Lemmas.C10
open IsoVerif.Model.C10

/-! ### chromosome tasks under the per-task reset -/

theorem chrTask_reset (w : Wiring) (h : w.resetDetectedPerTask = true) (cfg : Config) (fl : Flags)
    (d : List String) (c : ChrData) : chrTask w cfg fl d c = chrTask w cfg fl [] c := by
  simp [chrTask, h]

theorem runSeq_eq_map (w : Wiring) (h : w.resetDetectedPerTask = true) (cfg : Config) (fl : Flags)
    (d : List String) (cs : List ChrData) :
    (runSeq w cfg fl d cs).1 = cs.map (fun c => (chrTask w cfg fl [] c).1) := by
  induction cs generalizing d with
  | nil => rfl
  | cons c cs ih =>
    simp only [runSeq, List.map_cons, ih]
    rw [chrTask_reset w h cfg fl d c]

theorem runPool_eq_map (w : Wiring) (h : w.resetDetectedPerTask = true) (cfg : Config) (fl : Flags)
    (d0 : List String) (ws : List (Nat × List String)) (assign : List Nat) (cs : List ChrData) :
    runPool w cfg fl d0 ws assign cs = cs.map (fun c => (chrTask w cfg fl [] c).1) := by
  induction cs generalizing ws assign with
  | nil => rfl
  | cons c cs ih =>
    simp only [runPool, List.map_cons, ih]
    rw [chrTask_reset w h cfg fl _ c]

/-! ### assignment ids: loading a chromosome does not depend on the number its ids start from -/

def shiftId (d : Nat) (e : Entry) : Entry := { e with id := e.id + d }

theorem entriesFrom_chr (c : String) (k : Nat) (recs : List Rec) : ∀ e ∈ entriesFrom c k recs, e.chr = c := by
  induction recs generalizing k with
  | nil => simp [entriesFrom]
  | cons r rs ih =>
    intro e he
    simp only [entriesFrom] at he
    split at he
    · rcases List.mem_cons.mp he with rfl | h
      · rfl
      · exact ih _ e h
    · exact ih _ e he

theorem entriesFrom_shift (c : String) (k d : Nat) (recs : List Rec) :
    entriesFrom c (k + d) recs = (entriesFrom c k recs).map (shiftId d) := by
  induction recs generalizing k with
  | nil => rfl
  | cons r rs ih =>
    simp only [entriesFrom]
    have h : k + d + 1 = k + 1 + d := by omega
    split
    · simp [h, ih, shiftId]
    · simp [h, ih]

theorem foldl_lookup_shift (c : String) (d : Nat) (rid : String) (id : Nat) (es : List Entry) (acc : Option Nat) :
    (es.map (shiftId d)).foldl
        (fun acc e => if e.readId == rid && e.id == id + d && e.chr == c then some e.verdict else acc) acc
      = es.foldl (fun acc e => if e.readId == rid && e.id == id && e.chr == c then some e.verdict else acc) acc := by
  induction es generalizing acc with
  | nil => rfl
  | cons e es ih =>
    simp only [List.map_cons, List.foldl_cons]
    have : ((shiftId d e).id == id + d) = (e.id == id) := by
      simp only [shiftId]
      rw [Bool.eq_iff_iff]
      simp
    simp only [this]
    exact ih _

theorem lookupLast_shift (c : String) (d : Nat) (es : List Entry) (rid : String) (id : Nat) :
    lookupLast c (es.map (shiftId d)) rid (id + d) = lookupLast c es rid id :=
  foldl_lookup_shift c d rid id es none

theorem any_shift (d : Nat) (es : List Entry) (rid : String) :
    (es.map (shiftId d)).any (fun e => e.readId == rid) = es.any (fun e => e.readId == rid) := by
  induction es with
  | nil => rfl
  | cons e es ih =>
    simp only [List.map_cons, List.any_cons, ih]
    rfl

theorem loadFrom_shift (c : String) (d : Nat) (es : List Entry) (k : Nat) (recs : List Rec) :
    loadFrom c (es.map (shiftId d)) (k + d) recs = loadFrom c es k recs := by
  induction recs generalizing k with
  | nil => rfl
  | cons r rs ih =>
    simp only [loadFrom]
    have h : k + d + 1 = k + 1 + d := by omega
    rw [h, ih, any_shift, lookupLast_shift]

theorem filter_own (c : String) (es : List Entry) (h : ∀ e ∈ es, e.chr = c) :
    es.filter (fun e => e.chr == c) = es := by
  apply List.filter_eq_self.mpr
  intro e he
  simp [h e he]

theorem filter_foreign (c : String) (foreign : List Entry) (h : ∀ e ∈ foreign, e.chr ≠ c) :
    foreign.filter (fun e => e.chr == c) = [] := by
  apply List.filter_eq_nil_iff.mpr
  intro e he
  simp [h e he]

theorem loadChr_base_zero (c : String) (base : Nat) (recs : List Rec) (foreign : List Entry)
    (hf : ∀ e ∈ foreign, e.chr ≠ c) :
    loadChr c base recs foreign = loadChr c 0 recs [] := by
  unfold loadChr
  rw [List.filter_append, filter_foreign c foreign hf, List.nil_append, List.nil_append,
    filter_own c _ (entriesFrom_chr c base recs), filter_own c _ (entriesFrom_chr c 0 recs)]
  have h1 : entriesFrom c base recs = (entriesFrom c 0 recs).map (shiftId base) := by
    have := entriesFrom_shift c 0 base recs
    simpa using this
  rw [h1]
  have h2 := loadFrom_shift c base (entriesFrom c 0 recs) 0 recs
  simpa using h2

/-! ### unionKeys -/

theorem mem_unionKeys (acc ks : List String) (x : String) :
    x ∈ unionKeys acc ks ↔ x ∈ acc ∨ x ∈ ks := by
  induction ks generalizing acc with
  | nil => simp [unionKeys]
  | cons k ks ih =>
    simp only [unionKeys]
    split
    · rename_i hk
      rw [ih]
      have : k ∈ acc := by simpa using hk
      constructor
      · rintro (h | h)
        · exact Or.inl h
        · exact Or.inr (List.mem_cons_of_mem _ h)
      · rintro (h | h)
        · exact Or.inl h
        · rcases List.mem_cons.mp h with rfl | h
          · exact Or.inl this
          · exact Or.inr h
    · rw [ih]
      simp [or_assoc]

theorem nodup_unionKeys (acc ks : List String) (h : acc.Nodup) : (unionKeys acc ks).Nodup := by
  induction ks generalizing acc with
  | nil => simpa [unionKeys]
  | cons k ks ih =>
    simp only [unionKeys]
    split
    · exact ih acc h
    · rename_i hk
      apply ih
      have hk' : k ∉ acc := by simpa using hk
      rw [List.nodup_append]
      refine ⟨h, by simp, ?_⟩
      intro a ha b hb
      simp only [List.mem_singleton] at hb
      subst hb
      intro hab
      subst hab
      exact hk' ha

def allKeys (tabs : List Table) (acc : List String) : List String :=
  tabs.foldl (fun acc t => unionKeys acc (t.map Prod.fst)) acc

theorem mem_allKeys (tabs : List Table) (acc : List String) (x : String) :
    x ∈ allKeys tabs acc ↔ x ∈ acc ∨ ∃ t ∈ tabs, x ∈ t.map Prod.fst := by
  induction tabs generalizing acc with
  | nil => simp [allKeys]
  | cons t tabs ih =>
    simp only [allKeys, List.foldl_cons] at ih ⊢
    rw [ih, mem_unionKeys]
    constructor
    · rintro ((h | h) | ⟨t', ht', h⟩)
      · exact Or.inl h
      · exact Or.inr ⟨t, List.mem_cons_self, h⟩
      · exact Or.inr ⟨t', List.mem_cons_of_mem _ ht', h⟩
    · rintro (h | ⟨t', ht', h⟩)
      · exact Or.inl (Or.inl h)
      · rcases List.mem_cons.mp ht' with rfl | ht'
        · exact Or.inl (Or.inr h)
        · exact Or.inr ⟨t', ht', h⟩

theorem nodup_allKeys (tabs : List Table) (acc : List String) (h : acc.Nodup) : (allKeys tabs acc).Nodup := by
  induction tabs generalizing acc with
  | nil => simpa [allKeys]
  | cons t tabs ih =>
    simp only [allKeys, List.foldl_cons] at ih ⊢
    exact ih _ (nodup_unionKeys acc _ h)

/-! ### lookup in a table with distinct keys -/

theorem lookup_some_mem (t : Table) (k v : String) (h : t.lookup k = some v) : (k, v) ∈ t := by
  induction t with
  | nil => simp at h
  | cons p t ih =>
    obtain ⟨a, b⟩ := p
    by_cases hk : k = a
    · subst hk
      simp [List.lookup] at h
      subst h
      exact List.mem_cons_self
    · have : (k == a) = false := by simpa using hk
      simp [List.lookup, this] at h
      exact List.mem_cons_of_mem _ (ih h)

theorem mem_lookup_some (t : Table) (hnd : (t.map Prod.fst).Nodup) (k v : String) (h : (k, v) ∈ t) :
    t.lookup k = some v := by
  induction t with
  | nil => simp at h
  | cons p t ih =>
    obtain ⟨a, b⟩ := p
    simp only [List.map_cons, List.nodup_cons] at hnd
    rcases List.mem_cons.mp h with heq | hin
    · have h1 : k = a := (Prod.mk.inj heq).1
      have h2 : v = b := (Prod.mk.inj heq).2
      subst h1; subst h2
      simp [List.lookup]
    · have hne : k ≠ a := by
        intro hka
        subst hka
        exact hnd.1 (List.mem_map.mpr ⟨(k, v), hin, rfl⟩)
      have : (k == a) = false := by simpa using hne
      simp [List.lookup, this]
      exact ih hnd.2 hin

theorem nodup_take_keys (t : Table) (n : Nat) (h : (t.map Prod.fst).Nodup) : ((t.take n).map Prod.fst).Nodup := by
  rw [List.map_take]
  exact List.Sublist.nodup (List.take_sublist n _) h

theorem transformCounts_nodup (full : Bool) (t : Table) (h : (t.map Prod.fst).Nodup) :
    ((transformCounts full t).map Prod.fst).Nodup := by
  unfold transformCounts
  split
  · exact h
  · exact nodup_take_keys t _ h

/-! ### combineTable -/

theorem combineTable_rows (full : Bool) (ts : List (String × Table)) :
    (combineTable full ts).2 =
      (allKeys (ts.map (fun p => transformCounts full p.2)) []).map
        (fun k => (k, (ts.map (fun p => transformCounts full p.2)).map (fun t => t.lookup k))) := rfl

theorem combine_keys_nodup (full : Bool) (ts : List (String × Table)) :
    ((combineTable full ts).2.map Prod.fst).Nodup := by
  rw [combineTable_rows, List.map_map]
  have : (Prod.fst ∘ fun k => (k, (ts.map (fun p => transformCounts full p.2)).map (fun t => List.lookup k t)))
      = (id : String → String) := by
    funext k; rfl
  rw [this, List.map_id]
  exact nodup_allKeys _ [] List.nodup_nil

theorem combine_cell_iff (full : Bool) (ts : List (String × Table))
    (hnd : ∀ p ∈ ts, (p.2.map Prod.fst).Nodup) (i : Nat) (p : String × Table) (hi : ts[i]? = some p)
    (k v : String) :
    (∃ row ∈ (combineTable full ts).2, row.1 = k ∧ row.2[i]? = some (some v))
      ↔ (k, v) ∈ transformCounts full p.2 := by
  rw [combineTable_rows]
  have hp : p ∈ ts := List.mem_of_getElem? hi
  have hcell : ∀ k', ((ts.map (fun p => transformCounts full p.2)).map (fun t => t.lookup k'))[i]?
      = some ((transformCounts full p.2).lookup k') := by
    intro k'
    simp [List.getElem?_map, hi]
  constructor
  · rintro ⟨row, hrow, hk, hc⟩
    obtain ⟨k', _, rfl⟩ := List.mem_map.mp hrow
    simp only at hk hc
    subst hk
    rw [hcell] at hc
    exact lookup_some_mem _ _ _ (Option.some.inj hc)
  · intro hmem
    have hlk : (transformCounts full p.2).lookup k = some v :=
      mem_lookup_some _ (transformCounts_nodup full p.2 (hnd p hp)) k v hmem
    refine ⟨(k, (ts.map (fun p => transformCounts full p.2)).map (fun t => t.lookup k)), ?_, rfl, ?_⟩
    · apply List.mem_map.mpr
      refine ⟨k, ?_, rfl⟩
      rw [mem_allKeys]
      refine Or.inr ⟨transformCounts full p.2, ?_, ?_⟩
      · exact List.mem_map.mpr ⟨p, hp, rfl⟩
      · exact List.mem_map.mpr ⟨(k, v), hmem, rfl⟩
    · simp only
      rw [hcell, hlk]

end IsoVerif.Lemmas.C10
